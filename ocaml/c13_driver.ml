(* C13 driver.  One request per line, tokens separated by blanks.
   value (cv):  { key val key val ... }   |  e:<atom> (explicit leaf)  |  d:<atom> (DefaultValue leaf)
   atom: n | t | f | i<int> | s<codepoints> | o<id>;   key / string: dot-separated decimal code points, "_" = empty
   requests:
     M <base> <src> <src> ...      merge scenario: R <du_all> H <heap merged> S <src after>... T <target reaches a source object 0|1>
     P <builtin> op op ...         process scenario; ops: new | file <i> <cv> | ovr <i> <key> <cv> | ovrnone <i> <key>
                                   | lang <i> <key> | langnone <i> | create <i>
                                   output: for each create  C <i> <sections|ERR> <options|ERR> <options of all non-target languages|ERR> ; then F <sections of every builder|ERR> ; ...
                                           then X <what every context reports now> ; ...
     C <builtin> <nfiles> <file>... <argname> <atom> ...    CLI scenario through the translated cli_ops: C 0 <sections|ERR> <options|ERR> *)
open Model

let rec pos_of_int n = if n = 1 then XH else if n land 1 = 0 then XO (pos_of_int (n lsr 1)) else XI (pos_of_int (n lsr 1))
let n_of_int n = if n = 0 then N0 else Npos (pos_of_int n)
let z_of_int n = if n = 0 then Z0 else if n > 0 then Zpos (pos_of_int n) else Zneg (pos_of_int (-n))
let rec int_of_pos = function XH -> 1 | XO p -> 2 * int_of_pos p | XI p -> 2 * int_of_pos p + 1
let int_of_n = function N0 -> 0 | Npos p -> int_of_pos p
let int_of_z = function Z0 -> 0 | Zpos p -> int_of_pos p | Zneg p -> - (int_of_pos p)
let rec nat_of_int n = if n <= 0 then O else S (nat_of_int (n - 1))

let parse_str s = if s = "_" then [] else List.map (fun t -> n_of_int (int_of_string t)) (String.split_on_char '.' s)
let show_str s = if s = [] then "_" else String.concat "." (List.map (fun c -> string_of_int (int_of_n c)) s)

let parse_atom s =
  let rest = String.sub s 1 (String.length s - 1) in
  match s.[0] with
  | 'n' -> ANone | 't' -> ABool true | 'f' -> ABool false
  | 'i' -> AInt (z_of_int (int_of_string rest))
  | 's' -> AStr (parse_str rest)
  | 'o' -> AOpaque (n_of_int (int_of_string rest))
  | 'l' -> AList (n_of_int (int_of_string rest))
  | _ -> failwith ("atom " ^ s)

let show_atom = function
  | ANone -> "n" | ABool true -> "t" | ABool false -> "f"
  | AInt z -> "i" ^ string_of_int (int_of_z z)
  | AStr s -> "s" ^ show_str s
  | AOpaque n -> "o" ^ string_of_int (int_of_n n)
  | AList n -> "l" ^ string_of_int (int_of_n n)

(* recursive descent over a token list *)
let rec parse_cv toks =
  match toks with
  | "{" :: r -> let (items, r') = parse_items r in (Node items, r')
  | t :: r when String.length t >= 3 && t.[1] = ':' ->
      (Leaf ((t.[0] = 'd'), parse_atom (String.sub t 2 (String.length t - 2))), r)
  | t :: _ -> failwith ("value " ^ t)
  | [] -> failwith "value expected"
and parse_items toks =
  match toks with
  | "}" :: r -> ([], r)
  | k :: r -> let (v, r1) = parse_cv r in let (rest, r2) = parse_items r1 in ((parse_str k, v) :: rest, r2)
  | [] -> failwith "unterminated mapping"

let rec show_cv = function
  | Leaf (d, a) -> (if d then "d:" else "e:") ^ show_atom a
  | Node m -> "{ " ^ String.concat "" (List.map (fun (k, v) -> show_str k ^ " " ^ show_cv v ^ " ") m) ^ "}"

let items = function Node m -> m | Leaf _ -> failwith "mapping expected"
let show_sections = function Some s -> show_cv (Node s) | None -> "ERR"

(* everything a context reports after get_supported_languages(): sections, options of all non-target languages *)
let show_observed (b : builder) cs =
  match cs, resolve_language b with
  | Some s, Some l ->
      let (os, s') = observe_ctx (section_of l) s in
      if List.exists (fun (_, o) -> o = None) os then (show_sections (Some s'), "ERR")
      else (show_sections (Some s'), show_cv (Node (List.map (fun (n, o) -> (n, match o with Some x -> Node x | None -> Node [])) os)))
  | _, _ -> ("ERR", "ERR")

(* documents with shared sub-maps:  {#n k v ... } defines dict object n (n > 0),  ^n refers to it,  { ... } is an unshared dict *)
let rec parse_dcv toks =
  match toks with
  | "{" :: r -> let (items, r') = parse_ditems r in (DNode (N0, items), r')
  | t :: r when String.length t >= 3 && String.sub t 0 2 = "{#" ->
      let (items, r') = parse_ditems r in (DNode (n_of_int (int_of_string (String.sub t 2 (String.length t - 2))), items), r')
  | t :: r when String.length t >= 2 && t.[0] = '^' -> (DRef (n_of_int (int_of_string (String.sub t 1 (String.length t - 1)))), r)
  | t :: r when String.length t >= 3 && t.[1] = ':' ->
      (DLeaf ((t.[0] = 'd'), parse_atom (String.sub t 2 (String.length t - 2))), r)
  | t :: _ -> failwith ("dag value " ^ t)
  | [] -> failwith "dag value expected"
and parse_ditems toks =
  match toks with
  | "}" :: r -> ([], r)
  | k :: r -> let (v, r1) = parse_dcv r in let (rest, r2) = parse_ditems r1 in ((parse_str k, v) :: rest, r2)
  | [] -> failwith "unterminated mapping"
let rec parse_dmany toks = match toks with [] -> [] | _ -> let (v, r) = parse_dcv toks in v :: parse_dmany r

let rec parse_many toks = match toks with [] -> [] | _ -> let (v, r) = parse_cv toks in v :: parse_many r

let rec nth_opt l i = match l with [] -> None | x :: r -> if i = 0 then Some x else nth_opt r (i - 1)

let handle line =
  let toks = List.filter (fun t -> t <> "") (String.split_on_char ' ' (String.trim line)) in
  match toks with
  | "M" :: r ->
      let (base, r1) = parse_cv r in
      let srcs = parse_many r1 in
      let merged = du_all base srcs in
      let (hm, hs) = hmerge_scenario deep_update_copies_deeply base srcs in
      let t = tmerge_all deep_update_copies_deeply base srcs in
      print_string ("R " ^ show_cv merged ^ " H " ^ show_cv hm ^ String.concat "" (List.map (fun s -> " S " ^ show_cv s) hs)
                    ^ " T " ^ (if has_src t then "1" else "0") ^ "\n")
  | "D" :: r ->
      (* D <base> <src> ...   (documents may share sub-maps): heap model with the regenerated copy flags; R <merged> S <src after>... *)
      let (base, r1) = parse_dcv r in
      let srcs = parse_dmany r1 in
      let (hm, hs) = hmerge_dag_scenario deep_update_copies_deeply deep_update_rebuilds_copy base srcs in
      print_string ("R " ^ show_cv hm ^ " H " ^ show_cv hm ^ String.concat "" (List.map (fun s -> " S " ^ show_cv s) hs) ^ " T 0\n")
  | "P" :: r ->
      let (builtin, r1) = parse_cv r in
      let builtin = items builtin in
      let out = Buffer.create 1024 in
      let rec go p toks =
        match toks with
        | [] -> p
        | "new" :: r -> go (papply create_detaches_config builtin p PNew) r
        | "file" :: i :: r -> let (v, r') = parse_cv r in go (papply create_detaches_config builtin p (POp (nat_of_int (int_of_string i), AddFile v))) r'
        | "ovr" :: i :: k :: r -> let (v, r') = parse_cv r in
            go (papply create_detaches_config builtin p (POp (nat_of_int (int_of_string i), SetOverride (parse_str k, Some v)))) r'
        | "ovrnone" :: i :: k :: r -> go (papply create_detaches_config builtin p (POp (nat_of_int (int_of_string i), SetOverride (parse_str k, None)))) r
        | "lang" :: i :: k :: r -> go (papply create_detaches_config builtin p (POp (nat_of_int (int_of_string i), SetLanguage (Some (parse_str k))))) r
        | "langnone" :: i :: r -> go (papply create_detaches_config builtin p (POp (nat_of_int (int_of_string i), SetLanguage None))) r
        | "create" :: i :: r ->
            let ii = int_of_string i in
            (match nth_opt p.p_builders ii with
             | None -> Buffer.add_string out ("C " ^ i ^ " ERR ERR ; ")
             | Some hb ->
                 let b = view p hb in
                 let ((b', cs), o) = bcreate_st create_detaches_config b in
                 let (shown, allo) = (match o, cs with Some _, Some _ -> show_observed b cs | _, _ -> (show_sections b'.b_sections, "ERR")) in
                 Buffer.add_string out ("C " ^ i ^ " " ^ shown ^ " "
                                        ^ (match o with Some o -> show_cv (Node o) | None -> "ERR") ^ " " ^ allo ^ " ; "));
            (* the harness observes every new context completely (get_supported_languages) right after create() *)
            let p1 = papply create_detaches_config builtin p (PCreate (nat_of_int ii)) in
            let p2 = if List.length p1.p_ctxs > List.length p.p_ctxs
                     then papply create_detaches_config builtin p1 (PObserve (nat_of_int (List.length p.p_ctxs))) else p1 in
            go p2 r
        | t :: _ -> failwith ("op " ^ t) in
      let p = go empty_proc r1 in
      Buffer.add_string out "F";
      List.iter (fun hb -> Buffer.add_string out (" " ^ show_sections (view p hb).b_sections ^ " ;")) p.p_builders;
      Buffer.add_string out " X";
      List.iteri (fun c _ -> Buffer.add_string out (" " ^ (match ctx_report p (nat_of_int c) with Some s -> show_sections s | None -> "ERR") ^ " ;")) p.p_ctxs;
      print_string (Buffer.contents out ^ "\n")
  | "C" :: r ->
      let (builtin, r1) = parse_cv r in
      let builtin = items builtin in
      (match r1 with
       | n :: r2 ->
           let rec take k toks acc = if k = 0 then (List.rev acc, toks) else let (v, r') = parse_cv toks in take (k - 1) r' (v :: acc) in
           let (files, r3) = take (int_of_string n) r2 [] in
           let rec args toks = match toks with a :: v :: r' -> (parse_str a, parse_atom v) :: args r' | _ -> [] in
           let al = args r3 in
           (* the pairs are what was literally GIVEN on the command line; the Namespace is cli_args given (regenerated defaults) *)
           let given k = try Some (List.assoc k al) with Not_found -> None in
           let arg k = cli_args given k in
           let b = List.fold_left bapply (new_builder builtin) (cli_ops arg files) in
           let ((b', cs), o) = bcreate_st create_detaches_config b in
           let (shown, allo) = (match o, cs with Some _, Some _ -> show_observed b cs | _, _ -> (show_sections b'.b_sections, "ERR")) in
           print_string ("C 0 " ^ shown ^ " " ^ (match o with Some o -> show_cv (Node o) | None -> "ERR") ^ " " ^ allo ^ " ; F X\n")
       | [] -> failwith "C: file count expected")
  | "G" :: r ->
      (* G <sections> <section> <key> v|b|d <default>   default: v: - or <str>;  b: t|f;  d: - or <cv> *)
      let (secs, r1) = parse_cv r in
      let secs = items secs in
      let show_res f = function CfgOk a -> "ok " ^ f a | CfgKeyError -> "keyerror" | CfgTypeError -> "typeerror" | CfgUnmodelled -> "unmodelled" in
      (match r1 with
       | sec :: k :: "v" :: d :: _ ->
           print_string ("G " ^ show_res (fun s -> "s" ^ show_str s)
                                  (config_value secs (parse_str sec) (parse_str k) (if d = "-" then None else Some (parse_str d))) ^ "\n")
       | sec :: k :: "b" :: d :: _ ->
           print_string ("G " ^ show_res (fun b -> if b then "t" else "f") (config_value_as_bool secs (parse_str sec) (parse_str k) (d = "t")) ^ "\n")
       | sec :: k :: "d" :: d ->
           let dv = (match d with "-" :: _ -> None | _ -> Some (items (fst (parse_cv d)))) in
           print_string ("G " ^ show_res (fun m -> show_cv (Node m)) (config_value_as_dict secs (parse_str sec) (parse_str k) dv) ^ "\n")
       | sec :: k :: "l" :: d :: _ ->
           let dv = if d = "-" then None else Some (n_of_int (int_of_string d)) in
           print_string ("G " ^ show_res (fun i -> "l" ^ string_of_int (int_of_n i)) (config_value_as_list secs (parse_str sec) (parse_str k) dv) ^ "\n")
       | _ -> print_string "ERR G\n")
  | _ -> print_string "ERR request\n"

let () =
  try
    while true do
      let line = input_line stdin in
      (try handle line with Failure m -> print_string ("ERR " ^ m ^ "\n") | Not_found -> print_string "ERR notfound\n");
      flush stdout
    done
  with End_of_file -> ()
