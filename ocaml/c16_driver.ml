(* C16 driver: line protocol over the extracted model (Gen/LookupInst.v).
   strings: dot-separated decimal code points, `e` = empty string; lists: comma separated, `_` = empty list; `-` = None.
   L <q_shared 0|1> <A|F> <fs> <pkg> <seq>     fs: `-` or user search paths separated by `|`, each the RAW (unsorted) list of relative
                                               paths; pkg: `-` or raw list; seq: list of class ids
       -> R <res,...> S <spec,...> O <outcome,...> X <property outcome,...> F <flat 0|1> H <shadow_free 0|1,...>
          res: string or `-`;  outcome: T (no template) | N:<name> (TemplateNotFound) | R:U<i>:<name> | R:P:<name>
   G <A|F> <fs> <pkg> <names>                  -> G <U<i>|P|N,...>
   T <q_dt_only 0|1> <name> <cls id> <dt id>   -> T <1|0|N> <spec 1|0|N>
   E <allow> <q_unchecked> <dsdl> <lang> <ug> <uf> <ut> <post>     u*: list of name=int ; post: list of t:name=int | f:name=int
       -> ERR  |  OK g <name=tag,...> f <...> t <...>      tag: S | D | U<int> *)
open Model

let rec pos_of_int n = if n = 1 then XH else if n land 1 = 0 then XO (pos_of_int (n lsr 1)) else XI (pos_of_int (n lsr 1))
let n_of_int n = if n = 0 then N0 else Npos (pos_of_int n)
let rec int_of_pos = function XH -> 1 | XO p -> 2 * int_of_pos p | XI p -> 2 * int_of_pos p + 1
let int_of_n = function N0 -> 0 | Npos p -> int_of_pos p

let parse_str s = if s = "e" then [] else List.map (fun t -> n_of_int (int_of_string t)) (String.split_on_char '.' s)
let show_str s = if s = [] then "e" else String.concat "." (List.map (fun c -> string_of_int (int_of_n c)) s)
let parse_list f s = if s = "_" then [] else List.map f (String.split_on_char ',' s)
let show_list f l = if l = [] then "_" else String.concat "," (List.map f l)
let parse_opt f s = if s = "-" then None else Some (f s)
let split2 c s = match String.index_opt s c with
  | Some i -> (String.sub s 0 i, String.sub s (i + 1) (String.length s - i - 1))
  | None -> failwith ("bad pair " ^ s)
let parse_entry s = let (a, b) = split2 ':' s in (parse_str a, parse_str b)
let parse_tset = parse_opt (parse_list parse_str)
let parse_roots s = if s = "-" then None else Some (List.map (parse_list parse_str) (String.split_on_char '|' s))
let rec int_of_nat = function O -> 0 | S n -> 1 + int_of_nat n
let show_origin = function OUserDir i -> "U" ^ string_of_int (int_of_nat i) | OPkg -> "P"
let show_outcome = function
  | NoTemplate -> "T" | NotFound n -> "N:" ^ show_str n | Rendered (o, n) -> "R:" ^ show_origin o ^ ":" ^ show_str n
let parse_pol s = if s = "A" then FIND_ALL else FIND_FIRST
let flag s = s = "1"
let show_res = function None -> "-" | Some p -> show_str p
let show_src = function None -> "N" | Some o -> show_origin o
let show_ob = function None -> "N" | Some true -> "1" | Some false -> "0"
let parse_named s = let (a, b) = split2 '=' s in (parse_str a, n_of_int (int_of_string b))
let parse_post s = let (k, r) = split2 ':' s in let (n, v) = parse_named r in
  if k = "t" then OpTest (n, OUser v) else OpFilter (n, OUser v)
let show_owner = function OBuiltin | OReserved | OLang -> "S" | ODsdl -> "D" | OUser v -> "U" ^ string_of_int (int_of_n v)
let show_coll c = show_list (fun (n, o) -> show_str n ^ "=" ^ show_owner o) c

let handle line =
  match String.split_on_char ' ' (String.trim line) with
  | ["L"; q; pol; fs; pkg; seq] ->
    let pol = parse_pol pol and fs = parse_roots fs and pkg = parse_tset pkg in
    let cs = parse_list (fun t -> n_of_int (int_of_string t)) seq in
    let res = p_lookup_seq (flag q) pol fs pkg cs in
    let spec = p_spec_seq pol fs pkg cs in
    let out = p_rendered_seq (flag q) pol fs pkg cs in
    let prop = List.map (p_spec_rendered pol fs pkg) cs in
    let b x = if x then "1" else "0" in
    "R " ^ show_list show_res res ^ " S " ^ show_list show_res spec ^ " O " ^ show_list show_outcome out
    ^ " X " ^ show_list show_outcome prop ^ " F " ^ b (p_flatb pol fs pkg) ^ " H " ^ show_list (fun c -> b (p_shadow_freeb pol fs pkg c)) cs
  | ["G"; pol; fs; pkg; names] ->
    let pol = parse_pol pol and fs = parse_roots fs and pkg = parse_tset pkg in
    "G " ^ show_list (fun n -> show_src (p_get_source pol fs pkg (parse_str n))) (if names = "_" then [] else String.split_on_char ',' names)
  | ["T"; q; name; c; d] ->
    let v = { v_cls = n_of_int (int_of_string c); v_dt = n_of_int (int_of_string d) } in
    "T " ^ show_ob (p_test (flag q) (parse_str name) v) ^ " " ^ show_ob (p_test_spec (parse_str name) v)
  | ["E"; allow; q; dsdl; lang; ug; uf; ut; post] ->
    (match p_env_run (flag allow) (flag q) (flag dsdl) (parse_str lang) (parse_list parse_named ug) (parse_list parse_named uf)
             (parse_list parse_named ut) (parse_list parse_post post) with
     | None -> "ERR"
     | Some e -> "OK g " ^ show_coll e.e_globals ^ " f " ^ show_coll e.e_filters ^ " t " ^ show_coll e.e_tests)
  | _ -> "BAD"

let () =
  try
    while true do
      let line = input_line stdin in
      print_string ((try handle line with ex -> "EXC " ^ Printexc.to_string ex) ^ "\n")
    done
  with End_of_file -> ()
