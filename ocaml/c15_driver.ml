(* line protocol:  <pps> <chunk> <chunk> ...
   or:  H <cfg_limit: - | n> <cfg_trim: 0|1> <given: N | - | colon-separated T | L<n> | O>   ->  H <N | - | list>   (_handle_post_processors)
   or:  C <pps> <text>   ->  C <file>      (_copy_header_using_line_pps on a resource file with that text)
   pps: '-' or colon-separated T | L<n>   ;  chunk: 'e' or dot-separated decimal code points
   output: W <file as dot-separated code points or e>   L <linewise spec of concat> *)
open Model

let rec pos_of_int n = if n = 1 then XH else if n land 1 = 0 then XO (pos_of_int (n lsr 1)) else XI (pos_of_int (n lsr 1))
let n_of_int n = if n = 0 then N0 else Npos (pos_of_int n)
let z_of_int n = if n = 0 then Z0 else if n > 0 then Zpos (pos_of_int n) else Zneg (pos_of_int (-n))
let rec int_of_pos = function XH -> 1 | XO p -> 2 * int_of_pos p | XI p -> 2 * int_of_pos p + 1
let int_of_n = function N0 -> 0 | Npos p -> int_of_pos p

let parse_chunk s = if s = "e" then [] else List.map (fun t -> n_of_int (int_of_string t)) (String.split_on_char '.' s)
let show s = if s = [] then "e" else String.concat "." (List.map (fun c -> string_of_int (int_of_n c)) s)
let parse_pps s =
  if s = "-" then [] else
  List.map (fun t -> if t = "T" then PTrim else PLimit (limitEmptyLines_init (z_of_int (int_of_string (String.sub t 1 (String.length t - 1))))))
    (String.split_on_char ':' s)

let rec int_of_z = function Z0 -> 0 | Zpos p -> int_of_pos p | Zneg p -> - (int_of_pos p)
let parse_kinds s =
  if s = "-" then [] else
  List.map (fun t -> if t = "T" then KTrim else if t = "O" then KOther
                     else KLimit (z_of_int (int_of_string (String.sub t 1 (String.length t - 1)))))
    (String.split_on_char ':' s)
let show_kinds l =
  if l = [] then "-" else
  String.concat ":" (List.map (function KTrim -> "T" | KOther -> "O" | KLimit z -> "L" ^ string_of_int (int_of_z z)) l)

let () =
  try
    while true do
      let line = input_line stdin in
      match String.split_on_char ' ' (String.trim line) with
      | ["H"; lim; trim; given] ->
        let cl = if lim = "-" then None else Some (z_of_int (int_of_string lim)) in
        let g = if given = "N" then None else Some (parse_kinds given) in
        (match handle_pps cl (trim = "1") g with
         | None -> print_string "H N\n"
         | Some l -> print_string ("H " ^ show_kinds l ^ "\n"))
      | ["C"; pps; text] ->
        let (_, out) = copy_header pipe_step (py_lines (parse_chunk text)) (parse_pps pps) in
        print_string ("C " ^ show out ^ "\n")
      | pps :: chunks ->
        let ps = parse_pps pps in
        let cs = List.map parse_chunk (List.filter (fun t -> t <> "") chunks) in
        let (_, out) = write_builtin ps cs in
        let (_, lw) = linewise pipe_step ps (List.concat cs) in
        print_string ("W " ^ show out ^ " L " ^ show lw ^ "\n")
      | [] -> print_string "ERR\n"
    done
  with End_of_file -> ()
