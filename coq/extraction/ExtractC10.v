(* Extraction of the C10 model (ExtrOcamlBasic only; N/Z/nat stay Coq datatypes). *)
From Verif Require Import GenState.
Require Extraction ExtrOcamlBasic.
Extraction Language OCaml.
Extraction "model.ml" exec_table LimitEmptyLines_init resolve_in write_builtin.
