(* Extraction of the C10 model (ExtrOcamlBasic only; N/Z/nat stay Coq datatypes). *)
From Verif Require Import GenState.
Require Extraction ExtrOcamlBasic.
Extraction Language OCaml.
Extraction "model.ml" exec_table solid_table LimitEmptyLines_init resolve_in ends_solid write_builtin.
