(* Extraction of the C05 model (ExtrOcamlBasic only; N/Z/nat stay Coq datatypes). *)
From Verif Require Import Wire Walker MetaC05Base MetaC05Rne Gen_C05 MetaC05 MetaC05Float.
Require Extraction ExtrOcamlBasic.
Extraction Language OCaml.
Extraction "model.ml" exported table_ok drv_lit drv_flt drv_capchecks comp_fields is_array is_union py_str_int z_of_dec
  filter_bits2bytes_ceil get_best_fit ser_spec wf_ty bmax extent ct_bits ct_unsigned dmodels
  c_filter_type_from_primitive cpp_filter_type_from_primitive c_lang cpp_lang is_saturated exported_port emit_ok drv_feval float_rule exact64 exported_flag n_c_has_port n_cpp_has_port n_cpp_is_service_type n_cpp_svc n_IsService n_IsRequest n_IsResponse exported_port_k c_macros_distinct names_ok filter_literal_bool c_full_name c_full_name_and_version py_const_token.
