(* Extraction of the C20 model (ExtrOcamlBasic only; N/Z/nat stay Coq datatypes). *)
From Verif Require Import HtmlModel HtmlSkel.
Require Extraction ExtrOcamlBasic.
Extraction Language OCaml.
Extraction "model.ml" site_out faithful_cfg conformant_cfg cfg_docs_escaped sink_is_text unescape html_escape
  markupsafe_escape autoescape_selected html_template_names filter_tag_id filter_url_from_type filter_make_unique
  filter_namespace_doc ung_reset scan wf_tokens no_markup no_special url_links_service
  all_dsdl_text_sinks_escaped table_balanced html_skeletons unsafe_sites sinks_classified_safe
  filter_display_type node_of_dtype node_of_dinst ns_ids_dashed.
