(* Extraction of the C19 model (ExtrOcamlBasic only; N/Z/nat stay Coq datatypes). *)
From Verif Require Import JinjaScan JinjaRxInst JinjaMini.
Require Extraction ExtrOcamlBasic.
Extraction Language OCaml.
Extraction "model.ml" scan_bundled scan_stock inner_with inner_with_trim root_step31 do_lineprefix subparse_variable subparse_block
           render_node render_all builtin_filters has_marker render_assert parse_ifuses eval_if py_splitlines render_ifuses_script scan_combo scan_combo_upstream marker_free_combo mini_bundled mini_upstream code_marker marker_m lineprefix_m.
