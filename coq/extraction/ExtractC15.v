(* Extraction of the C15 model (ExtrOcamlBasic only; N/Z/nat stay Coq datatypes). *)
From Verif Require Import LinePPInst LinePPOrder LinePPRejoinThm.
Require Extraction ExtrOcamlBasic.
Extraction Language OCaml.
Extraction "model.ml" write_builtin pp LimitEmptyLines_init linewise pipe_step handle_pps pk to_pps copy_header py_lines.
