(* Extraction of the C06 model (ExtrOcamlBasic only; N/Z/nat stay Coq datatypes). *)
From Verif Require Import ClosureInst.
Require Extraction ExtrOcamlBasic.
Extraction Language OCaml.
Extraction "model.ml" c_cfg cpp_cfg py_cfg include_list out_path outputs ns_outputs support_outputs py_imports
  guard_c guard_cpp open_ns_cpp close_ns_cpp direct closed c_pod_selfsufficient q_union_live.
