(* Extraction of the C18 model (ExtrOcamlBasic only; N/Z/nat stay Coq datatypes), instantiated with the
   template facts and pick_width regenerated from /repo. *)
From Coq Require Import List NArith ZArith.
From Verif Require Import PyObj Gen_PyObj.
Require Extraction ExtrOcamlBasic.
Extraction Language OCaml.

Definition m_trace (q : bool) (db : tdb) (tid : nat) (ops : list op) : list (pyval * option exc) :=
  trace tmpl_gen pick_width_gen q db tid (default_obj tmpl_gen pick_width_gen q db tid) ops.
Definition m_xtrace (q : bool) (db : tdb) (tid : nat) (ops : list xop) : list (pyval * option exc) :=
  xtrace tmpl_gen pick_width_gen q db tid (default_obj tmpl_gen pick_width_gen q db tid) ops.
(* np.array(<value of e>, dt).flatten() of the model, for the sweep of the NumPy laws *)
Definition m_conv (q : bool) (db : tdb) (dt : dtype) (e : vexpr) : res (list pyval) :=
  match eval tmpl_gen pick_width_gen q db e with Ok x => np_array dt x | Raise ex => Raise ex end.
Definition m_default (q : bool) (db : tdb) (tid : nat) : pyval := default_obj tmpl_gen pick_width_gen q db tid.
(* to_builtin, then update_from_builtin on a fresh default object *)
Definition m_roundtrip (q : bool) (db : tdb) (tid : nat) (fuel : nat) (o : pyval) : option (pyval * pyval * option exc) :=
  match tb db o with
  | Some b => let '(o', r) := ufb tmpl_gen pick_width_gen q db fuel (m_default q db tid) b in Some (b, o', r)
  | None => None
  end.
Definition m_wf (db : tdb) (strict : bool) (v : pyval) : bool := wfv pick_width_gen db strict v.
Definition m_db_ok (db : tdb) : bool := db_ok_aux 0 db.
Definition m_round (w : Z) (x : N) : N := f_round w x.
Definition m_of_z (z : Z) : option N := f_of_Z z.
Definition m_trunc (x : N) : Z := f_trunc x.
(* which variant the template in /repo is, according to the scanner *)
Definition m_quirk : bool := arrelem_quirk_gen.
Definition m_precheck : bool := t_arr_precheck tmpl_gen.

Extraction "model.ml" m_trace m_xtrace m_conv m_default m_roundtrip m_wf m_db_ok m_round m_of_z m_trunc m_quirk m_precheck pick_width_gen
  Z.add Z.mul Z.opp Z.div_eucl Z.ltb Z.eqb N.add N.mul N.div_eucl N.eqb.
