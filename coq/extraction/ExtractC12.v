(* Extraction of the C12 model (ExtrOcamlBasic only; N stays a Coq datatype). *)
From Verif Require Import RegenBase Gen_Regen Regen.
Require Extraction ExtrOcamlBasic.
Extraction Language OCaml.
Extraction "model.ml" step step_crash history empty_fs upd obs canonical targets.
