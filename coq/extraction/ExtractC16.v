(* Extraction of the C16 models (ExtrOcamlBasic only; N/nat stay Coq datatypes). *)
From Verif Require Import Lookup LookupEnv Gen_Lookup LookupInst.
Require Extraction ExtrOcamlBasic.
Extraction Language OCaml.
Extraction "model.ml" p_lookup_seq p_spec_seq p_get_source p_rendered_seq p_spec_rendered p_flatb p_shadow_freeb
  p_test p_test_spec p_tests p_env_run basename g_classes.
