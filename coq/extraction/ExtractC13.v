(* Extraction of the C13 models (ExtrOcamlBasic only; N/Z/nat stay Coq datatypes). *)
From Verif Require Import Config ConfigAlias.
Require Extraction ExtrOcamlBasic.
Extraction Language OCaml.
Extraction "model.ml" du du_all lookup hmerge_scenario hmerge_dag_scenario dag_expand deep_update_rebuilds_copy tmerge_all has_src erase deep_update_copies_deeply
  new_builder bapply bcreate_st papply view empty_proc ctx_report create_detaches_config cli_ops cli_args config_value config_value_as_bool config_value_as_dict config_value_as_list observe_ctx resolve_language get_config_value_raw section_of language_init lang_kind_of.
