(* Extraction of the C11 model and of the trigger predicate ns_fold (ExtrOcamlBasic only; N/nat stay Coq datatypes). *)
From Verif Require Import Namespace NamespaceSpec Gen_Pin_c11tree Gen_Pin_c11path Gen_Pin_c11support.
Require Extraction ExtrOcamlBasic.
Extraction Language OCaml.
Extraction "model.ml" build get_all_types get_all_datatypes get_all_namespaces find_output_path
  include_path out_path ns_path relative_to_outdir keys get ns_fold same sort_keys build_checked pin_c11tree_stem_check pin_c11path_stem_validated support_targets pin_c11support_ns_validated.
