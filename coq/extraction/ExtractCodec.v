(* Extraction of the DSDL wire specification (C01-C05) (ExtrOcamlBasic only; N/Z/nat stay Coq datatypes). *)
From Verif Require Import Wire Walker.
Require Extraction ExtrOcamlBasic.
Extraction Language OCaml.
Extraction "model.ml" enc_body dec_body mask_body ser_spec des_spec des_spec_pa cast_val
  walk_ser_obs walk_des_bits bmax bmin fmax fmin align extent prefix_bits tag_bits wf_ty bits_of_N N_of_bits.
