(* Extraction of the C09 model (ExtrOcamlBasic only; N/nat stay Coq datatypes). *)
From Verif Require Import StropInst.
Require Extraction ExtrOcamlBasic.
Extraction Language OCaml.
Extraction "model.ml" strop_lang stage_encode stage_keyword stage_pattern reserved_lang pattern_lang
  valid_ident und_reserved strop_shared strop_sel sel_encode sel_keyword sel_pattern reserved_sel pattern_sel strop_sel_pipeline strop_aff.
