(* Extraction for C03: the wire specification, the spec-side per-target description, and the TARGET-SHAPED observables over the shipped
   primitive models (ExtrOcamlBasic only). *)
From Verif Require Import Wire Walker TargetsC03 ObsC03.
Require Extraction ExtrOcamlBasic.
Extraction Language OCaml.
Extraction "model.ml" enc_body dec_body mask_body ser_spec des_spec des_spec_pa cast_val
  walk_ser_obs walk_des_bits bmax bmin fmax fmin align extent prefix_bits tag_bits wf_ty bits_of_N N_of_bits
  py_ser tie_free f16_nans_canonical obs_ser obs_des mk_options.
