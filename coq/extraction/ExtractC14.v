(* Extraction of the C14 models (ExtrOcamlBasic only; N/Z/nat/positive stay Coq datatypes). *)
From Verif Require Import CPrims CppPrims PyPrims.
Require Extraction ExtrOcamlBasic.
Extraction Language OCaml.
Extraction "model.ml" saturate_fragment copy_bits get_bits set_uxx set_ixx set_bit get_uxx get_ixx get_bit
  set_f32 set_f64 get_f32 get_f64 set_f16 get_f16 f16_pack f16_unpack
  sp_bits offset_bytes_ceil subspan subspan_bytes subspan2 copyTo sp_saturate getBits setZeros padAndMoveToAlignment
  cpp_set_bit cpp_set_uxx cpp_set_ixx cpp_get_uxx cpp_get_bit cpp_get_ixx cpp_set_f16 cpp_set_f32 cpp_set_f64 cpp_get_f16 cpp_get_f32 cpp_get_f64
  align_offset_to add_offset
  ser_new ser_buffer skip_bits add_unaligned_bit pad_to_alignment add_unaligned_bytes add_aligned_bytes add_aligned_unsigned
  add_unaligned_unsigned add_aligned_signed add_unaligned_signed add_aligned_u8 add_aligned_u16 add_aligned_u32 add_aligned_u64
  add_aligned_ixx add_aligned_array_of_bits add_unaligned_array_of_bits ser_fork_bytes ser_join
  des_remaining des_skip_bits des_pad_to_alignment fetch_aligned_bytes fetch_unaligned_bytes fetch_aligned_unsigned
  fetch_unaligned_unsigned fetch_aligned_signed fetch_unaligned_signed fetch_unaligned_bit fetch_aligned_uxx fetch_aligned_ixx
  fetch_aligned_array_of_bits fetch_unaligned_array_of_bits des_fork_bytes.
