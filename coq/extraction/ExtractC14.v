(* Extraction of the C14 models (ExtrOcamlBasic only; N/Z/nat/positive stay Coq datatypes). *)
From Verif Require Import CPrims CppPrims.
Require Extraction ExtrOcamlBasic.
Extraction Language OCaml.
Extraction "model.ml" saturate_fragment copy_bits get_bits set_uxx set_ixx set_bit get_uxx get_ixx get_bit
  set_f32 set_f64 get_f32 get_f64 set_f16 get_f16 f16_pack f16_unpack
  sp_bits offset_bytes_ceil subspan subspan_bytes subspan2 copyTo sp_saturate getBits setZeros padAndMoveToAlignment
  cpp_set_bit cpp_set_uxx cpp_set_ixx cpp_get_uxx cpp_get_bit cpp_get_ixx cpp_set_f16 cpp_set_f32 cpp_set_f64 cpp_get_f16 cpp_get_f32 cpp_get_f64
  align_offset_to add_offset.
