(* Strings as lists of Unicode code points (N).  Shared by every generator-side model. *)
From Coq Require Export List NArith ZArith Bool Lia.
Export ListNotations.
Open Scope N_scope.

Notation chr := N (only parsing).
Notation str := (list N) (only parsing).

Definition LF : chr := 10.
Definition CR : chr := 13.

(* code-point ranges, inclusive on both sides: the T1 translator emits Python's
   character classes (\s, \d, \w, str.isspace) as such tables *)
Notation ranges := (list (N * N)) (only parsing).

Definition in_ranges (rs : ranges) (c : chr) : bool :=
  existsb (fun r => (fst r <=? c) && (c <=? snd r)) rs.

Fixpoint str_eqb (a b : str) : bool :=
  match a, b with
  | [], [] => true
  | x :: a', y :: b' => (x =? y) && str_eqb a' b'
  | _, _ => false
  end.

Lemma str_eqb_spec a b : reflect (a = b) (str_eqb a b).
Proof.
  revert b; induction a as [|x a IH]; intros [|y b]; cbn; try (constructor; congruence).
  destruct (N.eqb_spec x y) as [->|Hne]; cbn.
  - destruct (IH b) as [->|Hne]; constructor; congruence.
  - constructor; congruence.
Qed.

Lemma str_eqb_refl a : str_eqb a a = true.
Proof. destruct (str_eqb_spec a a); congruence. Qed.

Definition str_in (s : str) (l : list str) : bool := existsb (str_eqb s) l.

Lemma str_in_spec s l : str_in s l = true <-> In s l.
Proof.
  unfold str_in; rewrite existsb_exists; split.
  - intros (x & Hx & He). destruct (str_eqb_spec s x); congruence.
  - intros H; exists s; split; [assumption | apply str_eqb_refl].
Qed.

(* drop the longest suffix whose elements satisfy p *)
Fixpoint rstrip (p : chr -> bool) (s : str) : str :=
  match s with
  | [] => []
  | c :: s' =>
      match rstrip p s' with
      | [] => if p c then [] else [c]
      | t => c :: t
      end
  end.

Lemma rstrip_app_all p s t : forallb p t = true -> rstrip p (s ++ t) = rstrip p s.
Proof.
  intros Ht; induction s as [|c s IH]; cbn.
  - induction t as [|d t IHt]; cbn; [reflexivity|].
    cbn in Ht; apply andb_prop in Ht as [Hd Ht]. rewrite (IHt Ht), Hd; reflexivity.
  - rewrite IH; reflexivity.
Qed.

Lemma rstrip_last_keep p s c : p c = false -> rstrip p (s ++ [c]) = s ++ [c].
Proof.
  intros Hc; induction s as [|d s IH]; cbn; [rewrite Hc; reflexivity|].
  rewrite IH. destruct (s ++ [c]) eqn:E; [destruct s; discriminate|reflexivity].
Qed.

(* characterisation: s = rstrip s ++ ws, ws all p, and rstrip s does not end in p *)
Lemma rstrip_decomp p s :
  exists ws, s = rstrip p s ++ ws /\ forallb p ws = true.
Proof.
  induction s as [|c s (ws & Hs & Hw)]; cbn; [exists []; split; reflexivity|].
  destruct (rstrip p s) eqn:E.
  - destruct (p c) eqn:Hc.
    + exists (c :: ws); cbn in *; rewrite Hc, Hw; subst s; split; reflexivity.
    + exists ws; cbn in *; subst s; split; [reflexivity|assumption].
  - exists ws; split; [|assumption]. rewrite Hs at 1; reflexivity.
Qed.

Lemma rstrip_no_trailing p s x c : rstrip p s = x ++ [c] -> p c = false.
Proof.
  revert x; induction s as [|d s IH]; cbn; intros x H; [destruct x; discriminate|].
  destruct (rstrip p s) as [|e t] eqn:E.
  - destruct (p d) eqn:Hd; [destruct x; discriminate|].
    destruct x as [|y x]; cbn in H; [congruence|]. destruct x; discriminate.
  - destruct x as [|y x]; cbn in H; [discriminate|].
    injection H as _ H. exact (IH x H).
Qed.
