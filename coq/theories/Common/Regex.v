(* A backtracking regular-expression matcher with Python `re` priority semantics
   (leftmost start; alternatives tried left to right; greedy repetition), for the
   subset of patterns Nunavut's code and configuration use.  The regex ASTs are
   produced from the pattern strings in /repo by tools/translators (fail closed
   outside this subset). *)
From Verif Require Export Str.
Open Scope N_scope.

(* character class: explicit ranges plus Python's Unicode classes (tables are
   Section-free parameters of the match functions, supplied by Gen_Config) *)
Record cls := { c_neg : bool; c_ranges : ranges; c_space : bool; c_digit : bool; c_word : bool }.

Record uni := { u_space : ranges; u_digit : ranges; u_word : ranges }.

Definition cls_mem (u : uni) (k : cls) (c : chr) : bool :=
  xorb (c_neg k)
       (in_ranges (c_ranges k) c
        || (c_space k && in_ranges (u_space u) c)
        || (c_digit k && in_ranges (u_digit u) c)
        || (c_word k && in_ranges (u_word u) c)).

Inductive re :=
| Eps
| Cls (k : cls)
| Seq (a b : re)
| Alt (a b : re)
| Star (a : re)          (* greedy; the body must consume at least one character per iteration *)
| Bol                    (* ^ without MULTILINE *)
| Eol.                   (* $ without MULTILINE: at end, or before a final \n *)

Section Match.
  Variable u : uni.
  Context {A : Type}.

  (* greedy repetition; every iteration must consume at least one character *)
  Fixpoint star_loop (m : (bool -> str -> option A) -> bool -> str -> option A)
           (k : bool -> str -> option A) (fuel : nat) (at1 : bool) (s1 : str) {struct fuel} : option A :=
    match fuel with
    | O => k at1 s1
    | S f =>
        match m (fun at2 s2 => if Nat.ltb (length s2) (length s1) then star_loop m k f at2 s2 else None)
                at1 s1 with
        | Some v => Some v
        | None => k at1 s1
        end
    end.

  (* at0 : true iff no character has been consumed since the start of the subject
     string (used by ^).  k is the continuation; first success in priority order. *)
  Fixpoint mt (r : re) (k : bool -> str -> option A) (at0 : bool) (s : str) {struct r} : option A :=
    match r with
    | Eps => k at0 s
    | Cls c =>
        match s with
        | [] => None
        | x :: s' => if cls_mem u c x then k false s' else None
        end
    | Seq a b => mt a (fun at1 s1 => mt b k at1 s1) at0 s
    | Alt a b =>
        match mt a k at0 s with
        | Some v => Some v
        | None => mt b k at0 s
        end
    | Star a => star_loop (mt a) k (S (length s)) at0 s
    | Bol => if at0 then k at0 s else None
    | Eol =>
        match s with
        | [] => k at0 s
        | [c] => if c =? LF then k at0 s else None
        | _ => None
        end
    end.
End Match.

(* re.match: anchored at the start; returns the remaining suffix after the match *)
Definition re_match (u : uni) (r : re) (s : str) : option str :=
  mt u r (fun _ rest => Some rest) true s.

(* re.search: leftmost start; returns (start index, remaining suffix after the match) *)
Fixpoint re_search_from (u : uni) (r : re) (at0 : bool) (i : nat) (s : str) : option (nat * str) :=
  match mt u r (fun _ rest => Some rest) at0 s with
  | Some rest => Some (i, rest)
  | None =>
      match s with
      | [] => None
      | _ :: s' => re_search_from u r false (S i) s'
      end
  end.

Definition re_search (u : uni) (r : re) (s : str) : option (nat * str) :=
  re_search_from u r true O s.

Definition re_test (u : uni) (r : re) (s : str) : bool :=
  match re_search u r s with Some _ => true | None => false end.
