(* CRC-32 (ISO-HDLC / zlib.crc32): reflected polynomial 0xEDB88320, initial value and final
   xor 0xFFFFFFFF, computed bit by bit over a list of bytes.  Executable model only; the
   lemmas are in Common/Crc32Thm.v.  Used by Gen/OptGuard.v (C17): nunavut turns string
   valued language options into `zlib.crc32(bytearray(s, "utf-8"))`. *)
From Coq Require Import List NArith Bool.
Import ListNotations.
Open Scope bool_scope.
Open Scope N_scope.

Definition crc_poly : N := 3988292384.   (* 0xEDB88320 *)
Definition crc_mask : N := 4294967295.   (* 0xFFFFFFFF *)

(* one shift of the reflected algorithm *)
Definition crc_bit (c : N) : N :=
  if N.testbit c 0 then N.lxor (N.shiftr c 1) crc_poly else N.shiftr c 1.

(* one input byte: xor into the low byte, eight shifts *)
Definition crc_byte (c b : N) : N :=
  crc_bit (crc_bit (crc_bit (crc_bit (crc_bit (crc_bit (crc_bit (crc_bit (N.lxor c (b mod 256))))))))).

Definition crc_update (c : N) (bs : list N) : N := fold_left crc_byte bs c.

Definition crc32 (bs : list N) : N := N.lxor (crc_update crc_mask bs) crc_mask.

(* UTF-8 encoding of a list of code points (Python: bytearray(s, "utf-8")); None for
   surrogates and values above U+10FFFF, on which Python raises UnicodeEncodeError. *)
Definition utf8_cp (c : N) : option (list N) :=
  if c <? 128 then Some [c]
  else if c <? 2048 then Some [192 + c / 64; 128 + c mod 64]
  else if c <? 65536 then
    if (55296 <=? c) && (c <? 57344) then None
    else Some [224 + c / 4096; 128 + (c / 64) mod 64; 128 + c mod 64]
  else if c <? 1114112 then
    Some [240 + c / 262144; 128 + (c / 4096) mod 64; 128 + (c / 64) mod 64; 128 + c mod 64]
  else None.

Fixpoint utf8 (s : list N) : option (list N) :=
  match s with
  | [] => Some []
  | c :: s' =>
      match utf8_cp c, utf8 s' with
      | Some b, Some bs => Some (b ++ bs)
      | _, _ => None
      end
  end.

(* zlib.crc32(bytearray(s, "utf-8")) *)
Definition crc32_str (s : list N) : option N :=
  match utf8 s with Some bs => Some (crc32 bs) | None => None end.
