(* Facts about the CRC-32 model of Common/Crc32.v: check values, streaming (append) law,
   32-bit range (so the value fits the `constexpr std::uint32_t` / unsigned macro the
   templates emit). *)
From Coq Require Import List NArith Bool Lia.
From Verif Require Import Crc32.
Import ListNotations.
Open Scope N_scope.

(* the standard check value: CRC-32("123456789") = 0xCBF43926 *)
Lemma crc32_check_value : crc32 [49; 50; 51; 52; 53; 54; 55; 56; 57] = 3421780262.
Proof. vm_compute. reflexivity. Qed.

Lemma crc32_nil : crc32 [] = 0.
Proof. vm_compute. reflexivity. Qed.

(* "The quick brown fox jumps over the lazy dog" -> 0x414FA339 *)
Lemma crc32_fox :
  crc32 [84;104;101;32;113;117;105;99;107;32;98;114;111;119;110;32;102;111;120;32;106;117;109;112;115;32;111;118;101;114;32;116;104;101;32;108;97;122;121;32;100;111;103]
  = 1095738169.
Proof. vm_compute. reflexivity. Qed.

(* streaming: the register after a ++ b is the register after b started from the register after a *)
Lemma crc_update_app c a b : crc_update c (a ++ b) = crc_update (crc_update c a) b.
Proof. unfold crc_update. apply fold_left_app. Qed.

(* ---- range ---- *)
Lemma lt_pow2_of_bits x n : (forall m, n <= m -> N.testbit x m = false) -> x < 2 ^ n.
Proof.
  intros H. destruct (N.eq_dec x 0) as [->|Hx].
  - apply N.neq_0_lt_0, N.pow_nonzero; discriminate.
  - assert (0 < x) by lia.
    apply N.log2_lt_pow2; [assumption|].
    destruct (N.lt_ge_cases (N.log2 x) n) as [Hl|Hl]; [assumption|].
    specialize (H _ Hl). rewrite N.bit_log2 in H by assumption. discriminate.
Qed.

Lemma bits_of_lt_pow2 x n m : x < 2 ^ n -> n <= m -> N.testbit x m = false.
Proof.
  intros Hx Hm. destruct (N.eq_dec x 0) as [->|Hne]; [apply N.bits_0|].
  apply N.bits_above_log2.
  assert (N.log2 x < n) by (apply N.log2_lt_pow2; lia). lia.
Qed.

Lemma lxor_lt_pow2 a b n : a < 2 ^ n -> b < 2 ^ n -> N.lxor a b < 2 ^ n.
Proof.
  intros Ha Hb. apply lt_pow2_of_bits. intros m Hm.
  rewrite N.lxor_spec, (bits_of_lt_pow2 a n m Ha Hm), (bits_of_lt_pow2 b n m Hb Hm). reflexivity.
Qed.

Lemma shiftr1_lt c : c < 2 ^ 32 -> N.shiftr c 1 < 2 ^ 32.
Proof.
  intros H. rewrite N.shiftr_div_pow2. change (2 ^ 1) with 2.
  assert (c / 2 <= c) by (apply N.div_le_upper_bound; lia). lia.
Qed.

Lemma crc_bit_lt c : c < 2 ^ 32 -> crc_bit c < 2 ^ 32.
Proof.
  intros H. unfold crc_bit. destruct (N.testbit c 0).
  - apply lxor_lt_pow2; [apply shiftr1_lt; assumption | vm_compute; reflexivity].
  - apply shiftr1_lt; assumption.
Qed.

Lemma crc_byte_lt c b : c < 2 ^ 32 -> crc_byte c b < 2 ^ 32.
Proof.
  intros H. unfold crc_byte. do 8 apply crc_bit_lt.
  apply lxor_lt_pow2; [assumption|].
  assert (b mod 256 < 256) by (apply N.mod_lt; discriminate).
  change (2 ^ 32) with 4294967296. lia.
Qed.

Lemma crc_update_lt bs : forall c, c < 2 ^ 32 -> crc_update c bs < 2 ^ 32.
Proof.
  unfold crc_update. induction bs as [|b bs IH]; intros c H; cbn [fold_left]; [assumption|].
  apply IH, crc_byte_lt; assumption.
Qed.

Theorem crc32_lt bs : crc32 bs < 2 ^ 32.
Proof.
  unfold crc32. apply lxor_lt_pow2; [|vm_compute; reflexivity].
  apply crc_update_lt. vm_compute; reflexivity.
Qed.

(* only the low 8 bits of each list element matter (bytearray elements are bytes anyway) *)
Lemma crc_byte_mod c b : crc_byte c (b mod 256) = crc_byte c b.
Proof. unfold crc_byte. rewrite N.mod_mod by discriminate. reflexivity. Qed.
