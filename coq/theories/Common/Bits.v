(* Bit-level view of byte buffers (DSDL bit order: least significant bit of a byte first)
   and total testbit rewrite lemmas for shifts, masks and N.ones. *)
From Coq Require Export List NArith ZArith Bool Lia ZifyBool ZifyN ZifyNat.
Export ListNotations.
Open Scope N_scope.

Arguments N.testbit : simpl never.
Arguments N.ltb : simpl never.
Arguments N.leb : simpl never.
Arguments N.add : simpl never.
Arguments N.sub : simpl never.
Arguments N.mul : simpl never.
Arguments N.div : simpl never.
Arguments N.modulo : simpl never.
Arguments N.shiftl : simpl never.
Arguments N.shiftr : simpl never.
Arguments N.land : simpl never.
Arguments N.lor : simpl never.
Arguments N.lxor : simpl never.
Arguments N.ones : simpl never.
Arguments N.pow : simpl never.

Ltac Zify.zify_post_hook ::= Z.div_mod_to_equations.

Notation bytes := (list N) (only parsing).

Definition bytes_ok (b : bytes) : Prop := Forall (fun x => x < 256) b.

Definition byte_at (b : bytes) (i : N) : N := nth (N.to_nat i) b 0.

(* bit p of the buffer; bits beyond the end read as 0 *)
Definition bit (b : bytes) (p : N) : bool := N.testbit (byte_at b (p / 8)) (p mod 8).

Fixpoint upd (b : bytes) (i : nat) (v : N) : bytes :=
  match b, i with
  | [], _ => []
  | _ :: t, O => v :: t
  | x :: t, S j => x :: upd t j v
  end.

Lemma upd_length b i v : length (upd b i v) = length b.
Proof. revert i; induction b as [|x b IH]; intros [|i]; cbn; auto. Qed.

Lemma nth_upd b : forall i j v, (i < length b)%nat ->
  nth j (upd b i v) 0 = if Nat.eqb j i then v else nth j b 0.
Proof.
  induction b as [|x b IH]; intros i j v Hi; [cbn in Hi; lia|].
  destruct i as [|i], j as [|j]; cbn; try reflexivity.
  apply IH. cbn in Hi. lia.
Qed.

(* ---- total testbit lemmas ---- *)
Lemma tb_shiftl a n k : N.testbit (N.shiftl a n) k = (n <=? k) && N.testbit a (k - n).
Proof.
  destruct (N.leb_spec n k).
  - rewrite N.shiftl_spec_high' by assumption. reflexivity.
  - rewrite N.shiftl_spec_low by assumption. reflexivity.
Qed.

Lemma tb_shiftr a n k : N.testbit (N.shiftr a n) k = N.testbit a (k + n).
Proof. apply N.shiftr_spec'. Qed.

Lemma tb_ones n k : N.testbit (N.ones n) k = (k <? n).
Proof.
  destruct (N.ltb_spec k n).
  - apply N.ones_spec_low. assumption.
  - apply N.ones_spec_high. assumption.
Qed.

Lemma tb_255 k : N.testbit 255 k = (k <? 8).
Proof. change 255 with (N.ones 8). apply tb_ones. Qed.

Lemma tb_small a n k : a < 2 ^ n -> n <= k -> N.testbit a k = false.
Proof.
  intros Ha Hk. destruct (N.eq_dec a 0) as [->|Hz]; [apply N.bits_0|].
  apply N.bits_above_log2. apply N.log2_lt_pow2; [lia|].
  eapply N.lt_le_trans; [exact Ha|]. apply N.pow_le_mono_r; lia.
Qed.

Lemma tb_byte a k : a < 256 -> 8 <= k -> N.testbit a k = false.
Proof. intros; apply (tb_small a 8 k); [exact H|assumption]. Qed.

Lemma pow2_minus1_ones n : 2 ^ n - 1 = N.ones n.
Proof. rewrite N.ones_equiv. lia. Qed.

Lemma land_255_lt a : N.land a 255 < 256.
Proof.
  change 255 with (N.ones 8). rewrite N.land_ones. apply N.mod_lt. discriminate.
Qed.

Lemma lor_lt_256 a b : a < 256 -> b < 256 -> N.lor a b < 256.
Proof.
  intros Ha Hb.
  destruct (N.eq_dec (N.lor a b) 0) as [->|Hz]; [reflexivity|].
  change 256 with (2 ^ 8). apply N.log2_lt_pow2; [lia|].
  rewrite N.log2_lor.
  destruct (N.eq_dec a 0) as [->|Ha0]; destruct (N.eq_dec b 0) as [->|Hb0]; cbn.
  - reflexivity.
  - rewrite N.max_r by apply N.le_0_l. apply N.log2_lt_pow2; [lia|exact Hb].
  - rewrite N.max_l by apply N.le_0_l. apply N.log2_lt_pow2; [lia|exact Ha].
  - apply N.max_lub_lt; apply N.log2_lt_pow2; try lia; assumption.
Qed.

(* bit view of an updated buffer *)
Lemma bit_upd b i v p : (N.to_nat i < length b)%nat ->
  bit (upd b (N.to_nat i) v) p = if (p / 8 =? i) then N.testbit v (p mod 8) else bit b p.
Proof.
  intros Hi. unfold bit, byte_at. rewrite nth_upd by exact Hi.
  destruct (N.eqb_spec (p / 8) i) as [->|Hne].
  - rewrite Nat.eqb_refl. reflexivity.
  - destruct (Nat.eqb_spec (N.to_nat (p / 8)) (N.to_nat i)); [lia|reflexivity].
Qed.

Lemma bit_beyond b p : N.of_nat (length b) * 8 <= p -> bit b p = false.
Proof.
  intros H. unfold bit, byte_at. rewrite nth_overflow; [apply N.bits_0|]. lia.
Qed.

Lemma tb_land255_mod v p : N.testbit (N.land v 255) (p mod 8) = N.testbit v (p mod 8).
Proof.
  rewrite N.land_spec, tb_255. replace (p mod 8 <? 8) with true; [apply andb_true_r|].
  symmetry. apply N.ltb_lt. apply N.mod_lt. discriminate.
Qed.

Lemma bytes_ok_byte_at b : bytes_ok b <-> forall i, byte_at b i < 256.
Proof.
  unfold bytes_ok, byte_at. split.
  - intros H i. destruct (Nat.lt_ge_cases (N.to_nat i) (length b)) as [Hi|Hi].
    + rewrite Forall_forall in H. apply H. apply nth_In. exact Hi.
    + rewrite nth_overflow by exact Hi. reflexivity.
  - intros H. apply Forall_forall. intros x Hx. destruct (In_nth _ _ 0 Hx) as (n & Hn & <-).
    specialize (H (N.of_nat n)). rewrite Nat2N.id in H. exact H.
Qed.

Lemma bytes_ok_upd b i v : bytes_ok b -> v < 256 -> bytes_ok (upd b i v).
Proof.
  unfold bytes_ok. revert i. induction b as [|x b IH]; intros i Hb Hv; [constructor|].
  inversion Hb; subst. destruct i; cbn; constructor; auto.
Qed.

Lemma bytes_ok_repeat0 n : bytes_ok (repeat 0 n).
Proof. unfold bytes_ok. apply Forall_forall. intros x Hx. apply repeat_spec in Hx. subst. reflexivity. Qed.
