(* Model of Serializer / Deserializer / ZeroExtendingBuffer of
   src/nunavut/lang/py/support/nunavut_support.j2 (rendered nunavut_support.py), as state machines
   over (buffer, bit offset).  Python integers are unbounded, so there is no wrap-around; a raised
   exception (IndexError on a store outside the NumPy buffer, ValueError of a slice assignment that
   does not fit, AssertionError of the alignment/bit-length asserts, ValueError of
   _ensure_not_negative) is None.  Offsets are natural numbers (the code never moves the cursor
   below zero on the paths modelled; skip_bits with a negative argument is outside the model).

   NumPy / struct operations are used through their documented semantics (trusted base, validated
   by the correspondence run): uint8 arithmetic `(b << k) & 0xFF`, `b >> k`, `|=`; scalar store of
   a Python int into a uint8 array (OverflowError above 255); slice assignment (must fit, except
   that a length-1 source broadcasts, also into an empty slice: unreachable since /repo f2fd316,
   every slice writer tests the capacity first); numpy.packbits/unpackbits with
   bitorder="little" (packbits_le / unpackbits_le below); x.view(Byte) = little-endian memory
   image; struct.pack("<e|f|d") is a Section variable with its length law.

   This is the text of /repo f2fd316 and later (Serializer._ensure_writable: the writers that store more than one
   element test the capacity before they touch the buffer; None = its ValueError, nothing stored).  The text
   of before f2fd316 (no test: a one-byte slice write at the end of the buffer was silently dropped, finding
   F-PY-SER-SILENT-DROP) is History/C14_history.v. *)
From Verif Require Export Bits CPrims.
Open Scope N_scope.

Require Coq.Strings.String. Import String.StringSyntax.
(* hash of the normalised AST dump (tools/translators/gen_c14.py, pins/c14py.txt) of the support-module text this file models;
   Properties/C14.v requires the hash regenerated from /repo on every run (Gen_Pin_c14py.pin_c14py_sha) to be this one *)
Local Open Scope string_scope.
Definition modelled_py_support_sha : String.string := "f428ceb0708975f51de6e6ab464b64a7".
Local Close Scope string_scope.

Record ser := mkser { s_buf : bytes; s_off : N }.

(* self._buf[i] = v  for a Python int / uint8 value v *)
Definition store (b : bytes) (i v : N) : option bytes :=
  if 255 <? v then None                                   (* OverflowError: Python integer out of bounds for uint8 *)
  else if i <? blen b then Some (upd b (N.to_nat i) v) else None.   (* IndexError *)

(* self._buf[i] |= v   (v already reduced to uint8 by the caller's `& 0xFF`) *)
Definition store_or (b : bytes) (i v : N) : option bytes :=
  match rd b i with
  | Some x => store b i (N.lor x v)
  | None => None
  end.

(* self._buf[a : a + len(x)] = x *)
Definition assign_slice (b : bytes) (a : N) (x : bytes) : option bytes :=
  let k := N.min (blen x) (blen b - N.min (blen b) a) in       (* length of the slice *)
  if k =? blen x then Some (firstn (N.to_nat a) b ++ x ++ skipn (N.to_nat (a + blen x)) b)
  else if blen x =? 1 then Some b                                  (* a length-1 source broadcasts into the empty slice *)
       else None.                                                  (* ValueError: could not broadcast *)

(* Serializer._ensure_writable(first_byte, byte_count): ValueError unless the bytes [first_byte, first_byte + byte_count) exist *)
Definition ensure_writable (s : ser) (first_byte byte_count : N) : bool := first_byte + byte_count <=? blen (s_buf s).

(* Serializer.new(n) *)
Definition ser_new (n : N) : ser := mkser (repeat 0 (N.to_nat (n + 1))) 0.

(* Serializer.buffer: the first ceil(offset/8) bytes *)
Definition ser_buffer (s : ser) : bytes := firstn (N.to_nat ((s_off s + 7) / 8)) (s_buf s).

Definition skip_bits (s : ser) (k : N) : ser := mkser (s_buf s) (s_off s + k).

(* add_unaligned_bit *)
Definition add_unaligned_bit (s : ser) (x : bool) : option ser :=
  match store_or (s_buf s) (s_off s / 8) (N.shiftl (if x then 1 else 0) (s_off s mod 8)) with
  | Some b => Some (mkser b (s_off s + 1))
  | None => None
  end.

(* pad_to_alignment: `while self._bit_offset % bit_length != 0: self.add_unaligned_bit(False)`; fuel = bit_length *)
Fixpoint pad_loop (fuel : nat) (s : ser) (n : N) : option ser :=
  if s_off s mod n =? 0 then Some s
  else match fuel with
       | O => None
       | S f => match add_unaligned_bit s false with
                | Some s' => pad_loop f s' n
                | None => None
                end
       end.
Definition pad_to_alignment (s : ser) (n : N) : option ser :=
  if n =? 0 then None else pad_loop (N.to_nat n) s n.      (* ZeroDivisionError *)

(* add_unaligned_bytes: the loop body for one byte *)
Definition add_unaligned_byte (s : ser) (left right b : N) : option ser :=
  match store_or (s_buf s) (s_off s / 8) (N.land (N.shiftl b left) 255) with
  | None => None
  | Some b1 =>
      let off := s_off s + 8 in
      match store b1 (off / 8) (N.shiftr b right) with
      | Some b2 => Some (mkser b2 off)
      | None => None
      end
  end.

Fixpoint add_unaligned_loop (s : ser) (left right : N) (value : bytes) : option ser :=
  match value with
  | [] => Some s
  | b :: t => match add_unaligned_byte s left right b with
              | Some s' => add_unaligned_loop s' left right t
              | None => None
              end
  end.

(* `if len(value) > 0: self._ensure_writable(self._byte_offset, len(value) + 1)`: the loop also stores into the byte after the
   last one it fills *)
Definition add_unaligned_bytes (s : ser) (value : bytes) : option ser :=
  let left := s_off s mod 8 in
  let right := 8 - left in
  if (0 <? blen value) && negb (ensure_writable s (s_off s / 8) (blen value + 1)) then None
  else add_unaligned_loop s left right value.

(* add_aligned_bytes *)
Definition add_aligned_bytes (s : ser) (x : bytes) : option ser :=
  if negb (s_off s mod 8 =? 0) then None
  else if negb (ensure_writable s (s_off s / 8) (blen x)) then None
  else match assign_slice (s_buf s) (s_off s / 8) x with
       | Some b => Some (mkser b (s_off s + blen x * 8))
       | None => None
       end.

(* _unsigned_to_bytes(value, bit_length) *)
Fixpoint to_bytes_loop (n : nat) (value : N) : bytes :=
  match n with O => [] | S m => N.land value 255 :: to_bytes_loop m (N.shiftr value 8) end.
Definition unsigned_to_bytes (value bit_length : N) : option bytes :=
  if bit_length <? 1 then None
  else Some (to_bytes_loop (N.to_nat ((bit_length + 7) / 8)) (N.land value (2 ^ bit_length - 1))).

(* add_aligned_unsigned / add_unaligned_unsigned (value >= 0: it is an N) *)
Definition add_aligned_unsigned (s : ser) (value bit_length : N) : option ser :=
  if negb (s_off s mod 8 =? 0) then None
  else match unsigned_to_bytes value bit_length with
       | None => None
       | Some bs => if negb (ensure_writable s (s_off s / 8) (blen bs)) then None
                    else match assign_slice (s_buf s) (s_off s / 8) bs with
                         | Some b => Some (mkser b (s_off s + bit_length))
                         | None => None
                         end
       end.

Definition add_unaligned_unsigned (s : ser) (value bit_length : N) : option ser :=
  match unsigned_to_bytes value bit_length with
  | None => None
  | Some bs =>
      let backtrack := blen bs * 8 - bit_length in
      match add_unaligned_bytes s bs with
      | Some s' => Some (mkser (s_buf s') (s_off s' - backtrack))
      | None => None
      end
  end.

(* add_aligned_signed / add_unaligned_signed: assert bit_length >= 2; (2**bit_length + value) if value < 0 else value *)
Definition signed_arg (value : Z) (bit_length : N) : N :=
  Z.to_N (if (value <? 0)%Z then (2 ^ Z.of_N bit_length + value)%Z else value).
Definition add_aligned_signed (s : ser) (value : Z) (bit_length : N) : option ser :=
  if bit_length <? 2 then None
  else if ((value <? 0) && (2 ^ Z.of_N bit_length + value <? 0))%Z then None      (* _ensure_not_negative *)
       else add_aligned_unsigned s (signed_arg value bit_length) bit_length.
Definition add_unaligned_signed (s : ser) (value : Z) (bit_length : N) : option ser :=
  if bit_length <? 2 then None
  else if ((value <? 0) && (2 ^ Z.of_N bit_length + value <? 0))%Z then None
       else add_unaligned_unsigned s (signed_arg value bit_length) bit_length.

(* add_aligned_u8 / u16 / u32 / u64 *)
Definition add_aligned_u8 (s : ser) (x : N) : option ser :=
  if negb (s_off s mod 8 =? 0) then None
  else match store (s_buf s) (s_off s / 8) x with
       | Some b => Some (mkser b (s_off s + 8))
       | None => None
       end.
Definition bind {A B} (o : option A) (f : A -> option B) : option B := match o with Some a => f a | None => None end.
(* u16/u32/u64: `if self._bit_offset // 8 + N > len(self._buf): self._ensure_writable(self._byte_offset, N)` first, so that
   nothing is stored when the whole value does not fit (u8 needs no test: NumPy raises IndexError before storing) *)
Definition add_aligned_u16 (s : ser) (x : N) : option ser :=
  if negb (ensure_writable s (s_off s / 8) 2) then None
  else bind (add_aligned_u8 s (N.land x 255)) (fun s1 => add_aligned_u8 s1 (N.land (N.shiftr x 8) 255)).
Definition add_aligned_u32 (s : ser) (x : N) : option ser :=
  if negb (ensure_writable s (s_off s / 8) 4) then None
  else bind (add_aligned_u16 s x) (fun s1 => add_aligned_u16 s1 (N.shiftr x 16)).
Definition add_aligned_u64 (s : ser) (x : N) : option ser :=
  if negb (ensure_writable s (s_off s / 8) 8) then None
  else bind (add_aligned_u32 s x) (fun s1 => add_aligned_u32 s1 (N.shiftr x 32)).
(* add_aligned_i8..i64: (2**w + x) if x < 0 else x, then the unsigned method (ValueError if still negative) *)
Definition add_aligned_ixx (w : N) (s : ser) (x : Z) : option ser :=
  let v := if (x <? 0)%Z then (2 ^ Z.of_N w + x)%Z else x in
  if (v <? 0)%Z then None
  else let u := Z.to_N v in
       if w =? 8 then add_aligned_u8 s u else if w =? 16 then add_aligned_u16 s u
       else if w =? 32 then add_aligned_u32 s u else add_aligned_u64 s u.

(* numpy.packbits(x, bitorder="little") / numpy.unpackbits(bs, bitorder="little") *)
Fixpoint bits_value (l : list bool) : N :=
  match l with [] => 0 | b :: t => (if b then 1 else 0) + 2 * bits_value t end.
Fixpoint packbits_le (fuel : nat) (x : list bool) : bytes :=
  match fuel with
  | O => []
  | S f => match x with [] => [] | _ => bits_value (firstn 8 x) :: packbits_le f (skipn 8 x) end
  end.
Definition packbits (x : list bool) : bytes := packbits_le (length x) x.
Definition unpackbits (bs : bytes) : list bool :=
  flat_map (fun b => map (fun k => N.testbit b (N.of_nat k)) (seq 0 8)) bs.

(* add_aligned_array_of_bits / add_unaligned_array_of_bits *)
Definition add_aligned_array_of_bits (s : ser) (x : list bool) : option ser :=
  if negb (s_off s mod 8 =? 0) then None
  else if negb (ensure_writable s (s_off s / 8) (blen (packbits x))) then None
  else match assign_slice (s_buf s) (s_off s / 8) (packbits x) with
       | Some b => Some (mkser b (s_off s + N.of_nat (length x)))
       | None => None
       end.
Definition add_unaligned_array_of_bits (s : ser) (x : list bool) : option ser :=
  let packed := packbits x in
  let backtrack := blen packed * 8 - N.of_nat (length x) in
  match add_unaligned_bytes s packed with
  | Some s' => Some (mkser (s_buf s') (s_off s' - backtrack))
  | None => None
  end.

(* fork_bytes(n): a serializer over the window [offset/8, offset/8 + n + 1) of the same memory *)
Definition ser_fork_bytes (s : ser) (n : N) : option ser :=
  if negb (s_off s mod 8 =? 0) then None
  else let forked := skipn (N.to_nat (s_off s / 8)) (s_buf s) in
       if blen forked <? n + 1 then None
       else Some (mkser (firstn (N.to_nat (n + 1)) forked) 0).
(* what the parent sees after the fork has written: the window is shared memory *)
Definition ser_join (parent fork : ser) : ser :=
  let a := N.to_nat (s_off parent / 8) in
  mkser (firstn a (s_buf parent) ++ s_buf fork ++ skipn (a + length (s_buf fork)) (s_buf parent)) (s_off parent).

(* floats: struct.pack("<e"|"<f"|"<d", x) with the OverflowError fallback to +-inf *)
Section Floats.
  Variable F : Type.
  Variable float_to_bytes : N -> F -> bytes.                        (* first argument: size in bytes: 2, 4, 8 *)
  Definition add_aligned_float (s : ser) (size : N) (x : F) := add_aligned_bytes s (float_to_bytes size x).
  Definition add_unaligned_float (s : ser) (size : N) (x : F) := add_unaligned_bytes s (float_to_bytes size x).
End Floats.

(* ---------------------------------------------------------------------------------------------
   Deserializer over a ZeroExtendingBuffer *)
Record des := mkdes { d_buf : bytes; d_off : N }.

Definition get_byte (b : bytes) (i : N) : N := nth (N.to_nat i) b 0.
(* get_unsigned_slice(left, right), left <= right *)
Definition get_unsigned_slice (b : bytes) (left right : N) : option bytes :=
  if right <? left then None
  else let out := firstn (N.to_nat (right - left)) (skipn (N.to_nat left) b) in
       Some (out ++ repeat 0 (N.to_nat (right - left) - length out)).

Definition des_remaining (d : des) : Z := (Z.of_N (blen (d_buf d) * 8) - Z.of_N (d_off d))%Z.
Definition des_skip_bits (d : des) (k : N) : des := mkdes (d_buf d) (d_off d + k).
(* pad_to_alignment: while off % n != 0: off += 1 *)
Definition des_pad_to_alignment (d : des) (n : N) : option des :=
  if n =? 0 then None else Some (mkdes (d_buf d) (d_off d + (n - d_off d mod n) mod n)).

Definition fetch_aligned_bytes (d : des) (count : N) : option (bytes * des) :=
  if negb (d_off d mod 8 =? 0) then None
  else match get_unsigned_slice (d_buf d) (d_off d / 8) (d_off d / 8 + count) with
       | Some out => Some (out, mkdes (d_buf d) (d_off d + count * 8))
       | None => None
       end.

Fixpoint fetch_unaligned_loop (n : nat) (b : bytes) (off right left : N) : bytes :=
  match n with
  | O => []
  | S m => N.lor (N.shiftr (get_byte b (off / 8)) right) (N.land (N.shiftl (get_byte b (off / 8 + 1)) left) 255)
           :: fetch_unaligned_loop m b (off + 8) right left
  end.

Definition fetch_unaligned_bytes (d : des) (count : N) : option (bytes * des) :=
  if 0 <? count then
    if negb (d_off d mod 8 =? 0) then
      let right := d_off d mod 8 in
      let left := 8 - right in
      Some (fetch_unaligned_loop (N.to_nat count) (d_buf d) (d_off d) right left, mkdes (d_buf d) (d_off d + 8 * count))
    else fetch_aligned_bytes d count
  else Some ([], d).

(* _unsigned_from_bytes(x, bit_length) *)
Fixpoint from_bytes_loop (x : bytes) (i : N) (n : nat) : N :=
  match n with
  | O => 0
  | S m => match x with
           | [] => 0
           | b :: t => N.lor (N.shiftl b (i * 8)) (from_bytes_loop t (i + 1) m)
           end
  end.
Definition unsigned_from_bytes (x : bytes) (bit_length : N) : option N :=
  if bit_length <? 1 then None
  else
    let num_bytes := (bit_length + 7) / 8 in
    let last := num_bytes - 1 in
    if blen x <? num_bytes then None
    else
      let msb_mask := if negb (bit_length mod 8 =? 0) then 2 ^ (bit_length mod 8) - 1 else 255 in
      Some (N.lor (from_bytes_loop x 0 (N.to_nat last))
                  (N.shiftl (N.land (nth (N.to_nat last) x 0) msb_mask) (last * 8))).

Definition fetch_aligned_unsigned (d : des) (bit_length : N) : option (N * des) :=
  if negb (d_off d mod 8 =? 0) then None
  else match get_unsigned_slice (d_buf d) (d_off d / 8) (d_off d / 8 + (bit_length + 7) / 8) with
       | None => None
       | Some bs => match unsigned_from_bytes bs bit_length with
                    | Some v => Some (v, mkdes (d_buf d) (d_off d + bit_length))
                    | None => None
                    end
       end.

Definition fetch_unaligned_unsigned (d : des) (bit_length : N) : option (N * des) :=
  let byte_length := (bit_length + 7) / 8 in
  match fetch_unaligned_bytes d byte_length with
  | None => None
  | Some (bs, d') =>
      let backtrack := byte_length * 8 - bit_length in
      match unsigned_from_bytes bs bit_length with
      | Some v => Some (v, mkdes (d_buf d') (d_off d' - backtrack))
      | None => None
      end
  end.

(* (u - 2**bit_length) if u >= 2**(bit_length-1) else u *)
Definition to_signed (u bit_length : N) : Z :=
  if 2 ^ (bit_length - 1) <=? u then (Z.of_N u - 2 ^ Z.of_N bit_length)%Z else Z.of_N u.
Definition fetch_aligned_signed (d : des) (bit_length : N) : option (Z * des) :=
  if bit_length <? 2 then None
  else match fetch_aligned_unsigned d bit_length with Some (u, d') => Some (to_signed u bit_length, d') | None => None end.
Definition fetch_unaligned_signed (d : des) (bit_length : N) : option (Z * des) :=
  if bit_length <? 2 then None
  else match fetch_unaligned_unsigned d bit_length with Some (u, d') => Some (to_signed u bit_length, d') | None => None end.

Definition fetch_unaligned_bit (d : des) : bool * des :=
  let mask := N.shiftl 1 (d_off d mod 8) in
  (N.land (get_byte (d_buf d) (d_off d / 8)) mask =? mask, mkdes (d_buf d) (d_off d + 1)).

(* fetch_aligned_u8 / u16 / u32 / u64, i8..i64 *)
Definition fetch_aligned_u8 (d : des) : option (N * des) :=
  if negb (d_off d mod 8 =? 0) then None
  else Some (get_byte (d_buf d) (d_off d / 8), mkdes (d_buf d) (d_off d + 8)).
Definition fetch_aligned_u16 (d : des) : option (N * des) :=
  bind (fetch_aligned_u8 d) (fun '(a, d1) => bind (fetch_aligned_u8 d1) (fun '(b, d2) => Some (N.lor a (N.shiftl b 8), d2))).
Definition fetch_aligned_u32 (d : des) : option (N * des) :=
  bind (fetch_aligned_u16 d) (fun '(a, d1) => bind (fetch_aligned_u16 d1) (fun '(b, d2) => Some (N.lor a (N.shiftl b 16), d2))).
Definition fetch_aligned_u64 (d : des) : option (N * des) :=
  bind (fetch_aligned_u32 d) (fun '(a, d1) => bind (fetch_aligned_u32 d1) (fun '(b, d2) => Some (N.lor a (N.shiftl b 32), d2))).
Definition fetch_aligned_uxx (w : N) (d : des) : option (N * des) :=
  if w =? 8 then fetch_aligned_u8 d else if w =? 16 then fetch_aligned_u16 d else if w =? 32 then fetch_aligned_u32 d
  else fetch_aligned_u64 d.
Definition fetch_aligned_ixx (w : N) (d : des) : option (Z * des) :=
  match fetch_aligned_uxx w d with Some (u, d') => Some (to_signed u w, d') | None => None end.

Definition fetch_aligned_array_of_bits (d : des) (count : N) : option (list bool * des) :=
  if negb (d_off d mod 8 =? 0) then None
  else match get_unsigned_slice (d_buf d) (d_off d / 8) (d_off d / 8 + (count + 7) / 8) with
       | Some bs => Some (firstn (N.to_nat count) (unpackbits bs), mkdes (d_buf d) (d_off d + count))
       | None => None
       end.
Definition fetch_unaligned_array_of_bits (d : des) (count : N) : option (list bool * des) :=
  let byte_count := (count + 7) / 8 in
  match fetch_unaligned_bytes d byte_count with
  | None => None
  | Some (bs, d') => Some (firstn (N.to_nat count) (unpackbits bs), mkdes (d_buf d') (d_off d' - (byte_count * 8 - count)))
  end.

(* Deserializer.fork_bytes(n) *)
Definition des_fork_bytes (d : des) (n : N) : option des :=
  if negb (d_off d mod 8 =? 0) then None
  else
    let remaining := des_remaining d in
    let remaining_bytes := Z.to_N (Z.max remaining 0 / 8) in
    if remaining_bytes <? n then None
    else
      let fork_offset := N.min (d_off d / 8) (blen (d_buf d) * 8 / 8) in
      if blen (d_buf d) <? fork_offset + n then None
      else Some (mkdes (firstn (N.to_nat n) (skipn (N.to_nat fork_offset) (d_buf d))) 0).
