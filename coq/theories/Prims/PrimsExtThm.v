(* Round 2: theorems about the remaining members of the three support modules (models: Prims/PrimsExt.v and the
   definitions already in CPrims / CppPrims / PyPrims). *)
From Verif Require Import Bits CPrims CPrimsThm F16 CppPrims CppPrimsThm CppPrimsMoreThm PyPrims PyPrimsThm PyPrimsMoreThm
  PyPrimsForkThm PrimsExt.
Open Scope N_scope.

(* ---------------------------------------------------------------------------------------------
   byte lists are determined by their bits *)
Lemma bytes_eq_of_bits (a b : bytes) :
  length a = length b -> bytes_ok a -> bytes_ok b -> (forall p, bit a p = bit b p) -> a = b.
Proof.
  intros Hl Ha Hb Hbits. apply (nth_ext a b 0 0 Hl). intros n Hn. apply N.bits_inj. intros k.
  destruct (N.lt_ge_cases k 8) as [Hk|Hk].
  - specialize (Hbits (8 * N.of_nat n + k)). unfold bit, byte_at in Hbits.
    replace ((8 * N.of_nat n + k) / 8) with (N.of_nat n) in Hbits by lia.
    replace ((8 * N.of_nat n + k) mod 8) with k in Hbits by lia. rewrite Nat2N.id in Hbits. exact Hbits.
  - pose proof (proj1 (bytes_ok_byte_at a) Ha (N.of_nat n)) as Xa. pose proof (proj1 (bytes_ok_byte_at b) Hb (N.of_nat n)) as Xb.
    unfold byte_at in Xa, Xb. rewrite Nat2N.id in Xa, Xb. rewrite !tb_byte by assumption. reflexivity.
Qed.

(* ---------------------------------------------------------------------------------------------
   C: nunavutSetIxx and nunavutSetBit are the unsigned store *)
Theorem set_ixx_is_set_uxx little buf size off (value : Z) len :
  set_ixx little buf size off value len = set_uxx little buf size off (Z.to_N (value mod 2 ^ 64)) len /\
  forall k, k < 64 -> N.testbit (w64 (Z.to_N (value mod 2 ^ 64))) k = Z.testbit value (Z.of_N k).
Proof. split; [reflexivity|]. intros k Hk. apply set_ixx_value. exact Hk. Qed.

Theorem set_bit_is_set_uxx little buf size off (value : bool) :
  buf_pre buf size off = true -> (off + 1 <? two64) = true ->
  set_bit buf size off value = set_uxx little buf size off (if value then 1 else 0) 1.
Proof.
  intros Hb Hl. pose proof (set_bit_exact_b buf size off value Hb) as A.
  pose proof (set_uxx_exact_b little buf size off (if value then 1 else 0) 1 Hb Hl) as B.
  apply buf_pre_elim in Hb as (H1 & H2 & H3 & H4). apply N.ltb_lt in Hl.
  destruct (N.leb_spec (size * 8) off) as [Hs|Hs].
  - replace (size * 8 <? off + 1) with true in B by (symmetry; apply N.ltb_lt; lia). rewrite A, B. reflexivity.
  - replace (size * 8 <? off + 1) with false in B by (symmetry; apply N.ltb_ge; lia).
    destruct A as (r1 & E1 & L1 & B1). destruct B as (r2 & E2 & L2 & B2). rewrite E1, E2. do 2 f_equal.
    destruct (set_bit_exact buf size off value H1 H2) as [_ X]. destruct (X Hs) as (r1' & E1' & _ & Hok1 & _).
    rewrite E1 in E1'. injection E1' as <-.
    destruct (set_uxx_exact little buf size off (if value then 1 else 0) 1 H1 H2 Hl) as [_ Y].
    destruct (Y ltac:(lia)) as (r2' & E2' & _ & Hok2 & _). rewrite E2 in E2'. injection E2' as <-.
    apply bytes_eq_of_bits; [congruence|apply Hok1; exact H4|apply Hok2; exact H4|].
    intros p. rewrite B1, B2. replace (N.min 1 64) with 1 by reflexivity.
    destruct (N.eqb_spec p off) as [->|Hne].
    + replace ((off <=? off) && (off <? off + 1)) with true
        by (symmetry; apply andb_true_intro; split; [apply N.leb_le|apply N.ltb_lt]; lia).
      rewrite N.sub_diag. destruct value; reflexivity.
    + replace ((off <=? p) && (p <? off + 1)) with false; [reflexivity|].
      symmetry. destruct (N.leb_spec off p); cbn [andb]; [apply N.ltb_ge; lia|reflexivity].
Qed.

(* C: the float setters/getters are the integer setters/getters of the IEEE-754 bit pattern; F16 goes through
   nunavutFloat16Pack / Unpack (Prims/F16.v) *)
Theorem c_float_members_are_integer_members little buf size off bits32 bits64 :
  set_f32 little buf size off bits32 = set_uxx little buf size off (bits32 mod 2 ^ 32) 32 /\
  set_f64 little buf size off bits64 = set_uxx little buf size off (bits64 mod 2 ^ 64) 64 /\
  set_f16 little buf size off bits32 = set_uxx little buf size off (f16_pack (bits32 mod 2 ^ 32)) 16 /\
  get_f32 little buf size off = get_uxx little 32 buf size off 32 /\
  get_f64 little buf size off = get_uxx little 64 buf size off 64 /\
  get_f16 little buf size off = match get_uxx little 16 buf size off 16 with Some h => Some (f16_unpack h) | None => None end.
Proof. repeat split; reflexivity. Qed.

(* ---------------------------------------------------------------------------------------------
   C++ *)
Theorem cpp_float_members_are_c s bits32 bits64 :
  span_okb s = true -> (sp_off s + 64 <? two64) = true ->
  cpp_set_f32 s bits32 = set_f32 false (sp_data s) (sp_size s) (sp_off s) bits32 /\
  cpp_set_f64 s bits64 = set_f64 false (sp_data s) (sp_size s) (sp_off s) bits64 /\
  cpp_set_f16 s bits32 = set_f16 false (sp_data s) (sp_size s) (sp_off s) bits32 /\
  cpp_get_f32 s = get_f32 false (sp_data s) (sp_size s) (sp_off s) /\
  cpp_get_f64 s = get_f64 false (sp_data s) (sp_size s) (sp_off s) /\
  cpp_get_f16 s = get_f16 false (sp_data s) (sp_size s) (sp_off s).
Proof.
  intros Hb Hl. apply span_okb_ok in Hb as [Hs _]. apply N.ltb_lt in Hl.
  unfold cpp_set_f32, cpp_set_f64, cpp_set_f16, cpp_get_f32, cpp_get_f64, cpp_get_f16, set_f32, set_f64, set_f16, get_f32, get_f64, get_f16.
  rewrite !cpp_set_uxx_is_c by (assumption || lia).
  rewrite !cpp_get_uxx_is_c by (assumption || reflexivity || lia). repeat split; reflexivity.
Qed.

Theorem cpp_saturate_spec s len :
  span_okb s = true ->
  sp_saturate s len = N.min len (sp_size s * 8 - N.min (sp_size s * 8) (sp_off s)) /\ sp_saturate s len <= sp_bits s.
Proof.
  intros Hb. apply span_okb_ok in Hb as [Hs _]. pose proof (sp_bits_spec s Hs) as B. destruct Hs as (S1 & S2 & S3).
  rewrite sp_saturate_eq, saturate_fragment_spec by lia. split; [reflexivity|lia].
Qed.

(* setZeros() zeroes everything from the offset to the end of the span and never fails *)
Theorem setZeros_all_spec s :
  span_okb s = true ->
  exists r, setZeros_all s = Some (inl r) /\ length r = length (sp_data s) /\
    forall p, bit r p = if (sp_off s <=? p) && (p <? 8 * sp_size s) then false else bit (sp_data s) p.
Proof.
  intros Hb. pose proof (span_okb_ok s Hb) as [Hs _]. pose proof (sp_bits_spec s Hs) as B. destruct Hs as (S1 & S2 & S3).
  unfold setZeros_all. pose proof (setZeros_exact_b s (sp_bits s) Hb ltac:(apply N.ltb_lt; lia)) as X.
  rewrite N.ltb_irrefl in X. destruct X as (r & E & L & Hbits). exists r. split; [exact E|]. split; [exact L|].
  intros p. rewrite Hbits.
  destruct (N.leb_spec (sp_off s) p); cbn [andb]; [|reflexivity].
  destruct (N.ltb_spec p (sp_off s + sp_bits s)); destruct (N.ltb_spec p (8 * sp_size s)); try lia; reflexivity.
Qed.

(* copyTo(dst) copies size() bits of the source *)
Theorem copyTo_all_exact src dst :
  span_okb src = true -> span_okb dst = true -> (sp_off dst + sp_bits src <=? 8 * blen (sp_data dst)) = true ->
  exists r, copyTo_all src dst = Some r /\ length r = length (sp_data dst) /\
    forall p, bit r p = if (sp_off dst <=? p) && (p <? sp_off dst + sp_bits src)
                        then bit (sp_data src) (sp_off src + (p - sp_off dst)) else bit (sp_data dst) p.
Proof.
  intros Hs Hd Hr. unfold copyTo_all.
  destruct (copyTo_exact_b src dst (sp_bits src) Hs Hd) as (_ & r & E & L & Hb).
  { rewrite N.min_id. exact Hr. }
  exists r. rewrite N.min_id in Hb. auto.
Qed.

Theorem at_offset_spec s bits :
  span_okb s = true -> (sp_off s + bits <? two64) = true ->
  sp_data (at_offset s bits) = sp_data s /\ sp_size (at_offset s bits) = sp_size s /\
  sp_off (at_offset s bits) = sp_off s + bits /\ at_offset s bits = add_offset s bits /\
  sp_bits (at_offset s bits) = sp_size s * 8 - (sp_off s + bits).
Proof.
  intros Hb Hl. apply span_okb_ok in Hb as [(S1 & S2 & S3) _]. apply N.ltb_lt in Hl.
  unfold at_offset, add_offset, sp_bits. cbn [sp_data sp_size sp_off]. rewrite !w64_small by lia.
  repeat split. destruct (N.ltb_spec (sp_size s * 8) (sp_off s + bits)); lia.
Qed.

Theorem offset_bytes_spec s :
  (sp_off s + 7 <? two64) = true ->
  offset_bytes s = sp_off s / 8 /\ offset_bytes_ceil s = (sp_off s + 7) / 8 /\
  8 * offset_bytes s <= sp_off s <= 8 * offset_bytes_ceil s /\ 8 * offset_bytes_ceil s < sp_off s + 8.
Proof.
  intros H. apply N.ltb_lt in H. unfold offset_bytes, offset_bytes_ceil. rewrite w64_small by exact H. repeat split; lia.
Qed.

Theorem offset_misc_spec s bits n :
  sp_off (set_offset s bits) = bits /\ sp_data (set_offset s bits) = sp_data s /\ sp_size (set_offset s bits) = sp_size s /\
  (0 < n -> offset_misalignment s n = Some (sp_off s mod n) /\ offset_aligns_to s n = Some (sp_off s mod n =? 0) /\
            (offset_aligns_to s n = Some true <-> exists q, sp_off s = q * n)).
Proof.
  split; [reflexivity|]. split; [reflexivity|]. split; [reflexivity|]. intros Hn.
  unfold offset_aligns_to, offset_misalignment. destruct (N.eqb_spec n 0); [lia|].
  split; [reflexivity|]. split; [reflexivity|]. split.
  - intros H. injection H as H. apply N.eqb_eq in H. exists (sp_off s / n). pose proof (N.div_mod (sp_off s) n ltac:(lia)). lia.
  - intros (q & Hq). f_equal. apply N.eqb_eq. rewrite Hq. apply N.mod_mul. lia.
Qed.

(* align_offset_to<n>(): (offset + (n-1)) & ~(n-1) is the next multiple of n, for n = 2^k <= 64 *)
Lemma clear_low_bits x k : k <= 64 -> x < two64 ->
  N.land x (N.lxor (2 ^ k - 1) (N.ones 64)) = x / 2 ^ k * 2 ^ k.
Proof.
  intros Hk Hx. apply N.bits_inj. intros j. rewrite N.land_spec, N.lxor_spec, pow2_minus1_ones, !tb_ones.
  assert (Hhigh : 64 <= j -> N.testbit x j = false) by (intros Hj; apply (tb_small x 64 j); [exact Hx|exact Hj]).
  destruct (N.ltb_spec j k).
  - rewrite N.mul_pow2_bits_low by assumption. replace (j <? 64) with true by (symmetry; apply N.ltb_lt; lia).
    cbn [xorb]. apply andb_false_r.
  - rewrite N.mul_pow2_bits_high by assumption. rewrite N.div_pow2_bits. replace (j - k + k) with j by lia.
    destruct (N.ltb_spec j 64); cbn [xorb]; [apply andb_true_r|]. rewrite Hhigh by assumption. reflexivity.
Qed.

Theorem align_offset_to_spec s k :
  k <= 6 -> (sp_off s + 2 ^ k <? two64) = true ->
  let n := 2 ^ k in
  sp_off (align_offset_to s n) = (sp_off s + (n - 1)) / n * n /\
  sp_off (align_offset_to s n) mod n = 0 /\ sp_off s <= sp_off (align_offset_to s n) < sp_off s + n.
Proof.
  intros Hk Hl. cbv zeta. apply N.ltb_lt in Hl. unfold align_offset_to. cbn [sp_off].
  assert (Hn : 0 < 2 ^ k) by (apply N.neq_0_lt_0, N.pow_nonzero; discriminate).
  rewrite w64_small by lia.
  rewrite (clear_low_bits (sp_off s + (2 ^ k - 1)) k) by lia.
  set (n := 2 ^ k) in *.
  pose proof (N.div_mod (sp_off s + (n - 1)) n ltac:(lia)) as D. pose proof (N.mod_lt (sp_off s + (n - 1)) n ltac:(lia)) as M.
  split; [reflexivity|]. split; [apply N.mod_mul; lia|]. nia.
Qed.

(* ---------------------------------------------------------------------------------------------
   Python *)
(* skip_bits only moves the cursor; the invariant survives because it only speaks of positions after the cursor *)
Theorem skip_bits_spec s k :
  Inv s -> s_buf (skip_bits s k) = s_buf s /\ s_off (skip_bits s k) = s_off s + k /\ Inv (skip_bits s k).
Proof. intros HI. repeat split. intros p Hp. cbn [skip_bits s_off s_buf] in *. apply HI. lia. Qed.

Theorem des_skip_pad_spec d k n :
  d_buf (des_skip_bits d k) = d_buf d /\ d_off (des_skip_bits d k) = d_off d + k /\
  (0 < n -> exists d', des_pad_to_alignment d n = Some d' /\ d_buf d' = d_buf d /\ d_off d' mod n = 0 /\
                       d_off d <= d_off d' < d_off d + n).
Proof.
  repeat split. intros Hn. unfold des_pad_to_alignment. destruct (N.eqb_spec n 0); [lia|]. eexists. split; [reflexivity|].
  cbn [d_buf d_off]. split; [reflexivity|].
  pose proof (N.mod_lt (d_off d) n ltac:(lia)) as M. pose proof (N.div_mod (d_off d) n ltac:(lia)) as D.
  destruct (N.eq_dec (d_off d mod n) 0) as [E|E].
  - rewrite E, N.sub_0_r, N.mod_same, N.add_0_r by lia. split; [exact E|lia].
  - rewrite (N.mod_small (n - d_off d mod n) n) by lia. split; [|lia].
    replace (d_off d + (n - d_off d mod n)) with ((d_off d / n + 1) * n) by nia. apply N.mod_mul. lia.
Qed.

(* Serializer.buffer: the first ceil(offset/8) bytes; under the invariant the bits after the cursor in it are zero ("zero-bit-padded") *)
Theorem ser_buffer_spec s :
  (s_off s + 7) / 8 <= blen (s_buf s) ->
  blen (ser_buffer s) = (s_off s + 7) / 8 /\
  (forall p, bit (ser_buffer s) p = (p <? 8 * ((s_off s + 7) / 8)) && bit (s_buf s) p) /\
  (Inv s -> forall p, s_off s <= p -> bit (ser_buffer s) p = false).
Proof.
  intros Hcap. unfold ser_buffer. split; [unfold blen in *; rewrite firstn_length; lia|]. split; [intros p; apply bit_firstn|].
  intros HI p Hp. rewrite bit_firstn, (HI p Hp). apply andb_false_r.
Qed.

(* ZeroExtendingBuffer *)
Theorem zeb_get_byte_spec b i :
  bytes_ok b -> get_byte b i < 256 /\ (blen b <= i -> get_byte b i = 0) /\
  forall k, k < 8 -> N.testbit (get_byte b i) k = bit b (8 * i + k).
Proof.
  intros Hok. change get_byte with byte_at. split; [apply bytes_ok_byte_at; exact Hok|]. split.
  - intros H. unfold byte_at, blen in *. apply nth_overflow. lia.
  - intros k Hk. unfold bit. f_equal; [f_equal|]; lia.
Qed.

Theorem zeb_get_unsigned_slice_spec b l r :
  if r <? l then get_unsigned_slice b l r = None
  else exists out, get_unsigned_slice b l r = Some out /\ blen out = r - l /\ (bytes_ok b -> bytes_ok out) /\
         forall k, bit out k = (k <? 8 * (r - l)) && bit b (8 * l + k).
Proof.
  destruct (N.ltb_spec r l) as [H|H].
  - unfold get_unsigned_slice. apply N.ltb_lt in H. rewrite H. reflexivity.
  - destruct (slice_bits b l r 0 H) as (out & E & L & Hok & _). exists out. split; [exact E|]. split; [exact L|]. split; [exact Hok|].
    intros k. destruct (slice_bits b l r k H) as (out' & E' & _ & _ & Hb). rewrite E in E'. injection E' as <-. exact Hb.
Qed.

Theorem zeb_fork_bytes_spec b o n :
  if blen b <? o + n then zeb_fork_bytes b o n = None
  else exists out, zeb_fork_bytes b o n = Some out /\ blen out = n /\ forall p, bit out p = (p <? 8 * n) && bit b (8 * o + p).
Proof.
  unfold zeb_fork_bytes. destruct (N.ltb_spec (blen b) (o + n)); [reflexivity|].
  eexists. split; [reflexivity|]. split; [unfold blen in *; rewrite firstn_length, skipn_length; lia|].
  intros p. rewrite bit_firstn, bit_skipn. reflexivity.
Qed.

(* Deserializer.fork_bytes = remaining-bytes clamp, offset clamp, then ZeroExtendingBuffer.fork_bytes *)
Theorem des_fork_bytes_uses_zeb d n :
  des_fork_bytes d n =
  if negb (d_off d mod 8 =? 0) then None
  else if Z.to_N (Z.max (des_remaining d) 0 / 8) <? n then None
       else match zeb_fork_bytes (d_buf d) (N.min (d_off d / 8) (zeb_bit_length (d_buf d) / 8)) n with
            | Some b => Some (mkdes b 0)
            | None => None
            end.
Proof.
  unfold des_fork_bytes, zeb_fork_bytes, zeb_bit_length. destruct (negb (d_off d mod 8 =? 0)); [reflexivity|].
  destruct (_ <? n); [reflexivity|]. destruct (blen (d_buf d) <? _); reflexivity.
Qed.

(* arrays of standard-bit-length primitives *)
Lemma le_image_length w xs : blen (le_image w xs) = N.of_nat w * N.of_nat (length xs).
Proof.
  unfold le_image, blen. induction xs as [|x t IH]; cbn [map concat length]; [lia|].
  rewrite app_length, le_bytes_length. lia.
Qed.

Lemma le_image_ok w xs : bytes_ok (le_image w xs).
Proof.
  unfold le_image, bytes_ok. induction xs as [|x t IH]; cbn [map concat]; [constructor|].
  apply Forall_app. split; [apply le_bytes_ok|exact IH].
Qed.

Lemma bit_app (a b : bytes) p : bit (a ++ b) p = if p <? 8 * blen a then bit a p else bit b (p - 8 * blen a).
Proof.
  unfold bit, byte_at, blen. destruct (N.ltb_spec p (8 * N.of_nat (length a))).
  - rewrite app_nth1 by lia. reflexivity.
  - rewrite app_nth2 by lia. f_equal; [f_equal; lia|].
    replace p with (p - 8 * N.of_nat (length a) + N.of_nat (length a) * 8) at 1 by lia. rewrite N.mod_add by discriminate. reflexivity.
Qed.

(* bit p of the image is bit (p mod 8w) of element p / 8w *)
Lemma le_image_bit w xs : (0 < w)%nat -> forall p,
  bit (le_image w xs) p = (p <? 8 * N.of_nat w * N.of_nat (length xs)) &&
                          N.testbit (nth (N.to_nat (p / (8 * N.of_nat w))) xs 0) (p mod (8 * N.of_nat w)).
Proof.
  intros Hw. unfold le_image. induction xs as [|x t IH]; intros p.
  - cbn [map concat length]. rewrite bit_nil. destruct (N.ltb_spec p (8 * N.of_nat w * N.of_nat 0)); [lia|reflexivity].
  - cbn [map concat]. rewrite bit_app. unfold blen. rewrite le_bytes_length. set (W := 8 * N.of_nat w).
    assert (HW : 0 < W) by (subst W; lia).
    destruct (N.ltb_spec p W).
    + rewrite bit_le_bytes. fold W. replace (p <? W) with true by (symmetry; apply N.ltb_lt; assumption).
      replace (p / W) with 0 by (symmetry; apply N.div_small; assumption). rewrite N.mod_small by assumption.
      cbn [N.to_nat nth length andb]. replace (p <? W * N.of_nat (S (length t))) with true by (symmetry; apply N.ltb_lt; nia). reflexivity.
    + rewrite IH. fold W.
      assert (Hq : p / W = (p - W) / W + 1).
      { replace p with (p - W + 1 * W) at 1 by lia. rewrite N.div_add by lia. reflexivity. }
      assert (Hm : p mod W = (p - W) mod W).
      { replace p with (p - W + 1 * W) at 1 by lia. rewrite N.mod_add by lia. reflexivity. }
      rewrite Hq, Hm. replace (N.to_nat ((p - W) / W + 1)) with (S (N.to_nat ((p - W) / W))) by lia. cbn [nth length].
      f_equal. destruct (N.ltb_spec (p - W) (W * N.of_nat (length t))); destruct (N.ltb_spec p (W * N.of_nat (S (length t)))); try nia; reflexivity.
Qed.

Theorem add_array_std_appends (aligned : bool) s w xs :
  Inv s -> bytes_ok (s_buf s) ->
  (if aligned then s_off s mod 8 = 0 /\ s_off s / 8 + N.of_nat w * N.of_nat (length xs) <= blen (s_buf s)
   else s_off s / 8 + N.of_nat w * N.of_nat (length xs) < blen (s_buf s) \/ le_image w xs = []) ->
  exists s', (if aligned then add_aligned_array_std s w xs else add_unaligned_array_std s w xs) = Some s' /\
             appended s s' (8 * (N.of_nat w * N.of_nat (length xs))) (bit (le_image w xs)).
Proof.
  intros HI Hok Hcap. pose proof (le_image_length w xs) as L. pose proof (le_image_ok w xs) as O. destruct aligned.
  - destruct Hcap as [Hal Hcap]. unfold add_aligned_array_std. rewrite <- L. apply add_aligned_bytes_appends; try assumption. rewrite L. exact Hcap.
  - unfold add_unaligned_array_std. rewrite <- L. apply add_unaligned_bytes_appends; try assumption. rewrite L. exact Hcap.
Qed.

Theorem be_array_std_not_implemented s d w xs count :
  be_add_aligned_array_std s w xs = None /\ be_add_unaligned_array_std s w xs = None /\
  be_fetch_aligned_array_std d w count = None /\ be_fetch_unaligned_array_std d w count = None.
Proof. repeat split. Qed.

Lemma bit_skipn_nat (l : bytes) w p : bit (skipn w l) p = bit l (8 * N.of_nat w + p).
Proof. rewrite <- (Nat2N.id w) at 1. apply bit_skipn. Qed.

Lemma bit_firstn_nat (l : bytes) w p : bit (firstn w l) p = (p <? 8 * N.of_nat w) && bit l p.
Proof. rewrite <- (Nat2N.id w) at 1. apply bit_firstn. Qed.

Lemma le_elems_bit count w : forall bs i k, bytes_ok bs -> (i < count)%nat ->
  N.testbit (nth i (le_elems count w bs) 0) k = (k <? 8 * N.of_nat w) && bit bs (8 * N.of_nat w * N.of_nat i + k).
Proof.
  induction count as [|c IH]; intros bs i k Hok Hi; [lia|]. cbn [le_elems]. destruct i as [|i]; cbn [nth].
  - rewrite of_le_bytes_bit by (apply Forall_firstn'; exact Hok). rewrite bit_firstn_nat. rewrite N.mul_0_r, N.add_0_l. reflexivity.
  - rewrite IH by (try (apply Forall_skipn'; exact Hok); lia). rewrite bit_skipn_nat. f_equal. f_equal. lia.
Qed.

Lemma le_elems_length count w : forall bs, length (le_elems count w bs) = count.
Proof. induction count as [|c IH]; intros bs; cbn [le_elems length]; [reflexivity|]. rewrite IH. reflexivity. Qed.

(* fetch_(un)aligned_array_of_standard_bit_length_primitives: `count` elements; bit k of element i is the bit at
   cursor + 8*w*i + k of the zero-extended buffer *)
Theorem fetch_array_std_spec (aligned : bool) d w count :
  bytes_ok (d_buf d) -> (aligned = true -> d_off d mod 8 = 0) ->
  exists elems bs d', (if aligned then fetch_aligned_array_std d w count else fetch_unaligned_array_std d w count) = Some (elems, bs, d') /\
    d_buf d' = d_buf d /\ d_off d' = d_off d + 8 * (N.of_nat w * count) /\ length elems = N.to_nat count /\
    forall i k, i < count ->
      N.testbit (nth (N.to_nat i) elems 0) k = (k <? 8 * N.of_nat w) && bit (d_buf d) (d_off d + 8 * N.of_nat w * i + k).
Proof.
  intros Hok Hal.
  assert (Hgen : exists bs d', (if aligned then fetch_aligned_bytes d (count * N.of_nat w) else fetch_unaligned_bytes d (N.of_nat w * count)) = Some (bs, d') /\
            d_buf d' = d_buf d /\ d_off d' = d_off d + 8 * (N.of_nat w * count) /\ bytes_ok bs /\
            forall k, bit bs k = (k <? 8 * (N.of_nat w * count)) && bit (d_buf d) (d_off d + k)).
  { destruct aligned.
    - specialize (Hal eq_refl). unfold fetch_aligned_bytes. rewrite Hal. cbn [N.eqb negb].
      pose proof (zeb_get_unsigned_slice_spec (d_buf d) (d_off d / 8) (d_off d / 8 + count * N.of_nat w)) as X.
      replace (d_off d / 8 + count * N.of_nat w <? d_off d / 8) with false in X by (symmetry; apply N.ltb_ge; lia).
      destruct X as (out & E & L & Ho & Hb). rewrite E. eexists. eexists. split; [reflexivity|]. cbn [d_buf d_off].
      split; [reflexivity|]. split; [lia|]. split; [apply Ho; exact Hok|]. intros k. rewrite Hb.
      replace (d_off d / 8 + count * N.of_nat w - d_off d / 8) with (N.of_nat w * count) by lia.
      replace (8 * (d_off d / 8) + k) with (d_off d + k) by lia. reflexivity.
    - destruct (fetch_unaligned_bytes_spec d (N.of_nat w * count) Hok) as (out & d' & E & A & B & _ & C & D).
      exists out, d'. auto. }
  destruct Hgen as (bs & d' & E & A & B & C & D).
  exists (le_elems (N.to_nat count) w bs), bs, d'. split.
  - destruct aligned.
    + unfold fetch_aligned_array_std. unfold fetch_aligned_bytes in E. destruct (negb (d_off d mod 8 =? 0)); [discriminate|].
      destruct (get_unsigned_slice _ _ _); [|discriminate]. injection E as -> <-. reflexivity.
    + unfold fetch_unaligned_array_std. rewrite E. reflexivity.
  - split; [exact A|]. split; [exact B|]. split; [apply le_elems_length|]. intros i k Hi.
    rewrite le_elems_bit by (assumption || lia). rewrite N2Nat.id, D.
    destruct (N.ltb_spec k (8 * N.of_nat w)); cbn [andb]; [|reflexivity].
    replace (8 * N.of_nat w * i + k <? 8 * (N.of_nat w * count)) with true by (symmetry; apply N.ltb_lt; nia).
    cbn [andb]. f_equal. lia.
Qed.

(* ---------------------------------------------------------------------------------------------
   Python float members: add_(un)aligned_f16/32/64 = the bytes methods on struct.pack("<e|f|d", x) (with the OverflowError
   fallback to +-inf), fetch_(un)aligned_f16/32/64 = struct.unpack of the fetched bytes.  struct is not modelled: its packing
   law is the named hypothesis float_to_bytes_law (size bytes, each < 256); everything else is proved. *)
Definition float_to_bytes_law {F : Type} (float_to_bytes : N -> F -> bytes) : Prop :=
  forall size x, (size = 2 \/ size = 4 \/ size = 8) -> blen (float_to_bytes size x) = size /\ bytes_ok (float_to_bytes size x).

Theorem add_float_appends {F : Type} (float_to_bytes : N -> F -> bytes) (aligned : bool) s size (x : F) :
  float_to_bytes_law float_to_bytes -> (size = 2 \/ size = 4 \/ size = 8) ->
  Inv s -> bytes_ok (s_buf s) ->
  (if aligned then s_off s mod 8 = 0 /\ s_off s / 8 + size <= blen (s_buf s) else s_off s / 8 + size < blen (s_buf s)) ->
  exists s', (if aligned then add_aligned_float F float_to_bytes s size x else add_unaligned_float F float_to_bytes s size x) = Some s' /\
             appended s s' (8 * size) (bit (float_to_bytes size x)).
Proof.
  intros Law Hsz HI Hok Hcap. destruct (Law size x Hsz) as (L & K). destruct aligned.
  - destruct Hcap as [Hal Hcap]. unfold add_aligned_float.
    destruct (add_aligned_bytes_appends s (float_to_bytes size x) HI Hok K Hal ltac:(rewrite L; exact Hcap)) as (s' & E & A).
    exists s'. split; [exact E|]. rewrite L in A. exact A.
  - unfold add_unaligned_float.
    destruct (add_unaligned_bytes_appends s (float_to_bytes size x) HI Hok K ltac:(left; rewrite L; exact Hcap)) as (s' & E & A).
    exists s'. split; [exact E|]. rewrite L in A. exact A.
Qed.

Theorem fetch_float_spec {F : Type} (bytes_to_float : N -> bytes -> F) (aligned : bool) d size :
  bytes_ok (d_buf d) -> (aligned = true -> d_off d mod 8 = 0) ->
  exists bs d', (if aligned then fetch_aligned_float bytes_to_float d size else fetch_unaligned_float bytes_to_float d size)
                = Some (bytes_to_float size bs, d') /\
    d_buf d' = d_buf d /\ d_off d' = d_off d + 8 * size /\ blen bs = size /\ bytes_ok bs /\
    forall k, bit bs k = (k <? 8 * size) && bit (d_buf d) (d_off d + k).
Proof.
  intros Hok Hal. destruct aligned.
  - specialize (Hal eq_refl). unfold fetch_aligned_float, fetch_aligned_bytes. rewrite Hal. cbn [N.eqb negb].
    pose proof (zeb_get_unsigned_slice_spec (d_buf d) (d_off d / 8) (d_off d / 8 + size)) as X.
    replace (d_off d / 8 + size <? d_off d / 8) with false in X by (symmetry; apply N.ltb_ge; lia).
    destruct X as (out & E & L & Ho & Hb). rewrite E. exists out. eexists. split; [reflexivity|]. cbn [d_buf d_off].
    split; [reflexivity|]. split; [lia|]. split; [lia|]. split; [apply Ho; exact Hok|]. intros k. rewrite Hb.
    replace (d_off d / 8 + size - d_off d / 8) with size by lia. replace (8 * (d_off d / 8) + k) with (d_off d + k) by lia. reflexivity.
  - unfold fetch_unaligned_float. destruct (fetch_unaligned_bytes_spec d size Hok) as (out & d' & E & A & B & C & D & G).
    rewrite E. exists out, d'. auto 10.
Qed.


(* degenerate bit lengths on the Python side: 0-bit unsigned and 0-/1-bit signed arguments violate the `assert bit_length >= 1`
   (resp. `>= 2`) of the source and raise (None), on both classes, aligned or not; in C/C++ a 0-bit store writes nothing and a
   0-bit load returns 0 (instances of set_uxx_exact / get_uxx_spec) *)
Theorem py_degenerate_lengths_raise s d value (z : Z) bits :
  add_unaligned_unsigned s value 0 = None /\ add_aligned_unsigned s value 0 = None /\
  (bits < 2 -> add_unaligned_signed s z bits = None /\ add_aligned_signed s z bits = None /\
               fetch_unaligned_signed d bits = None /\ fetch_aligned_signed d bits = None) /\
  fetch_unaligned_unsigned d 0 = None /\ fetch_aligned_unsigned d 0 = None.
Proof.
  split; [reflexivity|]. split; [unfold add_aligned_unsigned; destruct (negb _); reflexivity|]. split.
  - intros Hb. unfold add_unaligned_signed, add_aligned_signed, fetch_unaligned_signed, fetch_aligned_signed.
    replace (bits <? 2) with true by (symmetry; apply N.ltb_lt; exact Hb). repeat split.
  - split.
    + unfold fetch_unaligned_unsigned. change ((0 + 7) / 8) with 0. unfold fetch_unaligned_bytes. cbn [N.ltb]. reflexivity.
    + unfold fetch_aligned_unsigned. destruct (negb _); [reflexivity|]. change ((0 + 7) / 8) with 0.
      destruct (get_unsigned_slice _ _ _); reflexivity.
Qed.

(* ---------------------------------------------------------------------------------------------
   C++ subspan(bits) / subspan_bytes(n) (pointer clamped to one past the end: always a well formed span) *)
Theorem subspan_clamped_spec s bits :
  span_ok s -> sp_off s + bits < two64 ->
  let k := (sp_off s + bits) / 8 in
  let s' := subspan_clamped s bits in
  sp_data s' = skipn (N.to_nat (N.min k (sp_size s))) (sp_data s) /\ sp_off s' = (sp_off s + bits) mod 8 /\
  sp_size s' = sp_size s - k /\ span_ok s' /\
  (forall p, bit (sp_data s') p = bit (sp_data s) (8 * N.min k (sp_size s) + p)) /\
  sp_bits s' = sp_size s * 8 - (sp_off s + bits) /\
  (k <= sp_size s -> 8 * k + sp_off s' = sp_off s + bits).
Proof.
  intros (S1 & S2 & S3) Hw k s'. subst s'. unfold subspan_clamped. rewrite (w64_small (sp_off s + bits)) by exact Hw. fold k.
  assert (T64 : two64 = 18446744073709551616) by reflexivity.
  assert (Hsz : (if k <? sp_size s then sp_size s - k else 0) = sp_size s - k) by (destruct (N.ltb_spec k (sp_size s)); lia).
  rewrite Hsz. cbn [sp_data sp_off sp_size].
  replace (sp_size s - (sp_size s - k)) with (N.min k (sp_size s)) by lia.
  split; [reflexivity|]. split; [reflexivity|]. split; [reflexivity|]. split.
  { unfold span_ok. cbn [sp_data sp_off sp_size]. unfold blen in *. rewrite skipn_length.
    pose proof (N.mod_lt (sp_off s + bits) 8). lia. }
  split; [intros p; apply bit_skipn|]. split.
  { unfold sp_bits. cbn [sp_size sp_off]. rewrite w64_small by lia.
    destruct (N.ltb_spec ((sp_size s - k) * 8) ((sp_off s + bits) mod 8)); subst k; lia. }
  intros Hk. subst k. lia.
Qed.

Theorem subspan_bytes_clamped_spec s size_bytes :
  span_ok s ->
  let k := N.min (sp_off s / 8) (sp_size s) in
  let s' := subspan_bytes_clamped s size_bytes in
  sp_data s' = skipn (N.to_nat k) (sp_data s) /\ sp_off s' = sp_off s mod 8 /\
  sp_size s' = N.min size_bytes (sp_size s - sp_off s / 8) /\ span_ok s'.
Proof.
  intros Hs. pose proof Hs as (S1 & S2 & S3).
  destruct (subspan_clamped_spec s 0 Hs ltac:(lia)) as (H1 & H2 & H3 & H4 & _).
  rewrite N.add_0_r in *. unfold subspan_bytes_clamped. cbn [sp_data sp_off sp_size]. rewrite H1, H2, H3.
  split; [reflexivity|]. split; [reflexivity|]. split; [destruct (N.ltb_spec size_bytes (sp_size s - sp_off s / 8)); lia|].
  destruct H4 as (A & B & C). rewrite H1 in A, B. rewrite H2 in C. rewrite H3 in A.
  unfold span_ok. cbn [sp_data sp_off sp_size]. split; [|split; assumption].
  destruct (N.ltb_spec size_bytes (sp_size s - sp_off s / 8)); lia.
Qed.

Theorem subspans_clamped_spec_b s bits size_bytes bits_at size_bits :
  span_okb s = true -> (sp_off s + bits <? two64) && (sp_off s + bits_at <? two64) && (size_bits + 8 <? two64) = true ->
  (let k := (sp_off s + bits) / 8 in
   let s' := subspan_clamped s bits in
   sp_data s' = skipn (N.to_nat (N.min k (sp_size s))) (sp_data s) /\ sp_off s' = (sp_off s + bits) mod 8 /\
   sp_size s' = sp_size s - k /\ span_ok s' /\
   (forall p, bit (sp_data s') p = bit (sp_data s) (8 * N.min k (sp_size s) + p)) /\
   sp_bits s' = sp_size s * 8 - (sp_off s + bits) /\
   (k <= sp_size s -> 8 * k + sp_off s' = sp_off s + bits)) /\
  (let s' := subspan_bytes_clamped s size_bytes in
   sp_data s' = skipn (N.to_nat (N.min (sp_off s / 8) (sp_size s))) (sp_data s) /\ sp_off s' = sp_off s mod 8 /\
   sp_size s' = N.min size_bytes (sp_size s - sp_off s / 8) /\ span_ok s') /\
  (let k := (sp_off s + bits_at) / 8 in
   let o := (sp_off s + bits_at) mod 8 in
   if (sp_size s <? k) || ((sp_size s - k) * 8 <? o + size_bits)
   then subspan2 s bits_at size_bits = inr TooSmall
   else subspan2 s bits_at size_bits = inl (mkspan (skipn (N.to_nat k) (sp_data s)) ((o + size_bits) / 8) o) /\
        k + (o + size_bits) / 8 <= sp_size s).
Proof.
  intros Hb H. apply span_okb_ok in Hb as [Hs _]. apply andb_prop in H as [H H3]. apply andb_prop in H as [H1 H2].
  apply N.ltb_lt in H1, H2, H3.
  split; [apply subspan_clamped_spec; assumption|]. split; [apply subspan_bytes_clamped_spec; assumption|apply subspan2_spec; assumption].
Qed.

(* ---------------------------------------------------------------------------------------------
   The truncation contract of the Python unsigned/signed writers ("all methods operating on scalars implicitly truncate the value
   if it exceeds the range"): _unsigned_to_bytes(value, bit_length) yields ceil(bit_length/8) bytes that hold value mod 2^bit_length
   and NOTHING above bit bit_length - in particular the unused top of the last byte is zero, whatever the value.  With
   add_(un)aligned_unsigned_appends (value is an arbitrary natural there) this is: exactly bit_length bits, those of
   value mod 2^bit_length, are written at the cursor and every bit after the new cursor is zero. *)
Theorem unsigned_to_bytes_spec value bits :
  1 <= bits ->
  exists bs, unsigned_to_bytes value bits = Some bs /\ blen bs = (bits + 7) / 8 /\ bytes_ok bs /\
    of_le_bytes bs = value mod 2 ^ bits /\
    forall k, bit bs k = (k <? bits) && N.testbit value k.
Proof.
  intros Hb. unfold unsigned_to_bytes. replace (bits <? 1) with false by (symmetry; apply N.ltb_ge; exact Hb).
  rewrite to_bytes_loop_le. eexists. split; [reflexivity|].
  set (nb := (bits + 7) / 8). set (v := N.land value (2 ^ bits - 1)).
  assert (Hbits : forall k, bit (le_bytes (N.to_nat nb) v) k = (k <? bits) && N.testbit value k).
  { intros k. rewrite bit_le_bytes. subst v. rewrite N.land_spec, pow2_minus1_ones, tb_ones. rewrite N2Nat.id.
    destruct (N.ltb_spec k (8 * nb)); destruct (N.ltb_spec k bits); cbn [andb]; try (subst nb; lia);
      rewrite ?andb_true_r, ?andb_false_r; reflexivity. }
  split; [unfold blen; rewrite le_bytes_length; lia|]. split; [apply le_bytes_ok|]. split; [|exact Hbits].
  apply N.bits_inj. intros k. rewrite of_le_bytes_bit by apply le_bytes_ok. rewrite Hbits.
  rewrite <- N.land_ones, N.land_spec, tb_ones. apply andb_comm.
Qed.

Theorem unsigned_writers_truncate (aligned : bool) s value bits :
  Inv s -> bytes_ok (s_buf s) -> 1 <= bits ->
  (if aligned then s_off s mod 8 = 0 /\ s_off s / 8 + (bits + 7) / 8 <= blen (s_buf s)
   else s_off s / 8 + (bits + 7) / 8 < blen (s_buf s)) ->
  exists s', (if aligned then add_aligned_unsigned s value bits else add_unaligned_unsigned s value bits) = Some s' /\
             appended s s' bits (N.testbit (value mod 2 ^ bits)) /\
             (if aligned then add_aligned_unsigned s (value mod 2 ^ bits) bits else add_unaligned_unsigned s (value mod 2 ^ bits) bits) = Some s'.
Proof.
  intros HI Hok Hb Hcap.
  assert (Hext : forall s', appended s s' bits (N.testbit value) -> appended s s' bits (N.testbit (value mod 2 ^ bits))).
  { intros s' (A & B & C & D). repeat split; try assumption. intros p. rewrite D.
    destruct (p <? s_off s); [reflexivity|]. destruct (N.ltb_spec p (s_off s + bits)); [|reflexivity].
    symmetry. apply N.mod_pow2_bits_low. lia. }
  assert (Hsame : forall v1 v2, (forall k, k < bits -> N.testbit v1 k = N.testbit v2 k) -> unsigned_to_bytes v1 bits = unsigned_to_bytes v2 bits).
  { intros v1 v2 H. destruct (unsigned_to_bytes_spec v1 bits Hb) as (b1 & E1 & L1 & K1 & _ & B1).
    destruct (unsigned_to_bytes_spec v2 bits Hb) as (b2 & E2 & L2 & K2 & _ & B2). rewrite E1, E2. f_equal.
    apply bytes_eq_of_bits; try assumption; [unfold blen in *; lia|]. intros p. rewrite B1, B2.
    destruct (N.ltb_spec p bits); cbn [andb]; [apply H; assumption|reflexivity]. }
  specialize (Hsame value (value mod 2 ^ bits) (fun k Hk => eq_sym (N.mod_pow2_bits_low value bits k Hk))).
  destruct aligned.
  - destruct Hcap as [Hal Hcap]. destruct (add_aligned_unsigned_appends s value bits HI Hok Hb Hal Hcap) as (s' & E & A).
    exists s'. split; [exact E|]. split; [apply Hext; exact A|]. unfold add_aligned_unsigned in *. rewrite <- Hsame. exact E.
  - destruct (add_unaligned_unsigned_appends s value bits HI Hok Hb Hcap) as (s' & E & A).
    exists s'. split; [exact E|]. split; [apply Hext; exact A|]. unfold add_unaligned_unsigned in *. rewrite <- Hsame. exact E.
Qed.
