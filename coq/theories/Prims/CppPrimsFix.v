(* bitspan::padAndMoveToAlignment and bitspan::subspan(bits_at, size_bits) WITH design_notes/C14_bitspan_wrap_fix.patch
   (proposed; not yet in /repo: Prims/CppPrims.v carries the text that is).  Findings F-BITSPAN-PAD-TRUNC, F-BITSPAN-SUBSPAN-WRAP.
     padAndMoveToAlignment:  `const size_t padding = n_bits - offset_misalignment(n_bits);`   (was: static_cast<uint8_t>(...))
     subspan:  `if (offset_bits < bits_at) return -SerializationBufferTooSmall;`  after the (possibly wrapping) sum, and the
               saturating test `(size_bits > size_available_bits) || (new_offset_bits > size_available_bits - size_bits)`
               in place of `new_offset_bits + size_bits > size_available_bits`. *)
From Verif Require Export CppPrims.
Open Scope N_scope.

Require Coq.Strings.String. Import String.StringSyntax.
(* hash of the cpp/ lines of pins/c14c_fixed.txt: the renderings with design_notes/C14_bitspan_wrap_fix.patch applied *)
Local Open Scope string_scope.
Definition modelled_cpp_header_sha_fix : String.string := "d7c80548aea56240e85bfed83597dd4a".
Local Close Scope string_scope.

Definition padAndMoveToAlignment_fix (s : span) (n_bits : N) : option ((bytes * N) + err) :=
  if n_bits =? 0 then None                                                (* % 0 *)
  else
    let padding := n_bits - sp_off s mod n_bits in                        (* size_t; in [1, n_bits]: no wrap, no truncation *)
    if negb (padding =? n_bits) then
      match setZeros s padding with
      | None => None
      | Some (inr e) => Some (inr e)
      | Some (inl d) => Some (inl (d, w64 (sp_off s + padding)))
      end
    else Some (inl (sp_data s, sp_off s)).

Definition subspan2_fix (s : span) (bits_at size_bits : N) : span + err :=
  let offset_bits := w64 (sp_off s + bits_at) in
  if offset_bits <? bits_at then inr TooSmall                              (* the sum wrapped around *)
  else
    let offset_bytes := offset_bits / 8 in
    let new_offset_bits := offset_bits mod 8 in
    if sp_size s <? offset_bytes then inr TooSmall
    else
      let size_available_bits := w64 ((sp_size s - offset_bytes) * 8) in
      if (size_available_bits <? size_bits) || (size_available_bits - size_bits <? new_offset_bits) then inr TooSmall
      else
        let new_size_bits := w64 (new_offset_bits + size_bits) in
        inl (mkspan (skipn (N.to_nat offset_bytes) (sp_data s)) (new_size_bits / 8) new_offset_bits).
