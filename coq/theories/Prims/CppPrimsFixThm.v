(* padAndMoveToAlignment / subspan(bits_at, size_bits) for EVERY argument of their size_t parameters.
   Part 1: the text currently in /repo (Prims/CppPrims.v) is refuted outside the domains of pad_and_move_spec (n <= 255) and
   subspan2_spec (no wrap-around).  Part 2: the text of design_notes/C14_bitspan_wrap_fix.patch (Prims/CppPrimsFix.v) meets the
   contract at every argument, and is the same function as the current text on the old domains. *)
From Verif Require Import Bits CPrims CPrimsThm CppPrims CppPrimsThm CppPrimsMoreThm CppPrimsFix.
Open Scope N_scope.

(* ---------------------------------------------------------------------------------------------  part 1: current text *)
(* 80-byte zero buffer, cursor 8: padAndMoveToAlignment(512) reports success and leaves the cursor at 256 (504 truncated to
   uint8_t is 248), which is not a multiple of 512; from cursor 3, n = 300: cursor 44 *)
Theorem pad_current_truncates_refuted :
  exists s n, span_ok s /\ bytes_ok (sp_data s) /\ 1 <= n < two64 /\
    exists r o, padAndMoveToAlignment s n = Some (inl (r, o)) /\ o mod n <> 0.
Proof.
  assert (T64 : two64 = 18446744073709551616) by reflexivity.
  exists (mkspan (repeat 0 80) 80 8), 512.
  split; [unfold span_ok, blen; cbn [sp_size sp_data sp_off]; rewrite repeat_length; lia|].
  split; [apply (bytes_ok_repeat0 80)|]. split; [lia|].
  eexists _, _. split; [vm_compute; reflexivity|]. vm_compute. discriminate.
Qed.

(* 4-byte buffer, cursor 8: subspan(2^64 - 7, 8) reports success (a span at the parent's first byte, bit offset 1: the sum
   8 + 2^64 - 7 wrapped to 1) although the requested offset is far beyond the buffer; subspan(0, 2^64 - 6) at cursor 7 reports
   success (7 + 2^64 - 6 wrapped to 1: a span of size 0) *)
Theorem subspan2_current_wraps_refuted :
  exists s, span_ok s /\
    (exists r, subspan2 s (two64 - 7) 8 = inl r) /\
    (exists r, subspan2 (mkspan (sp_data s) (sp_size s) 7) 0 (two64 - 6) = inl r).
Proof.
  assert (T64 : two64 = 18446744073709551616) by reflexivity.
  exists (mkspan [0; 0; 0; 0] 4 8). split; [unfold span_ok, blen; cbn [sp_size sp_data sp_off length]; lia|].
  split; eexists; vm_compute; reflexivity.
Qed.

(* ---------------------------------------------------------------------------------------------  part 2: patched text *)
Theorem pad_and_move_fix_spec s n :
  span_ok s -> bytes_ok (sp_data s) -> 1 <= n < two64 ->
  let pad := (n - sp_off s mod n) mod n in
  (sp_bits s < pad -> padAndMoveToAlignment_fix s n = Some (inr TooSmall)) /\
  (pad <= sp_bits s ->
   exists r, padAndMoveToAlignment_fix s n = Some (inl (r, sp_off s + pad)) /\ (sp_off s + pad) mod n = 0 /\
     List.length r = List.length (sp_data s) /\
     forall p, bit r p = if (sp_off s <=? p) && (p <? sp_off s + pad) then false else bit (sp_data s) p).
Proof.
  intros Hs Hok Hn pad. pose proof (sp_bits_spec s Hs) as Hb. pose proof Hs as (S1 & S2 & S3).
  unfold padAndMoveToAlignment_fix. destruct (N.eqb_spec n 0); [lia|].
  assert (Hm : sp_off s mod n < n) by (apply N.mod_lt; lia).
  destruct (N.eqb_spec (n - sp_off s mod n) n) as [E|E]; cbn [negb].
  - assert (Hp0 : pad = 0) by (subst pad; rewrite E; apply N.mod_same; lia).
    rewrite Hp0. split; [lia|]. intros _. exists (sp_data s). rewrite N.add_0_r.
    split; [reflexivity|]. split; [apply N.mod_divide; [lia|]; apply N.mod_divide; [lia|]; lia|]. split; [reflexivity|].
    intros p. destruct (N.leb_spec (sp_off s) p); destruct (N.ltb_spec p (sp_off s)); cbn [andb]; try reflexivity. lia.
  - assert (Hp : pad = n - sp_off s mod n) by (subst pad; apply N.mod_small; lia).
    rewrite <- Hp. destruct (setZeros_exact s pad Hs Hok ltac:(lia)) as [Ha Hb'].
    split; intros H.
    + rewrite (Ha H). reflexivity.
    + destruct (Hb' H) as (r & -> & Hl & _ & Hbits). exists r. rewrite w64_small by lia.
      split; [reflexivity|]. split; [|split; [exact Hl|exact Hbits]].
      rewrite Hp. pose proof (N.div_mod (sp_off s) n ltac:(lia)) as D.
      replace (sp_off s + (n - sp_off s mod n)) with ((sp_off s / n + 1) * n) by nia.
      apply N.mod_mul. lia.
Qed.

(* on the domain of pad_and_move_spec the patch changes nothing *)
Theorem pad_fix_is_current_on_uint8 s n : n <= 255 -> padAndMoveToAlignment_fix s n = padAndMoveToAlignment s n.
Proof.
  intros Hn. unfold padAndMoveToAlignment_fix, padAndMoveToAlignment. destruct (N.eqb_spec n 0); [reflexivity|].
  rewrite cast_u_small; [reflexivity|]. change (2 ^ 8) with 256. lia.
Qed.

Theorem subspan2_fix_spec s bits_at size_bits :
  span_ok s -> bits_at < two64 -> size_bits < two64 ->
  let k := (sp_off s + bits_at) / 8 in
  let o := (sp_off s + bits_at) mod 8 in
  if (sp_size s <? k) || ((sp_size s - k) * 8 <? o + size_bits)
  then subspan2_fix s bits_at size_bits = inr TooSmall
  else subspan2_fix s bits_at size_bits = inl (mkspan (skipn (N.to_nat k) (sp_data s)) ((o + size_bits) / 8) o) /\
       k + (o + size_bits) / 8 <= sp_size s.
Proof.
  intros (S1 & S2 & S3) Hba Hsb k o. unfold subspan2_fix.
  assert (T64 : two64 = 18446744073709551616) by reflexivity.
  assert (Ho : o < 8) by (subst o; apply N.mod_lt; discriminate).
  destruct (N.lt_ge_cases (sp_off s + bits_at) two64) as [Hw|Hw].
  - rewrite (w64_small (sp_off s + bits_at)) by exact Hw. fold k o.
    replace (sp_off s + bits_at <? bits_at) with false by (symmetry; apply N.ltb_ge; lia).
    destruct (N.ltb_spec (sp_size s) k); cbn [orb]; [reflexivity|].
    rewrite (w64_small ((sp_size s - k) * 8)) by lia.
    destruct (N.ltb_spec ((sp_size s - k) * 8) (o + size_bits)).
    + destruct (N.ltb_spec ((sp_size s - k) * 8) size_bits); cbn [orb]; [reflexivity|].
      replace ((sp_size s - k) * 8 - size_bits <? o) with true by (symmetry; apply N.ltb_lt; lia). reflexivity.
    + replace ((sp_size s - k) * 8 <? size_bits) with false by (symmetry; apply N.ltb_ge; lia).
      replace ((sp_size s - k) * 8 - size_bits <? o) with false by (symmetry; apply N.ltb_ge; lia). cbn [orb].
      rewrite (w64_small (o + size_bits)) by lia. split; [reflexivity|]. lia.
  - assert (Hk : sp_size s < k).
    { subst k. apply N.lt_le_trans with (two64 / 8); [rewrite T64; change (18446744073709551616 / 8) with 2305843009213693952; lia|].
      apply N.div_le_mono; [discriminate|exact Hw]. }
    replace (sp_size s <? k) with true by (symmetry; apply N.ltb_lt; exact Hk). cbn [orb].
    assert (Hwrap : w64 (sp_off s + bits_at) = sp_off s + bits_at - two64).
    { unfold w64. symmetry. apply (N.mod_unique _ _ 1); lia. }
    rewrite Hwrap. replace (sp_off s + bits_at - two64 <? bits_at) with true by (symmetry; apply N.ltb_lt; lia). reflexivity.
Qed.

(* where subspan2_spec applies (no wrap-around) the patch changes nothing *)
Theorem subspan2_fix_is_current_without_wrap s bits_at size_bits :
  span_ok s -> sp_off s + bits_at < two64 -> size_bits + 8 < two64 ->
  subspan2_fix s bits_at size_bits = subspan2 s bits_at size_bits.
Proof.
  intros Hs Hw Hsb. pose proof (subspan2_spec s bits_at size_bits Hs Hw Hsb) as A.
  pose proof (subspan2_fix_spec s bits_at size_bits Hs ltac:(lia) ltac:(lia)) as B. cbn zeta in A, B.
  destruct (_ || _); [congruence|]. destruct A as [A _], B as [B _]. congruence.
Qed.

(* boolean-guard statements for Properties/C14.v *)
Theorem pad_and_move_fix_spec_b s n :
  span_okb s = true -> (1 <=? n) && (n <? two64) = true ->
  let pad := (n - sp_off s mod n) mod n in
  if sp_bits s <? pad
  then padAndMoveToAlignment_fix s n = Some (inr TooSmall)
  else exists r, padAndMoveToAlignment_fix s n = Some (inl (r, sp_off s + pad)) /\ (sp_off s + pad) mod n = 0 /\
         List.length r = List.length (sp_data s) /\
         forall p, bit r p = if (sp_off s <=? p) && (p <? sp_off s + pad) then false else bit (sp_data s) p.
Proof.
  intros Hs Hn pad. apply span_okb_ok in Hs as [Hs Hok]. apply andb_prop in Hn as [Hn1 Hn2].
  apply N.leb_le in Hn1. apply N.ltb_lt in Hn2. destruct (pad_and_move_fix_spec s n Hs Hok (conj Hn1 Hn2)) as [Ha Hb].
  fold pad in Ha, Hb. destruct (N.ltb_spec (sp_bits s) pad); [apply Ha; assumption|apply Hb; assumption].
Qed.

Theorem subspan2_fix_spec_b s bits_at size_bits :
  span_okb s = true -> (bits_at <? two64) && (size_bits <? two64) = true ->
  let k := (sp_off s + bits_at) / 8 in
  let o := (sp_off s + bits_at) mod 8 in
  if (sp_size s <? k) || ((sp_size s - k) * 8 <? o + size_bits)
  then subspan2_fix s bits_at size_bits = inr TooSmall
  else subspan2_fix s bits_at size_bits = inl (mkspan (skipn (N.to_nat k) (sp_data s)) ((o + size_bits) / 8) o) /\
       k + (o + size_bits) / 8 <= sp_size s.
Proof.
  intros Hs Hn. apply span_okb_ok in Hs as [Hs _]. apply andb_prop in Hn as [H1 H2]. apply N.ltb_lt in H1, H2.
  exact (subspan2_fix_spec s bits_at size_bits Hs H1 H2).
Qed.
