(* Proofs about the C++ bitspan model (Prims/CppPrims.v).  copyTo and the set/get members are shown to
   compute what the C functions compute (whose theorems are then reused); setZeros, padAndMoveToAlignment and
   the subspans are proved directly. *)
From Verif Require Import Bits CPrims CPrimsThm CppPrims.
Open Scope N_scope.

(* the span is well formed: data_.size() bytes really exist behind the pointer, sizes/offsets are size_t values *)
Definition span_ok (s : span) : Prop :=
  sp_size s <= blen (sp_data s) /\ 8 * blen (sp_data s) < two64 /\ sp_off s < two64.

Lemma sp_bits_spec s : span_ok s -> sp_bits s = sp_size s * 8 - sp_off s.
Proof.
  intros (H1 & H2 & H3). unfold sp_bits. rewrite w64_small by lia.
  destruct (N.ltb_spec (sp_size s * 8) (sp_off s)); lia.
Qed.

Lemma memmove_zero dst d src s : s <= blen src -> d <= blen dst -> memmove dst d src s 0 = Some dst.
Proof.
  intros Hs Hd. unfold memmove.
  replace ((s + 0 <=? blen src) && (d + 0 <=? blen dst)) with true
    by (symmetry; apply andb_true_intro; split; apply N.leb_le; lia).
  f_equal. cbn [N.to_nat firstn app]. rewrite N.add_0_r. apply firstn_skipn.
Qed.

(* copyTo = nunavutCopyBits on the clamped length *)
Lemma copyTo_refines src dst len :
  let n := N.min len (sp_bits src) in
  n = 0 \/ (sp_off dst + n <= 8 * blen (sp_data dst) /\ sp_off src + n <= 8 * blen (sp_data src) /\
            8 * blen (sp_data dst) < two64 /\ 8 * blen (sp_data src) < two64) ->
  copyTo src dst len = copy_bits (sp_data dst) (sp_off dst) n (sp_data src) (sp_off src).
Proof.
  intros n H. unfold copyTo.
  replace (if sp_bits src <? len then sp_bits src else len) with n by (subst n; destruct (N.ltb_spec (sp_bits src) len); lia).
  destruct (N.eqb_spec n 0) as [Hz|Hz]; [rewrite Hz, copy_bits_zero; reflexivity|].
  destruct H as [H|(Hd & Hs & H64d & H64s)]; [contradiction|].
  unfold copy_bits.
  destruct ((sp_off src mod 8 =? 0) && (sp_off dst mod 8 =? 0)) eqn:Eal; [|reflexivity].
  apply andb_prop in Eal as [Ea1 Ea2]. apply N.eqb_eq in Ea1, Ea2.
  rewrite (w64_small (sp_off dst + n)), (w64_small (sp_off src + n)) by lia.
  replace ((sp_off dst + n) / 8) with (sp_off dst / 8 + n / 8) by lia.
  replace ((sp_off src + n) / 8) with (sp_off src / 8 + n / 8) by lia.
  destruct (N.ltb_spec 0 (n / 8)); [reflexivity|].
  replace (n / 8) with 0 by lia. rewrite memmove_zero by lia. reflexivity.
Qed.

Theorem copyTo_exact src dst len :
  span_ok src -> span_ok dst ->
  let n := N.min len (sp_bits src) in
  sp_off dst + n <= 8 * blen (sp_data dst) ->
  exists r, copyTo src dst len = Some r /\ copied (sp_data dst) (sp_data src) r (sp_off dst) (sp_off src) n.
Proof.
  intros Hs Hd n Hroom. pose proof (sp_bits_spec src Hs) as Hb.
  destruct Hs as (S1 & S2 & S3). destruct Hd as (D1 & D2 & D3).
  destruct (N.eq_dec n 0) as [Hz|Hz].
  - rewrite copyTo_refines by (left; exact Hz). fold n. apply copy_bits_exact'. left. exact Hz.
  - assert (Hsrc : sp_off src + n <= 8 * blen (sp_data src)) by (subst n; lia).
    rewrite copyTo_refines by (right; fold n; repeat split; assumption).
    fold n. apply copy_bits_exact; assumption.
Qed.

(* ---- setZeros ---- *)
Lemma tb_shiftr255 j k : j <= 8 -> k < 8 -> N.testbit (N.land (N.shiftr 255 (8 - j)) 255) k = (k <? j).
Proof.
  intros Hj Hk. tb. destruct (N.ltb_spec (k + (8 - j)) 8); destruct (N.ltb_spec k 8); destruct (N.ltb_spec k j); try lia; reflexivity.
Qed.

Lemma tb_shiftl255 j k : j <= 8 -> k < 8 -> N.testbit (N.land (N.shiftl 255 j) 255) k = (j <=? k).
Proof.
  intros Hj Hk. tb. destruct (N.leb_spec j k); destruct (N.ltb_spec (k - j) 8); destruct (N.ltb_spec k 8); try lia; reflexivity.
Qed.

Lemma byte_at_upd b i v j : (N.to_nat i < length b)%nat -> byte_at (upd b (N.to_nat i) v) j = if j =? i then v else byte_at b j.
Proof.
  intros Hi. unfold byte_at. rewrite nth_upd by exact Hi.
  destruct (N.eqb_spec j i) as [->|Hne]; [rewrite Nat.eqb_refl; reflexivity|].
  destruct (Nat.eqb_spec (N.to_nat j) (N.to_nat i)); [lia|reflexivity].
Qed.

Theorem setZeros_exact s length :
  span_ok s -> bytes_ok (sp_data s) -> length < two64 ->
  (sp_bits s < length -> setZeros s length = Some (inr TooSmall)) /\
  (length <= sp_bits s ->
   exists r, setZeros s length = Some (inl r) /\ List.length r = List.length (sp_data s) /\ bytes_ok r /\
     forall p, bit r p = if (sp_off s <=? p) && (p <? sp_off s + length) then false else bit (sp_data s) p).
Proof.
  intros Hs Hok Hlen. pose proof (sp_bits_spec s Hs) as Hb. destruct Hs as (S1 & S2 & S3).
  assert (T64 : two64 = 18446744073709551616) by reflexivity.
  unfold setZeros. split; intros H.
  - apply N.ltb_lt in H. rewrite H. reflexivity.
  - replace (sp_bits s <? length) with false by (symmetry; apply N.ltb_ge; lia).
    destruct (N.eqb_spec length 0) as [Hz|Hz].
    { exists (sp_data s). split; [reflexivity|]. split; [reflexivity|]. split; [exact Hok|]. intros p.
      destruct (N.leb_spec (sp_off s) p); destruct (N.ltb_spec p (sp_off s + length)); cbn [andb]; try reflexivity. lia. }
    set (d := sp_data s) in *. set (off := sp_off s) in *.
    set (ob := off / 8). set (om := off mod 8).
    assert (Hom : om < 8) by (subst om; apply N.mod_lt; discriminate).
    rewrite (w64_small (om + length)) by lia.
    rewrite (w64_small (om + length + 7)) by lia.
    set (lbc := (om + length + 7) / 8). set (em := (om + length) mod 8).
    assert (Hlbc : 1 <= lbc) by (subst lbc; lia).
    rewrite (w64_small (ob + lbc)) by (subst ob lbc; lia).
    rewrite (w64_small (ob + lbc - 1)) by (subst ob lbc; lia).
    set (lb := ob + lbc - 1).
    assert (Hend : 8 * lb < off + length /\ off + length <= 8 * lb + 8 /\ (off + length) mod 8 = em) by (subst lb lbc ob em om; lia).
    assert (Hlb : lb < blen d) by lia.
    assert (Hob : ob < blen d /\ ob <= lb) by (subst ob lb; lia).
    rewrite (rd_some d ob) by lia.
    set (fbt := N.land (byte_at d ob) _).
    assert (Hlbt : exists lbt, (if em =? 0 then Some 0 else match rd d lb with Some bl => Some (N.land bl (N.land (N.shiftl 255 em) 255)) | None => None end) = Some lbt /\
                   lbt = (if em =? 0 then 0 else N.land (byte_at d lb) (N.land (N.shiftl 255 em) 255))).
    { destruct (em =? 0); [eexists; split; reflexivity|]. rewrite (rd_some d lb) by lia. eexists; split; reflexivity. }
    destruct Hlbt as (lbt & -> & Hlbt).
    unfold memset0. replace (ob + lbc <=? blen d) with true by (symmetry; apply N.leb_le; lia).
    set (d1 := firstn _ d ++ _).
    assert (L1 : List.length d1 = List.length d).
    { subst d1. unfold blen in *. rewrite !app_length, firstn_length, repeat_length, skipn_length. lia. }
    assert (B1 : forall i, byte_at d1 i = if (ob <=? i) && (i <? ob + lbc) then 0 else byte_at d i).
    { intros i. subst d1. apply byte_at_memset0. lia. }
    rewrite (rd_some d1 ob) by (unfold blen in *; rewrite L1; lia).
    rewrite wr_some by (unfold blen in *; rewrite L1; lia).
    set (d2 := upd d1 _ _).
    assert (L2 : List.length d2 = List.length d) by (subst d2; rewrite upd_length; exact L1).
    rewrite (rd_some d2 lb) by (unfold blen in *; rewrite L2; lia).
    rewrite wr_some by (unfold blen in *; rewrite L2; lia).
    eexists. split; [reflexivity|]. split; [rewrite upd_length; exact L2|].
    assert (Hd1ok : bytes_ok d1).
    { apply bytes_ok_byte_at. intros i. rewrite B1. destruct ((ob <=? i) && (i <? ob + lbc)); [reflexivity|apply bytes_ok_byte_at; exact Hok]. }
    split; [apply bytes_ok_upd; [subst d2; apply bytes_ok_upd; [exact Hd1ok|apply land_255_lt]|apply land_255_lt]|].
    intros p.
    rewrite bit_upd by (unfold blen in *; rewrite L2; lia). rewrite tb_land255_mod.
    assert (Hpm : p mod 8 < 8) by (apply N.mod_lt; discriminate).
    assert (B2 : byte_at d2 (p / 8) = if p / 8 =? ob then N.land (N.lor (byte_at d1 ob) fbt) 255 else byte_at d1 (p / 8)).
    { subst d2. apply byte_at_upd. unfold blen in *. rewrite L1. lia. }
    assert (Hfbt : N.testbit fbt (p mod 8) = N.testbit (byte_at d ob) (p mod 8) && (p mod 8 <? om)).
    { subst fbt. rewrite N.land_spec, tb_shiftr255 by lia. reflexivity. }
    assert (Hzero : byte_at d1 ob = 0) by (rewrite B1; replace ((ob <=? ob) && (ob <? ob + lbc)) with true; [reflexivity|];
      symmetry; apply andb_true_intro; split; [apply N.leb_le|apply N.ltb_lt]; lia).
    destruct (N.eqb_spec (p / 8) lb) as [Hpl|Hpl].
    + (* the last byte *)
      rewrite N.lor_spec. unfold bit in B2. 
      assert (Hx : N.testbit (byte_at d2 lb) (p mod 8) = if lb =? ob then N.testbit fbt (p mod 8) else false).
      { rewrite <- Hpl, B2. destruct (N.eqb_spec (p / 8) ob) as [E|E].
        - rewrite tb_land255_mod, N.lor_spec, Hzero, N.bits_0. reflexivity.
        - rewrite B1. replace ((ob <=? p / 8) && (p / 8 <? ob + lbc)) with true; [apply N.bits_0|].
          symmetry; apply andb_true_intro; split; [apply N.leb_le|apply N.ltb_lt]; lia. }
      rewrite Hx. rewrite Hlbt.
      assert (Hl : N.testbit (if em =? 0 then 0 else N.land (byte_at d lb) (N.land (N.shiftl 255 em) 255)) (p mod 8) =
                   negb (em =? 0) && N.testbit (byte_at d lb) (p mod 8) && (em <=? p mod 8)).
      { destruct (N.eqb_spec em 0); [apply N.bits_0|]. rewrite N.land_spec, tb_shiftl255 by lia. reflexivity. }
      rewrite Hl. unfold bit. rewrite Hpl.
      destruct (N.eqb_spec lb ob) as [E|E].
      * rewrite Hfbt, E.
        destruct (N.leb_spec off p); destruct (N.ltb_spec p (off + length)); destruct (N.ltb_spec (p mod 8) om);
          destruct (N.eqb_spec em 0); destruct (N.leb_spec em (p mod 8)); cbn [andb orb negb];
          try (exfalso; subst ob om; lia); rewrite ?andb_true_r, ?andb_false_r, ?orb_false_r; reflexivity.
      * destruct (N.leb_spec off p); destruct (N.ltb_spec p (off + length));
          destruct (N.eqb_spec em 0); destruct (N.leb_spec em (p mod 8)); cbn [andb orb negb];
          try (exfalso; subst ob om; lia); rewrite ?andb_true_r, ?andb_false_r; reflexivity.
    + unfold bit at 1. rewrite B2.
      destruct (N.eqb_spec (p / 8) ob) as [E|E].
      * rewrite tb_land255_mod, N.lor_spec, Hzero, N.bits_0, Hfbt. cbn [orb]. unfold bit. rewrite E.
        destruct (N.leb_spec off p); destruct (N.ltb_spec p (off + length)); destruct (N.ltb_spec (p mod 8) om); cbn [andb];
          try (exfalso; subst ob om; lia); rewrite ?andb_true_r, ?andb_false_r; reflexivity.
      * rewrite B1. unfold bit.
        destruct (N.leb_spec ob (p / 8)); destruct (N.ltb_spec (p / 8) (ob + lbc)); cbn [andb];
          destruct (N.leb_spec off p); destruct (N.ltb_spec p (off + length)); cbn [andb];
          try (exfalso; subst ob om lb; lia); try reflexivity; apply N.bits_0.
Qed.

