(* quarter 2 of the sweep of Prims/F16Flocq.v: binary32 multiplication by 2^-112 (Flocq) = mul_2m112, by vm_compute *)
From Verif Require Import F16 F16FlocqDefs.
Open Scope N_scope.
Lemma sweep_mul_2 : forall_below 130560 (mul_ok_from 130560) = true.
Proof. vm_compute. reflexivity. Qed.
