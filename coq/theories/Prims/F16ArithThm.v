(* Arithmetic proofs about nunavutFloat16Pack for ALL binary32 inputs (model: Prims/F16.v). *)
From Verif Require Import F16.
From Coq Require Import ZArith Lia ZifyBool ZifyN.
Open Scope N_scope.
(* ================= arithmetic proofs for ALL binary32 inputs ================= *)
Ltac Zify.zify_post_hook ::= Z.div_mod_to_equations.

Ltac consts :=
  change F32INF with 2139095040 in *; change F16INF_AS_F32 with 260046848 in *;
  change (N.shiftl 112 23) with 939524096 in *; change (N.shiftl 1 23) with 8388608 in *;
  change (N.ones 23) with 8388607 in *.
Ltac arith :=
  rewrite ?N.shiftr_div_pow2, ?N.shiftl_mul_pow2;
  change 8388607 with (N.ones 23); change 1023 with (N.ones 10); rewrite ?N.land_ones;
  change (2 ^ 10) with 1024; change (2 ^ 12) with 4096; change (2 ^ 13) with 8192; change (2 ^ 23) with 8388608;
  change (2 ^ 32) with 4294967296.

(* ---- the encodings are monotone: order of bit patterns = order of magnitudes ---- *)
Definition enc_val (P b : N) : N := if b / P =? 0 then b mod P else (P + b mod P) * 2 ^ (b / P - 1).

Lemma val16_enc h : val16 h = enc_val 1024 h.
Proof. unfold val16, enc_val. arith. reflexivity. Qed.

Lemma val32_enc y : val32 y = enc_val 8388608 y.
Proof. unfold val32, enc_val, b32_exp, b32_man. arith. reflexivity. Qed.

Lemma pow2_pos n : 0 < 2 ^ n.
Proof. apply N.neq_0_lt_0. apply N.pow_nonzero. discriminate. Qed.

Lemma enc_val_mono P b b' : 0 < P -> b <= b' -> enc_val P b <= enc_val P b'.
Proof.
  intros HP Hb. unfold enc_val.
  pose proof (N.div_mod b P ltac:(lia)) as D1. pose proof (N.div_mod b' P ltac:(lia)) as D2.
  pose proof (N.mod_lt b P ltac:(lia)) as M1. pose proof (N.mod_lt b' P ltac:(lia)) as M2.
  assert (He : b / P <= b' / P) by (apply N.div_le_mono; lia).
  set (e := b / P) in *. set (e' := b' / P) in *. set (m := b mod P) in *. set (m' := b' mod P) in *.
  destruct (N.eq_dec e e') as [Heq|Hne].
  - rewrite <- Heq in *. assert (m <= m') by lia.
    destruct (N.eqb_spec e 0); [assumption|]. apply N.mul_le_mono_r. lia.
  - assert (Hlt : e < e') by lia. clear Hne He.
    pose proof (pow2_pos (e' - 1)) as Hp'.
    destruct (N.eqb_spec e' 0); [lia|].
    assert (Hbig : P * 2 ^ (e' - 1) <= (P + m') * 2 ^ (e' - 1)) by (apply N.mul_le_mono_r; lia).
    destruct (N.eqb_spec e 0).
    + assert (P * 1 <= P * 2 ^ (e' - 1)) by (apply N.mul_le_mono_l; lia). lia.
    + assert (H1 : (P + m) * 2 ^ (e - 1) <= (P + P) * 2 ^ (e - 1)) by (apply N.mul_le_mono_r; lia).
      assert (H2 : 2 ^ e = 2 * 2 ^ (e - 1)) by (rewrite <- N.pow_succ_r'; f_equal; lia).
      assert (H3 : 2 ^ e <= 2 ^ (e' - 1)) by (apply N.pow_le_mono_r; lia).
      assert (H4 : P * 2 ^ e <= P * 2 ^ (e' - 1)) by (apply N.mul_le_mono_l; exact H3).
      assert (H5 : (P + P) * 2 ^ (e - 1) = P * 2 ^ e) by (rewrite H2; ring).
      lia.
Qed.

Lemma val16_mono h h' : h <= h' -> val16 h <= val16 h'.
Proof. intros H. rewrite !val16_enc. apply enc_val_mono; [reflexivity|exact H]. Qed.
Lemma val32_mono y y' : y <= y' -> val32 y <= val32 y'.
Proof. intros H. rewrite !val32_enc. apply enc_val_mono; [reflexivity|exact H]. Qed.

(* value of the half e*1024 + k, for 0 <= k <= 1024 (k = 1024 is the first value of the next binade) *)
Lemma val16_binade e k : 1 <= e -> k <= 1024 -> val16 (e * 1024 + k) = (1024 + k) * 2 ^ (e - 1).
Proof.
  intros He Hk. unfold val16. arith.
  destruct (N.eq_dec k 1024) as [->|Hne].
  - replace ((e * 1024 + 1024) / 1024) with (e + 1) by lia. replace ((e * 1024 + 1024) mod 1024) with 0 by lia.
    destruct (N.eqb_spec (e + 1) 0); [lia|]. replace (e + 1 - 1) with e by lia.
    assert (H2 : 2 ^ e = 2 * 2 ^ (e - 1)) by (rewrite <- N.pow_succ_r'; f_equal; lia). rewrite H2. ring.
  - replace ((e * 1024 + k) / 1024) with e by lia. replace ((e * 1024 + k) mod 1024) with k by lia.
    destruct (N.eqb_spec e 0); [lia|]. reflexivity.
Qed.

Lemma val16_small x : x < 2048 -> val16 x = x.
Proof.
  intros H. unfold val16. arith. destruct (N.eqb_spec (x / 1024) 0); [lia|].
  replace (x / 1024) with 1 by lia. change (2 ^ (1 - 1)) with 1. lia.
Qed.

(* ---- closed forms of pack_mag per range ---- *)
Lemma pack_mag_normal y : 113 * 8388608 <= y -> y < 2139095040 ->
  pack_mag y = N.min 31744 ((y - 939524096 + 4096) / 8192).
Proof.
  intros Hlo Hhi. unfold pack_mag. consts.
  destruct (N.leb_spec 2139095040 y); [lia|].
  unfold mul_2m112, b32_exp. consts. arith.
  destruct (N.leb_spec 113 (y / 4096 * 4096 / 8388608)); [|lia].
  set (y3 := (y / 4096 * 4096 - 939524096 + 4096) mod 4294967296).
  assert (H3 : y3 = y / 4096 * 4096 - 939524096 + 4096) by (subst y3; apply N.mod_small; lia).
  destruct (N.ltb_spec 260046848 y3); arith; lia.
Qed.

Lemma rne_shift_le T s : rne_shift T s <= N.shiftr T s + 1.
Proof.
  unfold rne_shift. destruct (_ <? _); [lia|]. destruct (_ <? _); [lia|]. destruct (N.even _); lia.
Qed.

(* binary32 magnitudes below 2^-26 (exponent field <= 100) pack to zero *)
Lemma pack_mag_tiny y : y < 101 * 8388608 -> pack_mag y = 0.
Proof.
  intros Hhi. unfold pack_mag. consts.
  destruct (N.leb_spec 2139095040 y); [lia|].
  unfold mul_2m112, b32_exp, b32_man. consts. arith.
  set (E := y / 4096 * 4096 / 8388608).
  assert (HE : E <= 100) by (subst E; lia).
  destruct (N.leb_spec 113 E); [lia|].
  assert (Hsmall : forall v, v <= 2049 -> (if 260046848 <? (v + 4096) mod 4294967296 then 260046848 else (v + 4096) mod 4294967296) / 8192 = 0).
  { intros v Hv. rewrite (N.mod_small (v + 4096)) by lia. destruct (N.ltb_spec 260046848 (v + 4096)); lia. }
  destruct (N.eqb_spec E 0); [apply Hsmall; lia|].
  apply Hsmall.
  set (T := 8388608 + y / 4096 * 4096 mod 8388608).
  pose proof (rne_shift_le T (113 - E)) as Hr.
  assert (Hq : N.shiftr T (113 - E) <= 2048).
  { rewrite N.shiftr_div_pow2.
    assert (Hp : 2 ^ 13 <= 2 ^ (113 - E)) by (apply N.pow_le_mono_r; lia).
    assert (Hd : T / 2 ^ (113 - E) <= T / 2 ^ 13) by (apply N.div_le_compat_l; split; [apply pow2_pos|exact Hp]).
    change (2 ^ 13) with 8192 in Hd. assert (T < 16777216) by (subst T; lia). lia. }
  lia.
Qed.

(* exponent fields 101..112: s = 113 - E in 1..12; the multiplication by 2^-112 is exact there (the 12 cleared bits
   absorb the shift), so the result is (T1 / 2^s + 4096) / 8192 *)
Lemma pack_mag_sub E m : 101 <= E <= 112 -> m < 8388608 ->
  pack_mag (E * 8388608 + m) = ((8388608 + m / 4096 * 4096) / 2 ^ (113 - E) + 4096) / 8192.
Proof.
  intros HE Hm. unfold pack_mag. consts.
  destruct (N.leb_spec 2139095040 (E * 8388608 + m)); [lia|].
  unfold mul_2m112, b32_exp, b32_man. consts. arith.
  set (y := E * 8388608 + m).
  replace (y / 4096 * 4096 / 8388608) with E by (subst y; lia).
  replace (y / 4096 * 4096 mod 8388608) with (m / 4096 * 4096) by (subst y; lia).
  destruct (N.leb_spec 113 E); [lia|]. destruct (N.eqb_spec E 0); [lia|].
  set (T := 8388608 + m / 4096 * 4096).
  assert (HT : T < 16777216 /\ T mod 4096 = 0) by (subst T; lia).
  assert (Hex : rne_shift T (113 - E) = T / 2 ^ (113 - E)).
  { unfold rne_shift. rewrite N.shiftr_div_pow2, N.land_ones, N.shiftl_1_l.
    assert (Hc : E = 101 \/ E = 102 \/ E = 103 \/ E = 104 \/ E = 105 \/ E = 106 \/ E = 107 \/ E = 108 \/ E = 109 \/ E = 110 \/
                 E = 111 \/ E = 112) by lia.
    repeat (destruct Hc as [->|Hc]; [match goal with |- context [2 ^ (113 - ?e)] =>
      let a := eval vm_compute in (2 ^ (113 - e)) in let b := eval vm_compute in (2 ^ (113 - e - 1)) in
      change (2 ^ (113 - e)) with a; change (2 ^ (113 - e - 1)) with b end;
      match goal with |- context [?r <? ?h] => destruct (N.ltb_spec r h); [reflexivity|lia] end|]).
    subst E. change (2 ^ (113 - 112)) with 2. change (2 ^ (113 - 112 - 1)) with 1.
    match goal with |- context [?r <? ?h] => destruct (N.ltb_spec r h); [reflexivity|lia] end. }
  rewrite Hex.
  assert (Hq : T / 2 ^ (113 - E) <= T) by (apply N.div_le_upper_bound; [apply N.pow_nonzero; discriminate|];
    pose proof (pow2_pos (113 - E)); nia).
  rewrite (N.mod_small (T / 2 ^ (113 - E) + 4096)) by lia.
  destruct (N.ltb_spec 260046848 (T / 2 ^ (113 - E) + 4096)); [lia|]. reflexivity.
Qed.

(* ---- the rounding rule: nearest, ties away from zero (on magnitudes), overflow to 0x7C00 from 65520 on ---- *)
(* v: exact magnitude in units of 2^-149; h: magnitude of the half, 0x7C00 = 31744 standing for 65536 *)
Definition nearest_away (v h : N) : Prop :=
  (h = 0 \/ (val16 (h - 1) + val16 h) * 2 ^ 125 <= 2 * v) /\
  (h = 31744 \/ 2 * v < (val16 h + val16 (h + 1)) * 2 ^ 125).

Lemma val32_split E m : 1 <= E -> m < 8388608 -> val32 (E * 8388608 + m) = (8388608 + m) * 2 ^ (E - 1).
Proof.
  intros HE Hm. unfold val32, b32_exp, b32_man. arith.
  replace ((E * 8388608 + m) / 8388608) with E by lia. replace ((E * 8388608 + m) mod 8388608) with m by lia.
  destruct (N.eqb_spec E 0); [lia|reflexivity].
Qed.

Lemma rule_tiny y : y < 101 * 8388608 -> nearest_away (val32 y) (pack_mag y).
Proof.
  intros Hy. rewrite pack_mag_tiny by exact Hy. split; [left; reflexivity|right].
  assert (Hv : val32 y <= val32 847249407) by (apply val32_mono; lia).
  assert (Hc : val32 847249407 = 16777215 * 2 ^ 99) by (vm_compute; reflexivity).
  rewrite !val16_small by lia. change (0 + (0 + 1)) with 1. rewrite N.mul_1_l.
  assert (Hp : 16777215 * 2 ^ 99 * 2 < 2 ^ 125) by (vm_compute; reflexivity). lia.
Qed.

Lemma rule_sub E m : 101 <= E <= 112 -> m < 8388608 ->
  nearest_away (val32 (E * 8388608 + m)) (pack_mag (E * 8388608 + m)).
Proof.
  intros HE Hm. rewrite pack_mag_sub, val32_split by lia.
  assert (Hc : E = 101 \/ E = 102 \/ E = 103 \/ E = 104 \/ E = 105 \/ E = 106 \/ E = 107 \/ E = 108 \/ E = 109 \/ E = 110 \/
               E = 111 \/ E = 112) by lia.
  unfold nearest_away.
  repeat (destruct Hc as [->|Hc]; [
    match goal with |- context [2 ^ (113 - ?e)] =>
      let a := eval vm_compute in (2 ^ (113 - e)) in let b := eval vm_compute in (2 ^ (e - 1)) in
      change (2 ^ (113 - e)) with a; change (2 ^ (e - 1)) with b end;
    match goal with |- context [val16 (?h + 1)] =>
      assert (Hh : h <= 1024) by lia; rewrite (val16_small (h + 1)), (val16_small h), (val16_small (h - 1)) by lia;
      let c := eval vm_compute in (2 ^ 125) in change (2 ^ 125) with c; lia end |]).
  subst E.
  match goal with |- context [2 ^ (113 - ?e)] =>
      let a := eval vm_compute in (2 ^ (113 - e)) in let b := eval vm_compute in (2 ^ (e - 1)) in
      change (2 ^ (113 - e)) with a; change (2 ^ (e - 1)) with b end.
  match goal with |- context [val16 (?h + 1)] =>
      assert (Hh : h <= 1024) by lia; rewrite (val16_small (h + 1)), (val16_small h), (val16_small (h - 1)) by lia;
      let c := eval vm_compute in (2 ^ 125) in change (2 ^ 125) with c; lia end.
Qed.

Lemma rule_normal e m : 1 <= e <= 30 -> m < 8388608 -> (e + 112) * 8388608 + m < 1199566848 ->
  nearest_away (val32 ((e + 112) * 8388608 + m)) (pack_mag ((e + 112) * 8388608 + m)).
Proof.
  intros He Hm Hy. rewrite pack_mag_normal, val32_split by lia. unfold nearest_away.
  set (k := (m + 4096) / 8192).
  assert (Hk : k <= 1024) by (subst k; lia).
  replace (N.min 31744 (((e + 112) * 8388608 + m - 939524096 + 4096) / 8192)) with (e * 1024 + k) by (subst k; lia).
  assert (Hh : e * 1024 + k < 31744) by (subst k; lia).
  set (P := 2 ^ (e - 1)). set (Q := 2 ^ 112).
  assert (HPQ : 2 ^ (e + 112 - 1) = P * Q) by (subst P Q; rewrite <- N.pow_add_r; f_equal; lia).
  assert (H125 : 2 ^ 125 = 8192 * Q) by (subst Q; vm_compute; reflexivity).
  assert (HR : 0 < P * Q) by (subst P Q; apply N.mul_pos_pos; apply pow2_pos).
  rewrite HPQ, H125. rewrite (val16_binade e k) by lia. fold P.
  set (R := P * Q) in *.
  split; right.
  - (* lower midpoint *)
    destruct (N.eq_dec k 0) as [Hk0|Hk0].
    + assert (Hm1 : val16 (e * 1024 + k - 1) <= val16 (e * 1024 + k)) by (apply val16_mono; lia).
      rewrite (val16_binade e k) in Hm1 by lia. fold P in Hm1. rewrite Hk0 in *.
      assert (X : (1024 + 0) * P * (8192 * Q) = 8388608 * R) by (subst R; ring).
      assert (Y : 2 * ((8388608 + m) * R) = 2 * (8388608 * R) + 2 * m * R) by ring.
      assert (Z : (val16 (e * 1024 + 0 - 1) + (1024 + 0) * P) * (8192 * Q) <= 2 * ((1024 + 0) * P * (8192 * Q))).
      { rewrite N.mul_add_distr_r. assert (val16 (e * 1024 + 0 - 1) * (8192 * Q) <= (1024 + 0) * P * (8192 * Q)) by (apply N.mul_le_mono_r; exact Hm1). lia. }
      lia.
    + replace (e * 1024 + k - 1) with (e * 1024 + (k - 1)) by lia. rewrite (val16_binade e (k - 1)) by lia. fold P.
      replace (((1024 + (k - 1)) * P + (1024 + k) * P) * (8192 * Q)) with (((2047 + 2 * k) * 8192) * R) by (subst R; replace (1024 + (k - 1)) with (1023 + k) by lia; ring).
      replace (2 * ((8388608 + m) * R)) with ((2 * (8388608 + m)) * R) by ring.
      apply N.mul_le_mono_r. subst k. lia.
  - (* upper midpoint *)
    destruct (N.eq_dec k 1024) as [Hk1|Hk1].
    + replace (e * 1024 + k + 1) with ((e + 1) * 1024 + 1) by lia. rewrite (val16_binade (e + 1) 1) by lia.
      replace (e + 1 - 1) with e by lia.
      assert (H2 : 2 ^ e = 2 * P) by (subst P; rewrite <- N.pow_succ_r'; f_equal; lia). rewrite H2, Hk1.
      replace (((1024 + 1024) * P + (1024 + 1) * (2 * P)) * (8192 * Q)) with ((4098 * 8192) * R) by (subst R; ring).
      replace (2 * ((8388608 + m) * R)) with ((2 * (8388608 + m)) * R) by ring.
      apply N.mul_lt_mono_pos_r; [exact HR|lia].
    + replace (e * 1024 + k + 1) with (e * 1024 + (k + 1)) by lia. rewrite (val16_binade e (k + 1)) by lia. fold P.
      replace (((1024 + k) * P + (1024 + (k + 1)) * P) * (8192 * Q)) with (((2049 + 2 * k) * 8192) * R) by (subst R; ring).
      replace (2 * ((8388608 + m) * R)) with ((2 * (8388608 + m)) * R) by ring.
      apply N.mul_lt_mono_pos_r; [exact HR|subst k; lia].
Qed.

(* from 65520 on (bit pattern 0x477FF000 = 1199566848) every finite input packs to 0x7C00 *)
Lemma pack_mag_overflow y : y < 2139095040 -> (pack_mag y = 31744 <-> 1199566848 <= y).
Proof.
  intros Hy. destruct (N.lt_ge_cases y (113 * 8388608)) as [Hlo|Hlo].
  - split; [|lia]. intros H.
    destruct (N.lt_ge_cases y (101 * 8388608)) as [Ht|Ht]; [rewrite pack_mag_tiny in H by exact Ht; discriminate|].
    replace y with (y / 8388608 * 8388608 + y mod 8388608) in H by lia.
    rewrite pack_mag_sub in H by lia.
    set (T := 8388608 + y mod 8388608 / 4096 * 4096) in H.
    assert (HT : T / 2 ^ (113 - y / 8388608) <= T) by (apply N.div_le_upper_bound; [apply N.pow_nonzero; discriminate|];
      pose proof (pow2_pos (113 - y / 8388608)); nia).
    assert (T < 16777216) by (subst T; lia). lia.
  - rewrite pack_mag_normal by lia. lia.
Qed.

Lemma rule_overflow y : 1199566848 <= y -> y < 2139095040 -> nearest_away (val32 y) (pack_mag y).
Proof.
  intros Hlo Hhi. assert (Hp : pack_mag y = 31744) by (apply pack_mag_overflow; assumption). rewrite Hp.
  split; [right|left; reflexivity].
  assert (Hv : val32 1199566848 <= val32 y) by (apply val32_mono; exact Hlo).
  assert (Hc : (val16 (31744 - 1) + val16 31744) * 2 ^ 125 = 2 * val32 1199566848) by (vm_compute; reflexivity).
  rewrite Hc. lia.
Qed.

Theorem f16_rounding_rule y : y < F32INF -> pack_mag y <= 31744 /\ nearest_away (val32 y) (pack_mag y).
Proof.
  change F32INF with 2139095040. intros Hy.
  assert (Hrule : nearest_away (val32 y) (pack_mag y)).
  { destruct (N.lt_ge_cases y (101 * 8388608)) as [H1|H1]; [apply rule_tiny; exact H1|].
    destruct (N.le_gt_cases 1199566848 y) as [H3|H3]; [apply rule_overflow; assumption|].
    replace y with (y / 8388608 * 8388608 + y mod 8388608) by lia.
    destruct (N.lt_ge_cases y (113 * 8388608)) as [H2|H2].
    - apply rule_sub; lia.
    - replace (y / 8388608) with (y / 8388608 - 112 + 112) by lia. apply rule_normal; lia. }
  split; [|exact Hrule].
  destruct (N.le_gt_cases 1199566848 y) as [H3|H3].
  - assert (pack_mag y = 31744) by (apply pack_mag_overflow; assumption). lia.
  - destruct (N.lt_ge_cases y (113 * 8388608)) as [H2|H2].
    + destruct (N.lt_ge_cases y (101 * 8388608)) as [Ht|Ht]; [rewrite pack_mag_tiny by exact Ht; lia|].
      replace y with (y / 8388608 * 8388608 + y mod 8388608) by lia. rewrite pack_mag_sub by lia.
      set (T := 8388608 + y mod 8388608 / 4096 * 4096).
      assert (HT : T / 2 ^ (113 - y / 8388608) <= T) by (apply N.div_le_upper_bound; [apply N.pow_nonzero; discriminate|];
        pose proof (pow2_pos (113 - y / 8388608)); nia).
      assert (T < 16777216) by (subst T; lia). lia.
    + rewrite pack_mag_normal by lia. lia.
Qed.

(* faithful: the exact value lies between the neighbours of the result (nearest or adjacent) *)
Theorem f16_faithful y : y < F32INF ->
  let h := pack_mag y in
  (h = 0 \/ val16 (h - 1) * 2 ^ 125 <= val32 y) /\ (h = 31744 \/ val32 y <= val16 (h + 1) * 2 ^ 125).
Proof.
  intros Hy h. destruct (f16_rounding_rule y Hy) as [_ [Hl Hu]]. fold h in Hl, Hu.
  pose proof (val16_mono (h - 1) h ltac:(lia)) as M1. pose proof (val16_mono h (h + 1) ltac:(lia)) as M2.
  pose proof (pow2_pos 125) as HP.
  split.
  - destruct Hl as [Hl|Hl]; [left; exact Hl|right]. nia.
  - destruct Hu as [Hu|Hu]; [left; exact Hu|right]. nia.
Qed.

(* monotone: a larger magnitude never packs to a smaller half *)
Theorem f16_monotone y y' : y <= y' -> y' < F32INF -> pack_mag y <= pack_mag y'.
Proof.
  intros Hle Hy'. assert (Hy : y < F32INF) by lia.
  destruct (f16_rounding_rule y Hy) as [Hb [Hl _]]. destruct (f16_rounding_rule y' Hy') as [Hb' [_ Hu']].
  destruct (N.le_gt_cases (pack_mag y) (pack_mag y')) as [H|H]; [exact H|exfalso].
  set (h := pack_mag y) in *. set (h' := pack_mag y') in *.
  pose proof (val32_mono y y' Hle) as Hv.
  destruct Hl as [Hl|Hl]; [lia|]. destruct Hu' as [Hu'|Hu']; [lia|].
  pose proof (val16_mono h' (h - 1) ltac:(lia)) as M1. pose proof (val16_mono (h' + 1) h ltac:(lia)) as M2.
  pose proof (pow2_pos 125) as HP. nia.
Qed.

(* infinities and NaNs (magnitude part): inf -> 0x7C00, NaN -> a NaN (0x7E00) *)
Theorem f16_inf_nan y : F32INF <= y -> y < 2147483648 ->
  (y = F32INF -> pack_mag y = 31744) /\ (F32INF < y -> pack_mag y = 32256 /\ is_nan16 32256 = true).
Proof.
  change F32INF with 2139095040. intros Hlo Hhi. unfold pack_mag. consts.
  destruct (N.leb_spec 2139095040 y); [|lia].
  change 8388607 with (N.ones 23). rewrite N.land_ones. change (2 ^ 23) with 8388608.
  split.
  - intros ->. reflexivity.
  - intros Hgt. destruct (N.eqb_spec (y mod 8388608) 0); [lia|]. split; reflexivity.
Qed.

(* ---- the sign: f16_pack works on the magnitude and copies the sign bit ---- *)
Lemma land_pow2 x n : N.land x (2 ^ n) = if N.testbit x n then 2 ^ n else 0.
Proof.
  apply N.bits_inj. intros k. rewrite N.land_spec, N.pow2_bits_eqb.
  destruct (N.eqb_spec n k) as [->|Hne].
  - destruct (N.testbit x k) eqn:E; [rewrite N.pow2_bits_true; reflexivity|rewrite N.bits_0; reflexivity].
  - rewrite andb_false_r. destruct (N.testbit x n); [rewrite N.pow2_bits_false by exact Hne; reflexivity|rewrite N.bits_0; reflexivity].
Qed.

Lemma lxor_pow2_clear x n : N.testbit x n = true -> N.lxor x (2 ^ n) = x - 2 ^ n.
Proof.
  intros Hb. rewrite N.sub_nocarry_ldiff.
  - apply N.bits_inj. intros k. rewrite N.lxor_spec, N.ldiff_spec, N.pow2_bits_eqb.
    destruct (N.eqb_spec n k) as [->|Hne]; [rewrite Hb; reflexivity|]. rewrite xorb_false_r, andb_true_r. reflexivity.
  - apply N.bits_inj. intros k. rewrite N.ldiff_spec, N.pow2_bits_eqb, N.bits_0.
    destruct (N.eqb_spec n k) as [->|Hne]; [rewrite Hb; reflexivity|reflexivity].
Qed.

Lemma testbit31 x : x < 4294967296 -> N.testbit x 31 = (2147483648 <=? x).
Proof.
  intros Hx. pose proof (N.testbit_spec' x 31) as T. change (2 ^ 31) with 2147483648 in T.
  destruct (N.leb_spec 2147483648 x).
  - replace (x / 2147483648) with 1 in T by lia. destruct (N.testbit x 31); [reflexivity|discriminate].
  - replace (x / 2147483648) with 0 in T by lia. destruct (N.testbit x 31); [discriminate|reflexivity].
Qed.

Lemma pack_mag_lt y : y < 2147483648 -> pack_mag y < 32768.
Proof.
  intros Hy. destruct (N.lt_ge_cases y F32INF) as [H|H].
  - destruct (f16_rounding_rule y H) as [Hb _]. lia.
  - unfold pack_mag. destruct (N.leb_spec F32INF y); [|lia].
    destruct (negb _); [reflexivity|]. destruct (_ <? _); reflexivity.
Qed.

Theorem f16_pack_sign x : x < 4294967296 ->
  f16_pack x = pack_mag (x mod 2147483648) + 32768 * (x / 2147483648).
Proof.
  intros Hx. unfold f16_pack. rewrite N.shiftl_1_l, land_pow2, (testbit31 x Hx).
  destruct (N.leb_spec 2147483648 x) as [Hs|Hs].
  - rewrite lxor_pow2_clear by (rewrite (testbit31 x Hx); apply N.leb_le; exact Hs).
    change (2 ^ 31) with 2147483648. change (N.shiftr 2147483648 16) with 32768.
    replace (x mod 2147483648) with (x - 2147483648) by lia. replace (x / 2147483648) with 1 by lia.
    pose proof (pack_mag_lt (x - 2147483648) ltac:(lia)) as Hp.
    rewrite <- N.lxor_lor, <- N.add_nocarry_lxor; [lia| |].
    + change 32768 with (2 ^ 15). rewrite land_pow2.
      replace (N.testbit (pack_mag (x - 2147483648)) 15) with false; [reflexivity|].
      symmetry. destruct (N.eq_dec (pack_mag (x - 2147483648)) 0) as [->|Hz]; [apply N.bits_0|].
      apply N.bits_above_log2. apply N.log2_lt_pow2; [lia|]. exact Hp.
    + change 32768 with (2 ^ 15). rewrite land_pow2.
      replace (N.testbit (pack_mag (x - 2147483648)) 15) with false; [reflexivity|].
      symmetry. destruct (N.eq_dec (pack_mag (x - 2147483648)) 0) as [->|Hz]; [apply N.bits_0|].
      apply N.bits_above_log2. apply N.log2_lt_pow2; [lia|]. exact Hp.
  - rewrite N.lxor_0_r. change (N.shiftr 0 16) with 0. rewrite N.lor_0_r.
    replace (x mod 2147483648) with x by lia. replace (x / 2147483648) with 0 by lia. lia.
Qed.
