(* Bridge between the integer transcription Prims/F16.v and IEEE-754: the two float multiplications of
   nunavutFloat16Pack / nunavutFloat16Unpack (`in.real *= magic.real`, `out.real *= magic.real`) and the comparison
   `out.real >= inf_nan.real` are evaluated with Flocq's binary32 (`b32_mult mode_NE`, `b32_compare` on `b32_of_bits`) over
   the whole finite domain on which the code performs them, and agree bit for bit with `mul_2m112` / `unpack_mag`:
     pack:   every finite non-negative binary32 whose low 12 bits are cleared (522 240 patterns),
     unpack: every 15-bit magnitude (32 768 patterns).
   The sweeps are `forall_below ... = true` by vm_compute, lifted with forall_below_spec: they ARE proofs.
   Flocq's binary_float carries validity proofs built on the real numbers, so Print Assumptions of these lemmas lists the
   axioms of the standard library's Reals; the other C14 theorems do not depend on this file. *)
From Flocq Require Import IEEE754.Bits IEEE754.Binary.
From Verif Require Import F16 F16Thm F16FlocqDefs F16FlocqSweep1 F16FlocqSweep2 F16FlocqSweep3 F16FlocqSweep4.
From Coq Require Import ZArith Lia.
Open Scope N_scope.

Lemma sweep_mul i : i < 522240 -> mul_ok i = true.
Proof.
  intros Hi.
  destruct (N.lt_ge_cases i 130560); [exact (forall_below_spec _ _ sweep_mul_1 i ltac:(lia))|].
  destruct (N.lt_ge_cases i 261120).
  { pose proof (forall_below_spec _ _ sweep_mul_2 (i - 130560) ltac:(lia)) as X. unfold mul_ok_from in X.
    replace (130560 + (i - 130560)) with i in X by lia. exact X. }
  destruct (N.lt_ge_cases i 391680).
  { pose proof (forall_below_spec _ _ sweep_mul_3 (i - 261120) ltac:(lia)) as X. unfold mul_ok_from in X.
    replace (261120 + (i - 261120)) with i in X by lia. exact X. }
  pose proof (forall_below_spec _ _ sweep_mul_4 (i - 391680) ltac:(lia)) as X. unfold mul_ok_from in X.
  replace (391680 + (i - 391680)) with i in X by lia. exact X.
Qed.
Lemma sweep_unpack : forall_below 32768 unpack_ok = true.
Proof. vm_compute. reflexivity. Qed.

Theorem mul_2m112_is_ieee y : y < F32INF -> y mod 4096 = 0 -> ieee_mul y MAGIC_PACK = mul_2m112 y.
Proof.
  change F32INF with 2139095040. intros Hy Hm.
  pose proof (sweep_mul (y / 4096) ltac:(apply N.div_lt_upper_bound; lia)) as H.
  unfold mul_ok in H. replace (y / 4096 * 4096) with y in H.
  - apply N.eqb_eq. exact H.
  - pose proof (N.div_mod y 4096 ltac:(lia)). lia.
Qed.

Theorem unpack_mag_is_ieee h : h < 32768 -> unpack_mag_ieee h = unpack_mag h.
Proof. intros Hh. apply N.eqb_eq. exact (forall_below_spec _ _ sweep_unpack h Hh). Qed.

(* nunavutFloat16Pack on magnitudes with the multiplication done by Flocq: the same function as pack_mag *)
Definition pack_mag_ieee (y : N) : N :=
  if F32INF <=? y then
    if negb (N.land y 8388607 =? 0) then 32256 else if F32INF <? y then 32767 else 31744
  else
    let y1 := N.shiftl (N.shiftr y 12) 12 in
    let y2 := ieee_mul y1 MAGIC_PACK in
    let y3 := (y2 + 4096) mod 2 ^ 32 in
    let y4 := if F16INF_AS_F32 <? y3 then F16INF_AS_F32 else y3 in
    N.shiftr y4 13.

Theorem pack_mag_is_ieee y : pack_mag_ieee y = pack_mag y.
Proof.
  unfold pack_mag_ieee, pack_mag. destruct (N.leb_spec F32INF y) as [|Hy]; [reflexivity|].
  rewrite mul_2m112_is_ieee; [reflexivity| |].
  - rewrite N.shiftl_mul_pow2, N.shiftr_div_pow2. change (2 ^ 12) with 4096.
    pose proof (N.div_mod y 4096 ltac:(lia)). lia.
  - rewrite N.shiftl_mul_pow2. change (2 ^ 12) with 4096. apply N.mod_mul. lia.
Qed.
