(* "Reports a too-small buffer instead of overrunning it" for the Python Serializer (text of /repo f2fd316 and later,
   Prims/PyPrims.v): EVERY writer is total on every state with the invariant - either the buffer has room and exactly the value's
   bits are appended, or the result is the error (None: ValueError of Serializer._ensure_writable, or NumPy's IndexError of a
   single-element store, raised before anything is stored).  First the `too small -> None` half for each writer (no premise but
   the size), then the totality statements.  The text of before f2fd316, for which this is false, is History/C14_history.v. *)
From Verif Require Import Bits CPrims CPrimsThm PyPrims PyPrimsThm PyPrimsMoreThm PyPrimsStdThm PyPrimsBitsThm PrimsExt PrimsExtThm.
Open Scope N_scope.

(* ---------------------------------------------------------------------------------------------  too small -> error *)
Lemma add_aligned_bytes_too_small s x : blen (s_buf s) < s_off s / 8 + blen x -> add_aligned_bytes s x = None.
Proof. intros H. unfold add_aligned_bytes. destruct (negb (_ =? 0)); [reflexivity|]. rewrite ensure_writable_false by exact H. reflexivity. Qed.

Lemma add_unaligned_bytes_too_small s value : value <> [] -> blen (s_buf s) < s_off s / 8 + (blen value + 1) -> add_unaligned_bytes s value = None.
Proof.
  intros Hv H. unfold add_unaligned_bytes. rewrite ensure_writable_false by exact H.
  replace (0 <? blen value) with true; [reflexivity|]. symmetry. apply N.ltb_lt. destruct value; [contradiction|]. unfold blen. cbn [length]. lia.
Qed.

Lemma add_aligned_unsigned_too_small s value bits : 1 <= bits -> blen (s_buf s) < s_off s / 8 + (bits + 7) / 8 -> add_aligned_unsigned s value bits = None.
Proof.
  intros Hb H. unfold add_aligned_unsigned. destruct (negb (_ =? 0)); [reflexivity|].
  destruct (unsigned_to_bytes_spec value bits Hb) as (bs & E & L & _). rewrite E, L, ensure_writable_false by exact H. reflexivity.
Qed.

Lemma add_unaligned_unsigned_too_small s value bits : 1 <= bits -> blen (s_buf s) < s_off s / 8 + ((bits + 7) / 8 + 1) -> add_unaligned_unsigned s value bits = None.
Proof.
  intros Hb H. unfold add_unaligned_unsigned. destruct (unsigned_to_bytes_spec value bits Hb) as (bs & E & L & _). rewrite E.
  rewrite add_unaligned_bytes_too_small; [reflexivity| |rewrite L; exact H]. intros ->. unfold blen in L. cbn in L. lia.
Qed.

Lemma add_aligned_array_of_bits_too_small s x : blen (s_buf s) < s_off s / 8 + (N.of_nat (length x) + 7) / 8 -> add_aligned_array_of_bits s x = None.
Proof.
  intros H. unfold add_aligned_array_of_bits. destruct (negb (_ =? 0)); [reflexivity|].
  destruct (packbits_spec x) as (_ & L & _). rewrite L, ensure_writable_false by exact H. reflexivity.
Qed.

Lemma add_unaligned_array_of_bits_too_small s x : x <> [] -> blen (s_buf s) < s_off s / 8 + ((N.of_nat (length x) + 7) / 8 + 1) -> add_unaligned_array_of_bits s x = None.
Proof.
  intros Hx H. unfold add_unaligned_array_of_bits. destruct (packbits_spec x) as (_ & L & _).
  rewrite add_unaligned_bytes_too_small; [reflexivity| |rewrite L; exact H].
  intros E. rewrite E in L. unfold blen in L. cbn in L. destruct x; [contradiction|]. cbn [length] in L. lia.
Qed.

Lemma add_aligned_u16_too_small s x : blen (s_buf s) < s_off s / 8 + 2 -> add_aligned_u16 s x = None.
Proof. intros H. unfold add_aligned_u16. rewrite ensure_writable_false by exact H. reflexivity. Qed.
Lemma add_aligned_u32_too_small s x : blen (s_buf s) < s_off s / 8 + 4 -> add_aligned_u32 s x = None.
Proof. intros H. unfold add_aligned_u32. rewrite ensure_writable_false by exact H. reflexivity. Qed.
Lemma add_aligned_u64_too_small s x : blen (s_buf s) < s_off s / 8 + 8 -> add_aligned_u64 s x = None.
Proof. intros H. unfold add_aligned_u64. rewrite ensure_writable_false by exact H. reflexivity. Qed.
Lemma add_aligned_u8_too_small s x : blen (s_buf s) < s_off s / 8 + 1 -> add_aligned_u8 s x = None.
Proof.
  intros H. unfold add_aligned_u8, store. destruct (negb (_ =? 0)); [reflexivity|]. destruct (255 <? x); [reflexivity|].
  replace (s_off s / 8 <? blen (s_buf s)) with false by (symmetry; apply N.ltb_ge; lia). reflexivity.
Qed.

(* ---------------------------------------------------------------------------------------------  totality *)
Theorem add_aligned_bytes_total s x :
  Inv s -> bytes_ok (s_buf s) -> bytes_ok x -> s_off s mod 8 = 0 ->
  if s_off s / 8 + blen x <=? blen (s_buf s)
  then exists s', add_aligned_bytes s x = Some s' /\ appended s s' (8 * blen x) (bit x)
  else add_aligned_bytes s x = None.
Proof.
  intros HI Hok Hx Hal. destruct (N.leb_spec (s_off s / 8 + blen x) (blen (s_buf s))).
  - apply add_aligned_bytes_appends; assumption.
  - apply add_aligned_bytes_too_small; assumption.
Qed.

Theorem add_aligned_unsigned_total s value bits :
  Inv s -> bytes_ok (s_buf s) -> 1 <= bits -> s_off s mod 8 = 0 ->
  if s_off s / 8 + (bits + 7) / 8 <=? blen (s_buf s)
  then exists s', add_aligned_unsigned s value bits = Some s' /\ appended s s' bits (N.testbit (value mod 2 ^ bits))
  else add_aligned_unsigned s value bits = None.
Proof.
  intros HI Hok Hb Hal. destruct (N.leb_spec (s_off s / 8 + (bits + 7) / 8) (blen (s_buf s))).
  - destruct (unsigned_writers_truncate true s value bits HI Hok Hb (conj Hal H)) as (s' & E' & A & _). exists s'. auto.
  - apply add_aligned_unsigned_too_small; assumption.
Qed.

Theorem add_aligned_array_of_bits_total s x :
  Inv s -> bytes_ok (s_buf s) -> s_off s mod 8 = 0 ->
  if s_off s / 8 + (N.of_nat (length x) + 7) / 8 <=? blen (s_buf s)
  then exists s', add_aligned_array_of_bits s x = Some s' /\ appended s s' (N.of_nat (length x)) (nthb x)
  else add_aligned_array_of_bits s x = None.
Proof.
  intros HI Hok Hal. destruct (N.leb_spec (s_off s / 8 + (N.of_nat (length x) + 7) / 8) (blen (s_buf s))).
  - apply add_aligned_array_of_bits_appends; assumption.
  - apply add_aligned_array_of_bits_too_small; assumption.
Qed.

(* single-element stores: NumPy's IndexError is raised before the store *)
Theorem add_aligned_u8_total s x :
  Inv s -> bytes_ok (s_buf s) -> x <= 255 -> s_off s mod 8 = 0 ->
  if s_off s / 8 <? blen (s_buf s)
  then exists s', add_aligned_u8 s x = Some s' /\ appended s s' 8 (N.testbit x)
  else add_aligned_u8 s x = None.
Proof.
  intros HI Hok Hx Hal. destruct (N.ltb_spec (s_off s / 8) (blen (s_buf s))).
  - apply add_aligned_u8_appends; assumption.
  - apply add_aligned_u8_too_small. lia.
Qed.

Theorem add_unaligned_bit_total s x :
  Inv s -> bytes_ok (s_buf s) ->
  if s_off s / 8 <? blen (s_buf s)
  then exists s', add_unaligned_bit s x = Some s' /\ appended s s' 1 (fun _ => x)
  else add_unaligned_bit s x = None.
Proof.
  intros HI Hok. destruct (N.ltb_spec (s_off s / 8) (blen (s_buf s))).
  - apply add_unaligned_bit_appends; assumption.
  - unfold add_unaligned_bit, store_or, rd. replace (nth_error (s_buf s) (N.to_nat (s_off s / 8))) with (@None N); [reflexivity|].
    symmetry. apply nth_error_None. unfold blen in H. lia.
Qed.

Theorem add_aligned_u16_u32_u64_total s x :
  Inv s -> bytes_ok (s_buf s) -> s_off s mod 8 = 0 ->
  (if s_off s / 8 + 2 <=? blen (s_buf s)
   then exists s', add_aligned_u16 s x = Some s' /\ appended s s' 16 (N.testbit x) else add_aligned_u16 s x = None) /\
  (if s_off s / 8 + 4 <=? blen (s_buf s)
   then exists s', add_aligned_u32 s x = Some s' /\ appended s s' 32 (N.testbit x) else add_aligned_u32 s x = None) /\
  (if s_off s / 8 + 8 <=? blen (s_buf s)
   then exists s', add_aligned_u64 s x = Some s' /\ appended s s' 64 (N.testbit x) else add_aligned_u64 s x = None).
Proof.
  intros HI Hok Hal. split; [|split].
  - destruct (N.leb_spec (s_off s / 8 + 2) (blen (s_buf s))); [apply add_aligned_u16_appends; assumption|apply add_aligned_u16_too_small; assumption].
  - destruct (N.leb_spec (s_off s / 8 + 4) (blen (s_buf s))); [apply add_aligned_u32_appends; assumption|apply add_aligned_u32_too_small; assumption].
  - destruct (N.leb_spec (s_off s / 8 + 8) (blen (s_buf s))); [apply add_aligned_u64_appends; assumption|apply add_aligned_u64_too_small; assumption].
Qed.

Theorem add_unaligned_bytes_total s value :
  Inv s -> bytes_ok (s_buf s) -> bytes_ok value ->
  if (blen value =? 0) || (s_off s / 8 + (blen value + 1) <=? blen (s_buf s))
  then exists s', add_unaligned_bytes s value = Some s' /\ appended s s' (8 * blen value) (bit value)
  else add_unaligned_bytes s value = None.
Proof.
  intros HI Hok Hv. destruct value as [|b t].
  - cbn [blen length N.of_nat N.eqb orb]. apply add_unaligned_bytes_appends; auto.
  - replace (blen (b :: t) =? 0) with false by (symmetry; apply N.eqb_neq; unfold blen; cbn [length]; lia). cbn [orb].
    destruct (N.leb_spec (s_off s / 8 + (blen (b :: t) + 1)) (blen (s_buf s))).
    + apply add_unaligned_bytes_appends; try assumption. left. lia.
    + apply add_unaligned_bytes_too_small; [discriminate|assumption].
Qed.

Theorem add_unaligned_unsigned_total s value bits :
  Inv s -> bytes_ok (s_buf s) -> 1 <= bits ->
  if s_off s / 8 + ((bits + 7) / 8 + 1) <=? blen (s_buf s)
  then exists s', add_unaligned_unsigned s value bits = Some s' /\ appended s s' bits (N.testbit (value mod 2 ^ bits))
  else add_unaligned_unsigned s value bits = None.
Proof.
  intros HI Hok Hb. destruct (N.leb_spec (s_off s / 8 + ((bits + 7) / 8 + 1)) (blen (s_buf s))).
  - assert (Hcap : s_off s / 8 + (bits + 7) / 8 < blen (s_buf s)) by lia.
    destruct (unsigned_writers_truncate false s value bits HI Hok Hb Hcap) as (s' & E' & A & _). exists s'. auto.
  - apply add_unaligned_unsigned_too_small; assumption.
Qed.

(* ---- the writers built on the ones above: signed, i8..i64, arrays of bits (unaligned), floats, arrays of standard primitives ---- *)
Theorem add_signed_total (aligned : bool) s value bits :
  Inv s -> bytes_ok (s_buf s) -> 2 <= bits -> (- 2 ^ (Z.of_N bits - 1) <= value < 2 ^ (Z.of_N bits - 1))%Z ->
  (if aligned then s_off s mod 8 = 0 else True) ->
  if s_off s / 8 + ((bits + 7) / 8 + (if aligned then 0 else 1)) <=? blen (s_buf s)
  then exists s', (if aligned then add_aligned_signed s value bits else add_unaligned_signed s value bits) = Some s' /\
                  appended s s' bits (fun k => Z.testbit value (Z.of_N k))
  else (if aligned then add_aligned_signed s value bits else add_unaligned_signed s value bits) = None.
Proof.
  intros HI Hok Hb Hv Hal.
  destruct (N.leb_spec (s_off s / 8 + ((bits + 7) / 8 + (if aligned then 0 else 1))) (blen (s_buf s))).
  - apply add_signed_appends; try assumption. destruct aligned; [split; [exact Hal|lia]|lia].
  - destruct aligned; [unfold add_aligned_signed|unfold add_unaligned_signed]; destruct (bits <? 2); try reflexivity;
      destruct (_ && _)%Z; try reflexivity; [apply add_aligned_unsigned_too_small|apply add_unaligned_unsigned_too_small]; lia.
Qed.

Theorem add_aligned_ixx_total w s (x : Z) :
  (w = 8 \/ w = 16 \/ w = 32 \/ w = 64) ->
  Inv s -> bytes_ok (s_buf s) -> s_off s mod 8 = 0 -> (- 2 ^ (Z.of_N w - 1) <= x < 2 ^ (Z.of_N w - 1))%Z ->
  if s_off s / 8 + w / 8 <=? blen (s_buf s)
  then exists s', add_aligned_ixx w s x = Some s' /\ appended s s' w (fun k => Z.testbit x (Z.of_N k))
  else add_aligned_ixx w s x = None.
Proof.
  intros Hw HI Hok Hal Hx. destruct (N.leb_spec (s_off s / 8 + w / 8) (blen (s_buf s))).
  - apply add_aligned_ixx_appends; assumption.
  - unfold add_aligned_ixx. destruct (_ <? 0)%Z; [reflexivity|].
    destruct Hw as [-> | [-> | [-> | ->]]]; cbn [N.eqb Pos.eqb]; change (8 / 8) with 1 in *; change (16 / 8) with 2 in *;
      change (32 / 8) with 4 in *; change (64 / 8) with 8 in *;
      [apply add_aligned_u8_too_small|apply add_aligned_u16_too_small|apply add_aligned_u32_too_small|apply add_aligned_u64_too_small]; assumption.
Qed.

Theorem add_unaligned_array_of_bits_total s x :
  Inv s -> bytes_ok (s_buf s) ->
  if (N.of_nat (length x) =? 0) || (s_off s / 8 + ((N.of_nat (length x) + 7) / 8 + 1) <=? blen (s_buf s))
  then exists s', add_unaligned_array_of_bits s x = Some s' /\ appended s s' (N.of_nat (length x)) (nthb x)
  else add_unaligned_array_of_bits s x = None.
Proof.
  intros HI Hok. destruct x as [|b t].
  - cbn [length N.of_nat N.eqb orb].
    assert (E : add_unaligned_array_of_bits s [] = Some (mkser (s_buf s) (s_off s - 0))) by reflexivity.
    rewrite E, N.sub_0_r. eexists. split; [reflexivity|]. unfold appended. cbn [s_off s_buf].
    split; [lia|]. split; [reflexivity|]. split; [exact Hok|]. intros p. rewrite N.add_0_r.
    destruct (N.ltb_spec p (s_off s)); [reflexivity|]. apply HI. lia.
  - replace (N.of_nat (length (b :: t)) =? 0) with false by (symmetry; apply N.eqb_neq; cbn [length]; lia). cbn [orb].
    destruct (N.leb_spec (s_off s / 8 + ((N.of_nat (length (b :: t)) + 7) / 8 + 1)) (blen (s_buf s))).
    + apply add_unaligned_array_of_bits_appends; try assumption. lia.
    + apply add_unaligned_array_of_bits_too_small; [discriminate|assumption].
Qed.

Theorem add_float_total {F : Type} (float_to_bytes : N -> F -> bytes) (aligned : bool) s size (x : F) :
  float_to_bytes_law float_to_bytes -> (size = 2 \/ size = 4 \/ size = 8) ->
  Inv s -> bytes_ok (s_buf s) -> (if aligned then s_off s mod 8 = 0 else True) ->
  if s_off s / 8 + (size + (if aligned then 0 else 1)) <=? blen (s_buf s)
  then exists s', (if aligned then add_aligned_float F float_to_bytes s size x else add_unaligned_float F float_to_bytes s size x) = Some s' /\
                  appended s s' (8 * size) (bit (float_to_bytes size x))
  else (if aligned then add_aligned_float F float_to_bytes s size x else add_unaligned_float F float_to_bytes s size x) = None.
Proof.
  intros Law Hsz HI Hok Hal. destruct (Law size x Hsz) as (L & K).
  destruct (N.leb_spec (s_off s / 8 + (size + (if aligned then 0 else 1))) (blen (s_buf s))).
  - apply add_float_appends; try assumption. destruct aligned; [split; [exact Hal|lia]|lia].
  - destruct aligned; [unfold add_aligned_float; apply add_aligned_bytes_too_small; rewrite L; lia|].
    unfold add_unaligned_float. apply add_unaligned_bytes_too_small; [|rewrite L; lia].
    intros E. rewrite E in L. unfold blen in L. cbn in L. lia.
Qed.

Theorem add_array_std_total (aligned : bool) s w xs :
  Inv s -> bytes_ok (s_buf s) -> (if aligned then s_off s mod 8 = 0 else True) ->
  let nbytes := N.of_nat w * N.of_nat (length xs) in
  if (if aligned then false else nbytes =? 0) || (s_off s / 8 + (nbytes + (if aligned then 0 else 1)) <=? blen (s_buf s))
  then exists s', (if aligned then add_aligned_array_std s w xs else add_unaligned_array_std s w xs) = Some s' /\
                  appended s s' (8 * nbytes) (bit (le_image w xs))
  else (if aligned then add_aligned_array_std s w xs else add_unaligned_array_std s w xs) = None.
Proof.
  intros HI Hok Hal nbytes. assert (L : blen (le_image w xs) = nbytes) by apply le_image_length.
  destruct aligned; cbn [orb].
  - destruct (N.leb_spec (s_off s / 8 + (nbytes + 0)) (blen (s_buf s))).
    + apply (add_array_std_appends true); try assumption. split; [exact Hal|fold nbytes; lia].
    + unfold add_aligned_array_std. apply add_aligned_bytes_too_small. rewrite L. lia.
  - destruct (N.eqb_spec nbytes 0) as [E|E]; cbn [orb].
    + apply (add_array_std_appends false); try assumption. right. apply length_zero_iff_nil. unfold blen in L. lia.
    + destruct (N.leb_spec (s_off s / 8 + (nbytes + 1)) (blen (s_buf s))).
      * apply (add_array_std_appends false); try assumption. left. fold nbytes. lia.
      * unfold add_unaligned_array_std. apply add_unaligned_bytes_too_small; [|rewrite L; assumption].
        intros E'. rewrite E' in L. unfold blen in L. cbn in L. lia.
Qed.

(* pad_to_alignment: `while self._bit_offset % n != 0: self.add_unaligned_bit(False)`; when the zero bits do not fit, the IndexError of
   add_unaligned_bit ends the loop (the Python object has then already moved its cursor to the end of the buffer; the model returns no state) *)
Lemma pad_loop_too_small n : 0 < n -> forall fuel s, bytes_ok (s_buf s) ->
  0 < (n - s_off s mod n) mod n -> blen (s_buf s) * 8 < s_off s + (n - s_off s mod n) mod n -> pad_loop fuel s n = None.
Proof.
  intros Hn. induction fuel as [|f IH]; intros s Hok Hp Hc; pose proof (N.mod_lt (s_off s) n ltac:(lia)) as Hm;
    cbn [pad_loop]; destruct (N.eqb_spec (s_off s mod n) 0) as [E|E]; try reflexivity;
    try (rewrite E, N.sub_0_r, N.mod_same in Hp by lia; lia).
  rewrite (N.mod_small (n - s_off s mod n) n) in Hp, Hc by lia.
  destruct (N.lt_ge_cases (s_off s / 8) (blen (s_buf s))) as [Hin|Hout].
  - rewrite add_false_bit by assumption.
    assert (Hm1 : (s_off s + 1) mod n = (s_off s mod n + 1) mod n).
    { rewrite (N.add_mod (s_off s) 1 n) by lia. destruct (N.eq_dec n 1) as [->|]; [rewrite !N.mod_1_r; reflexivity|].
      rewrite (N.mod_small 1 n) by lia. reflexivity. }
    destruct (N.eq_dec (s_off s mod n + 1) n) as [E1|E1]; [lia|].
    apply IH; cbn [s_off s_buf]; [exact Hok| |]; rewrite Hm1, (N.mod_small (s_off s mod n + 1) n) by lia;
      rewrite (N.mod_small (n - (s_off s mod n + 1)) n) by lia; lia.
  - unfold add_unaligned_bit, store_or, rd. replace (nth_error (s_buf s) (N.to_nat (s_off s / 8))) with (@None N); [reflexivity|].
    symmetry. apply nth_error_None. unfold blen in Hout. lia.
Qed.

Theorem pad_to_alignment_total s n :
  Inv s -> bytes_ok (s_buf s) -> 0 < n ->
  let pad := (n - s_off s mod n) mod n in
  if (pad =? 0) || ((s_off s + pad + 7) / 8 <=? blen (s_buf s))
  then pad_to_alignment s n = Some (mkser (s_buf s) (s_off s + pad)) /\ (s_off s + pad) mod n = 0
  else pad_to_alignment s n = None.
Proof.
  intros HI Hok Hn pad. pose proof (N.mod_lt (s_off s) n ltac:(lia)) as Hm.
  destruct (N.eqb_spec pad 0) as [E|E]; cbn [orb].
  - assert (E0 : s_off s mod n = 0).
    { subst pad. destruct (N.eq_dec (s_off s mod n) 0); [assumption|]. rewrite N.mod_small in E by lia. lia. }
    rewrite E, N.add_0_r. split; [|exact E0]. unfold pad_to_alignment. destruct (N.eqb_spec n 0); [lia|].
    destruct (N.to_nat n) eqn:F; [lia|]. cbn [pad_loop]. rewrite E0. cbn [N.eqb]. destruct s; reflexivity.
  - destruct (N.leb_spec ((s_off s + pad + 7) / 8) (blen (s_buf s))).
    + destruct (pad_to_alignment_spec s n HI Hok Hn H) as (A & B & _). split; assumption.
    + unfold pad_to_alignment. destruct (N.eqb_spec n 0); [lia|]. apply pad_loop_too_small; try assumption; fold pad; lia.
Qed.
