(* Proofs about the bit-array methods of the Python model (numpy.packbits / unpackbits with bitorder="little"). *)
From Verif Require Import Bits CPrims CPrimsThm PyPrims PyPrimsThm PyPrimsMoreThm.
Open Scope N_scope.

Definition nthb (x : list bool) (k : N) : bool := nth (N.to_nat k) x false.

Lemma bits_value_bit l : forall k, N.testbit (bits_value l) k = nthb l k.
Proof.
  unfold nthb. induction l as [|b t IH]; intros k.
  - cbn [bits_value]. rewrite N.bits_0. destruct (N.to_nat k); reflexivity.
  - cbn [bits_value]. destruct (N.eq_dec k 0) as [->|Hk].
    + cbn [N.to_nat nth]. destruct b.
      * replace (1 + 2 * bits_value t) with (2 * bits_value t + 1) by lia. apply N.testbit_odd_0.
      * rewrite N.add_0_l. apply N.testbit_even_0.
    + replace k with (N.succ (k - 1)) at 1 by lia. replace (N.to_nat k) with (S (N.to_nat (k - 1))) by lia. cbn [nth].
      rewrite <- IH. destruct b.
      * replace (1 + 2 * bits_value t) with (2 * bits_value t + 1) by lia. apply N.testbit_odd_succ. lia.
      * rewrite N.add_0_l. apply N.testbit_even_succ. lia.
Qed.

Lemma nthb_firstn x n k : k < N.of_nat n -> nthb (firstn n x) k = nthb x k.
Proof. intros H. unfold nthb. apply nth_firstn_lt. lia. Qed.

Lemma nthb_beyond x k : N.of_nat (length x) <= k -> nthb x k = false.
Proof. intros H. unfold nthb. apply nth_overflow. lia. Qed.

Lemma bits_value8_lt x : bits_value (firstn 8 x) < 256.
Proof.
  change 256 with (2 ^ 8). apply high_bits_lt. intros k Hk. rewrite bits_value_bit. apply nthb_beyond.
  rewrite firstn_length. lia.
Qed.

Lemma packbits_le_spec fuel : forall x, (length x <= fuel)%nat ->
  bytes_ok (packbits_le fuel x) /\ blen (packbits_le fuel x) = (N.of_nat (length x) + 7) / 8 /\
  forall k, bit (packbits_le fuel x) k = nthb x k.
Proof.
  induction fuel as [|f IH]; intros x Hl.
  - destruct x; [|cbn in Hl; lia]. cbn [packbits_le]. split; [constructor|]. split; [reflexivity|].
    intros k. rewrite bit_nil. symmetry. apply nthb_beyond. cbn. lia.
  - destruct x as [|b t]; cbn [packbits_le].
    + split; [constructor|]. split; [reflexivity|]. intros k. rewrite bit_nil. symmetry. apply nthb_beyond. cbn. lia.
    + set (x := b :: t) in *.
      destruct (IH (skipn 8 x)) as (Hok & Hlen & Hbits); [rewrite skipn_length; subst x; cbn [length] in *; lia|].
      split; [constructor; [apply bits_value8_lt|exact Hok]|]. split.
      * unfold blen in *. cbn [length]. rewrite Nat2N.inj_succ, Hlen, skipn_length. subst x. cbn [length] in *. lia.
      * intros k. rewrite bit_cons. destruct (N.ltb_spec k 8).
        -- rewrite bits_value_bit. apply nthb_firstn. lia.
        -- rewrite Hbits. unfold nthb. rewrite nth_skipn_add. f_equal. lia.
Qed.

Lemma packbits_spec x :
  bytes_ok (packbits x) /\ blen (packbits x) = (N.of_nat (length x) + 7) / 8 /\ forall k, bit (packbits x) k = nthb x k.
Proof. unfold packbits. apply packbits_le_spec. lia. Qed.

Theorem add_unaligned_array_of_bits_appends s x :
  Inv s -> bytes_ok (s_buf s) -> s_off s / 8 + (N.of_nat (length x) + 7) / 8 < blen (s_buf s) ->
  exists s', add_unaligned_array_of_bits s x = Some s' /\ appended s s' (N.of_nat (length x)) (nthb x).
Proof.
  intros HI Hok Hcap. destruct (packbits_spec x) as (Pok & Plen & Pbits). unfold add_unaligned_array_of_bits.
  destruct (add_unaligned_bytes_appends s (packbits x) HI Hok Pok ltac:(left; rewrite Plen; exact Hcap)) as (s1 & E & (Ho & Hl & Hk & Hb)).
  rewrite E. eexists. split; [reflexivity|]. unfold appended. cbn [s_off s_buf]. rewrite Plen in *.
  set (n := N.of_nat (length x)) in *.
  split; [rewrite Ho; lia|]. split; [exact Hl|]. split; [exact Hk|]. intros p. rewrite Hb.
  destruct (N.ltb_spec p (s_off s)); [reflexivity|]. rewrite Pbits.
  destruct (N.ltb_spec p (s_off s + 8 * ((n + 7) / 8))); destruct (N.ltb_spec p (s_off s + n)); try lia; try reflexivity.
  apply nthb_beyond. fold n. lia.
Qed.

Theorem add_aligned_array_of_bits_appends s x :
  Inv s -> bytes_ok (s_buf s) -> s_off s mod 8 = 0 -> s_off s / 8 + (N.of_nat (length x) + 7) / 8 <= blen (s_buf s) ->
  exists s', add_aligned_array_of_bits s x = Some s' /\ appended s s' (N.of_nat (length x)) (nthb x).
Proof.
  intros HI Hok Hal Hcap. destruct (packbits_spec x) as (Pok & Plen & Pbits).
  destruct (add_aligned_bytes_appends s (packbits x) HI Hok Pok Hal ltac:(rewrite Plen; exact Hcap)) as (s1 & E & (Ho & Hl & Hk & Hb)).
  unfold add_aligned_bytes in E. unfold add_aligned_array_of_bits. rewrite Hal in *.
  rewrite (ensure_writable_true s (s_off s / 8) (blen (packbits x))) in * by (rewrite Plen; exact Hcap). cbn [N.eqb negb] in *.
  destruct (assign_slice (s_buf s) (s_off s / 8) (packbits x)) as [b|]; [|discriminate]. injection E as E. subst s1. cbn [s_off s_buf] in *.
  eexists. split; [reflexivity|]. unfold appended. cbn [s_off s_buf]. rewrite Plen in *. set (n := N.of_nat (length x)) in *.
  split; [reflexivity|]. split; [exact Hl|]. split; [exact Hk|]. intros p. rewrite Hb.
  destruct (N.ltb_spec p (s_off s)); [reflexivity|]. rewrite Pbits.
  destruct (N.ltb_spec p (s_off s + 8 * ((n + 7) / 8))); destruct (N.ltb_spec p (s_off s + n)); try lia; try reflexivity.
  apply nthb_beyond. fold n. lia.
Qed.

(* unpackbits *)
Lemma unpackbits_bit bs : forall k, nthb (unpackbits bs) k = bit bs k.
Proof.
  unfold nthb, unpackbits. induction bs as [|b t IH]; intros k.
  - cbn [flat_map]. rewrite bit_nil. destruct (N.to_nat k); reflexivity.
  - cbn [flat_map]. rewrite bit_cons. set (l8 := map _ (seq 0 8)).
    assert (L8 : length l8 = 8%nat) by (subst l8; rewrite map_length, seq_length; reflexivity).
    destruct (N.ltb_spec k 8).
    + rewrite app_nth1 by lia. subst l8.
      rewrite (nth_indep _ false (N.testbit b (N.of_nat 0))) by (rewrite map_length, seq_length; lia).
      rewrite (map_nth (fun j => N.testbit b (N.of_nat j))). rewrite seq_nth by lia. cbn [Nat.add]. rewrite N2Nat.id. reflexivity.
    + rewrite app_nth2 by lia. rewrite L8. rewrite <- IH. f_equal. lia.
Qed.

Lemma unpackbits_length bs : length (unpackbits bs) = (8 * length bs)%nat.
Proof. unfold unpackbits. induction bs as [|b t IH]; [reflexivity|]. cbn [flat_map length]. rewrite app_length, map_length, seq_length, IH. lia. Qed.

Theorem fetch_unaligned_array_of_bits_spec d count :
  bytes_ok (d_buf d) ->
  exists out d', fetch_unaligned_array_of_bits d count = Some (out, d') /\ d_buf d' = d_buf d /\ d_off d' = d_off d + count /\
    N.of_nat (length out) = count /\ forall k, nthb out k = (k <? count) && bit (d_buf d) (d_off d + k).
Proof.
  intros Hok. unfold fetch_unaligned_array_of_bits. set (nb := (count + 7) / 8).
  destruct (fetch_unaligned_bytes_spec d nb Hok) as (bs & d1 & E & Hbuf & Hoff & Hlen & _ & Hbits).
  rewrite E. eexists. eexists. split; [reflexivity|]. cbn [d_buf d_off]. split; [exact Hbuf|]. split; [rewrite Hoff; subst nb; lia|].
  split.
  - rewrite firstn_length, unpackbits_length. unfold blen in Hlen. subst nb. lia.
  - intros k. destruct (N.ltb_spec k count); cbn [andb].
    + unfold nthb. rewrite nth_firstn_lt by lia. fold (nthb (unpackbits bs) k). rewrite unpackbits_bit, Hbits.
      replace (k <? 8 * nb) with true by (symmetry; apply N.ltb_lt; subst nb; lia). reflexivity.
    + apply nthb_beyond. rewrite firstn_length. lia.
Qed.
