(* Proofs about the Python Serializer / Deserializer model (Prims/PyPrims.v).
   Serializer invariant: every bit of the buffer at a position >= the cursor is zero.  Under it each add_* method
   appends exactly the bits of its argument (the unaligned byte loop `|=` then `=` is correct BECAUSE of it). *)
From Verif Require Import Bits CPrims CPrimsThm PyPrims.
Open Scope N_scope.

Definition Inv (s : ser) : Prop := forall p, s_off s <= p -> bit (s_buf s) p = false.

(* result of appending the bit string `f` of length n at the cursor *)
Definition appended (s s' : ser) (n : N) (f : N -> bool) : Prop :=
  s_off s' = s_off s + n /\ length (s_buf s') = length (s_buf s) /\ bytes_ok (s_buf s') /\
  forall p, bit (s_buf s') p = if p <? s_off s then bit (s_buf s) p
                               else if p <? s_off s + n then f (p - s_off s) else false.

Lemma appended_inv s s' n f : appended s s' n f -> Inv s'.
Proof.
  intros (Ho & _ & _ & Hb) p Hp. rewrite Hb. rewrite Ho in Hp.
  destruct (N.ltb_spec p (s_off s)); [lia|]. destruct (N.ltb_spec p (s_off s + n)); [lia|reflexivity].
Qed.

Lemma ser_new_inv n : Inv (ser_new n) /\ bytes_ok (s_buf (ser_new n)).
Proof. split; [intros p _; apply bit_repeat0|apply bytes_ok_repeat0]. Qed.

Lemma store_some b i v : v <= 255 -> i < blen b -> store b i v = Some (upd b (N.to_nat i) v).
Proof.
  intros Hv Hi. unfold store. replace (255 <? v) with false by (symmetry; apply N.ltb_ge; exact Hv).
  apply N.ltb_lt in Hi. rewrite Hi. reflexivity.
Qed.

Lemma shiftr_byte_lt b k : b < 256 -> N.shiftr b k < 256.
Proof.
  intros H. rewrite N.shiftr_div_pow2.
  assert (Hp : 2 ^ k <> 0) by (apply N.pow_nonzero; discriminate).
  assert (Hd : b / 2 ^ k <= b) by (apply N.div_le_upper_bound; [exact Hp|]; nia).
  lia.
Qed.

(* one iteration of the loop of add_unaligned_bytes *)
Lemma add_unaligned_byte_spec s b :
  Inv s -> bytes_ok (s_buf s) -> b < 256 -> s_off s / 8 + 1 < blen (s_buf s) ->
  exists s', add_unaligned_byte s (s_off s mod 8) (8 - s_off s mod 8) b = Some s' /\ appended s s' 8 (N.testbit b).
Proof.
  intros HI Hok Hb Hcap. unfold add_unaligned_byte, store_or.
  set (off := s_off s) in *. set (buf := s_buf s) in *. set (l := off mod 8).
  assert (Hl : l < 8) by (subst l; apply N.mod_lt; discriminate).
  rewrite (rd_some buf (off / 8)) by lia.
  assert (Hx : byte_at buf (off / 8) < 256) by (apply bytes_ok_byte_at; exact Hok).
  rewrite store_some; [|pose proof (lor_lt_256 _ _ Hx (land_255_lt (N.shiftl b l))); lia|lia].
  set (b1 := upd buf _ _).
  assert (L1 : length b1 = length buf) by (subst b1; apply upd_length).
  replace ((off + 8) / 8) with (off / 8 + 1) by lia.
  rewrite store_some; [|pose proof (shiftr_byte_lt b (8 - l) Hb); lia|unfold blen in *; rewrite L1; lia].
  eexists. split; [reflexivity|]. unfold appended. cbn [s_off s_buf]. fold off buf. split; [reflexivity|]. split; [rewrite upd_length; exact L1|].
  assert (Hok1 : bytes_ok b1) by (subst b1; apply bytes_ok_upd; [exact Hok|apply lor_lt_256; [exact Hx|apply land_255_lt]]).
  split; [apply bytes_ok_upd; [exact Hok1|apply shiftr_byte_lt; exact Hb]|].
  intros p. rewrite bit_upd by (unfold blen in *; rewrite L1; lia).
  assert (Hpm : p mod 8 < 8) by (apply N.mod_lt; discriminate).
  destruct (N.eqb_spec (p / 8) (off / 8 + 1)) as [E1|E1].
  - rewrite tb_shiftr.
    destruct (N.ltb_spec p off); [lia|]. destruct (N.ltb_spec p (off + 8)).
    + f_equal. subst l. lia.
    + apply tb_byte; [exact Hb|subst l; lia].
  - subst b1. rewrite bit_upd by (unfold blen in *; lia).
    destruct (N.eqb_spec (p / 8) (off / 8)) as [E0|E0].
    + rewrite N.lor_spec, N.land_spec, tb_shiftl, tb_255.
      replace (p mod 8 <? 8) with true by (symmetry; apply N.ltb_lt; exact Hpm). rewrite andb_true_r.
      destruct (N.ltb_spec p off).
      * replace (l <=? p mod 8) with false by (symmetry; apply N.leb_gt; subst l; lia). cbn [andb]. rewrite orb_false_r.
        unfold bit. rewrite E0. reflexivity.
      * replace (l <=? p mod 8) with true by (symmetry; apply N.leb_le; subst l; lia). cbn [andb].
        replace (p <? off + 8) with true by (symmetry; apply N.ltb_lt; lia).
        assert (Hz : N.testbit (byte_at buf (off / 8)) (p mod 8) = false).
        { specialize (HI p ltac:(fold off; lia)). unfold bit in HI. fold buf in HI. rewrite E0 in HI. exact HI. }
        rewrite Hz. cbn [orb]. f_equal. subst l. lia.
    + destruct (N.ltb_spec p off); [reflexivity|]. destruct (N.ltb_spec p (off + 8)); [lia|].
      apply HI. fold off. lia.
Qed.

Lemma add_unaligned_loop_spec value : forall s,
  Inv s -> bytes_ok (s_buf s) -> bytes_ok value -> s_off s / 8 + blen value < blen (s_buf s) \/ value = [] ->
  exists s', add_unaligned_loop s (s_off s mod 8) (8 - s_off s mod 8) value = Some s' /\
             appended s s' (8 * blen value) (bit value).
Proof.
  induction value as [|b t IH]; intros s HI Hok Hv Hcap.
  - exists s. split; [reflexivity|]. split; [cbn; lia|]. split; [reflexivity|]. split; [exact Hok|].
    intros p. destruct (N.ltb_spec p (s_off s)); [reflexivity|].
    change (8 * blen []) with 0. rewrite N.add_0_r. replace (p <? s_off s) with false by (symmetry; apply N.ltb_ge; lia).
    apply HI. lia.
  - destruct Hcap as [Hcap|Hcap]; [|discriminate]. inversion Hv; subst.
    assert (Hlen : blen (b :: t) = blen t + 1) by (unfold blen; cbn [length]; lia).
    destruct (add_unaligned_byte_spec s b HI Hok H1 ltac:(lia)) as (s1 & E1 & A1).
    cbn [add_unaligned_loop]. rewrite E1.
    pose proof A1 as (Ho1 & Hl1 & Hok1 & Hb1).
    assert (Hmod : s_off s1 mod 8 = s_off s mod 8) by (rewrite Ho1; lia).
    destruct (IH s1 (appended_inv _ _ _ _ A1) Hok1 H2) as (s2 & E2 & (Ho2 & Hl2 & Hok2 & Hb2)).
    { left. unfold blen in *. rewrite Hl1, Ho1. lia. }
    rewrite Hmod in E2. exists s2. split; [exact E2|]. split; [rewrite Ho2, Ho1, Hlen; lia|].
    split; [rewrite Hl2; exact Hl1|]. split; [exact Hok2|].
    intros p. rewrite Hb2, Hb1, Ho1, Hlen, bit_cons.
    destruct (N.ltb_spec p (s_off s + 8)); destruct (N.ltb_spec p (s_off s)); try lia.
    + reflexivity.
    + replace (p <? s_off s + 8 * (blen t + 1)) with true by (symmetry; apply N.ltb_lt; lia).
      replace (p - s_off s <? 8) with true by (symmetry; apply N.ltb_lt; lia). reflexivity.
    + destruct (N.ltb_spec p (s_off s + 8 + 8 * blen t)); destruct (N.ltb_spec p (s_off s + 8 * (blen t + 1))); try lia; try reflexivity.
      replace (p - s_off s <? 8) with false by (symmetry; apply N.ltb_ge; lia). f_equal. lia.
Qed.

(* Serializer._ensure_writable holds whenever the bytes exist *)
Lemma ensure_writable_true s a n : a + n <= blen (s_buf s) -> ensure_writable s a n = true.
Proof. intros H. unfold ensure_writable. apply N.leb_le. exact H. Qed.
Lemma ensure_writable_false s a n : blen (s_buf s) < a + n -> ensure_writable s a n = false.
Proof. intros H. unfold ensure_writable. apply N.leb_gt. exact H. Qed.

(* with room for len(value) + 1 bytes (or nothing to write) the capacity test passes and the byte loop runs *)
Lemma add_unaligned_bytes_loop s value : value = [] \/ s_off s / 8 + blen value < blen (s_buf s) ->
  add_unaligned_bytes s value = add_unaligned_loop s (s_off s mod 8) (8 - s_off s mod 8) value.
Proof.
  intros [->|H]; [reflexivity|]. unfold add_unaligned_bytes. rewrite ensure_writable_true by lia.
  cbn [negb]. rewrite andb_false_r. reflexivity.
Qed.
(* a successful add_unaligned_bytes is a successful run of its byte loop *)
Lemma add_unaligned_bytes_some s value s' : add_unaligned_bytes s value = Some s' ->
  add_unaligned_loop s (s_off s mod 8) (8 - s_off s mod 8) value = Some s'.
Proof. unfold add_unaligned_bytes. destruct (_ && _); [discriminate|]. exact (fun H => H). Qed.

(* add_unaligned_bytes: works at EVERY bit offset; needs the spare byte the Serializer allocates *)
Theorem add_unaligned_bytes_appends s value :
  Inv s -> bytes_ok (s_buf s) -> bytes_ok value -> s_off s / 8 + blen value < blen (s_buf s) \/ value = [] ->
  exists s', add_unaligned_bytes s value = Some s' /\ appended s s' (8 * blen value) (bit value).
Proof. intros HI Hok Hv Hcap. rewrite add_unaligned_bytes_loop by (destruct Hcap; auto). apply add_unaligned_loop_spec; assumption. Qed.

(* _unsigned_to_bytes *)
Lemma to_bytes_loop_le n : forall v, to_bytes_loop n v = le_bytes n v.
Proof. induction n as [|n IH]; intros v; [reflexivity|]. cbn [to_bytes_loop]. rewrite le_bytes_S, IH. reflexivity. Qed.

Theorem add_unaligned_unsigned_appends s value bits :
  Inv s -> bytes_ok (s_buf s) -> 1 <= bits -> s_off s / 8 + (bits + 7) / 8 < blen (s_buf s) ->
  exists s', add_unaligned_unsigned s value bits = Some s' /\ appended s s' bits (N.testbit value).
Proof.
  intros HI Hok Hb Hcap. unfold add_unaligned_unsigned, unsigned_to_bytes.
  replace (bits <? 1) with false by (symmetry; apply N.ltb_ge; exact Hb).
  rewrite to_bytes_loop_le. set (nb := (bits + 7) / 8). set (v := N.land value (2 ^ bits - 1)).
  assert (Hlen : blen (le_bytes (N.to_nat nb) v) = nb) by (unfold blen; rewrite le_bytes_length; lia).
  destruct (add_unaligned_bytes_appends s (le_bytes (N.to_nat nb) v) HI Hok (le_bytes_ok _ _)) as (s1 & E1 & (Ho1 & Hl1 & Hok1 & Hb1)).
  { left. rewrite Hlen. exact Hcap. }
  rewrite E1. eexists. split; [reflexivity|]. unfold appended. cbn [s_off s_buf]. rewrite Hlen in *.
  split; [rewrite Ho1; subst nb; lia|]. split; [exact Hl1|]. split; [exact Hok1|].
  intros p. rewrite Hb1. destruct (N.ltb_spec p (s_off s)); [reflexivity|].
  rewrite bit_le_bytes. subst v. rewrite N.land_spec, pow2_minus1_ones, tb_ones.
  destruct (N.ltb_spec p (s_off s + 8 * nb)); destruct (N.ltb_spec p (s_off s + bits));
    destruct (N.ltb_spec (p - s_off s) (8 * N.of_nat (N.to_nat nb))); destruct (N.ltb_spec (p - s_off s) bits);
    try (subst nb; lia); cbn [andb]; rewrite ?andb_true_r, ?andb_false_r; reflexivity.
Qed.

Theorem add_unaligned_bit_appends s x :
  Inv s -> bytes_ok (s_buf s) -> s_off s / 8 < blen (s_buf s) ->
  exists s', add_unaligned_bit s x = Some s' /\ appended s s' 1 (fun _ => x).
Proof.
  intros HI Hok Hcap. unfold add_unaligned_bit, store_or.
  set (off := s_off s) in *. set (buf := s_buf s) in *.
  assert (Hl : off mod 8 < 8) by (apply N.mod_lt; discriminate).
  rewrite (rd_some buf (off / 8)) by lia.
  assert (Hx : byte_at buf (off / 8) < 256) by (apply bytes_ok_byte_at; exact Hok).
  assert (Hv : N.shiftl (if x then 1 else 0) (off mod 8) < 256).
  { destruct x; [|rewrite N.shiftl_0_l; reflexivity]. rewrite N.shiftl_1_l. change 256 with (2 ^ 8). apply N.pow_lt_mono_r; lia. }
  rewrite store_some; [|pose proof (lor_lt_256 _ _ Hx Hv); lia|lia].
  eexists. split; [reflexivity|]. unfold appended. cbn [s_off s_buf]. fold off buf. split; [reflexivity|]. split; [apply upd_length|].
  split; [apply bytes_ok_upd; [exact Hok|apply lor_lt_256; assumption]|].
  intros p. rewrite bit_upd by (unfold blen in *; lia).
  assert (Hpm : p mod 8 < 8) by (apply N.mod_lt; discriminate).
  destruct (N.eqb_spec (p / 8) (off / 8)) as [E0|E0].
  - rewrite N.lor_spec, tb_shiftl.
    assert (Hone : forall k, N.testbit (if x then 1 else 0) k = (k =? 0) && x).
    { intros k. destruct x; [|rewrite N.bits_0, andb_false_r; reflexivity]. rewrite andb_true_r.
      change 1 with (2 ^ 0). rewrite N.pow2_bits_eqb. rewrite N.eqb_sym. reflexivity. }
    rewrite Hone.
    destruct (N.ltb_spec p off).
    + replace (off mod 8 <=? p mod 8) with false by (symmetry; apply N.leb_gt; lia). cbn [andb]. rewrite orb_false_r.
      unfold bit. rewrite E0. reflexivity.
    + assert (Hz : N.testbit (byte_at buf (off / 8)) (p mod 8) = false).
      { specialize (HI p ltac:(fold off; lia)). unfold bit in HI. fold buf in HI. rewrite E0 in HI. exact HI. }
      rewrite Hz. cbn [orb]. replace (off mod 8 <=? p mod 8) with true by (symmetry; apply N.leb_le; lia). cbn [andb].
      destruct (N.ltb_spec p (off + 1)).
      * replace (p mod 8 - off mod 8 =? 0) with true by (symmetry; apply N.eqb_eq; lia). reflexivity.
      * replace (p mod 8 - off mod 8 =? 0) with false by (symmetry; apply N.eqb_neq; lia). reflexivity.
  - destruct (N.ltb_spec p off); [reflexivity|]. destruct (N.ltb_spec p (off + 1)); [lia|]. apply HI. fold off. lia.
Qed.
