(* Proofs about the C primitive models: nunavutCopyBits copies exactly the addressed bits. *)
From Verif Require Import Bits CPrims.
Open Scope N_scope.

Lemma rd_some b i : i < blen b -> rd b i = Some (byte_at b i).
Proof.
  unfold rd, byte_at, blen. intros H.
  destruct (nth_error b (N.to_nat i)) eqn:E.
  - f_equal. symmetry. apply nth_error_nth. exact E.
  - apply nth_error_None in E. lia.
Qed.

Lemma wr_some b i v : i < blen b -> wr b i v = Some (upd b (N.to_nat i) (N.land v 255)).
Proof. unfold wr. intros H. apply N.ltb_lt in H. rewrite H. reflexivity. Qed.

Ltac tb := repeat (rewrite ?N.lor_spec, ?N.land_spec, ?N.lxor_spec, ?tb_shiftl, ?tb_shiftr, ?tb_ones, ?tb_255, ?pow2_minus1_ones).

(* one iteration of the loop on the destination byte *)
Lemma step_byte s d sm dm size k :
  k < 8 -> sm + size <= 8 -> dm + size <= 8 ->
  let mask := N.land (N.shiftl (2 ^ size - 1) dm) 255 in
  let inb := N.land (N.shiftl (N.land (N.shiftr s sm) 255) dm) 255 in
  N.testbit (N.lor (N.land d (N.lxor mask 255)) (N.land inb mask)) k =
  if (dm <=? k) && (k <? dm + size) then N.testbit s (sm + (k - dm)) else N.testbit d k.
Proof.
  intros Hk Hs Hd mask inb. subst mask inb. tb.
  destruct (N.leb_spec dm k); destruct (N.ltb_spec k (dm + size)); cbn [andb];
    destruct (N.ltb_spec (k - dm) size); try lia;
    destruct (N.ltb_spec k 8); try lia;
    destruct (N.ltb_spec (k - dm) 8); try lia; cbn [andb orb xorb negb];
    rewrite ?andb_true_r, ?andb_false_r, ?orb_false_r, ?xorb_false_r, ?xorb_true_r; cbn [andb orb negb].
  - replace (k - dm + sm) with (sm + (k - dm)) by lia. destruct (N.testbit d k); reflexivity.
  - destruct (N.testbit d k); reflexivity.
  - destruct (N.testbit d k); reflexivity.
  - reflexivity.
Qed.

Definition copied (dst src r : bytes) (doff soff len : N) : Prop :=
  length r = length dst /\
  (bytes_ok dst -> bytes_ok src -> bytes_ok r) /\
  forall p, bit r p = if (doff <=? p) && (p <? doff + len) then bit src (soff + (p - doff)) else bit dst p.

Lemma choose_min_spec a b : choose_min a b = N.min a b.
Proof. unfold choose_min. destruct (N.ltb_spec a b); lia. Qed.

Lemma w64_small x : x < two64 -> w64 x = x.
Proof. intros H. unfold w64. apply N.mod_small. exact H. Qed.

Lemma copy_loop_spec fuel : forall dst src so do_ last,
    last - so <= N.of_nat fuel -> so <= last ->
    last <= 8 * blen src -> do_ + (last - so) <= 8 * blen dst ->
    8 * blen src < two64 -> 8 * blen dst < two64 ->
    exists r, copy_loop fuel dst src so do_ last = Some r /\ copied dst src r do_ so (last - so).
Proof.
  induction fuel as [|f IH]; intros dst src so do_ last Hf Hso Hsrc Hdst H64s H64d.
  - exists dst. cbn [copy_loop]. replace (last <=? so) with true by (symmetry; apply N.leb_le; lia).
    split; [reflexivity|]. split; [reflexivity|]. split; [auto|]. intros p.
    destruct (N.leb_spec do_ p); destruct (N.ltb_spec p (do_ + (last - so))); cbn [andb]; try reflexivity. lia.
  - cbn [copy_loop]. destruct (N.leb_spec last so) as [Hle|Hlt].
    + exists dst. split; [reflexivity|]. split; [reflexivity|]. split; [auto|]. intros p.
      destruct (N.leb_spec do_ p); destruct (N.ltb_spec p (do_ + (last - so))); cbn [andb]; try reflexivity. lia.
    + set (sm := so mod 8). set (dm := do_ mod 8).
      set (mx := if dm <? sm then sm else dm).
      rewrite choose_min_spec. set (size := N.min (8 - mx) (last - so)).
      assert (Hsm : sm < 8) by (subst sm; apply N.mod_lt; discriminate).
      assert (Hdm : dm < 8) by (subst dm; apply N.mod_lt; discriminate).
      assert (Hmx : mx < 8 /\ sm <= mx /\ dm <= mx) by (subst mx; destruct (N.ltb_spec dm sm); lia).
      assert (Hsize : 1 <= size /\ size <= 8 - mx /\ size <= last - so) by (subst size; lia).
      rewrite (w64_small (so + size)), (w64_small (do_ + size)) by lia.
      rewrite (rd_some src (so / 8)) by (unfold blen in *; lia).
      rewrite (rd_some dst (do_ / 8)) by (unfold blen in *; lia).
      rewrite wr_some by (unfold blen in *; lia).
      set (nb := N.lor _ _).
      set (dst' := upd dst (N.to_nat (do_ / 8)) (N.land nb 255)).
      destruct (IH dst' src (so + size) (do_ + size) last) as (r & Hr & Hlen & Hok & Hbits).
      * lia.
      * lia.
      * exact Hsrc.
      * subst dst'. unfold blen. rewrite upd_length. unfold blen in Hdst. lia.
      * exact H64s.
      * subst dst'. unfold blen. rewrite upd_length. exact H64d.
      * exists r. split; [exact Hr|]. split.
        { rewrite Hlen. subst dst'. apply upd_length. }
        split.
        { intros Hd0 Hs0. apply Hok; [|exact Hs0]. subst dst'. apply bytes_ok_upd; [exact Hd0|apply land_255_lt]. }
        intros p. rewrite Hbits. subst dst'.
        rewrite bit_upd by (unfold blen in *; lia). rewrite tb_land255_mod.
        subst nb.
        destruct (N.leb_spec (do_ + size) p) as [H1|H1];
          destruct (N.ltb_spec p (do_ + size + (last - (so + size)))) as [H2|H2]; cbn [andb].
        -- replace ((do_ <=? p) && (p <? do_ + (last - so))) with true
             by (symmetry; apply andb_true_intro; split; [apply N.leb_le|apply N.ltb_lt]; lia).
           f_equal. lia.
        -- replace ((do_ <=? p) && (p <? do_ + (last - so))) with false
             by (symmetry; apply andb_false_intro2; apply N.ltb_ge; lia).
           destruct (N.eqb_spec (p / 8) (do_ / 8)) as [He|He]; [|reflexivity].
           rewrite step_byte by (try apply N.mod_lt; fold sm dm; lia || discriminate).
           fold dm. replace ((dm <=? p mod 8) && (p mod 8 <? dm + size)) with false; [unfold bit; rewrite He; reflexivity|].
           symmetry. subst dm. apply andb_false_intro2. apply N.ltb_ge. lia.
        -- destruct (N.eqb_spec (p / 8) (do_ / 8)) as [He|He].
           ++ rewrite step_byte by (try apply N.mod_lt; fold sm dm; lia || discriminate).
              fold dm sm.
              destruct (N.leb_spec do_ p) as [H3|H3].
              ** replace ((dm <=? p mod 8) && (p mod 8 <? dm + size)) with true
                   by (symmetry; subst dm; apply andb_true_intro; split; [apply N.leb_le|apply N.ltb_lt]; lia).
                 replace (p <? do_ + (last - so)) with true by (symmetry; apply N.ltb_lt; lia).
                 cbn [andb]. unfold bit. f_equal; [f_equal|]; subst sm dm; lia.
              ** replace ((dm <=? p mod 8) && (p mod 8 <? dm + size)) with false
                   by (symmetry; subst dm; apply andb_false_intro1; apply N.leb_gt; lia).
                 cbn [andb]. unfold bit; rewrite He; reflexivity.
           ++ replace ((do_ <=? p) && (p <? do_ + (last - so))) with false; [reflexivity|].
              symmetry. destruct (N.leb_spec do_ p); [|reflexivity]. cbn [andb]. apply N.ltb_ge.
              subst dm sm. lia.
        -- lia.
Qed.

(* ---- the aligned path ---- *)
Lemma nth_firstn_lt {A} (l : list A) : forall n i d, (i < n)%nat -> nth i (firstn n l) d = nth i l d.
Proof.
  induction l as [|x l IH]; intros n i d H; destruct n; destruct i; cbn; try reflexivity; try lia.
  apply IH. lia.
Qed.

Lemma nth_skipn_add {A} (l : list A) : forall n i d, nth i (skipn n l) d = nth (n + i) l d.
Proof.
  induction l as [|x l IH]; intros n i d; destruct n; cbn; try reflexivity.
  - destruct i; reflexivity.
  - apply IH.
Qed.

Lemma byte_at_splice dst src d s n i :
  s + n <= blen src -> d + n <= blen dst ->
  byte_at (firstn (N.to_nat d) dst ++ firstn (N.to_nat n) (skipn (N.to_nat s) src) ++ skipn (N.to_nat (d + n)) dst) i =
  if i <? d then byte_at dst i else if i <? d + n then byte_at src (s + (i - d)) else byte_at dst i.
Proof.
  unfold blen, byte_at. intros Hs Hd.
  assert (L1 : length (firstn (N.to_nat d) dst) = N.to_nat d) by (rewrite firstn_length; lia).
  assert (L2 : length (firstn (N.to_nat n) (skipn (N.to_nat s) src)) = N.to_nat n)
    by (rewrite firstn_length, skipn_length; lia).
  destruct (N.ltb_spec i d).
  - rewrite app_nth1 by lia. rewrite nth_firstn_lt by lia. reflexivity.
  - rewrite app_nth2 by lia. rewrite L1.
    destruct (N.ltb_spec i (d + n)).
    + rewrite app_nth1 by lia. rewrite nth_firstn_lt by lia.
      rewrite nth_skipn_add. f_equal. lia.
    + rewrite app_nth2 by lia. rewrite L2. rewrite nth_skipn_add. f_equal. lia.
Qed.

Lemma splice_length dst src d s n :
  s + n <= blen src -> d + n <= blen dst ->
  length (firstn (N.to_nat d) dst ++ firstn (N.to_nat n) (skipn (N.to_nat s) src) ++ skipn (N.to_nat (d + n)) dst) = length dst.
Proof.
  unfold blen. intros Hs Hd. rewrite !app_length, !firstn_length, !skipn_length. lia.
Qed.

Lemma mask_byte ld ls m k : k < 8 -> m <= 8 ->
  N.testbit (N.lor (N.land ld (N.lxor (2 ^ m - 1) 255)) (N.land ls (2 ^ m - 1))) k =
  if k <? m then N.testbit ls k else N.testbit ld k.
Proof.
  intros Hk Hm. tb. destruct (N.ltb_spec k m); destruct (N.ltb_spec k 8); try lia; cbn [xorb negb andb].
  - rewrite andb_false_r, andb_true_r. reflexivity.
  - rewrite andb_true_r, andb_false_r, orb_false_r. reflexivity.
Qed.

Theorem copy_bits_exact dst doff len src soff :
  doff + len <= 8 * blen dst -> soff + len <= 8 * blen src ->
  8 * blen dst < two64 -> 8 * blen src < two64 ->
  exists r, copy_bits dst doff len src soff = Some r /\ copied dst src r doff soff len.
Proof.
  intros Hd Hs H64d H64s. unfold copy_bits. rewrite (w64_small (soff + len)) by lia.
  destruct (N.eqb_spec (soff mod 8) 0) as [Hsa|Hsa]; cbn [andb].
  2:{ destruct (copy_loop_spec (N.to_nat len) dst src soff doff (soff + len)) as (r & Hr & Hc); try lia.
      exists r. split; [exact Hr|]. replace (soff + len - soff) with len in Hc by lia. exact Hc. }
  destruct (N.eqb_spec (doff mod 8) 0) as [Hda|Hda].
  2:{ destruct (copy_loop_spec (N.to_nat len) dst src soff doff (soff + len)) as (r & Hr & Hc); try lia.
      exists r. split; [exact Hr|]. replace (soff + len - soff) with len in Hc by lia. exact Hc. }
  set (lb := len / 8). set (ps := soff / 8). set (pd := doff / 8).
  assert (Hps : ps + lb <= blen src) by (subst ps lb; lia).
  assert (Hpd : pd + lb <= blen dst) by (subst pd lb; lia).
  assert (Hmm : exists dst1, (if 0 <? lb then memmove dst pd src ps lb else Some dst) = Some dst1 /\
                length dst1 = length dst /\
                forall i, byte_at dst1 i = if i <? pd then byte_at dst i else if i <? pd + lb then byte_at src (ps + (i - pd)) else byte_at dst i).
  { destruct (N.ltb_spec 0 lb).
    - unfold memmove.
      replace ((ps + lb <=? blen src) && (pd + lb <=? blen dst)) with true
        by (symmetry; apply andb_true_intro; split; apply N.leb_le; assumption).
      eexists. split; [reflexivity|]. split; [apply splice_length; assumption|].
      intros i. apply byte_at_splice; assumption.
    - exists dst. split; [reflexivity|]. split; [reflexivity|]. intros i.
      destruct (N.ltb_spec i pd); [reflexivity|]. destruct (N.ltb_spec i (pd + lb)); [lia|reflexivity]. }
  destruct Hmm as (dst1 & -> & Hl1 & Hb1).
  assert (Hok1 : bytes_ok dst -> bytes_ok src -> bytes_ok dst1).
  { intros Hd0 Hs0. apply bytes_ok_byte_at. intros i. rewrite Hb1.
    destruct (i <? pd); [apply bytes_ok_byte_at; exact Hd0|].
    destruct (i <? pd + lb); apply bytes_ok_byte_at; assumption. }
  destruct (N.eqb_spec (len mod 8) 0) as [Hlm|Hlm]; cbn [negb].
  - exists dst1. split; [reflexivity|]. split; [exact Hl1|]. split; [exact Hok1|]. intros p. unfold bit. rewrite Hb1.
    destruct (N.ltb_spec (p / 8) pd); destruct (N.leb_spec doff p); cbn [andb]; subst pd ps lb; try lia; try reflexivity.
    destruct (N.ltb_spec (p / 8) (doff / 8 + len / 8)); destruct (N.ltb_spec p (doff + len)); try lia; try reflexivity.
    f_equal; [f_equal|]; lia.
  - rewrite (rd_some dst1) by (unfold blen in *; rewrite Hl1; subst pd lb; lia).
    rewrite (rd_some src) by (unfold blen in *; subst ps lb; lia).
    rewrite wr_some by (unfold blen in *; rewrite Hl1; subst pd lb; lia).
    eexists. split; [reflexivity|]. split; [rewrite upd_length; exact Hl1|].
    split; [intros Hd0 Hs0; apply bytes_ok_upd; [apply Hok1; assumption|apply land_255_lt]|]. intros p.
    rewrite bit_upd by (unfold blen in *; rewrite Hl1; subst pd lb; lia). rewrite tb_land255_mod.
    destruct (N.eqb_spec (p / 8) (pd + lb)) as [He|He].
    + rewrite mask_byte by (try apply N.mod_lt; try discriminate; pose proof (N.mod_lt len 8); lia).
      rewrite Hb1. replace (pd + lb <? pd) with false by (symmetry; apply N.ltb_ge; lia).
      replace (pd + lb <? pd + lb) with false by (symmetry; apply N.ltb_ge; lia).
      destruct (N.ltb_spec (p mod 8) (len mod 8)).
      * replace ((doff <=? p) && (p <? doff + len)) with true
          by (symmetry; apply andb_true_intro; split; [apply N.leb_le|apply N.ltb_lt]; subst pd lb; lia).
        unfold bit. f_equal; [f_equal|]; subst pd ps lb; lia.
      * replace ((doff <=? p) && (p <? doff + len)) with false
          by (symmetry; apply andb_false_intro2; apply N.ltb_ge; subst pd lb; lia).
        unfold bit. rewrite He. reflexivity.
    + unfold bit at 1. rewrite Hb1.
      destruct (N.ltb_spec (p / 8) pd); destruct (N.leb_spec doff p); cbn [andb]; subst pd ps lb; try lia; try reflexivity.
      destruct (N.ltb_spec (p / 8) (doff / 8 + len / 8)); destruct (N.ltb_spec p (doff + len)); try lia; try reflexivity.
      unfold bit. f_equal; [f_equal|]; lia.
Qed.

(* ---- zero-length copies touch nothing (no bounds needed) ---- *)
Lemma copy_bits_zero dst doff src soff : copy_bits dst doff 0 src soff = Some dst.
Proof.
  unfold copy_bits. destruct ((soff mod 8 =? 0) && (doff mod 8 =? 0)).
  - reflexivity.
  - cbn [N.to_nat copy_loop]. rewrite N.add_0_r.
    replace (w64 soff <=? soff) with true; [reflexivity|].
    symmetry. apply N.leb_le. unfold w64. apply N.mod_le. discriminate.
Qed.

Theorem copy_bits_exact' dst doff len src soff :
  len = 0 \/ (doff + len <= 8 * blen dst /\ soff + len <= 8 * blen src /\ 8 * blen dst < two64 /\ 8 * blen src < two64) ->
  exists r, copy_bits dst doff len src soff = Some r /\ copied dst src r doff soff len.
Proof.
  intros [->|(Hd & Hs & H1 & H2)]; [|apply copy_bits_exact; assumption].
  exists dst. split; [apply copy_bits_zero|]. split; [reflexivity|]. split; [auto|].
  intros p. destruct (N.leb_spec doff p); destruct (N.ltb_spec p (doff + 0)); cbn [andb]; try reflexivity; lia.
Qed.

(* ---- nunavutSaturateBufferFragmentBitLength ---- *)
Lemma saturate_fragment_spec size off len :
  size * 8 < two64 ->
  saturate_fragment size off len = N.min len (size * 8 - N.min (size * 8) off).
Proof. intros H. unfold saturate_fragment. rewrite w64_small by exact H. rewrite !choose_min_spec. reflexivity. Qed.

(* ---- byte images ---- *)
Lemma bit_cons x t k : bit (x :: t) k = if k <? 8 then N.testbit x k else bit t (k - 8).
Proof.
  unfold bit, byte_at. destruct (N.ltb_spec k 8).
  - replace (k / 8) with 0 by lia. replace (k mod 8) with k by lia. reflexivity.
  - replace (N.to_nat (k / 8)) with (S (N.to_nat ((k - 8) / 8))) by lia.
    cbn [nth]. f_equal. lia.
Qed.

Lemma bit_nil k : bit [] k = false.
Proof. unfold bit, byte_at. destruct (N.to_nat (k / 8)); cbn; apply N.bits_0. Qed.

Lemma of_le_bytes_bit b : bytes_ok b -> forall k, N.testbit (of_le_bytes b) k = bit b k.
Proof.
  induction b as [|x t IH]; intros Hok k.
  - cbn. rewrite N.bits_0, bit_nil. reflexivity.
  - inversion Hok; subst. cbn [of_le_bytes fold_right]. fold (of_le_bytes t).
    rewrite N.lor_spec, tb_shiftl, bit_cons, IH by assumption.
    destruct (N.ltb_spec k 8); destruct (N.leb_spec 8 k); try lia; cbn [andb].
    + apply orb_false_r.
    + rewrite (tb_byte x k) by assumption. reflexivity.
Qed.

Lemma or_shifts_bit b : bytes_ok b -> forall k j,
  N.testbit (or_shifts k b) j = (8 * k <=? j) && bit b (j - 8 * k).
Proof.
  induction b as [|x t IH]; intros Hok k j.
  - cbn [or_shifts]. rewrite N.bits_0, bit_nil. symmetry. apply andb_false_r.
  - inversion Hok; subst. cbn [or_shifts]. rewrite N.lor_spec, tb_shiftl, IH, bit_cons by assumption.
    destruct (N.leb_spec (8 * k) j); destruct (N.leb_spec (8 * (k + 1)) j); destruct (N.ltb_spec (j - 8 * k) 8);
      try lia; cbn [andb orb].
    + rewrite (tb_byte x (j - 8 * k)) by (assumption || lia). cbn [orb]. f_equal. lia.
    + apply orb_false_r.
Qed.

Lemma byte_at_le_bytes n v i :
  byte_at (le_bytes n v) i = if i <? N.of_nat n then N.land (N.shiftr v (8 * i)) 255 else 0.
Proof.
  unfold byte_at, le_bytes. destruct (N.ltb_spec i (N.of_nat n)).
  - rewrite (nth_indep _ 0 (N.land (N.shiftr v (8 * N.of_nat 0)) 255)) by (rewrite map_length, seq_length; lia).
    rewrite (map_nth (fun k => N.land (N.shiftr v (8 * N.of_nat k)) 255)).
    rewrite seq_nth by lia. cbn [Nat.add]. rewrite N2Nat.id. reflexivity.
  - apply nth_overflow. rewrite map_length, seq_length. lia.
Qed.

Lemma bit_le_bytes n v k : bit (le_bytes n v) k = (k <? 8 * N.of_nat n) && N.testbit v k.
Proof.
  unfold bit. rewrite byte_at_le_bytes.
  destruct (N.ltb_spec (k / 8) (N.of_nat n)); destruct (N.ltb_spec k (8 * N.of_nat n)); try lia; cbn [andb].
  - rewrite tb_land255_mod, tb_shiftr. f_equal. lia.
  - apply N.bits_0.
Qed.

Lemma le_bytes_length n v : length (le_bytes n v) = n.
Proof. unfold le_bytes. rewrite map_length, seq_length. reflexivity. Qed.

Lemma le_bytes_ok n v : bytes_ok (le_bytes n v).
Proof.
  apply bytes_ok_byte_at. intros i. rewrite byte_at_le_bytes.
  destruct (i <? N.of_nat n); [apply land_255_lt|reflexivity].
Qed.

Lemma tmp_any_le v : tmp_any v = le_bytes 8 v.
Proof. reflexivity. Qed.

Lemma le_bytes_S n v : le_bytes (S n) v = N.land v 255 :: le_bytes n (N.shiftr v 8).
Proof.
  unfold le_bytes. cbn [seq map]. change (8 * N.of_nat 0) with 0. rewrite N.shiftr_0_r.
  apply f_equal. rewrite <- seq_shift, map_map. apply map_ext. intros k.
  rewrite N.shiftr_shiftr. apply f_equal2; [|reflexivity]. apply f_equal. lia.
Qed.

(* the memory image on a little-endian host is the explicit array: this is why the
   target_endianness=little rendering and the any/big rendering agree there *)
Lemma mem_le_le n : forall v, mem_le n v = le_bytes n v.
Proof.
  induction n as [|n IH]; intros v; [reflexivity|].
  cbn [mem_le]. rewrite le_bytes_S, IH. f_equal.
  - change 255 with (N.ones 8). rewrite N.land_ones. reflexivity.
  - f_equal. rewrite N.shiftr_div_pow2. reflexivity.
Qed.

(* ---- nunavutSetUxx / SetIxx / SetBit ---- *)
Definition written (buf r : bytes) (off n v : N) : Prop :=
  length r = length buf /\ (bytes_ok buf -> bytes_ok r) /\
  forall p, bit r p = if (off <=? p) && (p <? off + n) then N.testbit v (p - off) else bit buf p.

(* the current (saturating) capacity check needs no bound on off + len: EVERY offset and length *)
Theorem set_uxx_exact_all little buf size off value len :
  size <= blen buf -> 8 * blen buf < two64 ->
  (size * 8 < off + len -> set_uxx little buf size off value len = Some (inr TooSmall)) /\
  (off + len <= size * 8 ->
   exists r, set_uxx little buf size off value len = Some (inl r) /\ written buf r off (N.min len 64) (w64 value)).
Proof.
  intros Hsz H64. unfold set_uxx. rewrite (w64_small (size * 8)) by lia.
  split; intros H.
  - destruct (N.ltb_spec (size * 8) off); cbn [orb]; [reflexivity|].
    replace (size * 8 - off <? len) with true by (symmetry; apply N.ltb_lt; lia). reflexivity.
  - replace (size * 8 <? off) with false by (symmetry; apply N.ltb_ge; lia).
    replace (size * 8 - off <? len) with false by (symmetry; apply N.ltb_ge; lia). cbn [orb].
    rewrite choose_min_spec.
    assert (X : (if little then mem_le 8 (w64 value) else tmp_any (w64 value)) = le_bytes 8 (w64 value))
      by (destruct little; [apply mem_le_le|apply tmp_any_le]).
    rewrite X. clear X.
    destruct (copy_bits_exact buf off (N.min len 64) (le_bytes 8 (w64 value)) 0) as (r & Hr & Hl & Hok & Hb).
    + lia.
    + unfold blen. rewrite le_bytes_length. lia.
    + exact H64.
    + unfold blen. rewrite le_bytes_length. unfold two64. lia.
    + exists r. rewrite Hr. split; [reflexivity|]. split; [exact Hl|]. split.
      * intros Hb0. apply Hok; [exact Hb0|apply le_bytes_ok].
      * intros p. rewrite Hb. destruct ((off <=? p) && (p <? off + N.min len 64)) eqn:E; [|reflexivity].
        rewrite bit_le_bytes. apply andb_prop in E as [E1 E2]. apply N.leb_le in E1. apply N.ltb_lt in E2.
        replace (0 + (p - off) <? 8 * N.of_nat 8) with true by (symmetry; apply N.ltb_lt; lia).
        cbn [andb]. rewrite N.add_0_l. reflexivity.
Qed.

(* statement kept from the time of the wrapping check (the third premise is no longer needed) *)
Theorem set_uxx_exact little buf size off value len :
  size <= blen buf -> 8 * blen buf < two64 -> off + len < two64 ->
  (size * 8 < off + len -> set_uxx little buf size off value len = Some (inr TooSmall)) /\
  (off + len <= size * 8 ->
   exists r, set_uxx little buf size off value len = Some (inl r) /\ written buf r off (N.min len 64) (w64 value)).
Proof. intros Hsz H64 _. apply set_uxx_exact_all; assumption. Qed.

(* two's complement: the low 64 bits written by nunavutSetIxx are those of the signed value *)
Lemma set_ixx_value (z : Z) k : k < 64 ->
  N.testbit (w64 (Z.to_N (z mod Z.of_N two64))) k = Z.testbit z (Z.of_N k).
Proof.
  intros Hk. assert (Hm : (0 <= z mod Z.of_N two64 < Z.of_N two64)%Z) by (apply Z.mod_pos_bound; reflexivity).
  rewrite w64_small by lia.
  rewrite <- Z.testbit_of_N. rewrite Z2N.id by lia.
  change (Z.of_N two64) with (2 ^ 64)%Z. apply Z.mod_pow2_bits_low. lia.
Qed.

Theorem set_bit_exact buf size off value :
  size <= blen buf -> 8 * blen buf < two64 ->
  (size * 8 <= off -> set_bit buf size off value = Some (inr TooSmall)) /\
  (off < size * 8 ->
   exists r, set_bit buf size off value = Some (inl r) /\ written buf r off 1 (if value then 1 else 0)).
Proof.
  intros Hsz H64. unfold set_bit. rewrite (w64_small (size * 8)) by lia. split; intros H.
  - apply N.leb_le in H. rewrite H. reflexivity.
  - replace (size * 8 <=? off) with false by (symmetry; apply N.leb_gt; lia).
    destruct (copy_bits_exact buf off 1 [if value then 1 else 0] 0) as (r & Hr & Hl & Hok & Hb).
    + lia.
    + cbn. lia.
    + exact H64.
    + cbn. unfold two64. lia.
    + exists r. rewrite Hr. split; [reflexivity|]. split; [exact Hl|]. split.
      * intros Hb0. apply Hok; [exact Hb0|]. constructor; [destruct value; reflexivity|constructor].
      * intros p. rewrite Hb. destruct ((off <=? p) && (p <? off + 1)) eqn:E; [|reflexivity].
        apply andb_prop in E as [E1 E2]. apply N.leb_le in E1. apply N.ltb_lt in E2.
        replace (p - off) with 0 by lia. rewrite N.add_0_l, bit_cons. reflexivity.
Qed.

(* ---- nunavutGetBits: zero extension, right zero padding of the last output byte ---- *)
Lemma byte_at_memset0 b from n i : from + n <= blen b ->
  byte_at (firstn (N.to_nat from) b ++ repeat 0 (N.to_nat n) ++ skipn (N.to_nat (from + n)) b) i =
  if (from <=? i) && (i <? from + n) then 0 else byte_at b i.
Proof.
  unfold blen, byte_at. intros H.
  assert (L1 : length (firstn (N.to_nat from) b) = N.to_nat from) by (rewrite firstn_length; lia).
  destruct (N.leb_spec from i); cbn [andb].
  - rewrite app_nth2 by lia. rewrite L1. destruct (N.ltb_spec i (from + n)).
    + rewrite app_nth1 by (rewrite repeat_length; lia). apply nth_repeat.
    + rewrite app_nth2 by (rewrite repeat_length; lia). rewrite repeat_length, nth_skipn_add. f_equal. lia.
  - rewrite app_nth1 by lia. apply nth_firstn_lt. lia.
Qed.

Theorem get_bits_zero_ext output buf size off len :
  size <= blen buf -> 8 * blen buf < two64 -> off < two64 -> len + 7 < two64 ->
  (len + 7) / 8 <= blen output -> 8 * blen output < two64 ->
  exists r, get_bits output buf size off len = Some r /\ length r = length output /\
    (bytes_ok output -> bytes_ok buf -> bytes_ok r) /\
    forall p, bit r p = if p <? 8 * ((len + 7) / 8)
                        then (p <? len) && (off + p <? 8 * size) && bit buf (off + p)
                        else bit output p.
Proof.
  intros Hsz H64 Hoff Hlen Hout H64o. unfold get_bits.
  rewrite saturate_fragment_spec by lia. rewrite (w64_small (len + 7)) by exact Hlen.
  set (sat := N.min len (size * 8 - N.min (size * 8) off)).
  assert (Hsat : sat <= len) by (subst sat; lia).
  unfold memset0.
  replace (sat / 8 + ((len + 7) / 8 - sat / 8) <=? blen output) with true by (symmetry; apply N.leb_le; lia).
  set (o := firstn _ output ++ _).
  assert (Lo : length o = length output).
  { subst o. unfold blen in *. rewrite !app_length, firstn_length, repeat_length, skipn_length. lia. }
  assert (Bo : forall i, byte_at o i = if (sat / 8 <=? i) && (i <? (len + 7) / 8) then 0 else byte_at output i).
  { intros i. subst o. rewrite byte_at_memset0 by lia.
    replace (sat / 8 + ((len + 7) / 8 - sat / 8)) with ((len + 7) / 8) by lia. reflexivity. }
  destruct (copy_bits_exact' o 0 sat buf off) as (r & Hr & Hl & Hok & Hb).
  { destruct (N.eq_dec sat 0) as [Hz|Hz]; [left; exact Hz|right].
    unfold blen in *. rewrite Lo. subst sat. lia. }
  exists r. split; [exact Hr|]. split; [rewrite Hl; exact Lo|]. split.
  { intros Ho Hbf. apply Hok; [|exact Hbf]. apply bytes_ok_byte_at. intros i. rewrite Bo.
    destruct ((sat / 8 <=? i) && (i <? (len + 7) / 8)); [reflexivity|apply bytes_ok_byte_at; exact Ho]. }
  intros p. rewrite Hb. replace (0 <=? p) with true by (symmetry; apply N.leb_le; lia). cbn [andb].
  rewrite N.add_0_l, N.sub_0_r.
  destruct (N.ltb_spec p sat).
  - replace (p <? 8 * ((len + 7) / 8)) with true by (symmetry; apply N.ltb_lt; lia).
    replace (p <? len) with true by (symmetry; apply N.ltb_lt; lia).
    replace (off + p <? 8 * size) with true by (symmetry; apply N.ltb_lt; subst sat; lia). reflexivity.
  - unfold bit at 1. rewrite Bo.
    destruct (N.ltb_spec p (8 * ((len + 7) / 8))).
    + replace ((sat / 8 <=? p / 8) && (p / 8 <? (len + 7) / 8)) with true
        by (symmetry; apply andb_true_intro; split; [apply N.leb_le|apply N.ltb_lt]; lia).
      rewrite N.bits_0. symmetry.
      destruct (N.ltb_spec p len); cbn [andb]; [|reflexivity].
      replace (off + p <? 8 * size) with false by (symmetry; apply N.ltb_ge; subst sat; lia). reflexivity.
    + replace ((sat / 8 <=? p / 8) && (p / 8 <? (len + 7) / 8)) with false
        by (symmetry; apply andb_false_intro2; apply N.ltb_ge; lia).
      reflexivity.
Qed.

(* ---- nunavutGetU8/16/32/64: zero extension beyond the buffer, clamping of len_bits ---- *)
Lemma bit_repeat0 n k : bit (repeat 0 n) k = false.
Proof.
  unfold bit, byte_at. destruct (Nat.lt_ge_cases (N.to_nat (k / 8)) n).
  - rewrite nth_repeat. apply N.bits_0.
  - rewrite nth_overflow by (rewrite repeat_length; lia). apply N.bits_0.
Qed.

Theorem get_uxx_spec little w buf size off len :
  w mod 8 = 0 -> w <= 64 -> bytes_ok buf -> size <= blen buf -> 8 * blen buf < two64 -> off < two64 ->
  exists v, get_uxx little w buf size off len = Some v /\
            forall k, N.testbit v k = (k <? N.min len w) && (off + k <? 8 * size) && bit buf (off + k).
Proof.
  intros Hw Hw64 Hok Hsz H64 Hoff. unfold get_uxx. rewrite saturate_fragment_spec by lia. rewrite choose_min_spec.
  set (bits := N.min (N.min len w) (size * 8 - N.min (size * 8) off)).
  destruct (copy_bits_exact' (repeat 0 (N.to_nat (w / 8))) 0 bits buf off) as (r & Hr & Hl & Hokr & Hb).
  { destruct (N.eq_dec bits 0) as [Hz|Hz]; [left; exact Hz|right].
    subst bits. unfold blen in *. rewrite repeat_length. unfold two64 in *. lia. }
  assert (Hrok : bytes_ok r) by (apply Hokr; [apply bytes_ok_repeat0|exact Hok]).
  assert (Hbits : forall k, bit r k = (k <? N.min len w) && (off + k <? 8 * size) && bit buf (off + k)).
  { intros k. rewrite Hb. replace (0 <=? k) with true by (symmetry; apply N.leb_le; lia). cbn [andb].
    rewrite N.add_0_l, N.sub_0_r, bit_repeat0.
    destruct (N.ltb_spec k bits).
    - replace (k <? N.min len w) with true by (symmetry; apply N.ltb_lt; subst bits; lia).
      replace (off + k <? 8 * size) with true by (symmetry; apply N.ltb_lt; subst bits; lia). reflexivity.
    - destruct (N.ltb_spec k (N.min len w)); [|reflexivity]. cbn [andb].
      replace (off + k <? 8 * size) with false by (symmetry; apply N.ltb_ge; subst bits; lia). reflexivity. }
  eexists. rewrite Hr. split; [reflexivity|]. intros k.
  destruct (little || (w =? 8)).
  - rewrite of_le_bytes_bit by exact Hrok. apply Hbits.
  - rewrite or_shifts_bit by exact Hrok. cbn [N.mul]. replace (8 * 0 <=? k) with true by (symmetry; apply N.leb_le; lia).
    cbn [andb]. replace (k - 8 * 0) with k by lia. apply Hbits.
Qed.

(* the two renderings compute the same function *)
Theorem endianness_variants_equal_get w buf size off len :
  w mod 8 = 0 -> w <= 64 -> bytes_ok buf -> size <= blen buf -> 8 * blen buf < two64 -> off < two64 ->
  get_uxx true w buf size off len = get_uxx false w buf size off len.
Proof.
  intros Hw Hw64 Hok Hsz H64 Hoff.
  destruct (get_uxx_spec true w buf size off len Hw Hw64 Hok Hsz H64 Hoff) as (v1 & -> & H1).
  destruct (get_uxx_spec false w buf size off len Hw Hw64 Hok Hsz H64 Hoff) as (v2 & -> & H2).
  f_equal. apply N.bits_inj. intros k. rewrite H1, H2. reflexivity.
Qed.

Theorem endianness_variants_equal_set buf size off value len :
  set_uxx true buf size off value len = set_uxx false buf size off value len.
Proof. unfold set_uxx. rewrite mem_le_le. reflexivity. Qed.

Theorem get_bit_spec little buf size off :
  bytes_ok buf -> size <= blen buf -> 8 * blen buf < two64 -> off < two64 ->
  get_bit little buf size off = Some ((off <? 8 * size) && bit buf off).
Proof.
  intros Hok Hsz H64 Hoff. unfold get_bit.
  destruct (get_uxx_spec little 8 buf size off 1 eq_refl ltac:(lia) Hok Hsz H64 Hoff) as (v & -> & Hv). f_equal.
  assert (Hv0 : N.testbit v 0 = (off <? 8 * size) && bit buf off).
  { rewrite Hv. rewrite N.add_0_r. reflexivity. }
  rewrite <- Hv0. assert (Hhi : forall k, 0 < k -> N.testbit v k = false).
  { intros k Hk. rewrite Hv. replace (k <? N.min 1 8) with false by (symmetry; apply N.ltb_ge; lia). reflexivity. }
  destruct (N.testbit v 0) eqn:E0.
  - apply N.eqb_eq. apply N.bits_inj. intros k. destruct (N.eq_dec k 0) as [->|Hk]; [exact E0|].
    rewrite Hhi by lia. symmetry. apply (tb_small 1 1); [reflexivity|lia].
  - apply N.eqb_neq. intros ->. discriminate.
Qed.

(* ---- nunavutGetI8/16/32/64: two's complement sign extension ---- *)
Lemma cast_u_small w x : x < 2 ^ w -> cast_u w x = x.
Proof. intros H. unfold cast_u. apply N.mod_small. exact H. Qed.

Lemma cast_s_id w z : 0 < w -> (- 2 ^ (Z.of_N w - 1) <= z < 2 ^ (Z.of_N w - 1))%Z -> cast_s w z = z.
Proof.
  intros Hw Hz. unfold cast_s.
  set (H := (2 ^ (Z.of_N w - 1))%Z) in *.
  assert (HW : (2 ^ Z.of_N w = 2 * H)%Z).
  { subst H. rewrite <- Z.pow_succ_r by lia. f_equal. lia. }
  rewrite HW.
  assert (0 < H)%Z by (subst H; apply Z.pow_pos_nonneg; lia).
  destruct (Z.leb_spec 0 z).
  - rewrite Z.mod_small by lia. destruct (Z.ltb_spec z H); lia.
  - rewrite <- (Z.mod_unique_pos z (2 * H) (-1) (z + 2 * H)) by lia.
    destruct (Z.ltb_spec (z + 2 * H) H); lia.
Qed.

Lemma high_bits_lt u s : (forall k, s <= k -> N.testbit u k = false) -> u < 2 ^ s.
Proof.
  intros H. destruct (N.eq_dec u 0) as [->|Hz].
  - apply N.neq_0_lt_0. apply N.pow_nonzero. discriminate.
  - apply N.log2_lt_pow2; [lia|]. destruct (N.lt_ge_cases (N.log2 u) s) as [Hl|Hl]; [exact Hl|].
    specialize (H _ Hl). rewrite N.bit_log2 in H by exact Hz. discriminate.
Qed.

Lemma top_bit u s : 0 < s -> u < 2 ^ s -> N.testbit u (s - 1) = (2 ^ (s - 1) <=? u).
Proof.
  intros Hs Hu. set (P := 2 ^ (s - 1)).
  assert (HP : 2 ^ s = 2 * P).
  { subst P. rewrite <- N.pow_succ_r'. f_equal. lia. }
  assert (HP0 : 0 < P) by (subst P; apply N.neq_0_lt_0, N.pow_nonzero; discriminate).
  destruct (N.leb_spec P u) as [Hle|Hlt].
  - assert (E : 1 = u / P) by (apply (N.div_unique u P 1 (u - P)); lia).
    pose proof (N.testbit_spec' u (s - 1)) as T. fold P in T. rewrite <- E in T.
    destruct (N.testbit u (s - 1)); [reflexivity|discriminate].
  - apply (tb_small u (s - 1)); [exact Hlt|lia].
Qed.

Lemma land_pow2_test u n : negb (N.land u (2 ^ n) =? 0) = N.testbit u n.
Proof.
  destruct (N.testbit u n) eqn:Eb.
  - apply negb_true_iff. apply N.eqb_neq. intros Hc.
    assert (X : N.testbit (N.land u (2 ^ n)) n = false) by (rewrite Hc; apply N.bits_0).
    rewrite N.land_spec, Eb, N.pow2_bits_true in X. discriminate.
  - apply negb_false_iff. apply N.eqb_eq. apply N.bits_inj. intros k. rewrite N.land_spec, N.bits_0.
    destruct (N.eq_dec k n) as [->|Hne]; [rewrite Eb; reflexivity|].
    rewrite N.pow2_bits_false by congruence. apply andb_false_r.
Qed.

Definition sign_extend (sat u : N) : Z :=
  if (0 <? sat) && N.testbit u (sat - 1) then (Z.of_N u - 2 ^ Z.of_N sat)%Z else Z.of_N u.

Theorem sext_expr_spec w sat u :
  (w = 8 \/ w = 16 \/ w = 32 \/ w = 64) -> sat <= w -> u < 2 ^ sat ->
  sext_expr w sat u = Some (sign_extend sat u).
Proof.
  intros Hw Hsat Hult.
  assert (Hw' : 8 <= w /\ w <= 64).
  { destruct Hw as [-> | [-> | [-> | ->]]]; lia. }
  destruct Hw' as (Hwlo & Hwhi).
  assert (Hhigh : forall k, sat <= k -> N.testbit u k = false).
  { intros k Hk. apply (tb_small u sat k); assumption. }
  unfold sext_expr, sign_extend.
  set (pw := if w <=? 16 then 32 else 64).
  set (iw := if w <=? 32 then 32 else 64).
  assert (Hpw : w <= pw /\ pw <= 64) by (subst pw; destruct (N.leb_spec w 16); lia).
  assert (Hiw : w <= iw /\ 32 <= iw) by (subst iw; destruct (N.leb_spec w 32); lia).
  set (HZ := (2 ^ (Z.of_N w - 1))%Z).
  assert (HZ0 : (0 < HZ)%Z) by (subst HZ; apply Z.pow_pos_nonneg; lia).
  destruct (N.ltb_spec 0 sat) as [Hs0|Hs0]; cbn [andb].
  2:{ assert (sat = 0) by lia. assert (u = 0) by (replace sat with 0 in Hult by lia; change (2 ^ 0) with 1 in Hult; lia).
      subst u. rewrite andb_false_r. rewrite cast_s_id; [reflexivity|lia|]. fold HZ. cbn. lia. }
  rewrite N.shiftl_1_l.
  rewrite (cast_u_small 64 (2 ^ (sat - 1))) by (apply N.pow_lt_mono_r; lia).
  rewrite land_pow2_test.
  set (P := 2 ^ (sat - 1)).
  assert (HP : 2 ^ sat = 2 * P).
  { subst P. rewrite <- N.pow_succ_r'. f_equal. lia. }
  set (PZ := (2 ^ (Z.of_N sat - 1))%Z).
  assert (HPZ : Z.of_N P = PZ).
  { subst P PZ. rewrite N2Z.inj_pow. f_equal. lia. }
  assert (HPZ2 : (2 ^ Z.of_N sat = 2 * PZ)%Z).
  { subst PZ. rewrite <- Z.pow_succ_r by lia. f_equal. lia. }
  assert (HPH : (PZ <= HZ)%Z) by (subst PZ HZ; apply Z.pow_le_mono_r; lia).
  pose proof (top_bit u sat Hs0 Hult) as Htop. fold P in Htop.
  destruct (N.testbit u (sat - 1)) eqn:Eb.
  - symmetry in Htop. apply N.leb_le in Htop.
    set (val' := if (sat <? w) && true then _ else u).
    assert (Hc : lnot_u w val' = N.ones sat - u).
    { rewrite <- N.lnot_sub_low by (apply N.log2_lt_pow2; lia). unfold N.lnot.
      apply N.bits_inj. intros k. subst val'. unfold lnot_u.
      destruct (N.ltb_spec sat w) as [Hlt|Hge]; cbn [andb].
      - rewrite N.shiftl_1_l. rewrite (cast_u_small pw (2 ^ sat)) by (apply N.pow_lt_mono_r; lia).
        unfold lnot_u, cast_u. rewrite <- !N.land_ones. tb.
        destruct (N.ltb_spec k sat); destruct (N.ltb_spec k w); destruct (N.ltb_spec k pw); try lia;
          try (rewrite (Hhigh k) by lia); cbn [andb orb xorb negb];
          rewrite ?andb_true_r, ?andb_false_r, ?orb_false_r, ?orb_true_r, ?xorb_false_r, ?xorb_true_r; reflexivity.
      - assert (sat = w) by lia. unfold cast_u. rewrite <- !N.land_ones. tb.
        destruct (N.ltb_spec k sat); destruct (N.ltb_spec k w); try lia;
          try (rewrite (Hhigh k) by lia); cbn [andb orb xorb negb];
          rewrite ?andb_true_r, ?andb_false_r, ?orb_false_r, ?xorb_false_r, ?xorb_true_r; reflexivity. }
    rewrite Hc. rewrite <- pow2_minus1_ones.
    set (c := 2 ^ sat - 1 - u).
    assert (Hcz : Z.of_N c = (2 * PZ - 1 - Z.of_N u)%Z) by (subst c; lia).
    assert (HuZ : (PZ <= Z.of_N u < 2 * PZ)%Z) by lia.
    rewrite (cast_s_id w (Z.of_N c)) by (fold HZ; lia).
    replace (Z.of_N c =? - 2 ^ (Z.of_N iw - 1))%Z with false.
    2:{ symmetry. apply Z.eqb_neq. assert (0 < 2 ^ (Z.of_N iw - 1))%Z by (apply Z.pow_pos_nonneg; lia). lia. }
    rewrite cast_s_id by (fold HZ; lia). f_equal. lia.
  - symmetry in Htop. apply N.leb_gt in Htop. rewrite andb_false_r.
    rewrite cast_s_id by (fold HZ; lia). reflexivity.
Qed.

Theorem get_ixx_sign_ext little w buf size off len :
  (w = 8 \/ w = 16 \/ w = 32 \/ w = 64) ->
  bytes_ok buf -> size <= blen buf -> 8 * blen buf < two64 -> off < two64 ->
  exists u, get_uxx little w buf size off (N.min len w) = Some u /\ u < 2 ^ N.min len w /\
            get_ixx little w buf size off len = Some (sign_extend (N.min len w) u).
Proof.
  intros Hw Hok Hsz H64 Hoff.
  assert (Hw' : w mod 8 = 0 /\ 8 <= w /\ w <= 64).
  { destruct Hw as [-> | [-> | [-> | ->]]]; (split; [reflexivity|lia]). }
  destruct Hw' as (Hw8 & Hwlo & Hwhi).
  destruct (get_uxx_spec little w buf size off (N.min len w) Hw8 Hwhi Hok Hsz H64 Hoff) as (u & Hu & Hbits).
  set (sat := N.min len w) in *.
  assert (Hsat : sat <= w) by (subst sat; lia).
  assert (Hult : u < 2 ^ sat).
  { apply high_bits_lt. intros k Hk. rewrite Hbits. replace (k <? N.min sat w) with false; [reflexivity|].
    symmetry. apply N.ltb_ge. lia. }
  exists u. split; [exact Hu|]. split; [exact Hult|].
  unfold get_ixx. rewrite choose_min_spec. fold sat.
  rewrite (cast_u_small 8 sat) by (change (2 ^ 8) with 256; lia). rewrite Hu.
  apply sext_expr_spec; assumption.
Qed.

(* ================= statements with the preconditions as boolean guards (used by Properties/C14.v) ================= *)
(* the allocation can be addressed in bits by a size_t *)
Definition alloc_ok (b : bytes) : bool := 8 * blen b <? two64.
Definition bytes_okb (b : bytes) : bool := forallb (fun x => x <? 256) b.
(* "both buffers shall be large enough" of nunavutCopyBits *)
Definition copy_pre (dst : bytes) (doff len : N) (src : bytes) (soff : N) : bool :=
  (doff + len <=? 8 * blen dst) && (soff + len <=? 8 * blen src) && alloc_ok dst && alloc_ok src.
(* buf points to at least buf_size_bytes bytes; off_bits is a size_t *)
Definition buf_pre (buf : bytes) (size off : N) : bool :=
  (size <=? blen buf) && alloc_ok buf && (off <? two64) && bytes_okb buf.

Lemma bytes_okb_ok b : bytes_okb b = true -> bytes_ok b.
Proof.
  unfold bytes_okb, bytes_ok. rewrite forallb_forall, Forall_forall. intros H x Hx. apply N.ltb_lt. apply H. exact Hx.
Qed.

Lemma buf_pre_elim buf size off : buf_pre buf size off = true ->
  size <= blen buf /\ 8 * blen buf < two64 /\ off < two64 /\ bytes_ok buf.
Proof.
  unfold buf_pre, alloc_ok. intros H. repeat (apply andb_prop in H; destruct H as [H ?]).
  repeat split; try (apply N.leb_le; assumption); try (apply N.ltb_lt; assumption). apply bytes_okb_ok. assumption.
Qed.

Theorem copy_bits_exact_b dst doff len src soff :
  copy_pre dst doff len src soff = true ->
  exists r, copy_bits dst doff len src soff = Some r /\ length r = length dst /\
    (bytes_ok dst -> bytes_ok src -> bytes_ok r) /\
    forall p, bit r p = if (doff <=? p) && (p <? doff + len) then bit src (soff + (p - doff)) else bit dst p.
Proof.
  unfold copy_pre, alloc_ok. intros H. repeat (apply andb_prop in H; destruct H as [H ?]).
  apply copy_bits_exact; try (apply N.leb_le; assumption); apply N.ltb_lt; assumption.
Qed.

Theorem copy_bits_zero_length dst doff src soff : copy_bits dst doff 0 src soff = Some dst.
Proof. apply copy_bits_zero. Qed.

Theorem saturate_fragment_spec_b size off len :
  (size * 8 <? two64) = true ->
  saturate_fragment size off len = N.min len (size * 8 - N.min (size * 8) off) /\
  (off + saturate_fragment size off len <= N.max off (size * 8)).
Proof.
  intros H. apply N.ltb_lt in H. rewrite saturate_fragment_spec by exact H. split; [reflexivity|lia].
Qed.

Theorem get_bits_zero_ext_b output buf size off len :
  buf_pre buf size off = true -> (len + 7 <? two64) = true ->
  ((len + 7) / 8 <=? blen output) && alloc_ok output = true ->
  exists r, get_bits output buf size off len = Some r /\ length r = length output /\
    forall p, bit r p = if p <? 8 * ((len + 7) / 8)
                        then (p <? len) && (off + p <? 8 * size) && bit buf (off + p)
                        else bit output p.
Proof.
  intros Hb Hl Ho. apply buf_pre_elim in Hb as (H1 & H2 & H3 & H4). apply N.ltb_lt in Hl.
  apply andb_prop in Ho as [Ho1 Ho2]. apply N.leb_le in Ho1. unfold alloc_ok in Ho2. apply N.ltb_lt in Ho2.
  destruct (get_bits_zero_ext output buf size off len H1 H2 H3 Hl Ho1 Ho2) as (r & Hr & Hlen & _ & Hbits).
  exists r. auto.
Qed.

Theorem set_uxx_exact_b little buf size off value len :
  buf_pre buf size off = true -> (off + len <? two64) = true ->
  if size * 8 <? off + len
  then set_uxx little buf size off value len = Some (inr TooSmall)
  else exists r, set_uxx little buf size off value len = Some (inl r) /\ length r = length buf /\
         forall p, bit r p = if (off <=? p) && (p <? off + N.min len 64)
                             then N.testbit (value mod 2 ^ 64) (p - off) else bit buf p.
Proof.
  intros Hb Hl. apply buf_pre_elim in Hb as (H1 & H2 & H3 & H4). apply N.ltb_lt in Hl.
  destruct (set_uxx_exact little buf size off value len H1 H2 Hl) as [Ha Hb].
  destruct (N.ltb_spec (size * 8) (off + len)); [apply Ha; assumption|].
  destruct (Hb H) as (r & Hr & Hlen & _ & Hbits). exists r. auto.
Qed.

Theorem set_uxx_exact_all_b little buf size off value len :
  buf_pre buf size off = true ->
  if size * 8 <? off + len
  then set_uxx little buf size off value len = Some (inr TooSmall)
  else exists r, set_uxx little buf size off value len = Some (inl r) /\ length r = length buf /\
         forall p, bit r p = if (off <=? p) && (p <? off + N.min len 64)
                             then N.testbit (value mod 2 ^ 64) (p - off) else bit buf p.
Proof.
  intros Hb. apply buf_pre_elim in Hb as (H1 & H2 & H3 & H4).
  destruct (set_uxx_exact_all little buf size off value len H1 H2) as [Ha Hb].
  destruct (N.ltb_spec (size * 8) (off + len)); [apply Ha; assumption|].
  destruct (Hb H) as (r & Hr & Hlen & _ & Hbits). exists r. auto.
Qed.

Theorem set_ixx_exact_b little buf size off (value : Z) len :
  buf_pre buf size off = true -> (off + len <? two64) = true ->
  if size * 8 <? off + len
  then set_ixx little buf size off value len = Some (inr TooSmall)
  else exists r, set_ixx little buf size off value len = Some (inl r) /\ length r = length buf /\
         forall p, bit r p = if (off <=? p) && (p <? off + N.min len 64)
                             then Z.testbit value (Z.of_N (p - off)) else bit buf p.
Proof.
  intros Hb Hl. unfold set_ixx.
  pose proof (set_uxx_exact_b little buf size off (Z.to_N (value mod Z.of_N two64)) len Hb Hl) as X.
  destruct (size * 8 <? off + len); [exact X|].
  destruct X as (r & Hr & Hlen & Hbits). exists r. split; [exact Hr|]. split; [exact Hlen|].
  intros p. rewrite Hbits. destruct ((off <=? p) && (p <? off + N.min len 64)) eqn:E; [|reflexivity].
  apply andb_prop in E as [E1 E2]. apply N.leb_le in E1. apply N.ltb_lt in E2.
  apply set_ixx_value. lia.
Qed.

Theorem set_bit_exact_b buf size off value :
  buf_pre buf size off = true ->
  if size * 8 <=? off
  then set_bit buf size off value = Some (inr TooSmall)
  else exists r, set_bit buf size off value = Some (inl r) /\ length r = length buf /\
         forall p, bit r p = if p =? off then value else bit buf p.
Proof.
  intros Hb. apply buf_pre_elim in Hb as (H1 & H2 & H3 & H4).
  destruct (set_bit_exact buf size off value H1 H2) as [Ha Hb].
  destruct (N.leb_spec (size * 8) off); [apply Ha; assumption|].
  destruct (Hb H) as (r & Hr & Hlen & _ & Hbits). exists r. split; [exact Hr|]. split; [exact Hlen|].
  intros p. rewrite Hbits. destruct (N.eqb_spec p off) as [->|Hne].
  - replace ((off <=? off) && (off <? off + 1)) with true
      by (symmetry; apply andb_true_intro; split; [apply N.leb_le|apply N.ltb_lt]; lia).
    rewrite N.sub_diag. destruct value; reflexivity.
  - replace ((off <=? p) && (p <? off + 1)) with false; [reflexivity|].
    symmetry. destruct (N.leb_spec off p); cbn [andb]; [apply N.ltb_ge; lia|reflexivity].
Qed.

Theorem get_uxx_spec_b little w buf size off len :
  (w =? 8) || (w =? 16) || (w =? 32) || (w =? 64) = true -> buf_pre buf size off = true ->
  exists v, get_uxx little w buf size off len = Some v /\ v < 2 ^ N.min len w /\
            forall k, N.testbit v k = (k <? N.min len w) && (off + k <? 8 * size) && bit buf (off + k).
Proof.
  intros Hw Hb. apply buf_pre_elim in Hb as (H1 & H2 & H3 & H4).
  assert (Hw' : w mod 8 = 0 /\ w <= 64).
  { repeat (apply orb_prop in Hw; destruct Hw as [Hw|Hw]); apply N.eqb_eq in Hw; subst w; (split; [reflexivity|lia]). }
  destruct Hw' as [Hw8 Hw64].
  destruct (get_uxx_spec little w buf size off len Hw8 Hw64 H4 H1 H2 H3) as (v & Hv & Hbits).
  exists v. split; [exact Hv|]. split; [|exact Hbits].
  apply high_bits_lt. intros k Hk. rewrite Hbits.
  replace (k <? N.min len w) with false by (symmetry; apply N.ltb_ge; lia). reflexivity.
Qed.

Theorem get_ixx_sign_ext_b little w buf size off len :
  (w =? 8) || (w =? 16) || (w =? 32) || (w =? 64) = true -> buf_pre buf size off = true ->
  exists u, get_uxx little w buf size off (N.min len w) = Some u /\ u < 2 ^ N.min len w /\
            get_ixx little w buf size off len = Some (sign_extend (N.min len w) u).
Proof.
  intros Hw Hb. apply buf_pre_elim in Hb as (H1 & H2 & H3 & H4).
  apply get_ixx_sign_ext; try assumption.
  repeat (apply orb_prop in Hw; destruct Hw as [Hw|Hw]); apply N.eqb_eq in Hw; auto.
Qed.

Theorem get_bit_spec_b little buf size off :
  buf_pre buf size off = true ->
  get_bit little buf size off = Some ((off <? 8 * size) && bit buf off).
Proof. intros Hb. apply buf_pre_elim in Hb as (H1 & H2 & H3 & H4). apply get_bit_spec; assumption. Qed.

Theorem endianness_variants_equal_b w buf size off len value :
  (w =? 8) || (w =? 16) || (w =? 32) || (w =? 64) = true -> buf_pre buf size off = true ->
  get_uxx true w buf size off len = get_uxx false w buf size off len /\
  get_ixx true w buf size off len = get_ixx false w buf size off len /\
  set_uxx true buf size off value len = set_uxx false buf size off value len.
Proof.
  intros Hw Hb. pose proof Hb as Hb'. apply buf_pre_elim in Hb as (H1 & H2 & H3 & H4).
  assert (Hw' : w mod 8 = 0 /\ w <= 64).
  { repeat (apply orb_prop in Hw; destruct Hw as [Hw|Hw]); apply N.eqb_eq in Hw; subst w; (split; [reflexivity|lia]). }
  destruct Hw' as [Hw8 Hw64].
  split; [apply endianness_variants_equal_get; assumption|]. split; [|apply endianness_variants_equal_set].
  unfold get_ixx. rewrite (endianness_variants_equal_get w buf size off _ Hw8 Hw64 H4 H1 H2 H3). reflexivity.
Qed.

(* sign_extend is the two's complement reading: congruent to u modulo 2^sat and inside the signed range *)
Theorem sign_extend_range sat u : 0 < sat -> u < 2 ^ sat ->
  (- 2 ^ (Z.of_N sat - 1) <= sign_extend sat u < 2 ^ (Z.of_N sat - 1))%Z /\
  (sign_extend sat u mod 2 ^ Z.of_N sat = Z.of_N u)%Z.
Proof.
  intros Hs Hu. unfold sign_extend.
  replace (0 <? sat) with true by (symmetry; apply N.ltb_lt; exact Hs). cbn [andb].
  rewrite (top_bit u sat Hs Hu).
  set (P := 2 ^ (sat - 1)).
  assert (HP : 2 ^ sat = 2 * P) by (subst P; rewrite <- N.pow_succ_r'; f_equal; lia).
  set (PZ := (2 ^ (Z.of_N sat - 1))%Z).
  assert (HPZ : Z.of_N P = PZ) by (subst P PZ; rewrite N2Z.inj_pow; f_equal; lia).
  assert (HPZ2 : (2 ^ Z.of_N sat = 2 * PZ)%Z) by (subst PZ; rewrite <- Z.pow_succ_r by lia; f_equal; lia).
  rewrite HPZ2.
  destruct (N.leb_spec P u).
  - split; [lia|]. symmetry. apply (Z.mod_unique_pos _ (2 * PZ) (-1) (Z.of_N u)); lia.
  - split; [lia|]. apply Z.mod_small. lia.
Qed.
