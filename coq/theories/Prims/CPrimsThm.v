(* Proofs about the C primitive models: nunavutCopyBits copies exactly the addressed bits. *)
From Verif Require Import Bits CPrims.
Open Scope N_scope.

Lemma rd_some b i : i < blen b -> rd b i = Some (byte_at b i).
Proof.
  unfold rd, byte_at, blen. intros H.
  destruct (nth_error b (N.to_nat i)) eqn:E.
  - f_equal. symmetry. apply nth_error_nth. exact E.
  - apply nth_error_None in E. lia.
Qed.

Lemma wr_some b i v : i < blen b -> wr b i v = Some (upd b (N.to_nat i) (N.land v 255)).
Proof. unfold wr. intros H. apply N.ltb_lt in H. rewrite H. reflexivity. Qed.

Ltac tb := repeat (rewrite ?N.lor_spec, ?N.land_spec, ?N.lxor_spec, ?tb_shiftl, ?tb_shiftr, ?tb_ones, ?tb_255, ?pow2_minus1_ones).

(* one iteration of the loop on the destination byte *)
Lemma step_byte s d sm dm size k :
  k < 8 -> sm + size <= 8 -> dm + size <= 8 ->
  let mask := N.land (N.shiftl (2 ^ size - 1) dm) 255 in
  let inb := N.land (N.shiftl (N.land (N.shiftr s sm) 255) dm) 255 in
  N.testbit (N.lor (N.land d (N.lxor mask 255)) (N.land inb mask)) k =
  if (dm <=? k) && (k <? dm + size) then N.testbit s (sm + (k - dm)) else N.testbit d k.
Proof.
  intros Hk Hs Hd mask inb. subst mask inb. tb.
  destruct (N.leb_spec dm k); destruct (N.ltb_spec k (dm + size)); cbn [andb];
    destruct (N.ltb_spec (k - dm) size); try lia;
    destruct (N.ltb_spec k 8); try lia;
    destruct (N.ltb_spec (k - dm) 8); try lia; cbn [andb orb xorb negb];
    rewrite ?andb_true_r, ?andb_false_r, ?orb_false_r, ?xorb_false_r, ?xorb_true_r; cbn [andb orb negb].
  - replace (k - dm + sm) with (sm + (k - dm)) by lia. destruct (N.testbit d k); reflexivity.
  - destruct (N.testbit d k); reflexivity.
  - destruct (N.testbit d k); reflexivity.
  - reflexivity.
Qed.

Definition copied (dst src r : bytes) (doff soff len : N) : Prop :=
  length r = length dst /\
  (bytes_ok dst -> bytes_ok src -> bytes_ok r) /\
  forall p, bit r p = if (doff <=? p) && (p <? doff + len) then bit src (soff + (p - doff)) else bit dst p.

Lemma choose_min_spec a b : choose_min a b = N.min a b.
Proof. unfold choose_min. destruct (N.ltb_spec a b); lia. Qed.

Lemma copy_loop_spec fuel : forall dst src so do_ last,
    last - so <= N.of_nat fuel -> so <= last ->
    last <= 8 * blen src -> do_ + (last - so) <= 8 * blen dst ->
    exists r, copy_loop fuel dst src so do_ last = Some r /\ copied dst src r do_ so (last - so).
Proof.
  induction fuel as [|f IH]; intros dst src so do_ last Hf Hso Hsrc Hdst.
  - exists dst. cbn [copy_loop]. replace (last <=? so) with true by (symmetry; apply N.leb_le; lia).
    split; [reflexivity|]. split; [reflexivity|]. split; [auto|]. intros p.
    destruct (N.leb_spec do_ p); destruct (N.ltb_spec p (do_ + (last - so))); cbn [andb]; try reflexivity. lia.
  - cbn [copy_loop]. destruct (N.leb_spec last so) as [Hle|Hlt].
    + exists dst. split; [reflexivity|]. split; [reflexivity|]. split; [auto|]. intros p.
      destruct (N.leb_spec do_ p); destruct (N.ltb_spec p (do_ + (last - so))); cbn [andb]; try reflexivity. lia.
    + set (sm := so mod 8). set (dm := do_ mod 8).
      set (mx := if dm <? sm then sm else dm).
      rewrite choose_min_spec. set (size := N.min (8 - mx) (last - so)).
      assert (Hsm : sm < 8) by (subst sm; apply N.mod_lt; discriminate).
      assert (Hdm : dm < 8) by (subst dm; apply N.mod_lt; discriminate).
      assert (Hmx : mx < 8 /\ sm <= mx /\ dm <= mx) by (subst mx; destruct (N.ltb_spec dm sm); lia).
      assert (Hsize : 1 <= size /\ size <= 8 - mx /\ size <= last - so) by (subst size; lia).
      rewrite (rd_some src (so / 8)) by (unfold blen in *; lia).
      rewrite (rd_some dst (do_ / 8)) by (unfold blen in *; lia).
      rewrite wr_some by (unfold blen in *; lia).
      set (nb := N.lor _ _).
      set (dst' := upd dst (N.to_nat (do_ / 8)) (N.land nb 255)).
      destruct (IH dst' src (so + size) (do_ + size) last) as (r & Hr & Hlen & Hok & Hbits).
      * lia.
      * lia.
      * exact Hsrc.
      * subst dst'. unfold blen. rewrite upd_length. unfold blen in Hdst. lia.
      * exists r. split; [exact Hr|]. split.
        { rewrite Hlen. subst dst'. apply upd_length. }
        split.
        { intros Hd0 Hs0. apply Hok; [|exact Hs0]. subst dst'. apply bytes_ok_upd; [exact Hd0|apply land_255_lt]. }
        intros p. rewrite Hbits. subst dst'.
        rewrite bit_upd by (unfold blen in *; lia). rewrite tb_land255_mod.
        subst nb.
        destruct (N.leb_spec (do_ + size) p) as [H1|H1];
          destruct (N.ltb_spec p (do_ + size + (last - (so + size)))) as [H2|H2]; cbn [andb].
        -- replace ((do_ <=? p) && (p <? do_ + (last - so))) with true
             by (symmetry; apply andb_true_intro; split; [apply N.leb_le|apply N.ltb_lt]; lia).
           f_equal. lia.
        -- replace ((do_ <=? p) && (p <? do_ + (last - so))) with false
             by (symmetry; apply andb_false_intro2; apply N.ltb_ge; lia).
           destruct (N.eqb_spec (p / 8) (do_ / 8)) as [He|He]; [|reflexivity].
           rewrite step_byte by (try apply N.mod_lt; fold sm dm; lia || discriminate).
           fold dm. replace ((dm <=? p mod 8) && (p mod 8 <? dm + size)) with false; [unfold bit; rewrite He; reflexivity|].
           symmetry. subst dm. apply andb_false_intro2. apply N.ltb_ge. lia.
        -- destruct (N.eqb_spec (p / 8) (do_ / 8)) as [He|He].
           ++ rewrite step_byte by (try apply N.mod_lt; fold sm dm; lia || discriminate).
              fold dm sm.
              destruct (N.leb_spec do_ p) as [H3|H3].
              ** replace ((dm <=? p mod 8) && (p mod 8 <? dm + size)) with true
                   by (symmetry; subst dm; apply andb_true_intro; split; [apply N.leb_le|apply N.ltb_lt]; lia).
                 replace (p <? do_ + (last - so)) with true by (symmetry; apply N.ltb_lt; lia).
                 cbn [andb]. unfold bit. f_equal; [f_equal|]; subst sm dm; lia.
              ** replace ((dm <=? p mod 8) && (p mod 8 <? dm + size)) with false
                   by (symmetry; subst dm; apply andb_false_intro1; apply N.leb_gt; lia).
                 cbn [andb]. unfold bit; rewrite He; reflexivity.
           ++ replace ((do_ <=? p) && (p <? do_ + (last - so))) with false; [reflexivity|].
              symmetry. destruct (N.leb_spec do_ p); [|reflexivity]. cbn [andb]. apply N.ltb_ge.
              subst dm sm. lia.
        -- lia.
Qed.

(* ---- the aligned path ---- *)
Lemma nth_firstn_lt {A} (l : list A) : forall n i d, (i < n)%nat -> nth i (firstn n l) d = nth i l d.
Proof.
  induction l as [|x l IH]; intros n i d H; destruct n; destruct i; cbn; try reflexivity; try lia.
  apply IH. lia.
Qed.

Lemma nth_skipn_add {A} (l : list A) : forall n i d, nth i (skipn n l) d = nth (n + i) l d.
Proof.
  induction l as [|x l IH]; intros n i d; destruct n; cbn; try reflexivity.
  - destruct i; reflexivity.
  - apply IH.
Qed.

Lemma byte_at_splice dst src d s n i :
  s + n <= blen src -> d + n <= blen dst ->
  byte_at (firstn (N.to_nat d) dst ++ firstn (N.to_nat n) (skipn (N.to_nat s) src) ++ skipn (N.to_nat (d + n)) dst) i =
  if i <? d then byte_at dst i else if i <? d + n then byte_at src (s + (i - d)) else byte_at dst i.
Proof.
  unfold blen, byte_at. intros Hs Hd.
  assert (L1 : length (firstn (N.to_nat d) dst) = N.to_nat d) by (rewrite firstn_length; lia).
  assert (L2 : length (firstn (N.to_nat n) (skipn (N.to_nat s) src)) = N.to_nat n)
    by (rewrite firstn_length, skipn_length; lia).
  destruct (N.ltb_spec i d).
  - rewrite app_nth1 by lia. rewrite nth_firstn_lt by lia. reflexivity.
  - rewrite app_nth2 by lia. rewrite L1.
    destruct (N.ltb_spec i (d + n)).
    + rewrite app_nth1 by lia. rewrite nth_firstn_lt by lia.
      rewrite nth_skipn_add. f_equal. lia.
    + rewrite app_nth2 by lia. rewrite L2. rewrite nth_skipn_add. f_equal. lia.
Qed.

Lemma splice_length dst src d s n :
  s + n <= blen src -> d + n <= blen dst ->
  length (firstn (N.to_nat d) dst ++ firstn (N.to_nat n) (skipn (N.to_nat s) src) ++ skipn (N.to_nat (d + n)) dst) = length dst.
Proof.
  unfold blen. intros Hs Hd. rewrite !app_length, !firstn_length, !skipn_length. lia.
Qed.

Lemma mask_byte ld ls m k : k < 8 -> m <= 8 ->
  N.testbit (N.lor (N.land ld (N.lxor (2 ^ m - 1) 255)) (N.land ls (2 ^ m - 1))) k =
  if k <? m then N.testbit ls k else N.testbit ld k.
Proof.
  intros Hk Hm. tb. destruct (N.ltb_spec k m); destruct (N.ltb_spec k 8); try lia; cbn [xorb negb andb].
  - rewrite andb_false_r, andb_true_r. reflexivity.
  - rewrite andb_true_r, andb_false_r, orb_false_r. reflexivity.
Qed.

Theorem copy_bits_exact dst doff len src soff :
  doff + len <= 8 * blen dst -> soff + len <= 8 * blen src ->
  exists r, copy_bits dst doff len src soff = Some r /\ copied dst src r doff soff len.
Proof.
  intros Hd Hs. unfold copy_bits.
  destruct (N.eqb_spec (soff mod 8) 0) as [Hsa|Hsa]; cbn [andb].
  2:{ destruct (copy_loop_spec (N.to_nat len) dst src soff doff (soff + len)) as (r & Hr & Hc); try lia.
      exists r. split; [exact Hr|]. replace (soff + len - soff) with len in Hc by lia. exact Hc. }
  destruct (N.eqb_spec (doff mod 8) 0) as [Hda|Hda].
  2:{ destruct (copy_loop_spec (N.to_nat len) dst src soff doff (soff + len)) as (r & Hr & Hc); try lia.
      exists r. split; [exact Hr|]. replace (soff + len - soff) with len in Hc by lia. exact Hc. }
  set (lb := len / 8). set (ps := soff / 8). set (pd := doff / 8).
  assert (Hps : ps + lb <= blen src) by (subst ps lb; lia).
  assert (Hpd : pd + lb <= blen dst) by (subst pd lb; lia).
  assert (Hmm : exists dst1, (if 0 <? lb then memmove dst pd src ps lb else Some dst) = Some dst1 /\
                length dst1 = length dst /\
                forall i, byte_at dst1 i = if i <? pd then byte_at dst i else if i <? pd + lb then byte_at src (ps + (i - pd)) else byte_at dst i).
  { destruct (N.ltb_spec 0 lb).
    - unfold memmove.
      replace ((ps + lb <=? blen src) && (pd + lb <=? blen dst)) with true
        by (symmetry; apply andb_true_intro; split; apply N.leb_le; assumption).
      eexists. split; [reflexivity|]. split; [apply splice_length; assumption|].
      intros i. apply byte_at_splice; assumption.
    - exists dst. split; [reflexivity|]. split; [reflexivity|]. intros i.
      destruct (N.ltb_spec i pd); [reflexivity|]. destruct (N.ltb_spec i (pd + lb)); [lia|reflexivity]. }
  destruct Hmm as (dst1 & -> & Hl1 & Hb1).
  assert (Hok1 : bytes_ok dst -> bytes_ok src -> bytes_ok dst1).
  { intros Hd0 Hs0. apply bytes_ok_byte_at. intros i. rewrite Hb1.
    destruct (i <? pd); [apply bytes_ok_byte_at; exact Hd0|].
    destruct (i <? pd + lb); apply bytes_ok_byte_at; assumption. }
  destruct (N.eqb_spec (len mod 8) 0) as [Hlm|Hlm]; cbn [negb].
  - exists dst1. split; [reflexivity|]. split; [exact Hl1|]. split; [exact Hok1|]. intros p. unfold bit. rewrite Hb1.
    destruct (N.ltb_spec (p / 8) pd); destruct (N.leb_spec doff p); cbn [andb]; subst pd ps lb; try lia; try reflexivity.
    destruct (N.ltb_spec (p / 8) (doff / 8 + len / 8)); destruct (N.ltb_spec p (doff + len)); try lia; try reflexivity.
    f_equal; [f_equal|]; lia.
  - rewrite (rd_some dst1) by (unfold blen in *; rewrite Hl1; subst pd lb; lia).
    rewrite (rd_some src) by (unfold blen in *; subst ps lb; lia).
    rewrite wr_some by (unfold blen in *; rewrite Hl1; subst pd lb; lia).
    eexists. split; [reflexivity|]. split; [rewrite upd_length; exact Hl1|].
    split; [intros Hd0 Hs0; apply bytes_ok_upd; [apply Hok1; assumption|apply land_255_lt]|]. intros p.
    rewrite bit_upd by (unfold blen in *; rewrite Hl1; subst pd lb; lia). rewrite tb_land255_mod.
    destruct (N.eqb_spec (p / 8) (pd + lb)) as [He|He].
    + rewrite mask_byte by (try apply N.mod_lt; try discriminate; pose proof (N.mod_lt len 8); lia).
      rewrite Hb1. replace (pd + lb <? pd) with false by (symmetry; apply N.ltb_ge; lia).
      replace (pd + lb <? pd + lb) with false by (symmetry; apply N.ltb_ge; lia).
      destruct (N.ltb_spec (p mod 8) (len mod 8)).
      * replace ((doff <=? p) && (p <? doff + len)) with true
          by (symmetry; apply andb_true_intro; split; [apply N.leb_le|apply N.ltb_lt]; subst pd lb; lia).
        unfold bit. f_equal; [f_equal|]; subst pd ps lb; lia.
      * replace ((doff <=? p) && (p <? doff + len)) with false
          by (symmetry; apply andb_false_intro2; apply N.ltb_ge; subst pd lb; lia).
        unfold bit. rewrite He. reflexivity.
    + unfold bit at 1. rewrite Hb1.
      destruct (N.ltb_spec (p / 8) pd); destruct (N.leb_spec doff p); cbn [andb]; subst pd ps lb; try lia; try reflexivity.
      destruct (N.ltb_spec (p / 8) (doff / 8 + len / 8)); destruct (N.ltb_spec p (doff + len)); try lia; try reflexivity.
      unfold bit. f_equal; [f_equal|]; lia.
Qed.

(* ---- zero-length copies touch nothing (no bounds needed) ---- *)
Lemma copy_bits_zero dst doff src soff : copy_bits dst doff 0 src soff = Some dst.
Proof.
  unfold copy_bits. destruct ((soff mod 8 =? 0) && (doff mod 8 =? 0)).
  - reflexivity.
  - cbn [N.to_nat copy_loop]. rewrite N.add_0_r. rewrite N.leb_refl. reflexivity.
Qed.

Theorem copy_bits_exact' dst doff len src soff :
  len = 0 \/ (doff + len <= 8 * blen dst /\ soff + len <= 8 * blen src) ->
  exists r, copy_bits dst doff len src soff = Some r /\ copied dst src r doff soff len.
Proof.
  intros [->|[Hd Hs]]; [|apply copy_bits_exact; assumption].
  exists dst. split; [apply copy_bits_zero|]. split; [reflexivity|]. split; [auto|].
  intros p. destruct (N.leb_spec doff p); destruct (N.ltb_spec p (doff + 0)); cbn [andb]; try reflexivity; lia.
Qed.

(* ---- little-endian byte images ---- *)
Lemma bit_cons x t k : bit (x :: t) k = if k <? 8 then N.testbit x k else bit t (k - 8).
Proof.
  unfold bit, byte_at. destruct (N.ltb_spec k 8).
  - replace (k / 8) with 0 by lia. replace (k mod 8) with k by lia. reflexivity.
  - replace (N.to_nat (k / 8)) with (S (N.to_nat ((k - 8) / 8))) by lia.
    cbn [nth]. f_equal. lia.
Qed.

Lemma of_le_bytes_bit b : bytes_ok b -> forall k, N.testbit (of_le_bytes b) k = bit b k.
Proof.
  induction b as [|x t IH]; intros Hok k.
  - cbn. rewrite N.bits_0. unfold bit, byte_at. destruct (N.to_nat (k / 8)); cbn; rewrite N.bits_0; reflexivity.
  - inversion Hok; subst. cbn [of_le_bytes fold_right]. fold (of_le_bytes t).
    rewrite N.lor_spec, tb_shiftl, bit_cons, IH by assumption.
    destruct (N.ltb_spec k 8); destruct (N.leb_spec 8 k); try lia; cbn [andb].
    + apply orb_false_r.
    + rewrite (tb_byte x k) by assumption. reflexivity.
Qed.

Lemma byte_at_le_bytes n v i :
  byte_at (le_bytes n v) i = if i <? N.of_nat n then N.land (N.shiftr v (8 * i)) 255 else 0.
Proof.
  unfold byte_at, le_bytes. destruct (N.ltb_spec i (N.of_nat n)).
  - rewrite (nth_indep _ 0 (N.land (N.shiftr v (8 * N.of_nat 0)) 255)) by (rewrite map_length, seq_length; lia).
    rewrite (map_nth (fun k => N.land (N.shiftr v (8 * N.of_nat k)) 255)).
    rewrite seq_nth by lia. cbn [Nat.add]. rewrite N2Nat.id. reflexivity.
  - apply nth_overflow. rewrite map_length, seq_length. lia.
Qed.

Lemma bit_le_bytes n v k : bit (le_bytes n v) k = (k <? 8 * N.of_nat n) && N.testbit v k.
Proof.
  unfold bit. rewrite byte_at_le_bytes.
  destruct (N.ltb_spec (k / 8) (N.of_nat n)); destruct (N.ltb_spec k (8 * N.of_nat n)); try lia; cbn [andb].
  - rewrite tb_land255_mod, tb_shiftr. f_equal. lia.
  - apply N.bits_0.
Qed.

Lemma le_bytes_length n v : length (le_bytes n v) = n.
Proof. unfold le_bytes. rewrite map_length, seq_length. reflexivity. Qed.

(* ---- nunavutSetUxx ---- *)
Theorem set_uxx_exact buf off value len :
  (blen buf * 8 < off + len -> set_uxx buf off value len = Some (inr TooSmall)) /\
  (off + len <= blen buf * 8 ->
   exists r, set_uxx buf off value len = Some (inl r) /\ length r = length buf /\
             (bytes_ok buf -> bytes_ok r) /\
             forall p, bit r p = if (off <=? p) && (p <? off + N.min len 64)
                                 then N.testbit (value mod 2 ^ 64) (p - off) else bit buf p).
Proof.
  unfold set_uxx. split; intros H.
  - apply N.ltb_lt in H. rewrite H. reflexivity.
  - replace (blen buf * 8 <? off + len) with false by (symmetry; apply N.ltb_ge; lia).
    rewrite choose_min_spec.
    destruct (copy_bits_exact buf off (N.min len 64) (le_bytes 8 (value mod 2 ^ 64)) 0) as (r & Hr & Hl & Hok & Hb).
    + lia.
    + unfold blen. rewrite le_bytes_length. lia.
    + exists r. rewrite Hr. split; [reflexivity|]. split; [exact Hl|]. split.
      * intros Hb0. apply Hok; [exact Hb0|]. apply bytes_ok_byte_at. intros i. rewrite byte_at_le_bytes.
        destruct (i <? N.of_nat 8); [apply land_255_lt|reflexivity].
      * intros p. rewrite Hb. destruct ((off <=? p) && (p <? off + N.min len 64)) eqn:E; [|reflexivity].
        rewrite bit_le_bytes. apply andb_prop in E as [E1 E2]. apply N.leb_le in E1. apply N.ltb_lt in E2.
        replace (0 + (p - off) <? 8 * N.of_nat 8) with true by (symmetry; apply N.ltb_lt; lia).
        cbn [andb]. rewrite N.add_0_l. reflexivity.
Qed.

(* ---- nunavutGetU8/16/32/64: zero extension beyond the buffer, clamping of len_bits ---- *)
Lemma saturate_fragment_spec size off len :
  saturate_fragment size off len = N.min len (size * 8 - N.min (size * 8) off).
Proof. unfold saturate_fragment. rewrite !choose_min_spec. reflexivity. Qed.

Theorem get_uxx_spec w buf off len :
  w mod 8 = 0 -> bytes_ok buf ->
  exists v, get_uxx w buf off len = Some v /\
            forall k, N.testbit v k = (k <? N.min len w) && bit buf (off + k).
Proof.
  intros Hw Hok. unfold get_uxx. rewrite saturate_fragment_spec, choose_min_spec.
  set (bits := N.min (N.min len w) (blen buf * 8 - N.min (blen buf * 8) off)).
  destruct (copy_bits_exact' (repeat 0 (N.to_nat (w / 8))) 0 bits buf off) as (r & Hr & Hl & Hokr & Hb).
  { destruct (N.eq_dec bits 0) as [Hz|Hz]; [left; exact Hz|right].
    subst bits. unfold blen in *. rewrite repeat_length. lia. }
  exists (of_le_bytes r). rewrite Hr. split; [reflexivity|]. intros k.
  rewrite of_le_bytes_bit by (apply Hokr; [apply bytes_ok_repeat0|exact Hok]).
  rewrite Hb. cbn [N.leb]. replace (0 <=? k) with true by (symmetry; apply N.leb_le; lia). cbn [andb].
  rewrite N.add_0_l, N.sub_0_r.
  destruct (N.ltb_spec k bits).
  - replace (k <? N.min len w) with true by (symmetry; apply N.ltb_lt; subst bits; lia). reflexivity.
  - assert (Hz : bit (repeat 0 (N.to_nat (w / 8))) k = false).
    { unfold bit, byte_at. destruct (Nat.lt_ge_cases (N.to_nat (k / 8)) (N.to_nat (w / 8))).
      - rewrite nth_repeat. apply N.bits_0.
      - rewrite nth_overflow by (rewrite repeat_length; lia). apply N.bits_0. }
    rewrite Hz. destruct (N.ltb_spec k (N.min len w)); [|reflexivity]. cbn [andb].
    symmetry. apply bit_beyond. subst bits. unfold blen in *. lia.
Qed.

Lemma neg_lnot x : (- Z.of_N x - 1)%Z = Z.lnot (Z.of_N x).
Proof. unfold Z.lnot. lia. Qed.

(* ---- nunavutGetI8/16/32/64: two's complement sign extension, stated on the bits of the result ---- *)
Theorem get_ixx_sign_ext w buf off len :
  w mod 8 = 0 -> 0 < w -> bytes_ok buf ->
  exists u z, get_uxx w buf off (N.min len w) = Some u /\ get_ixx w buf off len = Some z /\
    let sat := N.min len w in
    let neg := (0 <? sat) && N.testbit u (sat - 1) in
    forall k, Z.testbit z (Z.of_N k) = if k <? sat then N.testbit u k else neg.
Proof.
  intros Hw Hw0 Hok. unfold get_ixx. rewrite choose_min_spec.
  destruct (get_uxx_spec w buf off (N.min len w) Hw Hok) as (u & Hu & Hbits).
  exists u. rewrite Hu. eexists. split; [reflexivity|]. split; [reflexivity|].
  set (sat := N.min len w). cbn zeta.
  assert (Hhigh : forall k, sat <= k -> N.testbit u k = false).
  { intros k Hk. rewrite Hbits. replace (k <? N.min (N.min len w) w) with false; [reflexivity|].
    symmetry. apply N.ltb_ge. subst sat. lia. }
  assert (Hneg : negb (N.land u (N.shiftl 1 (sat - 1)) =? 0) = N.testbit u (sat - 1)).
  { destruct (N.testbit u (sat - 1)) eqn:Eb.
    - apply negb_true_iff. apply N.eqb_neq. intros Hc.
      assert (N.testbit (N.land u (N.shiftl 1 (sat - 1))) (sat - 1) = false) by (rewrite Hc; apply N.bits_0).
      rewrite N.land_spec, Eb, tb_shiftl, N.leb_refl, N.sub_diag in H. discriminate.
    - apply negb_false_iff. apply N.eqb_eq. apply N.bits_inj. intros k. rewrite N.land_spec, tb_shiftl, N.bits_0.
      destruct (N.eq_dec k (sat - 1)) as [->|Hne]; [rewrite Eb; reflexivity|].
      destruct (N.leb_spec (sat - 1) k); cbn [andb]; [|apply andb_false_r].
      replace (N.testbit 1 (k - (sat - 1))) with false; [apply andb_false_r|].
      symmetry. apply (tb_small 1 1); [reflexivity|lia]. }
  rewrite Hneg. set (neg := (0 <? sat) && N.testbit u (sat - 1)).
  intros k. destruct neg eqn:En.
  - (* negative: -(~val') - 1 = Z.lnot (~val') *)
    rewrite neg_lnot.
    rewrite Z.lnot_spec by lia. rewrite Z.testbit_of_N. rewrite andb_true_r.
    destruct (N.ltb_spec sat w); tb.
    + destruct (N.ltb_spec k sat); destruct (N.ltb_spec k w); try lia;
        try (rewrite (Hhigh k) by lia); destruct (N.testbit u k); reflexivity.
    + assert (sat = w) by (subst sat; lia).
      destruct (N.ltb_spec k sat); destruct (N.ltb_spec k w); try lia;
        try (rewrite (Hhigh k) by lia); destruct (N.testbit u k); reflexivity.
  - rewrite andb_false_r. rewrite Z.testbit_of_N.
    destruct (N.ltb_spec k sat); [reflexivity|]. apply Hhigh. lia.
Qed.
