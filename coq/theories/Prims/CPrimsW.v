(* The C support header with the width of size_t as a parameter: the same text as Prims/CPrims.v, every size_t
   addition/multiplication wrapped modulo M (M = 2^32 on the 32-bit deployment targets, 2^64 on LP64).  Current source (incl. the saturating capacity check of nunavutSetUxx).  uint64_t values
   (the `value` argument of nunavutSetUxx) stay 64 bits wide (w64).  CPrimsWThm.v proves that M := two64 gives exactly the
   functions of CPrims.v (the ones that are extracted and run against the compiled header) and proves the main theorems for
   every M >= 2^16, hence for both widths. *)
From Verif Require Export CPrims.
Open Scope N_scope.

Section SizeT.
Variable M : N.
Definition wM (x : N) : N := x mod M.

(* nunavutSaturateBufferFragmentBitLength *)
Definition saturate_fragmentM (buffer_size_bytes fragment_offset_bits fragment_length_bits : N) : N :=
  let size_bits := wM (buffer_size_bytes * 8) in
  let tail_bits := size_bits - choose_min size_bits fragment_offset_bits in
  choose_min fragment_length_bits tail_bits.

(* the `while (last_bit > src_off)` loop of nunavutCopyBits; fuel = number of bits *)
Fixpoint copy_loopM (fuel : nat) (dst src : bytes) (src_off dst_off last_bit : N) : option bytes :=
  if last_bit <=? src_off then Some dst
  else
    match fuel with
    | O => None
    | S f =>
        let src_mod := src_off mod 8 in
        let dst_mod := dst_off mod 8 in
        let max_mod := if dst_mod <? src_mod then src_mod else dst_mod in
        let size := choose_min (8 - max_mod) (last_bit - src_off) in
        let mask := N.land (N.shiftl (2 ^ size - 1) dst_mod) 255 in
        match rd src (src_off / 8), rd dst (dst_off / 8) with
        | Some s, Some d =>
            let inb := N.land (N.shiftl (N.land (N.shiftr s src_mod) 255) dst_mod) 255 in
            let a := N.land d (N.lxor mask 255) in
            let b := N.land inb mask in
            match wr dst (dst_off / 8) (N.lor a b) with
            | Some dst' => copy_loopM f dst' src (wM (src_off + size)) (wM (dst_off + size)) last_bit
            | None => None
            end
        | _, _ => None
        end
    end.

(* nunavutCopyBits(dst, dst_offset_bits, length_bits, src, src_offset_bits) *)
Definition copy_bitsM (dst : bytes) (dst_offset_bits length_bits : N) (src : bytes) (src_offset_bits : N) : option bytes :=
  if (src_offset_bits mod 8 =? 0) && (dst_offset_bits mod 8 =? 0) then
    let length_bytes := length_bits / 8 in
    let ps := src_offset_bits / 8 in
    let pd := dst_offset_bits / 8 in
    match (if 0 <? length_bytes then memmove dst pd src ps length_bytes else Some dst) with
    | None => None
    | Some dst1 =>
        let length_mod := length_bits mod 8 in
        if negb (length_mod =? 0) then
          let mask := 2 ^ length_mod - 1 in
          match rd dst1 (pd + length_bytes), rd src (ps + length_bytes) with
          | Some ld, Some ls => wr dst1 (pd + length_bytes) (N.lor (N.land ld (N.lxor mask 255)) (N.land ls mask))
          | _, _ => None
          end
        else Some dst1
    end
  else copy_loopM (N.to_nat length_bits) dst src src_offset_bits dst_offset_bits (wM (src_offset_bits + length_bits)).

(* nunavutGetBits(output, buf, buf_size_bytes, off_bits, len_bits) *)
Definition get_bitsM (output buf : bytes) (buf_size_bytes off_bits len_bits : N) : option bytes :=
  let sat_bits := saturate_fragmentM buf_size_bytes off_bits len_bits in
  match memset0 output (sat_bits / 8) (wM (len_bits + 7) / 8 - sat_bits / 8) with
  | None => None
  | Some o => copy_bitsM o 0 sat_bits buf off_bits
  end.

(* nunavutSetUxx, current text (saturating capacity check, /repo ba46e0a) *)
Definition set_uxxM (little : bool) (buf : bytes) (buf_size_bytes off_bits value len_bits : N) : option (bytes + err) :=
  let capacity_bits := wM (buf_size_bytes * 8) in
  if (capacity_bits <? off_bits) || (capacity_bits - off_bits <? len_bits) then Some (inr TooSmall)
  else
    let saturated := choose_min len_bits 64 in
    let tmp := if little then mem_le 8 (w64 value) else tmp_any (w64 value) in
    match copy_bitsM buf off_bits saturated tmp 0 with
    | Some b => Some (inl b)
    | None => None
    end.

Definition set_ixxM (little : bool) (buf : bytes) (buf_size_bytes off_bits : N) (value : Z) (len_bits : N) : option (bytes + err) :=
  set_uxxM little buf buf_size_bytes off_bits (Z.to_N (value mod Z.of_N two64)) len_bits.

(* nunavutSetBit *)
Definition set_bitM (buf : bytes) (buf_size_bytes off_bits : N) (value : bool) : option (bytes + err) :=
  if wM (buf_size_bytes * 8) <=? off_bits then Some (inr TooSmall)
  else match copy_bitsM buf off_bits 1 [if value then 1 else 0] 0 with
       | Some b => Some (inl b)
       | None => None
       end.

(* nunavutGetU8/16/32/64 (w = 8, 16, 32, 64): copy into a zeroed w/8-byte object, then read it *)
Definition get_uxxM (little : bool) (w : N) (buf : bytes) (buf_size_bytes off_bits len_bits : N) : option N :=
  let bits := saturate_fragmentM buf_size_bytes off_bits (choose_min len_bits w) in
  match copy_bitsM (repeat 0 (N.to_nat (w / 8))) 0 bits buf off_bits with
  | Some tmp => Some (if little || (w =? 8) then of_le_bytes tmp else or_shifts 0 tmp)
  | None => None
  end.

(* nunavutGetBit *)
Definition get_bitM (little : bool) (buf : bytes) (buf_size_bytes off_bits : N) : option bool :=
  match get_uxxM little 8 buf buf_size_bytes off_bits 1 with
  | Some v => Some (v =? 1)
  | None => None
  end.

Definition get_ixxM (little : bool) (w : N) (buf : bytes) (buf_size_bytes off_bits len_bits : N) : option Z :=
  let sat := cast_u 8 (choose_min len_bits w) in
  match get_uxxM little w buf buf_size_bytes off_bits sat with
  | None => None
  | Some val => sext_expr w sat val
  end.

(* name kept for Codec/PrimsCur.v: the saturating check is now THE text of nunavutSetUxx *)
Definition set_uxx_satM := set_uxxM.

End SizeT.
