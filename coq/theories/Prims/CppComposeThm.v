(* Sequences of cursor operations on a C++ bitspan (store-and-advance, void fields, alignment padding): whatever the sequence,
   if no member reports an error the span stays well formed, the cursor only moves forward, and every bit before the old cursor
   and at or after the new cursor is untouched (induction over the op list).  No premise on the cursor: that it stays below 2^64
   FOLLOWS from success (the saturating capacity tests of setUxx / setZeros / padAndMoveToAlignment); the only side condition is
   the argument type (a size_t length or alignment is below 2^64, an alignment is at least 1). *)
From Verif Require Import Bits CPrims CPrimsThm CppPrims CppPrimsThm CppPrimsMoreThm PrimsExt.
Open Scope N_scope.

Definition op_span (o : cpp_op) : N := match o with CStoreU _ len => len | CZeros len => len | CPad n => n end.
Definition cpp_op_ok (o : cpp_op) : Prop := match o with CPad n => 1 <= n < two64 | CZeros len => len < two64 | CStoreU _ _ => True end.
Fixpoint total_span (ops : list cpp_op) : N := match ops with [] => 0 | o :: t => op_span o + total_span t end.

Definition cpp_frame (s s' : span) (budget : N) : Prop :=
  sp_size s' = sp_size s /\ length (sp_data s') = length (sp_data s) /\ bytes_ok (sp_data s') /\ span_ok s' /\
  sp_off s <= sp_off s' <= sp_off s + budget /\
  forall p, p < sp_off s \/ sp_off s' <= p -> bit (sp_data s') p = bit (sp_data s) p.

Lemma cpp_step_frame o s s' :
  span_ok s -> bytes_ok (sp_data s) -> cpp_op_ok o ->
  cpp_step o s = Some s' -> cpp_frame s s' (op_span o).
Proof.
  intros Hs Hok Ho H. pose proof Hs as (S1 & S2 & S3). destruct o as [v len|len|n]; cbn [cpp_step op_span cpp_op_ok] in *.
  - rewrite cpp_set_uxx_is_c_all in H by assumption.
    destruct (set_uxx_exact_all false (sp_data s) (sp_size s) (sp_off s) v len S1 S2) as [Ha Hc].
    destruct (N.lt_ge_cases (sp_size s * 8) (sp_off s + len)) as [Hlt|Hge]; [rewrite (Ha Hlt) in H; discriminate|].
    assert (Hb : sp_off s + len < two64) by lia.
    destruct (Hc Hge) as (r & E & L & K & B). rewrite E in H. injection H as <-. rewrite w64_small by exact Hb.
    unfold cpp_frame, span_ok. cbn [sp_data sp_size sp_off]. unfold blen in *. rewrite L.
    repeat split; auto; try lia. intros p Hp. rewrite B.
    destruct (N.leb_spec (sp_off s) p); destruct (N.ltb_spec p (sp_off s + N.min len 64)); cbn [andb]; try reflexivity. lia.
  - destruct (setZeros_exact s len Hs Hok Ho) as [Ha Hc]. pose proof (sp_bits_spec s Hs) as SB.
    destruct (N.lt_ge_cases (sp_bits s) len) as [Hlt|Hge]; [rewrite (Ha Hlt) in H; discriminate|].
    assert (Hb : sp_off s + len < two64) by lia.
    destruct (Hc Hge) as (r & E & L & K & B). rewrite E in H. injection H as <-. rewrite w64_small by exact Hb.
    unfold cpp_frame, span_ok. cbn [sp_data sp_size sp_off]. unfold blen in *. rewrite L.
    repeat split; auto; try lia. intros p Hp. rewrite B.
    destruct (N.leb_spec (sp_off s) p); destruct (N.ltb_spec p (sp_off s + len)); cbn [andb]; try reflexivity. lia.
  - destruct (pad_and_move_every_alignment s n Hs Hok Ho) as [Ha Hc]. set (pad := (n - sp_off s mod n) mod n) in *.
    assert (Hp : pad < n) by (subst pad; apply N.mod_lt; lia).
    destruct (N.lt_ge_cases (sp_bits s) pad) as [Hlt|Hge]; [rewrite (Ha Hlt) in H; discriminate|].
    pose proof (sp_bits_spec s Hs) as SB. assert (Hb : sp_off s + pad < two64) by lia.
    destruct (Hc Hge) as (r & E & M & L & B). rewrite E in H. injection H as <-.
    assert (Hrok : bytes_ok r).
    { unfold padAndMoveToAlignment in E. destruct (n =? 0); [discriminate|]. destruct (negb _).
      - destruct (setZeros_exact s (n - sp_off s mod n) Hs Hok) as [_ Hz].
        { lia. }
        destruct (setZeros s _) as [[d|e]|] eqn:EZ; try discriminate. injection E as <-.
        destruct (N.lt_ge_cases (sp_bits s) (n - sp_off s mod n)) as [X|X].
        + destruct (setZeros_exact s (n - sp_off s mod n) Hs Hok) as [Hy _].
          { lia. }
          rewrite (Hy X) in EZ. discriminate.
        + destruct (Hz X) as (r' & E' & _ & K' & _). injection E' as <-. exact K'.
      - injection E as <-. exact Hok. }
    unfold cpp_frame, span_ok. cbn [sp_data sp_size sp_off]. unfold blen in *. rewrite L.
    repeat split; auto; try lia. intros p Hq. rewrite B.
    destruct (N.leb_spec (sp_off s) p); destruct (N.ltb_spec p (sp_off s + pad)); cbn [andb]; try reflexivity. lia.
Qed.

Theorem cpp_run_frame ops : forall s s',
  span_ok s -> bytes_ok (sp_data s) -> Forall cpp_op_ok ops ->
  cpp_run ops s = Some s' -> cpp_frame s s' (total_span ops).
Proof.
  induction ops as [|o t IH]; intros s s' Hs Hok HF H; cbn [cpp_run total_span] in *.
  - injection H as <-. unfold cpp_frame. split; [reflexivity|]. split; [reflexivity|]. split; [exact Hok|]. split; [exact Hs|]. split; [lia|reflexivity].
  - inversion HF as [|? ? Ho Ht]; subst. destruct (cpp_step o s) as [s1|] eqn:E; [|discriminate].
    destruct (cpp_step_frame o s s1 Hs Hok Ho E) as (A1 & B1 & C1 & D1 & E1 & F1).
    destruct (IH s1 s' D1 C1 Ht H) as (A2 & B2 & C2 & D2 & E2 & F2).
    unfold cpp_frame. split; [congruence|]. split; [congruence|]. split; [exact C2|]. split; [exact D2|]. split; [lia|].
    intros p Hp. rewrite F2 by lia. apply F1. lia.
Qed.
