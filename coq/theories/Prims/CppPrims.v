(* Algorithm-faithful model of the C++ support header
   src/nunavut/lang/cpp/support/serialization.j2 (bitspan / const_bitspan), as rendered for c++14
   with serialization asserts off (the default).

   A span is the triple the class stores: data_ (pointer + size) and offset_bits_.  The pointer is
   modelled by the list of bytes from data_.data() to the end of the allocation it points into
   (`sp_data`; pointer arithmetic data_.data() + k = skipn k); `sp_size` is data_.size().  Every
   byte access goes through the option-returning accessors of CPrims (None = outside the
   allocation = undefined behaviour).  std::size_t is 64 bits, wrap written out with w64.
   The bit loop of const_bitspan::copyTo is, token for token, the loop of nunavutCopyBits
   (indexing data_[..] instead of psrc[..]), so the model uses the same Gallina function
   copy_loop; the sign-extension expressions of getI8..getI64 are those of the C header
   (sext_expr).  Everything else is written out from the C++ text. *)
From Verif Require Export CPrims.
Open Scope N_scope.

Require Coq.Strings.String. Import String.StringSyntax.
(* hash of the token-stream pin (the cpp/ lines of pins/c14c.txt: 13 renderings of serialization.hpp) of the header text this file
   and PrimsExt.v model; Properties/C14.v requires Gen_Pin_c14c.pin_c14c_sha_cpp to be this one *)
Local Open Scope string_scope.
Definition modelled_cpp_header_sha : String.string := "d7c80548aea56240e85bfed83597dd4a".
Local Close Scope string_scope.

Record span := mkspan { sp_data : bytes; sp_size : N; sp_off : N }.

(* any_bitspan::size() *)
Definition sp_bits (s : span) : N :=
  let bit_size := w64 (sp_size s * 8) in
  if bit_size <? sp_off s then 0 else bit_size - sp_off s.

(* any_bitspan::offset_bytes_ceil() *)
Definition offset_bytes_ceil (s : span) : N := w64 (sp_off s + 7) / 8.

(* any_bitspan::add_offset / at_offset *)
Definition add_offset (s : span) (bits : N) : span := mkspan (sp_data s) (sp_size s) (w64 (sp_off s + bits)).

(* const_bitspan::align_offset_to<n_bits>() *)
Definition align_offset_to (s : span) (n_bits : N) : span :=
  mkspan (sp_data s) (sp_size s) (N.land (w64 (sp_off s + (n_bits - 1))) (N.lxor (n_bits - 1) (N.ones 64))).

(* any_bitspan::subspan(bits) and subspan_bytes(n): current text in Prims/PrimsExt.v (subspan_clamped, subspan_bytes_clamped);
   the unclamped text of before /repo 939fc9d is History/C14_history.v *)

(* bitspan::subspan(bits_at, size_bits) -> Result<bitspan>  (text of /repo fcc36ca: `if (offset_bits < bits_at)` after the possibly
   wrapping sum, and the saturating test `(size_bits > size_available_bits) || (new_offset_bits > size_available_bits - size_bits)`;
   the text of before, whose sums wrapped silently, is History/C14_history.v: finding F-BITSPAN-SUBSPAN-WRAP, fixed) *)
Definition subspan2 (s : span) (bits_at size_bits : N) : span + err :=
  let offset_bits := w64 (sp_off s + bits_at) in
  if offset_bits <? bits_at then inr TooSmall                              (* the sum wrapped around *)
  else
    let offset_bytes := offset_bits / 8 in
    let new_offset_bits := offset_bits mod 8 in
    if sp_size s <? offset_bytes then inr TooSmall
    else
      let size_available_bits := w64 ((sp_size s - offset_bytes) * 8) in
      if (size_available_bits <? size_bits) || (size_available_bits - size_bits <? new_offset_bits) then inr TooSmall
      else
        let new_size_bits := w64 (new_offset_bits + size_bits) in
        inl (mkspan (skipn (N.to_nat offset_bytes) (sp_data s)) (new_size_bits / 8) new_offset_bits).

(* const_bitspan::copyTo(dst, length_bits); result = the destination memory *)
Definition copyTo (src dst : span) (length_bits : N) : option bytes :=
  let length_bits := if sp_bits src <? length_bits then sp_bits src else length_bits in
  if length_bits =? 0 then Some (sp_data dst)
  else if (sp_off src mod 8 =? 0) && (sp_off dst mod 8 =? 0) then
    let length_bytes := length_bits / 8 in
    match memmove (sp_data dst) (sp_off dst / 8) (sp_data src) (sp_off src / 8) length_bytes with
    | None => None
    | Some dst1 =>
        let length_mod := length_bits mod 8 in
        if negb (length_mod =? 0) then
          let mask := 2 ^ length_mod - 1 in
          let i_dst := w64 (sp_off dst + length_bits) / 8 in        (* dst.aligned_ref(length_bits) *)
          let i_src := w64 (sp_off src + length_bits) / 8 in        (* aligned_ref(length_bits) *)
          match rd dst1 i_dst, rd (sp_data src) i_src with
          | Some ld, Some ls => wr dst1 i_dst (N.lor (N.land ld (N.lxor mask 255)) (N.land ls mask))
          | _, _ => None
          end
        else Some dst1
    end
  else copy_loop (N.to_nat length_bits) (sp_data dst) (sp_data src) (sp_off src) (sp_off dst) (w64 (sp_off src + length_bits)).

(* const_bitspan::saturateBufferFragmentBitLength *)
Definition sp_saturate (s : span) (fragment_length_bits : N) : N :=
  let size_bits := w64 (sp_size s * 8) in
  let tail_bits := size_bits - N.min size_bits (sp_off s) in
  N.min fragment_length_bits tail_bits.

(* const_bitspan::getBits(output, len_bits) *)
Definition getBits (s : span) (output : bytes) (len_bits : N) : option bytes :=
  let len_bytes := w64 (len_bits + 7) / 8 in
  let sat_bits := sp_saturate s len_bits in
  match memset0 output (sat_bits / 8) (len_bytes - sat_bits / 8) with
  | None => None
  | Some o => copyTo s (mkspan o (blen output) 0) sat_bits
  end.

(* bitspan::setZeros(length)  (current source: zeroes exactly [offset, offset+length)) *)
Definition setZeros (s : span) (length : N) : option (bytes + err) :=
  if sp_bits s <? length then Some (inr TooSmall)
  else if length =? 0 then Some (inl (sp_data s))
  else
    let offset_bytes := sp_off s / 8 in
    let offset_bits_mod := sp_off s mod 8 in
    let end_bits_mod := w64 (offset_bits_mod + length) mod 8 in
    let length_bytes_ceil := w64 (w64 (offset_bits_mod + length) + 7) / 8 in
    let last_byte := w64 (w64 (offset_bytes + length_bytes_ceil) - 1) in
    match rd (sp_data s) offset_bytes with
    | None => None
    | Some b0 =>
        let first_byte_temp := N.land b0 (N.land (N.shiftr 255 (8 - offset_bits_mod)) 255) in
        match (if end_bits_mod =? 0 then Some 0
               else match rd (sp_data s) last_byte with
                    | Some bl => Some (N.land bl (N.land (N.shiftl 255 end_bits_mod) 255))
                    | None => None
                    end) with
        | None => None
        | Some last_byte_temp =>
            match memset0 (sp_data s) offset_bytes length_bytes_ceil with
            | None => None
            | Some d1 =>
                match rd d1 offset_bytes with
                | None => None
                | Some x0 =>
                    match wr d1 offset_bytes (N.lor x0 first_byte_temp) with
                    | None => None
                    | Some d2 =>
                        match rd d2 last_byte with
                        | None => None
                        | Some xl =>
                            match wr d2 last_byte (N.lor xl last_byte_temp) with
                            | None => None
                            | Some d3 => Some (inl d3)
                            end
                        end
                    end
                end
            end
        end
    end.

(* bitspan::padAndMoveToAlignment(n_bits): result = memory and the new offset  (text of /repo fcc36ca: `const size_t padding = ...`;
   the text of before cast the padding to uint8_t: History/C14_history.v, finding F-BITSPAN-PAD-TRUNC, fixed) *)
Definition padAndMoveToAlignment (s : span) (n_bits : N) : option ((bytes * N) + err) :=
  if n_bits =? 0 then None                                                (* % 0 *)
  else
    let padding := n_bits - sp_off s mod n_bits in                        (* size_t; in [1, n_bits]: no wrap, no truncation *)
    if negb (padding =? n_bits) then
      match setZeros s padding with
      | None => None
      | Some (inr e) => Some (inr e)
      | Some (inl d) => Some (inl (d, w64 (sp_off s + padding)))
      end
    else Some (inl (sp_data s, sp_off s)).

(* bitspan::setBit / setUxx / setIxx *)
Definition cpp_set_bit (s : span) (value : bool) : option (bytes + err) :=
  if w64 (sp_size s * 8) <=? sp_off s then Some (inr TooSmall)
  else match copyTo (mkspan [if value then 1 else 0] 1 0) s 1 with
       | Some b => Some (inl b)
       | None => None
       end.

Definition cpp_set_uxx (s : span) (value len_bits : N) : option (bytes + err) :=
  let capacity_bits := w64 (sp_size s * 8) in                                            (* current text, /repo ba46e0a *)
  if (capacity_bits <? sp_off s) || (capacity_bits - sp_off s <? len_bits) then Some (inr TooSmall)
  else
    let saturated := N.min len_bits 64 in
    match copyTo (mkspan (tmp_any (w64 value)) 8 0) s saturated with
    | Some b => Some (inl b)
    | None => None
    end.

Definition cpp_set_ixx (s : span) (value : Z) (len_bits : N) : option (bytes + err) :=
  cpp_set_uxx s (Z.to_N (value mod Z.of_N two64)) len_bits.

(* const_bitspan::getU8/16/32/64, getBit, getI8..I64 *)
Definition cpp_get_uxx (w : N) (s : span) (len_bits : N) : option N :=
  let bits := sp_saturate s (N.min len_bits w) in
  match copyTo s (mkspan (repeat 0 (N.to_nat (w / 8))) (w / 8) 0) bits with
  | Some tmp => Some (if w =? 8 then of_le_bytes tmp else or_shifts 0 tmp)
  | None => None
  end.

Definition cpp_get_bit (s : span) : option bool :=
  match cpp_get_uxx 8 s 1 with Some v => Some (v =? 1) | None => None end.

Definition cpp_get_ixx (w : N) (s : span) (len_bits : N) : option Z :=
  let sat := cast_u 8 (N.min len_bits w) in
  match cpp_get_uxx w s sat with
  | None => None
  | Some val => sext_expr w sat val
  end.

(* setF16/32/64, getF16/32/64 (float16Pack / float16Unpack are the C functions: Prims/F16.v) *)
Definition cpp_set_f16 (s : span) (bits32 : N) := cpp_set_uxx s (f16_pack (cast_u 32 bits32)) 16.
Definition cpp_set_f32 (s : span) (bits32 : N) := cpp_set_uxx s (cast_u 32 bits32) 32.
Definition cpp_set_f64 (s : span) (bits64 : N) := cpp_set_uxx s (cast_u 64 bits64) 64.
Definition cpp_get_f16 (s : span) := match cpp_get_uxx 16 s 16 with Some h => Some (f16_unpack h) | None => None end.
Definition cpp_get_f32 (s : span) := cpp_get_uxx 32 s 32.
Definition cpp_get_f64 (s : span) := cpp_get_uxx 64 s 64.
