(* More proofs about the Python model: aligned writes, padding, signed values, standard widths, and the Deserializer. *)
From Verif Require Import Bits CPrims CPrimsThm PyPrims PyPrimsThm.
Open Scope N_scope.

(* ---- slice assignment that fits is a splice ---- *)
Lemma assign_slice_fits b a x : a + blen x <= blen b ->
  assign_slice b a x = Some (firstn (N.to_nat a) b ++ x ++ skipn (N.to_nat (a + blen x)) b).
Proof.
  intros H. unfold assign_slice.
  replace (N.min (blen x) (blen b - N.min (blen b) a) =? blen x) with true by (symmetry; apply N.eqb_eq; lia). reflexivity.
Qed.

Lemma byte_at_assign b a x i : a + blen x <= blen b ->
  byte_at (firstn (N.to_nat a) b ++ x ++ skipn (N.to_nat (a + blen x)) b) i =
  if i <? a then byte_at b i else if i <? a + blen x then byte_at x (i - a) else byte_at b i.
Proof.
  intros H. pose proof (byte_at_splice b x a 0 (blen x) i ltac:(lia) H) as S.
  cbn [N.to_nat skipn] in S. unfold blen in S at 1. rewrite Nat2N.id, firstn_all in S. rewrite S.
  destruct (i <? a); [reflexivity|]. destruct (i <? a + blen x); [f_equal; lia|reflexivity].
Qed.

Theorem add_aligned_bytes_appends s x :
  Inv s -> bytes_ok (s_buf s) -> bytes_ok x -> s_off s mod 8 = 0 -> s_off s / 8 + blen x <= blen (s_buf s) ->
  exists s', add_aligned_bytes s x = Some s' /\ appended s s' (8 * blen x) (bit x).
Proof.
  intros HI Hok Hx Hal Hcap. unfold add_aligned_bytes. rewrite Hal, (ensure_writable_true s _ _ Hcap). cbn [N.eqb negb].
  rewrite assign_slice_fits by exact Hcap. eexists. split; [reflexivity|]. unfold appended. cbn [s_off s_buf].
  set (a := s_off s / 8) in *.
  split; [lia|]. split; [unfold blen in *; rewrite !app_length, firstn_length, skipn_length; lia|].
  split.
  { apply bytes_ok_byte_at. intros i. rewrite byte_at_assign by exact Hcap.
    destruct (i <? a); [apply bytes_ok_byte_at; exact Hok|]. destruct (i <? a + blen x); apply bytes_ok_byte_at; assumption. }
  intros p. unfold bit at 1. rewrite byte_at_assign by exact Hcap.
  destruct (N.ltb_spec (p / 8) a); destruct (N.ltb_spec p (s_off s)); try (subst a; lia); [reflexivity|].
  destruct (N.ltb_spec (p / 8) (a + blen x)); destruct (N.ltb_spec p (s_off s + 8 * blen x)); try (subst a; lia).
  - unfold bit. f_equal; [f_equal|]; subst a; lia.
  - apply HI. lia.
Qed.

Theorem add_aligned_unsigned_appends s value bits :
  Inv s -> bytes_ok (s_buf s) -> 1 <= bits -> s_off s mod 8 = 0 -> s_off s / 8 + (bits + 7) / 8 <= blen (s_buf s) ->
  exists s', add_aligned_unsigned s value bits = Some s' /\ appended s s' bits (N.testbit value).
Proof.
  intros HI Hok Hb Hal Hcap. unfold add_aligned_unsigned, unsigned_to_bytes. rewrite Hal. cbn [N.eqb negb].
  replace (bits <? 1) with false by (symmetry; apply N.ltb_ge; exact Hb).
  rewrite to_bytes_loop_le. set (nb := (bits + 7) / 8) in *. set (v := N.land value (2 ^ bits - 1)).
  assert (Hlen : blen (le_bytes (N.to_nat nb) v) = nb) by (unfold blen; rewrite le_bytes_length; lia).
  destruct (add_aligned_bytes_appends s (le_bytes (N.to_nat nb) v) HI Hok (le_bytes_ok _ _) Hal ltac:(rewrite Hlen; exact Hcap))
    as (s1 & E1 & (Ho1 & Hl1 & Hok1 & Hb1)).
  unfold add_aligned_bytes in E1. rewrite Hal, Hlen, (ensure_writable_true s _ _ Hcap) in E1. cbn [N.eqb negb] in E1.
  rewrite Hlen, (ensure_writable_true s _ _ Hcap). cbn [negb].
  destruct (assign_slice (s_buf s) (s_off s / 8) (le_bytes (N.to_nat nb) v)) as [b|]; [|discriminate].
  injection E1 as E1. eexists. split; [reflexivity|]. unfold appended. cbn [s_off s_buf]. subst s1. cbn [s_off s_buf] in *.
  split; [reflexivity|]. split; [exact Hl1|]. split; [exact Hok1|].
  intros p. rewrite Hb1. destruct (N.ltb_spec p (s_off s)); [reflexivity|].
  rewrite bit_le_bytes, Hlen. subst v. rewrite N.land_spec, pow2_minus1_ones, tb_ones.
  destruct (N.ltb_spec p (s_off s + 8 * nb)); destruct (N.ltb_spec p (s_off s + bits));
    destruct (N.ltb_spec (p - s_off s) (8 * N.of_nat (N.to_nat nb))); destruct (N.ltb_spec (p - s_off s) bits);
    try (subst nb; lia); cbn [andb]; rewrite ?andb_true_r, ?andb_false_r; reflexivity.
Qed.

(* two's complement argument of the signed methods *)
Lemma signed_arg_bits value bits k : 1 <= bits -> (- 2 ^ (Z.of_N bits - 1) <= value < 2 ^ (Z.of_N bits - 1))%Z -> k < bits ->
  N.testbit (signed_arg value bits) k = Z.testbit value (Z.of_N k).
Proof.
  intros Hb Hv Hk. unfold signed_arg.
  assert (HP : (2 ^ Z.of_N bits = 2 * 2 ^ (Z.of_N bits - 1))%Z) by (rewrite <- Z.pow_succ_r by lia; f_equal; lia).
  assert (HP0 : (0 < 2 ^ (Z.of_N bits - 1))%Z) by (apply Z.pow_pos_nonneg; lia).
  destruct (Z.ltb_spec value 0).
  - rewrite <- Z.testbit_of_N. rewrite Z2N.id by lia.
    rewrite <- (Z.mod_pow2_bits_low value (Z.of_N bits)) by lia.
    f_equal. apply (Z.mod_unique_pos value (2 ^ Z.of_N bits) (-1)); lia.
  - rewrite <- Z.testbit_of_N. rewrite Z2N.id by lia. reflexivity.
Qed.

Theorem add_signed_appends (aligned : bool) s value bits :
  Inv s -> bytes_ok (s_buf s) -> 2 <= bits -> (- 2 ^ (Z.of_N bits - 1) <= value < 2 ^ (Z.of_N bits - 1))%Z ->
  (if aligned then s_off s mod 8 = 0 /\ s_off s / 8 + (bits + 7) / 8 <= blen (s_buf s)
   else s_off s / 8 + (bits + 7) / 8 < blen (s_buf s)) ->
  exists s', (if aligned then add_aligned_signed s value bits else add_unaligned_signed s value bits) = Some s' /\
             appended s s' bits (fun k => Z.testbit value (Z.of_N k)).
Proof.
  intros HI Hok Hb Hv Hcap.
  assert (HP : (2 ^ Z.of_N bits = 2 * 2 ^ (Z.of_N bits - 1))%Z) by (rewrite <- Z.pow_succ_r by lia; f_equal; lia).
  assert (Hchk : ((value <? 0) && (2 ^ Z.of_N bits + value <? 0))%Z = false).
  { destruct (Z.ltb_spec value 0); [|reflexivity]. cbn [andb]. apply Z.ltb_ge. lia. }
  assert (Hext : forall s', appended s s' bits (N.testbit (signed_arg value bits)) -> appended s s' bits (fun k => Z.testbit value (Z.of_N k))).
  { intros s' (A & B & C & D). repeat split; try assumption. intros p. rewrite D.
    destruct (p <? s_off s); [reflexivity|]. destruct (N.ltb_spec p (s_off s + bits)); [|reflexivity].
    apply signed_arg_bits; lia. }
  destruct aligned.
  - destruct Hcap as [Hal Hcap]. unfold add_aligned_signed. replace (bits <? 2) with false by (symmetry; apply N.ltb_ge; exact Hb).
    rewrite Hchk. destruct (add_aligned_unsigned_appends s (signed_arg value bits) bits HI Hok ltac:(lia) Hal Hcap) as (s' & E & A).
    exists s'. split; [exact E|apply Hext; exact A].
  - unfold add_unaligned_signed. replace (bits <? 2) with false by (symmetry; apply N.ltb_ge; exact Hb).
    rewrite Hchk. destruct (add_unaligned_unsigned_appends s (signed_arg value bits) bits HI Hok ltac:(lia) Hcap) as (s' & E & A).
    exists s'. split; [exact E|apply Hext; exact A].
Qed.

(* ---- pad_to_alignment: the cursor moves to the next multiple, the buffer is unchanged (zeros are already there) ---- *)
Lemma upd_same b : forall i, upd b i (nth i b 0) = b.
Proof. induction b as [|x b IH]; intros [|i]; cbn; try reflexivity. f_equal. apply IH. Qed.

Lemma add_false_bit s : s_off s / 8 < blen (s_buf s) -> bytes_ok (s_buf s) ->
  add_unaligned_bit s false = Some (mkser (s_buf s) (s_off s + 1)).
Proof.
  intros Hcap Hok. unfold add_unaligned_bit, store_or. rewrite (rd_some (s_buf s)) by exact Hcap.
  rewrite N.shiftl_0_l, N.lor_0_r.
  rewrite store_some; [|pose proof (proj1 (bytes_ok_byte_at (s_buf s)) Hok (s_off s / 8)); lia|exact Hcap].
  unfold byte_at. rewrite upd_same. reflexivity.
Qed.

Lemma pad_loop_spec n fuel : forall s, 0 < n -> bytes_ok (s_buf s) ->
  let pad := (n - s_off s mod n) mod n in
  pad <= N.of_nat fuel -> (s_off s + pad + 7) / 8 <= blen (s_buf s) ->
  pad_loop fuel s n = Some (mkser (s_buf s) (s_off s + pad)).
Proof.
  induction fuel as [|f IH]; intros s Hn Hok pad Hf Hcap; pose proof (N.mod_lt (s_off s) n ltac:(lia)) as Hm.
  - cbn [pad_loop]. assert (pad = 0) by lia.
    assert (s_off s mod n = 0).
    { subst pad. destruct (N.eq_dec (s_off s mod n) 0); [assumption|]. rewrite N.mod_small in H by lia. lia. }
    rewrite H0. cbn [N.eqb]. rewrite H, N.add_0_r. destruct s; reflexivity.
  - cbn [pad_loop]. destruct (N.eqb_spec (s_off s mod n) 0) as [E|E].
    + assert (pad = 0) by (subst pad; rewrite E, N.sub_0_r; apply N.mod_same; lia). rewrite H, N.add_0_r. destruct s; reflexivity.
    + assert (Hp : pad = n - s_off s mod n) by (subst pad; apply N.mod_small; lia).
      rewrite add_false_bit by (assumption || lia).
      pose proof (N.div_mod (s_off s) n ltac:(lia)) as D.
      assert (Hm1 : (s_off s + 1) mod n = (s_off s mod n + 1) mod n).
      { rewrite (N.add_mod (s_off s) 1 n) by lia. destruct (N.eq_dec n 1) as [->|]; [rewrite !N.mod_1_r; reflexivity|].
        rewrite (N.mod_small 1 n) by lia. reflexivity. }
      rewrite (IH (mkser (s_buf s) (s_off s + 1)) Hn Hok); cbn [s_off s_buf].
      * f_equal. f_equal. rewrite Hm1, Hp.
        destruct (N.eq_dec (s_off s mod n + 1) n) as [E1|E1].
        -- rewrite E1, N.mod_same, N.sub_0_r, N.mod_same by lia. lia.
        -- rewrite (N.mod_small (s_off s mod n + 1) n) by lia. rewrite (N.mod_small (n - (s_off s mod n + 1)) n) by lia. lia.
      * rewrite Hm1. destruct (N.eq_dec (s_off s mod n + 1) n) as [E1|E1].
        -- rewrite E1, N.mod_same, N.sub_0_r, N.mod_same by lia. lia.
        -- rewrite (N.mod_small (s_off s mod n + 1) n) by lia. rewrite (N.mod_small (n - (s_off s mod n + 1)) n) by lia. lia.
      * rewrite Hm1. destruct (N.eq_dec (s_off s mod n + 1) n) as [E1|E1].
        -- rewrite E1, N.mod_same, N.sub_0_r, N.mod_same by lia. lia.
        -- rewrite (N.mod_small (s_off s mod n + 1) n) by lia. rewrite (N.mod_small (n - (s_off s mod n + 1)) n) by lia. lia.
Qed.

Theorem pad_to_alignment_spec s n :
  Inv s -> bytes_ok (s_buf s) -> 0 < n ->
  let pad := (n - s_off s mod n) mod n in
  (s_off s + pad + 7) / 8 <= blen (s_buf s) ->
  pad_to_alignment s n = Some (mkser (s_buf s) (s_off s + pad)) /\ (s_off s + pad) mod n = 0 /\
  Inv (mkser (s_buf s) (s_off s + pad)).
Proof.
  intros HI Hok Hn pad Hcap. unfold pad_to_alignment. destruct (N.eqb_spec n 0); [lia|].
  pose proof (N.mod_lt (s_off s) n ltac:(lia)) as Hm.
  assert (Hp : pad < n) by (subst pad; apply N.mod_lt; lia).
  split; [apply pad_loop_spec; try assumption; lia|]. split.
  - pose proof (N.div_mod (s_off s) n ltac:(lia)) as D. subst pad.
    destruct (N.eq_dec (s_off s mod n) 0) as [E|E].
    + rewrite E, N.sub_0_r, N.mod_same, N.add_0_r by lia. exact E.
    + rewrite (N.mod_small (n - s_off s mod n) n) by lia.
      replace (s_off s + (n - s_off s mod n)) with ((s_off s / n + 1) * n) by nia. apply N.mod_mul. lia.
  - intros p Hp'. cbn [s_off s_buf] in *. apply HI. lia.
Qed.

(* ---------------------------------------------------------------------------------------------
   Deserializer: every fetch returns the bits at the cursor of the zero-extended buffer *)
Lemma get_byte_is d i : get_byte d i = byte_at d i.
Proof. reflexivity. Qed.

Lemma fetch_unaligned_loop_spec n b : forall off right k,
  bytes_ok b -> right = off mod 8 -> 1 <= right ->
  bit (fetch_unaligned_loop n b off right (8 - right)) k = (k <? 8 * N.of_nat n) && bit b (off + k).
Proof.
  induction n as [|n IH]; intros off right k Hok Hr Hr1.
  - cbn [fetch_unaligned_loop]. rewrite bit_nil. destruct (N.ltb_spec k (8 * N.of_nat 0)); [lia|reflexivity].
  - cbn [fetch_unaligned_loop]. rewrite bit_cons.
    assert (Hr8 : right < 8) by (subst right; apply N.mod_lt; discriminate).
    destruct (N.ltb_spec k 8).
    + replace (k <? 8 * N.of_nat (S n)) with true by (symmetry; apply N.ltb_lt; lia). cbn [andb].
      change get_byte with byte_at. rewrite N.lor_spec, tb_shiftr, N.land_spec, tb_shiftl, tb_255.
      replace (k <? 8) with true by (symmetry; apply N.ltb_lt; assumption). rewrite andb_true_r.
      destruct (N.leb_spec (8 - right) k); cbn [andb].
      * rewrite (tb_byte (byte_at b (off / 8)) (k + right)) by (try (apply bytes_ok_byte_at; exact Hok); lia). cbn [orb].
        unfold bit. f_equal; [f_equal|]; subst right; lia.
      * rewrite orb_false_r. unfold bit. f_equal; [f_equal|]; subst right; lia.
    + rewrite IH by (assumption || (subst right; lia)).
      destruct (N.ltb_spec (k - 8) (8 * N.of_nat n)); destruct (N.ltb_spec k (8 * N.of_nat (S n))); try lia; cbn [andb]; try reflexivity.
      f_equal. lia.
Qed.

Lemma Forall_firstn' {A} (P : A -> Prop) (l : list A) : forall n, Forall P l -> Forall P (firstn n l).
Proof. induction l as [|x l IH]; intros [|n] H; cbn; try constructor; inversion H; subst; auto. Qed.
Lemma Forall_skipn' {A} (P : A -> Prop) (l : list A) : forall n, Forall P l -> Forall P (skipn n l).
Proof. induction l as [|x l IH]; intros [|n] H; cbn; auto. inversion H; subst; auto. Qed.

Lemma slice_bits b l r k : l <= r ->
  exists out, get_unsigned_slice b l r = Some out /\ blen out = r - l /\ (bytes_ok b -> bytes_ok out) /\
              bit out k = (k <? 8 * (r - l)) && bit b (8 * l + k).
Proof.
  intros Hlr. unfold get_unsigned_slice. replace (r <? l) with false by (symmetry; apply N.ltb_ge; exact Hlr).
  eexists. split; [reflexivity|].
  set (out := firstn (N.to_nat (r - l)) (skipn (N.to_nat l) b)).
  assert (Lo : (length out <= N.to_nat (r - l))%nat) by (subst out; rewrite firstn_length; lia).
  split; [unfold blen; rewrite app_length, repeat_length; lia|]. split.
  { intros Hok. unfold bytes_ok in *. apply Forall_app. split.
    - subst out. apply Forall_firstn', Forall_skipn'. exact Hok.
    - apply Forall_forall. intros x Hx. apply repeat_spec in Hx. subst. reflexivity. }
  unfold bit, byte_at.
  destruct (N.ltb_spec k (8 * (r - l))); cbn [andb].
  - destruct (Nat.lt_ge_cases (N.to_nat (k / 8)) (length out)) as [Hi|Hi].
    + rewrite app_nth1 by exact Hi. subst out. rewrite nth_firstn_lt by lia. rewrite nth_skipn_add.
      f_equal; [f_equal; lia|]. replace (8 * l + k) with (k + l * 8) by lia. rewrite N.mod_add by discriminate. reflexivity.
    + rewrite app_nth2 by exact Hi. rewrite nth_repeat. rewrite N.bits_0. symmetry.
      assert (Hlen : length out = Nat.min (N.to_nat (r - l)) (length b - N.to_nat l)) by (subst out; rewrite firstn_length, skipn_length; reflexivity).
      rewrite nth_overflow by lia. apply N.bits_0.
  - destruct (Nat.lt_ge_cases (N.to_nat (k / 8)) (length out)) as [Hi|Hi]; [lia|].
    rewrite app_nth2 by exact Hi. destruct (Nat.lt_ge_cases (N.to_nat (k / 8) - length out) (N.to_nat (r - l) - length out)).
    + rewrite nth_repeat. apply N.bits_0.
    + rewrite nth_overflow by (rewrite repeat_length; lia). apply N.bits_0.
Qed.

Theorem fetch_unaligned_bytes_spec d count :
  bytes_ok (d_buf d) ->
  exists out d', fetch_unaligned_bytes d count = Some (out, d') /\ d_buf d' = d_buf d /\ d_off d' = d_off d + 8 * count /\
    blen out = count /\ bytes_ok out /\ forall k, bit out k = (k <? 8 * count) && bit (d_buf d) (d_off d + k).
Proof.
  intros Hok. unfold fetch_unaligned_bytes.
  destruct (N.ltb_spec 0 count) as [Hc|Hc].
  - destruct (N.eqb_spec (d_off d mod 8) 0) as [Hal|Hal]; cbn [negb].
    + unfold fetch_aligned_bytes. rewrite Hal. cbn [N.eqb negb].
      destruct (slice_bits (d_buf d) (d_off d / 8) (d_off d / 8 + count) 0 ltac:(lia)) as (out & E & Hl & Hk & _).
      rewrite E. exists out. eexists. split; [reflexivity|]. cbn [d_buf d_off]. split; [reflexivity|]. split; [lia|].
      split; [lia|]. split; [apply Hk; exact Hok|]. intros k.
      destruct (slice_bits (d_buf d) (d_off d / 8) (d_off d / 8 + count) k ltac:(lia)) as (out' & E' & _ & _ & Hb).
      rewrite E in E'. injection E' as <-. rewrite Hb. replace (d_off d / 8 + count - d_off d / 8) with count by lia.
      replace (8 * (d_off d / 8) + k) with (d_off d + k) by lia. reflexivity.
    + eexists. eexists. split; [reflexivity|]. cbn [d_buf d_off]. split; [reflexivity|]. split; [reflexivity|].
      assert (Hr : 1 <= d_off d mod 8) by lia.
      assert (Hbits : forall k, bit (fetch_unaligned_loop (N.to_nat count) (d_buf d) (d_off d) (d_off d mod 8) (8 - d_off d mod 8)) k =
                                (k <? 8 * count) && bit (d_buf d) (d_off d + k)).
      { intros k. rewrite fetch_unaligned_loop_spec by (assumption || reflexivity). rewrite N2Nat.id. reflexivity. }
      assert (Hlen : forall n b off r l, length (fetch_unaligned_loop n b off r l) = n).
      { induction n as [|n IHn]; intros; cbn [fetch_unaligned_loop length]; [reflexivity|]. rewrite IHn. reflexivity. }
      split; [unfold blen; rewrite Hlen; lia|]. split; [|exact Hbits].
      assert (Hall : forall n off, bytes_ok (fetch_unaligned_loop n (d_buf d) off (d_off d mod 8) (8 - d_off d mod 8))).
      { induction n as [|n IHn]; intros off; cbn [fetch_unaligned_loop]; [constructor|]. constructor; [|apply IHn].
        apply lor_lt_256; [apply shiftr_byte_lt; apply bytes_ok_byte_at; exact Hok|apply land_255_lt]. }
      apply Hall.
  - assert (count = 0) by lia. subst count. exists [], d. split; [reflexivity|]. split; [reflexivity|]. split; [lia|].
    split; [reflexivity|]. split; [constructor|]. intros k. rewrite bit_nil. destruct (N.ltb_spec k (8 * 0)); [lia|reflexivity].
Qed.

(* _unsigned_from_bytes *)
Lemma from_bytes_loop_bit x : forall i n k, bytes_ok x ->
  N.testbit (from_bytes_loop x i n) k = (8 * i <=? k) && (k <? 8 * (i + N.of_nat n)) && bit x (k - 8 * i).
Proof.
  induction x as [|b t IH]; intros i n k Hok.
  - destruct n; cbn [from_bytes_loop]; rewrite N.bits_0, bit_nil; symmetry; apply andb_false_r.
  - destruct n as [|n].
    + cbn [from_bytes_loop]. rewrite N.bits_0. destruct (N.leb_spec (8 * i) k); destruct (N.ltb_spec k (8 * (i + N.of_nat 0))); try lia; reflexivity.
    + inversion Hok; subst. cbn [from_bytes_loop]. rewrite N.lor_spec, tb_shiftl, IH, bit_cons by assumption.
      replace (i * 8) with (8 * i) by lia.
      destruct (N.leb_spec (8 * i) k); destruct (N.leb_spec (8 * (i + 1)) k); destruct (N.ltb_spec (k - 8 * i) 8);
        destruct (N.ltb_spec k (8 * (i + 1 + N.of_nat n))); destruct (N.ltb_spec k (8 * (i + N.of_nat (S n))));
        try lia; cbn [andb orb]; rewrite ?orb_false_r; try reflexivity.
      * rewrite (tb_byte b (k - 8 * i)) by (assumption || lia). cbn [orb]. f_equal. lia.
      * rewrite (tb_byte b (k - 8 * i)) by (assumption || lia). reflexivity.
Qed.

Lemma unsigned_from_bytes_spec x bits : bytes_ok x -> 1 <= bits -> (bits + 7) / 8 <= blen x ->
  exists v, unsigned_from_bytes x bits = Some v /\ forall k, N.testbit v k = (k <? bits) && bit x k.
Proof.
  intros Hok Hb Hlen. unfold unsigned_from_bytes.
  replace (bits <? 1) with false by (symmetry; apply N.ltb_ge; exact Hb).
  set (nb := (bits + 7) / 8) in *. replace (blen x <? nb) with false by (symmetry; apply N.ltb_ge; exact Hlen).
  eexists. split; [reflexivity|]. intros k.
  rewrite N.lor_spec, from_bytes_loop_bit, tb_shiftl, N.land_spec by exact Hok.
  rewrite N2Nat.id. replace ((nb - 1) * 8) with (8 * (nb - 1)) by lia.
  assert (Hm : forall j, j < 8 -> N.testbit (if negb (bits mod 8 =? 0) then 2 ^ (bits mod 8) - 1 else 255) j =
                                   (8 * (nb - 1) + j <? bits)).
  { intros j Hj. destruct (N.eqb_spec (bits mod 8) 0); cbn [negb].
    - rewrite tb_255. destruct (N.ltb_spec j 8); destruct (N.ltb_spec (8 * (nb - 1) + j) bits); subst nb; try lia; reflexivity.
    - rewrite pow2_minus1_ones, tb_ones. destruct (N.ltb_spec j (bits mod 8)); destruct (N.ltb_spec (8 * (nb - 1) + j) bits); subst nb; try lia; reflexivity. }
  replace (8 * 0) with 0 by lia. rewrite N.sub_0_r, N.add_0_l.
  replace (0 <=? k) with true by (symmetry; apply N.leb_le; lia). cbn [andb].
  destruct (N.ltb_spec k (8 * (nb - 1))); destruct (N.leb_spec (8 * (nb - 1)) k); try lia; cbn [andb orb].
  - replace (k <? bits) with true by (symmetry; apply N.ltb_lt; subst nb; lia). rewrite orb_false_r. reflexivity.
  - destruct (N.ltb_spec (k - 8 * (nb - 1)) 8).
    + rewrite Hm by assumption. replace (8 * (nb - 1) + (k - 8 * (nb - 1))) with k by lia.
      unfold bit, byte_at. replace (k / 8) with (nb - 1) by lia. replace (k mod 8) with (k - 8 * (nb - 1)) by lia.
      rewrite andb_comm. reflexivity.
    + replace (k <? bits) with false by (symmetry; apply N.ltb_ge; subst nb; lia). cbn [andb].
      rewrite (tb_byte (nth (N.to_nat (nb - 1)) x 0)); [reflexivity| |lia].
      apply (proj1 (bytes_ok_byte_at x) Hok (nb - 1)).
Qed.

Theorem fetch_unaligned_unsigned_spec d bits :
  bytes_ok (d_buf d) -> 1 <= bits ->
  exists v d', fetch_unaligned_unsigned d bits = Some (v, d') /\ d_buf d' = d_buf d /\ d_off d' = d_off d + bits /\
    forall k, N.testbit v k = (k <? bits) && bit (d_buf d) (d_off d + k).
Proof.
  intros Hok Hb. unfold fetch_unaligned_unsigned. set (nb := (bits + 7) / 8).
  destruct (fetch_unaligned_bytes_spec d nb Hok) as (out & d1 & E & Hbuf & Hoff & Hlen & Hoko & Hbits).
  rewrite E. destruct (unsigned_from_bytes_spec out bits Hoko Hb ltac:(fold nb; lia)) as (v & Ev & Hv).
  rewrite Ev. exists v. eexists. split; [reflexivity|]. cbn [d_buf d_off]. split; [exact Hbuf|]. split; [rewrite Hoff; subst nb; lia|].
  intros k. rewrite Hv, Hbits. destruct (N.ltb_spec k bits); destruct (N.ltb_spec k (8 * nb)); try (subst nb; lia); reflexivity.
Qed.

Theorem fetch_aligned_unsigned_spec d bits :
  bytes_ok (d_buf d) -> 1 <= bits -> d_off d mod 8 = 0 ->
  exists v d', fetch_aligned_unsigned d bits = Some (v, d') /\ d_buf d' = d_buf d /\ d_off d' = d_off d + bits /\
    forall k, N.testbit v k = (k <? bits) && bit (d_buf d) (d_off d + k).
Proof.
  intros Hok Hb Hal. unfold fetch_aligned_unsigned. rewrite Hal. cbn [N.eqb negb]. set (nb := (bits + 7) / 8).
  destruct (slice_bits (d_buf d) (d_off d / 8) (d_off d / 8 + nb) 0 ltac:(lia)) as (out & E & Hl & Hk & _).
  rewrite E. destruct (unsigned_from_bytes_spec out bits (Hk Hok) Hb ltac:(fold nb; lia)) as (v & Ev & Hv).
  rewrite Ev. exists v. eexists. split; [reflexivity|]. cbn [d_buf d_off]. split; [reflexivity|]. split; [reflexivity|].
  intros k. rewrite Hv.
  destruct (slice_bits (d_buf d) (d_off d / 8) (d_off d / 8 + nb) k ltac:(lia)) as (out' & E' & _ & _ & Hbk).
  rewrite E in E'. injection E' as <-. rewrite Hbk. replace (8 * (d_off d / 8) + k) with (d_off d + k) by lia.
  destruct (N.ltb_spec k bits); destruct (N.ltb_spec k (8 * (d_off d / 8 + nb - d_off d / 8))); try (subst nb; lia); reflexivity.
Qed.

(* the signed reading is two's complement sign extension (the function proved for the C target) *)
Lemma to_signed_is_sign_extend u bits : 1 <= bits -> u < 2 ^ bits -> to_signed u bits = sign_extend bits u.
Proof.
  intros Hb Hu. unfold to_signed, sign_extend. replace (0 <? bits) with true by (symmetry; apply N.ltb_lt; lia). cbn [andb].
  rewrite (top_bit u bits ltac:(lia) Hu). reflexivity.
Qed.

Theorem fetch_signed_spec (aligned : bool) d bits :
  bytes_ok (d_buf d) -> 2 <= bits -> (aligned = true -> d_off d mod 8 = 0) ->
  exists u z d', (if aligned then fetch_aligned_unsigned d bits else fetch_unaligned_unsigned d bits) = Some (u, d') /\
    (if aligned then fetch_aligned_signed d bits else fetch_unaligned_signed d bits) = Some (z, d') /\
    z = sign_extend bits u /\ u < 2 ^ bits /\ d_off d' = d_off d + bits.
Proof.
  intros Hok Hb Hal.
  assert (Hgen : exists u d', (if aligned then fetch_aligned_unsigned d bits else fetch_unaligned_unsigned d bits) = Some (u, d') /\
                              d_off d' = d_off d + bits /\ forall k, N.testbit u k = (k <? bits) && bit (d_buf d) (d_off d + k)).
  { destruct aligned.
    - destruct (fetch_aligned_unsigned_spec d bits Hok ltac:(lia) (Hal eq_refl)) as (u & d' & E & _ & Ho & Hv). exists u, d'. auto.
    - destruct (fetch_unaligned_unsigned_spec d bits Hok ltac:(lia)) as (u & d' & E & _ & Ho & Hv). exists u, d'. auto. }
  destruct Hgen as (u & d' & E & Ho & Hv).
  assert (Hu : u < 2 ^ bits).
  { apply high_bits_lt. intros k Hk. rewrite Hv. replace (k <? bits) with false by (symmetry; apply N.ltb_ge; exact Hk). reflexivity. }
  exists u, (sign_extend bits u), d'. split; [exact E|]. split.
  - destruct aligned; [unfold fetch_aligned_signed|unfold fetch_unaligned_signed];
      replace (bits <? 2) with false by (symmetry; apply N.ltb_ge; exact Hb); rewrite E; rewrite to_signed_is_sign_extend by (lia || assumption); reflexivity.
  - auto.
Qed.

Theorem fetch_unaligned_bit_spec d :
  fetch_unaligned_bit d = (bit (d_buf d) (d_off d), mkdes (d_buf d) (d_off d + 1)).
Proof.
  unfold fetch_unaligned_bit. f_equal. rewrite N.shiftl_1_l, get_byte_is.
  pose proof (land_pow2_test (byte_at (d_buf d) (d_off d / 8)) (d_off d mod 8)) as H. unfold bit.
  destruct (N.testbit (byte_at (d_buf d) (d_off d / 8)) (d_off d mod 8)) eqn:Eb.
  - apply N.eqb_eq. apply N.bits_inj. intros k. rewrite N.land_spec, N.pow2_bits_eqb.
    destruct (N.eqb_spec (d_off d mod 8) k) as [<-|]; [rewrite Eb; reflexivity|apply andb_false_r].
  - apply negb_false_iff in H. apply N.eqb_eq in H. rewrite H. apply N.eqb_neq.
    intros Hc. assert (X : N.testbit (2 ^ (d_off d mod 8)) (d_off d mod 8) = false) by (rewrite <- Hc; apply N.bits_0).
    rewrite N.pow2_bits_true in X. discriminate.
Qed.
