(* The Python Serializer writers WITH the up-front capacity test of design_notes/C14_py_too_small_fix.patch
   (`_ensure_writable(first_byte, byte_count)`: raise ValueError unless first_byte + byte_count <= len(_buf), called by every
   writer that stores more than one element, before it touches the buffer).  Each function is `if <guard on the initial state> then <body of Prims/PyPrims.v> else None`,
   as in the patched source; None = the ValueError (nothing has been stored when it is raised).
   Prims/PyPrims.v remains the text currently in /repo, where a one-byte slice assignment past the end is silently dropped
   (finding F-PY-SER-SILENT-DROP) and the byte-wise writers fail only after having stored part of the value. *)
From Verif Require Export PyPrims PrimsExt.
Open Scope N_scope.

Definition ensure_writable (s : ser) (first_byte byte_count : N) : bool := first_byte + byte_count <=? blen (s_buf s).

Definition add_aligned_bytes_chk (s : ser) (x : bytes) : option ser :=
  if negb (s_off s mod 8 =? 0) then None
  else if ensure_writable s (s_off s / 8) (blen x) then add_aligned_bytes s x else None.

Definition add_aligned_array_of_bits_chk (s : ser) (x : list bool) : option ser :=
  if negb (s_off s mod 8 =? 0) then None
  else if ensure_writable s (s_off s / 8) (blen (packbits x)) then add_aligned_array_of_bits s x else None.

(* single-element stores need no test: NumPy raises IndexError before storing (PyPrims.store is None outside the buffer), so
   add_aligned_u8 and add_unaligned_bit are unchanged by the patch.
   u16/u32/u64 test their whole width first (inline in the source), so that nothing is stored when the value does not fit *)
Definition add_aligned_u16_chk (s : ser) (x : N) : option ser :=
  if ensure_writable s (s_off s / 8) 2 then add_aligned_u16 s x else None.
Definition add_aligned_u32_chk (s : ser) (x : N) : option ser :=
  if ensure_writable s (s_off s / 8) 4 then add_aligned_u32 s x else None.
Definition add_aligned_u64_chk (s : ser) (x : N) : option ser :=
  if ensure_writable s (s_off s / 8) 8 then add_aligned_u64 s x else None.

Definition add_aligned_unsigned_chk (s : ser) (value bit_length : N) : option ser :=
  if negb (s_off s mod 8 =? 0) then None
  else match unsigned_to_bytes value bit_length with
       | None => None
       | Some bs => if ensure_writable s (s_off s / 8) (blen bs) then add_aligned_unsigned s value bit_length else None
       end.

(* the byte loop also stores into the byte after the last one it fills: len(value) + 1 bytes *)
Definition add_unaligned_bytes_chk (s : ser) (value : bytes) : option ser :=
  match value with
  | [] => add_unaligned_bytes s value
  | _ => if ensure_writable s (s_off s / 8) (blen value + 1) then add_unaligned_bytes s value else None
  end.

Definition add_unaligned_unsigned_chk (s : ser) (value bit_length : N) : option ser :=
  match unsigned_to_bytes value bit_length with
  | None => None
  | Some bs =>
      match add_unaligned_bytes_chk s bs with
      | Some s' => Some (mkser (s_buf s') (s_off s' - (blen bs * 8 - bit_length)))
      | None => None
      end
  end.

Definition add_unaligned_array_of_bits_chk (s : ser) (x : list bool) : option ser :=
  let packed := packbits x in
  match add_unaligned_bytes_chk s packed with
  | Some s' => Some (mkser (s_buf s') (s_off s' - (blen packed * 8 - N.of_nat (length x))))
  | None => None
  end.

(* the signed writers and i16/i32/i64 call the unsigned ones *)
Definition add_aligned_signed_chk (s : ser) (value : Z) (bit_length : N) : option ser :=
  if bit_length <? 2 then None
  else if ((value <? 0) && (2 ^ Z.of_N bit_length + value <? 0))%Z then None
       else add_aligned_unsigned_chk s (signed_arg value bit_length) bit_length.
Definition add_unaligned_signed_chk (s : ser) (value : Z) (bit_length : N) : option ser :=
  if bit_length <? 2 then None
  else if ((value <? 0) && (2 ^ Z.of_N bit_length + value <? 0))%Z then None
       else add_unaligned_unsigned_chk s (signed_arg value bit_length) bit_length.
Definition add_aligned_ixx_chk (w : N) (s : ser) (x : Z) : option ser :=
  let v := if (x <? 0)%Z then (2 ^ Z.of_N w + x)%Z else x in
  if (v <? 0)%Z then None
  else let u := Z.to_N v in
       if w =? 8 then add_aligned_u8 s u else if w =? 16 then add_aligned_u16_chk s u
       else if w =? 32 then add_aligned_u32_chk s u else add_aligned_u64_chk s u.
