(* Algorithm-faithful model of the C support library
   src/nunavut/lang/c/support/serialization.j2 (function by function, rendered header
   nunavut/support/serialization.h).

   - Buffers are lists of bytes = the ALLOCATION the pointer points into; every byte access
     goes through rd / wr / memmove / memset0, which return None when the access falls outside
     the allocation (= C undefined behaviour).  `buf_size_bytes` is a separate argument, as in C.
   - size_t and uint64_t are 64 bits (LP64): every addition/multiplication of the C code that is
     performed in size_t is written through w64 (wrap modulo 2^64).  Subtractions that the code
     guards (a - min(a,b), last_bit - src_off inside `while (last_bit > src_off)`) cannot
     underflow and are plain.
   - unsigned int is 32 bits, unsigned long / unsigned long long are 64 bits; conversions to
     a signed type keep the value modulo 2^w (gcc/clang), cast_s.
   - `little : bool` selects the rendering with target_endianness = little (memory image of
     the integer object on a little-endian host); false = any / big (explicit byte arrays). *)
From Verif Require Export Bits F16.
Open Scope N_scope.

Require Coq.Strings.String. Import String.StringSyntax.
(* hash of the token-stream pin (tools/translators/gen_c14.py, the c/ lines of pins/c14c.txt: 12 renderings of serialization.h)
   of the header text this file, CPrimsW.v and F16.v model; Properties/C14.v requires Gen_Pin_c14c.pin_c14c_sha_c to be this one *)
Local Open Scope string_scope.
Definition modelled_c_header_sha : String.string := "12d92e113a102c1a00203435ab78d129".
Local Close Scope string_scope.

Definition two64 : N := 18446744073709551616.
Definition w64 (x : N) : N := x mod two64.

Definition blen (b : bytes) : N := N.of_nat (length b).

Definition rd (b : bytes) (i : N) : option N := nth_error b (N.to_nat i).

(* a store into a uint8_t object keeps the low 8 bits *)
Definition wr (b : bytes) (i : N) (v : N) : option bytes :=
  if i <? blen b then Some (upd b (N.to_nat i) (N.land v 255)) else None.

(* nunavutChooseMin *)
Definition choose_min (a b : N) : N := if a <? b then a else b.

(* nunavutSaturateBufferFragmentBitLength *)
Definition saturate_fragment (buffer_size_bytes fragment_offset_bits fragment_length_bits : N) : N :=
  let size_bits := w64 (buffer_size_bytes * 8) in
  let tail_bits := size_bits - choose_min size_bits fragment_offset_bits in
  choose_min fragment_length_bits tail_bits.

(* memmove(dst + d, src + s, n) for distinct objects *)
Definition memmove (dst : bytes) (d : N) (src : bytes) (s n : N) : option bytes :=
  if (s + n <=? blen src) && (d + n <=? blen dst)
  then Some (firstn (N.to_nat d) dst ++ firstn (N.to_nat n) (skipn (N.to_nat s) src) ++ skipn (N.to_nat (d + n)) dst)
  else None.

(* the `while (last_bit > src_off)` loop of nunavutCopyBits; fuel = number of bits *)
Fixpoint copy_loop (fuel : nat) (dst src : bytes) (src_off dst_off last_bit : N) : option bytes :=
  if last_bit <=? src_off then Some dst
  else
    match fuel with
    | O => None
    | S f =>
        let src_mod := src_off mod 8 in
        let dst_mod := dst_off mod 8 in
        let max_mod := if dst_mod <? src_mod then src_mod else dst_mod in
        let size := choose_min (8 - max_mod) (last_bit - src_off) in
        let mask := N.land (N.shiftl (2 ^ size - 1) dst_mod) 255 in
        match rd src (src_off / 8), rd dst (dst_off / 8) with
        | Some s, Some d =>
            let inb := N.land (N.shiftl (N.land (N.shiftr s src_mod) 255) dst_mod) 255 in
            let a := N.land d (N.lxor mask 255) in
            let b := N.land inb mask in
            match wr dst (dst_off / 8) (N.lor a b) with
            | Some dst' => copy_loop f dst' src (w64 (src_off + size)) (w64 (dst_off + size)) last_bit
            | None => None
            end
        | _, _ => None
        end
    end.

(* nunavutCopyBits(dst, dst_offset_bits, length_bits, src, src_offset_bits) *)
Definition copy_bits (dst : bytes) (dst_offset_bits length_bits : N) (src : bytes) (src_offset_bits : N) : option bytes :=
  if (src_offset_bits mod 8 =? 0) && (dst_offset_bits mod 8 =? 0) then
    let length_bytes := length_bits / 8 in
    let ps := src_offset_bits / 8 in
    let pd := dst_offset_bits / 8 in
    match (if 0 <? length_bytes then memmove dst pd src ps length_bytes else Some dst) with
    | None => None
    | Some dst1 =>
        let length_mod := length_bits mod 8 in
        if negb (length_mod =? 0) then
          let mask := 2 ^ length_mod - 1 in
          match rd dst1 (pd + length_bytes), rd src (ps + length_bytes) with
          | Some ld, Some ls => wr dst1 (pd + length_bytes) (N.lor (N.land ld (N.lxor mask 255)) (N.land ls mask))
          | _, _ => None
          end
        else Some dst1
    end
  else copy_loop (N.to_nat length_bits) dst src src_offset_bits dst_offset_bits (w64 (src_offset_bits + length_bits)).

(* memset(b + from, 0, n) *)
Definition memset0 (b : bytes) (from n : N) : option bytes :=
  if from + n <=? blen b
  then Some (firstn (N.to_nat from) b ++ repeat 0 (N.to_nat n) ++ skipn (N.to_nat (from + n)) b)
  else None.

(* nunavutGetBits(output, buf, buf_size_bytes, off_bits, len_bits) *)
Definition get_bits (output buf : bytes) (buf_size_bytes off_bits len_bits : N) : option bytes :=
  let sat_bits := saturate_fragment buf_size_bytes off_bits len_bits in
  match memset0 output (sat_bits / 8) (w64 (len_bits + 7) / 8 - sat_bits / 8) with
  | None => None
  | Some o => copy_bits o 0 sat_bits buf off_bits
  end.

(* ---- integer objects and byte arrays ---- *)
(* generic little-endian byte image (used by the specifications) *)
Definition le_bytes (n : nat) (v : N) : bytes :=
  map (fun k => N.land (N.shiftr v (8 * N.of_nat k)) 255) (seq 0 n).

(* value of an unsigned integer object whose little-endian memory image is b *)
Definition of_le_bytes (b : bytes) : N :=
  fold_right (fun x acc => N.lor x (N.shiftl acc 8)) 0 b.

(* memory image of an n-byte unsigned integer object on a little-endian host (target_endianness little:
   the address of `value` reinterpreted as a pointer to bytes) *)
Fixpoint mem_le (n : nat) (v : N) : bytes :=
  match n with O => [] | S m => v mod 256 :: mem_le m (v / 256) end.

(* the explicit array of nunavutSetUxx (target_endianness any / big) *)
Definition tmp_any (value : N) : bytes :=
  [ N.land (N.shiftr value 0) 255;  N.land (N.shiftr value 8) 255;
    N.land (N.shiftr value 16) 255; N.land (N.shiftr value 24) 255;
    N.land (N.shiftr value 32) 255; N.land (N.shiftr value 40) 255;
    N.land (N.shiftr value 48) 255; N.land (N.shiftr value 56) 255 ].

(* tmp[0] | (tmp[1] << 8) | ... of nunavutGetU16/32/64 (target_endianness any / big) *)
Fixpoint or_shifts (k : N) (tmp : bytes) : N :=
  match tmp with [] => 0 | b :: t => N.lor (N.shiftl b (8 * k)) (or_shifts (k + 1) t) end.

Inductive err := TooSmall.

(* nunavutSetUxx(buf, buf_size_bytes, off_bits, value, len_bits); value : uint64_t.  CURRENT text (/repo ba46e0a):
     const size_t capacity_bits = buf_size_bytes * 8U;
     if ((off_bits > capacity_bits) || (len_bits > (capacity_bits - off_bits))) return -BUFFER_TOO_SMALL;
   (the text before that commit, `(buf_size_bytes * 8) < (off_bits + len_bits)` with a wrapping sum, is History/C14_history.v) *)
Definition set_uxx (little : bool) (buf : bytes) (buf_size_bytes off_bits value len_bits : N) : option (bytes + err) :=
  let capacity_bits := w64 (buf_size_bytes * 8) in
  if (capacity_bits <? off_bits) || (capacity_bits - off_bits <? len_bits) then Some (inr TooSmall)
  else
    let saturated := choose_min len_bits 64 in
    let tmp := if little then mem_le 8 (w64 value) else tmp_any (w64 value) in
    match copy_bits buf off_bits saturated tmp 0 with
    | Some b => Some (inl b)
    | None => None
    end.

(* nunavutSetIxx: (uint64_t) value *)
Definition set_ixx (little : bool) (buf : bytes) (buf_size_bytes off_bits : N) (value : Z) (len_bits : N) : option (bytes + err) :=
  set_uxx little buf buf_size_bytes off_bits (Z.to_N (value mod Z.of_N two64)) len_bits.

(* nunavutSetBit *)
Definition set_bit (buf : bytes) (buf_size_bytes off_bits : N) (value : bool) : option (bytes + err) :=
  if w64 (buf_size_bytes * 8) <=? off_bits then Some (inr TooSmall)
  else match copy_bits buf off_bits 1 [if value then 1 else 0] 0 with
       | Some b => Some (inl b)
       | None => None
       end.

(* nunavutGetU8/16/32/64 (w = 8, 16, 32, 64): copy into a zeroed w/8-byte object, then read it *)
Definition get_uxx (little : bool) (w : N) (buf : bytes) (buf_size_bytes off_bits len_bits : N) : option N :=
  let bits := saturate_fragment buf_size_bytes off_bits (choose_min len_bits w) in
  match copy_bits (repeat 0 (N.to_nat (w / 8))) 0 bits buf off_bits with
  | Some tmp => Some (if little || (w =? 8) then of_le_bytes tmp else or_shifts 0 tmp)
  | None => None
  end.

(* nunavutGetBit *)
Definition get_bit (little : bool) (buf : bytes) (buf_size_bytes off_bits : N) : option bool :=
  match get_uxx little 8 buf buf_size_bytes off_bits 1 with
  | Some v => Some (v =? 1)
  | None => None
  end.

(* C conversions *)
Definition cast_u (w x : N) : N := x mod 2 ^ w.
Definition cast_s (w : N) (x : Z) : Z :=
  let m := (x mod 2 ^ Z.of_N w)%Z in if (m <? 2 ^ (Z.of_N w - 1))%Z then m else (m - 2 ^ Z.of_N w)%Z.
Definition lnot_u (w x : N) : N := N.lxor (cast_u w x) (N.ones w).

(* nunavutGetI8/16/32/64, the C expressions one by one:
     const uint8_t sat = (uint8_t) nunavutChooseMin(len_bits, w);
     uintw_t val = nunavutGetUw(buf, buf_size_bytes, off_bits, sat);
     const bool neg = (sat > 0U) && ((val & (1ULL << (sat - 1U))) != 0U);
     val = ((sat < w) && neg) ? (uintw_t)(val | ~((1U << sat) - 1U)) : val;     [1U: w<=16, 1UL: w=32, 1ULL: w=64]
     return neg ? (intw_t)((-(intw_t)(uintw_t) ~val) - 1) : (intw_t) val;
   pw = width at which `~((1 << sat) - 1)` is evaluated, iw = width of the int arithmetic of `-x - 1`;
   signed overflow in `-x` is undefined behaviour (None). *)
Definition sext_expr (w sat val : N) : option Z :=
  let pw := if w <=? 16 then 32 else 64 in
  let iw := if w <=? 32 then 32 else 64 in
  let neg := (0 <? sat) && negb (N.land val (cast_u 64 (N.shiftl 1 (sat - 1))) =? 0) in
  let val' := if (sat <? w) && neg
              then cast_u w (N.lor val (lnot_u pw (cast_u pw (N.shiftl 1 sat) - 1)))
              else val in
  if neg then
    let x := cast_s w (Z.of_N (lnot_u w val')) in
    if (x =? - 2 ^ (Z.of_N iw - 1))%Z then None
    else Some (cast_s w (- x - 1))
  else Some (cast_s w (Z.of_N val')).

Definition get_ixx (little : bool) (w : N) (buf : bytes) (buf_size_bytes off_bits len_bits : N) : option Z :=
  let sat := cast_u 8 (choose_min len_bits w) in
  match get_uxx little w buf buf_size_bytes off_bits sat with
  | None => None
  | Some val => sext_expr w sat val
  end.

(* nunavutSetF32 / SetF64 / GetF32 / GetF64 move the IEEE-754 bit pattern of the object (union pun) *)
Definition set_f32 (little : bool) buf size off (bits32 : N) := set_uxx little buf size off (cast_u 32 bits32) 32.
Definition set_f64 (little : bool) buf size off (bits64 : N) := set_uxx little buf size off (cast_u 64 bits64) 64.
Definition get_f32 (little : bool) buf size off := get_uxx little 32 buf size off 32.
Definition get_f64 (little : bool) buf size off := get_uxx little 64 buf size off 64.

(* nunavutSetF16 / GetF16: conversion through nunavutFloat16Pack / Unpack (Prims/F16.v), the float argument/result
   given by its binary32 bit pattern *)
Definition set_f16 (little : bool) buf size off (bits32 : N) := set_uxx little buf size off (f16_pack (cast_u 32 bits32)) 16.
Definition get_f16 (little : bool) buf size off :=
  match get_uxx little 16 buf size off 16 with Some h => Some (f16_unpack h) | None => None end.
