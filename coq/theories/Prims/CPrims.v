(* Algorithm-faithful model of the C support library
   src/nunavut/lang/c/support/serialization.j2 (function by function).
   Buffers are lists of bytes; an access outside a buffer is None (= C undefined behaviour).
   Offsets/lengths are size_t in C: the model uses unbounded N and every theorem carries
   the no-wrap precondition (offset + length < 2^64) explicitly. *)
From Verif Require Export Bits.
Open Scope N_scope.

Definition blen (b : bytes) : N := N.of_nat (length b).

Definition rd (b : bytes) (i : N) : option N := nth_error b (N.to_nat i).

(* a store into a uint8_t object keeps the low 8 bits *)
Definition wr (b : bytes) (i : N) (v : N) : option bytes :=
  if i <? blen b then Some (upd b (N.to_nat i) (N.land v 255)) else None.

(* nunavutChooseMin *)
Definition choose_min (a b : N) : N := if a <? b then a else b.

(* nunavutSaturateBufferFragmentBitLength *)
Definition saturate_fragment (buffer_size_bytes fragment_offset_bits fragment_length_bits : N) : N :=
  let size_bits := buffer_size_bytes * 8 in
  let tail_bits := size_bits - choose_min size_bits fragment_offset_bits in
  choose_min fragment_length_bits tail_bits.

(* memmove(dst + d, src + s, n) for distinct buffers *)
Definition memmove (dst : bytes) (d : N) (src : bytes) (s n : N) : option bytes :=
  if (s + n <=? blen src) && (d + n <=? blen dst)
  then Some (firstn (N.to_nat d) dst ++ firstn (N.to_nat n) (skipn (N.to_nat s) src) ++ skipn (N.to_nat (d + n)) dst)
  else None.

(* the `while (last_bit > src_off)` loop of nunavutCopyBits; fuel = number of bits *)
Fixpoint copy_loop (fuel : nat) (dst src : bytes) (src_off dst_off last_bit : N) : option bytes :=
  if last_bit <=? src_off then Some dst
  else
    match fuel with
    | O => None
    | S f =>
        let src_mod := src_off mod 8 in
        let dst_mod := dst_off mod 8 in
        let max_mod := if dst_mod <? src_mod then src_mod else dst_mod in
        let size := choose_min (8 - max_mod) (last_bit - src_off) in
        let mask := N.land (N.shiftl (2 ^ size - 1) dst_mod) 255 in
        match rd src (src_off / 8), rd dst (dst_off / 8) with
        | Some s, Some d =>
            let inb := N.land (N.shiftl (N.land (N.shiftr s src_mod) 255) dst_mod) 255 in
            let a := N.land d (N.lxor mask 255) in
            let b := N.land inb mask in
            match wr dst (dst_off / 8) (N.lor a b) with
            | Some dst' => copy_loop f dst' src (src_off + size) (dst_off + size) last_bit
            | None => None
            end
        | _, _ => None
        end
    end.

(* nunavutCopyBits(dst, dst_offset_bits, length_bits, src, src_offset_bits) *)
Definition copy_bits (dst : bytes) (dst_offset_bits length_bits : N) (src : bytes) (src_offset_bits : N) : option bytes :=
  if (src_offset_bits mod 8 =? 0) && (dst_offset_bits mod 8 =? 0) then
    let length_bytes := length_bits / 8 in
    let ps := src_offset_bits / 8 in
    let pd := dst_offset_bits / 8 in
    match (if 0 <? length_bytes then memmove dst pd src ps length_bytes else Some dst) with
    | None => None
    | Some dst1 =>
        let length_mod := length_bits mod 8 in
        if negb (length_mod =? 0) then
          let mask := 2 ^ length_mod - 1 in
          match rd dst1 (pd + length_bytes), rd src (ps + length_bytes) with
          | Some ld, Some ls => wr dst1 (pd + length_bytes) (N.lor (N.land ld (N.lxor mask 255)) (N.land ls mask))
          | _, _ => None
          end
        else Some dst1
    end
  else copy_loop (N.to_nat length_bits) dst src src_offset_bits dst_offset_bits (src_offset_bits + length_bits).

(* nunavutGetBits(output, buf, buf_size_bytes, off_bits, len_bits): output has (len_bits+7)/8 bytes *)
Definition memset0 (b : bytes) (from n : N) : option bytes :=
  if from + n <=? blen b
  then Some (firstn (N.to_nat from) b ++ repeat 0 (N.to_nat n) ++ skipn (N.to_nat (from + n)) b)
  else None.

Definition get_bits (output buf : bytes) (off_bits len_bits : N) : option bytes :=
  let sat_bits := saturate_fragment (blen buf) off_bits len_bits in
  match memset0 output (sat_bits / 8) ((len_bits + 7) / 8 - sat_bits / 8) with
  | None => None
  | Some o => copy_bits o 0 sat_bits buf off_bits
  end.

(* little-endian memory image of a 64-bit value / the explicit tmp[] array: identical lists,
   which is exactly why target_endianness little and any/big agree on a little-endian host *)
Definition le_bytes (n : nat) (v : N) : bytes :=
  map (fun k => N.land (N.shiftr v (8 * N.of_nat k)) 255) (seq 0 n).

Definition of_le_bytes (b : bytes) : N :=
  fold_right (fun x acc => N.lor x (N.shiftl acc 8)) 0 b.

Inductive err := TooSmall.

(* nunavutSetUxx: value is a uint64_t *)
Definition set_uxx (buf : bytes) (off_bits value len_bits : N) : option (bytes + err) :=
  if blen buf * 8 <? off_bits + len_bits then Some (inr TooSmall)
  else
    let saturated := choose_min len_bits 64 in
    match copy_bits buf off_bits saturated (le_bytes 8 (value mod 2 ^ 64)) 0 with
    | Some b => Some (inl b)
    | None => None
    end.

(* nunavutSetBit *)
Definition set_bit (buf : bytes) (off_bits : N) (value : bool) : option (bytes + err) :=
  if blen buf * 8 <=? off_bits then Some (inr TooSmall)
  else match copy_bits buf off_bits 1 [if value then 1 else 0] 0 with
       | Some b => Some (inl b)
       | None => None
       end.

(* nunavutGetU8/16/32/64: w = 8, 16, 32, 64; the result is read back from a zeroed w/8-byte temporary *)
Definition get_uxx (w : N) (buf : bytes) (off_bits len_bits : N) : option N :=
  let bits := saturate_fragment (blen buf) off_bits (choose_min len_bits w) in
  match copy_bits (repeat 0 (N.to_nat (w / 8))) 0 bits buf off_bits with
  | Some tmp => Some (of_le_bytes tmp)
  | None => None
  end.

(* nunavutGetI8/16/32/64 with the C expression spelled out on w-bit unsigned values:
   val | ~((1 << sat) - 1) truncated to w bits; result = neg ? -(intw)(~val) - 1 : (intw) val *)
Definition get_ixx (w : N) (buf : bytes) (off_bits len_bits : N) : option Z :=
  let sat := choose_min len_bits w in
  match get_uxx w buf off_bits sat with
  | None => None
  | Some val =>
      let neg := (0 <? sat) && negb (N.land val (N.shiftl 1 (sat - 1)) =? 0) in
      let val' := if (sat <? w) && neg then N.lor val (N.lxor (2 ^ sat - 1) (2 ^ w - 1)) else val in
      Some (if neg then (- Z.of_N (N.lxor val' (2 ^ w - 1)) - 1)%Z else Z.of_N val')
  end.
