(* "Reports a too-small buffer instead of overrunning it" for the Python Serializer.
   Part 1 (patched text, Prims/PyPrimsChk.v): every writer is TOTAL on every state with the invariant - either the buffer has room
   and exactly the value's bits are appended, or the up-front test fails and the error is raised (None) before anything is stored.
   Part 2 (text currently in /repo, Prims/PyPrims.v): the statement is refuted - a one-byte aligned slice write at or past the end
   of the buffer succeeds, stores nothing and advances the cursor - and the strongest true statement is given (only one-byte
   slice sources are dropped; longer ones and the single-element stores raise). *)
From Verif Require Import Bits CPrims CPrimsThm PyPrims PyPrimsThm PyPrimsMoreThm PyPrimsStdThm PyPrimsBitsThm PrimsExt PrimsExtThm PyPrimsChk.
Open Scope N_scope.

(* ---------------------------------------------------------------------------------------------  part 1 *)
Theorem add_aligned_bytes_chk_total s x :
  Inv s -> bytes_ok (s_buf s) -> bytes_ok x -> s_off s mod 8 = 0 ->
  if s_off s / 8 + blen x <=? blen (s_buf s)
  then exists s', add_aligned_bytes_chk s x = Some s' /\ appended s s' (8 * blen x) (bit x)
  else add_aligned_bytes_chk s x = None.
Proof.
  intros HI Hok Hx Hal. unfold add_aligned_bytes_chk, ensure_writable. rewrite Hal. cbn [N.eqb negb].
  destruct (N.leb_spec (s_off s / 8 + blen x) (blen (s_buf s))); [|reflexivity].
  apply add_aligned_bytes_appends; assumption.
Qed.

Theorem add_aligned_unsigned_chk_total s value bits :
  Inv s -> bytes_ok (s_buf s) -> 1 <= bits -> s_off s mod 8 = 0 ->
  if s_off s / 8 + (bits + 7) / 8 <=? blen (s_buf s)
  then exists s', add_aligned_unsigned_chk s value bits = Some s' /\ appended s s' bits (N.testbit (value mod 2 ^ bits))
  else add_aligned_unsigned_chk s value bits = None.
Proof.
  intros HI Hok Hb Hal. unfold add_aligned_unsigned_chk, ensure_writable. rewrite Hal. cbn [N.eqb negb].
  destruct (unsigned_to_bytes_spec value bits Hb) as (bs & E & L & _). rewrite E, L.
  destruct (N.leb_spec (s_off s / 8 + (bits + 7) / 8) (blen (s_buf s))); [|reflexivity].
  destruct (unsigned_writers_truncate true s value bits HI Hok Hb (conj Hal H)) as (s' & E' & A & _). exists s'. auto.
Qed.

Theorem add_aligned_array_of_bits_chk_total s x :
  Inv s -> bytes_ok (s_buf s) -> s_off s mod 8 = 0 ->
  if s_off s / 8 + (N.of_nat (length x) + 7) / 8 <=? blen (s_buf s)
  then exists s', add_aligned_array_of_bits_chk s x = Some s' /\ appended s s' (N.of_nat (length x)) (nthb x)
  else add_aligned_array_of_bits_chk s x = None.
Proof.
  intros HI Hok Hal. unfold add_aligned_array_of_bits_chk, ensure_writable. rewrite Hal. cbn [N.eqb negb].
  destruct (packbits_spec x) as (_ & L & _). rewrite L.
  destruct (N.leb_spec (s_off s / 8 + (N.of_nat (length x) + 7) / 8) (blen (s_buf s))); [|reflexivity].
  apply add_aligned_array_of_bits_appends; assumption.
Qed.

(* single-element stores: unchanged by the patch, NumPy's IndexError is raised before the store *)
Theorem add_aligned_u8_total s x :
  Inv s -> bytes_ok (s_buf s) -> x <= 255 -> s_off s mod 8 = 0 ->
  if s_off s / 8 <? blen (s_buf s)
  then exists s', add_aligned_u8 s x = Some s' /\ appended s s' 8 (N.testbit x)
  else add_aligned_u8 s x = None.
Proof.
  intros HI Hok Hx Hal. destruct (N.ltb_spec (s_off s / 8) (blen (s_buf s))).
  - apply add_aligned_u8_appends; assumption.
  - unfold add_aligned_u8, store. rewrite Hal. cbn [N.eqb negb].
    destruct (255 <? x); [reflexivity|]. replace (s_off s / 8 <? blen (s_buf s)) with false by (symmetry; apply N.ltb_ge; exact H). reflexivity.
Qed.

Theorem add_unaligned_bit_total s x :
  Inv s -> bytes_ok (s_buf s) ->
  if s_off s / 8 <? blen (s_buf s)
  then exists s', add_unaligned_bit s x = Some s' /\ appended s s' 1 (fun _ => x)
  else add_unaligned_bit s x = None.
Proof.
  intros HI Hok. destruct (N.ltb_spec (s_off s / 8) (blen (s_buf s))).
  - apply add_unaligned_bit_appends; assumption.
  - unfold add_unaligned_bit, store_or, rd. replace (nth_error (s_buf s) (N.to_nat (s_off s / 8))) with (@None N); [reflexivity|].
    symmetry. apply nth_error_None. unfold blen in H. lia.
Qed.

Theorem add_aligned_u16_u32_u64_chk_total s x :
  Inv s -> bytes_ok (s_buf s) -> s_off s mod 8 = 0 ->
  (if s_off s / 8 + 2 <=? blen (s_buf s)
   then exists s', add_aligned_u16_chk s x = Some s' /\ appended s s' 16 (N.testbit x) else add_aligned_u16_chk s x = None) /\
  (if s_off s / 8 + 4 <=? blen (s_buf s)
   then exists s', add_aligned_u32_chk s x = Some s' /\ appended s s' 32 (N.testbit x) else add_aligned_u32_chk s x = None) /\
  (if s_off s / 8 + 8 <=? blen (s_buf s)
   then exists s', add_aligned_u64_chk s x = Some s' /\ appended s s' 64 (N.testbit x) else add_aligned_u64_chk s x = None).
Proof.
  intros HI Hok Hal. unfold add_aligned_u16_chk, add_aligned_u32_chk, add_aligned_u64_chk, ensure_writable.
  split; [|split].
  - destruct (N.leb_spec (s_off s / 8 + 2) (blen (s_buf s))); [apply add_aligned_u16_appends; assumption|reflexivity].
  - destruct (N.leb_spec (s_off s / 8 + 4) (blen (s_buf s))); [apply add_aligned_u32_appends; assumption|reflexivity].
  - destruct (N.leb_spec (s_off s / 8 + 8) (blen (s_buf s))); [apply add_aligned_u64_appends; assumption|reflexivity].
Qed.

Theorem add_unaligned_bytes_chk_total s value :
  Inv s -> bytes_ok (s_buf s) -> bytes_ok value ->
  if (blen value =? 0) || (s_off s / 8 + (blen value + 1) <=? blen (s_buf s))
  then exists s', add_unaligned_bytes_chk s value = Some s' /\ appended s s' (8 * blen value) (bit value)
  else add_unaligned_bytes_chk s value = None.
Proof.
  intros HI Hok Hv. unfold add_unaligned_bytes_chk, ensure_writable. destruct value as [|b t].
  - cbn [blen length N.of_nat N.eqb orb]. apply add_unaligned_bytes_appends; auto.
  - replace (blen (b :: t) =? 0) with false by (symmetry; apply N.eqb_neq; unfold blen; cbn [length]; lia). cbn [orb].
    destruct (N.leb_spec (s_off s / 8 + (blen (b :: t) + 1)) (blen (s_buf s))); [|reflexivity].
    apply add_unaligned_bytes_appends; try assumption. left. lia.
Qed.

Theorem add_unaligned_unsigned_chk_total s value bits :
  Inv s -> bytes_ok (s_buf s) -> 1 <= bits ->
  if s_off s / 8 + ((bits + 7) / 8 + 1) <=? blen (s_buf s)
  then exists s', add_unaligned_unsigned_chk s value bits = Some s' /\ appended s s' bits (N.testbit (value mod 2 ^ bits))
  else add_unaligned_unsigned_chk s value bits = None.
Proof.
  intros HI Hok Hb. unfold add_unaligned_unsigned_chk.
  destruct (unsigned_to_bytes_spec value bits Hb) as (bs & E & L & K & _). rewrite E.
  pose proof (add_unaligned_bytes_chk_total s bs HI Hok K) as X. rewrite L in X.
  replace ((bits + 7) / 8 =? 0) with false in X by (symmetry; apply N.eqb_neq; lia). cbn [orb] in X.
  destruct (N.leb_spec (s_off s / 8 + ((bits + 7) / 8 + 1)) (blen (s_buf s))) as [Hc|Hc].
  - assert (Hcap : s_off s / 8 + (bits + 7) / 8 < blen (s_buf s)) by lia.
    destruct (unsigned_writers_truncate false s value bits HI Hok Hb Hcap) as (s' & E' & A & _).
    exists s'. split; [|exact A]. destruct X as (s1 & E1 & _).
    unfold add_unaligned_unsigned in E'. rewrite E in E'. unfold add_unaligned_bytes_chk, ensure_writable in E1.
    destruct bs as [|b0 t0]; [unfold blen in L; cbn in L; lia|].
    rewrite L in E1. replace (s_off s / 8 + ((bits + 7) / 8 + 1) <=? blen (s_buf s)) with true in E1 by (symmetry; apply N.leb_le; lia).
    unfold add_unaligned_bytes_chk, ensure_writable. rewrite L.
    replace (s_off s / 8 + ((bits + 7) / 8 + 1) <=? blen (s_buf s)) with true by (symmetry; apply N.leb_le; lia).
    rewrite E1 in E'. rewrite E1. rewrite L in E'. exact E'.
  - rewrite X. reflexivity.
Qed.

(* ---------------------------------------------------------------------------------------------  part 2: the text currently in /repo *)
(* the full statement is false of the current text: 3-byte buffer, cursor at its end (bit 24): add_aligned_bytes([0x77]),
   add_aligned_unsigned(5, 3) and add_aligned_array_of_bits([1,0,1]) succeed, store nothing and advance the cursor *)
Theorem py_one_byte_at_end_refuted :
  exists s, Inv s /\ bytes_ok (s_buf s) /\ s_off s mod 8 = 0 /\ blen (s_buf s) < s_off s / 8 + 1 /\
    add_aligned_bytes s [119] = Some (mkser (s_buf s) (s_off s + 8)) /\
    add_aligned_unsigned s 5 3 = Some (mkser (s_buf s) (s_off s + 3)) /\
    add_aligned_array_of_bits s [true; false; true] = Some (mkser (s_buf s) (s_off s + 3)).
Proof.
  exists (mkser [0; 0; 0] 24). split; [intros p _; apply (bit_repeat0 3)|]. split; [apply (bytes_ok_repeat0 3)|].
  vm_compute. repeat split.
Qed.

(* the strongest true statement about the current text: a slice source of two or more bytes that does not fit raises *)
Theorem py_current_too_small_partial s x :
  s_off s mod 8 = 0 -> blen (s_buf s) < s_off s / 8 + blen x -> 2 <= blen x -> add_aligned_bytes s x = None.
Proof.
  intros Hal Hc Hx. unfold add_aligned_bytes, assign_slice. rewrite Hal. cbn [N.eqb negb].
  replace (N.min (blen x) (blen (s_buf s) - N.min (blen (s_buf s)) (s_off s / 8)) =? blen x) with false by (symmetry; apply N.eqb_neq; lia).
  replace (blen x =? 1) with false by (symmetry; apply N.eqb_neq; lia). reflexivity.
Qed.

(* inside the capacity the two texts coincide, so every theorem about PyPrims applies to the patched text as well *)
Theorem chk_is_current_within_capacity s x value bits :
  (s_off s mod 8 = 0 -> s_off s / 8 + blen x <= blen (s_buf s) -> add_aligned_bytes_chk s x = add_aligned_bytes s x) /\
  (x <> [] -> s_off s / 8 + blen x < blen (s_buf s) -> add_unaligned_bytes_chk s x = add_unaligned_bytes s x) /\
  (s_off s / 8 + 8 <= blen (s_buf s) -> add_aligned_u64_chk s value = add_aligned_u64 s value) /\
  (1 <= bits -> s_off s mod 8 = 0 -> s_off s / 8 + (bits + 7) / 8 <= blen (s_buf s) ->
   add_aligned_unsigned_chk s value bits = add_aligned_unsigned s value bits).
Proof.
  repeat split.
  - intros Hal Hc. unfold add_aligned_bytes_chk, ensure_writable. rewrite Hal. cbn [N.eqb negb].
    replace (s_off s / 8 + blen x <=? blen (s_buf s)) with true by (symmetry; apply N.leb_le; exact Hc). reflexivity.
  - intros Hx Hc. unfold add_unaligned_bytes_chk, ensure_writable. destruct x; [contradiction|].
    replace (s_off s / 8 + (blen (n :: x) + 1) <=? blen (s_buf s)) with true by (symmetry; apply N.leb_le; lia). reflexivity.
  - intros Hc. unfold add_aligned_u64_chk, ensure_writable.
    replace (s_off s / 8 + 8 <=? blen (s_buf s)) with true by (symmetry; apply N.leb_le; exact Hc). reflexivity.
  - intros Hb Hal Hc. unfold add_aligned_unsigned_chk, ensure_writable. rewrite Hal. cbn [N.eqb negb].
    destruct (unsigned_to_bytes_spec value bits Hb) as (bs & E & L & _). rewrite E, L.
    replace (s_off s / 8 + (bits + 7) / 8 <=? blen (s_buf s)) with true by (symmetry; apply N.leb_le; exact Hc). reflexivity.
Qed.
