(* Proofs about the standard-width methods of the Python model: add_aligned_u8..u64 / i8..i64 and fetch_aligned_u8..u64 / i8..i64. *)
From Verif Require Import Bits CPrims CPrimsThm PyPrims PyPrimsThm PyPrimsMoreThm.
Open Scope N_scope.

Lemma appended_ext s s' n f g : (forall k, k < n -> f k = g k) -> appended s s' n f -> appended s s' n g.
Proof.
  intros Hfg (A & B & C & D). repeat split; try assumption. intros p. rewrite D.
  destruct (N.ltb_spec p (s_off s)); [reflexivity|]. destruct (N.ltb_spec p (s_off s + n)); [|reflexivity]. apply Hfg. lia.
Qed.

Lemma appended_trans s s1 s2 n m f g :
  appended s s1 n f -> appended s1 s2 m g -> appended s s2 (n + m) (fun k => if k <? n then f k else g (k - n)).
Proof.
  intros (A1 & B1 & C1 & D1) (A2 & B2 & C2 & D2). split; [lia|]. split; [congruence|]. split; [exact C2|].
  intros p. rewrite D2, D1, A1.
  destruct (N.ltb_spec p (s_off s)); destruct (N.ltb_spec p (s_off s + n)); try lia.
  - reflexivity.
  - replace (p <? s_off s + (n + m)) with true by (symmetry; apply N.ltb_lt; lia).
    replace (p - s_off s <? n) with true by (symmetry; apply N.ltb_lt; lia). reflexivity.
  - destruct (N.ltb_spec p (s_off s + n + m)); destruct (N.ltb_spec p (s_off s + (n + m))); try lia; try reflexivity.
    replace (p - s_off s <? n) with false by (symmetry; apply N.ltb_ge; lia). f_equal. lia.
Qed.

Theorem add_aligned_u8_appends s x :
  Inv s -> bytes_ok (s_buf s) -> x <= 255 -> s_off s mod 8 = 0 -> s_off s / 8 < blen (s_buf s) ->
  exists s', add_aligned_u8 s x = Some s' /\ appended s s' 8 (N.testbit x).
Proof.
  intros HI Hok Hx Hal Hcap. unfold add_aligned_u8. rewrite Hal. cbn [N.eqb negb].
  rewrite store_some by assumption. eexists. split; [reflexivity|]. unfold appended. cbn [s_off s_buf].
  split; [reflexivity|]. split; [apply upd_length|]. split; [apply bytes_ok_upd; [exact Hok|lia]|].
  intros p. rewrite bit_upd by (unfold blen in *; lia).
  destruct (N.eqb_spec (p / 8) (s_off s / 8)) as [E|E].
  - destruct (N.ltb_spec p (s_off s)); [lia|]. replace (p <? s_off s + 8) with true by (symmetry; apply N.ltb_lt; lia).
    f_equal. lia.
  - destruct (N.ltb_spec p (s_off s)); [reflexivity|]. destruct (N.ltb_spec p (s_off s + 8)); [lia|]. apply HI. lia.
Qed.

Lemma land255_le x : N.land x 255 <= 255.
Proof. pose proof (land_255_lt x). lia. Qed.

Lemma tb_land255 x k : N.testbit (N.land x 255) k = N.testbit x k && (k <? 8).
Proof. rewrite N.land_spec, tb_255. reflexivity. Qed.

Theorem add_aligned_u16_appends s x :
  Inv s -> bytes_ok (s_buf s) -> s_off s mod 8 = 0 -> s_off s / 8 + 2 <= blen (s_buf s) ->
  exists s', add_aligned_u16 s x = Some s' /\ appended s s' 16 (N.testbit x).
Proof.
  intros HI Hok Hal Hcap. unfold add_aligned_u16. rewrite (ensure_writable_true s _ _ Hcap). cbn [negb].
  destruct (add_aligned_u8_appends s (N.land x 255) HI Hok (land255_le x) Hal ltac:(lia)) as (s1 & E1 & A1).
  rewrite E1. cbn [bind]. pose proof A1 as (Ho1 & Hl1 & Hok1 & _).
  destruct (add_aligned_u8_appends s1 (N.land (N.shiftr x 8) 255) (appended_inv _ _ _ _ A1) Hok1 (land255_le _)
              ltac:(rewrite Ho1; lia) ltac:(unfold blen in *; rewrite Hl1, Ho1; lia)) as (s2 & E2 & A2).
  exists s2. split; [exact E2|]. pose proof (appended_trans _ _ _ _ _ _ _ A1 A2) as A. change (8 + 8) with 16 in A.
  eapply appended_ext; [|exact A]. intros k Hk. cbn beta. rewrite !tb_land255, tb_shiftr.
  destruct (N.ltb_spec k 8).
  - rewrite andb_true_r. reflexivity.
  - replace (k - 8 <? 8) with true by (symmetry; apply N.ltb_lt; lia). rewrite andb_true_r. f_equal. lia.
Qed.

Theorem add_aligned_u32_appends s x :
  Inv s -> bytes_ok (s_buf s) -> s_off s mod 8 = 0 -> s_off s / 8 + 4 <= blen (s_buf s) ->
  exists s', add_aligned_u32 s x = Some s' /\ appended s s' 32 (N.testbit x).
Proof.
  intros HI Hok Hal Hcap. unfold add_aligned_u32. rewrite (ensure_writable_true s _ _ Hcap). cbn [negb].
  destruct (add_aligned_u16_appends s x HI Hok Hal ltac:(lia)) as (s1 & E1 & A1).
  rewrite E1. cbn [bind]. pose proof A1 as (Ho1 & Hl1 & Hok1 & _).
  destruct (add_aligned_u16_appends s1 (N.shiftr x 16) (appended_inv _ _ _ _ A1) Hok1
              ltac:(rewrite Ho1; lia) ltac:(unfold blen in *; rewrite Hl1, Ho1; lia)) as (s2 & E2 & A2).
  exists s2. split; [exact E2|]. pose proof (appended_trans _ _ _ _ _ _ _ A1 A2) as A. change (16 + 16) with 32 in A.
  eapply appended_ext; [|exact A]. intros k Hk. cbn beta. rewrite tb_shiftr.
  destruct (N.ltb_spec k 16); [reflexivity|]. f_equal. lia.
Qed.

Theorem add_aligned_u64_appends s x :
  Inv s -> bytes_ok (s_buf s) -> s_off s mod 8 = 0 -> s_off s / 8 + 8 <= blen (s_buf s) ->
  exists s', add_aligned_u64 s x = Some s' /\ appended s s' 64 (N.testbit x).
Proof.
  intros HI Hok Hal Hcap. unfold add_aligned_u64. rewrite (ensure_writable_true s _ _ Hcap). cbn [negb].
  destruct (add_aligned_u32_appends s x HI Hok Hal ltac:(lia)) as (s1 & E1 & A1).
  rewrite E1. cbn [bind]. pose proof A1 as (Ho1 & Hl1 & Hok1 & _).
  destruct (add_aligned_u32_appends s1 (N.shiftr x 32) (appended_inv _ _ _ _ A1) Hok1
              ltac:(rewrite Ho1; lia) ltac:(unfold blen in *; rewrite Hl1, Ho1; lia)) as (s2 & E2 & A2).
  exists s2. split; [exact E2|]. pose proof (appended_trans _ _ _ _ _ _ _ A1 A2) as A. change (32 + 32) with 64 in A.
  eapply appended_ext; [|exact A]. intros k Hk. cbn beta. rewrite tb_shiftr.
  destruct (N.ltb_spec k 32); [reflexivity|]. f_equal. lia.
Qed.

(* add_aligned_i8..i64: in-range values are appended in two's complement *)
Theorem add_aligned_ixx_appends w s (x : Z) :
  (w = 8 \/ w = 16 \/ w = 32 \/ w = 64) ->
  Inv s -> bytes_ok (s_buf s) -> s_off s mod 8 = 0 -> s_off s / 8 + w / 8 <= blen (s_buf s) ->
  (- 2 ^ (Z.of_N w - 1) <= x < 2 ^ (Z.of_N w - 1))%Z ->
  exists s', add_aligned_ixx w s x = Some s' /\ appended s s' w (fun k => Z.testbit x (Z.of_N k)).
Proof.
  intros Hw HI Hok Hal Hcap Hx.
  assert (Hw1 : 1 <= w) by (destruct Hw as [-> | [-> | [-> | ->]]]; lia).
  assert (HP : (2 ^ Z.of_N w = 2 * 2 ^ (Z.of_N w - 1))%Z) by (rewrite <- Z.pow_succ_r by lia; f_equal; lia).
  assert (HP0 : (0 < 2 ^ (Z.of_N w - 1))%Z) by (apply Z.pow_pos_nonneg; lia).
  unfold add_aligned_ixx.
  set (v := if (x <? 0)%Z then (2 ^ Z.of_N w + x)%Z else x).
  assert (Hv : (0 <= v < 2 ^ Z.of_N w)%Z) by (subst v; destruct (Z.ltb_spec x 0); lia).
  replace (v <? 0)%Z with false by (symmetry; apply Z.ltb_ge; lia).
  assert (Hbits : forall k, k < w -> N.testbit (Z.to_N v) k = Z.testbit x (Z.of_N k)).
  { intros k Hk. pose proof (signed_arg_bits x w k Hw1 Hx Hk) as S. unfold signed_arg in S. exact S. }
  assert (Hgen : exists s', (if w =? 8 then add_aligned_u8 s (Z.to_N v) else if w =? 16 then add_aligned_u16 s (Z.to_N v)
                             else if w =? 32 then add_aligned_u32 s (Z.to_N v) else add_aligned_u64 s (Z.to_N v)) = Some s' /\
                            appended s s' w (N.testbit (Z.to_N v))).
  { destruct Hw as [-> | [-> | [-> | ->]]]; cbn [N.eqb Pos.eqb].
    - change (8 / 8) with 1 in Hcap. change (2 ^ Z.of_N 8)%Z with 256%Z in Hv.
      apply add_aligned_u8_appends; try assumption; lia.
    - change (16 / 8) with 2 in Hcap. apply add_aligned_u16_appends; assumption.
    - change (32 / 8) with 4 in Hcap. apply add_aligned_u32_appends; assumption.
    - change (64 / 8) with 8 in Hcap. apply add_aligned_u64_appends; assumption. }
  destruct Hgen as (s' & E & A). exists s'. split; [exact E|]. eapply appended_ext; [|exact A]. exact Hbits.
Qed.

(* ---- fetch_aligned_u8..u64 / i8..i64 ---- *)
Definition fetched (d d' : des) (n v : N) : Prop :=
  d_buf d' = d_buf d /\ d_off d' = d_off d + n /\ forall k, N.testbit v k = (k <? n) && bit (d_buf d) (d_off d + k).

Theorem fetch_aligned_u8_spec d : bytes_ok (d_buf d) -> d_off d mod 8 = 0 ->
  exists v d', fetch_aligned_u8 d = Some (v, d') /\ fetched d d' 8 v.
Proof.
  intros Hok Hal. unfold fetch_aligned_u8. rewrite Hal. cbn [N.eqb negb]. eexists. eexists. split; [reflexivity|].
  split; [reflexivity|]. split; [reflexivity|]. intros k. cbn [d_buf d_off]. change get_byte with byte_at.
  destruct (N.ltb_spec k 8); cbn [andb].
  - unfold bit. f_equal; [f_equal|]; lia.
  - apply tb_byte; [apply bytes_ok_byte_at; exact Hok|exact H].
Qed.

Lemma fetched_join d d1 d2 n m a b : fetched d d1 n a -> fetched d1 d2 m b -> fetched d d2 (n + m) (N.lor a (N.shiftl b n)).
Proof.
  intros (A1 & B1 & C1) (A2 & B2 & C2). split; [congruence|]. split; [lia|]. intros k.
  rewrite N.lor_spec, tb_shiftl, C1, C2, A1, B1.
  destruct (N.ltb_spec k n); destruct (N.leb_spec n k); destruct (N.ltb_spec (k - n) m); destruct (N.ltb_spec k (n + m)); try lia;
    cbn [andb orb]; rewrite ?orb_false_r; try reflexivity. f_equal. lia.
Qed.

Theorem fetch_aligned_uxx_spec w d :
  (w = 8 \/ w = 16 \/ w = 32 \/ w = 64) -> bytes_ok (d_buf d) -> d_off d mod 8 = 0 ->
  exists v d', fetch_aligned_uxx w d = Some (v, d') /\ fetched d d' w v.
Proof.
  intros Hw Hok Hal.
  assert (H16 : forall d, bytes_ok (d_buf d) -> d_off d mod 8 = 0 -> exists v d', fetch_aligned_u16 d = Some (v, d') /\ fetched d d' 16 v).
  { intros d0 Hok0 Hal0. unfold fetch_aligned_u16.
    destruct (fetch_aligned_u8_spec d0 Hok0 Hal0) as (a & d1 & E1 & F1). rewrite E1. cbn [bind].
    pose proof F1 as (A1 & B1 & _).
    destruct (fetch_aligned_u8_spec d1 ltac:(rewrite A1; exact Hok0) ltac:(rewrite B1; lia)) as (b & d2 & E2 & F2). rewrite E2. cbn [bind].
    eexists. eexists. split; [reflexivity|]. exact (fetched_join _ _ _ _ _ _ _ F1 F2). }
  assert (H32 : forall d, bytes_ok (d_buf d) -> d_off d mod 8 = 0 -> exists v d', fetch_aligned_u32 d = Some (v, d') /\ fetched d d' 32 v).
  { intros d0 Hok0 Hal0. unfold fetch_aligned_u32.
    destruct (H16 d0 Hok0 Hal0) as (a & d1 & E1 & F1). rewrite E1. cbn [bind]. pose proof F1 as (A1 & B1 & _).
    destruct (H16 d1 ltac:(rewrite A1; exact Hok0) ltac:(rewrite B1; lia)) as (b & d2 & E2 & F2). rewrite E2. cbn [bind].
    eexists. eexists. split; [reflexivity|]. exact (fetched_join _ _ _ _ _ _ _ F1 F2). }
  assert (H64 : forall d, bytes_ok (d_buf d) -> d_off d mod 8 = 0 -> exists v d', fetch_aligned_u64 d = Some (v, d') /\ fetched d d' 64 v).
  { intros d0 Hok0 Hal0. unfold fetch_aligned_u64.
    destruct (H32 d0 Hok0 Hal0) as (a & d1 & E1 & F1). rewrite E1. cbn [bind]. pose proof F1 as (A1 & B1 & _).
    destruct (H32 d1 ltac:(rewrite A1; exact Hok0) ltac:(rewrite B1; lia)) as (b & d2 & E2 & F2). rewrite E2. cbn [bind].
    eexists. eexists. split; [reflexivity|]. exact (fetched_join _ _ _ _ _ _ _ F1 F2). }
  unfold fetch_aligned_uxx. destruct Hw as [-> | [-> | [-> | ->]]]; cbn [N.eqb Pos.eqb]; auto using fetch_aligned_u8_spec.
Qed.

Theorem fetch_aligned_ixx_spec w d :
  (w = 8 \/ w = 16 \/ w = 32 \/ w = 64) -> bytes_ok (d_buf d) -> d_off d mod 8 = 0 ->
  exists u d', fetch_aligned_uxx w d = Some (u, d') /\ fetched d d' w u /\
               fetch_aligned_ixx w d = Some (sign_extend w u, d').
Proof.
  intros Hw Hok Hal. destruct (fetch_aligned_uxx_spec w d Hw Hok Hal) as (u & d' & E & F).
  exists u, d'. split; [exact E|]. split; [exact F|]. unfold fetch_aligned_ixx. rewrite E.
  assert (Hw1 : 1 <= w) by (destruct Hw as [-> | [-> | [-> | ->]]]; lia).
  rewrite to_signed_is_sign_extend; [reflexivity|exact Hw1|].
  destruct F as (_ & _ & Hb). apply high_bits_lt. intros k Hk. rewrite Hb.
  replace (k <? w) with false by (symmetry; apply N.ltb_ge; exact Hk). reflexivity.
Qed.
