(* Integer-only model of nunavutFloat16Pack / nunavutFloat16Unpack
   (src/nunavut/lang/c/support/serialization.j2; the C++ support header has the same code).
   The two float multiplications are by powers of two (2^-112, 2^112).  They are modelled
   as IEEE-754 binary32 operations in round-to-nearest-even: an exponent shift when the
   result is normal, a right shift with RNE into the subnormal grid otherwise.  This
   multiplication model is the modelling assumption of this file; the correspondence
   sweep compares it bit-for-bit with the compiled C code. *)
From Coq Require Export NArith Bool List Lia.
Open Scope N_scope.

Definition b32_exp (y : N) : N := N.shiftr y 23.            (* for y < 2^31 *)
Definition b32_man (y : N) : N := N.land y (N.ones 23).

(* round-to-nearest-even of T / 2^s, s >= 1 *)
Definition rne_shift (T s : N) : N :=
  let q := N.shiftr T s in
  let r := N.land T (N.ones s) in
  let half := N.shiftl 1 (s - 1) in
  if r <? half then q
  else if half <? r then q + 1
       else if N.even q then q else q + 1.

(* y : bits of a finite non-negative binary32 (y < 0x7F800000); result: bits of y * 2^-112 *)
Definition mul_2m112 (y : N) : N :=
  let E := b32_exp y in
  if 113 <=? E then y - N.shiftl 112 23
  else if E =? 0 then 0
       else rne_shift (N.shiftl 1 23 + b32_man y) (113 - E).

Definition F32INF : N := N.shiftl 255 23.
Definition F16INF_AS_F32 : N := N.shiftl 31 23.

(* magnitude part of nunavutFloat16Pack: y = in.bits ^ sign, y < 2^31 *)
Definition pack_mag (y : N) : N :=
  if F32INF <=? y then
    if negb (N.land y 8388607 =? 0) then 32256                   (* 0x7E00 *)
    else if F32INF <? y then 32767 else 31744                     (* 0x7FFF unreachable; 0x7C00 *)
  else
    let y1 := N.shiftl (N.shiftr y 12) 12 in                      (* in.bits &= ~0xFFF *)
    let y2 := mul_2m112 y1 in                                     (* in.real *= magic.real *)
    let y3 := (y2 + 4096) mod 2 ^ 32 in                           (* in.bits -= round_mask (mod 2^32) *)
    let y4 := if F16INF_AS_F32 <? y3 then F16INF_AS_F32 else y3 in
    N.shiftr y4 13.

Definition f16_pack (x : N) : N :=                                (* x < 2^32 *)
  let sign := N.land x (N.shiftl 1 31) in
  let y := N.lxor x sign in
  N.lor (pack_mag y) (N.shiftr sign 16).

(* magnitude part of nunavutFloat16Unpack: h < 2^15; result: bits of ((h << 13) as float) * 2^112, then inf/nan fix *)
Definition unpack_mag (h : N) : N :=
  let e := N.shiftr h 10 in
  let m := N.land h 1023 in
  let v :=
    if e =? 0 then
      if m =? 0 then 0
      else let p := N.log2 m in N.shiftl (p + 103) 23 + N.shiftl (m - N.shiftl 1 p) (23 - p)
    else N.shiftl (e + 112) 23 + N.shiftl m 13 in
  if 143 <=? N.shiftr v 23 then N.lor v F32INF else v.

Definition f16_unpack (h : N) : N :=                              (* h < 2^16 *)
  N.lor (unpack_mag (N.land h 32767)) (N.shiftl (N.land h 32768) 16).

Definition is_nan16 (h : N) : bool := (31744 <? N.land h 32767).
Definition is_nan32 (x : N) : bool := (F32INF <? N.land x 2147483647).

(* exact values, as integers: binary32 magnitude in units of 2^-149, binary16 magnitude in units of 2^-24 *)
Definition val32 (y : N) : N :=
  if b32_exp y =? 0 then b32_man y else N.shiftl (N.shiftl 1 23 + b32_man y) (b32_exp y - 1).
Definition val16 (h : N) : N :=
  let e := N.shiftr h 10 in let m := N.land h 1023 in
  if e =? 0 then m else N.shiftl (1024 + m) (e - 1).

(* bounded universal quantification by Peano recursion on N (for vm_compute sweeps) *)
Definition forall_below (n : N) (f : N -> bool) : bool :=
  N.peano_rect (fun _ => bool) true (fun i acc => acc && f i) n.
