(* fork_bytes of the Python Serializer / Deserializer: the fork works on a window of the same bytes. *)
From Verif Require Import Bits CPrims CPrimsThm CppPrims CppPrimsThm CppPrimsMoreThm PyPrims PyPrimsThm PyPrimsMoreThm.
Open Scope N_scope.

Lemma bit_firstn (l : bytes) m p : bit (firstn (N.to_nat m) l) p = (p <? 8 * m) && bit l p.
Proof.
  unfold bit, byte_at. destruct (N.ltb_spec p (8 * m)); cbn [andb].
  - rewrite nth_firstn_lt by lia. reflexivity.
  - rewrite nth_overflow; [apply N.bits_0|]. rewrite firstn_length. lia.
Qed.

(* Serializer.fork_bytes(n): succeeds iff aligned and n+1 bytes remain; the fork starts at offset 0 on the window
   [offset/8, offset/8 + n + 1) and inherits the invariant *)
Theorem ser_fork_bytes_spec s n :
  Inv s -> s_off s mod 8 = 0 ->
  if blen (s_buf s) <? s_off s / 8 + n + 1 then ser_fork_bytes s n = None
  else exists f, ser_fork_bytes s n = Some f /\ s_off f = 0 /\ blen (s_buf f) = n + 1 /\ Inv f /\
         forall p, bit (s_buf f) p = (p <? 8 * (n + 1)) && bit (s_buf s) (s_off s + p).
Proof.
  intros HI Hal. unfold ser_fork_bytes. rewrite Hal. cbn [N.eqb negb].
  set (a := s_off s / 8). assert (Ha : s_off s = 8 * a) by (subst a; lia).
  assert (Hl : blen (skipn (N.to_nat a) (s_buf s)) = blen (s_buf s) - a) by (unfold blen; rewrite skipn_length; lia).
  rewrite Hl. destruct (N.ltb_spec (blen (s_buf s)) (a + n + 1)) as [H|H].
  - replace (blen (s_buf s) - a <? n + 1) with true by (symmetry; apply N.ltb_lt; lia). reflexivity.
  - replace (blen (s_buf s) - a <? n + 1) with false by (symmetry; apply N.ltb_ge; lia).
    eexists. split; [reflexivity|]. cbn [s_off s_buf]. split; [reflexivity|].
    assert (Hbits : forall p, bit (firstn (N.to_nat (n + 1)) (skipn (N.to_nat a) (s_buf s))) p = (p <? 8 * (n + 1)) && bit (s_buf s) (s_off s + p)).
    { intros p. rewrite bit_firstn, bit_skipn, Ha. reflexivity. }
    split; [unfold blen in *; rewrite firstn_length, skipn_length; lia|]. split; [|exact Hbits].
    intros p _. cbn [s_buf]. rewrite Hbits. rewrite (HI (s_off s + p)) by lia. apply andb_false_r.
Qed.

(* after the fork has written, the parent's buffer is the fork's buffer spliced into the window; the parent's cursor is unchanged *)
Theorem ser_join_spec s f :
  s_off s mod 8 = 0 -> s_off s / 8 + blen (s_buf f) <= blen (s_buf s) ->
  s_off (ser_join s f) = s_off s /\ length (s_buf (ser_join s f)) = length (s_buf s) /\
  forall p, bit (s_buf (ser_join s f)) p =
            if (s_off s <=? p) && (p <? s_off s + 8 * blen (s_buf f)) then bit (s_buf f) (p - s_off s) else bit (s_buf s) p.
Proof.
  intros Hal Hcap. unfold ser_join. cbn [s_off s_buf]. set (a := s_off s / 8) in *.
  assert (Ha : s_off s = 8 * a) by (subst a; lia).
  replace (N.to_nat a + length (s_buf f))%nat with (N.to_nat (a + blen (s_buf f))) by (unfold blen; lia).
  split; [reflexivity|]. split; [unfold blen in *; rewrite !app_length, firstn_length, skipn_length; lia|].
  intros p. unfold bit at 1. rewrite byte_at_assign by exact Hcap.
  destruct (N.ltb_spec (p / 8) a); destruct (N.leb_spec (s_off s) p); cbn [andb]; try lia; [reflexivity|].
  destruct (N.ltb_spec (p / 8) (a + blen (s_buf f))); destruct (N.ltb_spec p (s_off s + 8 * blen (s_buf f))); try lia; [|reflexivity].
  unfold bit. f_equal; [f_equal|]; lia.
Qed.

(* Deserializer.fork_bytes(n): error iff fewer than n whole bytes remain (none remain when the cursor is past the end);
   otherwise a deserializer over exactly those n bytes *)
Theorem des_fork_bytes_spec d n :
  d_off d mod 8 = 0 ->
  if blen (d_buf d) - d_off d / 8 <? n then des_fork_bytes d n = None
  else exists f, des_fork_bytes d n = Some f /\ d_off f = 0 /\ blen (d_buf f) = n /\
         forall p, bit (d_buf f) p = (p <? 8 * n) && bit (d_buf d) (d_off d + p).
Proof.
  intros Hal. unfold des_fork_bytes, des_remaining. rewrite Hal. cbn [N.eqb negb].
  set (a := d_off d / 8). assert (Ha : d_off d = 8 * a) by (subst a; lia). set (L := blen (d_buf d)).
  replace (L * 8 / 8) with L by lia.
  assert (Hrem : Z.to_N (Z.max (Z.of_N (L * 8) - Z.of_N (d_off d)) 0 / 8) = L - a).
  { replace (Z.of_N (L * 8) - Z.of_N (d_off d))%Z with (8 * (Z.of_N L - Z.of_N a))%Z by lia.
    destruct (Z.le_gt_cases 0 (Z.of_N L - Z.of_N a)).
    - rewrite Z.max_l by lia. rewrite Z.mul_comm, Z.div_mul by lia. lia.
    - rewrite Z.max_r by lia. change (0 / 8)%Z with 0%Z. lia. }
  rewrite Hrem. clear Hrem. destruct (N.ltb_spec (L - a) n); [reflexivity|].
  destruct (N.ltb_spec L (N.min a L + n)); [lia|].
  eexists. split; [reflexivity|]. cbn [d_off d_buf]. split; [reflexivity|].
  split; [unfold blen in *; rewrite firstn_length, skipn_length; fold L; lia|].
  intros p. rewrite bit_firstn, bit_skipn.
  destruct (N.ltb_spec p (8 * n)); cbn [andb]; [|reflexivity]. f_equal. lia.
Qed.
