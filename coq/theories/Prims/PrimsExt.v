(* Extension of the support-library models (round 2): members that Prims/CppPrims.v and Prims/PyPrims.v did not yet
   carry.  Kept in a separate file so that the existing model files (on which Codec/Instances*.v depend) are unchanged.

   C++ (serialization.hpp): setZeros() [no argument], copyTo(dst) [no length], at_offset, offset_bytes.
   Python (nunavut_support.py): add_/fetch_(un)aligned_array_of_standard_bit_length_primitives of the little-endian
   classes (x.view(Byte) / numpy.frombuffer = little-endian memory image of the elements) and of the big-endian classes
   (both methods `raise NotImplementedError`), ZeroExtendingBuffer.fork_bytes, .bit_length. *)
From Verif Require Export CPrims CppPrims PyPrims.
Open Scope N_scope.

(* ---- C++ ---- *)
(* any_bitspan::subspan(bits) and subspan_bytes(n), current source (/repo 939fc9d: "subspan never forms a pointer beyond one past the
   end of the data"): the pointer advances by data_.size() - newSize = min(offset_bytes, size).  (The unclamped text of before
   that commit is History/C14_history.v.) *)
Definition subspan_clamped (s : span) (bits : N) : span :=
  let offset_bits := w64 (sp_off s + bits) in
  let offset_bytes := offset_bits / 8 in
  let offset_bits_mod := offset_bits mod 8 in
  let new_size := if offset_bytes <? sp_size s then sp_size s - offset_bytes else 0 in
  mkspan (skipn (N.to_nat (sp_size s - new_size)) (sp_data s)) new_size offset_bits_mod.
Definition subspan_bytes_clamped (s : span) (size_bytes : N) : span :=
  let whole := subspan_clamped s 0 in
  let available := sp_size whole in
  mkspan (sp_data whole) (if size_bytes <? available then size_bytes else available) (sp_off whole).

(* VoidResult setZeros() { return setZeros(size()); } *)
Definition setZeros_all (s : span) : option (bytes + err) := setZeros s (sp_bits s).
(* void copyTo(bitspan dst){copyTo(dst, size());} *)
Definition copyTo_all (src dst : span) : option bytes := copyTo src dst (sp_bits src).
(* derived_bitspan at_offset(bits): same data, offset_bits_ + bits *)
Definition at_offset (s : span) (bits : N) : span := mkspan (sp_data s) (sp_size s) (w64 (sp_off s + bits)).
(* offset_bytes() *)
Definition offset_bytes (s : span) : N := sp_off s / 8.
(* set_offset(bits), offset(), offset_misalignment(n), offset_alings_to(n), offset_alings_to_byte() *)
Definition set_offset (s : span) (bits : N) : span := mkspan (sp_data s) (sp_size s) bits.
Definition offset_misalignment (s : span) (alignment_bits : N) : option N :=
  if alignment_bits =? 0 then None else Some (sp_off s mod alignment_bits).             (* % 0 is undefined *)
Definition offset_aligns_to (s : span) (alignment_bits : N) : option bool :=
  match offset_misalignment s alignment_bits with Some m => Some (m =? 0) | None => None end.

(* ---- Python: arrays of standard-bit-length primitives ---- *)
(* x.view(Byte) of an array whose elements are w bytes wide, on a little-endian host *)
Definition le_image (w : nat) (xs : list N) : bytes := concat (map (le_bytes w) xs).
(* numpy.frombuffer(bs, dtype, count): count elements of w bytes each *)
Fixpoint le_elems (count w : nat) (bs : bytes) : list N :=
  match count with O => [] | S m => of_le_bytes (firstn w bs) :: le_elems m w (skipn w bs) end.

(* _LittleEndianSerializer *)
Definition add_aligned_array_std (s : ser) (w : nat) (xs : list N) : option ser := add_aligned_bytes s (le_image w xs).
Definition add_unaligned_array_std (s : ser) (w : nat) (xs : list N) : option ser := add_unaligned_bytes s (le_image w xs).
(* _BigEndianSerializer: raise NotImplementedError("Pull requests are welcome") *)
Definition be_add_aligned_array_std (s : ser) (w : nat) (xs : list N) : option ser := None.
Definition be_add_unaligned_array_std (s : ser) (w : nat) (xs : list N) : option ser := None.

(* _LittleEndianDeserializer.fetch_aligned_array_of_standard_bit_length_primitives(dtype, count) *)
Definition fetch_aligned_array_std (d : des) (w : nat) (count : N) : option (list N * bytes * des) :=
  if negb (d_off d mod 8 =? 0) then None
  else match get_unsigned_slice (d_buf d) (d_off d / 8) (d_off d / 8 + count * N.of_nat w) with
       | Some bs => Some (le_elems (N.to_nat count) w bs, bs, mkdes (d_buf d) (d_off d + count * N.of_nat w * 8))
       | None => None
       end.
(* fetch_unaligned_...: bs = fetch_unaligned_bytes(itemsize * count); frombuffer(bs, dtype, count) *)
Definition fetch_unaligned_array_std (d : des) (w : nat) (count : N) : option (list N * bytes * des) :=
  match fetch_unaligned_bytes d (N.of_nat w * count) with
  | Some (bs, d') => Some (le_elems (N.to_nat count) w bs, bs, d')
  | None => None
  end.
Definition be_fetch_aligned_array_std (d : des) (w : nat) (count : N) : option (list N * bytes * des) := None.
Definition be_fetch_unaligned_array_std (d : des) (w : nat) (count : N) : option (list N * bytes * des) := None.

(* ---- Python: floats on the Deserializer side: struct.unpack of the fetched bytes (Section variable, see PyPrims.Floats) ---- *)
Definition fetch_aligned_float {F : Type} (bytes_to_float : N -> bytes -> F) (d : des) (size : N) : option (F * des) :=
  match fetch_aligned_bytes d size with Some (bs, d') => Some (bytes_to_float size bs, d') | None => None end.
Definition fetch_unaligned_float {F : Type} (bytes_to_float : N -> bytes -> F) (d : des) (size : N) : option (F * des) :=
  match fetch_unaligned_bytes d size with Some (bs, d') => Some (bytes_to_float size bs, d') | None => None end.

(* ---- Python: sequences of cursor operations and the delimited-serialization pattern of the generated code
   (py/templates/serialization.j2):
     _nested_ = _ser_.fork_bytes(n); _nested_.skip_bits(32); <child serializes into _nested_>;
     L = _nested_.current_bit_length - 32; assert L % 8 == 0; _ser_.add_aligned_u32(L // 8); _ser_.skip_bits(L) ---- *)
Definition ser_opn := ser -> option ser.
Fixpoint run_ops (ops : list ser_opn) (s : ser) : option ser :=
  match ops with [] => Some s | o :: t => match o s with Some s' => run_ops t s' | None => None end end.
Definition ser_delimited (child : ser_opn) (n : N) (s : ser) : option ser :=
  match ser_fork_bytes s n with
  | None => None
  | Some f =>
      match child (skip_bits f 32) with
      | None => None
      | Some f' =>
          let L := s_off f' - 32 in
          if negb (L mod 8 =? 0) then None
          else match add_aligned_u32 (ser_join s f') (L / 8) with
               | Some p => Some (skip_bits p L)
               | None => None
               end
      end
  end.

(* ---- C++: sequences of cursor operations on a bitspan: store-and-advance, void fields, alignment padding ---- *)
Inductive cpp_op := CStoreU (value len : N) | CZeros (len : N) | CPad (n : N).
Definition cpp_step (o : cpp_op) (s : span) : option span :=
  match o with
  | CStoreU v len => match cpp_set_uxx s v len with
                     | Some (inl d) => Some (mkspan d (sp_size s) (w64 (sp_off s + len)))       (* setUxx; add_offset(len) *)
                     | _ => None
                     end
  | CZeros len => match setZeros s len with
                  | Some (inl d) => Some (mkspan d (sp_size s) (w64 (sp_off s + len)))          (* setZeros(len); add_offset(len) *)
                  | _ => None
                  end
  | CPad n => match padAndMoveToAlignment s n with
              | Some (inl (d, o')) => Some (mkspan d (sp_size s) o')
              | _ => None
              end
  end.
Fixpoint cpp_run (ops : list cpp_op) (s : span) : option span :=
  match ops with [] => Some s | o :: t => match cpp_step o s with Some s' => cpp_run t s' | None => None end end.

(* ---- Python: ZeroExtendingBuffer ---- *)
Definition zeb_bit_length (b : bytes) : N := blen b * 8.
(* fork_bytes(offset_bytes, length_bytes) *)
Definition zeb_fork_bytes (b : bytes) (offset_bytes length_bytes : N) : option bytes :=
  if blen b <? offset_bytes + length_bytes then None
  else Some (firstn (N.to_nat length_bytes) (skipn (N.to_nat offset_bytes) b)).
