(* The main C theorems for every width of size_t: M >= 2^16 (so both M = 2^32 and M = 2^64).  The proofs are those of
   CPrimsThm.v with two64 replaced by M; lemmas that do not mention size_t are reused from there. *)
From Verif Require Import Bits CPrims CPrimsThm CPrimsW.
Open Scope N_scope.

Section SizeT.
Variable M : N.
Hypothesis HM : 65536 <= M.

Lemma wM_small x : x < M -> wM M x = x.
Proof. intros H. unfold wM. apply N.mod_small. exact H. Qed.

Lemma copy_loop_specM fuel : forall dst src so do_ last,
    last - so <= N.of_nat fuel -> so <= last ->
    last <= 8 * blen src -> do_ + (last - so) <= 8 * blen dst ->
    8 * blen src < M -> 8 * blen dst < M ->
    exists r, (copy_loopM M) fuel dst src so do_ last = Some r /\ copied dst src r do_ so (last - so).
Proof.
  induction fuel as [|f IH]; intros dst src so do_ last Hf Hso Hsrc Hdst H64s H64d.
  - exists dst. cbn [copy_loopM]. replace (last <=? so) with true by (symmetry; apply N.leb_le; lia).
    split; [reflexivity|]. split; [reflexivity|]. split; [auto|]. intros p.
    destruct (N.leb_spec do_ p); destruct (N.ltb_spec p (do_ + (last - so))); cbn [andb]; try reflexivity. lia.
  - cbn [copy_loopM]. destruct (N.leb_spec last so) as [Hle|Hlt].
    + exists dst. split; [reflexivity|]. split; [reflexivity|]. split; [auto|]. intros p.
      destruct (N.leb_spec do_ p); destruct (N.ltb_spec p (do_ + (last - so))); cbn [andb]; try reflexivity. lia.
    + set (sm := so mod 8). set (dm := do_ mod 8).
      set (mx := if dm <? sm then sm else dm).
      rewrite choose_min_spec. set (size := N.min (8 - mx) (last - so)).
      assert (Hsm : sm < 8) by (subst sm; apply N.mod_lt; discriminate).
      assert (Hdm : dm < 8) by (subst dm; apply N.mod_lt; discriminate).
      assert (Hmx : mx < 8 /\ sm <= mx /\ dm <= mx) by (subst mx; destruct (N.ltb_spec dm sm); lia).
      assert (Hsize : 1 <= size /\ size <= 8 - mx /\ size <= last - so) by (subst size; lia).
      rewrite (wM_small (so + size)), (wM_small (do_ + size)) by lia.
      rewrite (rd_some src (so / 8)) by (unfold blen in *; lia).
      rewrite (rd_some dst (do_ / 8)) by (unfold blen in *; lia).
      rewrite wr_some by (unfold blen in *; lia).
      set (nb := N.lor _ _).
      set (dst' := upd dst (N.to_nat (do_ / 8)) (N.land nb 255)).
      destruct (IH dst' src (so + size) (do_ + size) last) as (r & Hr & Hlen & Hok & Hbits).
      * lia.
      * lia.
      * exact Hsrc.
      * subst dst'. unfold blen. rewrite upd_length. unfold blen in Hdst. lia.
      * exact H64s.
      * subst dst'. unfold blen. rewrite upd_length. exact H64d.
      * exists r. split; [exact Hr|]. split.
        { rewrite Hlen. subst dst'. apply upd_length. }
        split.
        { intros Hd0 Hs0. apply Hok; [|exact Hs0]. subst dst'. apply bytes_ok_upd; [exact Hd0|apply land_255_lt]. }
        intros p. rewrite Hbits. subst dst'.
        rewrite bit_upd by (unfold blen in *; lia). rewrite tb_land255_mod.
        subst nb.
        destruct (N.leb_spec (do_ + size) p) as [H1|H1];
          destruct (N.ltb_spec p (do_ + size + (last - (so + size)))) as [H2|H2]; cbn [andb].
        -- replace ((do_ <=? p) && (p <? do_ + (last - so))) with true
             by (symmetry; apply andb_true_intro; split; [apply N.leb_le|apply N.ltb_lt]; lia).
           f_equal. lia.
        -- replace ((do_ <=? p) && (p <? do_ + (last - so))) with false
             by (symmetry; apply andb_false_intro2; apply N.ltb_ge; lia).
           destruct (N.eqb_spec (p / 8) (do_ / 8)) as [He|He]; [|reflexivity].
           rewrite step_byte by (try apply N.mod_lt; fold sm dm; lia || discriminate).
           fold dm. replace ((dm <=? p mod 8) && (p mod 8 <? dm + size)) with false; [unfold bit; rewrite He; reflexivity|].
           symmetry. subst dm. apply andb_false_intro2. apply N.ltb_ge. lia.
        -- destruct (N.eqb_spec (p / 8) (do_ / 8)) as [He|He].
           ++ rewrite step_byte by (try apply N.mod_lt; fold sm dm; lia || discriminate).
              fold dm sm.
              destruct (N.leb_spec do_ p) as [H3|H3].
              ** replace ((dm <=? p mod 8) && (p mod 8 <? dm + size)) with true
                   by (symmetry; subst dm; apply andb_true_intro; split; [apply N.leb_le|apply N.ltb_lt]; lia).
                 replace (p <? do_ + (last - so)) with true by (symmetry; apply N.ltb_lt; lia).
                 cbn [andb]. unfold bit. f_equal; [f_equal|]; subst sm dm; lia.
              ** replace ((dm <=? p mod 8) && (p mod 8 <? dm + size)) with false
                   by (symmetry; subst dm; apply andb_false_intro1; apply N.leb_gt; lia).
                 cbn [andb]. unfold bit; rewrite He; reflexivity.
           ++ replace ((do_ <=? p) && (p <? do_ + (last - so))) with false; [reflexivity|].
              symmetry. destruct (N.leb_spec do_ p); [|reflexivity]. cbn [andb]. apply N.ltb_ge.
              subst dm sm. lia.
        -- lia.
Qed.

Theorem copy_bits_exactM dst doff len src soff :
  doff + len <= 8 * blen dst -> soff + len <= 8 * blen src ->
  8 * blen dst < M -> 8 * blen src < M ->
  exists r, (copy_bitsM M) dst doff len src soff = Some r /\ copied dst src r doff soff len.
Proof.
  intros Hd Hs H64d H64s. unfold copy_bitsM. rewrite (wM_small (soff + len)) by lia.
  destruct (N.eqb_spec (soff mod 8) 0) as [Hsa|Hsa]; cbn [andb].
  2:{ destruct (copy_loop_specM (N.to_nat len) dst src soff doff (soff + len)) as (r & Hr & Hc); try lia.
      exists r. split; [exact Hr|]. replace (soff + len - soff) with len in Hc by lia. exact Hc. }
  destruct (N.eqb_spec (doff mod 8) 0) as [Hda|Hda].
  2:{ destruct (copy_loop_specM (N.to_nat len) dst src soff doff (soff + len)) as (r & Hr & Hc); try lia.
      exists r. split; [exact Hr|]. replace (soff + len - soff) with len in Hc by lia. exact Hc. }
  set (lb := len / 8). set (ps := soff / 8). set (pd := doff / 8).
  assert (Hps : ps + lb <= blen src) by (subst ps lb; lia).
  assert (Hpd : pd + lb <= blen dst) by (subst pd lb; lia).
  assert (Hmm : exists dst1, (if 0 <? lb then memmove dst pd src ps lb else Some dst) = Some dst1 /\
                length dst1 = length dst /\
                forall i, byte_at dst1 i = if i <? pd then byte_at dst i else if i <? pd + lb then byte_at src (ps + (i - pd)) else byte_at dst i).
  { destruct (N.ltb_spec 0 lb).
    - unfold memmove.
      replace ((ps + lb <=? blen src) && (pd + lb <=? blen dst)) with true
        by (symmetry; apply andb_true_intro; split; apply N.leb_le; assumption).
      eexists. split; [reflexivity|]. split; [apply splice_length; assumption|].
      intros i. apply byte_at_splice; assumption.
    - exists dst. split; [reflexivity|]. split; [reflexivity|]. intros i.
      destruct (N.ltb_spec i pd); [reflexivity|]. destruct (N.ltb_spec i (pd + lb)); [lia|reflexivity]. }
  destruct Hmm as (dst1 & -> & Hl1 & Hb1).
  assert (Hok1 : bytes_ok dst -> bytes_ok src -> bytes_ok dst1).
  { intros Hd0 Hs0. apply bytes_ok_byte_at. intros i. rewrite Hb1.
    destruct (i <? pd); [apply bytes_ok_byte_at; exact Hd0|].
    destruct (i <? pd + lb); apply bytes_ok_byte_at; assumption. }
  destruct (N.eqb_spec (len mod 8) 0) as [Hlm|Hlm]; cbn [negb].
  - exists dst1. split; [reflexivity|]. split; [exact Hl1|]. split; [exact Hok1|]. intros p. unfold bit. rewrite Hb1.
    destruct (N.ltb_spec (p / 8) pd); destruct (N.leb_spec doff p); cbn [andb]; subst pd ps lb; try lia; try reflexivity.
    destruct (N.ltb_spec (p / 8) (doff / 8 + len / 8)); destruct (N.ltb_spec p (doff + len)); try lia; try reflexivity.
    f_equal; [f_equal|]; lia.
  - rewrite (rd_some dst1) by (unfold blen in *; rewrite Hl1; subst pd lb; lia).
    rewrite (rd_some src) by (unfold blen in *; subst ps lb; lia).
    rewrite wr_some by (unfold blen in *; rewrite Hl1; subst pd lb; lia).
    eexists. split; [reflexivity|]. split; [rewrite upd_length; exact Hl1|].
    split; [intros Hd0 Hs0; apply bytes_ok_upd; [apply Hok1; assumption|apply land_255_lt]|]. intros p.
    rewrite bit_upd by (unfold blen in *; rewrite Hl1; subst pd lb; lia). rewrite tb_land255_mod.
    destruct (N.eqb_spec (p / 8) (pd + lb)) as [He|He].
    + rewrite mask_byte by (try apply N.mod_lt; try discriminate; pose proof (N.mod_lt len 8); lia).
      rewrite Hb1. replace (pd + lb <? pd) with false by (symmetry; apply N.ltb_ge; lia).
      replace (pd + lb <? pd + lb) with false by (symmetry; apply N.ltb_ge; lia).
      destruct (N.ltb_spec (p mod 8) (len mod 8)).
      * replace ((doff <=? p) && (p <? doff + len)) with true
          by (symmetry; apply andb_true_intro; split; [apply N.leb_le|apply N.ltb_lt]; subst pd lb; lia).
        unfold bit. f_equal; [f_equal|]; subst pd ps lb; lia.
      * replace ((doff <=? p) && (p <? doff + len)) with false
          by (symmetry; apply andb_false_intro2; apply N.ltb_ge; subst pd lb; lia).
        unfold bit. rewrite He. reflexivity.
    + unfold bit at 1. rewrite Hb1.
      destruct (N.ltb_spec (p / 8) pd); destruct (N.leb_spec doff p); cbn [andb]; subst pd ps lb; try lia; try reflexivity.
      destruct (N.ltb_spec (p / 8) (doff / 8 + len / 8)); destruct (N.ltb_spec p (doff + len)); try lia; try reflexivity.
      unfold bit. f_equal; [f_equal|]; lia.
Qed.

Lemma copy_bits_zeroM dst doff src soff : (copy_bitsM M) dst doff 0 src soff = Some dst.
Proof.
  unfold copy_bitsM. destruct ((soff mod 8 =? 0) && (doff mod 8 =? 0)).
  - reflexivity.
  - cbn [N.to_nat copy_loopM]. rewrite N.add_0_r.
    replace (wM M soff <=? soff) with true; [reflexivity|].
    symmetry. apply N.leb_le. unfold wM. apply N.mod_le. lia.
Qed.

Theorem copy_bits_exactM' dst doff len src soff :
  len = 0 \/ (doff + len <= 8 * blen dst /\ soff + len <= 8 * blen src /\ 8 * blen dst < M /\ 8 * blen src < M) ->
  exists r, (copy_bitsM M) dst doff len src soff = Some r /\ copied dst src r doff soff len.
Proof.
  intros [->|(Hd & Hs & H1 & H2)]; [|apply copy_bits_exactM; assumption].
  exists dst. split; [apply copy_bits_zeroM|]. split; [reflexivity|]. split; [auto|].
  intros p. destruct (N.leb_spec doff p); destruct (N.ltb_spec p (doff + 0)); cbn [andb]; try reflexivity; lia.
Qed.

Lemma saturate_fragment_specM size off len :
  size * 8 < M ->
  (saturate_fragmentM M) size off len = N.min len (size * 8 - N.min (size * 8) off).
Proof. intros H. unfold saturate_fragmentM. rewrite wM_small by exact H. rewrite !choose_min_spec. reflexivity. Qed.

Theorem set_uxx_exact_allM little buf size off value len :
  size <= blen buf -> 8 * blen buf < M ->
  (size * 8 < off + len -> (set_uxxM M) little buf size off value len = Some (inr TooSmall)) /\
  (off + len <= size * 8 ->
   exists r, (set_uxxM M) little buf size off value len = Some (inl r) /\ written buf r off (N.min len 64) (w64 value)).
Proof.
  intros Hsz H64. unfold set_uxxM. rewrite (wM_small (size * 8)) by lia.
  split; intros H.
  - destruct (N.ltb_spec (size * 8) off); cbn [orb]; [reflexivity|].
    replace (size * 8 - off <? len) with true by (symmetry; apply N.ltb_lt; lia). reflexivity.
  - replace (size * 8 <? off) with false by (symmetry; apply N.ltb_ge; lia).
    replace (size * 8 - off <? len) with false by (symmetry; apply N.ltb_ge; lia). cbn [orb].
    rewrite choose_min_spec.
    assert (X : (if little then mem_le 8 (w64 value) else tmp_any (w64 value)) = le_bytes 8 (w64 value))
      by (destruct little; [apply mem_le_le|apply tmp_any_le]).
    rewrite X. clear X.
    destruct (copy_bits_exactM buf off (N.min len 64) (le_bytes 8 (w64 value)) 0) as (r & Hr & Hl & Hok & Hb).
    + lia.
    + unfold blen. rewrite le_bytes_length. lia.
    + exact H64.
    + unfold blen. rewrite le_bytes_length. lia.
    + exists r. rewrite Hr. split; [reflexivity|]. split; [exact Hl|]. split.
      * intros Hb0. apply Hok; [exact Hb0|apply le_bytes_ok].
      * intros p. rewrite Hb. destruct ((off <=? p) && (p <? off + N.min len 64)) eqn:E; [|reflexivity].
        rewrite bit_le_bytes. apply andb_prop in E as [E1 E2]. apply N.leb_le in E1. apply N.ltb_lt in E2.
        replace (0 + (p - off) <? 8 * N.of_nat 8) with true by (symmetry; apply N.ltb_lt; lia).
        cbn [andb]. rewrite N.add_0_l. reflexivity.
Qed.

Theorem set_uxx_exactM little buf size off value len :
  size <= blen buf -> 8 * blen buf < M -> off + len < M ->
  (size * 8 < off + len -> (set_uxxM M) little buf size off value len = Some (inr TooSmall)) /\
  (off + len <= size * 8 ->
   exists r, (set_uxxM M) little buf size off value len = Some (inl r) /\ written buf r off (N.min len 64) (w64 value)).
Proof. intros Hsz H64 _. apply set_uxx_exact_allM; assumption. Qed.

Theorem set_bit_exactM buf size off value :
  size <= blen buf -> 8 * blen buf < M ->
  (size * 8 <= off -> (set_bitM M) buf size off value = Some (inr TooSmall)) /\
  (off < size * 8 ->
   exists r, (set_bitM M) buf size off value = Some (inl r) /\ written buf r off 1 (if value then 1 else 0)).
Proof.
  intros Hsz H64. unfold set_bitM. rewrite (wM_small (size * 8)) by lia. split; intros H.
  - apply N.leb_le in H. rewrite H. reflexivity.
  - replace (size * 8 <=? off) with false by (symmetry; apply N.leb_gt; lia).
    destruct (copy_bits_exactM buf off 1 [if value then 1 else 0] 0) as (r & Hr & Hl & Hok & Hb).
    + lia.
    + cbn. lia.
    + exact H64.
    + cbn. lia.
    + exists r. rewrite Hr. split; [reflexivity|]. split; [exact Hl|]. split.
      * intros Hb0. apply Hok; [exact Hb0|]. constructor; [destruct value; reflexivity|constructor].
      * intros p. rewrite Hb. destruct ((off <=? p) && (p <? off + 1)) eqn:E; [|reflexivity].
        apply andb_prop in E as [E1 E2]. apply N.leb_le in E1. apply N.ltb_lt in E2.
        replace (p - off) with 0 by lia. rewrite N.add_0_l, bit_cons. reflexivity.
Qed.

Theorem get_bits_zero_extM output buf size off len :
  size <= blen buf -> 8 * blen buf < M -> off < M -> len + 7 < M ->
  (len + 7) / 8 <= blen output -> 8 * blen output < M ->
  exists r, (get_bitsM M) output buf size off len = Some r /\ length r = length output /\
    (bytes_ok output -> bytes_ok buf -> bytes_ok r) /\
    forall p, bit r p = if p <? 8 * ((len + 7) / 8)
                        then (p <? len) && (off + p <? 8 * size) && bit buf (off + p)
                        else bit output p.
Proof.
  intros Hsz H64 Hoff Hlen Hout H64o. unfold get_bitsM.
  rewrite saturate_fragment_specM by lia. rewrite (wM_small (len + 7)) by exact Hlen.
  set (sat := N.min len (size * 8 - N.min (size * 8) off)).
  assert (Hsat : sat <= len) by (subst sat; lia).
  unfold memset0.
  replace (sat / 8 + ((len + 7) / 8 - sat / 8) <=? blen output) with true by (symmetry; apply N.leb_le; lia).
  set (o := firstn _ output ++ _).
  assert (Lo : length o = length output).
  { subst o. unfold blen in *. rewrite !app_length, firstn_length, repeat_length, skipn_length. lia. }
  assert (Bo : forall i, byte_at o i = if (sat / 8 <=? i) && (i <? (len + 7) / 8) then 0 else byte_at output i).
  { intros i. subst o. rewrite byte_at_memset0 by lia.
    replace (sat / 8 + ((len + 7) / 8 - sat / 8)) with ((len + 7) / 8) by lia. reflexivity. }
  destruct (copy_bits_exactM' o 0 sat buf off) as (r & Hr & Hl & Hok & Hb).
  { destruct (N.eq_dec sat 0) as [Hz|Hz]; [left; exact Hz|right].
    unfold blen in *. rewrite Lo. subst sat. lia. }
  exists r. split; [exact Hr|]. split; [rewrite Hl; exact Lo|]. split.
  { intros Ho Hbf. apply Hok; [|exact Hbf]. apply bytes_ok_byte_at. intros i. rewrite Bo.
    destruct ((sat / 8 <=? i) && (i <? (len + 7) / 8)); [reflexivity|apply bytes_ok_byte_at; exact Ho]. }
  intros p. rewrite Hb. replace (0 <=? p) with true by (symmetry; apply N.leb_le; lia). cbn [andb].
  rewrite N.add_0_l, N.sub_0_r.
  destruct (N.ltb_spec p sat).
  - replace (p <? 8 * ((len + 7) / 8)) with true by (symmetry; apply N.ltb_lt; lia).
    replace (p <? len) with true by (symmetry; apply N.ltb_lt; lia).
    replace (off + p <? 8 * size) with true by (symmetry; apply N.ltb_lt; subst sat; lia). reflexivity.
  - unfold bit at 1. rewrite Bo.
    destruct (N.ltb_spec p (8 * ((len + 7) / 8))).
    + replace ((sat / 8 <=? p / 8) && (p / 8 <? (len + 7) / 8)) with true
        by (symmetry; apply andb_true_intro; split; [apply N.leb_le|apply N.ltb_lt]; lia).
      rewrite N.bits_0. symmetry.
      destruct (N.ltb_spec p len); cbn [andb]; [|reflexivity].
      replace (off + p <? 8 * size) with false by (symmetry; apply N.ltb_ge; subst sat; lia). reflexivity.
    + replace ((sat / 8 <=? p / 8) && (p / 8 <? (len + 7) / 8)) with false
        by (symmetry; apply andb_false_intro2; apply N.ltb_ge; lia).
      reflexivity.
Qed.

Theorem get_uxx_specM little w buf size off len :
  w mod 8 = 0 -> w <= 64 -> bytes_ok buf -> size <= blen buf -> 8 * blen buf < M -> off < M ->
  exists v, (get_uxxM M) little w buf size off len = Some v /\
            forall k, N.testbit v k = (k <? N.min len w) && (off + k <? 8 * size) && bit buf (off + k).
Proof.
  intros Hw Hw64 Hok Hsz H64 Hoff. unfold get_uxxM. rewrite saturate_fragment_specM by lia. rewrite choose_min_spec.
  set (bits := N.min (N.min len w) (size * 8 - N.min (size * 8) off)).
  destruct (copy_bits_exactM' (repeat 0 (N.to_nat (w / 8))) 0 bits buf off) as (r & Hr & Hl & Hokr & Hb).
  { destruct (N.eq_dec bits 0) as [Hz|Hz]; [left; exact Hz|right].
    subst bits. unfold blen in *. rewrite repeat_length. lia. }
  assert (Hrok : bytes_ok r) by (apply Hokr; [apply bytes_ok_repeat0|exact Hok]).
  assert (Hbits : forall k, bit r k = (k <? N.min len w) && (off + k <? 8 * size) && bit buf (off + k)).
  { intros k. rewrite Hb. replace (0 <=? k) with true by (symmetry; apply N.leb_le; lia). cbn [andb].
    rewrite N.add_0_l, N.sub_0_r, bit_repeat0.
    destruct (N.ltb_spec k bits).
    - replace (k <? N.min len w) with true by (symmetry; apply N.ltb_lt; subst bits; lia).
      replace (off + k <? 8 * size) with true by (symmetry; apply N.ltb_lt; subst bits; lia). reflexivity.
    - destruct (N.ltb_spec k (N.min len w)); [|reflexivity]. cbn [andb].
      replace (off + k <? 8 * size) with false by (symmetry; apply N.ltb_ge; subst bits; lia). reflexivity. }
  eexists. rewrite Hr. split; [reflexivity|]. intros k.
  destruct (little || (w =? 8)).
  - rewrite of_le_bytes_bit by exact Hrok. apply Hbits.
  - rewrite or_shifts_bit by exact Hrok. cbn [N.mul]. replace (8 * 0 <=? k) with true by (symmetry; apply N.leb_le; lia).
    cbn [andb]. replace (k - 8 * 0) with k by lia. apply Hbits.
Qed.

Theorem endianness_variants_equal_getM w buf size off len :
  w mod 8 = 0 -> w <= 64 -> bytes_ok buf -> size <= blen buf -> 8 * blen buf < M -> off < M ->
  (get_uxxM M) true w buf size off len = (get_uxxM M) false w buf size off len.
Proof.
  intros Hw Hw64 Hok Hsz H64 Hoff.
  destruct (get_uxx_specM true w buf size off len Hw Hw64 Hok Hsz H64 Hoff) as (v1 & -> & H1).
  destruct (get_uxx_specM false w buf size off len Hw Hw64 Hok Hsz H64 Hoff) as (v2 & -> & H2).
  f_equal. apply N.bits_inj. intros k. rewrite H1, H2. reflexivity.
Qed.

Theorem endianness_variants_equal_setM buf size off value len :
  (set_uxxM M) true buf size off value len = (set_uxxM M) false buf size off value len.
Proof. unfold set_uxxM. rewrite mem_le_le. reflexivity. Qed.

Theorem get_bit_specM little buf size off :
  bytes_ok buf -> size <= blen buf -> 8 * blen buf < M -> off < M ->
  (get_bitM M) little buf size off = Some ((off <? 8 * size) && bit buf off).
Proof.
  intros Hok Hsz H64 Hoff. unfold get_bitM.
  destruct (get_uxx_specM little 8 buf size off 1 eq_refl ltac:(lia) Hok Hsz H64 Hoff) as (v & -> & Hv). f_equal.
  assert (Hv0 : N.testbit v 0 = (off <? 8 * size) && bit buf off).
  { rewrite Hv. rewrite N.add_0_r. reflexivity. }
  rewrite <- Hv0. assert (Hhi : forall k, 0 < k -> N.testbit v k = false).
  { intros k Hk. rewrite Hv. replace (k <? N.min 1 8) with false by (symmetry; apply N.ltb_ge; lia). reflexivity. }
  destruct (N.testbit v 0) eqn:E0.
  - apply N.eqb_eq. apply N.bits_inj. intros k. destruct (N.eq_dec k 0) as [->|Hk]; [exact E0|].
    rewrite Hhi by lia. symmetry. apply (tb_small 1 1); [reflexivity|lia].
  - apply N.eqb_neq. intros ->. discriminate.
Qed.

Theorem get_ixx_sign_extM little w buf size off len :
  (w = 8 \/ w = 16 \/ w = 32 \/ w = 64) ->
  bytes_ok buf -> size <= blen buf -> 8 * blen buf < M -> off < M ->
  exists u, (get_uxxM M) little w buf size off (N.min len w) = Some u /\ u < 2 ^ N.min len w /\
            (get_ixxM M) little w buf size off len = Some (sign_extend (N.min len w) u).
Proof.
  intros Hw Hok Hsz H64 Hoff.
  assert (Hw' : w mod 8 = 0 /\ 8 <= w /\ w <= 64).
  { destruct Hw as [-> | [-> | [-> | ->]]]; (split; [reflexivity|lia]). }
  destruct Hw' as (Hw8 & Hwlo & Hwhi).
  destruct (get_uxx_specM little w buf size off (N.min len w) Hw8 Hwhi Hok Hsz H64 Hoff) as (u & Hu & Hbits).
  set (sat := N.min len w) in *.
  assert (Hsat : sat <= w) by (subst sat; lia).
  assert (Hult : u < 2 ^ sat).
  { apply high_bits_lt. intros k Hk. rewrite Hbits. replace (k <? N.min sat w) with false; [reflexivity|].
    symmetry. apply N.ltb_ge. lia. }
  exists u. split; [exact Hu|]. split; [exact Hult|].
  unfold get_ixxM. rewrite choose_min_spec. fold sat.
  rewrite (cast_u_small 8 sat) by (change (2 ^ 8) with 256; lia). rewrite Hu.
  apply sext_expr_spec; assumption.
Qed.

End SizeT.

(* ---------------------------------------------------------------------------------------------
   M := two64 gives exactly the functions of CPrims.v (the extracted, validated ones) *)
Lemma copy_loopM_64 fuel : forall dst src so do_ last,
  copy_loopM two64 fuel dst src so do_ last = copy_loop fuel dst src so do_ last.
Proof.
  induction fuel as [|f IH]; intros; cbn [copy_loopM copy_loop]; [reflexivity|].
  destruct (last <=? so); [reflexivity|].
  destruct (rd src (so / 8)); [|reflexivity]. destruct (rd dst (do_ / 8)); [|reflexivity].
  destruct (wr dst _ _); [|reflexivity]. apply IH.
Qed.

Theorem width64_is_cprims :
  (forall a b c, saturate_fragmentM two64 a b c = saturate_fragment a b c) /\
  (forall dst doff len src soff, copy_bitsM two64 dst doff len src soff = copy_bits dst doff len src soff) /\
  (forall o b s off len, get_bitsM two64 o b s off len = get_bits o b s off len) /\
  (forall l b s off v len, set_uxxM two64 l b s off v len = set_uxx l b s off v len) /\
  (forall l b s off v len, set_ixxM two64 l b s off v len = set_ixx l b s off v len) /\
  (forall b s off v, set_bitM two64 b s off v = set_bit b s off v) /\
  (forall l w b s off len, get_uxxM two64 l w b s off len = get_uxx l w b s off len) /\
  (forall l b s off, get_bitM two64 l b s off = get_bit l b s off) /\
  (forall l w b s off len, get_ixxM two64 l w b s off len = get_ixx l w b s off len).
Proof.
  repeat split.   (* the two texts are convertible: wM two64 x and w64 x are both x mod two64 *)
Qed.

(* (the refutation of the wrapping capacity check that nunavutSetUxx had before /repo ba46e0a is in History/C14_history.v) *)
Definition buf_preM (M : N) (buf : bytes) (size off : N) : bool :=
  (size <=? blen buf) && (8 * blen buf <? M) && (off <? M) && bytes_okb buf.


Section SizeT2.
Variable M : N.
Hypothesis HM : 65536 <= M.

(* statement kept from the time of the wrapping check (the premise off + len < M is no longer needed) *)
Theorem set_uxx_exact_bM little buf size off value len :
  buf_preM M buf size off = true -> (off + len <? M) = true ->
  if size * 8 <? off + len
  then set_uxxM M little buf size off value len = Some (inr TooSmall)
  else exists r, set_uxxM M little buf size off value len = Some (inl r) /\ length r = length buf /\
         forall p, bit r p = if (off <=? p) && (p <? off + N.min len 64)
                             then N.testbit (value mod 2 ^ 64) (p - off) else bit buf p.
Proof.
  unfold buf_preM. intros Hb Hl. repeat (apply andb_prop in Hb; destruct Hb as [Hb ?]).
  apply N.leb_le in Hb. apply N.ltb_lt in H1, H0, Hl. apply bytes_okb_ok in H.
  destruct (set_uxx_exactM M HM little buf size off value len Hb H1 Hl) as [Ha Hc].
  destruct (N.ltb_spec (size * 8) (off + len)); [apply Ha; assumption|].
  destruct (Hc H2) as (r & Hr & Hlen & _ & Hbits). exists r. auto.
Qed.

(* the capacity check is wrap-free: correct for EVERY offset and length (set_uxx_satM = set_uxxM, name kept for Codec/PrimsCur.v) *)
Theorem set_uxx_sat_exactM little buf size off value len :
  buf_preM M buf size off = true ->
  if size * 8 <? off + len
  then set_uxx_satM M little buf size off value len = Some (inr TooSmall)
  else exists r, set_uxx_satM M little buf size off value len = Some (inl r) /\ length r = length buf /\
         forall p, bit r p = if (off <=? p) && (p <? off + N.min len 64)
                             then N.testbit (value mod 2 ^ 64) (p - off) else bit buf p.
Proof.
  intros Hb. unfold buf_preM in Hb. repeat (apply andb_prop in Hb; destruct Hb as [Hb ?]).
  apply N.leb_le in Hb. apply N.ltb_lt in H1, H0. unfold set_uxx_satM.
  destruct (set_uxx_exact_allM M HM little buf size off value len Hb H1) as [Ha Hc].
  destruct (N.ltb_spec (size * 8) (off + len)); [apply Ha; assumption|].
  destruct (Hc H2) as (r & Hr & Hlen & _ & Hbits). exists r. auto.
Qed.

Theorem copy_bits_exact_bM dst doff len src soff :
  (doff + len <=? 8 * blen dst) && (soff + len <=? 8 * blen src) && (8 * blen dst <? M) && (8 * blen src <? M) = true ->
  exists r, copy_bitsM M dst doff len src soff = Some r /\ length r = length dst /\
    forall p, bit r p = if (doff <=? p) && (p <? doff + len) then bit src (soff + (p - doff)) else bit dst p.
Proof.
  intros H. repeat (apply andb_prop in H; destruct H as [H ?]). apply N.leb_le in H, H2. apply N.ltb_lt in H0, H1.
  destruct (copy_bits_exactM M HM dst doff len src soff H H2 H1 H0) as (r & Hr & Hl & _ & Hb). exists r. auto.
Qed.

Theorem get_uxx_spec_bM little w buf size off len :
  (w =? 8) || (w =? 16) || (w =? 32) || (w =? 64) = true -> buf_preM M buf size off = true ->
  exists v, get_uxxM M little w buf size off len = Some v /\
            forall k, N.testbit v k = (k <? N.min len w) && (off + k <? 8 * size) && bit buf (off + k).
Proof.
  intros Hw Hb. unfold buf_preM in Hb. repeat (apply andb_prop in Hb; destruct Hb as [Hb ?]).
  apply N.leb_le in Hb. apply N.ltb_lt in H1, H0. apply bytes_okb_ok in H.
  assert (Hw' : w mod 8 = 0 /\ w <= 64).
  { repeat (apply orb_prop in Hw; destruct Hw as [Hw|Hw]); apply N.eqb_eq in Hw; subst w; (split; [reflexivity|lia]). }
  destruct Hw'. apply (get_uxx_specM M HM); assumption.
Qed.

Theorem get_ixx_sign_ext_bM little w buf size off len :
  (w =? 8) || (w =? 16) || (w =? 32) || (w =? 64) = true -> buf_preM M buf size off = true ->
  exists u, get_uxxM M little w buf size off (N.min len w) = Some u /\ u < 2 ^ N.min len w /\
            get_ixxM M little w buf size off len = Some (sign_extend (N.min len w) u).
Proof.
  intros Hw Hb. unfold buf_preM in Hb. repeat (apply andb_prop in Hb; destruct Hb as [Hb ?]).
  apply N.leb_le in Hb. apply N.ltb_lt in H1, H0. apply bytes_okb_ok in H.
  apply (get_ixx_sign_extM M HM); try assumption.
  repeat (apply orb_prop in Hw; destruct Hw as [Hw|Hw]); apply N.eqb_eq in Hw; auto.
Qed.
End SizeT2.

(* both deployment widths *)
Lemma width32_ok : 65536 <= 2 ^ 32. Proof. vm_compute. discriminate. Qed.
Lemma width64_ok : 65536 <= 2 ^ 64. Proof. vm_compute. discriminate. Qed.

(* the statements of Properties/C14.v at a given width of size_t, as one proposition *)
Definition c_theorems_at_width (M : N) : Prop :=
  (forall dst doff len src soff,
     (doff + len <=? 8 * blen dst) && (soff + len <=? 8 * blen src) && (8 * blen dst <? M) && (8 * blen src <? M) = true ->
     exists r, copy_bitsM M dst doff len src soff = Some r /\ length r = length dst /\
       forall p, bit r p = if (doff <=? p) && (p <? doff + len) then bit src (soff + (p - doff)) else bit dst p) /\
  (forall little buf size off value len,
     buf_preM M buf size off = true -> (off + len <? M) = true ->
     if size * 8 <? off + len
     then set_uxxM M little buf size off value len = Some (inr TooSmall)
     else exists r, set_uxxM M little buf size off value len = Some (inl r) /\ length r = length buf /\
            forall p, bit r p = if (off <=? p) && (p <? off + N.min len 64)
                                then N.testbit (value mod 2 ^ 64) (p - off) else bit buf p) /\
  (forall little buf size off value len,
     buf_preM M buf size off = true ->
     if size * 8 <? off + len
     then set_uxx_satM M little buf size off value len = Some (inr TooSmall)
     else exists r, set_uxx_satM M little buf size off value len = Some (inl r) /\ length r = length buf /\
            forall p, bit r p = if (off <=? p) && (p <? off + N.min len 64)
                                then N.testbit (value mod 2 ^ 64) (p - off) else bit buf p) /\
  (forall little w buf size off len,
     (w =? 8) || (w =? 16) || (w =? 32) || (w =? 64) = true -> buf_preM M buf size off = true ->
     exists v, get_uxxM M little w buf size off len = Some v /\
               forall k, N.testbit v k = (k <? N.min len w) && (off + k <? 8 * size) && bit buf (off + k)) /\
  (forall little w buf size off len,
     (w =? 8) || (w =? 16) || (w =? 32) || (w =? 64) = true -> buf_preM M buf size off = true ->
     exists u, get_uxxM M little w buf size off (N.min len w) = Some u /\ u < 2 ^ N.min len w /\
               get_ixxM M little w buf size off len = Some (sign_extend (N.min len w) u)).

Lemma c_theorems_any_width M : 65536 <= M -> c_theorems_at_width M.
Proof.
  intros HM. split; [exact (copy_bits_exact_bM M HM)|]. split; [exact (set_uxx_exact_bM M HM)|].
  split; [exact (set_uxx_sat_exactM M HM)|]. split; [exact (get_uxx_spec_bM M HM)|exact (get_ixx_sign_ext_bM M HM)].
Qed.

