(* More proofs about the C++ bitspan model: padAndMoveToAlignment, the subspans, and the set/get members
   (shown to compute what the C functions compute). *)
From Verif Require Import Bits CPrims CPrimsThm CppPrims CppPrimsThm.
Open Scope N_scope.

(* ---- padAndMoveToAlignment ---- *)
(* every alignment the size_t parameter can carry (no truncation since /repo fcc36ca) *)
Theorem pad_and_move_every_alignment s n :
  span_ok s -> bytes_ok (sp_data s) -> 1 <= n < two64 ->
  let pad := (n - sp_off s mod n) mod n in
  (sp_bits s < pad -> padAndMoveToAlignment s n = Some (inr TooSmall)) /\
  (pad <= sp_bits s ->
   exists r, padAndMoveToAlignment s n = Some (inl (r, sp_off s + pad)) /\ (sp_off s + pad) mod n = 0 /\
     List.length r = List.length (sp_data s) /\
     forall p, bit r p = if (sp_off s <=? p) && (p <? sp_off s + pad) then false else bit (sp_data s) p).
Proof.
  intros Hs Hok Hn pad. pose proof (sp_bits_spec s Hs) as Hb. pose proof Hs as (S1 & S2 & S3).
  unfold padAndMoveToAlignment. destruct (N.eqb_spec n 0); [lia|].
  assert (Hm : sp_off s mod n < n) by (apply N.mod_lt; lia).
  destruct (N.eqb_spec (n - sp_off s mod n) n) as [E|E]; cbn [negb].
  - assert (Hp0 : pad = 0) by (subst pad; rewrite E; apply N.mod_same; lia).
    rewrite Hp0. split; [lia|]. intros _. exists (sp_data s). rewrite N.add_0_r.
    split; [reflexivity|]. split; [apply N.mod_divide; [lia|]; apply N.mod_divide; [lia|]; lia|]. split; [reflexivity|].
    intros p. destruct (N.leb_spec (sp_off s) p); destruct (N.ltb_spec p (sp_off s)); cbn [andb]; try reflexivity. lia.
  - assert (Hp : pad = n - sp_off s mod n) by (subst pad; apply N.mod_small; lia).
    rewrite <- Hp. destruct (setZeros_exact s pad Hs Hok ltac:(lia)) as [Ha Hb'].
    split; intros H.
    + rewrite (Ha H). reflexivity.
    + destruct (Hb' H) as (r & -> & Hl & _ & Hbits). exists r. rewrite w64_small by lia.
      split; [reflexivity|]. split; [|split; [exact Hl|exact Hbits]].
      rewrite Hp. pose proof (N.div_mod (sp_off s) n ltac:(lia)) as D.
      replace (sp_off s + (n - sp_off s mod n)) with ((sp_off s / n + 1) * n) by nia.
      apply N.mod_mul. lia.
Qed.

(* the statement for uint8_t alignments: kept because Codec/InstancesCpp.v and CppComposeThm.v cite it *)
Theorem pad_and_move_spec s n :
  span_ok s -> bytes_ok (sp_data s) -> 1 <= n <= 255 ->
  let pad := (n - sp_off s mod n) mod n in
  (sp_bits s < pad -> padAndMoveToAlignment s n = Some (inr TooSmall)) /\
  (pad <= sp_bits s ->
   exists r, padAndMoveToAlignment s n = Some (inl (r, sp_off s + pad)) /\ (sp_off s + pad) mod n = 0 /\
     List.length r = List.length (sp_data s) /\
     forall p, bit r p = if (sp_off s <=? p) && (p <? sp_off s + pad) then false else bit (sp_data s) p).
Proof.
  intros Hs Hok Hn. apply pad_and_move_every_alignment; try assumption.
  assert (T64 : two64 = 18446744073709551616) by reflexivity. lia.
Qed.

(* ---- subspans: pointer/offset arithmetic keeps the absolute bit position and stays inside the parent ---- *)
Lemma bit_skipn d k p : bit (skipn (N.to_nat k) d) p = bit d (8 * k + p).
Proof.
  unfold bit, byte_at. rewrite nth_skipn_add. f_equal; [f_equal; lia|].
  replace (8 * k + p) with (p + k * 8) by lia. rewrite N.mod_add by discriminate. reflexivity.
Qed.



(* every value of the two size_t arguments (wrapped sums are rejected since /repo fcc36ca): success iff, in natural numbers, the
   byte position is inside the buffer and the remaining bytes hold the requested bits *)
Theorem subspan2_every_offset s bits_at size_bits :
  span_ok s -> bits_at < two64 -> size_bits < two64 ->
  let k := (sp_off s + bits_at) / 8 in
  let o := (sp_off s + bits_at) mod 8 in
  if (sp_size s <? k) || ((sp_size s - k) * 8 <? o + size_bits)
  then subspan2 s bits_at size_bits = inr TooSmall
  else subspan2 s bits_at size_bits = inl (mkspan (skipn (N.to_nat k) (sp_data s)) ((o + size_bits) / 8) o) /\
       k + (o + size_bits) / 8 <= sp_size s.
Proof.
  intros (S1 & S2 & S3) Hba Hsb k o. unfold subspan2.
  assert (T64 : two64 = 18446744073709551616) by reflexivity.
  assert (Ho : o < 8) by (subst o; apply N.mod_lt; discriminate).
  destruct (N.lt_ge_cases (sp_off s + bits_at) two64) as [Hw|Hw].
  - rewrite (w64_small (sp_off s + bits_at)) by exact Hw. fold k o.
    replace (sp_off s + bits_at <? bits_at) with false by (symmetry; apply N.ltb_ge; lia).
    destruct (N.ltb_spec (sp_size s) k); cbn [orb]; [reflexivity|].
    rewrite (w64_small ((sp_size s - k) * 8)) by lia.
    destruct (N.ltb_spec ((sp_size s - k) * 8) (o + size_bits)).
    + destruct (N.ltb_spec ((sp_size s - k) * 8) size_bits); cbn [orb]; [reflexivity|].
      replace ((sp_size s - k) * 8 - size_bits <? o) with true by (symmetry; apply N.ltb_lt; lia). reflexivity.
    + replace ((sp_size s - k) * 8 <? size_bits) with false by (symmetry; apply N.ltb_ge; lia).
      replace ((sp_size s - k) * 8 - size_bits <? o) with false by (symmetry; apply N.ltb_ge; lia). cbn [orb].
      rewrite (w64_small (o + size_bits)) by lia. split; [reflexivity|]. lia.
  - assert (Hk : sp_size s < k).
    { subst k. apply N.lt_le_trans with (two64 / 8); [rewrite T64; change (18446744073709551616 / 8) with 2305843009213693952; lia|].
      apply N.div_le_mono; [discriminate|exact Hw]. }
    replace (sp_size s <? k) with true by (symmetry; apply N.ltb_lt; exact Hk). cbn [orb].
    assert (Hwrap : w64 (sp_off s + bits_at) = sp_off s + bits_at - two64).
    { unfold w64. symmetry. apply (N.mod_unique _ _ 1); lia. }
    rewrite Hwrap. replace (sp_off s + bits_at - two64 <? bits_at) with true by (symmetry; apply N.ltb_lt; lia). reflexivity.
Qed.

(* the statement on the no-wrap domain: kept because Codec/CppWalkerInst.v cites it *)
Theorem subspan2_spec s bits_at size_bits :
  span_ok s -> sp_off s + bits_at < two64 -> size_bits + 8 < two64 ->
  let k := (sp_off s + bits_at) / 8 in
  let o := (sp_off s + bits_at) mod 8 in
  if (sp_size s <? k) || ((sp_size s - k) * 8 <? o + size_bits)
  then subspan2 s bits_at size_bits = inr TooSmall
  else subspan2 s bits_at size_bits = inl (mkspan (skipn (N.to_nat k) (sp_data s)) ((o + size_bits) / 8) o) /\
       k + (o + size_bits) / 8 <= sp_size s.
Proof. intros Hs Hw Hsb. apply subspan2_every_offset; [exact Hs|lia|lia]. Qed.

(* ---- the set/get members compute what the C functions compute ---- *)
Lemma sp_saturate_eq s len : sp_saturate s len = saturate_fragment (sp_size s) (sp_off s) len.
Proof. unfold sp_saturate, saturate_fragment. rewrite !choose_min_spec. reflexivity. Qed.

Lemma sp_bits_const d n : n * 8 < two64 -> sp_bits (mkspan d n 0) = n * 8.
Proof. intros H. unfold sp_bits. cbn [sp_size sp_off]. rewrite w64_small by exact H. destruct (N.ltb_spec (n * 8) 0); lia. Qed.

(* setUxx is the C nunavutSetUxx on (data, size, offset) at EVERY offset and length: both carry the saturating capacity test
   `size*8 < off || size*8 - off < len` (no premise on off + len; /repo ba46e0a) *)
Theorem cpp_set_uxx_is_c_all s value len :
  span_ok s ->
  cpp_set_uxx s value len = set_uxx false (sp_data s) (sp_size s) (sp_off s) value len.
Proof.
  intros (S1 & S2 & S3). unfold cpp_set_uxx, set_uxx.
  assert (T64 : two64 = 18446744073709551616) by reflexivity.
  rewrite (w64_small (sp_size s * 8)) by lia.
  destruct (N.ltb_spec (sp_size s * 8) (sp_off s)); cbn [orb]; [reflexivity|].
  destruct (N.ltb_spec (sp_size s * 8 - sp_off s) len); [reflexivity|].
  rewrite choose_min_spec. rewrite copyTo_refines; cbn [sp_data sp_off sp_size].
  - rewrite sp_bits_const by (rewrite T64; reflexivity). replace (N.min (N.min len 64) (8 * 8)) with (N.min len 64) by lia. reflexivity.
  - rewrite sp_bits_const by (rewrite T64; reflexivity). right. change (blen (tmp_any (w64 value))) with 8. lia.
Qed.

(* the statement with the (superfluous) domain premise: kept because Codec/Instances*.v cite it *)
Theorem cpp_set_uxx_is_c s value len :
  span_ok s -> sp_off s + len < two64 ->
  cpp_set_uxx s value len = set_uxx false (sp_data s) (sp_size s) (sp_off s) value len.
Proof. intros Hs _. apply cpp_set_uxx_is_c_all. exact Hs. Qed.

Theorem cpp_set_bit_is_c s value :
  span_ok s -> cpp_set_bit s value = set_bit (sp_data s) (sp_size s) (sp_off s) value.
Proof.
  intros (S1 & S2 & S3). unfold cpp_set_bit, set_bit.
  assert (T64 : two64 = 18446744073709551616) by reflexivity.
  rewrite (w64_small (sp_size s * 8)) by lia.
  destruct (N.leb_spec (sp_size s * 8) (sp_off s)); [reflexivity|].
  rewrite copyTo_refines; cbn [sp_data sp_off sp_size].
  - rewrite sp_bits_const by (rewrite T64; reflexivity). reflexivity.
  - rewrite sp_bits_const by (rewrite T64; reflexivity). right. change (blen [if value then 1 else 0]) with 1. lia.
Qed.

Theorem cpp_get_uxx_is_c w s len :
  span_ok s -> w mod 8 = 0 -> w <= 64 ->
  cpp_get_uxx w s len = get_uxx false w (sp_data s) (sp_size s) (sp_off s) len.
Proof.
  intros Hs Hw8 Hw64. pose proof (sp_bits_spec s Hs) as Hb. destruct Hs as (S1 & S2 & S3).
  assert (T64 : two64 = 18446744073709551616) by reflexivity.
  unfold cpp_get_uxx, get_uxx. rewrite sp_saturate_eq, choose_min_spec.
  set (bits := saturate_fragment _ _ _).
  assert (Hbits : bits = N.min (N.min len w) (sp_size s * 8 - N.min (sp_size s * 8) (sp_off s))) by (subst bits; apply saturate_fragment_spec; lia).
  rewrite copyTo_refines; cbn [sp_data sp_off sp_size].
  - replace (N.min bits (sp_bits s)) with bits by lia. reflexivity.
  - destruct (N.eq_dec (N.min bits (sp_bits s)) 0) as [Hz|Hz]; [left; exact Hz|right].
    unfold blen in *. rewrite repeat_length. lia.
Qed.

Theorem cpp_get_ixx_is_c w s len :
  span_ok s -> w mod 8 = 0 -> w <= 64 ->
  cpp_get_ixx w s len = get_ixx false w (sp_data s) (sp_size s) (sp_off s) len.
Proof.
  intros Hs Hw8 Hw64. unfold cpp_get_ixx, get_ixx. rewrite choose_min_spec, cpp_get_uxx_is_c by assumption. reflexivity.
Qed.

Theorem cpp_get_bit_is_c s : span_ok s -> cpp_get_bit s = get_bit false (sp_data s) (sp_size s) (sp_off s).
Proof. intros Hs. unfold cpp_get_bit, get_bit. rewrite cpp_get_uxx_is_c by (assumption || reflexivity || lia). reflexivity. Qed.

Theorem getBits_is_c s output len :
  span_ok s -> len + 7 < two64 -> (len + 7) / 8 <= blen output -> 8 * blen output < two64 ->
  getBits s output len = get_bits output (sp_data s) (sp_size s) (sp_off s) len.
Proof.
  intros Hs Hl Ho H64o. pose proof (sp_bits_spec s Hs) as Hb. destruct Hs as (S1 & S2 & S3).
  assert (T64 : two64 = 18446744073709551616) by reflexivity.
  unfold getBits, get_bits. rewrite sp_saturate_eq.
  set (sat := saturate_fragment _ _ _).
  assert (Hsat : sat = N.min len (sp_size s * 8 - N.min (sp_size s * 8) (sp_off s))) by (subst sat; apply saturate_fragment_spec; lia).
  rewrite (w64_small (len + 7)) by exact Hl.
  unfold memset0. destruct (N.leb_spec (sat / 8 + ((len + 7) / 8 - sat / 8)) (blen output)); [|reflexivity].
  set (o := firstn _ output ++ _).
  assert (Lo : blen o = blen output).
  { subst o. unfold blen in *. rewrite !app_length, firstn_length, repeat_length, skipn_length. lia. }
  rewrite copyTo_refines; cbn [sp_data sp_off sp_size].
  - replace (N.min sat (sp_bits s)) with sat by lia. reflexivity.
  - destruct (N.eq_dec (N.min sat (sp_bits s)) 0) as [Hz|Hz]; [left; exact Hz|right]. rewrite Lo. lia.
Qed.

(* ================= statements with boolean guards (used by Properties/C14.v) ================= *)
Definition span_okb (s : span) : bool :=
  (sp_size s <=? blen (sp_data s)) && alloc_ok (sp_data s) && (sp_off s <? two64) && bytes_okb (sp_data s).

Lemma span_okb_ok s : span_okb s = true -> span_ok s /\ bytes_ok (sp_data s).
Proof.
  unfold span_okb, alloc_ok, span_ok. intros H. repeat (apply andb_prop in H; destruct H as [H ?]).
  repeat split; try (apply N.leb_le; assumption); try (apply N.ltb_lt; assumption). apply bytes_okb_ok. assumption.
Qed.

Theorem copyTo_exact_b src dst len :
  span_okb src = true -> span_okb dst = true ->
  (sp_off dst + N.min len (sp_bits src) <=? 8 * blen (sp_data dst)) = true ->
  sp_bits src = sp_size src * 8 - sp_off src /\
  exists r, copyTo src dst len = Some r /\ length r = length (sp_data dst) /\
    forall p, bit r p = if (sp_off dst <=? p) && (p <? sp_off dst + N.min len (sp_bits src))
                        then bit (sp_data src) (sp_off src + (p - sp_off dst)) else bit (sp_data dst) p.
Proof.
  intros Hs Hd Hr. apply span_okb_ok in Hs as [Hs _]. apply span_okb_ok in Hd as [Hd _]. apply N.leb_le in Hr.
  split; [apply sp_bits_spec; exact Hs|].
  destruct (copyTo_exact src dst len Hs Hd Hr) as (r & H1 & H2 & _ & H3). exists r. auto.
Qed.

Theorem setZeros_exact_b s length :
  span_okb s = true -> (length <? two64) = true ->
  if sp_bits s <? length
  then setZeros s length = Some (inr TooSmall)
  else exists r, setZeros s length = Some (inl r) /\ List.length r = List.length (sp_data s) /\
         forall p, bit r p = if (sp_off s <=? p) && (p <? sp_off s + length) then false else bit (sp_data s) p.
Proof.
  intros Hs Hl. apply span_okb_ok in Hs as [Hs Hok]. apply N.ltb_lt in Hl.
  destruct (setZeros_exact s length Hs Hok Hl) as [Ha Hb].
  destruct (N.ltb_spec (sp_bits s) length); [apply Ha; assumption|].
  destruct (Hb H) as (r & H1 & H2 & _ & H3). exists r. auto.
Qed.

Theorem pad_and_move_spec_b s n :
  span_okb s = true -> (1 <=? n) && (n <=? 255) = true ->
  let pad := (n - sp_off s mod n) mod n in
  if sp_bits s <? pad
  then padAndMoveToAlignment s n = Some (inr TooSmall)
  else exists r, padAndMoveToAlignment s n = Some (inl (r, sp_off s + pad)) /\ (sp_off s + pad) mod n = 0 /\
         List.length r = List.length (sp_data s) /\
         forall p, bit r p = if (sp_off s <=? p) && (p <? sp_off s + pad) then false else bit (sp_data s) p.
Proof.
  intros Hs Hn pad. apply span_okb_ok in Hs as [Hs Hok]. apply andb_prop in Hn as [Hn1 Hn2].
  apply N.leb_le in Hn1, Hn2. destruct (pad_and_move_spec s n Hs Hok (conj Hn1 Hn2)) as [Ha Hb].
  fold pad in Ha, Hb. destruct (N.ltb_spec (sp_bits s) pad); [apply Ha; assumption|apply Hb; assumption].
Qed.

Theorem pad_and_move_every_alignment_b s n :
  span_okb s = true -> (1 <=? n) && (n <? two64) = true ->
  let pad := (n - sp_off s mod n) mod n in
  if sp_bits s <? pad
  then padAndMoveToAlignment s n = Some (inr TooSmall)
  else exists r, padAndMoveToAlignment s n = Some (inl (r, sp_off s + pad)) /\ (sp_off s + pad) mod n = 0 /\
         List.length r = List.length (sp_data s) /\
         forall p, bit r p = if (sp_off s <=? p) && (p <? sp_off s + pad) then false else bit (sp_data s) p.
Proof.
  intros Hs Hn pad. apply span_okb_ok in Hs as [Hs Hok]. apply andb_prop in Hn as [Hn1 Hn2].
  apply N.leb_le in Hn1. apply N.ltb_lt in Hn2. destruct (pad_and_move_every_alignment s n Hs Hok (conj Hn1 Hn2)) as [Ha Hb].
  fold pad in Ha, Hb. destruct (N.ltb_spec (sp_bits s) pad); [apply Ha; assumption|apply Hb; assumption].
Qed.

Theorem subspan2_every_offset_b s bits_at size_bits :
  span_okb s = true -> (bits_at <? two64) && (size_bits <? two64) = true ->
  let k := (sp_off s + bits_at) / 8 in
  let o := (sp_off s + bits_at) mod 8 in
  if (sp_size s <? k) || ((sp_size s - k) * 8 <? o + size_bits)
  then subspan2 s bits_at size_bits = inr TooSmall
  else subspan2 s bits_at size_bits = inl (mkspan (skipn (N.to_nat k) (sp_data s)) ((o + size_bits) / 8) o) /\
       k + (o + size_bits) / 8 <= sp_size s.
Proof.
  intros Hs Hn. apply span_okb_ok in Hs as [Hs _]. apply andb_prop in Hn as [H1 H2]. apply N.ltb_lt in H1, H2.
  exact (subspan2_every_offset s bits_at size_bits Hs H1 H2).
Qed.

Theorem cpp_members_are_c_b s :
  span_okb s = true ->
  (forall value len, (sp_off s + len <? two64) = true ->
     cpp_set_uxx s value len = set_uxx false (sp_data s) (sp_size s) (sp_off s) value len) /\
  (forall (value : Z) len, (sp_off s + len <? two64) = true ->
     cpp_set_ixx s value len = set_ixx false (sp_data s) (sp_size s) (sp_off s) value len) /\
  (forall value, cpp_set_bit s value = set_bit (sp_data s) (sp_size s) (sp_off s) value) /\
  (forall w len, (w =? 8) || (w =? 16) || (w =? 32) || (w =? 64) = true ->
     cpp_get_uxx w s len = get_uxx false w (sp_data s) (sp_size s) (sp_off s) len /\
     cpp_get_ixx w s len = get_ixx false w (sp_data s) (sp_size s) (sp_off s) len) /\
  cpp_get_bit s = get_bit false (sp_data s) (sp_size s) (sp_off s) /\
  (forall output len, (len + 7 <? two64) && ((len + 7) / 8 <=? blen output) && alloc_ok output = true ->
     getBits s output len = get_bits output (sp_data s) (sp_size s) (sp_off s) len) /\
  buf_pre (sp_data s) (sp_size s) (sp_off s) = true.
Proof.
  intros Hb. pose proof Hb as Hb'. apply span_okb_ok in Hb as [Hs Hok].
  split; [intros v l H; apply N.ltb_lt in H; apply cpp_set_uxx_is_c; assumption|].
  split; [intros v l H; apply N.ltb_lt in H; unfold cpp_set_ixx, set_ixx; apply cpp_set_uxx_is_c; assumption|].
  split; [intros v; apply cpp_set_bit_is_c; assumption|].
  split.
  { intros w len Hw. assert (Hw' : w mod 8 = 0 /\ w <= 64).
    { repeat (apply orb_prop in Hw; destruct Hw as [Hw|Hw]); apply N.eqb_eq in Hw; subst w; (split; [reflexivity|lia]). }
    destruct Hw'. split; [apply cpp_get_uxx_is_c|apply cpp_get_ixx_is_c]; assumption. }
  split; [apply cpp_get_bit_is_c; assumption|].
  split.
  { intros o len H. apply andb_prop in H as [H H3]. apply andb_prop in H as [H1 H2].
    apply N.ltb_lt in H1. apply N.leb_le in H2. unfold alloc_ok in H3. apply N.ltb_lt in H3. apply getBits_is_c; assumption. }
  unfold span_okb in Hb'. unfold buf_pre. exact Hb'.
Qed.

(* setUxx / setIxx at every offset and length, no premise relating offset and length *)
Theorem cpp_set_uxx_every_offset_b s :
  span_okb s = true ->
  (forall value len,
     cpp_set_uxx s value len = set_uxx false (sp_data s) (sp_size s) (sp_off s) value len /\
     if sp_size s * 8 <? sp_off s + len
     then cpp_set_uxx s value len = Some (inr TooSmall)
     else exists r, cpp_set_uxx s value len = Some (inl r) /\ length r = length (sp_data s) /\
            forall p, bit r p = if (sp_off s <=? p) && (p <? sp_off s + N.min len 64)
                                then N.testbit (value mod 2 ^ 64) (p - sp_off s) else bit (sp_data s) p) /\
  (forall (value : Z) len,
     cpp_set_ixx s value len = set_ixx false (sp_data s) (sp_size s) (sp_off s) value len).
Proof.
  intros Hb. pose proof (cpp_members_are_c_b s Hb) as (_ & _ & _ & _ & _ & _ & Hpre). apply span_okb_ok in Hb as [Hs Hok].
  split.
  - intros v len. split; [apply cpp_set_uxx_is_c_all; exact Hs|].
    rewrite cpp_set_uxx_is_c_all by exact Hs. exact (set_uxx_exact_all_b false _ _ _ v len Hpre).
  - intros v len. unfold cpp_set_ixx, set_ixx. apply cpp_set_uxx_is_c_all. exact Hs.
Qed.

