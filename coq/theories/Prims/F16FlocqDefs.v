(* Definitions for the Flocq bridge of the half-precision model (see Prims/F16Flocq.v). *)
From Flocq Require Import IEEE754.Bits IEEE754.Binary.
From Verif Require Import F16.
From Coq Require Import ZArith.
Open Scope N_scope.

(* x * y for two binary32 bit patterns, round to nearest even *)
Definition ieee_mul (a b : N) : N :=
  Z.to_N (bits_of_b32 (b32_mult BinarySingleNaN.mode_NE (b32_of_bits (Z.of_N a)) (b32_of_bits (Z.of_N b)))).
(* x >= y for two binary32 bit patterns *)
Definition ieee_ge (a b : N) : bool :=
  match b32_compare (b32_of_bits (Z.of_N a)) (b32_of_bits (Z.of_N b)) with Some Eq | Some Gt => true | _ => false end.

Definition MAGIC_PACK : N := N.shiftl 15 23.       (* 2^-112 *)
Definition MAGIC_UNPACK : N := N.shiftl 239 23.    (* 2^112 *)
Definition INF_NAN : N := N.shiftl 143 23.         (* 65536.0 *)

Definition mul_ok (i : N) : bool := ieee_mul (i * 4096) MAGIC_PACK =? mul_2m112 (i * 4096).

(* nunavutFloat16Unpack on magnitudes with the float operations done by Flocq *)
Definition unpack_mag_ieee (h : N) : N :=
  let out := ieee_mul (N.shiftl h 13) MAGIC_UNPACK in
  if ieee_ge out INF_NAN then N.lor out F32INF else out.
Definition unpack_ok (h : N) : bool := unpack_mag_ieee h =? unpack_mag h.

(* the pack sweep is cut in four quarters of 130 560 patterns (compiled in parallel) *)
Definition mul_ok_from (base i : N) : bool := mul_ok (base + i).
