(* Proofs about the half-precision model Prims/F16.v. *)
From Verif Require Import F16.
From Coq Require Import ZArith Lia ZifyBool ZifyN.
Open Scope N_scope.

(* ---- bounded sweeps ---- *)
Lemma forall_below_spec n f : forall_below n f = true -> forall i, i < n -> f i = true.
Proof.
  unfold forall_below. revert n. apply (N.peano_ind (fun n => N.peano_rect (fun _ => bool) true (fun i acc => acc && f i) n = true ->
                                                         forall i, i < n -> f i = true)).
  - intros _ i Hi. lia.
  - intros n IH H i Hi. rewrite N.peano_rect_succ in H. apply andb_prop in H as [H1 H2].
    destruct (N.eq_dec i n) as [->|Hne]; [exact H2|]. apply IH; [exact H1|lia].
Qed.

Definition roundtrip_ok (h : N) : bool := is_nan16 h || (f16_pack (f16_unpack h) =? h).
Definition nan_ok (h : N) : bool :=
  if is_nan16 h then is_nan32 (f16_unpack h) && is_nan16 (f16_pack (f16_unpack h))
  else negb (is_nan32 (f16_unpack h)).
(* unpack is exact: the binary32 result has the value of the half (finite halves), in units of 2^-149 *)
Definition unpack_exact_ok (h : N) : bool :=
  (31744 <=? N.land h 32767) || (val32 (N.land (f16_unpack h) 2147483647) =? N.shiftl (val16 (N.land h 32767)) 125).
Definition unpack_sign_inf_ok (h : N) : bool :=
  (N.shiftr (f16_unpack h) 31 =? N.shiftr h 15) &&
  (negb (N.land h 32767 =? 31744) || (N.land (f16_unpack h) 2147483647 =? F32INF)) && (f16_unpack h <? 4294967296).

Lemma sweep_roundtrip : forall_below 65536 roundtrip_ok = true.
Proof. vm_compute. reflexivity. Qed.
Lemma sweep_nan : forall_below 65536 nan_ok = true.
Proof. vm_compute. reflexivity. Qed.
Lemma sweep_unpack_exact : forall_below 65536 unpack_exact_ok = true.
Proof. vm_compute. reflexivity. Qed.
Lemma sweep_unpack_sign_inf : forall_below 65536 unpack_sign_inf_ok = true.
Proof. vm_compute. reflexivity. Qed.

Theorem f16_roundtrip h : h < 65536 -> is_nan16 h = false -> f16_pack (f16_unpack h) = h.
Proof.
  intros Hh Hn. pose proof (forall_below_spec _ _ sweep_roundtrip h Hh) as H. unfold roundtrip_ok in H.
  rewrite Hn in H. cbn [orb] in H. apply N.eqb_eq. exact H.
Qed.

Theorem f16_nan_preserved h : h < 65536 ->
  (is_nan16 h = true -> is_nan32 (f16_unpack h) = true /\ is_nan16 (f16_pack (f16_unpack h)) = true) /\
  (is_nan16 h = false -> is_nan32 (f16_unpack h) = false).
Proof.
  intros Hh. pose proof (forall_below_spec _ _ sweep_nan h Hh) as H. unfold nan_ok in H.
  destruct (is_nan16 h); split; intros E; try discriminate.
  - apply andb_prop in H. exact H.
  - apply negb_true_iff. exact H.
Qed.

Theorem f16_unpack_exact h : h < 65536 -> N.land h 32767 < 31744 ->
  val32 (N.land (f16_unpack h) 2147483647) = N.shiftl (val16 (N.land h 32767)) 125.
Proof.
  intros Hh Hf. pose proof (forall_below_spec _ _ sweep_unpack_exact h Hh) as H. unfold unpack_exact_ok in H.
  apply orb_prop in H as [H|H]; [apply N.leb_le in H; lia|apply N.eqb_eq; exact H].
Qed.

Theorem f16_unpack_sign_inf h : h < 65536 ->
  N.shiftr (f16_unpack h) 31 = N.shiftr h 15 /\ f16_unpack h < 4294967296 /\
  (N.land h 32767 = 31744 -> N.land (f16_unpack h) 2147483647 = F32INF).
Proof.
  intros Hh. pose proof (forall_below_spec _ _ sweep_unpack_sign_inf h Hh) as H. unfold unpack_sign_inf_ok in H.
  apply andb_prop in H as [H H3]. apply andb_prop in H as [H1 H2].
  split; [apply N.eqb_eq; exact H1|]. split; [apply N.ltb_lt; exact H3|].
  intros E. apply orb_prop in H2 as [H2|H2]; [|apply N.eqb_eq; exact H2].
  apply negb_true_iff in H2. apply N.eqb_neq in H2. contradiction.
Qed.
