(* Sequences of cursor operations on the Python Serializer, including the fork -> write -> join -> header -> skip_bits
   pattern of delimited serialization: the invariant "bits at or after the cursor are zero", the buffer length, byte-ness and
   everything before the cursor survive ANY sequence of operations that does not raise (induction over the op list; the
   delimited pattern is closed under nesting because its child is an arbitrary good operation). *)
From Verif Require Import Bits CPrims CPrimsThm CppPrims CppPrimsThm CppPrimsMoreThm PyPrims PyPrimsThm PyPrimsMoreThm
  PyPrimsStdThm PyPrimsForkThm PrimsExt PrimsExtThm.
Open Scope N_scope.

Definition good (op : ser_opn) : Prop :=
  forall s s', Inv s -> bytes_ok (s_buf s) -> op s = Some s' ->
    Inv s' /\ bytes_ok (s_buf s') /\ length (s_buf s') = length (s_buf s) /\ s_off s <= s_off s' /\
    forall p, p < s_off s -> bit (s_buf s') p = bit (s_buf s) p.

Lemma appended_is_good s s' n f : appended s s' n f ->
  Inv s' /\ bytes_ok (s_buf s') /\ length (s_buf s') = length (s_buf s) /\ s_off s <= s_off s' /\
  forall p, p < s_off s -> bit (s_buf s') p = bit (s_buf s) p.
Proof.
  intros A. pose proof (appended_inv _ _ _ _ A) as I. destruct A as (Ho & Hl & Hk & Hb).
  repeat split; try assumption; [lia|]. intros p Hp. rewrite Hb. replace (p <? s_off s) with true by (symmetry; apply N.ltb_lt; exact Hp). reflexivity.
Qed.

(* ---- closure under sequencing ---- *)
Theorem good_run_ops ops : Forall good ops -> good (run_ops ops).
Proof.
  induction ops as [|o t IH]; intros HF s s' HI Hok H.
  - cbn in H. injection H as <-. repeat split; try assumption; lia.
  - inversion HF as [|? ? Ho Ht]; subst. cbn [run_ops] in H. destruct (o s) as [s1|] eqn:E; [|discriminate].
    destruct (Ho s s1 HI Hok E) as (I1 & K1 & L1 & O1 & B1).
    destruct (IH Ht s1 s' I1 K1 H) as (I2 & K2 & L2 & O2 & B2).
    repeat split; try assumption; [congruence|lia|]. intros p Hp. rewrite B2 by lia. apply B1. exact Hp.
Qed.

(* ---- the primitives ---- *)
Lemma store_inv b i v b' : store b i v = Some b' -> v <= 255 /\ i < blen b /\ b' = upd b (N.to_nat i) v.
Proof.
  unfold store. destruct (N.ltb_spec 255 v); [discriminate|]. destruct (N.ltb_spec i (blen b)); [|discriminate].
  intros H1. injection H1 as <-. auto.
Qed.

Lemma rd_inv b i x : rd b i = Some x -> i < blen b.
Proof. unfold rd, blen. intros H. assert (N.to_nat i < length b)%nat by (apply nth_error_Some; congruence). lia. Qed.

Lemma store_or_inv b i v b' : store_or b i v = Some b' -> i < blen b /\ length b' = length b.
Proof.
  unfold store_or. destruct (rd b i) eqn:E; [|discriminate]. intros H. apply store_inv in H as (_ & Hi & ->).
  split; [exact Hi|apply upd_length].
Qed.

Theorem good_skip k : good (fun s => Some (skip_bits s k)).
Proof.
  intros s s' HI Hok H. injection H as <-. destruct (skip_bits_spec s k HI) as (A & B & C).
  split; [exact C|]. split; [rewrite A; exact Hok|]. split; [rewrite A; reflexivity|]. split; [rewrite B; lia|].
  intros; rewrite A; reflexivity.
Qed.

Theorem good_bit x : good (fun s => add_unaligned_bit s x).
Proof.
  intros s s' HI Hok H. assert (Hcap : s_off s / 8 < blen (s_buf s)).
  { unfold add_unaligned_bit in H. destruct (store_or _ _ _) eqn:E; [|discriminate]. apply store_or_inv in E. tauto. }
  destruct (add_unaligned_bit_appends s x HI Hok Hcap) as (s'' & E & A). rewrite E in H. injection H as <-.
  exact (appended_is_good _ _ _ _ A).
Qed.

Lemma unaligned_loop_some value : forall s s' l r,
  add_unaligned_loop s l r value = Some s' -> value = [] \/ s_off s / 8 + blen value < blen (s_buf s).
Proof.
  induction value as [|a t IH]; intros s s' l r H; [left; reflexivity|right].
  cbn [add_unaligned_loop] in H. destruct (add_unaligned_byte s l r a) as [s1|] eqn:E; [|discriminate].
  unfold add_unaligned_byte in E. destruct (store_or _ _ _) as [b1|] eqn:E1; [|discriminate].
  destruct (store b1 _ _) as [b2|] eqn:E2; [|discriminate]. injection E as <-.
  apply store_or_inv in E1 as (_ & L1). apply store_inv in E2 as (_ & C2 & ->).
  assert (Hlen : blen (a :: t) = blen t + 1) by (unfold blen; cbn [length]; lia).
  unfold blen in *. rewrite L1 in C2.
  destruct (IH _ _ _ _ H) as [->|C]; cbn [s_off s_buf] in *.
  - cbn [length]. lia.
  - rewrite upd_length, L1 in C. cbn [length]. lia.
Qed.

Theorem good_unaligned_bytes value : bytes_ok value -> good (fun s => add_unaligned_bytes s value).
Proof.
  intros Hv s s' HI Hok H. pose proof H as H0. apply add_unaligned_bytes_some in H0. apply unaligned_loop_some in H0.
  destruct (add_unaligned_bytes_appends s value HI Hok Hv) as (s'' & E & A); [destruct H0; auto|].
  rewrite E in H. injection H as <-. exact (appended_is_good _ _ _ _ A).
Qed.

Theorem good_unaligned_unsigned value bits : good (fun s => add_unaligned_unsigned s value bits).
Proof.
  intros s s' HI Hok H. pose proof H as H0. unfold add_unaligned_unsigned, unsigned_to_bytes in H0.
  destruct (N.ltb_spec bits 1) as [|Hb]; [discriminate|].
  destruct (add_unaligned_bytes s _) as [s1|] eqn:E; [|discriminate].
  apply add_unaligned_bytes_some in E. apply unaligned_loop_some in E. rewrite to_bytes_loop_le in E.
  assert (Hl : blen (le_bytes (N.to_nat ((bits + 7) / 8)) (N.land value (2 ^ bits - 1))) = (bits + 7) / 8)
    by (unfold blen; rewrite le_bytes_length; lia).
  assert (Hcap : s_off s / 8 + (bits + 7) / 8 < blen (s_buf s)).
  { destruct E as [E|E]; [|rewrite Hl in E; exact E].
    apply (f_equal (@length N)) in E. rewrite le_bytes_length in E. cbn in E. lia. }
  destruct (add_unaligned_unsigned_appends s value bits HI Hok Hb Hcap) as (s'' & E' & A).
  rewrite E' in H. injection H as <-. exact (appended_is_good _ _ _ _ A).
Qed.

Theorem good_pad n : good (fun s => pad_to_alignment s n).
Proof.
  assert (HL : forall fuel, good (fun s => pad_loop fuel s n)).
  { induction fuel as [|f IH]; intros s s' HI Hok H; cbn [pad_loop] in H.
    - destruct (s_off s mod n =? 0); [|discriminate]. injection H as <-. repeat split; try assumption; lia.
    - destruct (s_off s mod n =? 0). { injection H as <-. repeat split; try assumption; lia. }
      destruct (add_unaligned_bit s false) as [s1|] eqn:E; [|discriminate].
      destruct (good_bit false s s1 HI Hok E) as (I1 & K1 & L1 & O1 & B1).
      destruct (IH s1 s' I1 K1 H) as (I2 & K2 & L2 & O2 & B2).
      repeat split; try assumption; [congruence|lia|]. intros p Hp. rewrite B2 by lia. apply B1. exact Hp. }
  intros s s' HI Hok H. unfold pad_to_alignment in H. destruct (n =? 0); [discriminate|]. exact (HL _ s s' HI Hok H).
Qed.

(* aligned stores: a frame statement that does not need the invariant (used for the delimiter header, which is written
   BEHIND data already produced by the fork) *)
Definition frame (s s' : ser) (n : N) : Prop :=
  s_off s mod 8 = 0 /\ s_off s' = s_off s + n /\ length (s_buf s') = length (s_buf s) /\
  (bytes_ok (s_buf s) -> bytes_ok (s_buf s')) /\
  forall p, p < s_off s \/ s_off s + n <= p -> bit (s_buf s') p = bit (s_buf s) p.

Lemma frame_u8 s x s' : add_aligned_u8 s x = Some s' -> frame s s' 8.
Proof.
  unfold add_aligned_u8. destruct (N.eqb_spec (s_off s mod 8) 0) as [Hal|]; [|discriminate]. cbn [negb].
  destruct (store _ _ _) as [b|] eqn:E; [|discriminate]. intros H. injection H as <-. apply store_inv in E as (Hx & Hi & ->).
  split; [exact Hal|]. cbn [s_off s_buf]. split; [reflexivity|]. split; [apply upd_length|].
  split; [intros Hok; apply bytes_ok_upd; [exact Hok|lia]|].
  intros p Hp. rewrite bit_upd by (unfold blen in *; lia). destruct (N.eqb_spec (p / 8) (s_off s / 8)); [lia|reflexivity].
Qed.

Lemma frame_trans s s1 s2 n m : frame s s1 n -> frame s1 s2 m -> frame s s2 (n + m).
Proof.
  intros (A1 & B1 & C1 & D1 & E1) (A2 & B2 & C2 & D2 & E2). split; [exact A1|]. split; [lia|]. split; [congruence|].
  split; [auto|]. intros p Hp. rewrite E2 by lia. apply E1. lia.
Qed.

Lemma frame_u16 s x s' : add_aligned_u16 s x = Some s' -> frame s s' 16.
Proof.
  unfold add_aligned_u16. destruct (negb _); [discriminate|]. destruct (add_aligned_u8 s _) as [s1|] eqn:E1; [|discriminate]. cbn [bind]. intros E2.
  exact (frame_trans _ _ _ 8 8 (frame_u8 _ _ _ E1) (frame_u8 _ _ _ E2)).
Qed.

Lemma frame_u32 s x s' : add_aligned_u32 s x = Some s' -> frame s s' 32.
Proof.
  unfold add_aligned_u32. destruct (negb _); [discriminate|]. destruct (add_aligned_u16 s _) as [s1|] eqn:E1; [|discriminate]. cbn [bind]. intros E2.
  exact (frame_trans _ _ _ 16 16 (frame_u16 _ _ _ E1) (frame_u16 _ _ _ E2)).
Qed.

Lemma frame_is_good s s' n : Inv s -> bytes_ok (s_buf s) -> frame s s' n -> (forall p, s_off s + n <= p -> bit (s_buf s) p = false) ->
  Inv s' /\ bytes_ok (s_buf s') /\ length (s_buf s') = length (s_buf s) /\ s_off s <= s_off s' /\
  forall p, p < s_off s -> bit (s_buf s') p = bit (s_buf s) p.
Proof.
  intros HI Hok (A & B & C & D & E) Hz.
  split; [intros p Hp; rewrite E by lia; apply Hz; lia|]. split; [auto|]. split; [exact C|]. split; [lia|].
  intros p Hp. apply E. lia.
Qed.

Theorem good_aligned_u8_u16_u32 x :
  good (fun s => add_aligned_u8 s x) /\ good (fun s => add_aligned_u16 s x) /\ good (fun s => add_aligned_u32 s x).
Proof.
  split; [|split]; intros s s' HI Hok H;
    [apply (frame_is_good s s' 8 HI Hok (frame_u8 _ _ _ H))|apply (frame_is_good s s' 16 HI Hok (frame_u16 _ _ _ H))|
     apply (frame_is_good s s' 32 HI Hok (frame_u32 _ _ _ H))]; intros p Hp; apply HI; lia.
Qed.

(* ---- the delimited pattern: fork, skip the header, child, join, header, skip_bits ---- *)
Theorem good_delimited child n : good child -> good (ser_delimited child n).
Proof.
  intros Hc s s' HI Hok H. unfold ser_delimited in H.
  destruct (ser_fork_bytes s n) as [f|] eqn:EF; [|discriminate].
  assert (Hal : s_off s mod 8 = 0).
  { unfold ser_fork_bytes in EF. destruct (N.eqb_spec (s_off s mod 8) 0); [assumption|discriminate]. }
  pose proof (ser_fork_bytes_spec s n HI Hal) as FS.
  destruct (N.ltb_spec (blen (s_buf s)) (s_off s / 8 + n + 1)) as [|Hroom]; [rewrite FS in EF; discriminate|].
  destruct FS as (f0 & EF0 & Hf0 & Hfl & Hfi & Hfb). rewrite EF in EF0. injection EF0 as <-.
  assert (Hfok : bytes_ok (s_buf f)).
  { unfold ser_fork_bytes in EF. rewrite Hal in EF. cbn [N.eqb negb] in EF. destruct (_ <? _); [discriminate|]. injection EF as <-.
    cbn [s_buf]. apply Forall_firstn', Forall_skipn'. exact Hok. }
  destruct (child (skip_bits f 32)) as [f'|] eqn:EC; [|discriminate].
  destruct (skip_bits_spec f 32 Hfi) as (Sb & So & Si).
  destruct (Hc _ _ Si ltac:(rewrite Sb; exact Hfok) EC) as (I' & K' & L' & O' & B'). rewrite Sb in L'. rewrite So, Hf0 in O', B'.
  set (L := s_off f' - 32) in *. destruct (N.eqb_spec (L mod 8) 0) as [HL|]; [|discriminate]. cbn [negb] in H.
  destruct (add_aligned_u32 (ser_join s f') (L / 8)) as [p1|] eqn:EU; [|discriminate]. injection H as <-.
  assert (Hbl : blen (s_buf f') = n + 1) by (unfold blen in *; rewrite L'; exact Hfl).
  destruct (ser_join_spec s f' Hal ltac:(rewrite Hbl; lia)) as (Jo & Jl & Jb).
  pose proof (frame_u32 _ _ _ EU) as (FA & FB & FC & FD & FE). rewrite Jo in FB, FE. rewrite Jl in FC.
  cbn [skip_bits s_off s_buf].
  assert (Jok : bytes_ok (s_buf (ser_join s f'))).
  { unfold ser_join. cbn [s_buf]. unfold bytes_ok. apply Forall_app. split; [apply Forall_firstn'; exact Hok|].
    apply Forall_app. split; [exact K'|apply Forall_skipn'; exact Hok]. }
  repeat split.
  - (* the invariant is re-established once the cursor has skipped the nested object *)
    intros p Hp. cbn [skip_bits s_off s_buf] in *. rewrite FE by lia. rewrite Jb. rewrite Hbl.
    destruct (N.leb_spec (s_off s) p); cbn [andb]; [|lia].
    destruct (N.ltb_spec p (s_off s + 8 * (n + 1))).
    + apply I'. subst L. lia.
    + apply HI. lia.
  - apply FD. exact Jok.
  - exact FC.
  - rewrite FB. subst L. lia.
  - intros p Hp. rewrite FE by lia. rewrite Jb.
    replace ((s_off s <=? p) && (p <? s_off s + 8 * blen (s_buf f'))) with false; [reflexivity|].
    symmetry. apply andb_false_intro1. apply N.leb_gt. exact Hp.
Qed.

(* what the pattern leaves behind: header (number of bytes of the nested object) followed by what the child wrote *)
Theorem delimited_layout child n s s' :
  good child -> Inv s -> bytes_ok (s_buf s) -> ser_delimited child n s = Some s' ->
  exists f f', ser_fork_bytes s n = Some f /\ child (skip_bits f 32) = Some f' /\
    let L := s_off f' - 32 in
    L mod 8 = 0 /\ s_off s' = s_off s + 32 + L /\
    (forall k, 32 <= k < 32 + L -> k < 8 * (n + 1) -> bit (s_buf s') (s_off s + k) = bit (s_buf f') k).
Proof.
  intros Hc HI Hok H. unfold ser_delimited in H.
  destruct (ser_fork_bytes s n) as [f|] eqn:EF; [|discriminate].
  assert (Hal : s_off s mod 8 = 0).
  { unfold ser_fork_bytes in EF. destruct (N.eqb_spec (s_off s mod 8) 0); [assumption|discriminate]. }
  pose proof (ser_fork_bytes_spec s n HI Hal) as FS.
  destruct (N.ltb_spec (blen (s_buf s)) (s_off s / 8 + n + 1)) as [|Hroom]; [rewrite FS in EF; discriminate|].
  destruct FS as (f0 & EF0 & Hf0 & Hfl & Hfi & Hfb). rewrite EF in EF0. injection EF0 as <-.
  assert (Hfok : bytes_ok (s_buf f)).
  { unfold ser_fork_bytes in EF. rewrite Hal in EF. cbn [N.eqb negb] in EF. destruct (_ <? _); [discriminate|]. injection EF as <-.
    cbn [s_buf]. apply Forall_firstn', Forall_skipn'. exact Hok. }
  destruct (child (skip_bits f 32)) as [f'|] eqn:EC; [|discriminate].
  destruct (skip_bits_spec f 32 Hfi) as (Sb & So & Si).
  destruct (Hc _ _ Si ltac:(rewrite Sb; exact Hfok) EC) as (I' & K' & L' & O' & B'). rewrite Sb in L'. rewrite So, Hf0 in O'.
  exists f, f'. split; [reflexivity|]. split; [exact EC|]. cbv zeta.
  set (L := s_off f' - 32) in *. destruct (N.eqb_spec (L mod 8) 0) as [HL|]; [|discriminate]. cbn [negb] in H.
  destruct (add_aligned_u32 (ser_join s f') (L / 8)) as [p1|] eqn:EU; [|discriminate]. injection H as <-.
  assert (Hbl : blen (s_buf f') = n + 1) by (unfold blen in *; rewrite L'; exact Hfl).
  destruct (ser_join_spec s f' Hal ltac:(rewrite Hbl; lia)) as (Jo & Jl & Jb).
  pose proof (frame_u32 _ _ _ EU) as (FA & FB & FC & FD & FE). rewrite Jo in FB, FE.
  cbn [skip_bits s_off s_buf]. split; [exact HL|]. split; [rewrite FB; lia|].
  intros k Hk Hin. rewrite FE by lia. rewrite Jb, Hbl.
  replace ((s_off s <=? s_off s + k) && (s_off s + k <? s_off s + 8 * (n + 1))) with true
    by (symmetry; apply andb_true_intro; split; [apply N.leb_le|apply N.ltb_lt]; subst L; lia).
  f_equal. lia.
Qed.
