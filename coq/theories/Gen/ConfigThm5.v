(* C13 proofs, part 7: the regenerated argparse table (what an option NOT given on the command line is), the documented
   shorthand groups with their values, and the deliberate boundary of the precedence rule for std shorthands. *)
From Verif Require Import Config ConfigThm ConfigThm2 ConfigThm4.
Require Import Lia Bool List.
Import ListNotations.
Open Scope N_scope.

(* an option whose flag is NOT on the command line is offered by the runner either not at all or DefaultValue-marked:
   a statement about the regenerated parser defaults (cli_arg_defaults) and the regenerated runner (cli_language_options) *)
Lemma cli_not_given_entry given k d : In (k, d) cli_option_sources -> given d = None ->
  match dget k (cli_language_options (cli_args given)) with None => True | Some o => is_default o = true end.
Proof.
  intros Hin Hd. unfold cli_option_sources in Hin. cbn [In] in Hin.
  repeat (destruct Hin as [Hin|Hin]; [inversion Hin; subst k d; clear Hin|]); try contradiction;
    unfold cli_language_options, cli_args; rewrite Hd;
    repeat match goal with |- context [given ?x] => destruct (given x) as [?a|] end;
    repeat match goal with |- context [cli_truthy (Some ?a)] => destruct (cli_truthy (Some a)) end;
    vm_compute; auto.
Qed.

(* CLI: a flag that is not given on the command line never displaces a value given explicitly in a file.  `given` is
   what is literally on the command line; the parsed Namespace is cli_args given (regenerated argparse defaults). *)
Theorem cli_flag_not_given_never_displaces given files builtin s l k d v s' :
  In (k, d) cli_option_sources -> given d = None ->
  merge_files (Some builtin) files = Some s ->
  language_of (cli_ops (cli_args given) files) None = Some l ->
  bcreate (fold_left bapply (cli_ops (cli_args given) files) (new_builder builtin)) = Some s' ->
  lookup [section_of l; key_options; k] (Node s) = Some v -> is_default v = false ->
  lookup [section_of l; key_options; k] (Node s') = Some v.
Proof.
  intros Hin Hd M Lg C Lk Dv.
  apply (cli_defaults_never_displace (cli_args given) files builtin s l k v s' M Lg C Lk Dv).
  apply (cli_not_given_entry given k d Hin Hd).
Qed.

(* ... and a value that IS given on the command line is offered explicitly (so it wins by c13_explicit_override_wins) *)
Lemma cli_given_value_is_explicit given :
  forallb (fun kd => match given (snd kd), dget (fst kd) (cli_language_options (cli_args given)) with
                     | Some _, Some o => true
                     | Some _, None => false
                     | None, _ => true
                     end) cli_option_sources = true.
Proof.
  unfold cli_option_sources, cli_language_options, cli_args. cbn [forallb fst snd].
  repeat match goal with |- context [given ?x] => destruct (given x) as [?a|] end;
    repeat match goal with |- context [cli_truthy (Some ?a)] => destruct (cli_truthy (Some a)) end;
    vm_compute; reflexivity.
Qed.

(* ---- documented shorthand groups: values, not only keys -------------------------------------------------- *)
(* (shorthand, key) pairs where docs/languages.rst and the group applied from properties.yaml disagree *)
Definition doc_value_mismatches : list (list N * list N) :=
  flat_map (fun ng =>
    match dget (fst ng) cpp_std_groups with
    | Some g => flat_map (fun kv => match dget (fst kv) g with
                                    | Some v => if cv_eqb v (snd kv) then [] else [(fst ng, fst kv)]
                                    | None => [(fst ng, fst kv)]
                                    end) (snd ng)
    | None => [(fst ng, [])]
    end) cpp_documented_groups.

(* (the documentation defect F-DOC-STDGROUP, c++17-pmr / allocator_include, was fixed in 544e429: no exemption is left) *)

Theorem documented_group_values_agree :
  doc_value_mismatches = []
  /\ length cpp_documented_groups = length cpp_std_groups
  /\ forallb (fun ng => dmem (fst ng) cpp_documented_groups) cpp_std_groups = true.
Proof. vm_compute. auto. Qed.

(* ---- the deliberate boundary of "later/explicit wins" for std shorthands ---------------------------------- *)
Definition sh_sec : list N := section_of [99; 112; 112].
Definition sh_builtin : list (list N * cv) :=
  [(sh_sec, Node [(key_options, Node cpp_builtin_options); (key_defaults, Node builtin_defaults)])].
Definition sh_file1 : cv :=      (* earlier file: std: c++17-pmr *)
  Node [(sh_sec, Node [(key_options, Node [(cpp_key_std, Leaf false (AStr [99; 43; 43; 49; 55; 45; 112; 109; 114]))])])].
Definition sh_file2 : cv :=      (* later file: allocator_type: m *)
  Node [(sh_sec, Node [(key_options, Node [(cpp_key_alloc, Leaf false (AStr [109]))])])].

(* KNOWN AND DELIBERATE (stated reading of the property: the shorthand sets its group "as a unit"): the group selected by
   the merged `std` wins even when `std` came from a LOWER-precedence source (an earlier file) than an explicit value of one
   of the group's keys (a later file; likewise an API override).  The chain says "m"; get_option says the group's value. *)
Theorem shorthand_group_overrides_even_later_explicit :
  let merged := du_all (Node sh_builtin) [sh_file1; sh_file2] in
  lookup [sh_sec; key_options; cpp_key_alloc] sh_file2 = Some (Leaf false (AStr [109]))
  /\ untouched [sh_sec; key_options; cpp_key_std] sh_file2 = true
  /\ lookup [sh_sec; key_options; cpp_key_alloc] merged = Some (Leaf false (AStr [109]))
  /\ exists v, effective_option LkCpp (cv_items merged) sh_sec cpp_key_alloc = Some v /\ v <> Leaf false (AStr [109]).
Proof. vm_compute. repeat split; try reflexivity. eexists. split; [reflexivity|discriminate]. Qed.

(* ---- _strip_default_markers: after it no DefaultValue marker is left at any depth ------------------------- *)
Lemma all_explicit_node m : all_explicit (Node m) = forallb (fun kv => all_explicit (snd kv)) m.
Proof.
  cbn [all_explicit]. induction m as [|[k x] m IH]; [reflexivity|]. cbn [forallb snd]. rewrite <- IH. reflexivity.
Qed.

Lemma strip_markers_explicit v : all_explicit (strip_markers v) = true.
Proof.
  induction v as [d a|m IH] using cv_ind'; [reflexivity|].
  cbn [strip_markers]. rewrite all_explicit_node, forallb_forall. intros kv Hin.
  apply in_map_iff in Hin as (kv0 & <- & Hin0). cbn [snd].
  rewrite Forall_forall in IH. apply IH, Hin0.
Qed.

Theorem stripped_sections_have_no_markers s : all_explicit (Node (strip_sections s)) = true.
Proof.
  unfold strip_sections. rewrite all_explicit_node, forallb_forall. intros kv Hin.
  apply in_map_iff in Hin as (kv0 & <- & _). apply strip_markers_explicit.
Qed.

(* value-wise the stripping only removes the marking *)
Lemma strip_markers_lookup p : forall v, lookup p (strip_markers v) = option_map strip_markers (lookup p v).
Proof.
  induction p as [|k p IH]; intros v; [reflexivity|].
  destruct v as [d a|m]; [reflexivity|]. cbn [strip_markers lookup].
  assert (G : dget k (map (fun kv => (fst kv, strip_markers (snd kv))) m) = option_map strip_markers (dget k m)).
  { induction m as [|[k' x] m IHm]; [reflexivity|]. cbn [map dget fst snd]. destruct (str_eqb k k'); [reflexivity|exact IHm]. }
  rewrite G. destruct (dget k m); [apply IH|reflexivity].
Qed.
