(* C12 -- proofs about the regeneration model (Gen/Regen.v over Generated/Gen_Regen.v). *)
From Coq Require Import NArith List Bool Lia.
From Verif Require Import RegenBase Gen_Regen Regen.
Import ListNotations.
Open Scope N_scope.

(* ------------------------------------------------------------------------------------------ *)
(* basics                                                                                       *)
(* ------------------------------------------------------------------------------------------ *)
Lemma upd_same : forall s p f, upd s p f p = Some f.
Proof. intros; unfold upd; now rewrite N.eqb_refl. Qed.

Lemma upd_other : forall s p f q, q <> p -> upd s p f q = s q.
Proof. intros s p f q H; unfold upd; destruct (N.eqb_spec q p); congruence. Qed.

Lemma bind_ok : forall x k s', bind x k = (s', Ok) -> exists s1, x = (s1, Ok) /\ k s1 = (s', Ok).
Proof.
  intros [s1 r] k s'; unfold bind; cbn [fst snd]; destruct r; intros H.
  - eauto.
  - discriminate.
Qed.

Lemma bind_snd_ok : forall x k, snd (bind x k) = Ok -> snd x = Ok /\ snd (k (fst x)) = Ok.
Proof. intros [s1 r] k; unfold bind; cbn [fst snd]; destruct r; cbn [snd]; intros H; [auto | discriminate]. Qed.

Lemma bind_ret : forall x, bind x (fun s => (s, Ok)) = x.
Proof. intros [s r]; unfold bind; cbn [fst snd]; now destruct r. Qed.

Lemma testbit7_after_gate : forall m, N.testbit (N.land (N.lor m 144) 4095) 7 = true.
Proof.
  intros m; rewrite N.land_spec, N.lor_spec.
  replace (N.testbit 144 7) with true by reflexivity.
  replace (N.testbit 4095 7) with true by reflexivity.
  now rewrite orb_true_r.
Qed.

(* the translated functions, characterised (the only lemmas that look inside them) *)
Lemma SetFileMode_call_eq : forall e s m p, SetFileMode_call e s m p = (fs_chmod e s p m, p).
Proof. intros; unfold SetFileMode_call; rewrite ?bind_ret; reflexivity. Qed.

Lemma handle_overwrite_absent : forall e s p a, s p = None -> handle_overwrite e s p a = (s, Ok).
Proof. intros e s p a H; unfold handle_overwrite; cbv [bind fst snd]; unfold fs_exists; now rewrite H. Qed.

Lemma handle_overwrite_refuse : forall e s p f, s p = Some f -> handle_overwrite e s p false = (s, Err EExists).
Proof. intros e s p f H; unfold handle_overwrite; cbv [bind fst snd]; unfold fs_exists; now rewrite H. Qed.

Lemma handle_overwrite_allow : forall e s p f, s p = Some f ->
  handle_overwrite e s p true = fs_chmod e s p (N.lor (f_mode f) 144).
Proof. intros e s p f H; unfold handle_overwrite; cbv [bind fst snd]; unfold fs_exists, fs_st_mode; now rewrite H. Qed.

(* ------------------------------------------------------------------------------------------ *)
(* the footprint relation: what any sequence of operations on paths in T can do to a state      *)
(* ------------------------------------------------------------------------------------------ *)
Definition meta_ok (o o' : option fmeta) : Prop :=
  match o, o' with
  | Some f, Some f' => f_owned f' = f_owned f /\ f_isdir f' = f_isdir f
  | None, Some f' => f_owned f' = true /\ f_isdir f' = false
  | None, None => True
  | Some _, None => False
  end.

Definition rel (T : path -> Prop) (s s' : fs) : Prop :=
  forall q, (~ T q -> s' q = s q) /\ meta_ok (s q) (s' q).

Lemma meta_ok_refl : forall o, meta_ok o o.
Proof. intros [f|]; cbn; auto. Qed.

Lemma meta_ok_trans : forall a b c, meta_ok a b -> meta_ok b c -> meta_ok a c.
Proof.
  intros [a|] [b|] [c|]; cbn; intros H1 H2; auto; try contradiction.
  - destruct H1, H2; split; congruence.
  - destruct H1, H2; split; congruence.
Qed.

Lemma rel_refl : forall T s, rel T s s.
Proof. intros T s q; split; auto using meta_ok_refl. Qed.

Lemma rel_trans : forall T s1 s2 s3, rel T s1 s2 -> rel T s2 s3 -> rel T s1 s3.
Proof.
  intros T s1 s2 s3 H1 H2 q. destruct (H1 q) as [A1 B1], (H2 q) as [A2 B2]. split.
  - intros H. rewrite A2, A1; auto.
  - eauto using meta_ok_trans.
Qed.

Lemma rel_weaken : forall (T T' : path -> Prop) s s', (forall q, T q -> T' q) -> rel T s s' -> rel T' s s'.
Proof. intros T T' s s' H R q. destruct (R q) as [A B]. split; auto. Qed.

Lemma rel_upd_meta : forall (T : path -> Prop) s p f, T p -> meta_ok (s p) (Some f) -> rel T s (upd s p f).
Proof.
  intros T s p f Tp M q. destruct (N.eq_dec q p) as [->|Hq].
  - rewrite upd_same. split; [intros H; contradiction | exact M].
  - rewrite upd_other by exact Hq. split; auto using meta_ok_refl.
Qed.

Definition rel_fn (T : path -> Prop) (f : fs -> fs * result) : Prop := forall s, rel T s (fst (f s)).

Lemma rel_bind : forall T f k s, rel_fn T f -> rel_fn T k -> rel T s (fst (bind (f s) k)).
Proof.
  intros T f k s Hf Hk. specialize (Hf s). destruct (f s) as [s1 r]; unfold bind; cbn [fst snd] in *.
  destruct r; cbn [fst]; [eapply rel_trans; [exact Hf | apply Hk] | exact Hf].
Qed.

Section WithRender.
Variable render : N -> path -> N.
Variable e : env.

Lemma fs_chmod_rel : forall (T : path -> Prop) p m, T p -> rel_fn T (fun s => fs_chmod e s p m).
Proof.
  intros T p m Tp s; unfold fs_chmod. destruct (s p) as [f|] eqn:E; cbn [fst]; [|apply rel_refl].
  destruct (superuser e || f_owned f); cbn [fst]; [|apply rel_refl].
  apply rel_upd_meta; auto. rewrite E; cbn; auto.
Qed.

Lemma fs_write_rel : forall (T : path -> Prop) p c, T p -> rel_fn T (fun s => fs_write e s p c).
Proof.
  intros T p c Tp s; unfold fs_write. destruct (s p) as [f|] eqn:E.
  - destruct (f_isdir f); cbn [fst]; [apply rel_refl|]. destruct (writable e f); cbn [fst]; [|apply rel_refl].
    apply rel_upd_meta; auto. rewrite E; cbn; auto.
  - destruct (can_create e p); cbn [fst]; [|apply rel_refl].
    apply rel_upd_meta; auto. rewrite E; cbn; auto.
Qed.

Lemma fs_copy_rel : forall (T : path -> Prop) p c m, T p -> rel_fn T (fun s => fs_copy e s p c m).
Proof.
  intros T p c m Tp s. unfold fs_copy.
  apply (rel_bind T (fun s => fs_write e s p c) (fun s1 => fs_chmod e s1 p m)).
  - now apply fs_write_rel.
  - now apply fs_chmod_rel.
Qed.

Lemma handle_overwrite_rel : forall (T : path -> Prop) p a, T p -> rel_fn T (fun s => handle_overwrite e s p a).
Proof.
  intros T p a Tp s. destruct (s p) as [f|] eqn:E.
  - destruct a.
    + rewrite (handle_overwrite_allow e s p f E). now apply fs_chmod_rel.
    + rewrite (handle_overwrite_refuse e s p f E). apply rel_refl.
  - rewrite handle_overwrite_absent by exact E. apply rel_refl.
Qed.

Lemma run_filepps_rel : forall (T : path -> Prop) p pps, T p -> rel_fn T (fun s => run_filepps e s p pps).
Proof.
  intros T p pps Tp. induction pps as [|[m] r IH]; intros s; cbn [run_filepps].
  - apply rel_refl.
  - rewrite SetFileMode_call_eq; cbn [fst snd].
    apply (rel_bind T (fun s => fs_chmod e s p m) (fun s1 => run_filepps e s1 p r)); auto.
    now apply fs_chmod_rel.
Qed.

Lemma run_act0_rel : forall (T : path -> Prop) c p a, T p -> rel_fn T (run_act0 render e c p a).
Proof.
  intros T c p a Tp s. destruct a; cbn [run_act0]; try apply rel_refl.
  - now apply handle_overwrite_rel.
  - destruct (fs_exists s p || can_create e p); apply rel_refl.
  - now apply fs_write_rel.
  - now apply fs_copy_rel.
  - now apply run_filepps_rel.
Qed.

Lemma run_skel0_rel : forall (T : path -> Prop) c p k, T p -> rel_fn T (run_skel0 render e c p k).
Proof.
  intros T c p k Tp. induction k as [|[gs a] r IH]; intros s; cbn [run_skel0].
  - apply rel_refl.
  - apply (rel_bind T (fun s => if forallb (guard_holds c) gs then run_act0 render e c p a s else (s, Ok))); auto.
    intros s1. destruct (forallb (guard_holds c) gs); [now apply run_act0_rel | apply rel_refl].
Qed.

Lemma run_act1_rel : forall (T : path -> Prop) c p a, T p -> rel_fn T (run_act1 render e c p a).
Proof.
  intros T c p a Tp s. destruct a; cbn [run_act1]; try (now apply run_act0_rel); now apply run_skel0_rel.
Qed.

Lemma run_skel1_rel : forall (T : path -> Prop) c p k, T p -> rel_fn T (run_skel1 render e c p k).
Proof.
  intros T c p k Tp. induction k as [|[gs a] r IH]; intros s; cbn [run_skel1].
  - apply rel_refl.
  - apply (rel_bind T (fun s => if forallb (guard_holds c) gs then run_act1 render e c p a s else (s, Ok))); auto.
    intros s1. destruct (forallb (guard_holds c) gs); [now apply run_act1_rel | apply rel_refl].
Qed.

Lemma write_item_rel : forall (T : path -> Prop) c it, T (fst it) -> rel_fn T (fun s => write_item render e c s it).
Proof. intros T c it Tp s. unfold write_item. now apply run_skel1_rel. Qed.

Lemma run_list_rel : forall (A : Type) (T : path -> Prop) (f : fs -> A -> fs * result) l,
  (forall x, In x l -> rel_fn T (fun s => f s x)) -> rel_fn T (fun s => run_list f s l).
Proof.
  intros A T f l. induction l as [|x r IH]; intros H s; cbn [run_list].
  - apply rel_refl.
  - apply (rel_bind T (fun s => f s x) (fun s1 => run_list f s1 r)).
    + apply H; now left.
    + apply IH. intros y Hy. apply H; now right.
Qed.

Lemma items_rel : forall c l, rel_fn (fun q => In q (map fst l)) (fun s => run_list (write_item render e c) s l).
Proof.
  intros c l. apply run_list_rel. intros it Hit. apply write_item_rel. now apply in_map.
Qed.

Lemma run_list_app : forall (A : Type) (f : fs -> A -> fs * result) l1 l2 s,
  run_list f s (l1 ++ l2) = bind (run_list f s l1) (fun s1 => run_list f s1 l2).
Proof.
  intros A f l1 l2. induction l1 as [|x r IH]; intros s; cbn [run_list app].
  - reflexivity.
  - destruct (f s x) as [s1 [|er]]; unfold bind at 1 3; cbn [fst snd].
    + apply IH.
    + reflexivity.
Qed.

(* one run = the writers of all items in order *)
Lemma step_flat : forall s c, step render e s c = run_list (write_item render e c) s (items c).
Proof.
  intros s c. unfold step, items. generalize cli_generate_phases as phs. intros phs; revert s.
  induction phs as [|ph r IH]; intros s; cbn [run_list flat_map].
  - reflexivity.
  - rewrite run_list_app. unfold run_phase at 1.
    destruct (run_list (write_item render e c) s (phase_items c ph)) as [s1 [|er]]; unfold bind; cbn [fst snd].
    + apply IH.
    + reflexivity.
Qed.

Lemma step_rel : forall c, rel_fn (fun q => In q (targets c)) (fun s => step render e s c).
Proof. intros c s. rewrite step_flat. apply items_rel. Qed.

Lemma history_rel : forall h s, rel (fun q => exists c, In c h /\ In q (targets c)) s (history render e s h).
Proof.
  induction h as [|c r IH]; intros s; cbn [history fold_left].
  - apply rel_refl.
  - eapply rel_trans.
    + eapply rel_weaken; [|apply (step_rel c s)]. intros q Hq. exists c; split; [now left | exact Hq].
    + eapply rel_weaken; [|apply IH]. intros q [c' [Hc Hq]]. exists c'; split; [now right | exact Hq].
Qed.

(* ---- foreign_untouched ------------------------------------------------------------------- *)
Theorem foreign_untouched_step : forall s c q, ~ In q (targets c) -> fst (step render e s c) q = s q.
Proof. intros s c q H. now apply (step_rel c s q). Qed.

Theorem foreign_untouched_history : forall h s q, (forall c, In c h -> ~ In q (targets c)) -> history render e s h q = s q.
Proof.
  intros h s q H. apply (history_rel h s q). intros [c [Hc Hq]]. exact (H c Hc Hq).
Qed.

(* ---- the invariant: every entry is a regular file or directory the runner may chmod; no run breaks it ---- *)
Definition chmodable (s : fs) : Prop := forall q f, s q = Some f -> superuser e || f_owned f = true.

Lemma rel_chmodable : forall T s s', rel T s s' -> chmodable s -> chmodable s'.
Proof.
  intros T s s' R H q f' E. destruct (R q) as [_ M]. rewrite E in M. destruct (s q) as [f|] eqn:E0; cbn in M.
  - destruct M as [M _]. rewrite M. eauto.
  - destruct M as [M _]. rewrite M. apply orb_true_r.
Qed.

Lemma rel_isdir : forall T s s' q f', rel T s s' -> s' q = Some f' ->
  match s q with Some f => f_isdir f' = f_isdir f | None => f_isdir f' = false end.
Proof.
  intros T s s' q f' R E. destruct (R q) as [_ M]. rewrite E in M. destruct (s q); cbn in M; tauto.
Qed.

Lemma rel_exists : forall T s s' q, rel T s s' -> s q <> None -> s' q <> None.
Proof.
  intros T s s' q R H. destruct (R q) as [_ M]. destruct (s q); [|congruence]. destruct (s' q); [congruence | contradiction].
Qed.

End WithRender.

(* ------------------------------------------------------------------------------------------ *)
(* one writer on one path: every scenario, by symbolic execution of the translated skeletons      *)
(* ------------------------------------------------------------------------------------------ *)
Lemma bind_pair_ok : forall s k, bind (s, Ok) k = k s.
Proof. reflexivity. Qed.
Lemma bind_pair_err : forall s e k, bind (s, Err e) k = (s, Err e).
Proof. reflexivity. Qed.

Lemma last_mode_irrel : forall pps d d', pps <> [] -> last_mode pps d = last_mode pps d'.
Proof. intros [|[m] r] d d' H; [congruence | reflexivity]. Qed.

Ltac unfold_writer Hd :=
  unfold write_item, skel_of_kind, generate_type_skel, generate_header_skel, copy_header_skel;
  cbn [fst snd run_skel1 run_act1 forallb guard_holds]; rewrite ?Hd; cbn [negb andb];
  unfold generate_code_skel, copy_header_using_line_pps_skel;
  cbn [fst snd run_skel0 run_act0 forallb guard_holds andb].

Ltac ex := repeat (first [ rewrite bind_pair_ok | rewrite bind_pair_err | rewrite bind_ret ]; cbv beta).

Section W.
Variable render : N -> path -> N.
Variable e : env.

Lemma run_filepps_full : forall p pps s f, s p = Some f -> superuser e || f_owned f = true ->
  exists s', run_filepps e s p pps = (s', Ok) /\
             s' p = Some (mkF (f_cid f) (last_mode pps (f_mode f)) (f_owned f) (f_isdir f)).
Proof.
  intros p pps. induction pps as [|[m] r IH]; intros s f E Hp; cbn [run_filepps last_mode].
  - exists s. split; [reflexivity|]. rewrite E. now destruct f.
  - rewrite SetFileMode_call_eq; cbn [fst snd]. unfold fs_chmod. rewrite E, Hp. rewrite bind_pair_ok.
    destruct (IH (upd s p (set_mode f (N.land m 4095))) (set_mode f (N.land m 4095))) as [s' [H1 H2]].
    + apply upd_same.
    + exact Hp.
    + exists s'. split; [exact H1 | exact H2].
Qed.

Variable c : cfg.
Variable p : path.
Hypothesis Hd : c_dryrun c = false.

Lemma W_absent_nocreate : forall k s, s p = None -> can_create e p = false ->
  write_item render e c s (p, k) = (s, Err EAccess).
Proof.
  intros k s E Hc. destruct k as [|[|]]; [| |destruct (c_linepps c) eqn:Hl]; unfold_writer Hd; rewrite ?Hl; cbn [negb andb];
  rewrite (handle_overwrite_absent e s p _ E); ex; unfold fs_exists; rewrite E, Hc; cbn [orb]; ex; reflexivity.
Qed.

Lemma writable_after_gate : forall f m, superuser e || f_owned f = true ->
  writable e (set_mode f (N.land (N.lor m 144) 4095)) = true.
Proof.
  intros f m H. unfold writable; cbn [f_owned f_mode set_mode]. rewrite testbit7_after_gate.
  destruct (superuser e); cbn [orb] in *; [reflexivity | now rewrite H].
Qed.

Definition R := render (c_class c) p.

Lemma W_absent_create : forall k s, s p = None -> can_create e p = true ->
  exists s' f', write_item render e c s (p, k) = (s', Ok) /\ s' p = Some f' /\ f_cid f' = R /\
                f_owned f' = true /\ f_isdir f' = false /\
                (c_filepps c <> [] -> f_mode f' = last_mode (c_filepps c) 0).
Proof.
  intros k s E Hc. destruct k as [|[|]]; [| |destruct (c_linepps c) eqn:Hl]; unfold_writer Hd; rewrite ?Hl; cbn [negb andb];
  rewrite (handle_overwrite_absent e s p _ E); ex; unfold fs_exists; rewrite E, Hc; cbn [orb]; ex;
  unfold fs_copy, fs_write; rewrite E, Hc; ex; unfold fs_chmod; rewrite ?upd_same; cbn [f_owned]; rewrite ?orb_true_r; ex;
  match goal with |- context [run_filepps e ?s0 p ?pps] =>
    let f0 := fresh "f0" in let H := fresh "H" in
    evar (f0 : fmeta);
    destruct (run_filepps_full p pps s0 f0) as [s4 [H1 H2]]; subst f0;
    [apply upd_same | cbn [f_owned set_mode]; apply orb_true_r | rewrite H1; ex ]
  end;
  (eexists; eexists; split; [reflexivity|]; split; [exact H2|]; cbn [f_cid f_mode f_owned f_isdir set_mode];
   repeat split; auto; intros Hn; apply last_mode_irrel; exact Hn).
Qed.

Lemma W_refuse : forall k s f, s p = Some f -> c_allow c = false ->
  write_item render e c s (p, k) = (s, Err EExists).
Proof.
  intros k s f E Ha. destruct k as [|[|]]; [| |destruct (c_linepps c) eqn:Hl]; unfold_writer Hd; rewrite ?Hl; cbn [negb andb];
  rewrite Ha, (handle_overwrite_refuse e s p f E); ex; reflexivity.
Qed.

Lemma W_noperm : forall k s f, s p = Some f -> c_allow c = true -> superuser e || f_owned f = false ->
  write_item render e c s (p, k) = (s, Err EPermChmod).
Proof.
  intros k s f E Ha Hp. destruct k as [|[|]]; [| |destruct (c_linepps c) eqn:Hl]; unfold_writer Hd; rewrite ?Hl; cbn [negb andb];
  rewrite Ha, (handle_overwrite_allow e s p f E); unfold fs_chmod; rewrite E, Hp; ex; reflexivity.
Qed.

Lemma W_isdir : forall k s f, s p = Some f -> c_allow c = true -> superuser e || f_owned f = true -> f_isdir f = true ->
  exists s', write_item render e c s (p, k) = (s', Err EIsDir).
Proof.
  intros k s f E Ha Hp Hdir. destruct k as [|[|]]; [| |destruct (c_linepps c) eqn:Hl]; unfold_writer Hd; rewrite ?Hl; cbn [negb andb];
  rewrite Ha, (handle_overwrite_allow e s p f E); unfold fs_chmod at 1; rewrite E, Hp; ex;
  unfold fs_exists; rewrite upd_same; cbn [orb]; ex;
  unfold fs_copy, fs_write; rewrite upd_same; cbn [f_isdir set_mode]; rewrite Hdir; ex; eexists; reflexivity.
Qed.

Lemma W_overwrite : forall k s f, s p = Some f -> c_allow c = true -> superuser e || f_owned f = true -> f_isdir f = false ->
  exists s' f', write_item render e c s (p, k) = (s', Ok) /\ s' p = Some f' /\ f_cid f' = R /\
                f_owned f' = f_owned f /\ f_isdir f' = false /\
                (c_filepps c <> [] -> f_mode f' = last_mode (c_filepps c) 0).
Proof.
  intros k s f E Ha Hp Hdir. destruct k as [|[|]]; [| |destruct (c_linepps c) eqn:Hl]; unfold_writer Hd; rewrite ?Hl; cbn [negb andb];
  rewrite Ha, (handle_overwrite_allow e s p f E); unfold fs_chmod at 1; rewrite E, Hp; ex;
  unfold fs_exists; rewrite upd_same; cbn [orb]; ex;
  unfold fs_copy, fs_write; rewrite upd_same; cbn [f_isdir set_mode]; rewrite Hdir, (writable_after_gate f (f_mode f) Hp); ex;
  unfold fs_chmod; rewrite ?upd_same; cbn [f_owned set_cid set_mode]; rewrite ?Hp; ex;
  match goal with |- context [run_filepps e ?s0 p ?pps] =>
    let f0 := fresh "f0" in
    evar (f0 : fmeta);
    destruct (run_filepps_full p pps s0 f0) as [s4 [H1 H2]]; subst f0;
    [apply upd_same | cbn [f_owned set_mode set_cid]; exact Hp | rewrite H1; ex ]
  end;
  (eexists; eexists; split; [reflexivity|]; split; [exact H2|]; cbn [f_cid f_mode f_owned f_isdir set_mode set_cid];
   repeat split; auto; intros Hn; apply last_mode_irrel; exact Hn).
Qed.

Lemma W_ok : forall k s s', write_item render e c s (p, k) = (s', Ok) ->
  exists f', s' p = Some f' /\ f_cid f' = R /\ (c_filepps c <> [] -> f_mode f' = last_mode (c_filepps c) 0).
Proof.
  intros k s s' H. destruct (s p) as [f|] eqn:E.
  - destruct (c_allow c) eqn:Ha.
    + destruct (superuser e || f_owned f) eqn:Hp.
      * destruct (f_isdir f) eqn:Hdir.
        -- destruct (W_isdir k s f E Ha Hp Hdir) as [s2 H2]. congruence.
        -- destruct (W_overwrite k s f E Ha Hp Hdir) as [s2 [f2 [H2 [E2 [C2 [_ [_ M2]]]]]]].
           rewrite H2 in H. injection H as <-. eauto.
      * rewrite (W_noperm k s f E Ha Hp) in H. discriminate.
    + rewrite (W_refuse k s f E Ha) in H. discriminate.
  - destruct (can_create e p) eqn:Hc.
    + destruct (W_absent_create k s E Hc) as [s2 [f2 [H2 [E2 [C2 [_ [_ M2]]]]]]].
      rewrite H2 in H. injection H as <-. eauto.
    + rewrite (W_absent_nocreate k s E Hc) in H. discriminate.
Qed.
End W.

Section Dry.
Variable render : N -> path -> N.
Variable e : env.
Lemma W_dry : forall c it s, c_dryrun c = true -> write_item render e c s it = (s, Ok).
Proof.
  intros c [p k] s Hd. destruct k as [|[|]];
  unfold write_item, skel_of_kind, generate_type_skel, generate_header_skel, copy_header_skel;
  cbn [fst snd run_skel1 run_act1 forallb guard_holds]; rewrite ?Hd; cbn [negb andb]; reflexivity.
Qed.
End Dry.

(* ------------------------------------------------------------------------------------------ *)
(* a whole run                                                                                  *)
(* ------------------------------------------------------------------------------------------ *)
Section Run.
Variable render : N -> path -> N.
Variable e : env.

Notation WL c := (run_list (write_item render e c)).

Lemma item_frame : forall c it s q, q <> fst it -> fst (write_item render e c s it) q = s q.
Proof.
  intros c it s q H. apply (write_item_rel render e (fun x => x = fst it) c it eq_refl s q). congruence.
Qed.

Lemma list_frame : forall c l s q, ~ In q (map fst l) -> fst (WL c s l) q = s q.
Proof. intros c l s q H. now apply (items_rel render e c l s q). Qed.

Lemma list_canonical : forall c, c_dryrun c = false -> forall l s s' p,
  WL c s l = (s', Ok) -> In p (map fst l) ->
  exists f', s' p = Some f' /\ f_cid f' = render (c_class c) p /\
             (c_filepps c <> [] -> f_mode f' = last_mode (c_filepps c) 0).
Proof.
  intros c Hd l. induction l as [|[p0 k] r IH]; intros s s' p H Hin; cbn [run_list map fst] in *.
  - contradiction.
  - apply bind_ok in H. destruct H as [s1 [H1 H2]].
    destruct (in_dec N.eq_dec p (map fst r)) as [Hr|Hr].
    + eapply IH; eauto.
    + destruct Hin as [<-|Hin]; [|contradiction]. cbn [fst] in *.
      destruct (W_ok render e c p0 Hd k s s1 H1) as [f' [E [C M]]].
      exists f'. split; [|split; assumption].
      rewrite <- E. replace s' with (fst (WL c s1 r)) by now rewrite H2.
      now apply list_frame.
Qed.

Lemma list_dry : forall c, c_dryrun c = true -> forall l s, WL c s l = (s, Ok).
Proof.
  intros c Hd l. induction l as [|it r IH]; intros s; cbn [run_list]; [reflexivity|].
  rewrite W_dry by exact Hd. rewrite bind_pair_ok. apply IH.
Qed.

(* ---- no overwrite ---- *)
Lemma list_noov_keep : forall c, c_dryrun c = false -> c_allow c = false -> forall l s q,
  s q <> None -> fst (WL c s l) q = s q.
Proof.
  intros c Hd Ha l. induction l as [|[p0 k] r IH]; intros s q Hq; cbn [run_list]; [reflexivity|].
  destruct (s p0) as [f|] eqn:E.
  - rewrite (W_refuse render e c p0 Hd k s f E Ha). reflexivity.
  - assert (Hne : q <> p0) by congruence.
    pose proof (item_frame c (p0, k) s q Hne) as F.
    destruct (write_item render e c s (p0, k)) as [s1 [|er]]; cbn [fst] in F.
    + rewrite bind_pair_ok. rewrite IH by congruence. exact F.
    + rewrite bind_pair_err. exact F.
Qed.

Lemma list_noov_conflict : forall c, c_dryrun c = false -> c_allow c = false -> forall l s,
  (forall p, In p (map fst l) -> can_create e p = true) ->
  (exists p, In p (map fst l) /\ s p <> None) -> snd (WL c s l) = Err EExists.
Proof.
  intros c Hd Ha l. induction l as [|[p0 k] r IH]; intros s Hc [p [Hin Hp]]; cbn [run_list map fst] in *; [contradiction|].
  destruct (s p0) as [f|] eqn:E.
  - rewrite (W_refuse render e c p0 Hd k s f E Ha). reflexivity.
  - destruct Hin as [->|Hin]; [congruence|].
    destruct (W_absent_create render e c p0 Hd k s E (Hc p0 (or_introl eq_refl))) as [s1 [f1 [H1 _]]].
    rewrite H1, bind_pair_ok. apply IH.
    + intros x Hx. apply Hc. now right.
    + exists p. split; [exact Hin|].
      replace s1 with (fst (write_item render e c s (p0, k))) by now rewrite H1.
      rewrite item_frame by (cbn [fst]; congruence). exact Hp.
Qed.

Lemma list_noov_clean : forall c, c_dryrun c = false -> forall l s,
  NoDup (map fst l) ->
  (forall p, In p (map fst l) -> can_create e p = true) ->
  (forall p, In p (map fst l) -> s p = None) -> snd (WL c s l) = Ok.
Proof.
  intros c Hd l. induction l as [|[p0 k] r IH]; intros s Hnd Hc Hn; cbn [run_list map fst] in *; [reflexivity|].
  inversion Hnd as [|? ? Hnot Hnd']; subst.
  destruct (W_absent_create render e c p0 Hd k s (Hn p0 (or_introl eq_refl)) (Hc p0 (or_introl eq_refl))) as [s1 [f1 [H1 _]]].
  rewrite H1, bind_pair_ok. apply IH.
  - exact Hnd'.
  - intros p Hp. apply Hc. now right.
  - intros p Hp. replace s1 with (fst (write_item render e c s (p0, k))) by now rewrite H1.
    rewrite item_frame; [apply Hn; now right | cbn [fst]; intros ->; contradiction].
Qed.

Lemma list_noov_exists_pre : forall c, c_dryrun c = false -> c_allow c = false -> forall l s,
  NoDup (map fst l) -> snd (WL c s l) = Err EExists -> exists p, In p (map fst l) /\ s p <> None.
Proof.
  intros c Hd Ha l. induction l as [|[p0 k] r IH]; intros s Hnd H; cbn [run_list map fst] in *; [discriminate|].
  inversion Hnd as [|? ? Hnot Hnd']; subst.
  destruct (s p0) as [f|] eqn:E.
  - exists p0. split; [now left | congruence].
  - destruct (can_create e p0) eqn:Hc.
    + destruct (W_absent_create render e c p0 Hd k s E Hc) as [s1 [f1 [H1 _]]].
      rewrite H1, bind_pair_ok in H. destruct (IH s1 Hnd' H) as [p [Hin Hp]].
      exists p. split; [now right|].
      replace s1 with (fst (write_item render e c s (p0, k))) in Hp by now rewrite H1.
      rewrite item_frame in Hp; [exact Hp | cbn [fst]; intros ->; contradiction].
    + rewrite (W_absent_nocreate render e c p0 Hd k s E Hc), bind_pair_err in H. discriminate.
Qed.

Lemma list_noov_conflict_fails : forall c, c_dryrun c = false -> c_allow c = false -> forall l s,
  (exists p, In p (map fst l) /\ s p <> None) -> snd (WL c s l) <> Ok.
Proof.
  intros c Hd Ha l. induction l as [|[p0 k] r IH]; intros s [p [Hin Hp]]; cbn [run_list map fst] in *; [contradiction|].
  destruct (s p0) as [f|] eqn:E.
  - rewrite (W_refuse render e c p0 Hd k s f E Ha). discriminate.
  - destruct Hin as [->|Hin]; [congruence|].
    pose proof (item_frame c (p0, k) s p) as F. cbn [fst] in F.
    destruct (write_item render e c s (p0, k)) as [s1 [|er]]; cbn [fst] in F.
    + rewrite bind_pair_ok. apply IH. exists p. split; [exact Hin|]. rewrite F; congruence.
    + rewrite bind_pair_err. discriminate.
Qed.

(* ---- overwriting always works on files the runner may chmod ---- *)
Definition target_ready (s : fs) (p : path) : Prop :=
  match s p with None => can_create e p = true | Some f => f_isdir f = false end.

Lemma list_total : forall c, c_dryrun c = false -> c_allow c = true -> forall l s,
  chmodable e s -> (forall p, In p (map fst l) -> target_ready s p) -> snd (WL c s l) = Ok.
Proof.
  intros c Hd Ha l. induction l as [|[p0 k] r IH]; intros s Hch Hr; cbn [run_list map fst] in *; [reflexivity|].
  assert (Hstep : exists s1 f1, write_item render e c s (p0, k) = (s1, Ok) /\ s1 p0 = Some f1 /\ f_isdir f1 = false).
  { pose proof (Hr p0 (or_introl eq_refl)) as R0. unfold target_ready in R0. destruct (s p0) as [f|] eqn:E.
    - destruct (W_overwrite render e c p0 Hd k s f E Ha (Hch p0 f E) R0) as [s1 [f1 [H1 [E1 [_ [_ [D1 _]]]]]]]. eauto.
    - destruct (W_absent_create render e c p0 Hd k s E R0) as [s1 [f1 [H1 [E1 [_ [_ [D1 _]]]]]]]. eauto. }
  destruct Hstep as [s1 [f1 [H1 [E1 D1]]]]. rewrite H1, bind_pair_ok.
  assert (Rl : rel (fun x => x = p0) s s1).
  { replace s1 with (fst (write_item render e c s (p0, k))) by now rewrite H1.
    apply (write_item_rel render e (fun x => x = p0) c (p0, k) eq_refl s). }
  apply IH.
  - eapply rel_chmodable; eauto.
  - intros p Hp. unfold target_ready. destruct (N.eq_dec p p0) as [->|Hne].
    + now rewrite E1.
    + destruct (Rl p) as [F _]. rewrite F by exact Hne. apply Hr. now right.
Qed.

End Run.

(* ------------------------------------------------------------------------------------------ *)
(* the statements of C12                                                                        *)
(* ------------------------------------------------------------------------------------------ *)
Section Final.
Variable render : N -> path -> N.
Variable e : env.

Notation STEP := (step render e).
Notation HIST := (history render e).

Lemma targets_items : forall c, targets c = map fst (items c).
Proof. reflexivity. Qed.

(* any state -- in particular the state after any history *)
Lemma canonical_any_state : forall s c p,
  c_dryrun c = false -> c_filepps c <> [] -> snd (STEP s c) = Ok -> In p (targets c) ->
  obs (fst (STEP s c) p) = canonical render e c p.
Proof.
  intros s c p Hd Hpp Hok Hin. rewrite step_flat in *.
  destruct (run_list (write_item render e c) s (items c)) as [s' r] eqn:H. cbn [fst snd] in *. subst r.
  destruct (list_canonical render e c Hd (items c) s s' p H Hin) as [f' [E [C M]]].
  rewrite E. unfold obs, canonical. rewrite C, (M Hpp). f_equal. f_equal. now apply last_mode_irrel.
Qed.

Theorem regen_canonical : forall h s0 c p,
  c_dryrun c = false -> c_filepps c <> [] ->
  snd (STEP (HIST s0 h) c) = Ok -> In p (targets c) ->
  obs (fst (STEP (HIST s0 h) c) p) = canonical render e c p.
Proof. intros h s0 c p. apply canonical_any_state. Qed.

Theorem regen_content_canonical : forall h s0 c p,
  c_dryrun c = false -> snd (STEP (HIST s0 h) c) = Ok -> In p (targets c) ->
  exists f, fst (STEP (HIST s0 h) c) p = Some f /\ f_cid f = render (c_class c) p.
Proof.
  intros h s0 c p Hd Hok Hin. rewrite step_flat in *.
  destruct (run_list (write_item render e c) (HIST s0 h) (items c)) as [s' r] eqn:H. cbn [fst snd] in *. subst r.
  destruct (list_canonical render e c Hd (items c) _ s' p H Hin) as [f' [E [C _]]]. eauto.
Qed.

Theorem regen_equals_fresh : forall h s0 c p,
  c_dryrun c = false -> c_filepps c <> [] ->
  snd (STEP (HIST s0 h) c) = Ok -> snd (STEP empty_fs c) = Ok -> In p (targets c) ->
  obs (fst (STEP (HIST s0 h) c) p) = obs (fst (STEP empty_fs c) p).
Proof.
  intros h s0 c p Hd Hpp H1 H2 Hin.
  rewrite (canonical_any_state (HIST s0 h) c p Hd Hpp H1 Hin).
  now rewrite (canonical_any_state empty_fs c p Hd Hpp H2 Hin).
Qed.

Theorem no_overwrite_safe : forall s c q, c_allow c = false -> s q <> None -> fst (STEP s c) q = s q.
Proof.
  intros s c q Ha Hq. rewrite step_flat. destruct (c_dryrun c) eqn:Hd.
  - now rewrite list_dry.
  - now apply list_noov_keep.
Qed.

Theorem no_overwrite_safe_history : forall h s0 q,
  (forall c, In c h -> c_allow c = false) -> s0 q <> None -> HIST s0 h q = s0 q.
Proof.
  induction h as [|c r IH]; intros s0 q Hall Hq; cbn [history fold_left]; [reflexivity|].
  assert (E : fst (STEP s0 c) q = s0 q) by (apply no_overwrite_safe; [apply Hall; now left | exact Hq]).
  unfold history in IH. rewrite IH.
  - exact E.
  - intros c' Hc'. apply Hall. now right.
  - congruence.
Qed.

Theorem no_overwrite_error_iff : forall s c,
  c_dryrun c = false -> c_allow c = false -> NoDup (targets c) ->
  (forall p, In p (targets c) -> can_create e p = true) ->
  (snd (STEP s c) = Err EExists <-> exists p, In p (targets c) /\ s p <> None).
Proof.
  intros s c Hd Ha Hnd Hc. rewrite step_flat. split.
  - now apply list_noov_exists_pre.
  - now apply list_noov_conflict.
Qed.

Theorem no_overwrite_ok_iff : forall s c,
  c_dryrun c = false -> c_allow c = false -> NoDup (targets c) ->
  (forall p, In p (targets c) -> can_create e p = true) ->
  (snd (STEP s c) = Ok <-> forall p, In p (targets c) -> s p = None).
Proof.
  intros s c Hd Ha Hnd Hc. rewrite step_flat. split.
  - intros H p Hin. destruct (s p) as [f|] eqn:E; [|reflexivity]. exfalso.
    assert (X : snd (run_list (write_item render e c) s (items c)) = Err EExists).
    { apply list_noov_conflict; auto. exists p. split; [exact Hin | congruence]. }
    congruence.
  - intros H. now apply list_noov_clean.
Qed.

Theorem no_overwrite_conflict_fails : forall s c,
  c_dryrun c = false -> c_allow c = false ->
  (exists p, In p (targets c) /\ s p <> None) -> snd (STEP s c) <> Ok.
Proof. intros s c Hd Ha H. rewrite step_flat. now apply list_noov_conflict_fails. Qed.

Theorem dry_run_inert : forall s c, c_dryrun c = true -> STEP s c = (s, Ok).
Proof. intros s c Hd. rewrite step_flat. now apply list_dry. Qed.

Theorem regen_total_history : forall h s0 c,
  chmodable e s0 ->
  (forall p, In p (targets c) -> can_create e p = true /\ (forall f, s0 p = Some f -> f_isdir f = false)) ->
  c_allow c = true -> c_dryrun c = false ->
  snd (STEP (HIST s0 h) c) = Ok.
Proof.
  intros h s0 c Hch Ht Ha Hd. rewrite step_flat.
  pose proof (history_rel render e h s0) as Rl.
  apply list_total; auto.
  - eapply rel_chmodable; eauto.
  - intros p Hp. destruct (Ht p Hp) as [Hc Hdir]. unfold target_ready.
    destruct (HIST s0 h p) as [f'|] eqn:E; [|exact Hc].
    pose proof (rel_isdir render _ _ _ _ _ Rl E) as X. destruct (s0 p) as [f|] eqn:E0.
    + rewrite X. now apply Hdir.
    + exact X.
Qed.

Theorem chmodable_history : forall h s0, chmodable e s0 -> chmodable e (HIST s0 h).
Proof. intros h s0 H. eapply rel_chmodable; [apply history_rel | exact H]. Qed.

(* all three writers are "the gate, then the rest" *)
Theorem same_gate : forall c p k, c_dryrun c = false ->
  exists rest, forall s, write_item render e c s (p, k) = bind (handle_overwrite e s p (c_allow c)) rest.
Proof.
  intros c p k Hd. destruct k as [|[|]].
  - eexists. intros s. unfold_writer Hd. rewrite bind_ret. reflexivity.
  - eexists. intros s. unfold_writer Hd. rewrite bind_ret. reflexivity.
  - eexists. intros s. unfold_writer Hd. reflexivity.
Qed.

Theorem cli_setfilemode_last : last cli_pp_list (false, KTrim) = (true, KSetFileMode).
Proof. reflexivity. Qed.

End Final.

(* without SetFileMode (possible through the Python API only) the mode of an overwritten file is not the mode of a fresh one *)
Theorem mode_without_setfilemode_refuted : forall render : N -> path -> N,
  exists e s c p, c_filepps c = [] /\ c_dryrun c = false /\ In p (targets c) /\
                  snd (step render e s c) = Ok /\ snd (step render e empty_fs c) = Ok /\
                  obs (fst (step render e s c) p) <> obs (fst (step render e empty_fs c) p).
Proof.
  intros render.
  exists (mkEnv false 18 (fun _ => true)), (upd empty_fs 1 (mkF 7 292 true false)),
         (mkCfg 1 true false false [] false true [] [1] 420), 1.
  repeat split; try reflexivity; try (now left).
  vm_compute. intros H. injection H. discriminate.
Qed.
