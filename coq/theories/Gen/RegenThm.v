(* C12 -- proofs about the regeneration model (Gen/Regen.v over Generated/Gen_Regen.v). *)
From Coq Require Import NArith List Bool Lia.
From Verif Require Import RegenBase Gen_Regen Regen.
Import ListNotations.
Open Scope N_scope.

(* ------------------------------------------------------------------------------------------ *)
(* basics                                                                                       *)
(* ------------------------------------------------------------------------------------------ *)
Lemma upd_same : forall s p f, upd s p f p = Some f.
Proof. intros; unfold upd; now rewrite N.eqb_refl. Qed.

Lemma upd_other : forall s p f q, q <> p -> upd s p f q = s q.
Proof. intros s p f q H; unfold upd; destruct (N.eqb_spec q p); congruence. Qed.

Lemma bind_pair_ok : forall s k, bind (s, Ok) k = k s.
Proof. reflexivity. Qed.

Lemma bind_pair_err : forall s e k, bind (s, Err e) k = (s, Err e).
Proof. reflexivity. Qed.

Lemma bind_ok : forall x k s', bind x k = (s', Ok) -> exists s1, x = (s1, Ok) /\ k s1 = (s', Ok).
Proof.
  intros [s1 r] k s'; unfold bind; cbn [fst snd]; destruct r; intros H.
  - eauto.
  - discriminate.
Qed.

Lemma bind_ret : forall x, bind x (fun s => (s, Ok)) = x.
Proof. intros [s r]; unfold bind; cbn [fst snd]; now destruct r. Qed.

Lemma testbit7_after_gate : forall m, N.testbit (N.land (N.lor m 144) 4095) 7 = true.
Proof.
  intros m; rewrite N.land_spec, N.lor_spec.
  replace (N.testbit 144 7) with true by reflexivity.
  replace (N.testbit 4095 7) with true by reflexivity.
  now rewrite orb_true_r.
Qed.

Lemma last_mode_irrel : forall pps d d', no_external pps = true -> pps <> [] -> last_mode pps d = last_mode pps d'.
Proof. intros [|[m|f] r] d d' N H; [congruence | reflexivity | discriminate]. Qed.

(* ------------------------------------------------------------------------------------------ *)
(* the translated functions, characterised (the only lemmas that look inside them)              *)
(* ------------------------------------------------------------------------------------------ *)
Lemma resolve_id : forall e p, links e p = None -> resolve e p = p.
Proof. intros e p H. unfold resolve. now rewrite H. Qed.

Lemma ExternalProgram_call_eq : forall e s f p, ExternalProgram_call e s f p = (fs_edit e s (resolve e p) f, p).
Proof. reflexivity. Qed.

Lemma SetFileMode_call_eq : forall e s m p, SetFileMode_call e s m p = (fs_chmod e s (resolve e p) m, p).
Proof. intros; unfold SetFileMode_call; rewrite ?bind_ret; reflexivity. Qed.

(* the gate at a path that is a plain entry: not a symbolic link, not a device/FIFO/socket *)
Ltac unfold_gate L S H D :=
  unfold handle_overwrite, resolve, is_symlink; rewrite ?L; unfold fs_exists_at, fs_exists, fs_is_file, fs_is_dir, fs_st_mode; rewrite ?S;
  repeat (progress (rewrite ?H, ?D; cbv [bind fst snd negb andb orb])).

Lemma handle_overwrite_absent : forall e s p a, links e p = None -> special e p = false -> s p = None -> handle_overwrite e s p a = (s, Ok).
Proof. intros e s p a L S H. unfold_gate L S H H. reflexivity. Qed.

Lemma handle_overwrite_refuse : forall e s p f, links e p = None -> special e p = false -> s p = Some f -> f_isdir f = false ->
  handle_overwrite e s p false = (s, Err EExists).
Proof. intros e s p f L S H D. unfold_gate L S H D. reflexivity. Qed.

Lemma handle_overwrite_refuse_any : forall e s p f, links e p = None -> special e p = false -> s p = Some f ->
  exists er, handle_overwrite e s p false = (s, Err er).
Proof. intros e s p f L S H. destruct (f_isdir f) eqn:D; unfold_gate L S H D; eexists; reflexivity. Qed.

Lemma handle_overwrite_allow : forall e s p f, links e p = None -> special e p = false -> s p = Some f -> f_isdir f = false ->
  handle_overwrite e s p true = fs_chmod e s p (N.lor (f_mode f) 144).
Proof. intros e s p f L S H D. unfold_gate L S H D. reflexivity. Qed.

(* FIX-STATE OBLIGATION (7df01dd): a directory at the path is refused, whether or not overwriting is allowed.  Reverting the
   fix breaks this lemma. *)
Lemma handle_overwrite_dir : forall e s p f a, links e p = None -> special e p = false -> s p = Some f -> f_isdir f = true ->
  exists er, handle_overwrite e s p a = (s, Err er).
Proof. intros e s p f a L S H D. destruct a; unfold_gate L S H D; eexists; reflexivity. Qed.

Lemma handle_overwrite_conflict : forall e s p f, links e p = None -> special e p = false -> s p = Some f ->
  handle_overwrite e s p false = (s, Err EExists).
Proof. intros e s p f L S H. destruct (f_isdir f) eqn:D; unfold_gate L S H D; reflexivity. Qed.

(* FIX-STATE OBLIGATION (84a8551): the gate refuses symbolic links (live or dangling) at the path of a file to generate,
   whether or not overwriting is allowed, and leaves the tree as it is.  Reverting the fix breaks this theorem. *)
Definition gate_refuses_links : Prop :=
  forall e s p a d, links e p = Some d -> exists er, handle_overwrite e s p a = (s, Err er).

Theorem gate_refuses_links_now : gate_refuses_links.
Proof.
  intros e s p a d L. unfold handle_overwrite, is_symlink. rewrite L. rewrite ?orb_true_r. cbn [negb]. rewrite ?andb_false_r.
  eexists. reflexivity.
Qed.

(* entries that are neither file nor directory nor link (devices, FIFOs, sockets): refused once
   design_notes/C12_nonregular_fix.patch has landed (is_file() instead of not is_dir()).  Until then a premise. *)
Definition gate_refuses_special : Prop :=
  forall e s p a, links e p = None -> special e p = true -> exists er, handle_overwrite e s p a = (s, Err er).

(* FIX-STATE OBLIGATION (5a15038 / F-NONREGULAR-TARGET): unconditional; reverting is_file() to not is_dir() breaks this theorem *)
Theorem gate_refuses_special_now : gate_refuses_special.
Proof.
  intros e s p a L S. unfold handle_overwrite, resolve, is_symlink, fs_exists_at, fs_is_file. rewrite L, S.
  rewrite ?orb_true_r. destruct (s p) as [f|]; cbn [negb]; rewrite ?andb_false_r; eexists; reflexivity.
Qed.

(* ------------------------------------------------------------------------------------------ *)
(* the footprint relation: what any sequence of operations can do to a tree when it only        *)
(* addresses entries in T and only creates missing directories in A                             *)
(* ------------------------------------------------------------------------------------------ *)
Definition meta_ok (o o' : option fmeta) : Prop :=
  match o, o' with
  | Some f, Some f' => f_owned f' = f_owned f /\ f_isdir f' = f_isdir f
  | None, Some f' => f_owned f' = true
  | None, None => True
  | Some _, None => False
  end.

Definition rel (e : env) (T A : path -> Prop) (s s' : fs) : Prop :=
  forall q, (~ T q -> s' q = s q \/ (A q /\ s q = None /\ s' q = Some (new_dir e))) /\ meta_ok (s q) (s' q) /\
            (s q = None -> forall f', s' q = Some f' -> f_isdir f' = true -> A q).   (* directories appear only in A *)

Lemma meta_ok_refl : forall o, meta_ok o o.
Proof. intros [f|]; cbn; auto. Qed.

Lemma meta_ok_trans : forall a b c, meta_ok a b -> meta_ok b c -> meta_ok a c.
Proof.
  intros [a|] [b|] [c|]; cbn; intros H1 H2; auto; try contradiction.
  - destruct H1, H2; split; congruence.
  - destruct H2; congruence.
Qed.

Lemma rel_refl : forall e T A s, rel e T A s s.
Proof. intros e T A s q; split; [|split]; auto using meta_ok_refl. intros H f' E; congruence. Qed.

Lemma rel_trans : forall e T A s1 s2 s3, rel e T A s1 s2 -> rel e T A s2 s3 -> rel e T A s1 s3.
Proof.
  intros e T A s1 s2 s3 H1 H2 q. destruct (H1 q) as [A1 [B1 C1]], (H2 q) as [A2 [B2 C2]]. split; [|split].
  - intros H. destruct (A1 H) as [E1|[Aq [N1 E1]]], (A2 H) as [E2|[Aq2 [N2 E2]]].
    + left; congruence.
    + right. split; [exact Aq2 | split; congruence].
    + right. split; [exact Aq | split; congruence].
    + congruence.
  - eauto using meta_ok_trans.
  - intros N1 f3 E3 D3. destruct (s2 q) as [f2|] eqn:E2.
    + apply (C1 N1 f2 eq_refl). rewrite E3 in B2. cbn in B2. destruct B2 as [_ B2]. congruence.
    + now apply (C2 eq_refl f3).
Qed.

Lemma rel_weaken : forall e (T T' A A' : path -> Prop) s s',
  (forall q, T q -> T' q) -> (forall q, A q -> A' q) -> rel e T A s s' -> rel e T' A' s s'.
Proof.
  intros e T T' A A' s s' HT HA R q. destruct (R q) as [X [Y Z0]]. split; [|split]; auto.
  - intros H. destruct (X (fun t => H (HT q t))) as [E|[Aq Z]]; [left; exact E | right; split; auto].
  - intros N f' E D. apply HA. eapply Z0; eauto.
Qed.

Lemma rel_upd_T : forall e (T A : path -> Prop) s p f, T p -> meta_ok (s p) (Some f) -> (s p = None -> f_isdir f = false) ->
  rel e T A s (upd s p f).
Proof.
  intros e T A s p f Tp M D q. destruct (N.eq_dec q p) as [->|Hq].
  - rewrite upd_same. split; [intros H; contradiction | split; [exact M|]].
    intros N f' E D'. injection E as <-. rewrite (D N) in D'. discriminate.
  - rewrite upd_other by exact Hq. apply rel_refl.
Qed.

Lemma rel_upd_A : forall e (T A : path -> Prop) s a, A a -> s a = None -> rel e T A s (upd s a (new_dir e)).
Proof.
  intros e T A s a Aa N q. destruct (N.eq_dec q a) as [->|Hq].
  - rewrite upd_same. split; [intros _; right; auto | split; [rewrite N; reflexivity | auto]].
  - rewrite upd_other by exact Hq. apply rel_refl.
Qed.

Definition rel_fn (e : env) (T A : path -> Prop) (f : fs -> fs * result) : Prop := forall s, rel e T A s (fst (f s)).

Lemma rel_bind : forall e T A f k s, rel_fn e T A f -> rel_fn e T A k -> rel e T A s (fst (bind (f s) k)).
Proof.
  intros e T A f k s Hf Hk. specialize (Hf s). destruct (f s) as [s1 r]; unfold bind; cbn [fst snd] in *.
  destruct r; cbn [fst]; [eapply rel_trans; [exact Hf | apply Hk] | exact Hf].
Qed.

Section Footprint.
Variable render : fs -> N -> N -> path -> N.
Variable e : env.

Lemma fs_chmod_rel : forall (T A : path -> Prop) p m, T p -> rel_fn e T A (fun s => fs_chmod e s p m).
Proof.
  intros T A p m Tp s; unfold fs_chmod. destruct (s p) as [f|] eqn:E; cbn [fst]; [|apply rel_refl].
  destruct (superuser e || f_owned f); cbn [fst]; [|apply rel_refl].
  apply rel_upd_T; auto; [rewrite E; cbn; auto | congruence].
Qed.

Lemma fs_write_in_rel : forall (T A : path -> Prop) d q c, T q -> rel_fn e T A (fun s => fs_write_in e s d q c).
Proof.
  intros T A d q c Tq s; unfold fs_write_in. destruct (s q) as [f|] eqn:E.
  - destruct (f_isdir f); cbn [fst]; [apply rel_refl|]. destruct (special e q); cbn [fst]; [apply rel_refl|].
    destruct (writable e f); cbn [fst]; [|apply rel_refl].
    apply rel_upd_T; auto; [rewrite E; cbn; auto | congruence].
  - destruct (allows e s d); cbn [fst]; [|apply rel_refl].
    apply rel_upd_T; auto. rewrite E; cbn; auto.
Qed.

Lemma fs_copy_rel : forall (T A : path -> Prop) p c m, T p -> T (child e p) -> rel_fn e T A (fun s => fs_copy e s p c m).
Proof.
  intros T A p c m Tp Tc s. unfold fs_copy. destruct (fs_is_dir s p).
  - apply (rel_bind e T A (fun s => fs_write_in e s (Some p) (child e p) c) (fun s1 => fs_chmod e s1 (child e p) m)).
    + now apply fs_write_in_rel.
    + now apply fs_chmod_rel.
  - apply (rel_bind e T A (fun s => fs_write e s p c) (fun s1 => fs_chmod e s1 p m)).
    + intros s0. now apply fs_write_in_rel.
    + now apply fs_chmod_rel.
Qed.

Lemma mkdirs_rel : forall (T A : path -> Prop) l prev, (forall a, In a l -> A a) -> rel_fn e T A (mkdirs e prev l).
Proof.
  intros T A l. induction l as [|a r IH]; intros prev HA s; cbn [mkdirs].
  - apply rel_refl.
  - destruct (s a) as [f|] eqn:E.
    + destruct (f_isdir f); [|apply rel_refl]. apply IH. intros x Hx; apply HA; now right.
    + destruct (allows e s prev); [|apply rel_refl].
      eapply rel_trans; [apply rel_upd_A; [apply HA; now left | exact E] |].
      apply IH. intros x Hx; apply HA; now right.
Qed.

Lemma handle_overwrite_rel : forall (T A : path -> Prop) p a, T (resolve e p) -> rel_fn e T A (fun s => handle_overwrite e s p a).
Proof.
  intros T A p a Tp s. unfold handle_overwrite, bind.
  repeat (match goal with |- context [if ?b then _ else _] => destruct b end); cbn [fst snd];
    first [apply rel_refl | now apply fs_chmod_rel].
Qed.

Lemma fs_edit_rel : forall (T A : path -> Prop) p f, T p -> rel_fn e T A (fun s => fs_edit e s p f).
Proof.
  intros T A p f Tp s; unfold fs_edit. destruct (s p) as [m|] eqn:E; cbn [fst]; [|apply rel_refl].
  destruct (f_isdir m); cbn [fst]; [apply rel_refl|]. destruct (writable e m); cbn [fst]; [|apply rel_refl].
  apply rel_upd_T; auto; [rewrite E; cbn; auto | congruence].
Qed.

Lemma run_filepps_rel : forall (T A : path -> Prop) p pps, T (resolve e p) -> rel_fn e T A (fun s => run_filepps e s p pps).
Proof.
  intros T A p pps Tp. induction pps as [|[m|f] r IH]; intros s; cbn [run_filepps].
  - apply rel_refl.
  - rewrite SetFileMode_call_eq; cbn [fst snd].
    apply (rel_bind e T A (fun s => fs_chmod e s (resolve e p) m) (fun s1 => run_filepps e s1 p r)); auto.
    now apply fs_chmod_rel.
  - rewrite ExternalProgram_call_eq; cbn [fst snd].
    apply (rel_bind e T A (fun s => fs_edit e s (resolve e p) f) (fun s1 => run_filepps e s1 p r)); auto.
    now apply fs_edit_rel.
Qed.

Definition is_copy (a : act) : bool := match a with AShutilCopy => true | _ => false end.

Lemma run_act_rel : forall (T A : path -> Prop) c p a,
  T (resolve e p) -> (is_copy a = true -> T (child e (resolve e p))) -> (forall x, In x (ancestors e p) -> A x) ->
  rel_fn e T A (run_act render e c p a).
Proof.
  intros T A c p a Tp Tc HA s. destruct a; cbn [run_act]; try apply rel_refl.
  - now apply handle_overwrite_rel.
  - now apply mkdirs_rel.
  - now apply fs_write_in_rel.
  - apply fs_copy_rel; auto.
  - now apply run_filepps_rel.
Qed.

Lemma run_acts_rel : forall (T A : path -> Prop) c p l,
  T (resolve e p) -> (existsb is_copy l = true -> T (child e (resolve e p))) -> (forall x, In x (ancestors e p) -> A x) ->
  rel_fn e T A (run_acts render e c p l).
Proof.
  intros T A c p l Tp Tc HA. induction l as [|a r IH]; intros s; cbn [run_acts].
  - apply rel_refl.
  - cbn [existsb] in Tc. apply (rel_bind e T A (run_act render e c p a) (run_acts render e c p r)).
    + apply run_act_rel; auto. intros H. apply Tc. now rewrite H.
    + apply IH. intros H. apply Tc. rewrite H. apply orb_true_r.
Qed.

Lemma existsb_firstn : forall (f : act -> bool) j l, existsb f (firstn j l) = true -> existsb f l = true.
Proof.
  intros f j. induction j as [|j IH]; intros [|a r]; cbn [firstn existsb]; try discriminate; auto.
  intros H. apply orb_true_iff in H. apply orb_true_iff. destruct H; [left | right]; auto.
Qed.

(* directories a configuration may have to create *)
Definition anc (c : cfg) (q : path) : Prop := In q (dir_targets e c).

Lemma item_anc : forall c it x, In it (items c) -> In x (ancestors e (fst it)) -> anc c x.
Proof.
  intros c it x H Hx. unfold anc, dir_targets. apply in_flat_map. exists (fst it). split; [|exact Hx].
  unfold targets. now apply in_map.
Qed.

Lemma run_list_rel : forall (A0 : Type) (T A : path -> Prop) (f : fs -> A0 -> fs * result) l,
  (forall x, In x l -> rel_fn e T A (fun s => f s x)) -> rel_fn e T A (fun s => run_list f s l).
Proof.
  intros A0 T A f l. induction l as [|x r IH]; intros H s; cbn [run_list].
  - apply rel_refl.
  - apply (rel_bind e T A (fun s => f s x) (fun s1 => run_list f s1 r)).
    + apply H; now left.
    + apply IH. intros y Hy. apply H; now right.
Qed.

Lemma incl_firstn : forall (A0 : Type) n (l : list A0) x, In x (firstn n l) -> In x l.
Proof. intros A0 n. induction n as [|n IH]; intros [|a r] x; cbn [firstn In]; try tauto. intros [->|H]; [now left | right; auto]. Qed.

Lemma run_list_app : forall (A0 : Type) (f : fs -> A0 -> fs * result) l1 l2 s,
  run_list f s (l1 ++ l2) = bind (run_list f s l1) (fun s1 => run_list f s1 l2).
Proof.
  intros A0 f l1 l2. induction l1 as [|x r IH]; intros s; cbn [run_list app].
  - reflexivity.
  - destruct (f s x) as [s1 [|er]]; unfold bind at 1 3; cbn [fst snd].
    + apply IH.
    + reflexivity.
Qed.

(* one run = the writers of all items in order *)
Lemma step_flat : forall s c, step render e s c = run_list (write_item render e c) s (items c).
Proof.
  intros s c. unfold step, items. generalize cli_generate_phases as phs. intros phs; revert s.
  induction phs as [|ph r IH]; intros s; cbn [run_list flat_map].
  - reflexivity.
  - rewrite run_list_app. unfold run_phase at 1.
    destruct (run_list (write_item render e c) s (phase_items c ph)) as [s1 [|er]]; unfold bind; cbn [fst snd].
    + apply IH.
    + reflexivity.
Qed.

Definition anc_h (h : list event) (q : path) : Prop := exists ev, In ev h /\ anc (ev_cfg ev) q.

(* consequences of the footprint *)
Definition chmodable (s : fs) : Prop := forall q f, s q = Some f -> superuser e || f_owned f = true.

Lemma rel_chmodable : forall T A s s', rel e T A s s' -> chmodable s -> chmodable s'.
Proof.
  intros T A s s' R H q f' E. destruct (R q) as [_ [M _]]. rewrite E in M. destruct (s q) as [f|] eqn:E0; cbn in M.
  - destruct M as [M _]. rewrite M. eauto.
  - rewrite M. apply orb_true_r.
Qed.

Lemma rel_keeps_kind : forall T A s s' q f, rel e T A s s' -> s q = Some f ->
  exists f', s' q = Some f' /\ f_isdir f' = f_isdir f /\ f_owned f' = f_owned f.
Proof.
  intros T A s s' q f R E. destruct (R q) as [_ [M _]]. rewrite E in M. destruct (s' q) as [f'|]; cbn in M; [|contradiction].
  exists f'. tauto.
Qed.

End Footprint.

(* ------------------------------------------------------------------------------------------ *)
(* directory chains                                                                             *)
(* ------------------------------------------------------------------------------------------ *)
Section Mkdirs.
Variable e : env.

Lemma mkdirs_other : forall l prev s q, ~ In q l -> fst (mkdirs e prev l s) q = s q.
Proof.
  induction l as [|a r IH]; intros prev s q H; cbn [mkdirs]; [reflexivity|].
  assert (Hr : ~ In q r) by (intros X; apply H; now right).
  assert (Hq : q <> a) by (intros ->; apply H; now left).
  destruct (s a) as [f|] eqn:E.
  - destruct (f_isdir f); [now apply IH | reflexivity].
  - destruct (allows e s prev); [|reflexivity]. rewrite IH by exact Hr. now apply upd_other.
Qed.

Lemma mkdirs_err_kind : forall l prev s er, snd (mkdirs e prev l s) = Err er -> er = ENotDir \/ er = EAccess.
Proof.
  induction l as [|a r IH]; intros prev s er; cbn [mkdirs]; [discriminate|].
  destruct (s a) as [f|].
  - destruct (f_isdir f); [apply IH | cbn; intros H; injection H as <-; now left].
  - destruct (allows e s prev); [apply IH | cbn; intros H; injection H as <-; now right].
Qed.

Lemma mkdirs_mono : forall l prev s s',
  (forall a, In a l -> s' a = s a \/ (s a = None /\ s' a = Some (new_dir e))) ->
  (allows e s prev = true -> allows e s' prev = true) ->
  snd (mkdirs e prev l s) = Ok ->
  snd (mkdirs e prev l s') = Ok /\
  (allows e (fst (mkdirs e prev l s)) (last_from prev l) = true ->
   allows e (fst (mkdirs e prev l s')) (last_from prev l) = true).
Proof.
  induction l as [|a r IH]; intros prev s s' H1 H2; cbn [mkdirs last_from fst snd]; [auto|].
  assert (Hr : forall s0 s0', (forall b, b <> a -> s0 b = s b) -> (forall b, b <> a -> s0' b = s' b) -> s0' a = s0 a ->
                forall b, In b r -> s0' b = s0 b \/ (s0 b = None /\ s0' b = Some (new_dir e))).
  { intros s0 s0' X X' Ya b Hb. destruct (N.eq_dec b a) as [->|Hne]; [left; exact Ya|].
    rewrite X, X' by exact Hne. apply H1. now right. }
  destruct (H1 a (or_introl eq_refl)) as [Ea|[Ea Ea']]; destruct (s a) as [f|] eqn:E.
  - rewrite Ea. destruct (f_isdir f); [|discriminate]. apply IH.
    + apply (Hr s s'); auto; congruence.
    + unfold allows. now rewrite Ea, E.
  - rewrite Ea. destruct (allows e s prev) eqn:Al; [|discriminate]. rewrite (H2 eq_refl). apply IH.
    + apply (Hr (upd s a (new_dir e)) (upd s' a (new_dir e))); intros; rewrite ?upd_same, ?upd_other; auto.
    + unfold allows. now rewrite !upd_same.
  - discriminate.
  - rewrite Ea'. cbn [new_dir f_isdir]. destruct (allows e s prev) eqn:Al; [|discriminate]. apply IH.
    + apply (Hr (upd s a (new_dir e)) s'); intros; rewrite ?upd_same, ?upd_other; auto.
    + unfold allows. now rewrite upd_same, Ea'.
Qed.

(* mkdir -p of the chain succeeds, and then: a missing target can be created in its directory / an existing one is a regular file *)
Definition ready (s : fs) (p : path) : bool :=
  is_ok (snd (mkdirs e None (ancestors e p) s)) &&
  match s p with
  | None => allows e (fst (mkdirs e None (ancestors e p) s)) (parent_of e p)
  | Some f => negb (f_isdir f)
  end.

Lemma ready_preserved : forall (T A : path -> Prop) s s' p,
  rel e T A s s' -> (forall q, In q (ancestors e p) -> ~ T q) -> ~ A p -> ready s p = true -> ready s' p = true.
Proof.
  intros T A s s' p R HT HA H. unfold ready in *. apply andb_true_iff in H. destruct H as [H1 H2].
  destruct (snd (mkdirs e None (ancestors e p) s)) eqn:EM; [|discriminate].
  destruct (mkdirs_mono (ancestors e p) None s s') as [M1 M2]; auto.
  { intros a Ha. destruct (R a) as [X _]. destruct (X (HT a Ha)) as [Y|[_ Y]]; [left | right]; auto. }
  rewrite M1. cbn [is_ok andb]. destruct (R p) as [_ [M C]].
  destruct (s p) as [f|] eqn:E; destruct (s' p) as [f'|] eqn:E'; cbn in M; try contradiction.
  - destruct M as [_ M]. now rewrite M.
  - destruct (f_isdir f') eqn:D; [|reflexivity]. exfalso. apply HA. now apply (C eq_refl f').
  - now apply M2.
Qed.
End Mkdirs.

(* ------------------------------------------------------------------------------------------ *)
(* one writer on one path: the shape of the translated skeletons, then every scenario           *)
(* ------------------------------------------------------------------------------------------ *)
Definition env_wf (e : env) : Prop := forall p, ~ In p (ancestors e p).     (* no path is its own ancestor *)

Definition body (c : cfg) (k : ikind) : act :=
  match k with ISupport false => if c_linepps c then AOpenWrite else AShutilCopy | _ => AOpenWrite end.

Lemma flat_acts_shape : forall c k, c_dryrun c = false ->
  flat_acts c k = [AHandleOverwrite; AMkdirParents; body c k; AFilePPs].
Proof.
  intros c k Hd. destruct k as [|[|]]; unfold flat_acts, skel_of_kind, guarded, body,
    generate_type_skel, generate_header_skel, copy_header_skel; cbn [flat_map forallb guard_holds fst snd app];
    rewrite ?Hd; cbn [negb andb app flat_map inline]; unfold guarded, generate_code_skel, copy_header_using_line_pps_skel;
    cbn [flat_map forallb guard_holds fst snd app]; try reflexivity.
  destruct (c_linepps c); cbn [negb andb app flat_map inline]; unfold guarded, copy_header_using_line_pps_skel;
    cbn [flat_map forallb fst snd app]; reflexivity.
Qed.

Lemma flat_acts_dry : forall c k, c_dryrun c = true -> flat_acts c k = [].
Proof.
  intros c k Hd. destruct k as [|[|]]; unfold flat_acts, skel_of_kind, guarded,
    generate_type_skel, generate_header_skel, copy_header_skel; cbn [flat_map forallb guard_holds fst snd app];
    rewrite ?Hd; cbn [negb andb app flat_map]; reflexivity.
Qed.

Lemma copies_body : forall c k, c_dryrun c = false -> copies c k = is_copy (body c k).
Proof. intros c k Hd. unfold copies. rewrite flat_acts_shape by exact Hd. cbn [existsb]. now rewrite orb_false_r. Qed.

Lemma copies_dry : forall c k, c_dryrun c = true -> copies c k = false.
Proof. intros c k Hd. unfold copies. now rewrite flat_acts_dry. Qed.

Ltac ex := repeat (first [ rewrite bind_pair_ok | rewrite bind_pair_err | rewrite bind_ret ]; cbv beta).

Section W.
Variable render : fs -> N -> N -> path -> N.
Variable e : env.
Hypothesis Hind : render_independent render.
Hypothesis Hwf : env_wf e.

Lemma run_filepps_full : forall p pps s f, no_external pps = true -> links e p = None -> s p = Some f -> superuser e || f_owned f = true ->
  exists s', run_filepps e s p pps = (s', Ok) /\
             s' p = Some (mkF (f_cid f) (last_mode pps (f_mode f)) (f_owned f) (f_isdir f)) /\
             forall q, q <> p -> s' q = s q.
Proof.
  intros p pps. induction pps as [|[m|g] r IH]; intros s f Ne L E Hp; cbn [run_filepps last_mode]; [| |discriminate].
  - exists s. split; [reflexivity|]. split; [|reflexivity]. rewrite E. now destruct f.
  - rewrite SetFileMode_call_eq, (resolve_id e p L); cbn [fst snd]. unfold fs_chmod. rewrite E, Hp. rewrite bind_pair_ok.
    destruct (IH (upd s p (set_mode f (N.land m 4095))) (set_mode f (N.land m 4095))) as [s' [H1 [H2 H3]]].
    + exact Ne.
    + exact L.
    + apply upd_same.
    + exact Hp.
    + exists s'. split; [exact H1 | split; [exact H2|]]. intros q Hq. rewrite H3 by exact Hq. now apply upd_other.
Qed.

Lemma writable_after_gate : forall f m, superuser e || f_owned f = true ->
  writable e (set_mode f (N.land (N.lor m 144) 4095)) = true.
Proof.
  intros f m H. unfold writable; cbn [f_owned f_mode set_mode]. rewrite testbit7_after_gate.
  destruct (superuser e); cbn [orb] in *; [reflexivity | now rewrite H].
Qed.

Variable c : cfg.
Variable p : path.
Hypothesis Hl : links e p = None.          (* p is not a symbolic link *)
Hypothesis Hs : special e p = false.       (* nor a device, FIFO or socket *)
Hypothesis Hd : c_dryrun c = false.
Hypothesis Hne : no_external (c_filepps c) = true.   (* success and canonical content are proved without --pp-run-program only *)

Definition R := render empty_fs 0 (c_class c) p.
Notation M := (mkdirs e None (ancestors e p)).
Notation W k s := (write_item render e c s (p, k)).

(* what a successful write leaves *)
Definition written (s' : fs) (own : bool) : Prop :=
  exists f', s' p = Some f' /\ f_cid f' = R /\ f_owned f' = own /\ f_isdir f' = false /\
             (c_filepps c <> [] -> f_mode f' = last_mode (c_filepps c) 0).

Ltac open_writer := unfold write_item; cbn [fst snd]; rewrite (flat_acts_shape c _ Hd); cbn [run_acts run_act]; rewrite ?(resolve_id e p Hl).

(* the body and the file post-processors, on a state where p is absent and its directory accepts it *)
Lemma tail_absent : forall k s2, s2 p = None -> allows e s2 (parent_of e p) = true ->
  exists s', bind (run_act render e c p (body c k) s2) (fun s3 => bind (run_filepps e s3 p (c_filepps c)) (fun s4 => (s4, Ok))) = (s', Ok)
             /\ written s' true /\ forall q, q <> p -> s' q = s2 q.
Proof.
  intros k s2 E Al.
  assert (X : exists s3 f3, (run_act render e c p (body c k) s2 = (s3, Ok)) /\ s3 p = Some f3 /\
              f_cid f3 = R /\ f_owned f3 = true /\ f_isdir f3 = false /\ forall q, q <> p -> s3 q = s2 q).
  { unfold body. destruct k as [|[|]]; [| |destruct (c_linepps c)]; cbn [run_act]; rewrite (resolve_id e p Hl);
    rewrite (Hind s2 (c_amb c) empty_fs 0); fold R;
    unfold fs_copy, fs_is_dir, fs_write, fs_write_in; rewrite E, Al; ex;
    unfold fs_chmod; rewrite ?upd_same; cbn [f_owned]; rewrite ?orb_true_r; ex;
    (eexists; eexists; split; [reflexivity|]; rewrite ?upd_same; split; [reflexivity|];
     cbn [f_cid f_owned f_isdir set_mode]; repeat split; auto; intros q Hq; rewrite ?upd_other by exact Hq; reflexivity). }
  destruct X as [s3 [f3 [H3 [E3 [C3 [O3 [D3 F3]]]]]]]. rewrite H3. ex.
  destruct (run_filepps_full p (c_filepps c) s3 f3 Hne Hl E3) as [s4 [H4 [E4 F4]]]; [rewrite O3; apply orb_true_r|].
  rewrite H4. ex. exists s4. split; [reflexivity|]. split.
  - eexists. split; [exact E4|]. cbn [f_cid f_mode f_owned f_isdir]. repeat split; auto.
    intros Hn. now apply last_mode_irrel.
  - intros q Hq. rewrite F4, F3 by exact Hq. reflexivity.
Qed.

(* ... on a state where p is a regular file the runner has just made writable *)
Lemma tail_present : forall k s2 f, s2 p = Some f -> f_isdir f = false -> writable e f = true -> superuser e || f_owned f = true ->
  exists s', bind (run_act render e c p (body c k) s2) (fun s3 => bind (run_filepps e s3 p (c_filepps c)) (fun s4 => (s4, Ok))) = (s', Ok)
             /\ written s' (f_owned f) /\ forall q, q <> p -> s' q = s2 q.
Proof.
  intros k s2 f E D Wr Hp.
  assert (X : exists s3 f3, (run_act render e c p (body c k) s2 = (s3, Ok)) /\ s3 p = Some f3 /\
              f_cid f3 = R /\ f_owned f3 = f_owned f /\ f_isdir f3 = false /\ forall q, q <> p -> s3 q = s2 q).
  { unfold body. destruct k as [|[|]]; [| |destruct (c_linepps c)]; cbn [run_act]; rewrite (resolve_id e p Hl);
    rewrite (Hind s2 (c_amb c) empty_fs 0); fold R;
    unfold fs_copy, fs_is_dir, fs_write, fs_write_in; rewrite E, D, ?Hs, ?Wr; ex;
    unfold fs_chmod; rewrite ?upd_same; cbn [f_owned set_cid]; rewrite ?Hp; ex;
    (eexists; eexists; split; [reflexivity|]; rewrite ?upd_same; split; [reflexivity|];
     cbn [f_cid f_owned f_isdir set_mode set_cid]; repeat split; auto; intros q Hq; rewrite ?upd_other by exact Hq; reflexivity). }
  destruct X as [s3 [f3 [H3 [E3 [C3 [O3 [D3 F3]]]]]]]. rewrite H3. ex.
  destruct (run_filepps_full p (c_filepps c) s3 f3 Hne Hl E3) as [s4 [H4 [E4 F4]]]; [now rewrite O3|].
  rewrite H4. ex. exists s4. split; [reflexivity|]. split.
  - eexists. split; [exact E4|]. cbn [f_cid f_mode f_owned f_isdir]. repeat split; auto.
    intros Hn. now apply last_mode_irrel.
  - intros q Hq. rewrite F4, F3 by exact Hq. reflexivity.
Qed.

Lemma M_keeps_p : forall s, fst (M s) p = s p.
Proof. intros s. apply mkdirs_other. apply Hwf. Qed.

Lemma body_blocked : forall k s2, s2 p = None -> allows e s2 (parent_of e p) = false ->
  run_act render e c p (body c k) s2 = (s2, Err EAccess).
Proof.
  intros k s2 E Al. unfold body. destruct k as [|[|]]; [| |destruct (c_linepps c)]; cbn [run_act]; rewrite (resolve_id e p Hl);
  unfold fs_copy, fs_is_dir, fs_write, fs_write_in; rewrite E, Al; ex; reflexivity.
Qed.

Lemma W_absent : forall k s, s p = None ->
  (exists er, W k s = (fst (M s), Err er) /\ er <> EExists) \/
  (snd (M s) = Ok /\ allows e (fst (M s)) (parent_of e p) = true /\
   exists s', W k s = (s', Ok) /\ written s' true /\ forall q, q <> p -> s' q = fst (M s) q).
Proof.
  intros k s E. open_writer. rewrite (handle_overwrite_absent e s p _ Hl Hs E). ex.
  pose proof (M_keeps_p s) as Kp. pose proof (mkdirs_err_kind e (ancestors e p) None s) as Ek.
  destruct (M s) as [s2 [|er]] eqn:EM; cbn [fst snd] in *; ex.
  - rewrite E in Kp. destruct (allows e s2 (parent_of e p)) eqn:Al.
    + right. split; [reflexivity|]. split; [reflexivity|]. now apply tail_absent.
    + left. rewrite (body_blocked k s2 Kp Al). ex. exists EAccess. split; [reflexivity | discriminate].
  - left. exists er. split; [reflexivity|]. destruct (Ek er eq_refl) as [->| ->]; discriminate.
Qed.

Lemma W_refuse_any : forall k s f, s p = Some f -> c_allow c = false -> exists er, W k s = (s, Err er).
Proof.
  intros k s f E Ha. open_writer. rewrite Ha. destruct (handle_overwrite_refuse_any e s p f Hl Hs E) as [er H].
  rewrite H. ex. eauto.
Qed.

Lemma W_refuse : forall k s f, s p = Some f -> f_isdir f = false -> c_allow c = false -> W k s = (s, Err EExists).
Proof. intros k s f E D Ha. open_writer. rewrite Ha, (handle_overwrite_refuse e s p f Hl Hs E D). ex. reflexivity. Qed.

Lemma W_noperm : forall k s f, s p = Some f -> f_isdir f = false -> c_allow c = true -> superuser e || f_owned f = false ->
  W k s = (s, Err EPermChmod).
Proof.
  intros k s f E D Ha Hp. open_writer. rewrite Ha, (handle_overwrite_allow e s p f Hl Hs E D). unfold fs_chmod. rewrite E, Hp. ex. reflexivity.
Qed.

Definition gated (s : fs) (f : fmeta) : fs := upd s p (set_mode f (N.land (N.lor (f_mode f) 144) 4095)).

Lemma W_overwrite : forall k s f, s p = Some f -> f_isdir f = false -> c_allow c = true -> superuser e || f_owned f = true ->
  (exists er, W k s = (fst (M (gated s f)), Err er) /\ snd (M (gated s f)) = Err er) \/
  (snd (M (gated s f)) = Ok /\
   exists s', W k s = (s', Ok) /\ written s' (f_owned f) /\ forall q, q <> p -> s' q = fst (M (gated s f)) q).
Proof.
  intros k s f E D Ha Hp. open_writer. rewrite Ha, (handle_overwrite_allow e s p f Hl Hs E D). unfold fs_chmod. rewrite E, Hp. ex.
  fold (gated s f). pose proof (M_keeps_p (gated s f)) as Kp. unfold gated at 2 in Kp. rewrite upd_same in Kp.
  destruct (M (gated s f)) as [s2 [|er]] eqn:EM; cbn [fst snd] in *; ex.
  - right. split; [reflexivity|].
    destruct (tail_present k s2 _ Kp) as [s' [H1 [H2 H3]]]; cbn [f_isdir f_owned set_mode]; auto.
    + now apply writable_after_gate.
    + exists s'. cbn [f_owned set_mode] in H2. auto.
  - left. eauto.
Qed.

Lemma W_dir_refused : forall k s f, s p = Some f -> f_isdir f = true -> exists er, W k s = (s, Err er).
Proof.
  intros k s f E D. open_writer. destruct (handle_overwrite_dir e s p f (c_allow c) Hl Hs E D) as [er H]. rewrite H. ex. eauto.
Qed.

(* a successful write leaves the canonical regular file *)
Lemma W_ok : forall k s s', W k s = (s', Ok) -> exists own, written s' own.
Proof.
  intros k s s' H. destruct (s p) as [f|] eqn:E.
  - destruct (f_isdir f) eqn:D.
    + destruct (W_dir_refused k s f E D) as [er H1]. congruence.
    + destruct (c_allow c) eqn:Ha.
      * destruct (superuser e || f_owned f) eqn:Hp.
        -- destruct (W_overwrite k s f E D Ha Hp) as [[er [H1 _]]|[_ [s2 [H1 [H2 _]]]]]; [congruence|].
           rewrite H1 in H. injection H as <-. eauto.
        -- rewrite (W_noperm k s f E D Ha Hp) in H. discriminate.
      * rewrite (W_refuse k s f E D Ha) in H. discriminate.
  - destruct (W_absent k s E) as [[er [H1 _]]|[_ [_ [s2 [H1 [H2 _]]]]]]; [congruence|].
    rewrite H1 in H. injection H as <-. eauto.
Qed.

(* ... and of every prefix of its action list (an interrupted write) *)
Lemma gate_ok_nodir : forall s s1 a, handle_overwrite e s p a = (s1, Ok) -> fs_is_dir s1 p = false.
Proof.
  intros s s1 a H. unfold fs_is_dir. destruct (s p) as [f|] eqn:E.
  - destruct (f_isdir f) eqn:D.
    + destruct (handle_overwrite_dir e s p f a Hl Hs E D) as [er H1]. congruence.
    + destruct a.
      * rewrite (handle_overwrite_allow e s p f Hl Hs E D) in H. unfold fs_chmod in H. rewrite E in H.
        destruct (superuser e || f_owned f); [|discriminate]. injection H as <-. rewrite upd_same. exact D.
      * rewrite (handle_overwrite_refuse e s p f Hl Hs E D) in H. discriminate.
  - rewrite (handle_overwrite_absent e s p a Hl Hs E) in H. injection H as <-. now rewrite E.
Qed.

Lemma rel_bind_ok : forall (T A : path -> Prop) x k s,
  rel e T A s (fst x) -> (snd x = Ok -> rel e T A (fst x) (fst (k (fst x)))) -> rel e T A s (fst (bind x k)).
Proof.
  intros T A [s1 r] k s H1 H2. unfold bind; cbn [fst snd] in *. destruct r; cbn [fst]; [|exact H1].
  eapply rel_trans; [exact H1 | now apply H2].
Qed.

Lemma W_prefix_rel_fine : forall k j s,
  rel e (fun q => q = p) (fun q => In q (ancestors e p)) s
      (fst (run_acts render e c p (firstn j (flat_acts c k)) s)).
Proof.
  intros k j s. rewrite (flat_acts_shape c k Hd).
  set (T := fun q => q = p). set (A := fun q => In q (ancestors e p)).
  assert (TA : forall x, In x (ancestors e p) -> A x) by auto.
  assert (Tr : T (resolve e p)) by (unfold T; apply (resolve_id e p Hl)).
  assert (Body : forall s2, fs_is_dir s2 p = false -> rel e T A s2 (fst (run_act render e c p (body c k) s2))).
  { intros s2 P. unfold body. destruct k as [|[|]]; [| |destruct (c_linepps c)]; cbn [run_act]; rewrite (resolve_id e p Hl);
      try (apply (fs_write_in_rel e T A); reflexivity).
    unfold fs_copy. rewrite P.
    apply (rel_bind e T A (fun s => fs_write e s p (render s2 (c_amb c) (c_class c) p)) (fun s1 => fs_chmod e s1 p (c_resmode c))).
    - intros s0. apply fs_write_in_rel. reflexivity.
    - apply fs_chmod_rel. reflexivity. }
  destruct j as [|[|[|[|j]]]]; cbn [firstn run_acts]; try apply rel_refl.
  - rewrite bind_ret. apply (handle_overwrite_rel e T A p (c_allow c) Tr).
  - apply rel_bind_ok; [apply (handle_overwrite_rel e T A p (c_allow c) Tr)|]. intros _. cbn [run_acts].
    rewrite bind_ret. cbn [run_act]. now apply mkdirs_rel.
  - apply rel_bind_ok; [apply (handle_overwrite_rel e T A p (c_allow c) Tr)|]. intros G1. cbn [run_acts].
    apply rel_bind_ok; [cbn [run_act]; now apply mkdirs_rel|]. intros G2. cbn [run_acts]. rewrite bind_ret.
    apply Body. cbn [run_act] in *. unfold fs_is_dir. rewrite M_keeps_p.
    destruct (handle_overwrite e s p (c_allow c)) as [s1 r1] eqn:EH. cbn [fst snd] in *. subst r1. exact (gate_ok_nodir s s1 _ EH).
  - replace (firstn j []) with (@nil act) by (now destruct j). cbn [run_acts].
    apply rel_bind_ok; [apply (handle_overwrite_rel e T A p (c_allow c) Tr)|]. intros G1. cbn [run_acts].
    apply rel_bind_ok; [cbn [run_act]; now apply mkdirs_rel|]. intros G2. cbn [run_acts].
    apply rel_bind_ok.
    + apply Body. cbn [run_act] in *. unfold fs_is_dir. rewrite M_keeps_p.
      destruct (handle_overwrite e s p (c_allow c)) as [s1 r1] eqn:EH. cbn [fst snd] in *. subst r1. exact (gate_ok_nodir s s1 _ EH).
    + intros _. cbn [run_acts]. apply rel_bind_ok; [cbn [run_act]; now apply run_filepps_rel | intros _; cbn [run_acts fst]; apply rel_refl].
Qed.

(* the fine footprint of one complete writer: only p itself and missing directories above it *)
Lemma W_rel_fine : forall k s, rel e (fun q => q = p) (fun q => In q (ancestors e p)) s (fst (W k s)).
Proof.
  intros k s. pose proof (W_prefix_rel_fine k 4 s) as X. unfold write_item. cbn [fst snd].
  rewrite (flat_acts_shape c k Hd) in *. exact X.
Qed.

Lemma W_conflict : forall k s f, s p = Some f -> c_allow c = false -> W k s = (s, Err EExists).
Proof. intros k s f E Ha. open_writer. rewrite Ha, (handle_overwrite_conflict e s p f Hl Hs E). ex. reflexivity. Qed.

Lemma W_absent_ready : forall k s, s p = None -> ready e s p = true ->
  exists s', W k s = (s', Ok) /\ written s' true /\ forall q, q <> p -> s' q = fst (M s) q.
Proof.
  intros k s E Hr. unfold ready in Hr. apply andb_true_iff in Hr. destruct Hr as [R1 R2]. rewrite E in R2.
  destruct (W_absent k s E) as [[er [H1 H2]]|[_ [_ X]]]; [|exact X].
  exfalso. unfold write_item in H1. cbn [fst snd] in H1. rewrite (flat_acts_shape c _ Hd) in H1. cbn [run_acts run_act] in H1.
  rewrite (handle_overwrite_absent e s p _ Hl Hs E) in H1. rewrite bind_pair_ok in H1.
  pose proof (M_keeps_p s) as Kp. rewrite E in Kp.
  destruct (M s) as [s2 r2]; cbn [fst snd] in *. destruct r2; [|discriminate]. rewrite bind_pair_ok in H1.
  destruct (tail_absent k s2 Kp R2) as [s3 [H3 _]]. rewrite H3 in H1. discriminate.
Qed.

(* with the chain ready, writing succeeds *)
Lemma W_total : forall k s, c_allow c = true -> ready e s p = true ->
  (forall f, s p = Some f -> superuser e || f_owned f = true) ->
  exists s' own, W k s = (s', Ok) /\ written s' own.
Proof.
  intros k s Ha Hr Hch. unfold ready in Hr. apply andb_true_iff in Hr. destruct Hr as [R1 R2].
  destruct (snd (M s)) eqn:EM; [|discriminate]. destruct (s p) as [f|] eqn:E.
  - apply negb_true_iff in R2.
    destruct (W_overwrite k s f E R2 Ha (Hch f eq_refl)) as [[er [_ H1]]|[_ [s2 [H1 [H2 _]]]]]; [|eauto].
    exfalso. destruct (mkdirs_mono e (ancestors e p) None s (gated s f)) as [X _]; auto; [|congruence].
    intros a Ha'. left. unfold gated. apply upd_other. intros ->. exact (Hwf p Ha').
  - destruct (W_absent k s E) as [[er [H1 H2]]|[_ [_ [s2 [H1 [H2 _]]]]]]; [|eauto].
    exfalso. unfold write_item in H1. cbn [fst snd] in H1. rewrite (flat_acts_shape c _ Hd) in H1. cbn [run_acts run_act] in H1.
    rewrite (handle_overwrite_absent e s p _ Hl Hs E) in H1. rewrite bind_pair_ok in H1.
    pose proof (M_keeps_p s) as Kp. rewrite E in Kp.
    destruct (M s) as [s2 r2]; cbn [fst snd] in *. subst r2. rewrite bind_pair_ok in H1.
    destruct (tail_absent k s2 Kp R2) as [s3 [H3 _]]. rewrite H3 in H1. discriminate.
Qed.
End W.

Section Dry.
Variable render : fs -> N -> N -> path -> N.
Variable e : env.
Lemma W_dry : forall c it s, c_dryrun c = true -> write_item render e c s it = (s, Ok).
Proof. intros c [p k] s Hd. unfold write_item. now rewrite flat_acts_dry. Qed.
End Dry.

(* ------------------------------------------------------------------------------------------ *)
(* a whole run                                                                                  *)
(* ------------------------------------------------------------------------------------------ *)
Section Run.
Variable render : fs -> N -> N -> path -> N.
Variable e : env.
Hypothesis Hind : render_independent render.
Hypothesis Hwf : env_wf e.

Notation WL c := (run_list (write_item render e c)).
Notation Rn c p := (render empty_fs 0 (c_class c) p).

Definition tgt (c : cfg) (q : path) : Prop := In q (targets c).

(* symbolic links at targets are refused (gate_refuses_links_now); devices/FIFOs/sockets are harmless when the gate refuses them *)
Definition entry_ok (p : path) : Prop := special e p = false \/ gate_refuses_special.
Definition specials_safe (c : cfg) : Prop := forall p, In p (targets c) -> entry_ok p.
Definition targets_plain (c : cfg) : Prop := forall p, In p (targets c) -> links e p = None /\ special e p = false.

Definition refused (p : path) : Prop := forall s a, exists er, handle_overwrite e s p a = (s, Err er).

Lemma link_cases : forall p, entry_ok p -> (links e p = None /\ special e p = false) \/ refused p.
Proof.
  intros p H. unfold entry_ok in H. destruct (links e p) as [d|] eqn:L.
  - right. intros s a. exact (gate_refuses_links_now e s p a d L).
  - destruct (special e p) eqn:S; [|left; auto]. right. destruct H as [H|H]; [congruence|]. intros s a. now apply H.
Qed.

Lemma specials_safe_now : forall c, specials_safe c.
Proof. intros c p _. right. exact gate_refuses_special_now. Qed.

Lemma targets_plain_safe : forall c, targets_plain c -> specials_safe c.
Proof. intros c H p Hp. left. now apply H. Qed.

Lemma W_link_refused : forall c p k s, refused p -> c_dryrun c = false ->
  exists er, write_item render e c s (p, k) = (s, Err er).
Proof.
  intros c p k s Hr Hd. unfold write_item. cbn [fst snd]. rewrite (flat_acts_shape c k Hd). cbn [run_acts run_act].
  destruct (Hr s (c_allow c)) as [er H]. rewrite H, bind_pair_err. eauto.
Qed.

Lemma W_link_prefix : forall c p k j s, refused p -> c_dryrun c = false ->
  run_acts render e c p (firstn j (flat_acts c k)) s = (s, Ok) /\ j = O \/
  exists er, run_acts render e c p (firstn j (flat_acts c k)) s = (s, Err er).
Proof.
  intros c p k j s Hr Hd. rewrite (flat_acts_shape c k Hd). destruct j as [|j]; cbn [firstn run_acts]; [left; auto|].
  right. cbn [run_act]. destruct (Hr s (c_allow c)) as [er H]. rewrite H, bind_pair_err. eauto.
Qed.

(* what a configuration needs as a directory it (or another one) never writes as a file, and vice versa *)
Definition compatible (c c' : cfg) : Prop :=
  (forall q, anc e c q -> ~ tgt c' q) /\ (forall q, anc e c' q -> ~ tgt c q).

(* ---- the fine footprint: targets and missing directories above them, nothing else ---- *)
Lemma write_item_rel_fine : forall c it, In it (items c) -> entry_ok (fst it) ->
  rel_fn e (tgt c) (anc e c) (fun s => write_item render e c s it).
Proof.
  intros c [p k] H Lk s. destruct (c_dryrun c) eqn:Hd.
  - rewrite W_dry by exact Hd. apply rel_refl.
  - destruct (link_cases p Lk) as [[Hl Hs]|Hr];
      [|destruct (W_link_refused c p k s Hr Hd) as [er X]; rewrite X; apply rel_refl].
    eapply rel_weaken; [| |apply (W_rel_fine render e Hwf c p Hl Hs Hd k s)].
    + intros q ->. unfold tgt, targets. now apply (in_map fst _ (p, k)).
    + intros q Hq. now apply (item_anc e c (p, k)).
Qed.

Lemma write_item_prefix_rel_fine : forall c it j, In it (items c) -> entry_ok (fst it) ->
  rel_fn e (tgt c) (anc e c) (run_acts render e c (fst it) (firstn j (flat_acts c (snd it)))).
Proof.
  intros c [p k] j H Lk s. cbn [fst snd] in *. destruct (c_dryrun c) eqn:Hd.
  - rewrite flat_acts_dry by exact Hd. replace (firstn j []) with (@nil act) by (now destruct j). apply rel_refl.
  - destruct (link_cases p Lk) as [[Hl Hs]|Hr];
      [|destruct (W_link_prefix c p k j s Hr Hd) as [[X _]|[er X]]; rewrite X; apply rel_refl].
    eapply rel_weaken; [| |apply (W_prefix_rel_fine render e Hwf c p Hl Hs Hd k j s)].
    + intros q ->. unfold tgt, targets. now apply (in_map fst _ (p, k)).
    + intros q Hq. now apply (item_anc e c (p, k)).
Qed.

Lemma item_entry_ok : forall c it, specials_safe c -> In it (items c) -> entry_ok (fst it).
Proof. intros c it H Hi. apply H. unfold targets. now apply in_map. Qed.

Lemma sublist_rel_fine : forall c l, specials_safe c -> (forall it, In it l -> In it (items c)) ->
  rel_fn e (tgt c) (anc e c) (fun s => WL c s l).
Proof. intros c l Ls H. apply run_list_rel. intros it Hit. apply write_item_rel_fine; auto. apply (item_entry_ok c); auto. Qed.

Lemma step_rel_fine : forall c, specials_safe c -> rel_fn e (tgt c) (anc e c) (fun s => step render e s c).
Proof. intros c Ls s. rewrite step_flat. now apply sublist_rel_fine. Qed.

Lemma step_crash_rel_fine : forall c n j junk s, specials_safe c -> rel e (tgt c) (anc e c) s (step_crash render e s c n j junk).
Proof.
  intros c n j junk s Ls. unfold step_crash.
  assert (R1 : rel e (tgt c) (anc e c) s (fst (WL c s (firstn n (items c))))).
  { apply sublist_rel_fine; auto. intros it. apply incl_firstn. }
  destruct (snd (WL c s (firstn n (items c)))); [|exact R1].
  destruct (nth_error (items c) n) as [[p k]|] eqn:E; [|exact R1].
  apply nth_error_In in E. cbn [fst snd].
  set (s1 := fst (WL c s (firstn n (items c)))) in *.
  assert (R2 : rel e (tgt c) (anc e c) s (fst (run_acts render e c p (firstn j (flat_acts c k)) s1))).
  { eapply rel_trans; [exact R1|]. apply (write_item_prefix_rel_fine c (p, k) j E). apply (item_entry_ok c (p, k)); auto. }
  destruct (snd (run_acts render e c p (firstn j (flat_acts c k)) s1)) eqn:Eok; [|exact R2].
  destruct junk as [g|]; [|exact R2].
  assert (Wr : rel e (tgt c) (anc e c) s
                 (fst (fs_write e (fst (run_acts render e c p (firstn j (flat_acts c k)) s1)) (resolve e p) g)) ->
               forall a, nth_error (flat_acts c k) j = Some a -> (a = AOpenWrite \/ a = AShutilCopy) ->
               rel e (tgt c) (anc e c) s
                 (match a with
                  | AOpenWrite | AShutilCopy => fst (fs_write e (fst (run_acts render e c p (firstn j (flat_acts c k)) s1)) (resolve e p) g)
                  | _ => fst (run_acts render e c p (firstn j (flat_acts c k)) s1) end)).
  { intros X a _ [->| ->]; exact X. }
  destruct (nth_error (flat_acts c k) j) as [a|] eqn:En; [|exact R2].
  assert (Ha : (a = AOpenWrite \/ a = AShutilCopy) \/ (a <> AOpenWrite /\ a <> AShutilCopy))
    by (destruct a; try (left; auto; fail); right; split; discriminate).
  destruct Ha as [Ha|[N1 N2]]; [|destruct a; try exact R2; congruence].
  apply (Wr); auto.
  (* the write happens: the path is not a link (a link would have stopped the prefix at the gate) *)
  destruct (c_dryrun c) eqn:Hd; [rewrite flat_acts_dry in En by exact Hd; destruct j; discriminate|].
  assert (Hl : links e p = None).
  { destruct (link_cases p (item_entry_ok c (p, k) Ls E)) as [[Hl Hs]|Hr]; [exact Hl|]. exfalso.
    destruct (W_link_prefix c p k j s1 Hr Hd) as [[_ ->]|[er X]].
    - rewrite (flat_acts_shape c k Hd) in En. cbn in En. injection En as <-. destruct Ha; discriminate.
    - rewrite X in Eok. discriminate. }
  eapply rel_trans; [exact R2|]. rewrite (resolve_id e p Hl).
  apply (fs_write_in_rel e (tgt c) (anc e c) (parent_of e p) p g). unfold tgt, targets. now apply (in_map fst _ (p, k)).
Qed.

Definition tgt_h (h : list event) (q : path) : Prop := exists ev, In ev h /\ tgt (ev_cfg ev) q.

Lemma event_rel_fine : forall ev s, specials_safe (ev_cfg ev) -> rel e (tgt (ev_cfg ev)) (anc e (ev_cfg ev)) s (apply_event render e s ev).
Proof. intros [c|c n j junk] s Ls; cbn [apply_event ev_cfg] in *; [now apply step_rel_fine | now apply step_crash_rel_fine]. Qed.

Lemma history_rel_fine : forall h s, (forall ev, In ev h -> specials_safe (ev_cfg ev)) -> rel e (tgt_h h) (anc_h e h) s (history render e s h).
Proof.
  induction h as [|ev r IH]; intros s Ls; cbn [history fold_left].
  - apply rel_refl.
  - eapply rel_trans.
    + eapply rel_weaken; [| |apply (event_rel_fine ev s (Ls ev (or_introl eq_refl)))]; intros q Hq; exists ev; split; auto; now left.
    + eapply rel_weaken; [| |apply IH; intros ev' H'; apply Ls; now right]; intros q [ev' [Hc Hq]]; exists ev'; split; auto; now right.
Qed.

Lemma mkdirs_keeps : forall l prev s q, s q <> None -> fst (mkdirs e prev l s) q = s q.
Proof.
  intros l prev s q H. destruct (mkdirs_rel e (fun _ => False) (fun a => In a l) l prev (fun a Ha => Ha) s q) as [X _].
  destruct (X (fun f => f)) as [Y|[_ [Y _]]]; [exact Y | congruence].
Qed.

(* a successful write of p changes no other existing entry *)
Lemma W_frame_ok : forall c p k s s', links e p = None -> special e p = false -> c_dryrun c = false ->
  write_item render e c s (p, k) = (s', Ok) -> forall q, q <> p -> s q <> None -> s' q = s q.
Proof.
  intros c p k s s' Hl Hsp Hd H q Hq Hs.
  replace s' with (fst (write_item render e c s (p, k))) by now rewrite H.
  destruct (W_rel_fine render e Hwf c p Hl Hsp Hd k s q) as [F _]. destruct (F Hq) as [X|[_ [X _]]]; [exact X | congruence].
Qed.

(* an item whose write succeeded is not behind a link (the gate would have refused, or there is none) *)
Lemma ok_item_nolink : forall c p k s s1, entry_ok p -> c_dryrun c = false -> write_item render e c s (p, k) = (s1, Ok) ->
  links e p = None /\ special e p = false.
Proof.
  intros c p k s s1 Lk Hd H. destruct (link_cases p Lk) as [[Hl Hs]|Hr]; [auto|].
  destruct (W_link_refused c p k s Hr Hd) as [er X]. congruence.
Qed.

Lemma list_frame_ok : forall c, c_dryrun c = false -> forall l s s', (forall p, In p (map fst l) -> entry_ok p) ->
  WL c s l = (s', Ok) -> forall q, ~ In q (map fst l) -> s q <> None -> s' q = s q.
Proof.
  intros c Hd l. induction l as [|[p0 k] r IH]; intros s s' Lk H q Hq Hs; cbn [run_list map fst] in *.
  - injection H as <-. reflexivity.
  - apply bind_ok in H. destruct H as [s1 [H1 H2]].
    destruct (ok_item_nolink c p0 k s s1) as [Hl Hsp]; [apply Lk; now left | exact Hd | exact H1 |].
    assert (E1 : s1 q = s q).
    { apply (W_frame_ok c p0 k s s1 Hl Hsp Hd H1); [intros ->; apply Hq; now left | exact Hs]. }
    rewrite <- E1. apply (IH s1 s'); [intros x Hx; apply Lk; now right | exact H2 | intros X; apply Hq; now right | congruence].
Qed.

Lemma list_canonical : forall c, c_dryrun c = false -> no_external (c_filepps c) = true -> forall l s s' p, (forall x, In x (map fst l) -> entry_ok x) ->
  WL c s l = (s', Ok) -> In p (map fst l) ->
  exists f', s' p = Some f' /\ f_cid f' = Rn c p /\ f_isdir f' = false /\
             (c_filepps c <> [] -> f_mode f' = last_mode (c_filepps c) 0).
Proof.
  intros c Hd Hne l. induction l as [|[p0 k] r IH]; intros s s' p Lk H Hin; cbn [run_list map fst] in *; [contradiction|].
  apply bind_ok in H. destruct H as [s1 [H1 H2]].
  destruct (ok_item_nolink c p0 k s s1) as [Hl Hsp]; [apply Lk; now left | exact Hd | exact H1 |].
  assert (Lk' : forall x, In x (map fst r) -> entry_ok x) by (intros x Hx; apply Lk; now right).
  destruct (in_dec N.eq_dec p (map fst r)) as [Hr|Hr].
  - eapply IH; eauto.
  - destruct Hin as [<-|Hin]; [|contradiction].
    destruct (W_ok render e Hind Hwf c p0 Hl Hsp Hd Hne k s s1 H1) as [own [f' [E [C [_ [D M]]]]]].
    exists f'. rewrite <- E. split; [|auto].
    apply (list_frame_ok c Hd r s1 s' Lk' H2); [exact Hr | congruence].
Qed.

Lemma list_dry : forall c, c_dryrun c = true -> forall l s, WL c s l = (s, Ok).
Proof.
  intros c Hd l. induction l as [|it r IH]; intros s; cbn [run_list]; [reflexivity|].
  rewrite W_dry by exact Hd. rewrite bind_pair_ok. apply IH.
Qed.

(* ---- no overwrite ---- *)
Lemma list_noov_keep : forall c, c_dryrun c = false -> c_allow c = false -> forall l s q,
  (forall p, In p (map fst l) -> entry_ok p) -> s q <> None -> fst (WL c s l) q = s q.
Proof.
  intros c Hd Ha l. induction l as [|[p0 k] r IH]; intros s q Lk Hq; cbn [run_list map fst] in *; [reflexivity|].
  assert (Lk' : forall x, In x (map fst r) -> entry_ok x) by (intros x Hx; apply Lk; now right).
  destruct (link_cases p0 (Lk p0 (or_introl eq_refl))) as [[Hl Hs]|Hr];
    [|destruct (W_link_refused c p0 k s Hr Hd) as [er X]; rewrite X; reflexivity].
  destruct (s p0) as [f|] eqn:E.
  - destruct (W_refuse_any render e c p0 Hl Hs Hd k s f E Ha) as [er H]. rewrite H. reflexivity.
  - assert (Hne : q <> p0) by congruence.
    assert (F : fst (write_item render e c s (p0, k)) q = s q).
    { destruct (W_rel_fine render e Hwf c p0 Hl Hs Hd k s q) as [X _]. destruct (X Hne) as [Y|[_ [Y _]]]; [exact Y | congruence]. }
    destruct (write_item render e c s (p0, k)) as [s1 [|er]]; cbn [fst] in F.
    + rewrite bind_pair_ok. rewrite IH by (auto; congruence). exact F.
    + rewrite bind_pair_err. exact F.
Qed.

(* a run that reaches an existing entry it may not replace fails: --no-overwrite conflicts, and directories always *)
Lemma list_blocked_fails : forall c, c_dryrun c = false -> specials_safe c -> forall l s,
  (forall it, In it l -> In it (items c)) ->
  (exists p f, In p (map fst l) /\ s p = Some f /\ (c_allow c = false \/ f_isdir f = true)) -> snd (WL c s l) <> Ok.
Proof.
  intros c Hd Ls l. induction l as [|[p0 k] r IH]; intros s Hsub [p [f [Hin [Hp Hb]]]]; cbn [run_list map fst] in *; [contradiction|].
  assert (Hit : In (p0, k) (items c)) by (apply Hsub; now left).
  pose proof (item_entry_ok c (p0, k) Ls Hit) as Lk0. cbn [fst] in Lk0.
  destruct (link_cases p0 Lk0) as [[Hl Hs]|Hr];
    [|destruct (W_link_refused c p0 k s Hr Hd) as [er X]; rewrite X; discriminate].
  assert (Stop : forall f0, s p0 = Some f0 -> (c_allow c = false \/ f_isdir f0 = true) -> exists er, write_item render e c s (p0, k) = (s, Err er)).
  { intros f0 E0 [Ha|D]; [now apply (W_refuse_any render e c p0 Hl Hs Hd k s f0) | now apply (W_dir_refused render e c p0 Hl Hs Hd k s f0)]. }
  destruct (N.eq_dec p p0) as [->|Hne].
  - destruct (Stop f Hp Hb) as [er H]. rewrite H. discriminate.
  - destruct Hin as [->|Hin]; [congruence|].
    destruct (write_item_rel_fine c (p0, k) Hit Lk0 s p) as [_ [Mk _]]. cbn [fst] in Mk.
    destruct (write_item render e c s (p0, k)) as [s1 [|er]]; cbn [fst] in Mk.
    + rewrite bind_pair_ok. apply IH; [intros it Hi; apply Hsub; now right|].
      rewrite Hp in Mk. destruct (s1 p) as [f1|] eqn:E1; cbn in Mk; [|contradiction].
      exists p, f1. split; [exact Hin|]. split; [exact E1|]. destruct Hb as [Ha|D]; [now left | right; destruct Mk; congruence].
    + rewrite bind_pair_err. discriminate.
Qed.

(* a target the gate refuses whatever is or is not there (a symbolic link; a device/FIFO/socket once the gate checks
   is_file) makes the run fail: nothing is written through it *)
Lemma list_refused_fails : forall c, c_dryrun c = false -> forall l s,
  (exists p, In p (map fst l) /\ refused p) -> snd (WL c s l) <> Ok.
Proof.
  intros c Hd l. induction l as [|[p0 k] r IH]; intros s [p [Hin Hp]]; cbn [run_list map fst] in *; [contradiction|].
  destruct (N.eq_dec p p0) as [->|Hne].
  - destruct (W_link_refused c p0 k s Hp Hd) as [er X]. rewrite X. discriminate.
  - destruct Hin as [->|Hin]; [congruence|].
    destruct (write_item render e c s (p0, k)) as [s1 [|er]]; [rewrite bind_pair_ok; apply IH; eauto | rewrite bind_pair_err; discriminate].
Qed.

(* --no-overwrite with pairwise distinct targets: success iff nothing was there, the overwrite error iff something was *)
Lemma list_noov_step : forall c, c_dryrun c = false -> no_external (c_filepps c) = true -> compatible c c -> targets_plain c ->
  forall p0 k r s, In (p0, k) (items c) -> (forall it, In it r -> In it (items c)) -> ~ In p0 (map fst r) ->
  s p0 = None -> (forall p, In p (p0 :: map fst r) -> ready e s p = true) ->
  exists s1, write_item render e c s (p0, k) = (s1, Ok) /\
             (forall p, In p (map fst r) -> s1 p = s p) /\ (forall p, In p (map fst r) -> ready e s1 p = true).
Proof.
  intros c Hd Hne Hc Lc p0 k r s Hit Hsub Hnot E Hr.
  destruct (Lc p0) as [Hl Hsp]; [unfold targets; now apply (in_map fst _ (p0, k))|].
  destruct (W_absent_ready render e Hind Hwf c p0 Hl Hsp Hd Hne k s E (Hr p0 (or_introl eq_refl))) as [s1 [H1 [_ F]]].
  exists s1. split; [exact H1|].
  assert (Rl : rel e (tgt c) (anc e c) s s1).
  { replace s1 with (fst (write_item render e c s (p0, k))) by now rewrite H1. apply write_item_rel_fine; [exact Hit | now left]. }
  assert (Tg : forall p, In p (map fst r) -> tgt c p).
  { intros p Hp. apply in_map_iff in Hp. destruct Hp as [it [<- Hi]]. unfold tgt, targets. apply in_map. now apply Hsub. }
  split.
  - intros p Hp. rewrite F by (intros ->; contradiction). apply mkdirs_other.
    intros Ha. apply (proj1 Hc p); [|now apply Tg]. now apply (item_anc e c (p0, k)).
  - intros p Hp. apply (ready_preserved e (tgt c) (anc e c) s s1 p Rl).
    + intros q Hq. apply (proj1 Hc). apply in_map_iff in Hp. destruct Hp as [it [<- Hi]]. apply (item_anc e c it); auto.
    + intros Ha. exact (proj1 Hc p Ha (Tg p Hp)).
    + apply Hr. now right.
Qed.

Lemma list_noov_clean : forall c, c_dryrun c = false -> no_external (c_filepps c) = true -> compatible c c -> targets_plain c ->
  forall l s, (forall it, In it l -> In it (items c)) -> NoDup (map fst l) ->
  (forall p, In p (map fst l) -> ready e s p = true) -> (forall p, In p (map fst l) -> s p = None) -> snd (WL c s l) = Ok.
Proof.
  intros c Hd Hne Hc Lc l. induction l as [|[p0 k] r IH]; intros s Hsub Hnd Hr Hn; cbn [run_list map fst] in *; [reflexivity|].
  inversion Hnd as [|? ? Hnot Hnd']; subst.
  assert (X : exists s1, write_item render e c s (p0, k) = (s1, Ok) /\
             (forall p, In p (map fst r) -> s1 p = s p) /\ (forall p, In p (map fst r) -> ready e s1 p = true))
    by (apply (list_noov_step c Hd Hne Hc Lc p0 k r s);
        [apply Hsub; now left | intros it Hi; apply Hsub; now right | exact Hnot | apply Hn; now left | exact Hr]).
  destruct X as [s1 [H1 [Keep Rdy]]].
  rewrite H1, bind_pair_ok. apply IH; auto.
  - intros it Hi. apply Hsub. now right.
  - intros p Hp. rewrite Keep by exact Hp. apply Hn. now right.
Qed.

Lemma list_noov_conflict : forall c, c_dryrun c = false -> no_external (c_filepps c) = true -> compatible c c -> targets_plain c ->
  c_allow c = false -> forall l s, (forall it, In it l -> In it (items c)) -> NoDup (map fst l) ->
  (forall p, In p (map fst l) -> ready e s p = true) ->
  (snd (WL c s l) = Err EExists <-> exists p, In p (map fst l) /\ s p <> None).
Proof.
  intros c Hd Hne Hc Lc Ha l. induction l as [|[p0 k] r IH]; intros s Hsub Hnd Hr; cbn [run_list map fst] in *.
  - split; [discriminate | intros [p [[] _]]].
  - inversion Hnd as [|? ? Hnot Hnd']; subst.
    destruct (Lc p0) as [Hl Hsp]; [unfold targets; apply (in_map fst _ (p0, k)); apply Hsub; now left|].
    destruct (s p0) as [f|] eqn:E.
    + rewrite (W_conflict render e c p0 Hl Hsp Hd k s f E Ha). split; [|reflexivity]. intros _. exists p0. split; [now left | congruence].
    + assert (X : exists s1, write_item render e c s (p0, k) = (s1, Ok) /\
                 (forall p, In p (map fst r) -> s1 p = s p) /\ (forall p, In p (map fst r) -> ready e s1 p = true))
        by (apply (list_noov_step c Hd Hne Hc Lc p0 k r s);
            [apply Hsub; now left | intros it Hi; apply Hsub; now right | exact Hnot | exact E | exact Hr]).
      destruct X as [s1 [H1 [Keep Rdy]]].
      rewrite H1, bind_pair_ok. rewrite (IH s1); [|intros it Hi; apply Hsub; now right | exact Hnd' | exact Rdy]. split.
      * intros [p [Hp Hs]]. exists p. split; [now right|]. now rewrite <- Keep.
      * intros [p [[->|Hp] Hs]]; [congruence|]. exists p. split; [exact Hp|]. now rewrite Keep.
Qed.

(* ---- overwriting always works when the chains are ready and the entries are the runner's ---- *)
Lemma list_total : forall c, c_dryrun c = false -> no_external (c_filepps c) = true -> c_allow c = true -> compatible c c -> targets_plain c -> forall l s,
  (forall it, In it l -> In it (items c)) ->
  chmodable e s -> (forall p, In p (map fst l) -> ready e s p = true) -> snd (WL c s l) = Ok.
Proof.
  intros c Hd Hne Ha Hc Lc l. induction l as [|[p0 k] r IH]; intros s Hsub Hch Hr; cbn [run_list map fst] in *; [reflexivity|].
  assert (Hit : In (p0, k) (items c)) by (apply Hsub; now left).
  destruct (Lc p0) as [Hl Hsp]; [unfold targets; now apply (in_map fst _ (p0, k))|].
  destruct (W_total render e Hind Hwf c p0 Hl Hsp Hd Hne k s Ha (Hr p0 (or_introl eq_refl)) (Hch p0)) as [s1 [own [H1 _]]].
  rewrite H1, bind_pair_ok.
  assert (Rl : rel e (tgt c) (anc e c) s s1).
  { replace s1 with (fst (write_item render e c s (p0, k))) by now rewrite H1. apply write_item_rel_fine; [exact Hit | now left]. }
  apply IH.
  - intros it Hi. apply Hsub. now right.
  - eapply rel_chmodable; eauto.
  - intros p Hp. assert (Hpi : exists it, In it (items c) /\ fst it = p).
    { apply in_map_iff in Hp. destruct Hp as [it [<- Hi]]. exists it. split; [apply Hsub; now right | reflexivity]. }
    destruct Hpi as [it [Hi <-]].
    apply (ready_preserved e (tgt c) (anc e c) s s1 (fst it) Rl).
    + intros q Hq. apply (proj1 Hc). eapply item_anc; eauto.
    + intros Ha'. apply (proj1 Hc _ Ha'). unfold tgt, targets. now apply in_map.
    + apply Hr. right. exact Hp.
Qed.
End Run.

(* ------------------------------------------------------------------------------------------ *)
(* the statements of C12                                                                        *)
(* ------------------------------------------------------------------------------------------ *)
Section Final.
Variable render : fs -> N -> N -> path -> N.
Variable e : env.
Hypothesis Hind : render_independent render.
Hypothesis Hwf : env_wf e.

Notation STEP := (step render e).
Notation HIST := (history render e).

(* any state -- in particular the state after any history of runs and crashes *)
Notation specials_safe := (specials_safe e).
Notation SS := (specials_safe_now e).
Notation targets_plain := (targets_plain e).

Lemma canonical_any_state : forall s c p,
  c_dryrun c = false -> no_external (c_filepps c) = true -> c_filepps c <> [] -> snd (STEP s c) = Ok -> In p (targets c) ->
  obs (fst (STEP s c) p) = canonical render e c p.
Proof.
  intros s c p Hd Hne Hpp Hok Hin. rewrite step_flat in *.
  destruct (run_list (write_item render e c) s (items c)) as [s' r] eqn:H. cbn [fst snd] in *. subst r.
  destruct (list_canonical render e Hind Hwf c Hd Hne (items c) s s' p (SS c) H Hin) as [f' [E [C [_ M]]]].
  rewrite E. unfold obs, canonical. rewrite C, (M Hpp). f_equal. f_equal. now apply last_mode_irrel.
Qed.

Lemma content_any_state : forall s c p,
  c_dryrun c = false -> no_external (c_filepps c) = true -> snd (STEP s c) = Ok -> In p (targets c) ->
  exists f, fst (STEP s c) p = Some f /\ f_isdir f = false /\ f_cid f = render empty_fs 0 (c_class c) p.
Proof.
  intros s c p Hd Hne Hok Hin. rewrite step_flat in *.
  destruct (run_list (write_item render e c) s (items c)) as [s' r] eqn:H. cbn [fst snd] in *. subst r.
  destruct (list_canonical render e Hind Hwf c Hd Hne (items c) s s' p (SS c) H Hin) as [f' [E [C [D _]]]]. eauto.
Qed.

Theorem regen_equals_fresh : forall h s0 c p,
  c_dryrun c = false -> no_external (c_filepps c) = true -> c_filepps c <> [] ->
  snd (STEP (HIST s0 h) c) = Ok -> snd (STEP empty_fs c) = Ok -> In p (targets c) ->
  obs (fst (STEP (HIST s0 h) c) p) = obs (fst (STEP empty_fs c) p).
Proof.
  intros h s0 c p Hd Hne Hpp H1 H2 Hin.
  rewrite (canonical_any_state (HIST s0 h) c p Hd Hne Hpp H1 Hin).
  now rewrite (canonical_any_state empty_fs c p Hd Hne Hpp H2 Hin).
Qed.

(* ---- footprint ---- *)
Theorem written_in_footprint : forall s c q, fst (STEP s c) q <> s q ->
  In q (targets c) \/ (In q (dir_targets e c) /\ s q = None /\ fst (STEP s c) q = Some (new_dir e)).
Proof.
  intros s c q H. destruct (in_dec N.eq_dec q (targets c)) as [X|X]; [now left|]. right.
  destruct (step_rel_fine render e Hwf c (SS c) s q) as [F _]. destruct (F X) as [Y|Y]; [contradiction | exact Y].
Qed.

Theorem foreign_event : forall s ev q,
  ~ In q (targets (ev_cfg ev)) -> (s q <> None \/ ~ In q (dir_targets e (ev_cfg ev))) -> apply_event render e s ev q = s q.
Proof.
  intros s ev q X Z. destruct (event_rel_fine render e Hwf ev s (SS (ev_cfg ev)) q) as [F _].
  destruct (F X) as [Y|[A [N _]]]; [exact Y|]. destruct Z; [congruence | contradiction].
Qed.

Theorem foreign_untouched : forall s c q,
  ~ In q (targets c) -> (s q <> None \/ ~ In q (dir_targets e c)) -> fst (STEP s c) q = s q.
Proof. intros s c. exact (foreign_event s (Run c)). Qed.

Theorem history_foreign : forall h s q,
  (forall ev, In ev h -> ~ In q (targets (ev_cfg ev))) ->
  (s q <> None \/ forall ev, In ev h -> ~ In q (dir_targets e (ev_cfg ev))) ->
  HIST s h q = s q.
Proof.
  intros h s q X Z. destruct (history_rel_fine render e Hwf h s (fun ev _ => SS (ev_cfg ev)) q) as [F _].
  destruct F as [F|[[ev [Hev A]] [N _]]].
  - intros [ev [Hev W]]. exact (X ev Hev W).
  - exact F.
  - destruct Z as [Z|Z]; [congruence | exfalso; exact (Z ev Hev A)].
Qed.

Theorem foreign_dirs_only : forall h s q,
  (forall ev, In ev h -> ~ In q (targets (ev_cfg ev))) ->
  HIST s h q = s q \/ (s q = None /\ HIST s h q = Some (new_dir e)).
Proof.
  intros h s q X. destruct (history_rel_fine render e Hwf h s (fun ev _ => SS (ev_cfg ev)) q) as [F _].
  destruct F as [F|[_ [N F]]]; [|now left | right; auto].
  intros [ev [Hev W]]. exact (X ev Hev W).
Qed.

(* ---- no overwrite ---- *)
Theorem no_overwrite_safe : forall s c q, c_allow c = false -> s q <> None -> fst (STEP s c) q = s q.
Proof.
  intros s c q Ha Hq. pose proof (SS c) as Ls. rewrite step_flat. destruct (c_dryrun c) eqn:Hd.
  - now rewrite list_dry.
  - now apply list_noov_keep.
Qed.

Theorem no_overwrite_safe_history : forall h s0 q,
  (forall ev, In ev h -> exists c, ev = Run c /\ c_allow c = false) -> s0 q <> None -> HIST s0 h q = s0 q.
Proof.
  induction h as [|ev r IH]; intros s0 q Hall Hq; cbn [history fold_left]; [reflexivity|].
  destruct (Hall ev (or_introl eq_refl)) as [c [-> Ha]]. cbn [apply_event].
  assert (E : fst (STEP s0 c) q = s0 q) by (now apply no_overwrite_safe).
  unfold history in IH. rewrite IH.
  - exact E.
  - intros ev' H'. apply Hall. now right.
  - congruence.
Qed.

Theorem no_overwrite_conflict_fails : forall s c,
  c_dryrun c = false -> c_allow c = false ->
  (exists p, In p (targets c) /\ s p <> None) -> snd (STEP s c) <> Ok.
Proof.
  intros s c Hd Ha [p [Hin Hp]]. pose proof (SS c) as Ls. rewrite step_flat. apply (list_blocked_fails render e Hwf c Hd Ls); auto.
  destruct (s p) as [f|] eqn:E; [|congruence]. exists p, f. auto.
Qed.

(* a directory at the path of a file to generate is never written into, chmod-ed or replaced: the run fails (fix 7df01dd) *)
Theorem directory_at_target_fails : forall s c,
  c_dryrun c = false -> (exists p, In p (targets c) /\ fs_is_dir s p = true) -> snd (STEP s c) <> Ok.
Proof.
  intros s c Hd [p [Hin Hp]]. pose proof (SS c) as Ls. rewrite step_flat. apply (list_blocked_fails render e Hwf c Hd Ls); auto.
  unfold fs_is_dir in Hp. destruct (s p) as [f|] eqn:E; [|discriminate]. exists p, f. auto.
Qed.

Theorem directory_at_target_kept : forall s ev q f, s q = Some f -> f_isdir f = true ->
  exists f', apply_event render e s ev q = Some f' /\ f_isdir f' = true /\ f_owned f' = f_owned f /\
             (~ In q (targets (ev_cfg ev)) -> f' = f).
Proof.
  intros s ev q f E D. pose proof (event_rel_fine render e Hwf ev s (SS (ev_cfg ev))) as Rl.
  destruct (rel_keeps_kind render e _ _ _ _ q f Rl E) as [f' [E' [D' O']]]. exists f'. repeat split; auto; [congruence|].
  intros X. destruct (Rl q) as [F _]. destruct (F X) as [Y|[_ [Y _]]]; congruence.
Qed.

Theorem no_overwrite_ok_iff : forall s c,
  c_dryrun c = false -> c_allow c = false -> no_external (c_filepps c) = true -> compatible e c c -> targets_plain c ->
  NoDup (targets c) -> (forall p, In p (targets c) -> ready e s p = true) ->
  (snd (STEP s c) = Ok <-> forall p, In p (targets c) -> s p = None).
Proof.
  intros s c Hd Ha Hne Hc Lc Hnd Hr. rewrite step_flat. split.
  - intros H p Hin. destruct (s p) as [f|] eqn:E; [|reflexivity]. exfalso.
    apply (list_blocked_fails render e Hwf c Hd (targets_plain_safe e c Lc) (items c) s); auto. exists p, f. auto.
  - intros H. apply (list_noov_clean render e Hind Hwf c Hd Hne Hc Lc); auto.
Qed.

Theorem no_overwrite_error_iff : forall s c,
  c_dryrun c = false -> c_allow c = false -> no_external (c_filepps c) = true -> compatible e c c -> targets_plain c ->
  NoDup (targets c) -> (forall p, In p (targets c) -> ready e s p = true) ->
  (snd (STEP s c) = Err EExists <-> exists p, In p (targets c) /\ s p <> None).
Proof.
  intros s c Hd Ha Hne Hc Lc Hnd Hr. rewrite step_flat. apply (list_noov_conflict render e Hind Hwf c Hd Hne Hc Lc Ha); auto.
Qed.

Theorem dry_run_inert : forall s c, c_dryrun c = true -> STEP s c = (s, Ok).
Proof. intros s c Hd. rewrite step_flat. now apply list_dry. Qed.

(* ---- totality ---- *)
Theorem regen_total_history : forall h s0 c,
  chmodable e s0 -> (forall p, In p (targets c) -> ready e s0 p = true) ->
  compatible e c c -> (forall ev, In ev h -> compatible e c (ev_cfg ev)) ->
  targets_plain c ->
  c_allow c = true -> c_dryrun c = false -> no_external (c_filepps c) = true ->
  snd (STEP (HIST s0 h) c) = Ok.
Proof.
  intros h s0 c Hch Hr Hcc Hch' Lc Ha Hd Hne. rewrite step_flat.
  pose proof (history_rel_fine render e Hwf h s0 (fun ev _ => SS (ev_cfg ev))) as Rl.
  apply (list_total render e Hind Hwf c Hd Hne Ha Hcc Lc); auto.
  - eapply rel_chmodable; eauto.
  - intros p Hp. apply (ready_preserved e _ _ s0 _ p Rl).
    + intros q Hq [ev [Hev Ht]]. apply (proj1 (Hch' ev Hev) q); [|exact Ht].
      unfold anc, dir_targets. apply in_flat_map. eauto.
    + intros [ev [Hev Han]]. exact (proj2 (Hch' ev Hev) p Han Hp).
    + now apply Hr.
Qed.

Theorem chmodable_history : forall h s0, chmodable e s0 -> chmodable e (HIST s0 h).
Proof. intros h s0 H. eapply rel_chmodable; [apply (history_rel_fine render e Hwf h s0 (fun ev _ => SS (ev_cfg ev))) | exact H]. Qed.

(* with a gate that refuses links: a link at a target makes the run fail *)
Theorem symlink_at_target_fails : forall s c,
  c_dryrun c = false -> (exists p, In p (targets c) /\ links e p <> None) -> snd (STEP s c) <> Ok.
Proof.
  intros s c Hd [p [Hin Hp]]. rewrite step_flat. apply (list_refused_fails render e c Hd). exists p. split; [exact Hin|].
  intros s0 a. destruct (links e p) as [d|] eqn:L; [|congruence]. exact (gate_refuses_links_now e s0 p a d L).
Qed.

Theorem special_at_target_fails : forall s c,
  c_dryrun c = false -> (exists p, In p (targets c) /\ links e p = None /\ special e p = true) -> snd (STEP s c) <> Ok.
Proof.
  intros s c Hd [p [Hin [L S]]]. pose proof gate_refuses_special_now as Hg. rewrite step_flat. apply (list_refused_fails render e c Hd). exists p. split; [exact Hin|].
  intros s0 a. now apply Hg.
Qed.

(* all three writers are "the gate, then the rest" *)
Theorem same_gate : forall c p k, c_dryrun c = false ->
  exists rest, forall s, write_item render e c s (p, k) = bind (handle_overwrite e s p (c_allow c)) rest.
Proof.
  intros c p k Hd. exists (run_acts render e c p [AMkdirParents; body c k; AFilePPs]). intros s.
  unfold write_item. cbn [fst snd]. rewrite flat_acts_shape by exact Hd. reflexivity.
Qed.

End Final.

(* which paths a configuration writes: derived from the translated decisions, for every --generate-support / --omit value *)
Theorem targets_derived : forall c,
  targets c = (if should_generate_support (c_gensup c) (c_omit c)
               then map fst (support_selection (c_omit c) (c_sersup c) (c_typesup c)) else [])
              ++ (if generates_types (c_gensup c) then c_types c else []).
Proof.
  intros c. unfold targets, items. unfold cli_generate_phases. cbn [flat_map phase_items]. rewrite app_nil_r, map_app.
  f_equal.
  - destruct (should_generate_support (c_gensup c) (c_omit c)); [|reflexivity]. rewrite map_map. reflexivity.
  - destruct (generates_types (c_gensup c)); [|reflexivity]. rewrite map_map. cbn [fst]. now rewrite map_id.
Qed.

Theorem cli_setfilemode_last : last cli_pp_list (false, KTrim) = (true, KSetFileMode).
Proof. reflexivity. Qed.

(* ------------------------------------------------------------------------------------------ *)
(* witnesses                                                                                    *)
(* ------------------------------------------------------------------------------------------ *)
Definition wit_render : fs -> N -> N -> path -> N := fun _ _ cl p => 1000000 + cl * 10000 + p.

(* paths: 1 = nunavut/, 2 = nunavut/extra.hpp (target of a copied support file), 3 = nunavut/extra.hpp/extra.h, 4 = nunavut/x.hpp *)
Definition wit_anc (p : path) : list path := if N.eqb p 2 then [1] else if N.eqb p 3 then [1; 2] else if N.eqb p 4 then [1] else [].
Definition wit_env (su : bool) : env := mkEnv su 18 true wit_anc (fun p => p + 1) (fun _ => None) (fun _ => false).
(* the same tree where 4 = nunavut/x.hpp is a symbolic link to 9, a path outside the output directory *)
Definition wit_env_link (su : bool) : env := mkEnv su 18 true wit_anc (fun p => p + 1) (fun p => if N.eqb p 4 then Some 9 else None) (fun _ => false).
(* ... and where 4 is a character device *)
Definition wit_env_special (su : bool) : env := mkEnv su 18 true wit_anc (fun p => p + 1) (fun _ => None) (fun p => N.eqb p 4).
Definition wit_cfg (allow linepps : bool) (types : list path) (typesup : list (path * bool)) : cfg :=
  mkCfg 7 0 allow false linepps [PPSetFileMode 292] GSAlways false [] typesup types 416.

(* (b) of the audit: the unconditional "what is not a target does not change" is false: parent directories appear *)
Theorem foreign_unconditional_refuted :
  exists e s c q, ~ In q (targets c) /\ snd (step wit_render e s c) = Ok /\ fst (step wit_render e s c) q <> s q.
Proof.
  exists (wit_env false), empty_fs, (wit_cfg true false [4] []), 1. vm_compute. repeat split; try discriminate. intuition discriminate.
Qed.

(* ---- FIX-STATE GUARDS (audit 3) -------------------------------------------------------------------------------------------
   For every finding of C12 recorded as fixed in known_findings.d/C12.json (flags regenerated on every run) the defect's witness,
   run on the model translated from /repo, must NOT reproduce.  A revert of 7df01dd / 84a8551 / the non-regular fix breaks
   this theorem (and gate_refuses_links_now / handle_overwrite_dir above). *)
Definition wit_dirs : fs := upd empty_fs 1 (mkF 0 493 true true).
Definition wit_dir_fs : fs := upd wit_dirs 2 (mkF 0 493 true true).
(* a directory at the target of a copied support file: does the run report success? *)
Definition dir_quirk : bool := is_ok (snd (step wit_render (wit_env false) wit_dir_fs (wit_cfg true false [] [(2, false)]))).
(* a dangling symbolic link at a target under --no-overwrite *)
Definition link_quirk : bool := is_ok (snd (step wit_render (wit_env_link false) wit_dirs (wit_cfg false false [4] []))).
(* a character device at a target *)
Definition wit_special_fs : fs := upd wit_dirs 4 (mkF 0 292 true false).
Definition special_quirk : bool := is_ok (snd (step wit_render (wit_env_special false) wit_special_fs (wit_cfg true false [4] []))).

Theorem fix_state_guards :
  implb fixed_directory_refusal (negb dir_quirk) && implb fixed_symlink_refusal (negb link_quirk)
  && implb fixed_nonregular_refusal (negb special_quirk) = true.
Proof. vm_compute. reflexivity. Qed.
