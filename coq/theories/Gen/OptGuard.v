(* C17 -- the language-option guard of generated C / C++ headers.  Executable model only
   (proofs: Gen/OptGuardThm.v; regenerated data and the translated filter: Generated/Gen_OptGuard.v).

   Mechanism in /repo (the same in both languages):
     support header   {% for key, value in options.items() %}  DEFINE  name(key) := value | to_static_assertion_value
     every type header {% for key, value in options.items() %}  static_assert( name(key) == value | to_static_assertion_value, "...different language options..." )
   C:   name(key) = "NUNAVUT_SUPPORT_LANGUAGE_OPTION_{}".format(key) | ln.c.macrofy   (a #define)
   C++: name(key) = nunavut::support::options::{{ key | id }}                          (a constexpr std::uint32_t);
        the type-header loop is wrapped in `if not nunavut.support.omit`.
   The support header is rendered from the option set o_s of one nnvg run, the type headers from
   the option set o_t of another; the compiler then sees both.  *)
From Verif Require Import Str Crc32.
From Coq Require Import ZArith.
Open Scope N_scope.

(* option values as they arrive from YAML / the CLI *)
Inductive oval :=
| VBool (b : bool)
| VInt (z : Z)
| VStr (s : str)
| VOther.            (* float, None, list, dict ...: anything else *)

Notation key := (list N) (only parsing).
Notation opts := (list (list N * oval)) (only parsing).

Definition oval_eqb (a b : oval) : bool :=
  match a, b with
  | VBool x, VBool y => Bool.eqb x y
  | VInt x, VInt y => Z.eqb x y
  | VStr x, VStr y => str_eqb x y
  | VOther, VOther => true
  | _, _ => false
  end.

(* Python's isinstance on the value classes (bool is a subclass of int) *)
Definition is_bool (v : oval) : bool := match v with VBool _ => true | _ => false end.
Definition is_int (v : oval) : bool := match v with VBool _ | VInt _ => true | _ => false end.
Definition is_str (v : oval) : bool := match v with VStr _ => true | _ => false end.
Definition truthy (v : oval) : bool :=
  match v with VBool b => b | VInt z => negb (Z.eqb z 0) | VStr s => negb (str_eqb s []) | VOther => false end.
(* `return obj` of an int: the number itself; a bool reaching that statement would be rendered
   as True/False by Jinja, which is not an integer constant expression: modelled as failure *)
Definition as_int (v : oval) : option Z := match v with VInt z => Some z | _ => None end.
Definition crc_of (v : oval) : option Z :=
  match v with VStr s => option_map Z.of_N (crc32_str s) | _ => None end.

(* What the template scanner extracts from one of the two loops (tools/translators/gen_c17.py). *)
Record side := {
  sd_iter : str;          (* the iterated expression, "options.items()" *)
  sd_skip : list str;     (* keys excluded by a loop filter / an `if key != ...` around the body *)
  sd_name : str;          (* canonical text of the expression that renders the symbol name from `key` *)
  sd_value : str;         (* canonical text of the expression that renders the number from `value` *)
  sd_unless_omit : bool;  (* loop wrapped in `if not nunavut.support.omit` *)
  sd_keyset : option str; (* symbol that carries the fingerprint of the option KEY SET
                             (`options.keys() | sort(case_sensitive=true) | join(",") | to_static_assertion_value`),
                             defined by the support header / asserted by the type header; None = not present *)
  sd_path_escape : list (N * str); (* the chain of `replace(<char>, <text>)` filters the DSDL path goes through before it is
                             interpolated into a message (applied left to right); [] = raw path *)
  sd_msg_exprs : list str;(* canonical text of every template expression interpolated INSIDE the string literals of the
                             assertion messages (type side; [] on the support side) *)
  (* C / C++ level context of the statements (the scanner tracks comments and preprocessor conditionals) *)
  sd_in_comment : bool;       (* a statement or the loop sits inside a /* */ or // comment *)
  sd_pp_context : list str;   (* enclosing #if/#ifdef/#ifndef/#else branches that are not include guards *)
  sd_includes_before : bool   (* type side: the `#include` loop over `T | includes` (which brings in the support header)
                                 is rendered, live, before the first assertion; support side: true *)
}.

(* the statements are seen by the compiler: not commented out, not under a conditional, symbols declared before use *)
Definition side_live (sd : side) : bool :=
  negb (sd_in_comment sd) && match sd_pp_context sd with [] => true | _ => false end && sd_includes_before sd.

(* A rendered symbol: the expression it was rendered with, and the key.  Two symbols are the
   same C/C++ entity iff both coincide (the rendered names of distinct keys are distinct:
   theorem names_nodup over the names rendered by the real filters). *)
Definition sym_eqb (a b : str * str) : bool := str_eqb (fst a) (fst b) && str_eqb (snd a) (snd b).

Fixpoint lookup_sym (n : str * str) (tbl : list ((str * str) * Z)) : option Z :=
  match tbl with
  | [] => None
  | (m, z) :: tbl' => if sym_eqb n m then Some z else lookup_sym n tbl'
  end.

Fixpoint lookup_key {A : Type} (k : str) (l : list (str * A)) : option A :=
  match l with
  | [] => None
  | (k', a) :: l' => if str_eqb k k' then Some a else lookup_key k l'
  end.

Fixpoint map_opt {A B : Type} (f : A -> option B) (l : list A) : option (list B) :=
  match l with
  | [] => Some []
  | a :: l' => match f a, map_opt f l' with Some b, Some bs => Some (b :: bs) | _, _ => None end
  end.

Inductive diag :=
| Mismatch (k : str)     (* "static assertion failed: ... different language options ..." on the assert of key k *)
| Undeclared (k : str)   (* the symbol of key k is not defined by the support header *)
| KeySetMismatch         (* the assertion on the key-set fingerprint fails (same message) *)
| KeySetUndeclared.      (* the type header asserts a key-set symbol the support header does not define *)

(* code-point lexicographic order = Python's order on str (Jinja `sort(case_sensitive=true)`) *)
Fixpoint str_leb (a b : str) : bool :=
  match a, b with
  | [], _ => true
  | _ :: _, [] => false
  | x :: a', y :: b' => if x <? y then true else if y <? x then false else str_leb a' b'
  end.
Fixpoint insert_str (x : str) (l : list str) : list str :=
  match l with
  | [] => [x]
  | y :: l' => if str_leb x y then x :: l else y :: insert_str x l'
  end.
Fixpoint isort (l : list str) : list str :=
  match l with [] => [] | x :: l' => insert_str x (isort l') end.
Fixpoint join_comma (l : list str) : str :=
  match l with
  | [] => []
  | x :: l' => match l' with [] => x | _ => x ++ 44 :: join_comma l' end
  end.
Fixpoint list_str_eqb (a b : list str) : bool :=
  match a, b with
  | [], [] => true
  | x :: a', y :: b' => str_eqb x y && list_str_eqb a' b'
  | _, _ => false
  end.
Definition keyset_text (o : list (str * oval)) : str := join_comma (isort (map fst o)).

Section Model.
  (* the value filter; instantiated with Gen_OptGuard.sav (translated from lang/c/__init__.py) *)
  Variable sav : oval -> option Z.

  Definition emitted (sd : side) (o : opts) : opts :=
    filter (fun kv => negb (str_in (fst kv) (sd_skip sd))) o.

  (* the numbers a loop renders; None = nnvg fails (filter raises ValueError) *)
  Definition rendered (sd : side) (o : opts) : option (list ((str * str) * Z)) :=
    map_opt (fun kv => match sav (snd kv) with Some z => Some ((sd_name sd, fst kv), z) | None => None end)
            (emitted sd o).

  Definition check_one (tbl : list ((str * str) * Z)) (a : (str * str) * Z) : list diag :=
    match lookup_sym (fst a) tbl with
    | None => [Undeclared (snd (fst a))]
    | Some z => if Z.eqb z (snd a) then [] else [Mismatch (snd (fst a))]
    end.

  (* diagnostics of one type header from o_t compiled against the support header from o_s;
     both sides must use the same value expression, otherwise nothing is predicted (None) *)
  Definition compile (sup typ : side) (o_s o_t : opts) : option (list diag) :=
    if negb (str_eqb (sd_iter sup) (sd_iter typ) && str_eqb (sd_value sup) (sd_value typ)) then None else
    match rendered sup o_s, rendered typ o_t with
    | Some tbl, Some asserts => Some (flat_map (check_one tbl) asserts)
    | _, _ => None
    end.

  Definition compiles_together (sup typ : side) (o_s o_t : opts) : bool :=
    match compile sup typ o_s o_t with Some [] => true | _ => false end.

  (* the key-set fingerprint (present only in a tree that has the F-OPTGUARD-KEYSET fix) *)
  Definition keyfp (o : opts) : option Z := sav (VStr (keyset_text o)).

  Definition keyset_diags (sup typ : side) (o_s o_t : opts) : option (list diag) :=
    match sd_keyset typ with
    | None => Some []
    | Some nt =>
        match sd_keyset sup with
        | None => Some [KeySetUndeclared]
        | Some ns =>
            if str_eqb ns nt then
              match keyfp o_s, keyfp o_t with
              | Some a, Some b => Some (if Z.eqb a b then [] else [KeySetMismatch])
              | _, _ => None
              end
            else Some [KeySetUndeclared]
        end
    end.

  (* everything one type header reports: key-set assertion first, then the per-option assertions *)
  Definition compile_full (sup typ : side) (o_s o_t : opts) : option (list diag) :=
    match keyset_diags sup typ o_s o_t, compile sup typ o_s o_t with
    | Some a, Some b => Some (a ++ b)
    | _, _ => None
    end.

  Definition compiles_together_full (sup typ : side) (o_s o_t : opts) : bool :=
    match compile_full sup typ o_s o_t with Some [] => true | _ => false end.

  (* type headers generated with --omit-serialization-support: no support header is included *)
  Definition compile_omit (typ : side) (o_t : opts) : option (list diag) :=
    if sd_unless_omit typ then Some []
    else match rendered typ o_t with
         | Some asserts => Some ((match sd_keyset typ with Some _ => [KeySetUndeclared] | None => [] end)
                                 ++ map (fun a => Undeclared (snd (fst a))) asserts)
         | None => None
         end.
End Model.

(* documented value domain: per key the list of documented values *)
Definition in_domainb (dom : list (str * list oval)) (o : opts) : bool :=
  forallb (fun kv => match lookup_key (fst kv) dom with
                     | Some vs => existsb (oval_eqb (snd kv)) vs
                     | None => false
                     end) o.

Fixpoint nodupb (l : list str) : bool :=
  match l with
  | [] => true
  | x :: l' => negb (str_in x l') && nodupb l'
  end.

(* finite checker: the filter is defined and injective on each documented value list *)
Fixpoint inj_on (sav : oval -> option Z) (vs : list oval) : bool :=
  match vs with
  | [] => true
  | v :: vs' =>
      match sav v with
      | None => false
      | Some z => forallb (fun w => oval_eqb v w || negb (match sav w with Some z' => Z.eqb z z' | None => false end)) vs'
                  && inj_on sav vs'
      end
  end.

Definition domain_ok (sav : oval -> option Z) (dom : list (str * list oval)) : bool :=
  forallb (fun kvs => inj_on sav (snd kvs)) dom && nodupb (map fst dom).

(* what the scanner must have found for the proofs to apply: both loops run over every item of
   `options` and render the number with the translated filter *)
Definition iter_expr : str :=   (* options.items() *)
  [111; 112; 116; 105; 111; 110; 115; 46; 105; 116; 101; 109; 115; 40; 41].
Definition sav_expr : str :=    (* value | to_static_assertion_value *)
  [118; 97; 108; 117; 101; 32; 124; 32; 116; 111; 95; 115; 116; 97; 116; 105; 99; 95; 97; 115; 115; 101; 114; 116; 105; 111; 110; 95; 118; 97; 108; 117; 101].

(* ---- string-literal safety of what the assertion messages interpolate ----
   Message pieces: the DSDL file NAME (pydsdl restricts it to <identifier>.<n>.<n>.dsdl), the option KEY, and the token
   <escaped-path> = the DSDL path passed through the regenerated replace chain sd_path_escape.  An option VALUE is
   never literal-safe (documented values contain double quotes). *)
Definition safe_msg_exprs : list str :=
  [ [60; 101; 115; 99; 97; 112; 101; 100; 45; 112; 97; 116; 104; 62] (* <escaped-path> *);
    [84; 46; 115; 111; 117; 114; 99; 101; 95; 102; 105; 108; 101; 95; 112; 97; 116; 104; 46; 110; 97; 109; 101] (* T.source_file_path.name *);
    [107; 101; 121] (* key *);
    [107; 101; 121; 32; 124; 32; 105; 100] (* key | id *) ].
Definition msg_literal_safe (sd : side) : bool := forallb (fun e => str_in e safe_msg_exprs) (sd_msg_exprs sd).

(* Jinja `x | replace(c, r) | ...`: each filter rewrites the whole result of the previous one *)
Fixpoint apply_escape (chain : list (N * str)) (s : str) : str :=
  match chain with
  | [] => s
  | (c, r) :: ch => apply_escape ch (flat_map (fun x => if x =? c then r else [x]) s)
  end.

(* body of a C / C++ string literal: no bare double quote, no newline; a backslash only when followed by a backslash,
   a double quote, a question mark or an apostrophe *)
Fixpoint lit_ok (s : str) : bool :=
  match s with
  | [] => true
  | c :: s' =>
      if c =? 92 then
        match s' with
        | d :: s'' => ((d =? 92) || (d =? 34) || (d =? 63) || (d =? 39)) && lit_ok s''
        | [] => false
        end
      else if (c =? 34) || (c =? 10) then false else lit_ok s'
  end.

(* translation phase 1 of the ISO modes the check compiles with (-std=c11, -std=c++14): trigraph replacement *)
Definition trigraph (c : N) : option N :=
  if c =? 61 then Some 35 else if c =? 40 then Some 91 else if c =? 47 then Some 92 else if c =? 41 then Some 93
  else if c =? 39 then Some 94 else if c =? 60 then Some 123 else if c =? 33 then Some 124 else if c =? 62 then Some 125
  else if c =? 45 then Some 126 else None.
Fixpoint detrigraph (s : str) : str :=
  match s with
  | [] => []
  | a :: s' =>
      match s' with
      | b :: c :: r => if (a =? 63) && (b =? 63) then match trigraph c with Some x => x :: detrigraph r | None => a :: detrigraph s' end
                       else a :: detrigraph s'
      | _ => a :: detrigraph s'
      end
  end.

(* all strings of length <= n over an alphabet *)
Fixpoint strings_upto (alpha : list N) (n : nat) : list str :=
  match n with
  | O => [[]]
  | S m => [] :: flat_map (fun s => map (fun a => a :: s) alpha) (strings_upto alpha m)
  end.
(* the characters that matter: double quote, backslash, question mark, slash, apostrophe, right parenthesis, a letter *)
Definition hostile_alphabet : list N := [34; 92; 63; 47; 39; 41; 117].
Definition hostile_paths : list str := strings_upto hostile_alphabet 5.
(* bounded, exhaustive: every path of <= 5 hostile characters is a valid literal body after escaping ... *)
Definition escape_quote_safe (chain : list (N * str)) : bool := forallb (fun s => lit_ok (apply_escape chain s)) hostile_paths.
(* ... also after trigraph replacement *)
Definition escape_trigraph_safe (chain : list (N * str)) : bool :=
  forallb (fun s => lit_ok (detrigraph (apply_escape chain s))) hostile_paths.
(* a side whose messages interpolate the path must escape it (a side without messages has nothing to escape) *)
Definition path_escape_ok (sd : side) : bool :=
  negb (str_in [60; 101; 115; 99; 97; 112; 101; 100; 45; 112; 97; 116; 104; 62] (sd_msg_exprs sd)) || escape_quote_safe (sd_path_escape sd).
(* the only accepted chain: backslash, double quote, question mark, in this order (fixes b33cf26 + f2f61d1) *)
Definition chain_bq : list (N * str) := [(92, [92; 92]); (34, [92; 34])].
Definition chain_bqq : list (N * str) := chain_bq ++ [(63, [92; 63])].
Fixpoint chain_eqb (a b : list (N * str)) : bool :=
  match a, b with
  | [], [] => true
  | (c, r) :: a', (d, t) :: b' => (c =? d) && str_eqb r t && chain_eqb a' b'
  | _, _ => false
  end.
Definition path_chain_expected (sd : side) : bool :=
  negb (str_in [60; 101; 115; 99; 97; 112; 101; 100; 45; 112; 97; 116; 104; 62] (sd_msg_exprs sd)) || chain_eqb (sd_path_escape sd) chain_bqq.
Definition path_trigraph_ok (sd : side) : bool :=
  negb (str_in [60; 101; 115; 99; 97; 112; 101; 100; 45; 112; 97; 116; 104; 62] (sd_msg_exprs sd)) || escape_trigraph_safe (sd_path_escape sd).

Definition sides_agree (sup typ : side) : bool :=
  side_live typ && side_live sup && msg_literal_safe typ && msg_literal_safe sup && path_escape_ok typ && path_escape_ok sup && path_trigraph_ok typ && path_trigraph_ok sup &&
  path_chain_expected typ && path_chain_expected sup &&
  str_eqb (sd_iter typ) iter_expr && str_eqb (sd_value typ) sav_expr &&
  str_eqb (sd_iter sup) (sd_iter typ) && str_eqb (sd_name sup) (sd_name typ) && str_eqb (sd_value sup) (sd_value typ)
  && match sd_skip sup, sd_skip typ with [], [] => true | _, _ => false end.

Definition diag_key (d : diag) : str := match d with Mismatch k => k | Undeclared k => k | _ => [] end.

(* both sides carry the key-set fingerprint under the same symbol *)
Definition keyset_guarded (sup typ : side) : bool :=
  match sd_keyset sup, sd_keyset typ with Some a, Some b => str_eqb a b | _, _ => false end.
Definition keyset_absent (sup typ : side) : bool :=
  match sd_keyset sup, sd_keyset typ with None, None => true | _, _ => false end.

(* finite checker: the fingerprint is defined and injective on the documented key sets *)
Definition keysets_ok (sav : oval -> option Z) (kss : list (list str)) : bool :=
  let S := map isort kss in
  forallb (fun a => match sav (VStr (join_comma a)) with
                    | None => false
                    | Some z => forallb (fun b => list_str_eqb a b
                                                  || negb (match sav (VStr (join_comma b)) with Some z' => Z.eqb z z' | None => false end)) S
                    end) S.
Definition keys_documentedb (kss : list (list str)) (o : opts) : bool :=
  existsb (list_str_eqb (isort (map fst o))) (map isort kss).
Definition is_mismatch (d : diag) : bool := match d with Mismatch _ => true | _ => false end.

(* ---- classification of the language options (hand-written; the regenerated option list of properties.yaml
   must be covered: C17_options_classified fails for a newly added option until it is classified here) ----
   OWire        changes the byte-level behaviour of the (de)serialisation code that support and type headers share
   OSupportApi  changes which functions / macros the support header offers or requires
   OAbi         changes the C++ type layout, container / allocator types or constructor signatures of generated types
   OSource      changes only how expressions are spelled in the generated source
   OIrrelevant  proven / argued not to influence support-header / type-header compatibility (none at present) *)
Inductive oclass := OWire | OSupportApi | OAbi | OSource | OIrrelevant.
Definition option_classes : list (str * oclass) :=
  [ ([116; 97; 114; 103; 101; 116; 95; 101; 110; 100; 105; 97; 110; 110; 101; 115; 115] (* target_endianness *), OWire);
    ([111; 109; 105; 116; 95; 102; 108; 111; 97; 116; 95; 115; 101; 114; 105; 97; 108; 105; 122; 97; 116; 105; 111; 110; 95; 115; 117; 112; 112; 111; 114; 116] (* omit_float_serialization_support *), OSupportApi);
    ([101; 110; 97; 98; 108; 101; 95; 115; 101; 114; 105; 97; 108; 105; 122; 97; 116; 105; 111; 110; 95; 97; 115; 115; 101; 114; 116; 115] (* enable_serialization_asserts *), OSupportApi);
    ([101; 110; 97; 98; 108; 101; 95; 111; 118; 101; 114; 114; 105; 100; 101; 95; 118; 97; 114; 105; 97; 98; 108; 101; 95; 97; 114; 114; 97; 121; 95; 99; 97; 112; 97; 99; 105; 116; 121] (* enable_override_variable_array_capacity *), OAbi);
    ([99; 97; 115; 116; 95; 102; 111; 114; 109; 97; 116] (* cast_format *), OSource);
    ([115; 116; 100] (* std *), OAbi);
    ([115; 116; 100; 95; 102; 108; 97; 118; 111; 114] (* std_flavor *), OAbi);
    ([118; 97; 114; 105; 97; 98; 108; 101; 95; 97; 114; 114; 97; 121; 95; 116; 121; 112; 101; 95; 105; 110; 99; 108; 117; 100; 101] (* variable_array_type_include *), OAbi);
    ([118; 97; 114; 105; 97; 98; 108; 101; 95; 97; 114; 114; 97; 121; 95; 116; 121; 112; 101; 95; 116; 101; 109; 112; 108; 97; 116; 101] (* variable_array_type_template *), OAbi);
    ([118; 97; 114; 105; 97; 98; 108; 101; 95; 97; 114; 114; 97; 121; 95; 116; 121; 112; 101; 95; 99; 111; 110; 115; 116; 114; 117; 99; 116; 111; 114; 95; 97; 114; 103; 115] (* variable_array_type_constructor_args *), OAbi);
    ([97; 108; 108; 111; 99; 97; 116; 111; 114; 95; 105; 110; 99; 108; 117; 100; 101] (* allocator_include *), OAbi);
    ([97; 108; 108; 111; 99; 97; 116; 111; 114; 95; 116; 121; 112; 101] (* allocator_type *), OAbi);
    ([97; 108; 108; 111; 99; 97; 116; 111; 114; 95; 105; 115; 95; 100; 101; 102; 97; 117; 108; 116; 95; 99; 111; 110; 115; 116; 114; 117; 99; 116; 105; 98; 108; 101] (* allocator_is_default_constructible *), OAbi);
    ([99; 116; 111; 114; 95; 99; 111; 110; 118; 101; 110; 116; 105; 111; 110] (* ctor_convention *), OAbi) ].
Definition classifiedb (keys : list str) : bool :=
  forallb (fun k => match lookup_key k option_classes with Some _ => true | None => false end) keys.
(* options that must agree between the two translation units: every classified option except OIrrelevant, and every
   option nobody has classified (user-defined ones) *)
Definition relevant (k : str) : bool :=
  match lookup_key k option_classes with Some OIrrelevant => false | _ => true end.
Definition opt_equiv (o1 o2 : list (str * oval)) : Prop :=
  forall k, relevant k = true -> lookup_key k o1 = lookup_key k o2.

(* a tree before the key-set fingerprint (History/C17_history.v) *)
Definition without_keyset (sd : side) : side :=
  {| sd_iter := sd_iter sd; sd_skip := sd_skip sd; sd_name := sd_name sd; sd_value := sd_value sd;
     sd_unless_omit := sd_unless_omit sd; sd_keyset := None; sd_path_escape := sd_path_escape sd; sd_msg_exprs := sd_msg_exprs sd;
     sd_in_comment := sd_in_comment sd; sd_pp_context := sd_pp_context sd; sd_includes_before := sd_includes_before sd |}.
