(* Model of the per-file part of CodeGenerator._generate_code that matters for line post-processing: the post-processor
   objects are shared by all files a generator writes; before each file every line processor is reset
   (`line_pps.append(_reset_line_pp(pp))`, fix 88d3c81; LimitEmptyLines.reset translated in Generated/Gen_Uniq.v), then the
   template chunks go through _generate_with_line_buffer.  Executable part only. *)
From Verif Require Export LinePPInst Gen_Uniq.
Open Scope N_scope.

Definition pp_reset (p : pp) : pp :=
  match p with
  | PTrim => PTrim
  | PLimit s => PLimit (LimitEmptyLines_reset s)
  end.

(* (since fix 91c… of C10, `_generate_code` first drops the Jinja modules of templates imported without context --
   `_forget_imported_template_modules`: it concerns what the template generator yields, i.e. the `chunks` below, not how
   they are written; reviewed when the shape pin was refreshed for /repo ea2ccee) *)
(* `if len(line_pps) > 0: self._generate_with_line_buffer(...) else: for part in template_gen: output_file.write(part)` *)
Definition gen_file (ps : list pp) (chunks : list str) : list pp * str :=
  match ps with
  | [] => ([], concat chunks)
  | _ :: _ => write_builtin (map pp_reset ps) chunks
  end.

(* the files of one generator, in order; the processor objects (their state) are carried from file to file *)
Fixpoint gen_files (ps : list pp) (files : list (list str)) : list str :=
  match files with
  | [] => []
  | f :: fs => let '(ps', out) := gen_file ps f in out :: gen_files ps' fs
  end.

(* the same without the per-file reset (the code before fix 88d3c81), kept to document why the reset is needed *)
Fixpoint gen_files_noreset (ps : list pp) (files : list (list str)) : list str :=
  match files with
  | [] => []
  | f :: fs => let '(ps', out) := write_builtin ps f in out :: gen_files_noreset ps' fs
  end.
