(* C11: build_namespace_tree (Gen/Namespace.v `build`) constructs the tree the property describes,
   for EVERY list of types and EVERY iteration order of the namespace index.
   Phase 1 (loop over the types): invariant idx1_inv -- the ancestor index equals the set of all non-empty
   prefixes seen so far (this prefix-closedness is what makes the `break` sound).
   Phase 2 (linking loop over the index in arbitrary order): invariant link_inv. *)
From Verif Require Import NamespaceBase.
From Coq Require Import Lia.
Open Scope N_scope.

(* ---- small list facts ------------------------------------------------------------------------- *)
Lemma filter_nil_iff {A} (f : A -> bool) l : filter f l = [] <-> forall x, In x l -> f x = false.
Proof.
  induction l as [|a l IH]; cbn [filter]; [split; [intros _ x []|reflexivity]|].
  destruct (f a) eqn:E; split.
  - discriminate.
  - intros H. rewrite (H a (or_introl eq_refl)) in E. discriminate.
  - intros H x [<-|Hx]; [assumption | apply IH; assumption].
  - intros H. apply IH. intros x Hx. apply H. right; assumption.
Qed.

Lemma dict_set_fresh d t p : ~ In t (map fst d) -> dict_set d t p = d ++ [(t, p)].
Proof.
  induction d as [|[t' p'] d IH]; cbn [dict_set map fst app]; [reflexivity|].
  intros H. destruct (ty_eqb_spec t' t) as [->|Hne]; [exfalso; apply H; left; reflexivity|].
  rewrite IH; [reflexivity|]. intros X; apply H; right; assumption.
Qed.

Lemma nonempty_in {A} (l : list A) : l <> [] -> exists x, In x l.
Proof. destruct l as [|a l]; [congruence | intros _; exists a; left; reflexivity]. Qed.

Lemma NoDup_snoc {A} (l : list A) a : NoDup l -> ~ In a l -> NoDup (l ++ [a]).
Proof.
  intros H1 H2. eapply Permutation_NoDup; [apply Permutation_cons_append|]. constructor; assumption.
Qed.

(* ---- get_or_make ------------------------------------------------------------------------------- *)
Definition ensure (s : store) (k : key) : store := fst (get_or_make s k).

Lemma get_ensure s k k' :
  get (ensure s k) k' =
  match get s k' with Some n => Some n | None => if key_eqb k k' then Some new_node else None end.
Proof.
  unfold ensure, get_or_make. destruct (get s k) as [n|] eqn:E; cbn [fst].
  - destruct (get s k') eqn:E'; [reflexivity|].
    destruct (key_eqb_spec k k') as [->|]; [congruence|reflexivity].
  - apply get_app_new.
Qed.

Lemma keys_ensure s k x : In x (keys (ensure s k)) <-> In x (keys s) \/ x = k.
Proof.
  unfold ensure, get_or_make. destruct (get s k) as [n|] eqn:E; cbn [fst].
  - split; [tauto|]. intros [H| ->]; [assumption | eapply get_some_in; eassumption].
  - rewrite keys_app, in_app_iff; cbn [In]. intuition congruence.
Qed.

Lemma nodup_ensure s k : NoDup (keys s) -> NoDup (keys (ensure s k)).
Proof.
  unfold ensure, get_or_make. destruct (get s k) as [n|] eqn:E; cbn [fst]; [tauto|].
  intros H. rewrite keys_app. apply NoDup_snoc; [assumption | apply get_none; assumption].
Qed.

(* ---- the ancestor loop with its `break` ------------------------------------------------------------ *)
Lemma add_ancestors_incl i ns idx k : In k idx -> In k (add_ancestors i ns idx).
Proof.
  revert idx; induction i as [|i IH]; intros idx H; cbn [add_ancestors]; [assumption|].
  destruct (mem (firstn (S i) ns) idx); [assumption|]. apply IH. apply in_or_app; left; assumption.
Qed.

Lemma add_ancestors_sound i ns idx k :
  In k (add_ancestors i ns idx) -> In k idx \/ exists j, (1 <= j <= i)%nat /\ k = firstn j ns.
Proof.
  revert idx; induction i as [|i IH]; intros idx H; cbn [add_ancestors] in H; [left; assumption|].
  destruct (mem (firstn (S i) ns) idx); [left; assumption|].
  apply IH in H. destruct H as [H|(j & Hj & ->)].
  - apply in_app_or in H. destruct H as [H|[<-|[]]]; [left; assumption|]. right; exists (S i); split; [lia|reflexivity].
  - right; exists j; split; [lia|reflexivity].
Qed.

(* soundness of the `break`: if the index is closed under prefixes along ns, every prefix ends up in it *)
Lemma add_ancestors_complete i ns idx :
  (i <= length ns)%nat ->
  (forall j, (1 <= j <= i)%nat -> In (firstn j ns) idx -> forall j', (1 <= j' <= j)%nat -> In (firstn j' ns) idx) ->
  forall j, (1 <= j <= i)%nat -> In (firstn j ns) (add_ancestors i ns idx).
Proof.
  revert idx; induction i as [|i IH]; intros idx Hi Hcl j Hj; [lia|]. cbn [add_ancestors].
  destruct (mem (firstn (S i) ns) idx) eqn:E.
  - apply mem_spec in E. apply (Hcl (S i)); [lia | assumption | lia].
  - destruct (Nat.eq_dec j (S i)) as [->|Hne].
    + apply add_ancestors_incl. apply in_or_app; right; left; reflexivity.
    + apply IH; [lia | | lia].
      intros j1 Hj1 Hin j' Hj'. apply in_app_or in Hin. destruct Hin as [Hin|[Heq|[]]].
      * apply in_or_app; left. apply (Hcl j1); [lia | assumption | lia].
      * exfalso. apply (f_equal (@length _)) in Heq. rewrite !firstn_length in Heq. lia.
Qed.

Lemma add_ancestors_nodup i ns idx : NoDup idx -> NoDup (add_ancestors i ns idx).
Proof.
  revert idx; induction i as [|i IH]; intros idx H; cbn [add_ancestors]; [assumption|].
  destruct (mem (firstn (S i) ns) idx) eqn:E; [assumption|].
  apply IH. apply NoDup_snoc; [assumption | apply mem_false; assumption].
Qed.

Lemma nodes_of_app a b : nodes_of (a ++ b) = nodes_of a ++ nodes_of b.
Proof. unfold nodes_of. apply flat_map_app. Qed.

Section BUILD.
  Variable strop : str -> str.
  Variable ek : str -> str.      (* eqkey of Namespace.__eq__: `same` in the current code *)
  Variable es : bool.
  Variable ext : str.
  Variable outdir : path.

  Notation op := (out_path strop es ext outdir).
  Definition types_at (k : key) (l : list ty) : list (ty * path) :=
    map (fun t => (t, op t)) (filter (fun t => key_eqb (t_ns t) k) l).

  Lemma types_at_app k a b : types_at k (a ++ b) = types_at k a ++ types_at k b.
  Proof. unfold types_at. rewrite filter_app, map_app. reflexivity. Qed.

  Lemma types_at_fst k l t : In t (map fst (types_at k l)) -> In t l.
  Proof.
    unfold types_at. rewrite map_map; cbn [fst]. rewrite map_id. intros H. apply filter_In in H. tauto.
  Qed.

  Lemma types_at_none k l : (forall t, In t l -> t_ns t <> k) -> types_at k l = [].
  Proof.
    intros H. unfold types_at. replace (filter _ l) with (@nil ty); [reflexivity|].
    symmetry. apply filter_nil_iff. intros t Ht. apply key_eqb_neq. apply H; assumption.
  Qed.

  (* ---- phase 1: the loop over the types ---------------------------------------------------------- *)
  Record idx_inv (seen : list ty) (s : store) (idx : list key) : Prop := {
    i_nodup : NoDup (keys s);
    i_keys : forall k, In k (keys s) <-> exists t, In t seen /\ t_ns t = k;
    i_node : forall k n, get s k = Some n ->
               n_parent n = None /\ n_children n = [] /\ n_types n = types_at k seen;
    i_idx : forall k, In k idx <-> In k (nodes_of seen);
    i_idx_nodup : NoDup idx
  }.

  Lemma idx_inv_nil : idx_inv [] [] [].
  Proof.
    constructor; cbn; try constructor; try tauto; try discriminate.
    intros [t [[] _]].
  Qed.

  Lemma idx_step seen s idx t :
    idx_inv seen s idx -> ~ In t seen -> t_ns t <> [] ->
    idx_inv (seen ++ [t]) (fst (step_type strop es ext outdir (s, idx) t))
                          (snd (step_type strop es ext outdir (s, idx) t)).
  Proof.
    intros [Hnd Hkeys Hnode Hidx Hidxnd] Hnew Hne.
    set (ns := t_ns t).
    assert (Hs1 : exists n0, get (ensure s ns) ns = Some n0 /\ n_parent n0 = None /\ n_children n0 = []
                              /\ n_types n0 = types_at ns seen).
    { rewrite get_ensure. destruct (get s ns) as [n|] eqn:E.
      - exists n. split; [reflexivity|]. apply Hnode; assumption.
      - rewrite key_eqb_refl. exists new_node. repeat split; try reflexivity. cbn [new_node n_types].
        symmetry; apply types_at_none. intros t' Ht' Heq. apply get_none in E. apply E. apply Hkeys. eauto. }
    destruct Hs1 as (n0 & Hget0 & Hp0 & Hc0 & Ht0).
    assert (Hidx1 : forall k, In k (if snd (get_or_make s ns) then idx else add_ancestors (length ns) ns idx)
                              <-> In k (nodes_of (seen ++ [t]))).
    { intros k. rewrite nodes_of_app, in_app_iff, <- Hidx. unfold nodes_of at 1; cbn [flat_map]. rewrite app_nil_r.
      fold ns. rewrite in_prefixes.
      unfold get_or_make. destruct (get s ns) as [n|] eqn:E; cbn [snd].
      - split; [tauto|]. intros [H|(j & Hj & ->)]; [assumption|].
        apply Hidx. apply nodes_prefix_closed; [|assumption].
        apply get_some_in in E. apply Hkeys in E. destruct E as (t' & Ht' & Heq). rewrite <- Heq.
        apply nodes_self; [assumption|]. rewrite Heq. assumption.
      - split.
        + intros H. apply add_ancestors_sound in H. destruct H as [H|(j & Hj & ->)]; [left; assumption|]. right; eauto.
        + intros [H|(j & Hj & ->)]; [apply add_ancestors_incl; assumption|].
          apply add_ancestors_complete; [lia | | assumption].
          intros j1 Hj1 Hin j' Hj'. apply Hidx. apply Hidx in Hin.
          replace (firstn j' ns) with (firstn j' (firstn j1 ns)) by (rewrite firstn_firstn; f_equal; lia).
          apply nodes_prefix_closed; [assumption|]. rewrite firstn_length. lia. }
    unfold step_type. fold ns. destruct (get_or_make s ns) as [s1 did] eqn:Egom.
    assert (Es1 : s1 = ensure s ns) by (unfold ensure; rewrite Egom; reflexivity).
    cbn [snd] in Hidx1. cbn [fst snd]. subst s1. unfold add_data_type.
    constructor.
    - rewrite keys_upd. apply nodup_ensure; assumption.
    - intros k. rewrite keys_upd, keys_ensure, Hkeys. split.
      + intros [(t' & Ht' & <-)| ->]; [exists t'; split; [apply in_or_app; left; assumption|reflexivity]|].
        exists t; split; [apply in_or_app; right; left; reflexivity|reflexivity].
      + intros (t' & Ht' & <-). apply in_app_or in Ht'. destruct Ht' as [Ht'|[<-|[]]]; [left; eauto|right; reflexivity].
    - intros k n. rewrite get_upd. destruct (key_eqb_spec ns k) as [<-|Hnek].
      + rewrite Hget0; cbn [option_map]. intros [= <-]; cbn [n_parent n_children n_types].
        repeat split; try assumption. rewrite Ht0, types_at_app. rewrite dict_set_fresh.
        * f_equal. unfold types_at; cbn [filter]. fold ns. rewrite key_eqb_refl. reflexivity.
        * intros X. apply types_at_fst in X. contradiction.
      + rewrite get_ensure. rewrite key_eqb_neq by assumption.
        destruct (get s k) as [n'|] eqn:E; [|discriminate]. intros [= <-].
        destruct (Hnode k n' E) as (A & B & C). repeat split; try assumption.
        rewrite C, types_at_app. unfold types_at at 3; cbn [filter]. fold ns. rewrite key_eqb_neq by assumption.
        cbn [map]. rewrite app_nil_r. reflexivity.
    - exact Hidx1.
    - destruct did; [assumption | apply add_ancestors_nodup; assumption].
  Qed.

  Lemma idx_fold l : forall seen s idx,
    idx_inv seen s idx -> NoDup (seen ++ l) -> (forall t, In t l -> t_ns t <> []) ->
    idx_inv (seen ++ l) (fst (fold_left (step_type strop es ext outdir) l (s, idx)))
                        (snd (fold_left (step_type strop es ext outdir) l (s, idx))).
  Proof.
    induction l as [|t l IH]; intros seen s idx Hinv Hnd Hne; cbn [fold_left].
    - rewrite app_nil_r. exact Hinv.
    - assert (Hnew : ~ In t seen).
      { apply NoDup_remove_2 in Hnd. intros X; apply Hnd; apply in_or_app; left; assumption. }
      replace (seen ++ t :: l) with ((seen ++ [t]) ++ l) in * by (rewrite <- app_assoc; reflexivity).
      destruct (step_type strop es ext outdir (s, idx) t) as [s1 idx1] eqn:E.
      apply IH; [| assumption | intros t' Ht'; apply Hne; right; assumption].
      pose proof (idx_step seen s idx t Hinv) as X. rewrite E in X. apply X.
      + assumption.
      + apply Hne; left; reflexivity.
  Qed.

  Theorem build_index_inv types :
    NoDup types -> (forall t, In t types -> t_ns t <> []) ->
    idx_inv types (fst (build_index strop es ext outdir types)) (snd (build_index strop es ext outdir types)).
  Proof.
    intros Hnd Hne. unfold build_index. apply (idx_fold types [] [] []); [apply idx_inv_nil | assumption | assumption].
  Qed.

  (* ---- phase 2: the linking loop over the index, in arbitrary order -------------------------------- *)
  Definition set_parent (pk : key) (n : node) : node := mkNode (n_types n) (n_children n) (Some pk).
  Definition add_child (k : key) (n : node) : node := mkNode (n_types n) (set_add ek (n_children n) k) (n_parent n).

  Lemma link_step_eq s k :
    link_step ek s k = match parent_of k with
                          | None => ensure s k
                          | Some pk => add_nested ek (ensure (ensure s k) pk) pk k
                          end.
  Proof.
    unfold link_step, parent_of, ensure. destruct (get_or_make s k) as [s1 b]; cbn [fst].
    destruct (removelast k) as [|x l]; [reflexivity|].
    destruct (get_or_make s1 (x :: l)) as [s2 b2]; reflexivity.
  Qed.

  Lemma get_add_nested s pk k k' : pk <> k ->
    get (add_nested ek s pk k) k' =
      if key_eqb k k' then option_map (set_parent pk) (get s k')
      else if key_eqb pk k' then option_map (add_child k) (get s k') else get s k'.
  Proof.
    intros Hne. unfold add_nested. rewrite !get_upd.
    destruct (key_eqb_spec k k') as [E1|H1]; destruct (key_eqb_spec pk k') as [E2|H2]; try reflexivity.
    exfalso; congruence.
  Qed.

  Lemma keys_add_nested s pk k : keys (add_nested ek s pk k) = keys s.
  Proof. unfold add_nested. rewrite !keys_upd. reflexivity. Qed.

  Lemma mem_snoc k' done k : mem k' (done ++ [k]) = mem k' done || key_eqb k' k.
  Proof. unfold mem. rewrite existsb_app. cbn [existsb]. rewrite orb_false_r. reflexivity. Qed.

  Lemma set_add_in l k c : In c (set_add ek l k) -> In c l \/ c = k.
  Proof.
    unfold set_add. destruct (existsb (ns_eqb ek k) l); [tauto|].
    intros H. apply in_app_or in H. destruct H as [H|[<-|[]]]; tauto.
  Qed.

  Lemma set_add_incl l k c : In c l -> In c (set_add ek l k).
  Proof. unfold set_add. destruct (existsb (ns_eqb ek k) l); [tauto|]. intros; apply in_or_app; tauto. Qed.

  Lemma set_add_nodup l k : NoDup l -> NoDup (set_add ek l k).
  Proof.
    unfold set_add. destruct (existsb (ns_eqb ek k) l) eqn:E; [tauto|]. intros H.
    apply NoDup_snoc; [assumption|]. intros X.
    assert (existsb (ns_eqb ek k) l = true); [|congruence].
    apply existsb_exists. exists k; split; [assumption | apply ns_eqb_refl].
  Qed.

  Record node_ok (types : list ty) (done : list key) (k : key) (n : node) : Prop := {
    no_types : n_types n = types_at k types;
    no_parent : n_parent n = if mem k done then parent_of k else None;
    no_child_sound : forall c, In c (n_children n) -> In c done /\ parent_of c = Some k;
    no_child_full : ns_inj ek types ->
        NoDup (n_children n) /\ forall c, In c done -> parent_of c = Some k -> In c (n_children n)
  }.

  Record link_inv (types : list ty) (s0 : store) (done : list key) (s : store) : Prop := {
    l_nodup : NoDup (keys s);
    l_keys_nodes : forall k, In k (keys s) -> In k (nodes_of types);
    l_keys_s0 : forall k, In k (keys s0) -> In k (keys s);
    l_done_keys : forall k, In k done -> In k (keys s);
    l_done_parent : forall k p, In k done -> parent_of k = Some p -> In p (keys s);
    l_node : forall k n, get s k = Some n -> node_ok types done k n
  }.

  Lemma parent_neq k pk : parent_of k = Some pk -> pk <> k.
  Proof.
    intros H E. apply parent_of_some in H. destruct H as [Hl H]. rewrite E in H.
    apply (f_equal (@length _)) in H. rewrite removelast_firstn_pred, firstn_length in H. lia.
  Qed.

  Section STEP.
    Variable types : list ty.
    Variable s0 : store.
    Hypothesis Hs0 : forall t, In t types -> In (t_ns t) (keys s0).

    (* a namespace that is not in the heap yet is described by a fresh node *)
    Lemma fresh_ok done s k : link_inv types s0 done s -> get s k = None -> node_ok types done k new_node.
    Proof.
      intros [Hnd Hkn Hk0 Hdk Hdp Hnode] E. apply get_none in E.
      assert (Hm : mem k done = false) by (apply mem_false; intros X; apply E, Hdk; assumption).
      constructor; cbn [new_node n_types n_children n_parent].
      - symmetry. apply types_at_none. intros t Ht Heq. apply E, Hk0. rewrite <- Heq. apply Hs0; assumption.
      - rewrite Hm; reflexivity.
      - intros c [].
      - intros _. split; [constructor|]. intros c Hc Hp. exfalso. apply E. eapply Hdp; eassumption.
    Qed.

    (* node_ok is monotone in `done` for namespaces other than the one being linked *)
    Lemma node_ok_other done k k' n :
      node_ok types done k' n -> k' <> k -> parent_of k <> Some k' -> node_ok types (done ++ [k]) k' n.
    Proof.
      intros [A B C D] Hne Hnp. constructor.
      - exact A.
      - rewrite mem_snoc, (key_eqb_neq k' k Hne), orb_false_r. exact B.
      - intros c Hc. destruct (C c Hc). split; [apply in_or_app; left|]; assumption.
      - intros Hinj. destruct (D Hinj) as [D1 D2]. split; [exact D1|].
        intros c Hc Hp. apply in_app_or in Hc. destruct Hc as [Hc|[<-|[]]]; [apply D2; assumption|].
        contradiction.
    Qed.
  
    Lemma link_step_inv done s k :
      link_inv types s0 done s -> In k (nodes_of types) ->
      link_inv types s0 (done ++ [k]) (link_step ek s k).
    Proof.
      intros Hinv Hk. pose proof Hinv as [Hnd Hkn Hk0 Hdk Hdp Hnode].
      rewrite link_step_eq. destruct (parent_of k) as [pk|] eqn:Hp.
      - (* linked below pk *)
        pose proof (parent_neq k pk Hp) as Hne.
        assert (Hpk : In pk (nodes_of types)) by (eapply nodes_parent_closed; eassumption).
        set (s2 := ensure (ensure s k) pk).
        assert (Hk2 : forall x, In x (keys s2) <-> In x (keys s) \/ x = k \/ x = pk).
        { intros x. unfold s2. rewrite !keys_ensure. tauto. }
        assert (Hbase : forall x n, get s2 x = Some n -> node_ok types done x n).
        { intros x n. unfold s2. rewrite !get_ensure. destruct (get s x) as [n'|] eqn:E.
          - intros [= <-]. apply Hnode; assumption.
          - intros H. assert (n = new_node) by (destruct (key_eqb k x), (key_eqb pk x); congruence). subst n.
            eapply fresh_ok; eassumption. }
        constructor.
        + rewrite keys_add_nested. unfold s2. apply nodup_ensure, nodup_ensure; assumption.
        + intros x. rewrite keys_add_nested, Hk2. intros [H|[->| ->]]; auto.
        + intros x Hx. rewrite keys_add_nested, Hk2. left; apply Hk0; assumption.
        + intros x Hx. rewrite keys_add_nested, Hk2. apply in_app_or in Hx.
          destruct Hx as [Hx|[<-|[]]]; [left; apply Hdk; assumption | right; left; reflexivity].
        + intros x p Hx Hpx. rewrite keys_add_nested, Hk2. apply in_app_or in Hx. destruct Hx as [Hx|[<-|[]]].
          * left. eapply Hdp; eassumption.
          * right; right. congruence.
        + intros x n. rewrite get_add_nested by assumption.
          destruct (key_eqb_spec k x) as [<-|Hkx].
          * (* the linked namespace itself *)
            destruct (get s2 k) as [nb|] eqn:E; [|discriminate]. cbn [option_map]. intros [= <-].
            destruct (Hbase k nb E) as [A B C D]. constructor; cbn [set_parent n_types n_children n_parent].
            -- exact A.
            -- rewrite mem_snoc, key_eqb_refl, orb_true_r. symmetry; exact Hp.
            -- intros c Hc. destruct (C c Hc). split; [apply in_or_app; left|]; assumption.
            -- intros Hinj. destruct (D Hinj) as [D1 D2]. split; [exact D1|].
               intros c Hc Hpc. apply in_app_or in Hc. destruct Hc as [Hc|[<-|[]]]; [apply D2; assumption|].
               exfalso. rewrite Hp in Hpc. congruence.
          * destruct (key_eqb_spec pk x) as [<-|Hpx].
            -- (* the parent: gains k as a child *)
               destruct (get s2 pk) as [nb|] eqn:E; [|discriminate]. cbn [option_map]. intros [= <-].
               destruct (Hbase pk nb E) as [A B C D]. constructor; cbn [add_child n_types n_children n_parent].
               ++ exact A.
               ++ rewrite mem_snoc, (key_eqb_neq pk k Hne), orb_false_r. exact B.
               ++ intros c Hc. apply set_add_in in Hc. destruct Hc as [Hc| ->].
                  ** destruct (C c Hc). split; [apply in_or_app; left|]; assumption.
                  ** split; [apply in_or_app; right; left; reflexivity | exact Hp].
               ++ intros Hinj. destruct (D Hinj) as [D1 D2]. split; [apply set_add_nodup; exact D1|].
                  intros c Hc Hpc. apply in_app_or in Hc.
                  destruct Hc as [Hc|[<-|[]]]; [apply set_add_incl, D2; assumption|].
                  unfold set_add. destruct (existsb (ns_eqb ek k) (n_children nb)) eqn:Ex;
                    [|apply in_or_app; right; left; reflexivity].
                  apply existsb_exists in Ex. destruct Ex as (c' & Hc' & Heq). apply ns_eqb_spec in Heq.
                  assert (k = c'); [|subst; assumption].
                  apply Hinj; [assumption | | assumption]. apply Hkn, Hdk. apply (C c' Hc').
            -- intros H. apply node_ok_other; [apply Hbase; assumption | congruence | congruence].
      - (* a root namespace: nothing to link *)
        assert (Hbase : forall x n, get (ensure s k) x = Some n -> node_ok types done x n).
        { intros x n. rewrite get_ensure. destruct (get s x) as [n'|] eqn:E.
          - intros [= <-]. apply Hnode; assumption.
          - intros H. assert (n = new_node) by (destruct (key_eqb k x); congruence). subst n.
            eapply fresh_ok; eassumption. }
        constructor.
        + apply nodup_ensure; assumption.
        + intros x Hx. apply keys_ensure in Hx. destruct Hx as [Hx| ->]; auto.
        + intros x Hx. apply keys_ensure. left; apply Hk0; assumption.
        + intros x Hx. apply keys_ensure. apply in_app_or in Hx.
          destruct Hx as [Hx|[<-|[]]]; [left; apply Hdk; assumption | right; reflexivity].
        + intros x p Hx Hpx. apply keys_ensure. apply in_app_or in Hx. destruct Hx as [Hx|[<-|[]]].
          * left. eapply Hdp; eassumption.
          * congruence.
        + intros x n H. destruct (key_eqb_spec x k) as [->|Hxk].
          * destruct (Hbase k n H) as [A B C D]. constructor.
            -- exact A.
            -- rewrite mem_snoc, key_eqb_refl, orb_true_r. rewrite B, Hp. destruct (mem k done); reflexivity.
            -- intros c Hc. destruct (C c Hc). split; [apply in_or_app; left|]; assumption.
            -- intros Hinj. destruct (D Hinj) as [D1 D2]. split; [exact D1|].
               intros c Hc Hpc. apply in_app_or in Hc. destruct Hc as [Hc|[<-|[]]]; [apply D2; assumption|].
               congruence.
          * apply node_ok_other; [apply Hbase; assumption | assumption | rewrite Hp; discriminate].
    Qed.

    Lemma link_fold l : forall done s,
      link_inv types s0 done s -> (forall k, In k l -> In k (nodes_of types)) ->
      link_inv types s0 (done ++ l) (fold_left (link_step ek) l s).
    Proof.
      induction l as [|k l IH]; intros done s Hinv Hl; cbn [fold_left].
      - rewrite app_nil_r. exact Hinv.
      - replace (done ++ k :: l) with ((done ++ [k]) ++ l) by (rewrite <- app_assoc; reflexivity).
        apply IH; [|intros x Hx; apply Hl; right; assumption].
        apply link_step_inv; [assumption | apply Hl; left; reflexivity].
    Qed.
  End STEP.

  Lemma build_unfold perm types :
    build strop ek es ext outdir perm types =
    let s' := fold_left (link_step ek) (perm (snd (build_index strop es ext outdir types)))
                        (fst (build_index strop es ext outdir types)) in
    match s' with
    | [] => (fst (get_or_make s' [[]]), [[]])
    | (k, _) :: _ => (s', get_root_namespace s' k)
    end.
  Proof. unfold build. destruct (build_index strop es ext outdir types); reflexivity. Qed.

  (* ---- assembly ------------------------------------------------------------------------------------ *)
  Section FINAL.
    Variable perm : list key -> list key.
    Hypothesis perm_perm : forall l, Permutation (perm l) l.
    Variable types : list ty.
    Variable r : str.
    Hypothesis Hnd : NoDup types.
    Hypothesis Hroot : one_root r types.

    Let s0 := fst (build_index strop es ext outdir types).
    Let idx := snd (build_index strop es ext outdir types).

    (* the heap after the linking loop *)
    Definition linked : store := fold_left (link_step ek) (perm idx) s0.

    Lemma types_ns_nonempty t : In t types -> t_ns t <> [].
    Proof. intros Ht. destruct (Hroot t Ht) as (rest & ->). discriminate. Qed.

    Lemma index_inv : idx_inv types s0 idx.
    Proof. apply build_index_inv; [exact Hnd | exact types_ns_nonempty]. Qed.

    (* C11 index_prefix_closed: the ancestor index is exactly the set of non-empty namespace prefixes *)
    Lemma index_is_prefix_set : NoDup idx /\ forall k, In k idx <-> In k (nodes_of types).
    Proof. destruct index_inv as [_ _ _ A B]. split; assumption. Qed.

    Lemma linked_inv : link_inv types s0 (perm idx) linked.
    Proof.
      destruct index_inv as [Hnd0 Hkeys Hnode Hidx Hidxnd].
      assert (Hs0 : forall t, In t types -> In (t_ns t) (keys s0)) by (intros t Ht; apply Hkeys; eauto).
      unfold linked. change (perm idx) with ([] ++ perm idx) at 1. apply link_fold; [exact Hs0 | |].
      - constructor.
        + exact Hnd0.
        + intros k Hk. apply Hkeys in Hk. destruct Hk as (t & Ht & <-).
          apply nodes_self; [assumption | apply types_ns_nonempty; assumption].
        + tauto.
        + intros k [].
        + intros k p [].
        + intros k n Hg. destruct (Hnode k n Hg) as (A & B & C). constructor.
          * exact C.
          * cbn [mem existsb]. exact A.
          * rewrite B. intros c [].
          * intros _. rewrite B. split; [constructor | intros c []].
      - intros k Hk. apply Hidx. eapply Permutation_in; [apply perm_perm | exact Hk].
    Qed.

    Lemma done_all k : In k (nodes_of types) -> In k (perm idx).
    Proof.
      intros Hk. destruct index_inv as [_ _ _ Hidx _]. apply Hidx in Hk.
      eapply Permutation_in; [apply Permutation_sym, perm_perm | exact Hk].
    Qed.

    Theorem linked_tree_ok : tree_ok strop es ext outdir types linked.
    Proof.
      destruct linked_inv as [Hnd' Hkn Hk0 Hdk Hdp Hnode]. constructor.
      - exact Hnd'.
      - intros k; split; [apply Hkn|]. intros Hk. apply Hdk, done_all; assumption.
      - intros k n Hg. destruct (Hnode k n Hg) as [A B C D]. rewrite B.
        replace (mem k (perm idx)) with true; [reflexivity|]. symmetry. apply mem_spec, done_all, Hkn.
        eapply get_some_in; eassumption.
      - intros k n Hg. destruct (Hnode k n Hg) as [A B C D]. exact A.
      - intros k n c Hg Hc. destruct (Hnode k n Hg) as [A B C D]. destruct (C c Hc). split; [apply Hdk|]; assumption.
    Qed.

    Theorem linked_tree_full : ns_inj ek types -> tree_full strop es ext outdir types linked.
    Proof.
      intros Hinj. destruct linked_inv as [Hnd' Hkn Hk0 Hdk Hdp Hnode]. constructor.
      - exact linked_tree_ok.
      - intros k n c Hg Hc Hp. destruct (Hnode k n Hg) as [A B C D]. apply (D Hinj); [|assumption].
        apply done_all, Hkn; assumption.
      - intros k n Hg. destruct (Hnode k n Hg) as [A B C D]. apply (D Hinj).
    Qed.

    (* what build_namespace_tree returns: the linked heap and the root reached from the first namespace created *)
    Theorem build_eq :
      types <> [] ->
      exists k, In k (keys linked) /\
                build strop ek es ext outdir perm types = (linked, get_root_namespace linked k).
    Proof.
      intros Hne. rewrite build_unfold. fold s0 idx. fold linked. cbv zeta.
      pose proof linked_tree_ok as [_ Hk _ _ _].
      assert (Hin : exists t, In t types) by (apply nonempty_in; assumption).
      destruct Hin as (t & Ht). specialize (Hk (t_ns t)).
      apply proj2 in Hk. specialize (Hk (nodes_self t types Ht (types_ns_nonempty t Ht))).
      set (L := linked) in *. clearbody L.
      destruct L as [|[k n] rest]; [destruct Hk|].
      exists k. split; [left; reflexivity | reflexivity].
    Qed.
  End FINAL.
End BUILD.
