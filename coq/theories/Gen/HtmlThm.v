(* C20 -- proofs about escaping, entity decoding, the scanner and documentation sinks. *)
From Verif Require Import HtmlModel.
Open Scope N_scope.

(* ---------- flat_map algebra ---------- *)
Lemma flat_map_flat_map {A B C} (f : A -> list B) (g : B -> list C) (s : list A) :
  flat_map g (flat_map f s) = flat_map (fun x => flat_map g (f x)) s.
Proof. induction s as [|x s IH]; cbn; [reflexivity|]. rewrite flat_map_app, IH. reflexivity. Qed.

Lemma forallb_flat_map {A B} (p : B -> bool) (f : A -> list B) (s : list A) :
  (forall x, forallb p (f x) = true) -> forallb p (flat_map f s) = true.
Proof. intros H; induction s as [|x s IH]; cbn; [reflexivity|]. rewrite forallb_app, H, IH. reflexivity. Qed.

(* ---------- the two escape functions as per-character maps ---------- *)
Definition ms_chr (c : chr) : str :=
  if c =? 38 then [38; 97; 109; 112; 59]
  else if c =? 62 then [38; 103; 116; 59]
  else if c =? 60 then [38; 108; 116; 59]
  else if c =? 39 then [38; 35; 51; 57; 59]
  else if c =? 34 then [38; 35; 51; 52; 59]
  else [c].

Ltac eqb_cases c :=
  destruct (N.eqb_spec c 38) as [->|?];
  [| destruct (N.eqb_spec c 60) as [->|?];
     [| destruct (N.eqb_spec c 62) as [->|?];
        [| destruct (N.eqb_spec c 34) as [->|?];
           [| destruct (N.eqb_spec c 39) as [->|?] ]]]]; try reflexivity.

Lemma neqb (a b : N) : a <> b -> (a =? b) = false.
Proof. intros H; destruct (N.eqb_spec a b); congruence. Qed.

(* the translated replace chain of markupsafe is the per-character map ms_chr *)
Lemma markupsafe_escape_flat s : markupsafe_escape s = flat_map ms_chr s.
Proof.
  unfold markupsafe_escape, str_replace1. rewrite !flat_map_flat_map.
  apply flat_map_ext. intros c. unfold ms_chr.
  eqb_cases c. repeat (cbn [flat_map app]; rewrite ?neqb by assumption). reflexivity.
Qed.


Lemma html_escape_chr_quote_free c : quote_free (html_escape_chr c) = true.
Proof. unfold html_escape_chr. eqb_cases c. unfold quote_free. cbn [forallb]. rewrite !neqb by assumption. reflexivity. Qed.
Lemma ms_chr_quote_free c : quote_free (ms_chr c) = true.
Proof. unfold ms_chr. eqb_cases c. unfold quote_free. cbn [forallb]. rewrite !neqb by assumption. reflexivity. Qed.

Lemma amps_ok_html s : amps_ok (html_escape s) = true.
Proof.
  induction s as [|c s IH]; [reflexivity|]. change (html_escape (c :: s)) with (html_escape_chr c ++ html_escape s).
  unfold html_escape_chr. eqb_cases c; try (cbn; exact IH).
  cbn [app amps_ok]. rewrite neqb by assumption. exact IH.
Qed.
Lemma amps_ok_ms s : amps_ok (flat_map ms_chr s) = true.
Proof.
  induction s as [|c s IH]; [reflexivity|]. change (flat_map ms_chr (c :: s)) with (ms_chr c ++ flat_map ms_chr s).
  unfold ms_chr. eqb_cases c; try (cbn; exact IH).
  cbn [app amps_ok]. rewrite neqb by assumption. exact IH.
Qed.

(* escape_no_markup: for EVERY string the result has no <, >, double or single quote and every ampersand starts a character reference *)
Theorem escape_no_markup_html s : no_markup (html_escape s) = true.
Proof.
  unfold no_markup. rewrite amps_ok_html, andb_true_r.
  apply (forallb_flat_map _ html_escape_chr s). exact html_escape_chr_quote_free.
Qed.
Theorem escape_no_markup_ms s : no_markup (markupsafe_escape s) = true.
Proof.
  rewrite markupsafe_escape_flat. unfold no_markup. rewrite amps_ok_ms, andb_true_r.
  apply (forallb_flat_map _ ms_chr s). exact ms_chr_quote_free.
Qed.

(* unescape_escape *)
Lemma unescape_f_html s : forall n, (length (html_escape s) <= n)%nat -> unescape_f n (html_escape s) = s.
Proof.
  induction s as [|c s IH]; intros n Hn; [destruct n; reflexivity|].
  change (html_escape (c :: s)) with (html_escape_chr c ++ html_escape s) in *.
  unfold html_escape_chr in *.
  eqb_cases c; try (cbn in Hn; destruct n as [|n]; [lia|]; cbn; f_equal; apply IH; lia).
  cbn [app length] in Hn. destruct n as [|n]; [lia|]. cbn [app unescape_f]. rewrite neqb by assumption.
  f_equal. apply IH. lia.
Qed.
Theorem unescape_escape_html s : unescape (html_escape s) = s.
Proof. apply unescape_f_html. reflexivity. Qed.

Lemma unescape_f_ms s : forall n, (length (flat_map ms_chr s) <= n)%nat -> unescape_f n (flat_map ms_chr s) = s.
Proof.
  induction s as [|c s IH]; intros n Hn; [destruct n; reflexivity|].
  change (flat_map ms_chr (c :: s)) with (ms_chr c ++ flat_map ms_chr s) in *.
  unfold ms_chr in *.
  eqb_cases c; try (cbn in Hn; destruct n as [|n]; [lia|]; cbn; f_equal; apply IH; lia).
  cbn [app length] in Hn. destruct n as [|n]; [lia|]. cbn [app unescape_f]. rewrite neqb by assumption.
  f_equal. apply IH. lia.
Qed.
Theorem unescape_escape_ms s : unescape (markupsafe_escape s) = s.
Proof. rewrite markupsafe_escape_flat. apply unescape_f_ms. reflexivity. Qed.

Lemma unescape_f_no_amp s : forall n, forallb (fun c => negb (c =? 38)) s = true -> unescape_f n s = s.
Proof.
  induction s as [|c s IH]; intros n H; [destruct n; reflexivity|].
  cbn in H. apply andb_prop in H as [Hc Hs]. destruct n as [|n]; [reflexivity|]. cbn.
  destruct (c =? 38); [discriminate|]. f_equal. apply IH. exact Hs.
Qed.

(* ---------- scanner ---------- *)
Lemma scan_text s : forall rest, text_ok s = true -> scan None (s ++ rest) = map Chr s ++ scan None rest.
Proof.
  induction s as [|c s IH]; intros rest H; [reflexivity|].
  cbn in H. apply andb_prop in H as [Hc Hs]. cbn [app scan map].
  destruct (c =? 60) eqn:E.
  - destruct s as [|d s']; [discriminate|]. cbn [app next_is_tag_start].
    destruct (tag_start d); [discriminate|]. cbn [andb]. f_equal. apply (IH rest Hs).
  - cbn [andb]. f_equal. apply (IH rest Hs).
Qed.

Lemma scan_in_tag b : forall acc rest, no_gt b = true -> scan (Some acc) (b ++ 62 :: rest) = TagT (rev acc ++ b) :: scan None rest.
Proof.
  induction b as [|c b IH]; intros acc rest H.
  - cbn. rewrite app_nil_r. reflexivity.
  - cbn in H. apply andb_prop in H as [Hc Hb]. cbn [app scan]. destruct (c =? 62); [discriminate|].
    rewrite (IH (c :: acc) rest Hb). cbn [rev]. rewrite <- app_assoc. reflexivity.
Qed.

Lemma quote_free_text_ok s : quote_free s = true -> text_ok s = true.
Proof.
  induction s as [|c s IH]; intros H; [reflexivity|]. cbn in H. apply andb_prop in H as [Hc Hs].
  cbn. destruct (c =? 60); [discriminate|]. cbn. apply IH, Hs.
Qed.

Lemma no_special_text_ok s : no_special s = true -> text_ok s = true.
Proof.
  induction s as [|c s IH]; intros H; [reflexivity|]. cbn in H. apply andb_prop in H as [Hc Hs].
  cbn. unfold special in Hc. destruct (c =? 60); [rewrite orb_true_r in Hc; discriminate|]. cbn. apply IH, Hs.
Qed.

Lemma no_special_no_amp s : no_special s = true -> forallb (fun c => negb (c =? 38)) s = true.
Proof.
  induction s as [|c s IH]; intros H; [reflexivity|]. cbn in H. apply andb_prop in H as [Hc Hs].
  cbn. unfold special in Hc. destruct (c =? 38); [discriminate|]. cbn. apply IH, Hs.
Qed.

(* ---------- documentation sinks ---------- *)
Lemma doc_sink_scan b d rest :
  text_ok (tx b d) = true ->
  scan None (render (doc_sink b d) ++ rest)
  = TagT pre_open_body :: map Chr (tx b d) ++ TagT pre_close_body :: scan None rest.
Proof.
  intros H. unfold doc_sink, doc_pre, elem, render. cbn [flat_map render_piece app map concat render_attr fst snd k_class s_docs t_pre].
  rewrite <- app_assoc.
  assert (E : forall X, scan None (60 :: 112 :: 114 :: 101 :: 32 :: 99 :: 108 :: 97 :: 115 :: 115 :: 61 :: 34 :: 100 :: 111 :: 99 :: 115 :: 34 :: 62 :: X)
                        = TagT pre_open_body :: scan None X) by (intros X; reflexivity).
  rewrite E. rewrite (scan_text (tx b d) _ H). reflexivity.
Qed.

(* a sink that escapes delivers every text as text *)
Theorem doc_sink_escaped_is_text : doc_text_is_text true.
Proof.
  intros d rest. exists (markupsafe_escape d). split.
  - apply (doc_sink_scan true d rest). cbn [tx]. apply quote_free_text_ok.
    pose proof (escape_no_markup_ms d) as H. unfold no_markup in H. apply andb_prop in H as [H _]. exact H.
  - apply unescape_escape_ms.
Qed.

(* a sink that does not escape does not: witness <script>alert(1)</script> *)
Theorem doc_sink_raw_refuted : ~ doc_text_is_text false.
Proof.
  intros H. destruct (H xss_witness []) as (cs & Heq & _).
  vm_compute in Heq. destruct cs as [|c cs]; cbn in Heq; discriminate.
Qed.

Theorem doc_text_is_text_iff b : doc_text_is_text b <-> b = true.
Proof.
  split.
  - destruct b; [reflexivity|]. intros H. exfalso. exact (doc_sink_raw_refuted H).
  - intros ->. exact doc_sink_escaped_is_text.
Qed.

(* the part that holds without escaping: texts free of the five special characters *)
Theorem doc_sink_raw_partial d : no_special d = true -> doc_text_is_text_for false d.
Proof.
  intros H rest. exists d. split.
  - apply (doc_sink_scan false d rest). cbn [tx]. apply no_special_text_ok, H.
  - apply unescape_f_no_amp, no_special_no_amp, H.
Qed.

(* positions that pass through an explicit escape filter: whatever goes into make_unique comes out free of markup *)
Lemma no_markup_app a b : quote_free a = true -> quote_free b = true -> quote_free (a ++ b) = true.
Proof. intros Ha Hb. unfold quote_free. rewrite forallb_app. unfold quote_free in *. rewrite Ha, Hb. reflexivity. Qed.

Lemma dec_fuel_quote_free f : forall n acc, quote_free acc = true -> quote_free (dec_fuel f n acc) = true.
Proof.
  induction f as [|f IH]; intros n acc H; [exact H|]. cbn [dec_fuel].
  assert (Hd : quote_free ((48 + n mod 10) :: acc) = true).
  { unfold quote_free in *. cbn [forallb]. rewrite H, andb_true_r.
    assert (H0 : n mod 10 < 10) by (apply N.mod_lt; discriminate).
    remember (n mod 10) as x eqn:Ex. clear Ex.
    assert (48 + x <> 60 /\ 48 + x <> 62 /\ 48 + x <> 34 /\ 48 + x <> 39) as (A & B & C & D) by lia.
    rewrite (neqb _ _ A), (neqb _ _ B), (neqb _ _ C), (neqb _ _ D). reflexivity. }
  destruct (n / 10 =? 0); [exact Hd|]. apply IH. exact Hd.
Qed.

Theorem make_unique_quote_free st s : quote_free (snd (filter_make_unique st s)) = true.
Proof.
  unfold filter_make_unique.
  assert (G : forall st x, quote_free (snd (ung_call st [104; 116; 109; 108] (html_escape x) [] [])) = true).
  { intros st0 x. unfold ung_call. cbn [snd app]. rewrite app_nil_r. apply no_markup_app.
    - pose proof (escape_no_markup_html x) as H. unfold no_markup in H. apply andb_prop in H as [H _]. exact H.
    - unfold dec_of_N. apply dec_fuel_quote_free. reflexivity. }
  destruct (Z.gtb _ _); cbv zeta; apply G.
Qed.
