(* Gen/LookupSortThm.v -- list_templates (sorted, de-duplicated listing) depends only on the SET of file names (C16). No axioms. *)
From Verif Require Import Str Lookup.
From Coq Require Import Permutation Sorted.
Import ListNotations.
Open Scope N_scope.

Ltac brk :=
  repeat match goal with
         | H : context [?x <? ?y] |- _ => destruct (N.ltb_spec x y)
         | |- context [?x <? ?y] => destruct (N.ltb_spec x y)
         | H : context [?x =? ?y] |- _ => destruct (N.eqb_spec x y)
         | |- context [?x =? ?y] => destruct (N.eqb_spec x y)
         end.

Lemma str_leb_refl a : str_leb a a = true.
Proof. induction a as [|x a IH]; cbn [str_leb]; [reflexivity|]. brk; try lia; try reflexivity; try exact IH. Qed.

Lemma str_leb_total : forall a b, str_leb a b = true \/ str_leb b a = true.
Proof.
  induction a as [|x a IH]; intros [|y b]; cbn [str_leb]; auto.
  brk; auto; try lia; subst; try apply IH.
Qed.

Lemma str_leb_antisym : forall a b, str_leb a b = true -> str_leb b a = true -> a = b.
Proof.
  induction a as [|x a IH]; intros [|y b]; cbn [str_leb]; intros H1 H2; try reflexivity; try discriminate.
  brk; try lia; try discriminate; subst; f_equal; apply IH; assumption.
Qed.

Lemma str_leb_trans : forall a b c, str_leb a b = true -> str_leb b c = true -> str_leb a c = true.
Proof.
  induction a as [|x a IH]; intros [|y b] [|z c]; cbn [str_leb]; intros H1 H2; try reflexivity; try discriminate.
  brk; try lia; try discriminate; try reflexivity; subst; try lia; apply (IH b c); assumption.
Qed.

Definition sle (a b : str) : Prop := str_leb a b = true.

Lemma insert_perm x : forall l, Permutation (x :: l) (insert_sorted x l).
Proof.
  induction l as [|y l IH]; cbn [insert_sorted]; [apply Permutation_refl|].
  destruct (str_leb x y); [apply Permutation_refl|]. eapply perm_trans; [apply perm_swap|]. apply perm_skip. exact IH.
Qed.

Lemma insert_sorted_ok x : forall l, StronglySorted sle l -> StronglySorted sle (insert_sorted x l).
Proof.
  induction l as [|y l IH]; intros S; cbn [insert_sorted].
  - constructor; constructor.
  - inversion S as [|? ? S' F]; subst. destruct (str_leb x y) eqn:E.
    + constructor; [exact S|]. constructor; [exact E|].
      apply (Forall_impl _ (fun z (Hz : sle y z) => str_leb_trans x y z E Hz) F).
    + constructor; [apply IH; exact S'|].
      apply (Permutation_Forall (insert_perm x l)). constructor; [|exact F].
      destruct (str_leb_total x y) as [H|H]; [rewrite H in E; discriminate E | exact H].
Qed.

Lemma sort_perm : forall l, Permutation l (sort_str l).
Proof.
  induction l as [|x l IH]; cbn [sort_str fold_right]; [constructor|].
  eapply perm_trans; [apply perm_skip; exact IH | apply insert_perm].
Qed.

Lemma sort_sorted : forall l, StronglySorted sle (sort_str l).
Proof. induction l as [|x l IH]; cbn [sort_str fold_right]; [constructor | apply insert_sorted_ok; exact IH]. Qed.

Lemma sorted_unique : forall l l', StronglySorted sle l -> StronglySorted sle l' -> Permutation l l' -> l = l'.
Proof.
  induction l as [|x l IH]; intros l' S S' P.
  - apply Permutation_nil in P. subst. reflexivity.
  - destruct l' as [|y l']; [apply Permutation_sym, Permutation_nil in P; discriminate P|].
    inversion S as [|? ? S1 F1]; subst. inversion S' as [|? ? S2 F2]; subst.
    assert (Hxy : x = y).
    { assert (In x (y :: l')) as Ix by (apply (Permutation_in _ P); left; reflexivity).
      assert (In y (x :: l)) as Iy by (apply (Permutation_in _ (Permutation_sym P)); left; reflexivity).
      destruct Ix as [->|Ix]; [reflexivity|]. destruct Iy as [->|Iy]; [reflexivity|].
      rewrite Forall_forall in F1, F2. apply str_leb_antisym; [apply F1, Iy | apply F2, Ix]. }
    subst y. f_equal. apply IH; [exact S1 | exact S2 | apply (Permutation_cons_inv P)].
Qed.

Lemma dedup_In x : forall l, In x (dedup l) <-> In x l.
Proof.
  induction l as [|y l IH]; cbn [dedup]; [tauto|].
  destruct (str_in y l) eqn:E.
  - rewrite IH. split; [right; assumption|]. intros [->|H]; [apply str_in_spec; exact E | exact H].
  - cbn [In]. rewrite IH. tauto.
Qed.

Lemma dedup_NoDup : forall l, NoDup (dedup l).
Proof.
  induction l as [|y l IH]; cbn [dedup]; [constructor|].
  destruct (str_in y l) eqn:E; [exact IH|]. constructor; [|exact IH].
  rewrite dedup_In. intros H. apply str_in_spec in H. rewrite H in E. discriminate E.
Qed.

(* the listing handed to type_to_template depends only on the SET of names the walk of the directories produced *)
Lemma list_templates_ext raw raw' : (forall x, In x raw <-> In x raw') -> list_templates raw = list_templates raw'.
Proof.
  intros H. unfold list_templates. apply sorted_unique; try apply sort_sorted.
  eapply perm_trans; [apply Permutation_sym, sort_perm|]. eapply perm_trans; [|apply sort_perm].
  apply NoDup_Permutation; try apply dedup_NoDup. intros x. rewrite !dedup_In. apply H.
Qed.

Lemma list_templates_perm raw raw' : Permutation raw raw' -> list_templates raw = list_templates raw'.
Proof. intros P. apply list_templates_ext. intros x. split; apply Permutation_in; [exact P | apply Permutation_sym, P]. Qed.

Lemma list_templates_In raw x : In x (list_templates raw) <-> In x raw.
Proof.
  unfold list_templates. rewrite <- (dedup_In x raw). split; apply Permutation_in; [apply Permutation_sym, sort_perm | apply sort_perm].
Qed.
