(* C13 proofs, part 1: deep_update (Config.du) — tie to the translated body, per-key law, closed
   form of lookup after merging any list of sources, untouched keys, deep key-wise union. *)
From Verif Require Import Config.
Require Import Lia Bool List.
Import ListNotations.
Open Scope N_scope.

(* ---- dict lemmas ------------------------------------------------------------------------- *)
Section DictLemmas.
  Context {A : Type}.

  Lemma dget_dset_same k (v : A) m : dget k (dset k v m) = Some v.
  Proof.
    induction m as [|[k' v'] m IH]; cbn [dset dget].
    - rewrite str_eqb_refl; reflexivity.
    - destruct (str_eqb k k') eqn:E; cbn [dget]; rewrite E; auto.
  Qed.

  Lemma dget_dset_other k k0 (v : A) m : str_eqb k k0 = false -> dget k (dset k0 v m) = dget k m.
  Proof.
    intros H. induction m as [|[k' v'] m IH]; cbn [dset dget].
    - rewrite H. reflexivity.
    - destruct (str_eqb k0 k') eqn:E; cbn [dget].
      + destruct (str_eqb_spec k0 k'); [subst k'|discriminate]. rewrite H. reflexivity.
      + rewrite IH. reflexivity.
  Qed.

  Lemma dmem_dset k k0 (v : A) m : dmem k (dset k0 v m) = str_eqb k k0 || dmem k m.
  Proof.
    unfold dmem. destruct (str_eqb k k0) eqn:E.
    - destruct (str_eqb_spec k k0); [subst|discriminate]. rewrite dget_dset_same. reflexivity.
    - rewrite dget_dset_other by assumption. reflexivity.
  Qed.

  Lemma dnodup_dset k (v : A) m : dnodup m = true -> dnodup (dset k v m) = true.
  Proof.
    induction m as [|[k' v'] m IH]; cbn [dset dnodup]; intros H.
    - reflexivity.
    - apply andb_true_iff in H as [H1 H2].
      destruct (str_eqb k k') eqn:E; cbn [dnodup].
      + rewrite H1, H2. reflexivity.
      + rewrite (IH H2), andb_true_r. rewrite dmem_dset.
        destruct (str_eqb k' k) eqn:E'.
        * destruct (str_eqb_spec k' k); [subst|discriminate]. rewrite str_eqb_refl in E. discriminate.
        * cbn [orb]. exact H1.
  Qed.

  Lemma dget_forallb (P : A -> bool) k m x :
    forallb (fun kv => P (snd kv)) m = true -> dget k m = Some x -> P x = true.
  Proof.
    induction m as [|[k' v'] m IH]; cbn [forallb dget snd]; intros H G; [discriminate|].
    apply andb_true_iff in H as [H1 H2].
    destruct (str_eqb k k'); [inversion G; subst; exact H1 | exact (IH H2 G)].
  Qed.

  Lemma dmem_false_dget k (m : list (list N * A)) : dmem k m = false -> dget k m = None.
  Proof. unfold dmem. destruct (dget k m); [discriminate|reflexivity]. Qed.
End DictLemmas.

(* ---- induction principle for the nested type ---------------------------------------------- *)
Fixpoint cv_ind' (P : cv -> Prop)
  (HL : forall d a, P (Leaf d a))
  (HN : forall m, Forall (fun kv => P (snd kv)) m -> P (Node m))
  (v : cv) {struct v} : P v :=
  match v with
  | Leaf d a => HL d a
  | Node m =>
      HN m ((fix go (m : list (list N * cv)) : Forall (fun kv => P (snd kv)) m :=
               match m with
               | [] => Forall_nil _
               | kv :: m' => Forall_cons kv (cv_ind' P HL HN (snd kv)) (go m')
               end) m)
  end.

Lemma wf_node m : wf (Node m) = dnodup m && forallb (fun kv => wf (snd kv)) m.
Proof.
  cbn [wf]. f_equal.
  induction m as [|[k x] m IH]; [reflexivity|].
  cbn [forallb snd]. rewrite <- IH. reflexivity.
Qed.

Lemma wf_node_nodup m : wf (Node m) = true -> dnodup m = true.
Proof. rewrite wf_node. intros H. apply andb_true_iff in H. tauto. Qed.

Lemma wf_node_child m k x : wf (Node m) = true -> dget k m = Some x -> wf x = true.
Proof.
  rewrite wf_node. intros H G. apply andb_true_iff in H as [_ H].
  exact (dget_forallb wf k m x H G).
Qed.

(* ---- the translated leaf rule: interface lemma ------------------------------------------------ *)
Lemma assign_spec tm k v :
  fst (DefaultValue_assign_to_if_not_default (Node tm) k v)
  = Node (match dget k tm with
          | Some c => if is_default v && negb (is_default c) then tm else dset k v tm
          | None => dset k v tm
          end).
Proof.
  unfold DefaultValue_assign_to_if_not_default, kbind, cv_getitem, cv_setitem, cv_items.
  destruct (is_default v); destruct (dget k tm) as [c|]; try reflexivity.
  destruct (is_default c); reflexivity.
Qed.

Lemma assign_get_same tm k v :
  dget k (cv_items (fst (DefaultValue_assign_to_if_not_default (Node tm) k v))) = Some (leaf_rule (dget k tm) v).
Proof.
  rewrite assign_spec. cbn [cv_items]. unfold leaf_rule.
  destruct (dget k tm) as [c|] eqn:G.
  - destruct (is_default v && negb (is_default c)); [exact G | apply dget_dset_same].
  - apply dget_dset_same.
Qed.

Lemma assign_get_other tm k k0 v : str_eqb k k0 = false ->
  dget k (cv_items (fst (DefaultValue_assign_to_if_not_default (Node tm) k0 v))) = dget k tm.
Proof.
  intros H. rewrite assign_spec. cbn [cv_items].
  destruct (dget k0 tm) as [c|].
  - destruct (is_default v && negb (is_default c)); [reflexivity | apply dget_dset_other; exact H].
  - apply dget_dset_other; exact H.
Qed.

(* ---- du: unfolding and the tie to the translated body --------------------------------------- *)
Lemma du_node tm sm : du (Node tm) (Node sm) = Node (du_fold du sm tm).
Proof.
  cbn [du]. f_equal. revert tm.
  induction sm as [|[k v] sm IH]; intro tm; [reflexivity|].
  cbn [du_fold]. rewrite <- IH. unfold du_item. reflexivity.
Qed.

Lemma du_leaf_target d a s : du (Leaf d a) s = s.
Proof. destruct s; reflexivity. Qed.

Lemma du_is_node t sm : is_mapping (du t (Node sm)) = true.
Proof. destruct t; [reflexivity | rewrite du_node; reflexivity]. Qed.

(* ---- per-key law --------------------------------------------------------------------------- *)
Lemma du_item_get_same tm k v : dget k (du_item du tm k v) = merge1 (dget k tm) (Some v).
Proof.
  unfold du_item, merge1. destruct v as [d a|m].
  - apply assign_get_same.
  - apply dget_dset_same.
Qed.

Lemma du_item_get_other tm k k0 v : str_eqb k k0 = false -> dget k (du_item du tm k0 v) = dget k tm.
Proof.
  intros H. unfold du_item. destruct v as [d a|m].
  - apply assign_get_other; exact H.
  - apply dget_dset_other; exact H.
Qed.

Lemma du_fold_get sm : forall tm k, dnodup sm = true ->
  dget k (du_fold du sm tm) = merge1 (dget k tm) (dget k sm).
Proof.
  induction sm as [|[k0 v] sm IH]; intros tm k H; [reflexivity|].
  cbn [du_fold dnodup dget] in *. apply andb_true_iff in H as [H1 H2].
  apply negb_true_iff in H1.
  rewrite (IH _ _ H2).
  destruct (str_eqb k k0) eqn:E.
  - destruct (str_eqb_spec k k0); [subst k0|discriminate].
    rewrite (dmem_false_dget _ _ H1). cbn [merge1]. apply du_item_get_same.
  - rewrite du_item_get_other by exact E. reflexivity.
Qed.

(* the merge law of one key, for every shape of the two bindings *)
Theorem merge_one_key tm sm k : wf (Node sm) = true ->
  dget k (cv_items (du (Node tm) (Node sm))) = merge1 (dget k tm) (dget k sm).
Proof. intros H. rewrite du_node. cbn [cv_items]. apply du_fold_get, wf_node_nodup, H. Qed.

(* ---- closed form along a path without shape conflict --------------------------------------- *)
Lemma leafy_leaf_nil p d a : leafy_on p (Leaf d a) = true -> p = [].
Proof. destruct p; [reflexivity | cbn; discriminate]. Qed.

Lemma lookup_du_leafy p : forall tm sm, p <> [] -> wf (Node sm) = true ->
  leafy_on p (Node tm) = true -> leafy_on p (Node sm) = true ->
  lookup p (du (Node tm) (Node sm)) = pick (lookup p (Node tm)) (lookup p (Node sm))
  /\ leafy_on p (du (Node tm) (Node sm)) = true.
Proof.
  induction p as [|k p IH]; intros tm sm Hne Hwf Lt Ls; [congruence|].
  rewrite du_node. cbn [lookup leafy_on] in *.
  rewrite (du_fold_get sm tm k (wf_node_nodup _ Hwf)).
  destruct (dget k sm) as [[d a|m]|] eqn:Gs.
  - (* source offers a leaf *)
    apply leafy_leaf_nil in Ls. subst p. cbn [merge1 lookup leafy_on].
    destruct (dget k tm) as [c|] eqn:Gt; cbn [leaf_rule].
    + cbn [leafy_on] in Lt. destruct c as [d' a'|]; [|discriminate].
      cbn [pick is_default is_mapping]. destruct (d && negb d'); split; reflexivity.
    + split; reflexivity.
  - (* source offers a mapping *)
    assert (Hp : p <> []) by (destruct p; [cbn in Ls; discriminate | congruence]).
    assert (Hm : wf (Node m) = true) by (eapply wf_node_child; eauto).
    cbn [merge1].
    destruct (dget k tm) as [[d' a'|tm2]|] eqn:Gt.
    + destruct p; [congruence | cbn in Lt; discriminate].
    + apply IH; assumption.
    + destruct (IH [] m Hp Hm) as [E1 E2]; [destruct p; [congruence|reflexivity] | exact Ls |].
      rewrite E1. split; [|exact E2].
      destruct p; [congruence|reflexivity].
  - (* source does not mention the key *)
    cbn [merge1]. split; [|exact Lt].
    destruct (dget k tm) as [x|]; [destruct (lookup p x)|]; reflexivity.
Qed.

Theorem lookup_after_one_merge p t s : p <> [] -> is_mapping t = true -> is_doc s = true ->
  leafy_on p t = true -> leafy_on p s = true ->
  lookup p (du t s) = pick (lookup p t) (lookup p s).
Proof.
  intros Hp Ht Hs Lt Ls. unfold is_doc in Hs. apply andb_true_iff in Hs as [Hm Hwf].
  destruct t as [|tm]; [discriminate|]. destruct s as [|sm]; [discriminate|].
  apply lookup_du_leafy; assumption.
Qed.

Theorem lookup_after_merge p srcs : forall base, p <> [] -> is_mapping base = true ->
  Forall (fun s => is_doc s = true) srcs ->
  leafy_on p base = true -> Forall (fun s => leafy_on p s = true) srcs ->
  lookup p (du_all base srcs) = fold_left pick (map (lookup p) srcs) (lookup p base).
Proof.
  unfold du_all.
  induction srcs as [|s srcs IH]; intros base Hp Hb Hd Lb Ls; [reflexivity|].
  inversion Hd as [|? ? Hs Hd']; subst. inversion Ls as [|? ? Ls1 Ls']; subst.
  cbn [fold_left map].
  pose proof Hs as Hs0. unfold is_doc in Hs0. apply andb_true_iff in Hs0 as [Hm Hwf].
  destruct base as [|tm]; [discriminate|]. destruct s as [|sm]; [discriminate|].
  destruct (lookup_du_leafy p tm sm Hp Hwf Lb Ls1) as [E1 E2].
  rewrite IH; try assumption; try apply du_is_node.
  rewrite E1. reflexivity.
Qed.

(* consequences for the fold of `pick` *)
Definition silent_or_default (o : option cv) : Prop := o = None \/ exists b, o = Some (Leaf true b).

Lemma pick_explicit cur a : pick cur (Some (Leaf false a)) = Some (Leaf false a).
Proof. destruct cur; reflexivity. Qed.

Lemma fold_pick_keeps_explicit l a : Forall silent_or_default l ->
  fold_left pick l (Some (Leaf false a)) = Some (Leaf false a).
Proof.
  induction l as [|o l IH]; intros H; [reflexivity|].
  inversion H as [|? ? H1 H2]; subst. cbn [fold_left].
  destruct H1 as [->|[b ->]]; cbn [pick is_default negb andb]; exact (IH H2).
Qed.

Theorem last_explicit_wins p base before s after a :
  p <> [] -> is_mapping base = true ->
  Forall (fun x => is_doc x = true) (before ++ s :: after) ->
  leafy_on p base = true -> Forall (fun x => leafy_on p x = true) (before ++ s :: after) ->
  lookup p s = Some (Leaf false a) ->
  Forall (fun x => silent_or_default (lookup p x)) after ->
  lookup p (du_all base (before ++ s :: after)) = Some (Leaf false a).
Proof.
  intros Hp Hb Hd Lb Ls Hs Ha.
  rewrite lookup_after_merge by assumption.
  rewrite map_app, fold_left_app. cbn [map fold_left]. rewrite Hs, pick_explicit.
  apply fold_pick_keeps_explicit. apply Forall_map. exact Ha.
Qed.

Theorem later_default_replaces_earlier_default p base srcs s b :
  p <> [] -> is_mapping base = true ->
  Forall (fun x => is_doc x = true) (srcs ++ [s]) ->
  leafy_on p base = true -> Forall (fun x => leafy_on p x = true) (srcs ++ [s]) ->
  lookup p s = Some (Leaf true b) ->
  silent_or_default (lookup p (du_all base srcs)) ->
  lookup p (du_all base (srcs ++ [s])) = Some (Leaf true b).
Proof.
  intros Hp Hb Hd Lb Ls Hs Hprev.
  apply Forall_app in Hd as [Hd1 Hd2]. apply Forall_app in Ls as [Ls1 Ls2].
  unfold du_all in *. rewrite fold_left_app. cbn [fold_left].
  inversion Hd2; subst. inversion Ls2; subst.
  assert (L : leafy_on p (fold_left du srcs base) = true /\ is_mapping (fold_left du srcs base) = true).
  { clear - Hp Hb Hd1 Lb Ls1. revert base Hb Lb.
    induction srcs as [|x srcs IH]; intros base Hb Lb; [split; assumption|].
    inversion Hd1; subst. inversion Ls1; subst. cbn [fold_left].
    match goal with H : is_doc x = true |- _ => pose proof H as Hx; unfold is_doc in H; apply andb_true_iff in H as [Hm Hwf] end.
    destruct base as [|tm]; [discriminate|]. destruct x as [|sm]; [discriminate|].
    apply IH; try assumption.
    apply lookup_du_leafy; assumption. }
  destruct L as [L1 L2].
  rewrite lookup_after_one_merge by assumption.
  rewrite Hs. destruct Hprev as [->|[c ->]]; reflexivity.
Qed.

(* a default-marked value never displaces an explicit one, whatever came before *)
Theorem default_never_displaces_explicit p t s a b :
  p <> [] -> is_mapping t = true -> is_doc s = true ->
  leafy_on p t = true -> leafy_on p s = true ->
  lookup p t = Some (Leaf false a) -> lookup p s = Some (Leaf true b) ->
  lookup p (du t s) = Some (Leaf false a).
Proof.
  intros. rewrite lookup_after_one_merge by assumption.
  repeat match goal with H : lookup _ _ = _ |- _ => rewrite H; clear H end. reflexivity.
Qed.

(* ---- untouched keys ---------------------------------------------------------------------------- *)
Lemma untouched_lookup_none p : forall s, untouched p s = true -> lookup p s = None.
Proof.
  induction p as [|k p IH]; intros s H; [discriminate|].
  destruct s as [|m]; [discriminate|]. cbn [untouched lookup] in *.
  destruct (dget k m); [apply IH; exact H | reflexivity].
Qed.

Lemma lookup_leaf_cons k p d a : lookup (k :: p) (Leaf d a) = None.
Proof. reflexivity. Qed.

Theorem untouched_keys_kept p : forall t s, is_mapping t = true -> wf s = true ->
  untouched p s = true -> lookup p (du t s) = lookup p t.
Proof.
  induction p as [|k p IH]; intros t s Ht Hwf Hu; [discriminate|].
  destruct s as [|sm]; [discriminate|]. destruct t as [|tm]; [discriminate|].
  rewrite du_node. cbn [lookup untouched] in *.
  rewrite (du_fold_get sm tm k (wf_node_nodup _ Hwf)).
  destruct (dget k sm) as [x|] eqn:Gs; [|reflexivity].
  assert (Hx : wf x = true) by (eapply wf_node_child; eauto).
  destruct x as [d a|m]; [destruct p; discriminate|].
  assert (Hp : exists k' p', p = k' :: p') by (destruct p; [discriminate | eauto]).
  destruct Hp as (k' & p' & ->).
  cbn [merge1].
  destruct (dget k tm) as [[d' a'|tm2]|] eqn:Gt.
  - rewrite du_leaf_target. rewrite (untouched_lookup_none _ _ Hu). reflexivity.
  - apply IH; [reflexivity | exact Hx | exact Hu].
  - rewrite IH; [reflexivity | reflexivity | exact Hx | exact Hu].
Qed.

Theorem untouched_keys_kept_all p srcs : forall base, is_mapping base = true ->
  Forall (fun s => is_doc s = true /\ untouched p s = true) srcs ->
  lookup p (du_all base srcs) = lookup p base.
Proof.
  unfold du_all. induction srcs as [|s srcs IH]; intros base Hb H; [reflexivity|].
  inversion H as [|? ? [Hd Hu] H']; subst. cbn [fold_left].
  unfold is_doc in Hd. apply andb_true_iff in Hd as [Hm Hwf].
  destruct s as [|sm]; [discriminate|].
  rewrite IH; [apply untouched_keys_kept; assumption | apply du_is_node | exact H'].
Qed.

(* ---- deep union ------------------------------------------------------------------------------ *)
Theorem deep_union_keys tm sm k : wf (Node sm) = true ->
  dmem k (cv_items (du (Node tm) (Node sm))) = dmem k tm || dmem k sm.
Proof.
  intros H. unfold dmem. rewrite merge_one_key by exact H.
  destruct (dget k sm) as [[d a|m]|]; destruct (dget k tm); cbn [merge1 orb]; reflexivity.
Qed.

Theorem deep_union_nested p : forall t s a b, is_mapping t = true -> is_doc s = true ->
  lookup p t = Some (Node a) -> lookup p s = Some (Node b) ->
  lookup p (du t s) = Some (du (Node a) (Node b)).
Proof.
  induction p as [|k p IH]; intros t s a b Ht Hs La Lb.
  - cbn [lookup] in *. inversion La; inversion Lb; subst. reflexivity.
  - unfold is_doc in Hs. apply andb_true_iff in Hs as [Hm Hwf].
    destruct t as [|tm]; [discriminate|]. destruct s as [|sm]; [discriminate|].
    rewrite du_node. cbn [lookup] in *.
    rewrite (du_fold_get sm tm k (wf_node_nodup _ Hwf)).
    destruct (dget k tm) as [x|] eqn:Gt; [|discriminate].
    destruct (dget k sm) as [y|] eqn:Gs; [|discriminate].
    assert (Hy : wf y = true) by (eapply wf_node_child; eauto).
    destruct x as [|xm]; [destruct p; discriminate|].
    destruct y as [|ym]; [destruct p; discriminate|].
    cbn [merge1]. apply IH; try assumption; try reflexivity.
Qed.

(* a key only the later source has: the target gets a structurally equal fresh copy of it *)
Lemma du_fold_fresh sm : forall tm,
  Forall (fun kv => forall m, snd kv = Node m -> du (Node []) (Node m) = Node m) sm ->
  dnodup sm = true -> (forall k, dmem k sm = true -> dmem k tm = false) ->
  du_fold du sm tm = tm ++ sm.
Proof.
  induction sm as [|[k v] sm IH]; intros tm HF Hn Hd; [rewrite app_nil_r; reflexivity|].
  inversion HF as [|? ? Hv HF']; subst. cbn [du_fold dnodup] in *.
  apply andb_true_iff in Hn as [Hn1 Hn2]. apply negb_true_iff in Hn1.
  assert (Hk : dget k tm = None).
  { apply dmem_false_dget, Hd. unfold dmem. cbn [dget]. rewrite str_eqb_refl. reflexivity. }
  assert (Hset : forall x : cv, dset k x tm = tm ++ [(k, x)]).
  { intro x. clear - Hk. induction tm as [|[k' v'] tm IHt]; [reflexivity|].
    cbn [dget dset app] in *. destruct (str_eqb k k'); [discriminate|]. rewrite IHt by exact Hk. reflexivity. }
  assert (Hitem : du_item du tm k v = tm ++ [(k, v)]).
  { unfold du_item. destruct v as [d a|m].
    - rewrite assign_spec, Hk. cbn [cv_items]. apply Hset.
    - rewrite Hk, (Hv m eq_refl). apply Hset. }
  rewrite Hitem, IH; [rewrite <- app_assoc; reflexivity | exact HF' | exact Hn2 |].
  intros k1 H1. unfold dmem.
  assert (E : str_eqb k1 k = false).
  { destruct (str_eqb k1 k) eqn:E; [|reflexivity]. destruct (str_eqb_spec k1 k); [subst|discriminate]. congruence. }
  assert (G : dget k1 (tm ++ [(k, v)]) = dget k1 tm).
  { clear - E. induction tm as [|[k' v'] tm IHt]; cbn [app dget]; [rewrite E; reflexivity|].
    destruct (str_eqb k1 k'); [reflexivity|exact IHt]. }
  rewrite G. specialize (Hd k1). unfold dmem in Hd. cbn [dget] in Hd. rewrite E in Hd.
  unfold dmem in H1. destruct (dget k1 sm); [|discriminate]. specialize (Hd eq_refl).
  destruct (dget k1 tm); [discriminate|reflexivity].
Qed.

Theorem du_into_empty_is_copy s : wf s = true -> is_mapping s = true -> du (Node []) s = s.
Proof.
  induction s as [d a|m IH] using cv_ind'; intros Hwf Hm; [discriminate|].
  rewrite du_node. f_equal.
  rewrite du_fold_fresh; [reflexivity | | apply wf_node_nodup; exact Hwf | reflexivity].
  rewrite wf_node in Hwf. apply andb_true_iff in Hwf as [_ Hall].
  rewrite forallb_forall in Hall. rewrite Forall_forall in *.
  intros kv Hin m' E. rewrite <- E. apply IH; [exact Hin | | rewrite E; reflexivity].
  specialize (Hall kv Hin). exact Hall.
Qed.

(* the order in which a source lists its keys is irrelevant (extensionally) *)
Theorem source_key_order_irrelevant t o1 o2 k :
  dnodup o1 = true -> dnodup o2 = true -> (forall x, dget x o1 = dget x o2) ->
  dget k (cv_items (du t (Node o1))) = dget k (cv_items (du t (Node o2))).
Proof.
  intros H1 H2 E. destruct t as [d a|tm].
  - cbn [du cv_items]. apply E.
  - rewrite !du_node. cbn [cv_items]. rewrite !du_fold_get by assumption. rewrite E. reflexivity.
Qed.

(* Config.du solves the recursion equation translated from the source of deep_update (for documents with unique keys, which
   is what a Python dict is).  The branch "target is not a mapping" is `copy.deepcopy(source)` or, once the copy is rebuilt
   key by key, `deep_update({}, copy.deepcopy(source))`: value-wise both are the source itself (du_into_empty_is_copy). *)
Theorem du_satisfies_translated_equation t s : wf s = true -> du t s = deep_update_step du t s.
Proof.
  intros Hwf. unfold deep_update_step, cv_copy, cv_deepcopy.
  destruct t as [d a|tm]; cbn [is_mapping].
  - destruct s as [d' a'|sm]; cbn [is_mapping]; [reflexivity|].
    rewrite du_leaf_target.
    first [ reflexivity
          | symmetry; apply du_into_empty_is_copy; [exact Hwf | reflexivity] ].
  - destruct s as [d a|sm]; [reflexivity|].
    rewrite du_node. cbn [cv_items].
    clear Hwf. revert tm. induction sm as [|[k v] sm IH]; intro tm; [reflexivity|].
    cbn [fold_left du_fold fst snd].
    destruct v as [d a|m]; cbn [is_mapping].
    + rewrite assign_spec. rewrite <- IH. unfold du_item. rewrite assign_spec. reflexivity.
    + unfold cv_setitem, cv_get_or, cv_getitem, cv_items. rewrite <- IH. unfold du_item. reflexivity.
Qed.
