(* C09 -- the output of stropping is never a keyword OF THE LANGUAGE (independent, committed tables: Gen/StropKeywords.v),
   and never an identifier reserved by C11 7.1.3 / C++ [lex.name] as far as that holds; stated on the regenerated
   configuration, so deleting a keyword from /repo's properties.yaml breaks these obligations. *)
From Verif Require Import StropInst StropKeywords StropThmRe StropThmEnc StropThm StropThmId StropThmTotal StropThmInst.
Open Scope N_scope.

(* C headers are compiled by C++ translation units too: both C-family targets must avoid both keyword sets *)
Definition c_family_keywords : list str := c11_keywords ++ cpp20_keywords ++ cpp20_alternative_tokens.

Definition lang_keywords (l : lang) : list str :=
  match l with LC | LCpp => c_family_keywords | LPy => py312_keywords end.

Lemma keywords_reserved_thm l w : In w (lang_keywords l) -> reserved_lang l w = true /\ valid_ident w = true.
Proof.
  assert (H : forall l, forallb (fun w => reserved_lang l w && valid_ident w) (lang_keywords l) = true)
    by (intros []; vm_compute; reflexivity).
  intros Hin. specialize (H l). rewrite forallb_forall in H. apply andb_prop. exact (H w Hin).
Qed.

(* the interpreter that runs nunavut has exactly the committed Python keyword set (self-test of the committed table) *)
Lemma py_keywords_match_interpreter_thm :
  (forall w, In w py_kwlist -> In w py312_keywords) /\ (forall w, In w py312_keywords -> In w py_kwlist).
Proof.
  assert (H1 : forallb (fun w => str_in w py312_keywords) py_kwlist = true) by (vm_compute; reflexivity).
  assert (H2 : forallb (fun w => str_in w py_kwlist) py312_keywords = true) by (vm_compute; reflexivity).
  rewrite forallb_forall in H1, H2. split; intros w Hw; apply str_in_spec; auto.
Qed.

(* whatever strop returns -- for ANY input -- is not a keyword of the language *)
Lemma strop_never_keyword_thm l ty s t : s <> [] -> strop_lang l ty s = Ok t -> ~ In t (lang_keywords l).
Proof.
  intros Hne Hs Hin. destruct (strop_sound_lang l ty s t Hne Hs) as (_ & Hr & _).
  destruct (keywords_reserved_thm l t Hin) as [Hk _]. congruence.
Qed.

(* a keyword given as a name comes back as a different token that is not a keyword either *)
Lemma keyword_is_stropped_thm l ty w : cpp_whole_token_premise -> In w (lang_keywords l) -> str_eqb (lower ty) ty_all = false ->
  exists t, strop_lang l ty w = Ok t /\ t <> w /\ ~ In t (lang_keywords l).
Proof.
  intros P Hin Hty. destruct (keywords_reserved_thm l w Hin) as [_ Hv].
  assert (Hne : w <> []) by (destruct w; discriminate).
  destruct (strop_total_lang l ty w P Hne Hty) as (t & Ht). exists t; split; [exact Ht|].
  pose proof (strop_never_keyword_thm l ty w t Hne Ht) as Hn. split; [intros ->; contradiction|exact Hn].
Qed.

(* ------------------------------------------------------------------------------------------------------------- *)
(* identifiers reserved by the language standards, independent of the configuration:                             *)
(*   C11 7.1.3 / C++ [lex.name] 3.2: a leading underscore followed by an upper-case letter or another underscore  *)
(* ------------------------------------------------------------------------------------------------------------- *)
Definition upper_list : list chr := map N.of_nat (seq 65 26).

Lemma upper_list_in c : is_upper c = true -> In c upper_list.
Proof.
  rewrite is_upper_iff; intros H. unfold upper_list. apply in_map_iff; exists (N.to_nat c); split; [apply N2Nat.id|].
  rewrite in_seq; lia.
Qed.

(* a sound MUST-match analysis: r matches (anchored) every string that starts with c1, c2 *)
Fixpoint must2_body (u : uni) (r : re) (c1 c2 : chr) : bool :=
  match r with
  | Seq (Cls a) (Cls b) => cls_mem u a c1 && cls_mem u b c2
  | Seq (Cls a) (Seq (Cls b) (Star _)) => cls_mem u a c1 && cls_mem u b c2
  | _ => false
  end.

Fixpoint must2 (u : uni) (r : re) (c1 c2 : chr) : bool :=
  match r with
  | Seq Bol r' => must2_body u r' c1 c2
  | Alt x y => must2 u x c1 c2 || must2 u y c1 c2
  | _ => false
  end.

Lemma re_matches_alt u x y t : re_matches u (Alt x y) t = re_matches u x t || re_matches u y t.
Proof. unfold re_matches, re_match. cbn [mt]. destruct (mt u x _ true t); reflexivity. Qed.

Lemma must2_sound u r c1 c2 tl : must2 u r c1 c2 = true -> re_matches u r (c1 :: c2 :: tl) = true.
Proof.
  induction r as [|k|a IHa b IHb|a IHa b IHb|a IHa| |]; cbn [must2]; try discriminate.
  - destruct a; try discriminate. intros H. unfold re_matches, re_match. cbn [mt].
    destruct b as [|?|[|ka|? ?|? ?|?| |] b2|? ?|?| |]; cbn [must2_body] in H; try discriminate.
    destruct b2 as [|kb|[|kb|? ?|? ?|?| |] b3|? ?|?| |]; cbn [must2_body] in H; try discriminate.
    + apply andb_prop in H as [H1 H2]. cbn [mt]. rewrite H1, H2. reflexivity.
    + destruct b3; try discriminate. apply andb_prop in H as [H1 H2]. cbn [mt]. rewrite H1, H2.
      destruct (star_krest_some (mt u b3) (S (length tl)) false tl) as (rest & ->). reflexivity.
  - intros H. rewrite re_matches_alt. apply orb_prop in H as [H|H]; [rewrite (IHa H)|rewrite (IHb H), orb_true_r]; reflexivity.
Qed.

Definition und_cover (l : lang) (c2 : chr) : bool :=
  existsb (fun r => must2 py_uni r 95 c2) (pats_of (cfg_of l) ty_all)
  || (sc_reverify (cfg_of l) && existsb (fun r => must2 py_uni r 95 c2) (rules_of (cfg_of l) ty_all)).

Lemma encode_rules_dry_inv u sp cfg rs t : encode_rules u sp cfg rs true t <> TRuntimeError ->
  forall r, In r rs -> re_matches u r t = false.
Proof.
  induction rs as [|r0 rs IH]; cbn [encode_rules]; intros H r Hin; [destruct Hin|].
  destruct (re_matches u r0 t) eqn:E; [congruence|]. destruct Hin as [<-|Hin]; [exact E|exact (IH H r Hin)].
Qed.

(* in a tree that re-verifies, the returned token passed the encoding dry-run: no `all` rule matches it *)
Lemma strop_result_enc_ok u sp cfg ty s t : sc_reverify cfg = true -> strop u sp cfg ty s = Ok t ->
  forall r, In r (rules_of cfg ty_all) -> re_matches u r t = false.
Proof.
  intros Hrv. unfold strop. destruct (str_eqb (lower ty) ty_all) eqn:Hty; [discriminate|].
  destruct (do_for_type_and_all (encode u sp cfg) s (lower ty) false) as [e| |]; try discriminate.
  destruct (do_for_type_and_all (strop_by_keyword cfg) e (lower ty) false) as [k| |]; try discriminate.
  destruct (do_for_type_and_all (strop_by_pattern u cfg) k (lower ty) false) as [p| |]; try discriminate.
  destruct (checked _ (sc_strop_handler cfg) p) as [s1| |]; try discriminate.
  destruct (checked _ (sc_strop_handler cfg) s1) as [s2| |]; try discriminate.
  destruct (checked _ (sc_enc_handler cfg) s2) as [s3| |]; try discriminate.
  rewrite Hrv. unfold reverified.
  destruct (dry_ok (do_for_type_and_all (strop_by_pattern u cfg) s3 (lower ty) true)); [|discriminate].
  destruct (dry_ok (do_for_type_and_all (strop_by_keyword cfg) s3 (lower ty) true)); [|discriminate].
  destruct (dry_ok (do_for_type_and_all (encode u sp cfg) s3 (lower ty) true)) eqn:E3; [|discriminate].
  destruct (negb (sc_full_check cfg) || full_ok u cfg (lower ty) s3); [|discriminate].
  cbn [andb]. intros [= <-] r Hin. unfold do_for_type_and_all, encode in E3. unfold rules_of in Hin.
  destruct (lookup (sc_rules cfg) ty_all) as [ra|]; [|destruct Hin].
  apply (encode_rules_dry_inv u sp cfg ra s3); [|exact Hin].
  intros E. rewrite E in E3. discriminate.
Qed.

Lemma strop_never_und_reserved_thm l ty s t : (l = LC \/ l = LCpp) -> s <> [] -> strop_lang l ty s = Ok t -> und_reserved t = false.
Proof.
  intros Hl Hne Hs. destruct (und_reserved t) eqn:U; [exfalso|reflexivity].
  assert (Hc : forall c2, In c2 (95 :: upper_list) -> und_cover l c2 = true).
  { assert (H : forallb (und_cover l) (95 :: upper_list) = true) by (destruct Hl as [-> | ->]; vm_compute; reflexivity).
    rewrite forallb_forall in H. exact H. }
  destruct t as [|c0 [|c2 tl]]; try discriminate. cbn [und_reserved] in U. apply andb_prop in U as [U0 U2].
  apply N.eqb_eq in U0; subst c0.
  assert (Hin : In c2 (95 :: upper_list)).
  { apply orb_prop in U2 as [U2|U2]; [left; symmetry; apply N.eqb_eq; exact U2|right; apply upper_list_in; exact U2]. }
  specialize (Hc c2 Hin). unfold und_cover in Hc. apply orb_prop in Hc as [Hc|Hc].
  - apply existsb_exists in Hc as (r & Hr & Hm). apply (must2_sound py_uni r 95 c2 tl) in Hm.
    destruct (strop_sound_lang l ty s _ Hne Hs) as (_ & _ & Hp). unfold pattern_lang, matches_reserved_pattern in Hp.
    apply orb_false_elim in Hp as [Hp _]. unfold matches_pats in Hp.
    assert (Hx : existsb (fun r => re_matches py_uni r (95 :: c2 :: tl)) (pats_of (cfg_of l) ty_all) = true)
      by (apply existsb_exists; eauto).
    congruence.
  - apply andb_prop in Hc as [Hrv Hc]. apply existsb_exists in Hc as (r & Hr & Hm).
    apply (must2_sound py_uni r 95 c2 tl) in Hm.
    rewrite (strop_result_enc_ok py_uni py_isspace (cfg_of l) ty s _ Hrv Hs r Hr) in Hm. discriminate.
Qed.

(* C++ [lex.name] 3.1 additionally reserves every identifier that CONTAINS `__`.  The configuration only encodes leading and
   trailing runs: an inner `__` survives (witness a__b).  What holds: no `__` at either end is produced from a clean start. *)
Lemma strop_cpp_inner_dunder_thm : exists ty s t, strop_cpp ty s = Ok t /\ has_dunder t = true.
Proof. exists ty_any, [97; 95; 95; 98], [97; 95; 95; 98]. vm_compute. split; reflexivity. Qed.

(* ------------------------------------------------------------------------------------------------------------- *)
(* Language.filter_id(instance, id_type): the translated bodies are the model; the theorems lifted to the observable *)
(* ------------------------------------------------------------------------------------------------------------- *)
Lemma run_default_model i : run_default model_default_rule i = Some (default_filter_id i).
Proof. destruct i; reflexivity. Qed.

Lemma filter_id_is_model_thm :
  default_id_rule = model_default_rule
  /\ filter_id_steps_c = model_filter_id_steps /\ filter_id_steps_cpp = model_filter_id_steps /\ filter_id_steps_py = model_filter_id_steps
  /\ forall i, run_default default_id_rule i = Some (default_filter_id i).
Proof. repeat split; try reflexivity. exact run_default_model. Qed.

Lemma filter_id_total_sound_thm l i ty : cpp_whole_token_premise -> default_filter_id i <> [] -> str_eqb (lower ty) ty_all = false ->
  exists t, filter_id l i ty = Ok t /\ valid_ident t = true /\ reserved_lang l t = false /\ pattern_lang l ty t = false
            /\ ~ In t (lang_keywords l).
Proof.
  intros P Hne Hty. unfold filter_id. destruct (strop_total_lang l ty _ P Hne Hty) as (t & Ht). exists t.
  destruct (strop_sound_lang l ty _ t Hne Ht) as (H1 & H2 & H3). repeat split; try assumption.
  exact (strop_never_keyword_thm l ty _ t Hne Ht).
Qed.
