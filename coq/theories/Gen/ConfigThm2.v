(* C13 proofs, part 2: LanguageContextBuilder / CLI / cpp option groups / several builders. *)
From Verif Require Import Config ConfigThm.
Require Import Lia Bool List.
Import ListNotations.
Open Scope N_scope.

(* ---- the builder is a product of three independent components ---------------------------------- *)
Lemma brun_fields ops : forall b,
  b_sections (fold_left bapply ops b) = merge_files (b_sections b) (files_of ops)
  /\ b_over (fold_left bapply ops b) = overrides_of ops (b_over b)
  /\ b_lang (fold_left bapply ops b) = language_of ops (b_lang b).
Proof.
  induction ops as [|op ops IH]; intro b; [cbn; auto|].
  cbn [fold_left]. destruct (IH (bapply b op)) as (A & B & C). rewrite A, B, C.
  destruct op as [doc|k [v|]|[l|]]; cbn; auto.
Qed.

Definition canonical_builder (builtin : list (list N * cv)) (files : list cv) (over : list (list N * cv))
  (lang : option (list N)) : builder :=
  {| b_sections := merge_files (Some builtin) files; b_lang := lang; b_over := over |}.

(* create() depends only on the ordered file list, the final override map and the last language *)
Theorem builder_canonical builtin ops :
  bcreate (fold_left bapply ops (new_builder builtin))
  = bcreate (canonical_builder builtin (files_of ops) (overrides_of ops []) (language_of ops None)).
Proof.
  destruct (brun_fields ops (new_builder builtin)) as (A & B & C).
  unfold bcreate, resolve_language, canonical_builder. cbn [b_sections b_lang b_over new_builder] in *.
  rewrite A, B, C. reflexivity.
Qed.

Theorem builder_canonical_st detach builtin ops :
  let r1 := bcreate_st detach (fold_left bapply ops (new_builder builtin)) in
  let r2 := bcreate_st detach (canonical_builder builtin (files_of ops) (overrides_of ops []) (language_of ops None)) in
  snd r1 = snd r2 /\ snd (fst r1) = snd (fst r2) /\ b_sections (fst (fst r1)) = b_sections (fst (fst r2)).
Proof.
  pose proof (builder_canonical builtin ops) as E.
  destruct (brun_fields ops (new_builder builtin)) as (A & B & C).
  unfold bcreate_st. rewrite E.
  unfold resolve_language, canonical_builder. cbn [b_sections b_lang b_over new_builder] in *.
  rewrite B, C.
  set (cb := bcreate _).
  destruct cb as [s|]; [|cbn; auto].
  destruct (match language_of ops None with Some l => Some l | None => _ end) as [l|]; [|cbn; auto].
  destruct (language_init _ _ _) as [o s']. cbn. auto.
Qed.

Lemma overrides_nodup ops : forall init, dnodup init = true -> dnodup (overrides_of ops init) = true.
Proof.
  unfold overrides_of. induction ops as [|op ops IH]; intros init H; [exact H|].
  cbn [fold_left]. apply IH. destruct op as [doc|k [v|]|l]; try exact H. apply dnodup_dset, H.
Qed.

(* two sections tables report the same: identical bindings, sections that are mappings agree key by key
   (the order in which keys were inserted is not observable through lookups) *)
Definition sections_equiv (s1 s2 : list (list N * cv)) : Prop :=
  forall sec, match dget sec s1, dget sec s2 with
              | Some (Node a), Some (Node b) => forall k, dget k a = dget k b
              | Some x, Some y => x = y
              | None, None => True
              | _, _ => False
              end.

Lemma update_section_equiv s name o1 o2 :
  dnodup o1 = true -> dnodup o2 = true -> (forall k, dget k o1 = dget k o2) ->
  sections_equiv (update_section s name (Node o1)) (update_section s name (Node o2)).
Proof.
  intros H1 H2 E sec. unfold update_section.
  destruct (str_eqb sec name) eqn:Es.
  - destruct (str_eqb_spec sec name); [subst|discriminate]. rewrite !dget_dset_same.
    pose proof (fun k => source_key_order_irrelevant (match dget name s with Some x => x | None => Node [] end) o1 o2 k H1 H2 E) as K.
    destruct (match dget name s with Some x => x | None => Node [] end) as [d a|tm].
    + cbn [du] in *. exact K.
    + rewrite !du_node in *. exact K.
  - rewrite !dget_dset_other by exact Es. destruct (dget sec s) as [[d a|m]|]; auto.
Qed.

Theorem builder_order_insensitive builtin ops1 ops2 :
  files_of ops1 = files_of ops2 ->
  language_of ops1 None = language_of ops2 None ->
  (forall k, dget k (overrides_of ops1 []) = dget k (overrides_of ops2 [])) ->
  match bcreate (fold_left bapply ops1 (new_builder builtin)), bcreate (fold_left bapply ops2 (new_builder builtin)) with
  | Some s1, Some s2 => sections_equiv s1 s2
  | None, None => True
  | _, _ => False
  end.
Proof.
  intros F L O. rewrite !builder_canonical. rewrite <- F, <- L.
  unfold bcreate, canonical_builder, resolve_language. cbn [b_sections b_lang b_over].
  destruct (merge_files (Some builtin) (files_of ops1)) as [s|]; [|exact I].
  rewrite <- O.
  destruct (language_of ops1 None) as [l|].
  - apply update_section_equiv; auto using overrides_nodup.
  - destruct (dget _ (overrides_of ops1 [])); [exact I|].
    apply update_section_equiv; auto using overrides_nodup.
Qed.

(* ---- a default-marked override never displaces a value the files gave explicitly ------------------ *)
Theorem default_override_never_displaces s name over opts k v :
  dnodup over = true -> dnodup opts = true ->
  dget key_options over = Some (Node opts) ->
  lookup [name; key_options; k] (Node s) = Some v -> is_default v = false ->
  match dget k opts with None => True | Some o => is_default o = true end ->
  lookup [name; key_options; k] (Node (update_section s name (Node over))) = Some v.
Proof.
  intros Ho Hp Go L Dv Dk. cbn [lookup] in *.
  destruct (dget name s) as [[d a|sec]|] eqn:Gn; try discriminate.
  destruct (dget key_options sec) as [[d a|om]|] eqn:Gk; try discriminate.
  destruct (dget k om) as [c|] eqn:Gc; [|discriminate]. inversion L; subst c.
  unfold update_section. rewrite dget_dset_same, Gn, du_node.
  rewrite (du_fold_get over sec key_options Ho), Gk, Go. cbn [merge1]. rewrite du_node.
  rewrite (du_fold_get opts om k Hp), Gc.
  destruct (dget k opts) as [[d a|m]|]; cbn [merge1 leaf_rule is_default] in *.
  - subst d. rewrite Dv. reflexivity.
  - discriminate.
  - reflexivity.
Qed.

(* an explicit override (set CLI flag, --target-endianness, -std) always wins *)
Theorem explicit_override_wins s name over opts k a :
  dnodup over = true -> dnodup opts = true ->
  dget key_options over = Some (Node opts) ->
  dget k opts = Some (Leaf false a) ->
  lookup [name; key_options; k] (Node (update_section s name (Node over))) = Some (Leaf false a).
Proof.
  intros Ho Hp Go Gk. cbn [lookup]. unfold update_section. rewrite dget_dset_same.
  destruct (match dget name s with Some x => x | None => Node [] end) as [d0 a0|sec].
  - cbn [du]. rewrite Go, Gk. reflexivity.
  - rewrite du_node, (du_fold_get over sec key_options Ho), Go. cbn [merge1].
    destruct (match dget key_options sec with Some c => c | None => Node [] end) as [d1 a1|om].
    + cbn [du]. rewrite Gk. reflexivity.
    + rewrite du_node, (du_fold_get opts om k Hp), Gk. cbn [merge1 leaf_rule is_default andb].
      destruct (dget k om); reflexivity.
Qed.

(* ---- CLI --------------------------------------------------------------------------------------- *)
Lemma overrides_of_app l1 l2 init : overrides_of (l1 ++ l2) init = overrides_of l2 (overrides_of l1 init).
Proof. unfold overrides_of. apply fold_left_app. Qed.

Lemma overrides_of_files fs init : overrides_of (map AddFile fs) init = init.
Proof. unfold overrides_of. induction fs; [reflexivity|]. cbn [map fold_left]. exact IHfs. Qed.

Lemma files_of_app l1 l2 : files_of (l1 ++ l2) = files_of l1 ++ files_of l2.
Proof.
  induction l1 as [|op l1 IH]; [reflexivity|]. cbn [app files_of].
  destruct op; cbn [app]; rewrite IH; reflexivity.
Qed.

Lemma files_of_files fs : files_of (map AddFile fs) = fs.
Proof. induction fs; [reflexivity|]. cbn [map files_of]. rewrite IHfs. reflexivity. Qed.

(* the translated _create_language_context: files are passed through in order; `options` is overridden by the
   language_options dict *)
Lemma cli_files arg files : files_of (cli_ops arg files) = files.
Proof.
  unfold cli_ops, cli_calls. cbn [flat_map].
  repeat (rewrite files_of_app; cbn [files_of app]).
  rewrite files_of_files, ?app_nil_r. reflexivity.
Qed.

Lemma cli_overrides arg files :
  dget key_options (overrides_of (cli_ops arg files) []) = Some (Node (cli_language_options arg))
  /\ dnodup (overrides_of (cli_ops arg files) []) = true.
Proof.
  split; [|apply overrides_nodup; reflexivity].
  unfold cli_ops, cli_calls. cbn [flat_map].
  repeat (rewrite overrides_of_app; try rewrite overrides_of_files).
  set (X := cli_language_options arg).
  unfold overrides_of. cbn [fold_left app option_map].
  repeat match goal with |- context [arg ?a] => destruct (arg a) end; reflexivity.
Qed.

Lemma cli_language_options_nodup arg : dnodup (cli_language_options arg) = true.
Proof.
  unfold cli_language_options.
  repeat match goal with
         | |- context [match arg ?a with _ => _ end] => destruct (arg a)
         | |- context [cli_truthy ?x] => destruct (cli_truthy x)
         end; reflexivity.
Qed.

(* values that are merely defaults of the command line never displace a value given explicitly in a file *)
Theorem cli_defaults_never_displace arg files builtin s l k v s' :
  merge_files (Some builtin) files = Some s ->
  language_of (cli_ops arg files) None = Some l ->
  bcreate (fold_left bapply (cli_ops arg files) (new_builder builtin)) = Some s' ->
  lookup [section_of l; key_options; k] (Node s) = Some v -> is_default v = false ->
  match dget k (cli_language_options arg) with None => True | Some o => is_default o = true end ->
  lookup [section_of l; key_options; k] (Node s') = Some v.
Proof.
  intros M Lg C Lk Dv Dk. rewrite builder_canonical in C.
  destruct (cli_overrides arg files) as [Go Hn].
  remember (overrides_of (cli_ops arg files) []) as ov.
  unfold bcreate, canonical_builder, resolve_language in C. cbn [b_sections b_lang b_over] in C.
  rewrite cli_files, M, Lg in C. injection C as <-.
  apply (default_override_never_displaces s (section_of l) ov (cli_language_options arg) k v);
    auto using cli_language_options_nodup.
Qed.

(* ---- cpp: the -std shorthand sets its group as a unit -------------------------------------------- *)
Lemma dget_dupdate (g : list (list N * cv)) : forall m k, dnodup g = true ->
  dget k (dupdate m g) = match dget k g with Some v => Some v | None => dget k m end.
Proof.
  unfold dupdate. induction g as [|[k0 v0] g IH]; intros m k H; [reflexivity|].
  cbn [fold_left fst snd dnodup dget] in *. apply andb_true_iff in H as [H1 H2]. apply negb_true_iff in H1.
  rewrite (IH _ _ H2).
  destruct (str_eqb k k0) eqn:E.
  - destruct (str_eqb_spec k k0); [subst|discriminate].
    rewrite (dmem_false_dget _ _ H1). apply dget_dset_same.
  - rewrite dget_dset_other by exact E. reflexivity.
Qed.

Theorem cpp_std_shorthand_unit defaults options options' stdv std g :
  dget cpp_key_std options = Some stdv -> cv_str stdv = Some std ->
  dget std defaults = Some (Node g) -> dnodup g = true ->
  cpp_validate_language_options defaults options = Some options' ->
  forall k, dget k options' = match dget k g with Some v => Some v | None => dget k options end.
Proof.
  intros Hs Hc Hg Hn V k. unfold cpp_validate_language_options, cpp_apply_group in V.
  rewrite Hs, Hc, Hg in V.
  destruct (dget cpp_key_ctor (dupdate options g)); [|discriminate].
  destruct (cpp_ctor_from_string c); [|discriminate].
  match type of V with (if ?c then _ else _) = _ => destruct c end; [discriminate|].
  inversion V; subst. apply dget_dupdate, Hn.
Qed.

Theorem cpp_plain_std_keeps_options defaults options options' stdv :
  dget cpp_key_std options = Some stdv ->
  match cv_str stdv with Some std => dget std defaults = None | None => True end ->
  cpp_validate_language_options defaults options = Some options' -> options' = options.
Proof.
  intros Hs Hn V. unfold cpp_validate_language_options, cpp_apply_group in V. rewrite Hs in V.
  destruct (cv_str stdv) as [std|]; [rewrite Hn in V|];
    (destruct (dget cpp_key_ctor options); [|discriminate];
     destruct (cpp_ctor_from_string c); [|discriminate];
     match type of V with (if ?c then _ else _) = _ => destruct c end; [discriminate|];
     inversion V; reflexivity).
Qed.

(* facts about the regenerated tables (properties.yaml / docs/languages.rst) *)
Definition group_covers (g : list (list N * cv)) (keys : list (list N)) : bool :=
  forallb (fun k => dmem k g) keys.

Definition documented_groups_covered : bool :=
  forallb (fun nk => match dget (fst nk) cpp_std_groups with
                     | Some g => group_covers g (snd nk) && dnodup g
                     | None => false
                     end) cpp_documented_group_keys.

Lemma documented_groups_covered_ok : documented_groups_covered = true.
Proof. vm_compute. reflexivity. Qed.

(* with the built-in tables every shorthand validates and yields exactly its group on top of the built-in options *)
Definition builtin_defaults : list (list N * cv) := map (fun ng => (fst ng, Node (snd ng))) cpp_std_groups.

Definition shorthand_applies (name : list N) : bool :=
  match dget name cpp_std_groups,
        cpp_validate_language_options builtin_defaults (dset cpp_key_std (Leaf false (AStr name)) cpp_builtin_options) with
  | Some g, Some o =>
      forallb (fun kv => match dget (fst kv) o with Some x => cv_eqb x (snd kv) | None => false end) g
      && forallb (fun kv => dmem (fst kv) g
                            || match dget (fst kv) o with Some x => cv_eqb x (snd kv) | None => false end)
                 (dset cpp_key_std (Leaf false (AStr name)) cpp_builtin_options)
  | _, _ => false
  end.

Lemma builtin_shorthands_apply : forallb (fun ng => shorthand_applies (fst ng)) cpp_std_groups = true.
Proof. vm_compute. reflexivity. Qed.
