(* C05 proofs, part 3: storage types.  The C / C++ type with which a primitive field or constant is declared (translated
   filter_type_from_primitive, _CFit.to_c_type / to_std_int / to_c_float, configuration from properties.yaml) is the standard-width type
   the code walker assumes (Codec/Walker.v std_width, float16 and float32 stored as binary32, float64 as binary64). *)
From Coq Require Import List NArith ZArith Bool Lia.
From Verif Require Import Str Wire Walker MetaC05Base Gen_C05 MetaC05.
Import ListNotations.
Local Open Scope Z_scope.

(* "<pfx>[u]int<std_width w>_t" *)
Definition std_int_name (pfx : str) (unsigned : bool) (w : nat) : str :=
  (pfx ++ (if unsigned then [117] else []) ++ [105; 110; 116] ++ py_str_int (Z.of_nat (std_width w)) ++ [95; 116])%N.

Definition prim_pty (k : pkind) (w : nat) (cm : pcast) : pty := {| pty_kind := k; pty_bit_length := Z.of_nat w; pty_cast_mode := cm |}.
Definition int_kind (unsigned : bool) : pkind := if unsigned then KUInt else KSInt.

Definition s_float : str := [102; 108; 111; 97; 116]%N.
Definition s_double : str := [100; 111; 117; 98; 108; 101]%N.
Definition s_bool : str := [98; 111; 111; 108]%N.
Definition s_std : str := [115; 116; 100; 58; 58]%N.

Theorem c_storage_type_int : forall unsigned w cm, (1 <= w <= 64)%nat ->
  c_filter_type_from_primitive c_lang (prim_pty (int_kind unsigned) w cm) = Some (std_int_name [] unsigned w).
Proof.
  intros u w cm Hw. unfold c_filter_type_from_primitive, get_best_fit, std_int_name, std_width, prim_pty. cbn [pty_bit_length].
  destruct (Nat.leb_spec w 8); destruct (Z.leb_spec (Z.of_nat w) 8); try lia; [destruct u; reflexivity|].
  destruct (Nat.leb_spec w 16); destruct (Z.leb_spec (Z.of_nat w) 16); try lia; [destruct u; reflexivity|].
  destruct (Nat.leb_spec w 32); destruct (Z.leb_spec (Z.of_nat w) 32); try lia; [destruct u; reflexivity|].
  destruct (Z.leb_spec (Z.of_nat w) 64); try lia. destruct u; reflexivity.
Qed.

Theorem cpp_storage_type_int : forall unsigned w cm, (1 <= w <= 64)%nat ->
  cpp_filter_type_from_primitive cpp_lang (prim_pty (int_kind unsigned) w cm) = Some (std_int_name s_std unsigned w).
Proof.
  intros u w cm Hw. unfold cpp_filter_type_from_primitive, get_best_fit, std_int_name, std_width, prim_pty. cbn [pty_bit_length].
  destruct (Nat.leb_spec w 8); destruct (Z.leb_spec (Z.of_nat w) 8); try lia; [destruct u; reflexivity|].
  destruct (Nat.leb_spec w 16); destruct (Z.leb_spec (Z.of_nat w) 16); try lia; [destruct u; reflexivity|].
  destruct (Nat.leb_spec w 32); destruct (Z.leb_spec (Z.of_nat w) 32); try lia; [destruct u; reflexivity|].
  destruct (Z.leb_spec (Z.of_nat w) 64); try lia. destruct u; reflexivity.
Qed.

(* float16 and float32 are stored as `float`, float64 as `double`, in C and in C++ (no std:: prefix), and these are the named types
   float_32 / float_64 of properties.yaml; bool is the named type boolean = `bool` *)
Theorem storage_type_float : forall cm,
  c_filter_type_from_primitive c_lang (prim_pty KFloat 16 cm) = Some s_float /\
  c_filter_type_from_primitive c_lang (prim_pty KFloat 32 cm) = Some s_float /\
  c_filter_type_from_primitive c_lang (prim_pty KFloat 64 cm) = Some s_double /\
  cpp_filter_type_from_primitive cpp_lang (prim_pty KFloat 16 cm) = Some s_float /\
  cpp_filter_type_from_primitive cpp_lang (prim_pty KFloat 32 cm) = Some s_float /\
  cpp_filter_type_from_primitive cpp_lang (prim_pty KFloat 64 cm) = Some s_double /\
  c_named_float_32 = s_float /\ c_named_float_64 = s_double /\ cpp_named_float_32 = s_float /\ cpp_named_float_64 = s_double.
Proof. intro cm. repeat split; reflexivity. Qed.

Theorem storage_type_bool : forall cm,
  c_filter_type_from_primitive c_lang (prim_pty KBool 1 cm) = Some s_bool /\
  cpp_filter_type_from_primitive cpp_lang (prim_pty KBool 1 cm) = Some s_bool.
Proof. intro cm. split; reflexivity. Qed.

(* wider than 64 bits: no storage type (the filter raises) *)
Theorem storage_type_too_wide : forall k w cm, (64 < w)%nat ->
  c_filter_type_from_primitive c_lang (prim_pty k w cm) = None /\ cpp_filter_type_from_primitive cpp_lang (prim_pty k w cm) = None.
Proof.
  intros k w cm Hw. unfold c_filter_type_from_primitive, cpp_filter_type_from_primitive, get_best_fit, prim_pty. cbn [pty_bit_length].
  destruct (Z.leb_spec (Z.of_nat w) 8); [lia|]. destruct (Z.leb_spec (Z.of_nat w) 16); [lia|].
  destruct (Z.leb_spec (Z.of_nat w) 32); [lia|]. destruct (Z.leb_spec (Z.of_nat w) 64); [lia|]. split; reflexivity.
Qed.

(* the C++ twin of filter_to_standard_bit_length is the C one *)
Theorem cpp_standard_bit_length_is_c : forall t, cpp_filter_to_standard_bit_length t = filter_to_standard_bit_length t.
Proof. reflexivity. Qed.

(* is_saturated reads the cast mode of primitive types and raises for everything else *)
Theorem is_saturated_spec : forall t,
  is_saturated t = if py_isinstance t C_PrimitiveType
                   then Some (match pty_cast_mode t with CM_SATURATED => true | CM_TRUNCATED => false end) else None.
Proof. reflexivity. Qed.

(* the cast formats of properties.yaml: "(({type}) {value})" and "static_cast<{type}>({value})" *)
Theorem cast_formats_pinned :
  c_cast_format = [40; 40; 123; 116; 121; 112; 101; 125; 41; 32; 123; 118; 97; 108; 117; 101; 125; 41]%N /\
  cpp_cast_format = [115; 116; 97; 116; 105; 99; 95; 99; 97; 115; 116; 60; 123; 116; 121; 112; 101; 125; 62; 40; 123; 118; 97; 108; 117;
                     101; 125; 41]%N /\ literal_filters_delegate = true.
Proof. repeat split; reflexivity. Qed.
