(* C19: facts about the rule tables regenerated from the two live lexers (Generated/Gen_JinjaRules.v), by computation *)
From Coq Require Import String.
From Verif Require Import JinjaRules Gen_JinjaRules.
Open Scope N_scope.

(* every rule of every state of the bundled lexer, for every listed option combination, is the upstream 2.x rule, the only
   deviation being the marker alternative in the root rule *)
Lemma bundled_tables_lemma : bundled_lexer_tables = map (fun c => build bundled_gen c tag_rules_2x) lexer_combos.
Proof. vm_compute. reflexivity. Qed.

(* the delimiter rules of the stock lexer are the 3.x generation of the same formulas *)
Lemma stock_tables_lemma : map drop_tag_rules stock_lexer_tables = map (fun c => build stock_gen c []) lexer_combos.
Proof. vm_compute. reflexivity. Qed.

(* the marker switch does not reach any state other than root -- for EVERY option combination, listed or not *)
Lemma nonroot_marker_free : forall (c : combo) (tags : list rule),
    nonroot (build bundled_gen c tags) = nonroot (build upstream2x_gen c tags).
Proof. intros c tags. reflexivity. Qed.

Lemma nonroot_rules_equal_stock_lemma :
  map nonroot bundled_lexer_tables = map (fun c => nonroot (build upstream2x_gen c tag_rules_2x)) lexer_combos /\
  map (fun t => nonroot (drop_tag_rules t)) stock_lexer_tables = map (fun c => nonroot (build stock_gen c [])) lexer_combos.
Proof.
  split.
  - rewrite bundled_tables_lemma, map_map. apply map_ext. intros c. apply nonroot_marker_free.
  - rewrite <- (map_map drop_tag_rules nonroot), stock_tables_lemma, map_map. reflexivity.
Qed.

(* the listed combinations exercise every switch *)
Lemma combos_cover :
  existsb (fun c => c_lstrip c && c_trim c) lexer_combos = true /\
  existsb (fun c => c_lstrip c && negb (c_trim c)) lexer_combos = true /\
  existsb (fun c => negb (c_lstrip c) && c_trim c) lexer_combos = true /\
  existsb (fun c => negb (c_lstrip c) && negb (c_trim c)) lexer_combos = true /\
  existsb (fun c => Nat.ltb 3 (length (c_order_bundled c))) lexer_combos = true /\
  existsb (fun c => negb (str_eqb (c_bs c) (s2l "\{%"))) lexer_combos = true.
Proof. vm_compute. repeat split. Qed.
