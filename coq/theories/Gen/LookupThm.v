(* Gen/LookupThm.v -- proofs about Gen/Lookup.v (C16): the BFS of _type_to_template_internal is a scan of the inheritance
   chain, nearest-ancestor resolution, (non-)transparency of the shared memo, enumeration-order independence,
   instance tests vs. class membership.  No axioms. *)
From Verif Require Import Str Lookup.
From Coq Require Import Permutation.
Import ListNotations.
Open Scope N_scope.

Lemma memN_In x l : memN x l = true <-> In x l.
Proof.
  unfold memN. rewrite existsb_exists. split.
  - intros [y [Hy E]]. apply N.eqb_eq in E. subst. exact Hy.
  - intros H. exists x. split; [exact H | apply N.eqb_refl].
Qed.

Lemma cget_cset ch w k v k' : cget (cset ch (w, k) v) (w, k') = if k =? k' then Some v else cget ch (w, k').
Proof. unfold cset. cbn [cget]. unfold ckey_eqb. cbn [fst snd]. rewrite Bool.eqb_reflx. reflexivity. Qed.

Lemma cget_cset_other ch w w' k v k' : w' <> w -> cget (cset ch (w, k) v) (w', k') = cget ch (w', k').
Proof. intros H. unfold cset. cbn [cget]. unfold ckey_eqb. cbn [fst snd]. destruct w, w'; try (contradiction H; reflexivity); reflexivity. Qed.

Definition st0 : cache := @nil (ckey * path).

Definition Tof (o : option (cls -> option path)) : cls -> option path :=
  match o with Some T => T | None => fun _ => None end.

(* the loop of _type_to_template_internal seen on a list of classes *)
Fixpoint scan (T : cls -> option path) (w : bool) (ch : cache) (l : list cls) : cache * option path :=
  match l with
  | [] => (ch, None)
  | c :: l' => match cget ch (w, c) with
               | Some p => (ch, Some p)
               | None => match T c with Some p => (cset ch (w, c) p, Some p) | None => scan T w ch l' end
               end
  end.

Lemma nearest_app T a b : nearest T (a ++ b) = match nearest T a with Some p => Some p | None => nearest T b end.
Proof. induction a as [|x a IH]; cbn [nearest app]; [reflexivity|]. destruct (T x); [reflexivity | exact IH]. Qed.

Lemma nearest_none T l : (forall y, In y l -> T y = None) -> nearest T l = None.
Proof.
  induction l as [|x l IH]; intros H; cbn [nearest]; [reflexivity|].
  rewrite (H x (or_introl eq_refl)). apply IH. intros y Hy. apply H. right. exact Hy.
Qed.

Definition consistent (T : cls -> option path) (w : bool) (ch : cache) : Prop := forall c p, cget ch (w, c) = Some p -> T c = Some p.

Lemma consistent_nil T w : consistent T w [].
Proof. intros c p H. discriminate H. Qed.

Lemma scan_consistent T w l : forall ch ch' r,
  consistent T w ch -> scan T w ch l = (ch', r) -> r = nearest T l /\ consistent T w ch'.
Proof.
  induction l as [|c l IH]; intros ch ch' r HC H; cbn [scan nearest] in *.
  - inversion H; subst. split; [reflexivity | exact HC].
  - destruct (cget ch (w, c)) as [p|] eqn:G.
    + inversion H; subst. rewrite (HC c p G). split; [reflexivity | exact HC].
    + destruct (T c) as [p|] eqn:Tc.
      * inversion H; subst. split; [reflexivity|].
        intros k v. rewrite cget_cset. destruct (c =? k) eqn:E.
        -- apply N.eqb_eq in E. subst k. intros Hv. inversion Hv; subst. exact Tc.
        -- apply HC.
      * apply (IH ch ch' r HC H).
Qed.

(* a walk never touches the entries of the other walk *)
Lemma scan_other T w l : forall ch ch' r, scan T w ch l = (ch', r) -> forall w' k, w' <> w -> cget ch' (w', k) = cget ch (w', k).
Proof.
  induction l as [|c l IH]; intros ch ch' r H w' k Hw; cbn [scan] in H.
  - inversion H; subst. reflexivity.
  - destruct (cget ch (w, c)); [inversion H; subst; reflexivity|].
    destruct (T c); [inversion H; subst; apply cget_cset_other; exact Hw | apply (IH ch ch' r H w' k Hw)].
Qed.

Lemma scan_none T w l : forall ch ch', scan T w ch l = (ch', None) ->
  ch' = ch /\ forall y, In y l -> cget ch (w, y) = None /\ T y = None.
Proof.
  induction l as [|c l IH]; intros ch ch' H; cbn [scan] in H.
  - inversion H. split; [reflexivity | intros y []].
  - destruct (cget ch (w, c)) eqn:G; [discriminate H|]. destruct (T c) eqn:Tc; [discriminate H|].
    destruct (IH ch ch' H) as [E F]. split; [exact E|]. intros y [->|Hy]; [split; assumption | apply F; exact Hy].
Qed.

Lemma scan_some T w l : forall ch ch' p, scan T w ch l = (ch', Some p) ->
  exists pre x post, l = pre ++ x :: post /\ (forall y, In y pre -> cget ch (w, y) = None /\ T y = None) /\
    ((cget ch (w, x) = Some p /\ ch' = ch) \/ (cget ch (w, x) = None /\ T x = Some p /\ ch' = cset ch (w, x) p)).
Proof.
  induction l as [|c l IH]; intros ch ch' p H; cbn [scan] in H; [discriminate H|].
  destruct (cget ch (w, c)) as [p0|] eqn:G.
  - inversion H; subst. exists [], c, l. split; [reflexivity|]. split; [intros y []|]. left. split; [exact G | reflexivity].
  - destruct (T c) as [p0|] eqn:Tc.
    + inversion H; subst. exists [], c, l. split; [reflexivity|]. split; [intros y []|]. right. repeat split; assumption.
    + destruct (IH ch ch' p H) as [pre [x [post [E [F D]]]]].
      exists (c :: pre), x, post. split; [rewrite E; reflexivity|]. split; [|exact D].
      intros y [->|Hy]; [split; assumption | apply F; exact Hy].
Qed.

(* a scan does not depend on T beyond its values *)
Lemma bfs_ext bases T T' : (forall c, T c = T' c) -> forall w fuel q d ch, bfs bases T w fuel q d ch = bfs bases T' w fuel q d ch.
Proof.
  intros HT w. induction fuel as [|f IH]; intros q d ch; cbn [bfs]; [reflexivity|].
  destruct q as [|cur q']; [reflexivity|]. destruct (cget ch (w, cur)); [reflexivity|]. rewrite <- (HT cur).
  destruct (T cur); [reflexivity|]. destruct (push_bases cur (bases cur) q' d) as [q2 d2]. apply IH.
Qed.

Section Forest.
  Variable bases : cls -> list cls.
  Variable rank : cls -> nat.
  Hypothesis Hsingle : forall c, (length (bases c) <= 1)%nat.
  Hypothesis Hrank : forall c p, In p (bases c) -> (rank p < rank c)%nat.

  Definition chain (c : cls) : list cls := chain_n bases (rank c) c.

  Lemma chain_n_stable : forall n m c, (rank c <= n)%nat -> (rank c <= m)%nat -> chain_n bases n c = chain_n bases m c.
  Proof.
    induction n as [|n IH]; intros m c Hn Hm; destruct m as [|m]; cbn [chain_n]; try reflexivity.
    - destruct (bases c) as [|p l] eqn:B; [reflexivity|]. exfalso. pose proof (Hrank c p) as R. rewrite B in R.
      specialize (R (or_introl eq_refl)). lia.
    - destruct (bases c) as [|p l] eqn:B; [reflexivity|]. exfalso. pose proof (Hrank c p) as R. rewrite B in R.
      specialize (R (or_introl eq_refl)). lia.
    - destruct (bases c) as [|p l] eqn:B; [reflexivity|]. f_equal.
      pose proof (Hrank c p) as R. rewrite B in R. specialize (R (or_introl eq_refl)). apply IH; lia.
  Qed.

  Lemma chain_fuel fuel c : (rank c <= fuel)%nat -> chain_n bases fuel c = chain c.
  Proof. intros H. unfold chain. apply chain_n_stable; lia. Qed.

  Lemma chain_unfold c : chain c = c :: match bases c with p :: _ => chain p | [] => [] end.
  Proof.
    unfold chain at 1. destruct (rank c) as [|n] eqn:E; cbn [chain_n].
    - destruct (bases c) as [|p l] eqn:B; [reflexivity|]. exfalso. pose proof (Hrank c p) as R. rewrite B in R.
      specialize (R (or_introl eq_refl)). lia.
    - destruct (bases c) as [|p l] eqn:B; [reflexivity|]. f_equal. apply chain_fuel.
      pose proof (Hrank c p) as R. rewrite B in R. specialize (R (or_introl eq_refl)). lia.
  Qed.

  Lemma chain_suffix : forall pre c x post, chain c = pre ++ x :: post -> x :: post = chain x.
  Proof.
    induction pre as [|y pre IH]; intros c x post H; rewrite chain_unfold in H; cbn [app] in H.
    - inversion H; subst. rewrite (chain_unfold x). reflexivity.
    - inversion H as [[Hy Ht]]. destruct (bases y) as [|p l]; [destruct pre; discriminate Ht|].
      apply (IH p x post Ht).
  Qed.

  (* the BFS with queue and `discovered` set is a scan of the chain (single inheritance, acyclic) *)
  Lemma bfs_scan T w : forall fuel c disc ch,
    (rank c < fuel)%nat -> (forall d, In d disc -> (rank c < rank d)%nat) ->
    bfs bases T w fuel [c] disc ch = scan T w ch (chain c).
  Proof.
    induction fuel as [|f IH]; intros c disc ch Hf Hd; [lia|].
    cbn [bfs]. rewrite (chain_unfold c). cbn [scan].
    destruct (cget ch (w, c)); [reflexivity|]. destruct (T c); [reflexivity|].
    pose proof (Hsingle c) as S1. pose proof (Hrank c) as R.
    destruct (bases c) as [|p [|p' l]]; cbn [push_bases].
    - destruct f; reflexivity.
    - specialize (R p (or_introl eq_refl)).
      destruct (memN p disc) eqn:M.
      + apply memN_In in M. specialize (Hd p M). lia.
      + cbn [app]. apply IH; [lia|]. intros d [<-|Hd']; [lia | specialize (Hd d Hd'); lia].
    - cbn [length] in S1. lia.
  Qed.

  Section Sets.
    Notation lo := (option (cls -> option path)) (only parsing).

    Definition spec (fs pkg : lo) (c : cls) : option path := spec_lookup fs pkg (chain c).

    Definition walk (o : option (cls -> option path)) (w : bool) (ch : cache) (c : cls) : cache * option path :=
      match o with Some T => scan T w ch (chain c) | None => (ch, None) end.

    Lemma ttt_scan fs pkg q fuel ch c : (rank c < fuel)%nat ->
      type_to_template bases q fs pkg fuel ch c =
      let '(ch1, r1) := walk fs W_FS ch c in
      match r1, pkg with
      | None, Some T => scan T (if q then W_FS else W_PKG) ch1 (chain c)
      | _, _ => (ch1, r1)
      end.
    Proof.
      intros Hf. unfold type_to_template, walk.
      destruct fs as [T|].
      - rewrite (bfs_scan T W_FS fuel c [] ch Hf) by (intros d []).
        destruct (scan T W_FS ch (chain c)) as [ch1 [p|]]; [reflexivity|].
        destruct pkg as [T'|]; [|reflexivity].
        rewrite (bfs_scan T' _ fuel c []) by (try exact Hf; intros d []). reflexivity.
      - destruct pkg as [T'|]; [|reflexivity].
        rewrite (bfs_scan T' _ fuel c []) by (try exact Hf; intros d []). reflexivity.
    Qed.

    Lemma walk_consistent o w ch c ch' r : consistent (Tof o) w ch -> walk o w ch c = (ch', r) ->
      r = nearest (Tof o) (chain c) /\ consistent (Tof o) w ch'.
    Proof.
      destruct o as [T|]; cbn [walk Tof]; intros HC H.
      - apply (scan_consistent T w (chain c) ch ch' r HC H).
      - inversion H; subst. split; [|exact HC]. symmetry. apply nearest_none. reflexivity.
    Qed.

    Lemma walk_other o w ch c ch' r : walk o w ch c = (ch', r) -> forall w' k, w' <> w -> cget ch' (w', k) = cget ch (w', k).
    Proof.
      destruct o as [T|]; cbn [walk]; intros H.
      - apply (scan_other T w (chain c) ch ch' r H).
      - inversion H; subst. reflexivity.
    Qed.

    Lemma consistent_transfer T w ch ch' : (forall k, cget ch' (w, k) = cget ch (w, k)) -> consistent T w ch -> consistent T w ch'.
    Proof. intros E H c p G. rewrite E in G. apply (H c p G). Qed.

    Lemma spec_eq fs pkg c : spec fs pkg c = match nearest (Tof fs) (chain c) with Some p => Some p | None => nearest (Tof pkg) (chain c) end.
    Proof.
      unfold spec, spec_lookup. destruct fs as [T|]; cbn [Tof].
      - destruct (nearest T (chain c)); [reflexivity|]. destruct pkg; cbn [Tof]; [reflexivity|].
        symmetry. apply nearest_none. reflexivity.
      - rewrite (nearest_none (fun _ => None)) by reflexivity. destruct pkg; cbn [Tof]; [reflexivity|].
        symmetry. apply nearest_none. reflexivity.
    Qed.

    (* ---- the memo keyed by (walk, class) -- the code as it is: always transparent ------------------------------ *)
    Definition inv_sep (fs pkg : lo) (ch : cache) : Prop := consistent (Tof fs) W_FS ch /\ consistent (Tof pkg) W_PKG ch.

    Lemma W_neq : W_PKG <> W_FS.
    Proof. discriminate. Qed.
    Lemma W_neq' : W_FS <> W_PKG.
    Proof. discriminate. Qed.

    Lemma step_sep fs pkg fuel ch c ch' r : (rank c < fuel)%nat -> inv_sep fs pkg ch ->
      type_to_template bases false fs pkg fuel ch c = (ch', r) -> r = spec fs pkg c /\ inv_sep fs pkg ch'.
    Proof.
      unfold inv_sep. intros Hf [Hcf Hcp] H. rewrite (ttt_scan fs pkg false fuel ch c Hf) in H.
      rewrite spec_eq. destruct (walk fs W_FS ch c) as [ch1 r1] eqn:W.
      destruct (walk_consistent fs W_FS ch c ch1 r1 Hcf W) as [E1 C1]. rewrite <- E1.
      assert (Cp1 : consistent (Tof pkg) W_PKG ch1).
      { apply (consistent_transfer _ _ ch); [|exact Hcp]. intros k. apply (walk_other fs W_FS ch c ch1 r1 W W_PKG k W_neq). }
      destruct r1 as [p|].
      - inversion H; subst. split; [reflexivity | split; assumption].
      - destruct pkg as [T'|] eqn:Epkg.
        + cbn [Tof] in *. destruct (scan_consistent T' W_PKG (chain c) ch1 ch' r Cp1 H) as [E2 C2].
          split; [exact E2 | split; [|exact C2]].
          apply (consistent_transfer _ _ ch1); [|exact C1]. intros k. apply (scan_other T' W_PKG (chain c) ch1 ch' r H W_FS k W_neq').
        + inversion H; subst. split; [|split; assumption]. symmetry. apply nearest_none. reflexivity.
    Qed.

    (* ---- the memo keyed by class only (the code before fix 1341207; kept as documentation) ---------------------- *)
    (* an entry is either a file-system hit, or a package hit for a class none of whose ancestors has a user template *)
    Definition inv_sh (fs pkg : lo) (ch : cache) : Prop :=
      forall c p, cget ch (W_FS, c) = Some p ->
        Tof fs c = Some p \/ (Tof pkg c = Some p /\ forall a, In a (chain c) -> Tof fs a = None).

    (* the built-in set has no template for a class and for one of its proper ancestors *)
    Definition antichain (T : cls -> option path) : Prop :=
      forall c a, T c <> None -> In a (tl (chain c)) -> T a = None.

    Definition transparent_cond (fs pkg : lo) : Prop := fs = None \/ pkg = None \/ antichain (Tof pkg).

    Lemma inv_sh_nofs fs pkg ch : fs = None -> inv_sh fs pkg ch -> consistent (Tof pkg) W_FS ch.
    Proof.
      intros E H c p G. destruct (H c p G) as [F|[P _]]; [rewrite E in F; discriminate F | exact P].
    Qed.

    Lemma step_sh fs pkg fuel ch c ch' r : transparent_cond fs pkg -> (rank c < fuel)%nat -> inv_sh fs pkg ch ->
      type_to_template bases true fs pkg fuel ch c = (ch', r) -> r = spec fs pkg c /\ inv_sh fs pkg ch'.
    Proof.
      intros Hok Hf Hinv H. unfold inv_sh, transparent_cond in *. rewrite (ttt_scan fs pkg true fuel ch c Hf) in H. rewrite spec_eq.
      destruct fs as [T|] eqn:Efs.
      2:{ (* no file-system loader: only the package walk uses the memo *)
        pose proof (inv_sh_nofs None pkg ch eq_refl Hinv) as HC. cbn [walk Tof] in *.
        rewrite (nearest_none (fun _ : cls => @None path)) by reflexivity.
        destruct pkg as [T'|] eqn:Epkg; cbn [Tof] in *.
        - destruct (scan_consistent T' W_FS (chain c) ch ch' r HC H) as [E2 C2].
          split; [exact E2|]. intros k v G. right. split; [apply C2; exact G | reflexivity].
        - inversion H; subst. split; [|exact Hinv]. symmetry. apply nearest_none. reflexivity. }
      cbn [walk Tof] in *.
      destruct (scan T W_FS ch (chain c)) as [ch1 r1] eqn:W.
      destruct r1 as [p|].
      - (* the file-system walk returned something *)
        inversion H; subst.
        destruct (scan_some T W_FS (chain c) ch ch' p W) as [pre [x [post [E [F D]]]]].
        destruct D as [[G ->]|[G [Tx ->]]].
        + (* memo hit *)
          destruct (Hinv x p G) as [Tx|[Px Anc]].
          * split; [|exact Hinv].
            rewrite E, nearest_app, (nearest_none T pre) by (intros y Hy; apply F; exact Hy).
            cbn [nearest]. rewrite Tx. reflexivity.
          * (* entry written by an earlier package walk *)
            split; [|exact Hinv].
            pose proof (chain_suffix pre c x post E) as Sx.
            assert (NF : nearest T (chain c) = None).
            { apply nearest_none. intros y Hy. rewrite E in Hy. apply in_app_or in Hy. destruct Hy as [Hy|Hy].
              - apply F. exact Hy.
              - apply Anc. rewrite <- Sx. exact Hy. }
            rewrite NF.
            destruct Hok as [Hn|[Hn|Hac]]; [discriminate Hn | rewrite Hn in Px; discriminate Px |].
            rewrite E, nearest_app.
            rewrite (nearest_none (Tof pkg) pre).
            { cbn [nearest]. rewrite Px. reflexivity. }
            intros y Hy. destruct (Tof pkg y) as [py|] eqn:Py; [|reflexivity]. exfalso.
            apply in_split in Hy. destruct Hy as [pre1 [pre2 Ey]]. subst pre.
            rewrite <- app_assoc in E. cbn [app] in E.
            pose proof (chain_suffix pre1 c y (pre2 ++ x :: post) E) as Sy.
            assert (Hx : Tof pkg x = None).
            { apply (Hac y x); [rewrite Py; discriminate|]. rewrite <- Sy. cbn [tl]. apply in_or_app. right. left. reflexivity. }
            rewrite Hx in Px. discriminate Px.
        + (* template hit in the user set *)
          split.
          * rewrite E, nearest_app, (nearest_none T pre) by (intros y Hy; apply F; exact Hy).
            cbn [nearest]. rewrite Tx. reflexivity.
          * intros k v. rewrite cget_cset. destruct (x =? k) eqn:Ek.
            -- apply N.eqb_eq in Ek. subst k. intros Hv. inversion Hv; subst. left. exact Tx.
            -- apply Hinv.
      - (* the file-system walk found nothing: memo unchanged, no entry on the whole chain, no user template on it *)
        destruct (scan_none T W_FS (chain c) ch ch1 W) as [-> NoHit].
        assert (NF : nearest T (chain c) = None) by (apply nearest_none; intros y Hy; apply NoHit; exact Hy).
        rewrite NF.
        destruct pkg as [T'|] eqn:Epkg.
        + cbn [Tof] in *.
          destruct r as [p|].
          * destruct (scan_some T' W_FS (chain c) ch ch' p H) as [pre [x [post [E [F D]]]]].
            destruct D as [[G _]|[G [Tx ->]]].
            -- rewrite (proj1 (NoHit x ltac:(rewrite E; apply in_or_app; right; left; reflexivity))) in G. discriminate G.
            -- split.
               ++ rewrite E, nearest_app, (nearest_none T' pre) by (intros y Hy; apply F; exact Hy).
                  cbn [nearest]. rewrite Tx. reflexivity.
               ++ intros k v. rewrite cget_cset. destruct (x =? k) eqn:Ek.
                  ** apply N.eqb_eq in Ek. subst k. intros Hv. inversion Hv; subst. right. split; [exact Tx|].
                     intros a Ha. pose proof (chain_suffix pre c x post E) as Sx.
                     apply NoHit. rewrite E. apply in_or_app. right. rewrite Sx. exact Ha.
                  ** apply Hinv.
          * destruct (scan_none T' W_FS (chain c) ch ch' H) as [-> F]. split; [|exact Hinv].
            symmetry. apply nearest_none. intros y Hy. apply F. exact Hy.
        + inversion H; subst. cbn [Tof]. split; [|exact Hinv].
          symmetry. apply nearest_none. reflexivity.
    Qed.

    (* ---- sequences of lookups -------------------------------------------------------------------------- *)
    Lemma run_seq_sep fs pkg fuel : forall cs ch, (forall c, In c cs -> (rank c < fuel)%nat) -> inv_sep fs pkg ch ->
      run_seq bases false fs pkg fuel ch cs = map (spec fs pkg) cs.
    Proof.
      induction cs as [|c cs IH]; intros ch Hf Hinv; cbn [run_seq map]; [reflexivity|].
      destruct (type_to_template bases false fs pkg fuel ch c) as [ch' r] eqn:E.
      destruct (step_sep fs pkg fuel ch c ch' r (Hf c (or_introl eq_refl)) Hinv E) as [-> Hinv'].
      f_equal. apply IH; [|exact Hinv']. intros x Hx. apply Hf. right. exact Hx.
    Qed.

    Lemma run_seq_sh fs pkg fuel : transparent_cond fs pkg -> forall cs ch,
      (forall c, In c cs -> (rank c < fuel)%nat) -> inv_sh fs pkg ch ->
      run_seq bases true fs pkg fuel ch cs = map (spec fs pkg) cs.
    Proof.
      intros Hok. induction cs as [|c cs IH]; intros ch Hf Hinv; cbn [run_seq map]; [reflexivity|].
      destruct (type_to_template bases true fs pkg fuel ch c) as [ch' r] eqn:E.
      destruct (step_sh fs pkg fuel ch c ch' r Hok (Hf c (or_introl eq_refl)) Hinv E) as [-> Hinv'].
      f_equal. apply IH; [|exact Hinv']. intros x Hx. apply Hf. right. exact Hx.
    Qed.

    Lemma inv_sh_nil fs pkg : inv_sh fs pkg st0.
    Proof. intros c p H. discriminate H. Qed.

    Lemma inv_sep_nil fs pkg : inv_sep fs pkg st0.
    Proof. split; apply consistent_nil. Qed.

    (* a single lookup on a fresh loader: nearest ancestor, user set first -- with either key discipline *)
    Lemma cold_lookup q fs pkg fuel c : (rank c < fuel)%nat ->
      snd (type_to_template bases q fs pkg fuel st0 c) = spec fs pkg c.
    Proof.
      intros Hf. destruct q.
      - destruct (type_to_template bases true fs pkg fuel st0 c) as [ch' r] eqn:E. cbn [snd].
        rewrite (ttt_scan fs pkg true fuel st0 c Hf) in E. rewrite spec_eq.
        destruct (walk fs W_FS st0 c) as [ch1 r1] eqn:W.
        destruct (walk_consistent fs W_FS st0 c ch1 r1 (consistent_nil _ _) W) as [E1 C1]. rewrite <- E1.
        destruct r1 as [p|]; [inversion E; reflexivity|].
        assert (ch1 = st0) as ->.
        { destruct fs as [T|]; cbn [walk] in W; [apply (scan_none T W_FS (chain c) st0 ch1 W) | inversion W; reflexivity]. }
        destruct pkg as [T'|]; cbn [Tof].
        + apply (scan_consistent T' W_FS (chain c) st0 ch' r (consistent_nil _ _) E).
        + inversion E. symmetry. apply nearest_none. reflexivity.
      - destruct (type_to_template bases false fs pkg fuel st0 c) as [ch' r] eqn:E.
        apply (step_sep fs pkg fuel st0 c ch' r Hf (inv_sep_nil fs pkg) E).
    Qed.
  End Sets.
End Forest.

(* ---- the shared memo is NOT transparent in general: concrete forest 1 -> 0 <- 2, built-in templates for 0 and 1 -------- *)
Definition w_bases (c : cls) : list cls := if c =? 1 then [0] else if c =? 2 then [0] else [].
Definition w_rank (c : cls) : nat := if c =? 1 then 1%nat else if c =? 2 then 1%nat else 0%nat.
Definition w_pkg (c : cls) : option path := if c =? 0 then Some [73] else if c =? 1 then Some [85] else None.

Lemma w_single c : (length (w_bases c) <= 1)%nat.
Proof. unfold w_bases. destruct (c =? 1); [cbn; lia|]. destruct (c =? 2); cbn; lia. Qed.

Lemma w_rank_ok c p : In p (w_bases c) -> (w_rank p < w_rank c)%nat.
Proof.
  unfold w_bases, w_rank. destruct (c =? 1) eqn:E1.
  - intros [<-|[]]. cbn. lia.
  - destruct (c =? 2) eqn:E2; [intros [<-|[]]; cbn; lia | intros []].
Qed.

Lemma shared_memo_refuted :
  run_seq w_bases true (Some (fun _ => None)) (Some w_pkg) 3 st0 [2; 1]
  <> map (fun c => spec_lookup (Some (fun _ => None)) (Some w_pkg) (chain_n w_bases (w_rank c) c)) [2; 1].
Proof. vm_compute. discriminate. Qed.

(* ---- enumeration order ------------------------------------------------------------------------------------------ *)
Lemma aget_In_nodup {A} (l : list (str * A)) : NoDup (map fst l) -> forall n v, (aget l n = Some v <-> In (n, v) l).
Proof.
  induction l as [|[k w] l IH]; intros ND n v; cbn [aget].
  - split; [discriminate | intros []].
  - cbn [map fst] in ND. inversion ND as [|? ? Hk ND']; subst. specialize (IH ND'). split.
    + destruct (aget l n) as [x|] eqn:G.
      * intros Hx. inversion Hx; subst. right. apply IH. exact G.
      * destruct (str_eqb_spec k n) as [->|]; [|discriminate]. intros Hx. inversion Hx; subst. left. reflexivity.
    + intros [Hx|Hx].
      * inversion Hx; subst. destruct (aget l n) as [x|] eqn:G.
        -- exfalso. apply Hk. apply in_map_iff. exists (n, x). split; [reflexivity | apply IH; exact G].
        -- rewrite str_eqb_refl. reflexivity.
      * rewrite (proj2 (IH n v) Hx). reflexivity.
Qed.

Lemma aget_perm {A} (l l' : list (str * A)) n : NoDup (map fst l) -> Permutation l l' -> aget l n = aget l' n.
Proof.
  intros ND P. assert (ND' : NoDup (map fst l')) by (apply (Permutation_NoDup (Permutation_map fst P) ND)).
  destruct (aget l n) as [v|] eqn:G.
  - symmetry. apply (aget_In_nodup l' ND' n v). apply (Permutation_in _ P). apply (aget_In_nodup l ND n v). exact G.
  - destruct (aget l' n) as [v|] eqn:G'; [|reflexivity]. exfalso.
    apply (aget_In_nodup l' ND' n v) in G'. apply (Permutation_in _ (Permutation_sym P)) in G'.
    apply (aget_In_nodup l ND n v) in G'. rewrite G in G'. discriminate G'.
Qed.

Definition oeq (a b : option (cls -> option path)) : Prop :=
  match a, b with Some f, Some g => forall c, f c = g c | None, None => True | _, _ => False end.

Lemma ttt_ext bases q fs fs' pkg pkg' fuel st c : oeq fs fs' -> oeq pkg pkg' ->
  type_to_template bases q fs pkg fuel st c = type_to_template bases q fs' pkg' fuel st c.
Proof.
  intros Hf Hp. unfold type_to_template.
  destruct fs as [f|], fs' as [f'|]; cbn [oeq] in Hf; try contradiction.
  - rewrite (bfs_ext bases f f' Hf). destruct (bfs bases f' W_FS fuel [c] [] st) as [ch1 [p|]]; [reflexivity|].
    destruct pkg as [g|], pkg' as [g'|]; cbn [oeq] in Hp; try contradiction; [|reflexivity].
    rewrite (bfs_ext bases g g' Hp). reflexivity.
  - destruct pkg as [g|], pkg' as [g'|]; cbn [oeq] in Hp; try contradiction; [|reflexivity].
    rewrite (bfs_ext bases g g' Hp). reflexivity.
Qed.

Lemma run_seq_ext bases q fs fs' pkg pkg' fuel : oeq fs fs' -> oeq pkg pkg' -> forall cs st,
  run_seq bases q fs pkg fuel st cs = run_seq bases q fs' pkg' fuel st cs.
Proof.
  intros Hf Hp. induction cs as [|c cs IH]; intros st; cbn [run_seq]; [reflexivity|].
  rewrite (ttt_ext bases q fs fs' pkg pkg' fuel st c Hf Hp).
  destruct (type_to_template bases q fs' pkg' fuel st c) as [st' r]. f_equal. apply IH.
Qed.

(* two listings of the same directory: same entries in any order (stems unique) *)
Definition operm (a b : option (list (str * path))) : Prop :=
  match a, b with Some l, Some l' => NoDup (map fst l) /\ Permutation l l' | None, None => True | _, _ => False end.

Lemma operm_oeq cname a b : operm a b -> oeq (option_map (tmap cname) a) (option_map (tmap cname) b).
Proof.
  destruct a as [l|], b as [l'|]; cbn [operm oeq option_map]; try (intros []; fail); try contradiction; [|exact (fun x => x)].
  intros [ND P] c. unfold tmap. apply aget_perm; assumption.
Qed.

Lemma enum_order_indep_lemma bases q cname fuel d d' p p' st cs : operm d d' -> operm p p' ->
  run_seq bases q (option_map (tmap cname) d) (option_map (tmap cname) p) fuel st cs =
  run_seq bases q (option_map (tmap cname) d') (option_map (tmap cname) p') fuel st cs.
Proof. intros Hd Hp. apply run_seq_ext; apply operm_oeq; assumption. Qed.

(* ---- get_source over the ordered roots ------------------------------------------------------------------------------ *)
Lemma has_file_In l n : has_file l n = true <-> In n l.
Proof.
  unfold has_file. rewrite existsb_exists. split.
  - intros [x [Hx E]]. destruct (str_eqb_spec x n) as [->|]; [exact Hx | discriminate E].
  - intros H. exists n. split; [exact H | apply str_eqb_refl].
Qed.

(* first_root returns the FIRST search path that holds the name *)
Lemma first_root_spec name : forall rs k i, first_root rs name k = Some i ->
  exists j r, i = (k + j)%nat /\ nth_error rs j = Some r /\ has_file r name = true /\
              forall j' r', (j' < j)%nat -> nth_error rs j' = Some r' -> has_file r' name = false.
Proof.
  induction rs as [|r rs IH]; intros k i H; cbn [first_root] in H; [discriminate H|].
  destruct (has_file r name) eqn:E.
  - inversion H; subst. exists 0%nat, r. repeat split; [lia | exact E | intros j' r' Hlt; lia].
  - destruct (IH (S k) i H) as [j [r0 [Ei [Hn [Hf Hmin]]]]]. exists (S j), r0. repeat split; [lia | exact Hn | exact Hf |].
    intros [|j'] r' Hlt Hn'; cbn [nth_error] in Hn'; [inversion Hn'; subst; exact E | apply (Hmin j' r'); [lia | exact Hn']].
Qed.

Lemma first_root_none name : forall rs k, first_root rs name k = None <-> forall r, In r rs -> has_file r name = false.
Proof.
  induction rs as [|r rs IH]; intros k; cbn [first_root]; [split; [intros _ r [] | reflexivity]|].
  destruct (has_file r name) eqn:E.
  - split; [discriminate|]. intros H. rewrite (H r (or_introl eq_refl)) in E. discriminate E.
  - rewrite IH. split; [intros H r' [<-|Hr]; [exact E | apply H, Hr] | intros H r' Hr; apply H; right; exact Hr].
Qed.

Lemma get_source_user_first rs pkg name i : first_root rs name 0 = Some i -> get_source (Some rs) pkg name = Some (OUserDir i).
Proof. intros H. unfold get_source. rewrite H. reflexivity. Qed.

Lemma get_source_fallback rs pkg name : first_root rs name 0 = None -> has_file pkg name = true ->
  get_source (Some rs) (Some pkg) name = Some OPkg.
Proof. intros H1 H2. unfold get_source, pkg_source. rewrite H1, H2. reflexivity. Qed.

(* ---- the other reading of "nearest class for which a template exists": in ANY of the two sets ---------------------------- *)
Lemma nearest_some_in T : forall l p, nearest T l = Some p -> exists k, In k l /\ T k = Some p.
Proof.
  induction l as [|c l IH]; intros p H; cbn [nearest] in H; [discriminate H|].
  destruct (T c) as [q|] eqn:E.
  - inversion H; subst. exists c. split; [left; reflexivity | exact E].
  - destruct (IH p H) as [k [Hk Tk]]. exists k. split; [right; exact Hk | exact Tk].
Qed.

Lemma shadow_free_nearest Tf Tp : forall l, shadow_freeb Tf Tp l = true ->
  nearest_any Tf Tp l = match nearest Tf l with Some p => Some p | None => nearest Tp l end.
Proof.
  induction l as [|c l IH]; intros H; cbn [shadow_freeb nearest_any nearest] in *; [reflexivity|].
  destruct (Tf c) as [p|]; [reflexivity|]. destruct (Tp c) as [p|].
  - destruct (nearest Tf l); [discriminate H | reflexivity].
  - apply IH. exact H.
Qed.

(* user template for the root class 0, built-in templates for 0 and 1: class 1 gets the USER template of its ancestor although a
   built-in template named after class 1 itself exists *)
Definition w_user (c : cls) : option path := if c =? 0 then Some [65] else None.
Lemma user_general_shadows_specific_builtin :
  snd (type_to_template w_bases false (Some w_user) (Some w_pkg) 3 st0 1) <> nearest_any w_user w_pkg (chain_n w_bases (w_rank 1) 1)
  /\ shadow_freeb w_user w_pkg (chain_n w_bases (w_rank 1) 1) = false.
Proof. split; vm_compute; [discriminate | reflexivity]. Qed.

(* ---- instance tests ------------------------------------------------------------------------------------------- *)
Lemma test_agrees_conformant bases fuel attr root v :
  field_is_instance bases false fuel attr root v = spec_test bases fuel attr root v.
Proof. unfold field_is_instance, spec_test. destruct (isinst bases fuel (v_cls v) attr); cbn [andb]; [reflexivity | rewrite orb_false_r; reflexivity]. Qed.

Lemma test_agrees_partial_lemma bases fuel attr root v :
  isinst bases fuel (v_cls v) attr && isinst bases fuel (v_cls v) root = false ->
  field_is_instance bases true fuel attr root v = spec_test bases fuel attr root v.
Proof.
  unfold field_is_instance, spec_test. destruct (isinst bases fuel (v_cls v) attr); cbn [andb].
  - intros ->. reflexivity.
  - intros _. rewrite orb_false_r. reflexivity.
Qed.

Lemma test_agrees_refuted_lemma :
  field_is_instance w_bases true 3 0 1 {| v_cls := 1; v_dt := 5 |} <> spec_test w_bases 3 0 1 {| v_cls := 1; v_dt := 5 |}.
Proof. vm_compute. discriminate. Qed.

(* ---- listing -> index: only a file whose NAME is exactly <stem><suffix> is indexed under <stem> ------------------------ *)
Lemma rsplit_dot_app : forall s a b, rsplit_dot s = Some (a, b) -> s = a ++ b.
Proof.
  induction s as [|c s IH]; intros a b H; cbn [rsplit_dot] in H; [discriminate H|].
  destruct (rsplit_dot s) as [[a' b']|] eqn:R.
  - inversion H; subst. cbn [app]. f_equal. apply IH. reflexivity.
  - destruct (c =? 46); [|discriminate H]. inversion H; subst. reflexivity.
Qed.

Lemma py_suffix_stem n : py_suffix n <> [] -> n = py_stem n ++ py_suffix n.
Proof.
  unfold py_suffix, py_stem. destruct (rsplit_dot n) as [[a b]|] eqn:R; [|intros H; contradiction H; reflexivity].
  destruct (dot_ok a b); [|intros H; contradiction H; reflexivity]. intros _. apply rsplit_dot_app. exact R.
Qed.

Lemma aget_In {A} (l : list (str * A)) n v : aget l n = Some v -> In (n, v) l.
Proof.
  induction l as [|[k w] l IH]; cbn [aget]; [discriminate|].
  destruct (aget l n) as [x|] eqn:G.
  - intros H. inversion H; subst. right. apply IH. reflexivity.
  - destruct (str_eqb_spec k n) as [->|]; [|discriminate]. intros H. inversion H; subst. left. reflexivity.
Qed.

Lemma mk_tset_exact top suffix listing k p : suffix <> [] -> aget (mk_tset top suffix listing) k = Some p ->
  In p listing /\ basename p = k ++ suffix.
Proof.
  intros Hs H. apply aget_In in H. unfold mk_tset in H. apply in_map_iff in H. destruct H as [x [E Hx]].
  inversion E; subst. apply filter_In in Hx. destruct Hx as [Hin Hf]. split; [exact Hin|].
  apply andb_prop in Hf. destruct Hf as [Hf _].
  destruct (str_eqb_spec (py_suffix (basename p)) suffix) as [Es|]; [|discriminate Hf].
  rewrite <- Es. apply py_suffix_stem. rewrite Es. exact Hs.
Qed.

(* with the top-level-only index every entry is a bare file name *)
Lemma mk_tset_top suffix listing k p : aget (mk_tset true suffix listing) k = Some p -> basename p = p.
Proof.
  intros H. apply aget_In in H. unfold mk_tset in H. apply in_map_iff in H. destruct H as [x [E Hx]].
  inversion E; subst. apply filter_In in Hx. destruct Hx as [_ Hf]. apply andb_prop in Hf. destruct Hf as [_ Hf].
  cbn [negb orb] in Hf. destruct (str_eqb_spec (basename p) p) as [Eb|]; [exact Eb | discriminate Hf].
Qed.
