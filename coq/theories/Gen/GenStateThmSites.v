(* Theorems over the regenerated inventory of memoisation / mutable-state sites (C10), and the lemma that says why the
   admissible kinds are harmless: a memo whose key determines what the function reads is transparent; one whose key is
   coarser is not. *)
From Verif Require Import GenState GenStateThm GenStateSites Gen_Sites.
Open Scope N_scope.

(* a memo table looked up through a projection of the call's arguments (what @lru_cache does when an argument's
   __eq__/__hash__ see less than the function reads, or when `self` is not part of the key) *)
Definition proj_call (proj : ckey -> ckey) (f : ckey -> str) (maxsize : option nat) (c : cache) (k : ckey) : cache * str :=
  match cache_get c (proj k) with
  | Some v => ((proj k, v) :: cache_remove c (proj k), v)
  | None => let v := f k in (cache_trim maxsize ((proj k, v) :: c), v)
  end.

(* if the function only reads what the key keeps, the table is transparent ... *)
Theorem proj_cache_transparent (proj : ckey -> ckey) (g : ckey -> str) maxsize c k :
  cache_ok g c ->
  snd (proj_call proj (fun k => g (proj k)) maxsize c k) = g (proj k) /\
  cache_ok g (fst (proj_call proj (fun k => g (proj k)) maxsize c k)).
Proof.
  intros Hc. exact (lru_call_transparent g maxsize c (proj k) Hc).
Qed.

(* ... and if it reads more, it is not: the second call returns the value computed for the first *)
Theorem coarse_key_refuted_lemma :
  exists (proj : ckey -> ckey) (f : ckey -> str) (k1 k2 : ckey),
    let c1 := fst (proj_call proj f None [] k1) in
    snd (proj_call proj f None c1 k2) = f k1 /\ f k1 <> f k2.
Proof.
  exists (fun k => (fst k, [])), (fun k => snd k), (1, [65]), (1, [66]). vm_compute. split; [reflexivity|discriminate].
Qed.

(* every site of the regenerated table is of an admissible kind, or is a listed finding *)
Theorem all_sites_admissible_lemma : forallb (fun s => site_ok s || is_known_inadmissible s) g_sites = true.
Proof. vm_compute. reflexivity. Qed.

(* every site of the regenerated table has been reviewed (committed inventory) *)
Theorem sites_in_inventory_lemma : forallb in_inventory g_sites = true.
Proof. vm_compute. reflexivity. Qed.

(* every unique-name filter is evaluated at render time (volatile/context), except the listed C++ one *)
Theorem uniq_filters_lemma :
  forallb (fun f => filter_ok f || str_in (f_lang f) known_foldable_langs) g_uniq_filters = true.
Proof. vm_compute. reflexivity. Qed.
