(* Theorems over the regenerated inventory of memoisation / mutable-state sites (C10), and the lemma that says why the
   admissible kinds are harmless: a memo whose key determines what the function reads is transparent; one whose key is
   coarser is not. *)
From Verif Require Import GenState GenStateThm GenStateSites Gen_Sites Gen_Uniq.
Open Scope N_scope.

(* if the function only reads what the key keeps, the table is transparent ... *)
Theorem proj_cache_transparent (proj : ckey -> ckey) (g : ckey -> str) maxsize c k :
  cache_ok g c ->
  snd (proj_call proj (fun k => g (proj k)) maxsize c k) = g (proj k) /\
  cache_ok g (fst (proj_call proj (fun k => g (proj k)) maxsize c k)).
Proof.
  intros Hc. exact (lru_call_transparent g maxsize c (proj k) Hc).
Qed.

(* ... and if it reads more, it is not: the second call returns the value computed for the first *)
Theorem coarse_key_refuted_lemma :
  exists (proj : ckey -> ckey) (f : ckey -> str) (k1 k2 : ckey),
    let c1 := fst (proj_call proj f None [] k1) in
    snd (proj_call proj f None c1 k2) = f k1 /\ f k1 <> f k2.
Proof.
  exists (fun k => (fst k, [])), (fun k => snd k), (1, [65]), (1, [66]). vm_compute. split; [reflexivity|discriminate].
Qed.

(* every site of the regenerated table is of an admissible kind, or is a listed finding *)
Theorem all_sites_admissible_lemma : forallb (fun s => site_ok s || is_known_inadmissible s) g_sites = true.
Proof. vm_compute. reflexivity. Qed.

(* every site of the regenerated table has been reviewed (committed inventory) *)
Theorem sites_in_inventory_lemma : forallb in_inventory g_sites = true.
Proof. vm_compute. reflexivity. Qed.

(* every unique-name filter is evaluated at render time (volatile/context), except the listed C++ one *)
Theorem uniq_filters_lemma :
  forallb filter_ok g_uniq_filters = true.
Proof. vm_compute. reflexivity. Qed.

(* every store on a long-lived object in the render phase is classified (reset per file -- with the translated reset facts --,
   overwritten per generate_all call, memo of a pure function, or reviewed setup code); a new store breaks this *)
Definition reset_facts : bool := generate_code_resets_uniq && generate_code_resets_line_pps.

Theorem stores_classified_lemma : forallb (store_ok reset_facts) g_stores = true.
Proof. vm_compute. reflexivity. Qed.

Theorem sites_admissible_strict_lemma : forallb site_ok g_sites = true.
Proof. vm_compute. reflexivity. Qed.

(* non-vacuity of the premise: with an inadmissible site in the table the model's memo returns a stale value ... *)
Example inadmissible_site_is_observable :
  let bad := {| s_file := []; s_name := []; s_kind := KModuleGlobal; s_params := []; s_flag := false; s_key := [];
                s_value_mutable := false; s_value_mutated := false |} in
  let c1 := fst (proj_call (memo_proj [bad] 0) snd None [] (1, [65])) in
  snd (proj_call (memo_proj [bad] 0) snd None c1 (1, [66])) = [65].
Proof. vm_compute. reflexivity. Qed.

(* ... and with an unclassified render-phase store PPeek sees what earlier files left *)
Example unclassified_store_leaks :
  let bad := {| st_file := []; st_fn := []; st_target := [120]; st_root := RSelf; st_phase := SRender |} in
  stores_leak true [bad] = true /\ stores_leak true g_stores = false.
Proof. vm_compute. split; reflexivity. Qed.

(* every module/class-level object is a constant table nobody writes or keeps, or has been reviewed; a module-level instance of a
   class (e.g. a process-wide cache handed to the template engine) is neither *)
Theorem modobjs_ok_lemma : forallb modobj_ok g_modobjs = true.
Proof. vm_compute. reflexivity. Qed.

(* the template engine is constructed with per-environment values only *)
Theorem env_kwargs_ok_lemma : forallb envkw_ok g_env_kwargs = true /\ (0 < length g_env_kwargs)%nat.
Proof. vm_compute. split; [reflexivity | repeat constructor]. Qed.

Theorem lexer_key_complete_lemma : lexer_key_complete g_lexer_key g_lexer_reads = true.
Proof. vm_compute. reflexivity. Qed.

(* every read that spans more than a type and its closure -- Namespace API, generator namespace, environment globals, language
   context, include/dependency builders -- in render-phase Python code and in templates a type file can be made of is accounted
   for; templates reachable only from Namespace.j2 may list their namespace's types *)
Theorem wide_reads_classified_lemma : forallb read_ok g_wide_reads = true.
Proof. vm_compute. reflexivity. Qed.

Example unclassified_read_shows_the_input_set :
  let bad := {| w_file := [120]; w_where := [121]; w_name := [122]; w_kind := WTemplateType |} in
  reads_leak [bad] = true /\ reads_leak g_wide_reads = false.
Proof. vm_compute. split; reflexivity. Qed.

(* no stale exception: every hand-written classification / review row still matches something the scanners find *)
Theorem no_stale_rows_lemma :
  forallb (store_class_used g_stores) store_classes = true /\ forallb (read_class_used g_wide_reads) read_classes = true /\
  forallb (modobj_review_used g_modobjs) modobj_reviewed = true.
Proof. vm_compute. repeat split; reflexivity. Qed.

Theorem fn_digests_reviewed_lemma : forallb digest_reviewed g_fn_digests = true.
Proof. vm_compute. reflexivity. Qed.

Theorem builtin_templates_stateless_lemma : tpl_toplevel_immutable g_tpl_toplevel = true.
Proof. vm_compute. reflexivity. Qed.

