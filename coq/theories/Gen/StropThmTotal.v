(* C09 -- TOTALITY: for a configuration that passes the computed side conditions below, TokenEncoder.strop returns a
   token (never raises) for EVERY non-empty string and every identifier type other than `all` -- in particular for every
   DSDL identifier [A-Za-z_][A-Za-z0-9_]*, reserved or not.  The model has no fuel or engine limit that could make it
   fail: `strop` only yields ErrRuntime where the code raises RuntimeError (a dry-run check fails and the handler is
   absent or declines), so the proof shows that each of those situations cannot arise:
     - dry-run pattern / keyword check fails only on a token that was stropped (starts with the prefix `_`), where the C/C++
       handler is defined, and whatever a handler returns (handler-shaped token) passes all three checks;
     - without handlers (py) there are no patterns, the keyword stage cannot produce a reserved word (no w and wrap w both
       reserved) and no encoding rule can match at the start of an identifier-alphabet token;
     - the final re-verification repeats checks that have passed. *)
From Verif Require Import Strop StropThmRe StropThmEnc StropThm StropThmId.
Open Scope N_scope.

Definition und_start (t : str) : bool := match t with c :: _ => c =? 95 | [] => false end.
Definition lead_dunder (t : str) : bool := match t with a :: b :: _ => (a =? 95) && (b =? 95) | _ => false end.

Lemma handler_und_some t : und_start t = true -> exists h, handler_und t = Some h.
Proof. destruct t as [|c t]; [discriminate|]. cbn [und_start handler_und]. intros ->. eexists; reflexivity. Qed.

(* the first-character checks are notations (see the remark in StropThmId.v) *)
Notation rule_head_ok u nd heads r := (forallb (fun c1 => rch_none u true c1 (C2of nd c1) r) heads).
Notation rules_head_ok u nd heads cfg := (forallb (fun e => forallb (fun r => rule_head_ok u nd heads r) (snd e)) (sc_rules cfg)).
Notation rules_hshape_ok u cfg := (forallb (fun e => forallb (rch_none u true 95 hs_second) (snd e)) (sc_rules cfg)).

Section Total.
  Variable u : uni.
  Variable sp : ranges.
  Variable cfg : strop_cfg.
  Variable nd : bool.     (* may an encoding rule match at the start of a token that begins with `__`? *)

  Local Notation R := (sc_reserved cfg).

  Definition heads : list chr := if rules_digit_guard u cfg then ident_nodigit else ident_list.
  Definition no_patterns : bool := forallb (fun e => match snd e with [] => true | _ => false end) (sc_patterns cfg).
  Definition is_und (h : handler) : bool := match h with HUnd => true | HNone => false end.

  Definition chk_wrap_unreserved : bool := forallb (fun w => negb (str_in (wrap cfg w) R)) R.
  Definition chk_strop_handler : bool := no_patterns || (is_und (sc_strop_handler cfg) && und_start (sc_prefix cfg)).
  Definition chk_enc_handler : bool := negb nd || is_und (sc_enc_handler cfg).
  Definition any_handler : bool := is_und (sc_strop_handler cfg) || is_und (sc_enc_handler cfg).

  Hypothesis Hsound : chk_sound u cfg = true.
  Hypothesis Hwrap : chk_wrap_unreserved = true.
  Hypothesis Hsh : chk_strop_handler = true.
  Hypothesis Heh : chk_enc_handler = true.
  Hypothesis Hnofull : sc_full_check cfg = false.   (* trees with the whole-token loop: StropThmInst, via strop_no_full *)
  Hypothesis Hhead : rules_head_ok u nd heads cfg = true.
  Hypothesis Hhf : any_handler = true -> chk_handler u cfg = true /\ rules_hshape_ok u cfg = true.

  (* ---- dry-run checks as booleans ---- *)
  Definition ok_pat (tyl x : str) : bool := dry_ok (do_for_type_and_all (strop_by_pattern u cfg) x tyl true).
  Definition ok_kw (tyl x : str) : bool := dry_ok (do_for_type_and_all (strop_by_keyword cfg) x tyl true).
  Definition ok_enc (tyl x : str) : bool := dry_ok (do_for_type_and_all (encode u sp cfg) x tyl true).

  Lemma checked_ok (d : tres) h x : dry_ok d = true -> checked d h x = Ok x.
  Proof. destruct d; cbn; congruence. Qed.

  Lemma checked_fail (d : tres) x : dry_ok d = false -> und_start x = true ->
    exists y, checked d HUnd x = Ok y /\ handler_und x = Some y.
  Proof.
    destruct d; cbn [dry_ok]; try discriminate. intros _ Hx. destruct (handler_und_some x Hx) as (y & Hy).
    exists y; split; [|exact Hy]. cbn [checked run_handler]. rewrite Hy. reflexivity.
  Qed.

  Lemma ok_pat_of_hit tyl x : str_eqb tyl ty_all = false -> pat_hit u cfg tyl x = false -> ok_pat tyl x = true.
  Proof.
    intros Hty. unfold ok_pat, pat_hit, pats_of, do_for_type_and_all, strop_by_pattern. rewrite Hty.
    destruct (lookup (sc_patterns cfg) ty_all) as [psa|]; [destruct (matches_pats u x psa)|]; cbn [orb]; try discriminate;
      (destruct (lookup (sc_patterns cfg) tyl) as [pst|]; [destruct (matches_pats u x pst)|]; cbn; congruence).
  Qed.

  Lemma ok_kw_of_in tyl x : str_eqb tyl ty_all = false -> str_in x R = false -> ok_kw tyl x = true.
  Proof.
    intros Hty H. unfold ok_kw, do_for_type_and_all, strop_by_keyword. rewrite H, Hty, H. reflexivity.
  Qed.

  (* ---- the encoding dry-run on an identifier-alphabet token ---- *)
  Lemma C2of_tail c1 tl : all_ident tl = true -> (nd = true -> lead_dunder (c1 :: tl) = false) ->
    tl = [] \/ exists c2 tl', tl = c2 :: tl' /\ In c2 (C2of nd c1).
  Proof.
    intros Htl Hd. destruct tl as [|c2 tl']; [left; reflexivity|right]. exists c2, tl'; split; [reflexivity|].
    unfold all_ident in Htl. cbn [forallb] in Htl. apply andb_prop in Htl as [Hc2 _]. unfold C2of.
    destruct (nd && (c1 =? 95)) eqn:E; [|apply ident_list_in; exact Hc2].
    apply andb_prop in E as [En E1]. specialize (Hd En). cbn [lead_dunder] in Hd. rewrite E1 in Hd. cbn [andb] in Hd.
    apply ident_nound_in; assumption.
  Qed.

  Lemma rules_no_head_match t : all_ident t = true -> t <> [] -> (rules_digit_guard u cfg = true -> hd_ok t = true) ->
    (nd = true -> lead_dunder t = false) ->
    forall k rs r, lookup (sc_rules cfg) k = Some rs -> In r rs -> re_matches u r t = false.
  Proof.
    intros Hi Hne Hh Hd k rs r L Hin. destruct t as [|c1 tl]; [congruence|].
    unfold all_ident in Hi. cbn [forallb] in Hi. apply andb_prop in Hi as [Hc1 Htl].
    apply lookup_in in L as (k' & Hk'). pose proof Hhead as H. rewrite forallb_forall in H. specialize (H _ Hk').
    cbn [snd] in H. rewrite forallb_forall in H. specialize (H r Hin). rewrite forallb_forall in H.
    assert (Hc : In c1 heads).
    { unfold heads. destruct (rules_digit_guard u cfg) eqn:G; [|apply ident_list_in; exact Hc1].
      apply ident_nodigit_in; [exact Hc1|]. specialize (Hh eq_refl). cbn [hd_ok] in Hh. apply negb_true_iff in Hh; exact Hh. }
    specialize (H c1 Hc). unfold re_matches, re_match.
    rewrite (rch_none_sound u true c1 (C2of nd c1) tl (C2of_tail c1 tl Htl Hd) r _ H). reflexivity.
  Qed.

  Lemma encode_rules_dry rs t : (forall r, In r rs -> re_matches u r t = false) -> encode_rules u sp cfg rs true t = TOk t.
  Proof.
    induction rs as [|r rs IH]; intros H; cbn [encode_rules]; [reflexivity|].
    rewrite (H r (or_introl eq_refl)). apply IH. intros r' Hr'; apply H; right; exact Hr'.
  Qed.

  Lemma ok_enc_of_nomatch tyl t :
    (forall k rs r, lookup (sc_rules cfg) k = Some rs -> In r rs -> re_matches u r t = false) -> ok_enc tyl t = true.
  Proof.
    intros H. unfold ok_enc, do_for_type_and_all, encode.
    assert (E : forall k, match lookup (sc_rules cfg) k with Some rules => encode_rules u sp cfg rules true t | None => TOk t end = TOk t).
    { intros k. destruct (lookup (sc_rules cfg) k) as [rs|] eqn:L; [|reflexivity]. apply encode_rules_dry. intros r Hr; eapply H; eassumption. }
    rewrite E. destruct (str_eqb tyl ty_all); [reflexivity|]. rewrite E. reflexivity.
  Qed.

  Lemma ok_enc_ident tyl t : all_ident t = true -> t <> [] -> (rules_digit_guard u cfg = true -> hd_ok t = true) ->
    (nd = true -> lead_dunder t = false) -> ok_enc tyl t = true.
  Proof. intros; apply ok_enc_of_nomatch. apply rules_no_head_match; assumption. Qed.

  (* ---- handler-shaped tokens pass all three checks ---- *)
  Lemma any_handler_some : any_handler = true -> some_handler cfg.
  Proof.
    unfold any_handler, some_handler, is_und. destruct (sc_strop_handler cfg), (sc_enc_handler cfg); cbn; intros H;
      try discriminate; (left; discriminate) || (right; discriminate).
  Qed.

  Lemma hshape_good tyl t : str_eqb tyl ty_all = false -> any_handler = true -> hshape t = true -> all_ident t = true ->
    ok_pat tyl t = true /\ ok_kw tyl t = true /\ ok_enc tyl t = true.
  Proof.
    intros Hty Ha Hs Hi. destruct (Hhf Ha) as [Hch Hrs]. pose proof (any_handler_some Ha) as Hsome. split; [|split].
    - apply ok_pat_of_hit; [exact Hty|]. unfold pat_hit. rewrite !(hshape_no_pattern u cfg t) by assumption. reflexivity.
    - apply ok_kw_of_in; [exact Hty|]. apply (hshape_not_reserved u cfg); assumption.
    - apply ok_enc_of_nomatch. intros k rs r L Hin. apply lookup_in in L as (k' & Hk').
      rewrite forallb_forall in Hrs. specialize (Hrs _ Hk'). cbn [snd] in Hrs. rewrite forallb_forall in Hrs.
      destruct (hshape_tail t Hs Hi) as (tl & -> & Htl). unfold re_matches, re_match.
      rewrite (rch_none_sound u true 95 hs_second tl Htl r _ (Hrs r Hin)). reflexivity.
  Qed.

  (* ---- exact shape of what the keyword and pattern stages produce ---- *)
  Lemma kw_stage_unreserved e tyl : str_eqb tyl ty_all = false ->
    exists k, do_for_type_and_all (strop_by_keyword cfg) e tyl false = TOk k /\ str_in k R = false
              /\ (k = e \/ k = wrap cfg e).
  Proof.
    intros Hty. unfold do_for_type_and_all, strop_by_keyword. rewrite Hty.
    assert (W : forall w, str_in w R = true -> str_in (wrap cfg w) R = false).
    { intros w Hw. apply str_in_spec in Hw. pose proof Hwrap as H. unfold chk_wrap_unreserved in H.
      rewrite forallb_forall in H. specialize (H w Hw). apply negb_true_iff in H; exact H. }
    destruct (str_in e R) eqn:E.
    - rewrite (W e E). exists (wrap cfg e); auto.
    - rewrite E. exists e; auto.
  Qed.

  Lemma no_patterns_lookup ty ps : no_patterns = true -> lookup (sc_patterns cfg) ty = Some ps -> ps = [].
  Proof.
    intros Hn L. apply lookup_in in L as (k' & Hin). unfold no_patterns in Hn. rewrite forallb_forall in Hn.
    specialize (Hn _ Hin). cbn [snd] in Hn. destruct ps; [reflexivity|discriminate].
  Qed.

  Lemma pat_stage_cases k tyl : str_eqb tyl ty_all = false ->
    exists p2, do_for_type_and_all (strop_by_pattern u cfg) k tyl false = TOk p2
               /\ ((p2 = k /\ pat_hit u cfg tyl k = false) \/ (no_patterns = false /\ exists x, p2 = wrap cfg x)).
  Proof.
    intros Hty. unfold do_for_type_and_all, strop_by_pattern, pat_hit, pats_of. rewrite Hty.
    assert (NP : forall ty ps x, lookup (sc_patterns cfg) ty = Some ps -> matches_pats u x ps = true -> no_patterns = false).
    { intros ty ps x L M. destruct no_patterns eqn:N; [|reflexivity]. rewrite (no_patterns_lookup ty ps N L) in M. discriminate. }
    destruct (lookup (sc_patterns cfg) ty_all) as [psa|] eqn:La.
    - destruct (matches_pats u k psa) eqn:Ma.
      + pose proof (NP _ _ _ La Ma) as N.
        destruct (lookup (sc_patterns cfg) tyl) as [pst|] eqn:Lt; [destruct (matches_pats u (wrap cfg k) pst)|];
          eexists; (split; [reflexivity|right; split; [exact N|eexists; reflexivity]]).
      + destruct (lookup (sc_patterns cfg) tyl) as [pst|] eqn:Lt; [destruct (matches_pats u k pst) eqn:Mt|].
        * eexists; split; [reflexivity|right; split; [exact (NP _ _ _ Lt Mt)|eexists; reflexivity]].
        * eexists; split; [reflexivity|left; split; reflexivity].
        * eexists; split; [reflexivity|left; split; reflexivity].
    - destruct (lookup (sc_patterns cfg) tyl) as [pst|] eqn:Lt; [destruct (matches_pats u k pst) eqn:Mt|].
      + eexists; split; [reflexivity|right; split; [exact (NP _ _ _ Lt Mt)|eexists; reflexivity]].
      + eexists; split; [reflexivity|left; split; reflexivity].
      + eexists; split; [reflexivity|left; split; reflexivity].
  Qed.

  Lemma wrapped_und x : no_patterns = false -> und_start (wrap cfg x) = true /\ sc_strop_handler cfg = HUnd.
  Proof.
    intros N. pose proof Hsh as H. unfold chk_strop_handler in H. rewrite N in H. cbn [orb] in H.
    apply andb_prop in H as [H1 H2]. split.
    - unfold wrap. destruct (sc_prefix cfg) as [|c p]; [discriminate|exact H2].
    - unfold is_und in H1. destruct (sc_strop_handler cfg); [discriminate|reflexivity].
  Qed.

  Lemma strop_is_any_handler : sc_strop_handler cfg = HUnd -> any_handler = true.
  Proof. intros H; unfold any_handler; rewrite H; reflexivity. Qed.

  (* ---- the theorem ---- *)
  Theorem strop_total_gen ty tok : tok <> [] -> str_eqb (lower ty) ty_all = false ->
    exists t, strop u sp cfg ty tok = Ok t.
  Proof.
    intros Hne Hty. unfold strop. set (tyl := lower ty) in *. rewrite Hty.
    destruct (enc_stage u sp cfg Hsound tok tyl Hne) as (e & -> & He).
    destruct (kw_stage_unreserved e tyl Hty) as (k & -> & HkR & Hke).
    assert (Hk : Inv u cfg k) by (destruct Hke as [->| ->]; [exact He|apply (wrap_inv u cfg Hsound); exact He]).
    destruct (pat_stage u cfg Hsound k tyl Hk) as (p2 & E2 & Hp2i).
    destruct (pat_stage_cases k tyl Hty) as (q & Eq & Hp2). rewrite E2 in Eq. injection Eq as <-. rewrite E2. clear E2.
    destruct Hp2i as (Hi & Hn & Hh).
    (* a token that is either p2 (with the checks passed so far) or handler-shaped *)
    set (goodh := fun x : str => any_handler = true /\ hshape x = true /\ all_ident x = true).
    (* step 1 *)
    assert (S1 : exists s1, checked (do_for_type_and_all (strop_by_pattern u cfg) p2 tyl true) (sc_strop_handler cfg) p2 = Ok s1
                            /\ ((s1 = p2 /\ ok_pat tyl p2 = true) \/ goodh s1)).
    { destruct (ok_pat tyl p2) eqn:O.
      - exists p2; split; [apply checked_ok; exact O|left; auto].
      - destruct Hp2 as [[-> Hhit]|[N (x & ->)]]; [rewrite (ok_pat_of_hit tyl k Hty Hhit) in O; discriminate|].
        destruct (wrapped_und x N) as [Hu Hh1]. rewrite Hh1.
        destruct (checked_fail _ (wrap cfg x) O Hu) as (y & Hy & Hyu). exists y; split; [exact Hy|right].
        split; [apply strop_is_any_handler; exact Hh1|split; [eapply handler_und_shape; exact Hyu|eapply handler_und_ident; eassumption]]. }
    destruct S1 as (s1 & -> & S1).
    (* step 2 *)
    assert (S2 : exists s2, checked (do_for_type_and_all (strop_by_keyword cfg) s1 tyl true) (sc_strop_handler cfg) s1 = Ok s2
                            /\ ((s2 = p2 /\ ok_pat tyl p2 = true /\ ok_kw tyl p2 = true) \/ goodh s2)).
    { destruct S1 as [[-> O1]|(Ha & Hs & Hid)].
      - destruct (ok_kw tyl p2) eqn:O.
        + exists p2; split; [apply checked_ok; exact O|left; auto].
        + destruct Hp2 as [[-> Hhit]|[N (x & ->)]]; [rewrite (ok_kw_of_in tyl k Hty HkR) in O; discriminate|].
          destruct (wrapped_und x N) as [Hu Hh1]. rewrite Hh1.
          destruct (checked_fail _ (wrap cfg x) O Hu) as (y & Hy & Hyu). exists y; split; [exact Hy|right].
          split; [apply strop_is_any_handler; exact Hh1|split; [eapply handler_und_shape; exact Hyu|eapply handler_und_ident; eassumption]].
      - exists s1; split; [|right; repeat split; assumption].
        apply checked_ok. apply (hshape_good tyl s1 Hty Ha Hs Hid). }
    destruct S2 as (s2 & -> & S2).
    (* step 3 *)
    assert (S3 : exists s3, checked (do_for_type_and_all (encode u sp cfg) s2 tyl true) (sc_enc_handler cfg) s2 = Ok s3
                            /\ ((s3 = p2 /\ ok_pat tyl p2 = true /\ ok_kw tyl p2 = true /\ ok_enc tyl p2 = true) \/ goodh s3)).
    { destruct S2 as [[-> (O1 & O2)]|(Ha & Hs & Hid)].
      - destruct (ok_enc tyl p2) eqn:O.
        + exists p2; split; [apply checked_ok; exact O|left; auto].
        + (* only a leading `__` can make an encoding rule match here *)
          assert (Hld : nd = true /\ lead_dunder p2 = true).
          { destruct (lead_dunder p2) eqn:L.
            - split; [|reflexivity]. destruct (Bool.bool_dec nd true) as [E|E]; [exact E|].
              apply Bool.not_true_is_false in E.
              rewrite (ok_enc_ident tyl p2 Hi Hn Hh) in O; [discriminate|intros E2; congruence].
            - rewrite (ok_enc_ident tyl p2 Hi Hn Hh) in O; [discriminate|intros _; exact L]. }
          destruct Hld as [End Hl]. pose proof Heh as He'. unfold chk_enc_handler in He'. rewrite End in He'. cbn in He'.
          assert (Hh1 : sc_enc_handler cfg = HUnd) by (unfold is_und in He'; destruct (sc_enc_handler cfg); [discriminate|reflexivity]).
          assert (Hu : und_start p2 = true).
          { destruct p2 as [|a [|b r]]; try discriminate. cbn [lead_dunder] in Hl. apply andb_prop in Hl as [Hl _]. exact Hl. }
          rewrite Hh1. destruct (checked_fail _ p2 O Hu) as (y & Hy & Hyu). exists y; split; [exact Hy|right].
          split; [unfold any_handler; rewrite Hh1, orb_true_r; reflexivity
                 |split; [eapply handler_und_shape; exact Hyu|eapply handler_und_ident; eassumption]].
      - exists s2; split; [|right; repeat split; assumption].
        apply checked_ok. apply (hshape_good tyl s2 Hty Ha Hs Hid). }
    destruct S3 as (s3 & -> & S3).
    assert (G : ok_pat tyl s3 = true /\ ok_kw tyl s3 = true /\ ok_enc tyl s3 = true).
    { destruct S3 as [[-> G]|(Ha & Hs & Hid)]; [exact G|apply (hshape_good tyl s3 Hty Ha Hs Hid)]. }
    destruct G as (G1 & G2 & G3). exists s3. destruct (sc_reverify cfg); [|reflexivity].
    unfold reverified. unfold ok_pat in G1; unfold ok_kw in G2; unfold ok_enc in G3. rewrite G1, G2, G3, Hnofull. reflexivity.
  Qed.
End Total.
