(* C06 -- proofs about the closure model (Gen/Closure.v), for ALL type sets, names and stropping functions. *)
From Verif Require Import Closure.
Open Scope N_scope.

(* ---------------------------------------------------------------------------------- *)
(* equality tests                                                                     *)
(* ---------------------------------------------------------------------------------- *)
Lemma str_list_eqb_eq a : forall b, str_list_eqb a b = true -> a = b.
Proof.
  induction a as [|x a IH]; intros [|y b] H; cbn [str_list_eqb] in H; try discriminate; auto.
  apply andb_true_iff in H. destruct H as [H1 H2].
  destruct (str_eqb_spec x y); try discriminate. subst. f_equal. auto.
Qed.

Lemma str_list_eqb_refl a : str_list_eqb a a = true.
Proof. induction a; cbn [str_list_eqb]; auto. rewrite str_eqb_refl. auto. Qed.

Lemma tyid_eqb_eq a b : tyid_eqb a b = true -> a = b.
Proof.
  unfold tyid_eqb. intros H.
  repeat (apply andb_true_iff in H; destruct H as [H ?]).
  apply str_list_eqb_eq in H.
  destruct (str_eqb_spec (ti_short a) (ti_short b)); try discriminate.
  destruct a, b; cbn in *. apply N.eqb_eq in H0, H1. subst. reflexivity.
Qed.

Lemma tyid_eqb_refl a : tyid_eqb a a = true.
Proof. unfold tyid_eqb. rewrite str_list_eqb_refl, str_eqb_refl, !N.eqb_refl. reflexivity. Qed.

(* ---------------------------------------------------------------------------------- *)
(* dependencies: the composite list only grows, and it contains every referenced type *)
(* ---------------------------------------------------------------------------------- *)
Lemma set_flag_comp f d : d_comp (set_flag f d) = d_comp d.
Proof. reflexivity. Qed.

Lemma add_comp_mono t d x : In x (d_comp d) -> In x (d_comp (add_comp t d)).
Proof. unfold add_comp. destruct (existsb _ _); cbn; auto. intros; apply in_or_app; auto. Qed.

Lemma add_comp_in t d : In t (d_comp (add_comp t d)).
Proof.
  unfold add_comp. destruct (existsb (tyid_eqb t) (d_comp d)) eqn:E; cbn.
  - apply existsb_exists in E. destruct E as [y [Hy Hq]]. apply tyid_eqb_eq in Hq. subst. exact Hy.
  - apply in_or_app; right; left; reflexivity.
Qed.

Lemma extract_mono x : forall d y, In y (d_comp d) -> In y (d_comp (extract x d)).
Proof.
  induction x; intros d y H; cbn [extract]; try (rewrite ?set_flag_comp; exact H).
  - apply IHx. rewrite set_flag_comp. exact H.
  - apply IHx. rewrite set_flag_comp. exact H.
  - apply add_comp_mono. exact H.
Qed.

Lemma extract_comp_of x : forall d c, comp_of x = Some c -> In c (d_comp (extract x d)).
Proof.
  destruct x; intros d c H; cbn in H; try discriminate.
  - destruct x; try discriminate. inversion H; subst. cbn [extract]. apply add_comp_in.
  - destruct x; try discriminate. inversion H; subst. cbn [extract]. apply add_comp_in.
  - inversion H; subst. cbn [extract]. apply add_comp_in.
Qed.

Lemma fold_extract_mono l : forall d y, In y (d_comp d) -> In y (d_comp (fold_left (fun acc a => extract a acc) l d)).
Proof. induction l; intros; cbn [fold_left]; auto. apply IHl. apply extract_mono. auto. Qed.

Lemma fold_extract_in l : forall d a c, In a l -> comp_of a = Some c -> In c (d_comp (fold_left (fun acc a => extract a acc) l d)).
Proof.
  induction l; intros d x c Hin Hc; [contradiction|]. cbn [fold_left]. destruct Hin as [->|Hin].
  - apply fold_extract_mono. apply extract_comp_of. exact Hc.
  - eapply IHl; eauto.
Qed.

Lemma direct_has_refs q t a c : In a (td_attrs t) -> comp_of a = Some c -> In c (d_comp (direct q t)).
Proof. intros. unfold direct. eapply fold_extract_in; eauto. Qed.

(* ---------------------------------------------------------------------------------- *)
(* includes_closed                                                                    *)
(* ---------------------------------------------------------------------------------- *)
Lemma with_suffix_path_last sns name ext : with_suffix_path (sns ++ [name]) ext = sns ++ [with_suffix name ext].
Proof. unfold with_suffix_path. rewrite rev_app_distr. cbn. rewrite rev_involutive. reflexivity. Qed.

(* include side and output side of the support files name the same paths *)
Lemma support_paths_agree l : support_includes l = support_outputs l.
Proof.
  unfold support_includes, support_outputs. apply map_ext. intros n.
  unfold support_out_path, support_inc_path. rewrite with_suffix_path_last. reflexivity.
Qed.

Lemma closed_defined q ts t c : closed q ts = true -> In t ts -> In c (d_comp (direct q t)) -> exists d, In d ts /\ td_id d = c.
Proof.
  unfold closed. intros H Ht Hc. rewrite forallb_forall in H. specialize (H t Ht). rewrite forallb_forall in H.
  specialize (H c Hc). unfold defined_in in H. apply existsb_exists in H. destruct H as [d [Hd He]].
  exists d. split; auto. apply tyid_eqb_eq. exact He.
Qed.

Theorem includes_closed_gen : forall (l : lang_cfg) q omit ts t i,
  lc_inc_short_idt l = lc_out_short_idt l -> lc_inc_ns_idt l = lc_out_ns_idt l -> lc_ext l = lc_out_ext l ->
  closed q ts = true -> In t ts -> In i (include_list l q omit t) ->
  In i (map (punct l) (outputs l ts))
  \/ (omit = false /\ In i (map (punct l) (support_outputs l)))
  \/ In i (lc_std l (direct q t))
  \/ In i (lc_tmpl_inc l omit).
Proof.
  intros l q omit ts t i Hs Hn He Hc Ht Hi. unfold include_list in Hi.
  apply in_app_or in Hi. destruct Hi as [Hi|Hi].
  - left. apply in_map_iff in Hi. destruct Hi as [c [<- Hc']].
    destruct (closed_defined _ _ _ _ Hc Ht Hc') as [d [Hd <-]].
    apply in_map. unfold outputs. apply in_map_iff. exists d. split; auto.
    unfold out_path, inc_path. rewrite Hs, Hn, He. reflexivity.
  - apply in_app_or in Hi. destruct Hi as [Hi|Hi].
    + right; left. destruct omit; [contradiction|]. split; auto. rewrite <- support_paths_agree. exact Hi.
    + apply in_app_or in Hi. destruct Hi as [Hi|Hi]; [right; right; left; exact Hi|right; right; right; exact Hi].
Qed.

(* ---------------------------------------------------------------------------------- *)
(* py_imports_closed                                                                  *)
(* ---------------------------------------------------------------------------------- *)
Lemma dedup_ns_in l : forall seen x, In x l -> In x (dedup_ns l seen) \/ existsb (str_list_eqb x) seen = true.
Proof.
  induction l as [|y l IH]; intros seen x H; [contradiction|]. cbn [dedup_ns].
  destruct H as [->|H].
  - destruct (existsb (str_list_eqb x) seen) eqn:E; auto. left; left; reflexivity.
  - destruct (existsb (str_list_eqb y) seen) eqn:E.
    + apply IH; auto.
    + destruct (IH (y :: seen) x H) as [Hin|Hex]; [left; right; exact Hin|].
      cbn [existsb] in Hex. apply orb_true_iff in Hex. destruct Hex as [Hq|Hex]; auto.
      apply str_list_eqb_eq in Hq. subst. left; left; reflexivity.
Qed.

Lemma dedup_ns_in0 l x : In x l -> In x (dedup_ns l []).
Proof. intros H. destruct (dedup_ns_in l [] x H) as [|E]; auto. discriminate. Qed.

Lemma dedup_ns_sub l : forall seen x, In x (dedup_ns l seen) -> In x l.
Proof.
  induction l as [|y l IH]; intros seen x H; cbn [dedup_ns] in H; [contradiction|].
  destruct (existsb (str_list_eqb y) seen).
  - right. eapply IH; eauto.
  - destruct H as [->|H]; [left; reflexivity|right; eapply IH; eauto].
Qed.

(* every package a type module imports, and every parent package of it, has its generated namespace file *)
Theorem py_imports_closed_gen : forall (l : lang_cfg) q ts t ns p,
  lc_has_ns_files l = true ->
  closed q ts = true -> In t ts -> In ns (import_namespaces t) -> In p (prefixes ns) ->
  In (import_target l p) (ns_outputs l ts).
Proof.
  intros l q ts t ns p Hgate Hc Ht Hns Hp.
  unfold import_namespaces in Hns. apply dedup_ns_sub in Hns. apply in_flat_map in Hns.
  destruct Hns as [a [Ha Hin]]. destruct (comp_of a) as [c|] eqn:Ec; [|contradiction].
  destruct Hin as [<-|[]].
  destruct (closed_defined q ts t c Hc Ht (direct_has_refs q t a c Ha Ec)) as [d [Hd Hid]].
  unfold ns_outputs, import_target. rewrite Hgate. apply in_map_iff. exists p. split; [reflexivity|]. unfold all_namespaces. apply dedup_ns_in0.
  apply in_flat_map. exists d. split; auto. rewrite Hid. exact Hp.
Qed.

(* the dotted module name is the directory chain when the two id types strop the components alike *)
Theorem py_import_names_are_dirs : forall (l : lang_cfg) ns,
  lc_stropping l = true ->
  (forall c, In c ns -> lc_sid l (lc_default_idt l) c = lc_sid l (lc_dir_idt l) c) ->
  map (lc_sid l (lc_default_idt l)) ns = ns_dir (lc_sid l) (lc_dir_idt l) ns.
Proof. intros l ns _ H. unfold ns_dir. apply map_ext_in. exact H. Qed.

(* the namespace list of make_path and the directory of the namespace file coincide when the id types agree *)
Theorem type_file_in_package_dir : forall (l : lang_cfg) t,
  lc_stropping l = true -> lc_out_ns_idt l = lc_dir_idt l ->
  exists f, make_path (lc_sid l) (lc_stropping l) (lc_out_short_idt l) (lc_out_ns_idt l) (lc_out_ext l) t
            = ns_dir (lc_sid l) (lc_dir_idt l) (ti_ns t) ++ [f].
Proof.
  intros l t Hs He. eexists. unfold make_path, ns_dir, sid_if. rewrite Hs, He. reflexivity.
Qed.

(* Namespace.j2: `from <full_reference_name> import ...` names the module <ns components, default id type>.<short reference name,
   default id type>; its file is make_path (output-side id types) -- the same components when the id types strop alike *)
Definition init_import_module (l : lang_cfg) (t : tyid) : list str :=
  map (sid_if (lc_sid l) (lc_stropping l) (lc_default_idt l)) (ti_ns t) ++ [short_ref (lc_sid l) (lc_stropping l) (lc_default_idt l) t].

Theorem py_init_imports_closed_gen : forall (l : lang_cfg) ts d,
  In d ts ->
  (forall c, In c (ti_ns (td_id d)) -> lc_sid l (lc_default_idt l) c = lc_sid l (lc_out_ns_idt l) c) ->
  lc_sid l (lc_default_idt l) (versioned (td_id d)) = lc_sid l (lc_out_short_idt l) (versioned (td_id d)) ->
  stem (short_ref (lc_sid l) (lc_stropping l) (lc_default_idt l) (td_id d)) = short_ref (lc_sid l) (lc_stropping l) (lc_default_idt l) (td_id d) ->
  In (posix (map (fun c => c) (removelast (init_import_module l (td_id d)))
             ++ [last (init_import_module l (td_id d)) [] ++ lc_out_ext l])) (outputs l ts).
Proof.
  intros l ts d Hd Hns Hshort Hstem. unfold outputs. apply in_map_iff. exists d. split; [|exact Hd].
  unfold out_path, make_path, init_import_module. f_equal.
  rewrite map_id. rewrite removelast_last, last_last.
  assert (E1 : map (sid_if (lc_sid l) (lc_stropping l) (lc_out_ns_idt l)) (ti_ns (td_id d))
             = map (sid_if (lc_sid l) (lc_stropping l) (lc_default_idt l)) (ti_ns (td_id d))).
  { apply map_ext_in. intros c Hc. unfold sid_if. destruct (lc_stropping l); auto. symmetry. apply Hns. exact Hc. }
  rewrite E1. f_equal. f_equal. unfold with_suffix.
  assert (E2 : short_ref (lc_sid l) (lc_stropping l) (lc_out_short_idt l) (td_id d)
             = short_ref (lc_sid l) (lc_stropping l) (lc_default_idt l) (td_id d)).
  { unfold short_ref, sid_if. destruct (lc_stropping l); auto. }
  rewrite E2, Hstem. reflexivity.
Qed.

(* ---------------------------------------------------------------------------------- *)
(* namespace_braces_balanced                                                          *)
(* ---------------------------------------------------------------------------------- *)
Lemma balanced_nest (f : str -> str) l : forall st rest,
  balanced st (map (fun n => TOpen (f n)) l ++ map (fun n => TClose (f n)) (rev l) ++ rest) = balanced st rest.
Proof.
  induction l as [|x l IH]; intros st rest; [reflexivity|].
  cbn [map rev app balanced]. rewrite map_app. cbn [map]. rewrite <- app_assoc. cbn [app].
  rewrite IH. cbn [balanced]. rewrite str_eqb_refl. reflexivity.
Qed.

Theorem namespace_braces_balanced_gen : forall sid st idt ns,
  balanced [] (open_namespace sid st idt ns ++ close_namespace sid st idt ns) = true
  /\ length (open_namespace sid st idt ns) = length (close_namespace sid st idt ns)
  /\ map (fun k => match k with TOpen n | TClose n => n end) (close_namespace sid st idt ns)
     = rev (map (fun k => match k with TOpen n | TClose n => n end) (open_namespace sid st idt ns)).
Proof.
  intros. unfold open_namespace, close_namespace. repeat split.
  - pose proof (balanced_nest (fun n => if st then sid idt n else n) ns [] []) as H.
    rewrite app_nil_r in H. exact H.
  - rewrite !map_length, rev_length. reflexivity.
  - rewrite !map_map. rewrite map_rev. reflexivity.
Qed.

(* ---------------------------------------------------------------------------------- *)
(* guard_injective                                                                    *)
(* ---------------------------------------------------------------------------------- *)
Definition no_us (s : str) : Prop := Forall (fun c => c <> us) s.

Lemma dec_fuel_no_us f : forall n acc, no_us acc -> no_us (dec_fuel f n acc).
Proof.
  induction f; intros n acc H; cbn [dec_fuel]; auto.
  assert (Hd : no_us ((48 + n mod 10) :: acc)).
  { constructor; auto. unfold us. pose proof (N.mod_upper_bound n 10). lia. }
  destruct (n / 10 =? 0); auto.
Qed.

Lemma dec_str_no_us n : no_us (dec_str n).
Proof. apply dec_fuel_no_us. constructor. Qed.

Lemma prefix_us_inj d1 : forall d2 r1 r2, no_us d1 -> no_us d2 -> d1 ++ us :: r1 = d2 ++ us :: r2 -> d1 = d2 /\ r1 = r2.
Proof.
  induction d1 as [|a d1 IH]; intros [|b d2] r1 r2 H1 H2 E; cbn in E.
  - inversion E; auto.
  - inversion E; subst. inversion H2; subst. congruence.
  - inversion E; subst. inversion H1; subst. congruence.
  - inversion E; subst. inversion H1; inversion H2; subst.
    destruct (IH d2 r1 r2) as [-> ->]; auto.
Qed.

Lemma suffix_us_inj x1 x2 d1 d2 : no_us d1 -> no_us d2 -> x1 ++ us :: d1 = x2 ++ us :: d2 -> x1 = x2 /\ d1 = d2.
Proof.
  intros H1 H2 E. apply (f_equal (@rev N)) in E. rewrite !rev_app_distr in E. cbn [rev] in E. rewrite <- !app_assoc in E. cbn [app] in E.
  apply prefix_us_inj in E.
  - destruct E as [Ea Eb]. split.
    + rewrite <- (rev_involutive x1), <- (rev_involutive x2), Eb. reflexivity.
    + rewrite <- (rev_involutive d1), <- (rev_involutive d2), Ea. reflexivity.
  - unfold no_us. apply Forall_rev. exact H1.
  - unfold no_us. apply Forall_rev. exact H2.
Qed.

(* equal guards force equal macro-cased full names and equal version strings: two types share a guard ONLY when
   screaming-snake-casing + macro stropping folds their full names *)
Theorem guard_injective_gen : forall sid st tail t1 t2,
  guard sid st tail t1 = guard sid st tail t2 ->
  macrofy sid st (full_name t1) = macrofy sid st (full_name t2)
  /\ dec_str (ti_major t1) = dec_str (ti_major t2) /\ dec_str (ti_minor t1) = dec_str (ti_minor t2).
Proof.
  intros sid st tail t1 t2 E. unfold guard in E.
  rewrite !app_assoc in E. apply app_inv_tail in E. rewrite <- !app_assoc in E. cbn [app] in E.
  (* m1 ++ us :: a1 ++ us :: b1 = m2 ++ us :: a2 ++ us :: b2 *)
  assert (E' : (macrofy sid st (full_name t1) ++ us :: dec_str (ti_major t1)) ++ us :: dec_str (ti_minor t1)
             = (macrofy sid st (full_name t2) ++ us :: dec_str (ti_major t2)) ++ us :: dec_str (ti_minor t2)).
  { rewrite <- !app_assoc. cbn [app]. exact E. }
  apply suffix_us_inj in E'; try apply dec_str_no_us. destruct E' as [E1 Eb].
  apply suffix_us_inj in E1; try apply dec_str_no_us. destruct E1 as [Em Ea]. auto.
Qed.

Corollary guards_differ_unless_folded : forall sid st tail t1 t2,
  macrofy sid st (full_name t1) <> macrofy sid st (full_name t2) -> guard sid st tail t1 <> guard sid st tail t2.
Proof. intros sid st tail t1 t2 H E. apply H. apply (guard_injective_gen sid st tail t1 t2 E). Qed.

(* ---- dec_str is injective (decode it back) ---- *)
Definition dstep (a c : N) : N := 10 * a + (c - 48).

Lemma dec_fuel_val f : forall n acc, n < 10 ^ N.of_nat f -> fold_left dstep (dec_fuel f n acc) 0 = fold_left dstep acc n.
Proof.
  induction f as [|f IH]; intros n acc Hn.
  - cbn in Hn. assert (n = 0) by lia. subst. reflexivity.
  - cbn [dec_fuel]. rewrite Nat2N.inj_succ, N.pow_succ_r' in Hn.
    pose proof (N.div_mod n 10 ltac:(lia)) as Hdm. pose proof (N.mod_upper_bound n 10 ltac:(lia)) as Hm.
    destruct (n / 10 =? 0) eqn:E.
    + apply N.eqb_eq in E. cbn [fold_left]. f_equal. unfold dstep. rewrite N.add_comm with (n := 48), N.add_sub. rewrite E in Hdm. lia.
    + rewrite IH.
      * cbn [fold_left]. f_equal. unfold dstep. rewrite N.add_comm with (n := 48), N.add_sub. symmetry. exact Hdm.
      * apply N.div_lt_upper_bound; lia.
Qed.

Lemma pos_lt_pow2_size p : N.pos p < 2 ^ N.of_nat (Pos.size_nat p).
Proof.
  induction p as [p IH|p IH|]; cbn [Pos.size_nat]; rewrite ?Nat2N.inj_succ, ?N.pow_succ_r'; lia.
Qed.

Lemma dec_str_val n : fold_left dstep (dec_str n) 0 = n.
Proof.
  unfold dec_str. rewrite dec_fuel_val; [reflexivity|].
  rewrite Nat2N.inj_succ, N.pow_succ_r'.
  assert (H : n < 2 ^ N.of_nat (N.size_nat n)).
  { destruct n as [|p]; [cbn; lia|]. cbn [N.size_nat]. apply pos_lt_pow2_size. }
  assert (H2 : 2 ^ N.of_nat (N.size_nat n) <= 10 ^ N.of_nat (N.size_nat n)) by (apply N.pow_le_mono_l; lia).
  assert (H3 : 0 < 10 ^ N.of_nat (N.size_nat n)) by (apply N.neq_0_lt_0, N.pow_nonzero; lia).
  lia.
Qed.

Theorem dec_str_inj a b : dec_str a = dec_str b -> a = b.
Proof. intros H. rewrite <- (dec_str_val a), <- (dec_str_val b), H. reflexivity. Qed.

(* distinct types (by full name or version) have distinct guards unless the macro-cased full names fold *)
Theorem guard_injective_full : forall sid st tail t1 t2,
  guard sid st tail t1 = guard sid st tail t2 ->
  macrofy sid st (full_name t1) = macrofy sid st (full_name t2) /\ ti_major t1 = ti_major t2 /\ ti_minor t1 = ti_minor t2.
Proof.
  intros sid st tail t1 t2 H. destruct (guard_injective_gen sid st tail t1 t2 H) as [A [B C]].
  repeat split; auto using dec_str_inj.
Qed.
