(* C05 proofs, part 2: constants.  The token rendered by the TRANSLATED integer branch of filter_literal, read back by the C
   constant-expression grammar of MetaC05Base.v, denotes exactly the DSDL value, without diagnostic, in every data model; the
   floating constant expression denotes the exact rational. *)
From Coq Require Import List NArith ZArith Bool Lia.
From Verif Require Import Str MetaC05Base MetaC05Rne Gen_C05 MetaC05.
Import ListNotations.
Local Open Scope Z_scope.

(* ---- str(int) and read_digits are inverse ---- *)
Definition dval (l : list N) : N := fold_right (fun c acc => (10 * acc + (c - 48))%N) 0%N l.

Lemma is_digit_chr d : (d < 10)%N -> is_digit (digit_chr d) = true.
Proof. intro H. unfold is_digit, digit_chr. apply andb_true_iff; split; apply N.leb_le; lia. Qed.

Lemma dec_rev_digits fuel : forall n, forallb is_digit (dec_rev fuel n) = true.
Proof.
  induction fuel as [|f IH]; intro n; cbn [dec_rev]; [reflexivity|].
  destruct (N.ltb_spec n 10); cbn [forallb].
  - rewrite is_digit_chr by assumption. reflexivity.
  - rewrite IH, is_digit_chr; [reflexivity|]. apply N.mod_lt. lia.
Qed.

Lemma dec_rev_val fuel : forall n, (n < 2 ^ N.of_nat fuel)%N -> dval (dec_rev fuel n) = n.
Proof.
  induction fuel as [|f IH]; intros n Hn.
  - change (2 ^ N.of_nat 0)%N with 1%N in Hn. cbn [dec_rev dval fold_right]. lia.
  - cbn [dec_rev]. destruct (N.ltb_spec n 10).
    + cbn [dval fold_right]. unfold digit_chr. lia.
    + cbn [dval fold_right]. fold (dval (dec_rev f (n / 10))). rewrite IH.
      * unfold digit_chr. pose proof (N.div_mod n 10 ltac:(lia)) as Hdm. pose proof (N.mod_lt n 10 ltac:(lia)) as Hml. clear Hn IH.
        set (q := (n / 10)%N) in *. set (m := (n mod 10)%N) in *. clearbody q m. lia.
      * rewrite Nat2N.inj_succ, N.pow_succ_r' in Hn. apply N.div_lt_upper_bound; lia.
Qed.

Lemma dec_fuel_ok n : (n < 2 ^ N.of_nat (dec_fuel n))%N.
Proof.
  unfold dec_fuel. rewrite Nat2N.inj_succ, N2Nat.id. destruct n as [|p]; [reflexivity|].
  apply N.log2_spec. lia.
Qed.

Lemma dec_rev_last fuel : forall n, (n < 2 ^ N.of_nat fuel)%N -> fuel <> O ->
  exists l c, dec_rev fuel n = l ++ [c] /\ (c = 48%N -> l = [] /\ n = 0%N).
Proof.
  induction fuel as [|f IH]; intros n Hn Hf; [congruence|].
  cbn [dec_rev]. destruct (N.ltb_spec n 10).
  - exists [], (digit_chr n). split; [reflexivity|]. unfold digit_chr. intro. split; [reflexivity|lia].
  - assert (Hq : (1 <= n / 10)%N) by (apply N.div_le_lower_bound; lia).
    assert (Hn' : (n / 10 < 2 ^ N.of_nat f)%N).
    { rewrite Nat2N.inj_succ, N.pow_succ_r' in Hn. apply N.div_lt_upper_bound; lia. }
    assert (Hf' : f <> O).
    { intro; subst f. change (2 ^ N.of_nat 0)%N with 1%N in Hn'. lia. }
    destruct (IH _ Hn' Hf') as [l [c [El Hc]]]. exists (digit_chr (n mod 10) :: l), c. split; [rewrite El; reflexivity|].
    intro Hc0. destruct (Hc Hc0) as [_ H0]. exfalso. clear - Hq H0. set (q := (n / 10)%N) in *. clearbody q. lia.
Qed.

Lemma forallb_rev {A} (p : A -> bool) l : forallb p l = true -> forallb p (rev l) = true.
Proof. rewrite !forallb_forall. intros H x Hx. apply H. apply in_rev. exact Hx. Qed.

Lemma dec_of_N_shape n :
  exists c r, dec_of_N n = c :: r /\ is_digit c = true /\ forallb is_digit r = true /\ (c = 48%N -> r = []).
Proof.
  unfold dec_of_N.
  destruct (dec_rev_last (dec_fuel n) n (dec_fuel_ok n) ltac:(unfold dec_fuel; congruence)) as [l [c [El Hc]]].
  pose proof (dec_rev_digits (dec_fuel n) n) as Hd. rewrite El in Hd |- *. rewrite rev_app_distr. cbn [rev app].
  rewrite forallb_app in Hd. apply andb_true_iff in Hd. destruct Hd as [Hl Hc']. cbn [forallb] in Hc'. rewrite andb_true_r in Hc'.
  exists c, (rev l). split; [reflexivity|]. split; [exact Hc'|]. split; [apply forallb_rev; exact Hl|].
  intro H0. destruct (Hc H0) as [-> _]. reflexivity.
Qed.

Definition nondigit_head (s : list N) : Prop := match s with c :: _ => is_digit c = false | [] => True end.

Lemma read_digits_app ds : forall a rest, forallb is_digit ds = true -> nondigit_head rest ->
  read_digits a (ds ++ rest) = (fold_left (fun x c => (10 * x + (c - 48))%N) ds a, rest).
Proof.
  induction ds as [|d ds IH]; intros a rest Hd Hr.
  - cbn [app fold_left]. destruct rest as [|c r]; [reflexivity|]. cbn [read_digits]. cbn [nondigit_head] in Hr. rewrite Hr. reflexivity.
  - cbn [forallb] in Hd. apply andb_true_iff in Hd. destruct Hd as [H1 H2]. cbn [app read_digits fold_left]. rewrite H1.
    apply IH; assumption.
Qed.

Lemma read_dec_of_N n rest : nondigit_head rest -> read_digits 0 (dec_of_N n ++ rest) = (n, rest).
Proof.
  intro Hr. unfold dec_of_N. rewrite read_digits_app; [|apply forallb_rev; apply dec_rev_digits|exact Hr].
  f_equal. transitivity (dval (dec_rev (dec_fuel n) n)); [|apply dec_rev_val; apply dec_fuel_ok].
  unfold dval. rewrite <- (rev_involutive (dec_rev (dec_fuel n) n)) at 2. rewrite fold_left_rev_right. reflexivity.
Qed.

Lemma py_str_int_cases v :
  (0 <= v -> py_str_int v = dec_of_N (Z.to_N v)) /\ (v < 0 -> py_str_int v = 45%N :: dec_of_N (Z.to_N (- v))).
Proof. destruct v; split; intro H; try lia; reflexivity. Qed.

(* ---- suffixes ---- *)
Definition sfx (u b1 b2 : bool) : list N := str_times_bool [85%N] u ++ str_times_bool [76%N] b1 ++ str_times_bool [76%N] b2.
Definition nl_of (b1 b2 : bool) : nat := ((if b1 then 1 else 0) + (if b2 then 1 else 0))%nat.
Definition min_bits (nl : nat) : Z := match nl with O => 16 | S O => 32 | _ => 64 end.

Lemma read_suffix_sfx u b1 b2 : read_suffix (sfx u b1 b2) = (u, nl_of b1 b2, []).
Proof. destruct u, b1, b2; reflexivity. Qed.

Lemma sfx_nondigit u b1 b2 : nondigit_head (sfx u b1 b2).
Proof. destruct u, b1, b2; cbn; auto. Qed.

Lemma parse_lit_render n u b1 b2 : parse_lit (dec_of_N n ++ sfx u b1 b2) = Some (CLit n u (nl_of b1 b2), []).
Proof.
  pose proof (read_dec_of_N n (sfx u b1 b2) (sfx_nondigit u b1 b2)) as HR.
  destruct (dec_of_N_shape n) as [c [r [E [Hc [Hr H0]]]]]. rewrite E in HR |- *. cbn [app] in HR |- *.
  unfold parse_lit. rewrite Hc. cbn [negb].
  assert (Hz : (c =? 48)%N && match r ++ sfx u b1 b2 with d :: _ => is_digit d | [] => false end = false).
  { destruct (N.eqb_spec c 48) as [Hc0|]; [|reflexivity]. rewrite (H0 Hc0). cbn [app andb].
    pose proof (sfx_nondigit u b1 b2) as Hs. destruct (sfx u b1 b2); [reflexivity|exact Hs]. }
  rewrite Hz. rewrite HR. rewrite read_suffix_sfx. reflexivity.
Qed.

Lemma digit_not_special c : is_digit c = true -> c <> 40%N /\ c <> 45%N.
Proof. unfold is_digit. intro H. apply andb_true_iff in H. destruct H as [H1 H2]. apply N.leb_le in H1. lia. Qed.

Lemma parse_cexpr_nonneg n u b1 b2 : parse_cexpr (dec_of_N n ++ sfx u b1 b2) = Some (CLit n u (nl_of b1 b2)).
Proof.
  pose proof (parse_lit_render n u b1 b2) as HL.
  destruct (dec_of_N_shape n) as [c [r [E [Hc _]]]]. rewrite E in HL |- *. cbn [app] in HL |- *.
  destruct (digit_not_special c Hc) as [H40 H45].
  unfold parse_cexpr, parse_unary. apply N.eqb_neq in H40, H45. rewrite H40, H45. rewrite HL. reflexivity.
Qed.

Lemma parse_cexpr_minus r : parse_cexpr (45%N :: r) = match parse_lit r with Some (e, []) => Some (CNeg e) | _ => None end.
Proof.
  unfold parse_cexpr, parse_unary. change (45 =? 40)%N with false. change (45 =? 45)%N with true. cbv iota.
  destruct (parse_lit r) as [[e [|? ?]]|]; reflexivity.
Qed.

Lemma parse_cexpr_neg n u b1 b2 : parse_cexpr (45%N :: dec_of_N n ++ sfx u b1 b2) = Some (CNeg (CLit n u (nl_of b1 b2))).
Proof. rewrite parse_cexpr_minus, parse_lit_render. reflexivity. Qed.

(* ---- typing of the literal ---- *)
Lemma first_fit_in dm cands v : existsb (fun t => ct_fits dm t v) cands = true ->
  exists t, first_fit dm cands v = Some t /\ In t cands /\ ct_fits dm t v = true.
Proof.
  induction cands as [|a r IH]; cbn [existsb first_fit]; intro H; [discriminate|].
  destruct (ct_fits dm a v) eqn:E.
  - exists a. split; [reflexivity|]. split; [left; reflexivity|exact E].
  - cbn [orb] in H. destruct (IH H) as [t [H1 [H2 H3]]]. exists t. split; [exact H1|]. split; [right; exact H2|exact H3].
Qed.

Lemma fits_ullong dm v : 0 <= v < 2 ^ 64 -> ct_fits dm CULLong v = true.
Proof.
  intro H. unfold ct_fits. cbn [ct_unsigned ct_bits]. apply andb_true_iff; split; [apply Z.leb_le|apply Z.ltb_lt]; lia.
Qed.

Lemma fits_llong dm v : - 2 ^ 63 <= v < 2 ^ 63 -> ct_fits dm CLLong v = true.
Proof.
  intro H. unfold ct_fits. cbn [ct_unsigned ct_bits]. change (64 - 1) with 63.
  apply andb_true_iff; split; [apply Z.leb_le|apply Z.ltb_lt]; lia.
Qed.

Lemma cden_lit (dm : dmodel) (n : N) (u : bool) (nl : nat) : (nl <= 2)%nat -> Z.of_N n < (if u then 2 ^ 64 else 2 ^ 63) ->
  exists t, cden dm (CLit n u nl) = Some (t, Z.of_N n) /\ In t (lit_candidates u nl) /\ ct_fits dm t (Z.of_N n) = true.
Proof.
  intros Hnl Hb. cbn [cden].
  destruct (first_fit_in dm (lit_candidates u nl) (Z.of_N n)) as [t [E [Hi Hf]]].
  - destruct u; cbv iota in Hb.
    + pose proof (fits_ullong dm (Z.of_N n) ltac:(lia)) as HF.
      destruct nl as [|[|[|?]]]; try lia; cbn [lit_candidates existsb]; rewrite HF, ?orb_true_r; reflexivity.
    + assert (0 < 2 ^ 63) by (apply Z.pow_pos_nonneg; lia).
      pose proof (fits_llong dm (Z.of_N n) ltac:(lia)) as HF.
      destruct nl as [|[|[|?]]]; try lia; cbn [lit_candidates existsb]; rewrite HF, ?orb_true_r; reflexivity.
  - exists t. rewrite E. split; [reflexivity|]. split; assumption.
Qed.

Lemma cand_props dm t u nl : In dm dmodels -> (nl <= 2)%nat -> In t (lit_candidates u nl) ->
  ct_unsigned t = u /\ min_bits nl <= ct_bits dm t.
Proof.
  intros Hdm Hnl Hin.
  destruct Hdm as [<-|[<-|[<-|[]]]]; destruct u; destruct nl as [|[|[|?]]]; try lia; cbn [lit_candidates In] in Hin;
    repeat (destruct Hin as [<-|Hin]; [cbn; split; [reflexivity|lia]|]); destruct Hin.
Qed.

Lemma fits_neg dm t v : ct_unsigned t = false -> 0 <= v -> ct_fits dm t v = true -> ct_fits dm t (- v) = true.
Proof.
  unfold ct_fits. intros Hu Hv. rewrite Hu. set (B := 2 ^ (ct_bits dm t - 1)).
  rewrite !andb_true_iff, !Z.leb_le, !Z.ltb_lt. lia.
Qed.

Lemma cden_neg_lit dm n nl : In dm dmodels -> (nl <= 2)%nat -> Z.of_N n < 2 ^ 63 ->
  exists t, cden dm (CNeg (CLit n false nl)) = Some (t, - Z.of_N n) /\ In t (lit_candidates false nl).
Proof.
  intros Hdm Hnl Hb. destruct (cden_lit dm n false nl Hnl Hb) as [t [E [Hi Hf]]].
  exists t. split; [|exact Hi].
  change (cden dm (CNeg (CLit n false nl))) with
    (match cden dm (CLit n false nl) with
     | Some (t, v) => match in_type dm t (- v) with Some r => Some (t, r) | None => None end
     | None => None
     end).
  rewrite E. unfold in_type. destruct (cand_props dm t false nl Hdm Hnl Hi) as [Hu _]. rewrite Hu.
  rewrite (fits_neg dm t (Z.of_N n) Hu ltac:(lia) Hf). reflexivity.
Qed.

(* ---- the translated function ---- *)
Lemma filter_literal_int_eq v ty : v <> - 2 ^ 63 ->
  filter_literal_int v ty =
  py_str_int v ++ sfx (py_isinstance ty C_UnsignedIntegerType) (16 <? pty_bit_length ty) (32 <? pty_bit_length ty).
Proof.
  intro Hv. unfold filter_literal_int. cbv zeta. destruct (Z.eqb_spec v (- 2 ^ 63)); [contradiction|].
  unfold sfx. rewrite <- !app_assoc. rewrite !Z.gtb_ltb. reflexivity.
Qed.

Lemma filter_literal_int_min ty dm : In dm dmodels -> c_token_denotes dm (filter_literal_int (- 2 ^ 63) ty) = Some (CLLong, - 2 ^ 63).
Proof.
  intro H. unfold filter_literal_int. cbv zeta. rewrite Z.eqb_refl.
  destruct H as [<-|[<-|[<-|[]]]]; vm_compute; reflexivity.
Qed.

Theorem int_literal_guard : forall unsigned w, filter_literal_int_guard (int_pty unsigned w) = true.
Proof. intros [|] w; reflexivity. Qed.

Theorem int_literal_denotes : forall dm unsigned w v, In dm dmodels -> 1 <= w <= 64 -> in_int_range unsigned w v ->
  exists t, const_int_denotes dm unsigned w v = Some (t, v) /\ ct_unsigned t = unsigned /\ w <= ct_bits dm t.
Proof.
  intros dm u w v Hdm Hw Hr. unfold const_int_denotes, const_int_token.
  assert (P63 : 2 ^ 63 = 9223372036854775808) by reflexivity.
  assert (P64 : 2 ^ 64 = 18446744073709551616) by reflexivity.
  destruct (Z.eq_dec v (- 2 ^ 63)) as [->|Hne].
  - assert (Huw : u = false /\ w = 64).
    { unfold in_int_range in Hr. destruct u; [lia|]. split; [reflexivity|].
      destruct (Z.eq_dec w 64); [assumption|]. exfalso.
      assert (2 ^ (w - 1) < 2 ^ 63) by (apply Z.pow_lt_mono_r; lia). lia. }
    destruct Huw as [-> ->]. exists CLLong. rewrite filter_literal_int_min by assumption.
    split; [reflexivity|]. split; [reflexivity|]. cbn [ct_bits]. lia.
  - rewrite filter_literal_int_eq by assumption.
    replace (py_isinstance (int_pty u w) C_UnsignedIntegerType) with u by (destruct u; reflexivity).
    cbn [int_pty pty_bit_length].
    set (b1 := 16 <? w). set (b2 := 32 <? w).
    assert (Hnl : (nl_of b1 b2 <= 2)%nat) by (destruct b1, b2; cbn; lia).
    assert (Hmin : w <= min_bits (nl_of b1 b2)).
    { subst b1 b2. destruct (Z.ltb_spec 16 w), (Z.ltb_spec 32 w); cbn; lia. }
    assert (Hpw : 2 ^ w <= 2 ^ 64) by (apply Z.pow_le_mono_r; lia).
    assert (Hpw1 : 0 < 2 ^ (w - 1) <= 2 ^ 63) by (split; [apply Z.pow_pos_nonneg; lia|apply Z.pow_le_mono_r; lia]).
    unfold c_token_denotes. destruct (py_str_int_cases v) as [Hp Hn].
    destruct (Z.le_gt_cases 0 v) as [Hv|Hv].
    + rewrite (Hp Hv). rewrite parse_cexpr_nonneg.
      destruct (cden_lit dm (Z.to_N v) u (nl_of b1 b2) Hnl) as [t [E [Hi _]]].
      { rewrite Z2N.id by lia. unfold in_int_range in Hr. destruct u; cbv iota; lia. }
      rewrite Z2N.id in E by lia. exists t. split; [exact E|].
      destruct (cand_props dm t u _ Hdm Hnl Hi) as [A B]. split; [exact A|lia].
    + assert (u = false) by (unfold in_int_range in Hr; destruct u; [lia|reflexivity]). subst u.
      rewrite (Hn Hv). rewrite <- app_comm_cons. rewrite parse_cexpr_neg.
      destruct (cden_neg_lit dm (Z.to_N (- v)) (nl_of b1 b2) Hdm Hnl) as [t [E Hi]].
      { rewrite Z2N.id by lia. unfold in_int_range in Hr. lia. }
      rewrite Z2N.id, Z.opp_involutive in E by lia. exists t. split; [exact E|].
      destruct (cand_props dm t false _ Hdm Hnl Hi) as [A B]. split; [exact A|lia].
Qed.

Theorem int64_min_plain_literal_refuted : forall dm, In dm dmodels -> c_token_denotes dm old_int64_min_token = None.
Proof. intros dm [<-|[<-|[<-|[]]]]; vm_compute; reflexivity. Qed.

(* ---- floating constant expressions ---- *)
Lemma parse_fnum_render z rest : parse_fnum (py_str_int z ++ 46%N :: 48%N :: rest) = Some (z, rest).
Proof.
  assert (Hnd : nondigit_head (46%N :: 48%N :: rest)) by reflexivity.
  destruct (py_str_int_cases z) as [Hp Hn]. destruct (Z.le_gt_cases 0 z) as [Hz|Hz].
  - rewrite (Hp Hz). pose proof (read_dec_of_N (Z.to_N z) _ Hnd) as HR.
    destruct (dec_of_N_shape (Z.to_N z)) as [c [r [E [Hc _]]]]. rewrite E in HR |- *. cbn [app] in HR |- *.
    destruct (digit_not_special c Hc) as [_ H45]. apply N.eqb_neq in H45.
    unfold parse_fnum. rewrite H45. cbv zeta. cbv iota. rewrite Hc. rewrite HR.
    cbn [strip]. change (46 =? 46)%N with true. change (48 =? 48)%N with true. cbv iota. rewrite Z2N.id by lia. reflexivity.
  - rewrite (Hn Hz). rewrite <- app_comm_cons. pose proof (read_dec_of_N (Z.to_N (- z)) _ Hnd) as HR.
    destruct (dec_of_N_shape (Z.to_N (- z))) as [c [r [E [Hc _]]]]. rewrite E in HR |- *. cbn [app] in HR |- *.
    unfold parse_fnum. change (45 =? 45)%N with true. cbv zeta. cbv iota. rewrite Hc. rewrite HR.
    cbn [strip]. change (46 =? 46)%N with true. change (48 =? 48)%N with true. cbv iota. rewrite Z2N.id by lia.
    rewrite Z.opp_involutive. reflexivity.
Qed.

Lemma py_str_int_head z : exists c r, py_str_int z = c :: r /\ c <> 40%N.
Proof.
  destruct (py_str_int_cases z) as [Hp Hn]. destruct (Z.le_gt_cases 0 z) as [Hz|Hz].
  - rewrite (Hp Hz). destruct (dec_of_N_shape (Z.to_N z)) as [c [r [E [Hc _]]]]. exists c, r. split; [exact E|].
    apply (digit_not_special c Hc).
  - rewrite (Hn Hz). exists 45%N, (dec_of_N (Z.to_N (- z))). split; [reflexivity|lia].
Qed.

Lemma integral_form_parses n : parse_fexpr (py_str_int n ++ [46; 48]%N) = Some (n, 1).
Proof.
  destruct (py_str_int_head n) as [c [r [E Hc]]].
  pose proof (parse_fnum_render n []) as HP. change ([46; 48]%N) with (46%N :: 48%N :: []). rewrite E in HP |- *.
  cbn [app] in HP |- *. unfold parse_fexpr. apply N.eqb_neq in Hc. rewrite Hc. rewrite HP. reflexivity.
Qed.

Lemma division_form_parses n d :
  parse_fexpr ([40%N] ++ py_str_int n ++ [46; 48; 32; 47; 32]%N ++ py_str_int d ++ [46; 48; 41]%N) = Some (n, d).
Proof.
  cbn [app]. unfold parse_fexpr. change (40 =? 40)%N with true. cbv iota.
  rewrite parse_fnum_render. cbn [strip]. change (32 =? 32)%N with true. change (47 =? 47)%N with true. cbv iota.
  rewrite parse_fnum_render. cbn [strip]. change (41 =? 41)%N with true. cbv iota. reflexivity.
Qed.

(* innermost lemmas about the shape of the translated functions *)
Lemma float_expr_integral rf n : const_float_expr rf n 1 = py_str_int n ++ [46; 48]%N.
Proof. unfold const_float_expr, filter_literal_float_expr. cbn [fst snd]. cbv zeta. reflexivity. Qed.

Lemma float_expr_fraction rf n d : d <> 1 ->
  const_float_expr rf n d =
  if division_rendered n d then [40%N] ++ py_str_int n ++ [46; 48; 32; 47; 32]%N ++ py_str_int d ++ [46; 48; 41]%N else rf (n, d).
Proof.
  intro Hd. unfold const_float_expr, filter_literal_float_expr, float_division_expr, division_rendered, division_operand_limit, float_rule.
  cbn [fst snd]. cbv zeta. destruct (Z.eqb_spec d 1); [contradiction|]. reflexivity.
Qed.

(* whenever the integral form or the division form is rendered, the expression denotes exactly n/d *)
Theorem float_expr_denotes_rational : forall rf n d, 0 < d -> d = 1 \/ division_rendered n d = true ->
  const_float_rational rf n d = Some (n, d).
Proof.
  intros rf n d Hd H. unfold const_float_rational. destruct (Z.eq_dec d 1) as [->|Hd1].
  - rewrite float_expr_integral. apply integral_form_parses.
  - destruct H as [H|H]; [contradiction|]. rewrite float_expr_fraction by assumption. rewrite H. apply division_form_parses.
Qed.

(* otherwise the rendered text is exactly what the oracle (Python's repr(float(value))) returns *)
Theorem float_expr_out_of_range_is_oracle : forall rf n d, d <> 1 -> division_rendered n d = false ->
  const_float_expr rf n d = rf (n, d).
Proof. intros rf n d Hd H. rewrite float_expr_fraction by assumption. rewrite H. reflexivity. Qed.

(* the operands of a rendered division are floating constants within the range of double: under the 2^1023 rule because
   2^1023 < 2^1024 - 2^970; under the exact-operands rule each operand IS a double (float64_one_ulp in MetaC05FltThm.v) *)
Theorem float_operands_in_range : float_rule = DivIfBelowLimit -> forall rf n d, 0 < d -> d <> 1 -> division_rendered n d = true ->
  const_float_rational rf n d = Some (n, d) /\ float_lit_overflows n d = false /\ operands_in_range (const_float_rational rf n d) = true.
Proof.
  intros Hrule rf n d Hd Hd1 H. pose proof (float_expr_denotes_rational rf n d Hd (or_intror H)) as HR.
  assert (Ho : float_lit_overflows n d = false).
  { assert (HL : 2 ^ 1023 < dbl_lit_limit) by (vm_compute; reflexivity).
    unfold division_rendered in H. rewrite Hrule in H. unfold division_operand_limit in H. apply andb_true_iff in H. destruct H as [H1 H2].
    apply Z.ltb_lt in H1, H2. unfold float_lit_overflows. apply orb_false_iff. split; apply Z.leb_gt; lia. }
  split; [exact HR|]. split; [exact Ho|]. rewrite HR. unfold operands_in_range. rewrite Ho. reflexivity.
Qed.

(* the operand of the integral form is in range for every value the front end admits (|n| <= DBL_MAX < dbl_lit_limit) *)
Theorem float_integral_operand_in_range : forall rf n, Z.abs n < dbl_lit_limit ->
  const_float_rational rf n 1 = Some (n, 1) /\ float_lit_overflows n 1 = false.
Proof.
  intros rf n Hn. split; [apply float_expr_denotes_rational; [lia|left; reflexivity]|].
  assert (HL : 1 < dbl_lit_limit) by (vm_compute; reflexivity).
  unfold float_lit_overflows. apply orb_false_iff. split; apply Z.leb_gt; lia.
Qed.

(* documentation of the repaired defect F-FLOAT-LIT-RANGE: the OLD rendering (always the division) of DBL_MIN written
   2.2250738585072014e-308 = 11125369292536007 / (5 * 10^323), a normal double, has an out-of-range operand; the NEW code hands
   that constant to the oracle *)
Theorem float_operands_in_range_refuted : exists n d,
  0 < d /\ d <= n * 2 ^ 1022 /\ n < d /\ parse_fexpr (old_filter_literal_float_expr (n, d)) = Some (n, d) /\
  old_const_float_operands_in_range n d = false /\ (forall rf, const_float_expr rf n d = rf (n, d)).
Proof.
  exists 11125369292536007, (5 * 10 ^ 323). split; [reflexivity|]. split; [vm_compute; discriminate|]. split; [reflexivity|].
  split; [vm_compute; reflexivity|]. split; [vm_compute; reflexivity|].
  intro rf. apply float_expr_out_of_range_is_oracle; [vm_compute; discriminate|vm_compute; reflexivity].
Qed.

(* ---- boolean constants, names, Python class constants ---- *)
Lemma z_of_dec_py_str_int v : z_of_dec (py_str_int v) = v.
Proof.
  destruct (py_str_int_cases v) as [Hp Hn]. destruct (Z.le_gt_cases 0 v) as [Hv|Hv].
  - rewrite (Hp Hv). pose proof (read_dec_of_N (Z.to_N v) [] I) as HR. rewrite app_nil_r in HR.
    destruct (dec_of_N_shape (Z.to_N v)) as [c [r [E [Hc _]]]]. rewrite E in HR |- *. unfold z_of_dec.
    destruct (digit_not_special c Hc) as [_ H45]. apply N.eqb_neq in H45. rewrite H45, HR. cbn [fst]. apply Z2N.id. lia.
  - rewrite (Hn Hv). unfold z_of_dec. change (45 =? 45)%N with true. cbv iota.
    pose proof (read_dec_of_N (Z.to_N (- v)) [] I) as HR. rewrite app_nil_r in HR. rewrite HR. cbn [fst]. rewrite Z2N.id; lia.
Qed.

Theorem bool_literal_denotes : forall b,
  bool_token_denotes (filter_literal_bool c_lang b) = Some b /\ bool_token_denotes (filter_literal_bool cpp_lang b) = Some b.
Proof. intros [|]; split; reflexivity. Qed.

Theorem c_full_name_exact : forall m,
  c_full_name m = Some (tm_full_name m) /\
  c_full_name_and_version m = Some (tm_full_name m ++ [46%N] ++ py_str_int (tm_major m) ++ [46%N] ++ py_str_int (tm_minor m)).
Proof.
  intro m. unfold c_full_name, c_full_name_and_version. split.
  - cbv -[py_str_int app tm_full_name tm_major tm_minor]. rewrite app_nil_r. reflexivity.
  - cbv -[py_str_int app tm_full_name tm_major tm_minor]. rewrite app_nil_r. reflexivity.
Qed.

Theorem py_int_const_denotes : forall z, exists s, py_const_token (CVInt z) = Some s /\ z_of_dec s = z.
Proof.
  intro z. exists (py_str_int z). split; [|apply z_of_dec_py_str_int].
  unfold py_const_token. cbv -[py_str_int app]. rewrite app_nil_r. reflexivity.
Qed.

Theorem py_float_const_exact : forall n d,
  py_const_token (CVFrac n d) = Some (py_str_int n ++ [32; 47; 32]%N ++ py_str_int d) /\
  z_of_dec (py_str_int n) = n /\ z_of_dec (py_str_int d) = d.
Proof.
  intros n d. split; [|split; apply z_of_dec_py_str_int].
  unfold py_const_token. cbv -[py_str_int app]. rewrite app_nil_r. reflexivity.
Qed.

Theorem py_bool_const_exact : forall b, py_const_token (CVBool b) = Some (if b then s_True else s_False).
Proof. intros [|]; reflexivity. Qed.
