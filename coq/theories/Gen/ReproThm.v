(* C07 -- proofs about Gen/Repro.v: the run is independent of the environment (clock, hash order, cwd,
   absolute location) when auditing is off, at exactly the strength the regenerated source facts allow. *)
From Coq Require Import List NArith Bool Permutation Sorted Lia Morphisms.
From Verif Require Import Str Repro.
Import ListNotations.
Open Scope N_scope.

(* ---------------------------------------------------------------------------------------------- *)
(* (a) sorted() is canonical                                                                       *)
(* ---------------------------------------------------------------------------------------------- *)
Lemma str_leb_refl a : str_leb a a = true.
Proof. induction a as [|x a IH]; cbn; [reflexivity|]. rewrite N.ltb_irrefl, N.eqb_refl; exact IH. Qed.

Lemma str_leb_total a b : str_leb a b = true \/ str_leb b a = true.
Proof.
  revert b; induction a as [|x a IH]; intros [|y b]; cbn; auto.
  destruct (N.ltb_spec x y); auto. destruct (N.ltb_spec y x); auto.
  assert (x = y) by lia; subst. rewrite N.eqb_refl. apply IH.
Qed.

Lemma str_leb_trans a b c : str_leb a b = true -> str_leb b c = true -> str_leb a c = true.
Proof.
  revert b c; induction a as [|x a IH]; intros [|y b] [|z c]; cbn; auto; try discriminate.
  destruct (N.ltb_spec x y), (N.ltb_spec y z), (N.ltb_spec x z); auto; try lia;
    destruct (N.eqb_spec x y), (N.eqb_spec y z), (N.eqb_spec x z); try discriminate; try lia; auto.
  intros; eapply IH; eauto.
Qed.

Lemma str_leb_antisym a b : str_leb a b = true -> str_leb b a = true -> a = b.
Proof.
  revert b; induction a as [|x a IH]; intros [|y b]; cbn; auto; try discriminate.
  destruct (N.ltb_spec x y), (N.ltb_spec y x); try lia;
    destruct (N.eqb_spec x y), (N.eqb_spec y x); try discriminate; try lia.
  intros; subst; f_equal; auto.
Qed.

Definition sle (a b : str) : Prop := str_leb a b = true.

Lemma insert_perm x l : Permutation (x :: l) (insert_sorted x l).
Proof.
  induction l as [|y l IH]; cbn; [apply Permutation_refl|].
  destruct (str_leb x y); [apply Permutation_refl|].
  eapply perm_trans; [apply perm_swap|]. apply perm_skip; exact IH.
Qed.

Lemma sort_perm l : Permutation l (sort l).
Proof.
  induction l as [|x l IH]; cbn; [constructor|].
  eapply perm_trans; [apply perm_skip; exact IH | apply insert_perm].
Qed.

Lemma insert_ssorted x l : StronglySorted sle l -> StronglySorted sle (insert_sorted x l).
Proof.
  induction l as [|y l IH]; intros Hs; cbn.
  - constructor; constructor.
  - inversion Hs as [|? ? Hs' Hall]; subst.
    destruct (str_leb x y) eqn:E.
    + constructor; [exact Hs|]. constructor; [exact E|].
      eapply Forall_impl; [|exact Hall]. intros z Hz. unfold sle in *. eapply str_leb_trans; eauto.
    + constructor; [apply IH; exact Hs'|].
      assert (Hyx : sle y x) by (destruct (str_leb_total x y) as [H|H]; [congruence|exact H]).
      eapply Permutation_Forall; [apply insert_perm|]. constructor; assumption.
Qed.

Lemma sort_ssorted l : StronglySorted sle (sort l).
Proof. induction l as [|x l IH]; cbn; [constructor|]. apply insert_ssorted; exact IH. Qed.

Lemma ssorted_perm_eq l1 : forall l2,
  StronglySorted sle l1 -> StronglySorted sle l2 -> Permutation l1 l2 -> l1 = l2.
Proof.
  induction l1 as [|a l1 IH]; intros l2 H1 H2 HP.
  - apply Permutation_nil in HP; subst; reflexivity.
  - destruct l2 as [|b l2]; [apply Permutation_sym, Permutation_nil in HP; discriminate|].
    inversion H1 as [|? ? H1' A1]; inversion H2 as [|? ? H2' A2]; subst.
    assert (a = b) as ->.
    { assert (Ia : In a (b :: l2)) by (eapply Permutation_in; [exact HP|left; reflexivity]).
      assert (Ib : In b (a :: l1)) by (eapply Permutation_in; [apply Permutation_sym; exact HP|left; reflexivity]).
      destruct Ia as [->|Ia]; [reflexivity|]. destruct Ib as [->|Ib]; [reflexivity|].
      rewrite Forall_forall in A1, A2. apply str_leb_antisym; [apply A1; exact Ib | apply A2; exact Ia]. }
    f_equal. apply IH; try assumption. eapply Permutation_cons_inv; exact HP.
Qed.

Theorem sorted_canonical l1 l2 : Permutation l1 l2 -> sort l1 = sort l2.
Proof.
  intros HP. apply ssorted_perm_eq; try apply sort_ssorted.
  eapply perm_trans; [apply Permutation_sym, sort_perm|]. eapply perm_trans; [exact HP|apply sort_perm].
Qed.

(* sorted() really sorts and keeps the multiset: the model's [sort] is a specification of sorted(), not just
   some canonical function *)
Theorem sort_spec l : Permutation l (sort l) /\ StronglySorted sle (sort l).
Proof. split; [apply sort_perm | apply sort_ssorted]. Qed.


(* the same for sorted(key=...) in general: any total, transitive, ANTISYMMETRIC comparison gives a canonical result *)
Section GSort.
  Variable A : Type.
  Variable leb : A -> A -> bool.
  Hypothesis leb_total : forall a b, leb a b = true \/ leb b a = true.
  Hypothesis leb_trans : forall a b c, leb a b = true -> leb b c = true -> leb a c = true.
  Hypothesis leb_antisym : forall a b, leb a b = true -> leb b a = true -> a = b.
  Let gle (a b : A) : Prop := leb a b = true.

  Lemma ginsert_perm x l : Permutation (x :: l) (ginsert leb x l).
  Proof.
    induction l as [|y l IH]; cbn; [apply Permutation_refl|].
    destruct (leb x y); [apply Permutation_refl|].
    eapply perm_trans; [apply perm_swap|]. apply perm_skip; exact IH.
  Qed.

  Lemma gsort_perm l : Permutation l (gsort leb l).
  Proof.
    induction l as [|x l IH]; cbn; [constructor|].
    eapply perm_trans; [apply perm_skip; exact IH | apply ginsert_perm].
  Qed.

  Lemma ginsert_ssorted x l : StronglySorted gle l -> StronglySorted gle (ginsert leb x l).
  Proof.
    induction l as [|y l IH]; intros Hs; cbn.
    - constructor; constructor.
    - inversion Hs as [|? ? Hs' Hall]; subst.
      destruct (leb x y) eqn:E.
      + constructor; [exact Hs|]. constructor; [exact E|].
        eapply Forall_impl; [|exact Hall]. intros z Hz. unfold gle in *. eapply leb_trans; eauto.
      + constructor; [apply IH; exact Hs'|].
        assert (Hyx : gle y x) by (destruct (leb_total x y) as [H|H]; [congruence|exact H]).
        eapply Permutation_Forall; [apply ginsert_perm|]. constructor; assumption.
  Qed.

  Lemma gsort_ssorted l : StronglySorted gle (gsort leb l).
  Proof. induction l as [|x l IH]; cbn; [constructor|]. apply ginsert_ssorted; exact IH. Qed.

  Lemma gssorted_perm_eq l1 : forall l2,
    StronglySorted gle l1 -> StronglySorted gle l2 -> Permutation l1 l2 -> l1 = l2.
  Proof.
    induction l1 as [|a l1 IH]; intros l2 H1 H2 HP.
    - apply Permutation_nil in HP; subst; reflexivity.
    - destruct l2 as [|b l2]; [apply Permutation_sym, Permutation_nil in HP; discriminate|].
      inversion H1 as [|? ? H1' A1]; inversion H2 as [|? ? H2' A2]; subst.
      assert (a = b) as ->.
      { assert (Ia : In a (b :: l2)) by (eapply Permutation_in; [exact HP|left; reflexivity]).
        assert (Ib : In b (a :: l1)) by (eapply Permutation_in; [apply Permutation_sym; exact HP|left; reflexivity]).
        destruct Ia as [->|Ia]; [reflexivity|]. destruct Ib as [->|Ib]; [reflexivity|].
        rewrite Forall_forall in A1, A2. apply leb_antisym; [apply A1; exact Ib | apply A2; exact Ia]. }
      f_equal. apply IH; try assumption. eapply Permutation_cons_inv; exact HP.
  Qed.

  Theorem gsort_canonical l1 l2 : Permutation l1 l2 -> gsort leb l1 = gsort leb l2.
  Proof.
    intros HP. apply gssorted_perm_eq; try apply gsort_ssorted.
    eapply perm_trans; [apply Permutation_sym, gsort_perm|]. eapply perm_trans; [exact HP|apply gsort_perm].
  Qed.
End GSort.

(* a key with the exact name as tie-breaker, key = (k x, x), is such a comparison -- for EVERY key function k *)
Lemma pair_leb_total k a b : pair_leb k a b = true \/ pair_leb k b a = true.
Proof.
  unfold pair_leb. destruct (str_eqb_spec (k a) (k b)) as [E|E].
  - rewrite E, str_eqb_refl. apply str_leb_total.
  - destruct (str_eqb_spec (k b) (k a)) as [E'|E']; [congruence|]. apply str_leb_total.
Qed.

Lemma pair_leb_antisym k a b : pair_leb k a b = true -> pair_leb k b a = true -> a = b.
Proof.
  unfold pair_leb. destruct (str_eqb_spec (k a) (k b)) as [E|E].
  - rewrite E, str_eqb_refl. apply str_leb_antisym.
  - destruct (str_eqb_spec (k b) (k a)) as [E'|E']; [congruence|].
    intros H1 H2. exfalso. apply E. apply str_leb_antisym; assumption.
Qed.

Lemma pair_leb_trans k a b c : pair_leb k a b = true -> pair_leb k b c = true -> pair_leb k a c = true.
Proof.
  unfold pair_leb.
  destruct (str_eqb_spec (k a) (k b)) as [E1|E1]; destruct (str_eqb_spec (k b) (k c)) as [E2|E2];
    destruct (str_eqb_spec (k a) (k c)) as [E3|E3]; intros H1 H2; try congruence.
  - eapply str_leb_trans; eassumption.
  - exfalso. apply E1. apply str_leb_antisym; [exact H1|]. rewrite E3. exact H2.
  - eapply str_leb_trans; eassumption.
Qed.

Theorem keyed_sort_with_tiebreak_canonical k l1 l2 :
  Permutation l1 l2 -> gsort (pair_leb k) l1 = gsort (pair_leb k) l2.
Proof.
  apply gsort_canonical; [apply pair_leb_total | apply pair_leb_trans | apply pair_leb_antisym].
Qed.

(* without the tie-breaker the result depends on the input order as soon as two names tie: "Abc"/"abc", "u7"/"u07" *)
Theorem keyed_sort_without_tiebreak_refuted :
  exists l1 l2, Permutation l1 l2 /\ gsort (key_leb natkey) l1 <> gsort (key_leb natkey) l2.
Proof.
  exists [[117; 55]; [117; 48; 55]], [[117; 48; 55]; [117; 55]]. split; [apply perm_swap|]. vm_compute. discriminate.
Qed.

Lemma natkey_ties : natkey [117; 48; 48; 55] = natkey [85; 55] /\ natkey [65; 98; 99] = natkey [97; 98; 99].
Proof. vm_compute. split; reflexivity. Qed.

(* ---------------------------------------------------------------------------------------------- *)
(* small list facts                                                                                *)
(* ---------------------------------------------------------------------------------------------- *)
Lemma filter_perm {A} (p : A -> bool) l1 l2 : Permutation l1 l2 -> Permutation (filter p l1) (filter p l2).
Proof.
  induction 1 as [|x l l' _ IH|x y l|l l' l'' _ IH1 _ IH2]; cbn.
  - constructor.
  - destruct (p x); [apply perm_skip|]; exact IH.
  - destruct (p x), (p y); try apply Permutation_refl. apply perm_swap.
  - eapply perm_trans; eassumption.
Qed.

Lemma flat_map_pointwise {A B} (f g : A -> list B) l :
  (forall x, Permutation (f x) (g x)) -> Permutation (flat_map f l) (flat_map g l).
Proof. intros H; induction l as [|x l IH]; cbn; [constructor|]. apply Permutation_app; [apply H|exact IH]. Qed.

Lemma flat_map_perm2 {A B} (f g : A -> list B) l1 l2 :
  Permutation l1 l2 -> (forall x, Permutation (f x) (g x)) -> Permutation (flat_map f l1) (flat_map g l2).
Proof.
  intros HP H. eapply perm_trans; [apply flat_map_pointwise; exact H|].
  apply Permutation_flat_map; exact HP.
Qed.

Lemma strs_eqb_spec a b : reflect (a = b) (strs_eqb a b).
Proof.
  revert b; induction a as [|x a IH]; intros [|y b]; cbn; try (constructor; congruence).
  destruct (str_eqb_spec x y) as [->|Hne]; cbn.
  - destruct (IH b) as [->|Hne]; constructor; congruence.
  - constructor; congruence.
Qed.

(* ---------------------------------------------------------------------------------------------- *)
(* (b) order-irrelevance where the code does not sort                                              *)
(* ---------------------------------------------------------------------------------------------- *)
Lemma shuffle_perm2 (e1 e2 : env) A s (k : A -> str) l1 l2 :
  Permutation l1 l2 -> Permutation (e_shuffle e1 A s k l1) (e_shuffle e2 A s k l2).
Proof.
  intros HP. eapply perm_trans; [apply Permutation_sym, e_shuffle_perm|].
  eapply perm_trans; [exact HP|apply e_shuffle_perm].
Qed.

(* tree building: whatever order the second loop of build_namespace_tree visits namespace_index in, and whatever
   order the parent's set is iterated in, every namespace gets the same SET of children *)
(* Python's list-of-str comparison is a total, transitive, antisymmetric order *)
Lemma strs_leb_total a : forall b, strs_leb a b = true \/ strs_leb b a = true.
Proof.
  induction a as [|x a IH]; intros [|y b]; cbn; auto.
  destruct (str_eqb_spec x y) as [->|E].
  - rewrite str_eqb_refl. apply IH.
  - destruct (str_eqb_spec y x) as [E'|E']; [congruence|]. apply str_leb_total.
Qed.

Lemma strs_leb_antisym a : forall b, strs_leb a b = true -> strs_leb b a = true -> a = b.
Proof.
  induction a as [|x a IH]; intros [|y b]; cbn; auto; try discriminate.
  destruct (str_eqb_spec x y) as [->|E].
  - rewrite str_eqb_refl. intros H1 H2. f_equal. apply IH; assumption.
  - destruct (str_eqb_spec y x) as [E'|E']; [congruence|].
    intros H1 H2. exfalso. apply E. apply str_leb_antisym; assumption.
Qed.

Lemma strs_leb_trans a : forall b c, strs_leb a b = true -> strs_leb b c = true -> strs_leb a c = true.
Proof.
  induction a as [|x a IH]; intros [|y b] [|z c]; cbn; auto; try discriminate.
  destruct (str_eqb_spec x y) as [E1|E1]; destruct (str_eqb_spec y z) as [E2|E2];
    destruct (str_eqb_spec x z) as [E3|E3]; intros H1 H2; try congruence.
  - eapply IH; eassumption.
  - exfalso. apply E1. apply str_leb_antisym; [exact H1|]. rewrite E3. exact H2.
  - eapply str_leb_trans; eassumption.
Qed.

Lemma ns_sort_canonical l1 l2 : Permutation l1 l2 -> gsort strs_leb l1 = gsort strs_leb l2.
Proof. apply gsort_canonical; [intros a b; apply strs_leb_total | intros a b c; apply strs_leb_trans | intros a b; apply strs_leb_antisym]. Qed.

Lemma nested_raw_perm (e1 e2 : env) I p :
  Permutation (e_shuffle e1 _ (site_no SetNestedIter) ns_str (filter (is_child p) (loop2_order e1 I)))
              (e_shuffle e2 _ (site_no SetNestedIter) ns_str (filter (is_child p) (loop2_order e2 I))).
Proof. unfold loop2_order. apply shuffle_perm2, filter_perm, shuffle_perm2, Permutation_refl. Qed.

Lemma nested_perm sf e1 e2 I p : Permutation (nested sf e1 I p) (nested sf e2 I p).
Proof.
  unfold nested. destruct (sf_nested_sorted sf); [|apply nested_raw_perm].
  eapply perm_trans; [apply Permutation_sym, gsort_perm|]. eapply perm_trans; [apply nested_raw_perm|apply gsort_perm].
Qed.

(* get_nested_namespaces() sorted by the namespace name: the SAME LIST in every environment *)
Lemma nested_env_indep sf e1 e2 I p : sf_nested_sorted sf = true -> nested sf e1 I p = nested sf e2 I p.
Proof. intros H. unfold nested. rewrite H. apply ns_sort_canonical, nested_raw_perm. Qed.

Lemma nested_children sf e I p c : In c (nested sf e I p) <-> In c (ns_index I) /\ is_child p c = true.
Proof.
  assert (R : forall x, In x (nested sf e I p) <->
                        In x (e_shuffle e _ (site_no SetNestedIter) ns_str (filter (is_child p) (loop2_order e I)))).
  { intros x. unfold nested. destruct (sf_nested_sorted sf); [|reflexivity].
    split; intros H; (eapply Permutation_in; [|exact H]); [apply Permutation_sym, gsort_perm | apply gsort_perm]. }
  rewrite R. unfold loop2_order. split.
  - intros H. eapply Permutation_in in H; [|apply Permutation_sym, e_shuffle_perm].
    apply filter_In in H as [H Hc]. split; [|exact Hc].
    eapply Permutation_in; [apply Permutation_sym, e_shuffle_perm|exact H].
  - intros [H Hc]. eapply Permutation_in; [apply e_shuffle_perm|].
    apply filter_In; split; [|exact Hc]. eapply Permutation_in; [apply e_shuffle_perm|exact H].
Qed.

(* generation order: the same multiset of items whatever the hash order *)
Lemma walk_perm sf e1 e2 I g fuel : forall n, Permutation (walk sf fuel e1 I g n) (walk sf fuel e2 I g n).
Proof.
  induction fuel as [|f IH]; intros n; cbn [walk]; [constructor|].
  apply Permutation_app_head, Permutation_app_head.
  apply flat_map_perm2; [apply nested_perm|exact IH].
Qed.

Lemma gen_order_perm sf e1 e2 c I : Permutation (gen_order sf e1 c I) (gen_order sf e2 c I).
Proof.
  unfold gen_order. apply Permutation_app_head. destruct (root_of I); [apply walk_perm|constructor].
Qed.

(* ... and, with get_nested_namespaces() sorted, the same SEQUENCE: the order in which files are generated is itself
   independent of the environment (what 9b93945 established) *)
Lemma walk_env_indep sf e1 e2 I g fuel : sf_nested_sorted sf = true ->
  forall n, walk sf fuel e1 I g n = walk sf fuel e2 I g n.
Proof.
  intros H. induction fuel as [|f IH]; intros n; cbn [walk]; [reflexivity|].
  rewrite (nested_env_indep sf e1 e2 I n H). do 2 f_equal.
  apply flat_map_ext. exact IH.
Qed.

Theorem gen_order_env_indep sf e1 e2 c I : sf_nested_sorted sf = true -> gen_order sf e1 c I = gen_order sf e2 c I.
Proof.
  intros H. unfold gen_order. f_equal. destruct (root_of I); [apply walk_env_indep; exact H|reflexivity].
Qed.

(* _bfs_search_for_output_path iterates _nested_namespaces too, but only to look a type up in the per-namespace
   dicts, and at most one namespace holds a given type: a search with a unique hit is order-independent *)
Lemma find_unique_perm {A} (p : A -> bool) l1 l2 :
  Permutation l1 l2 ->
  (forall x y, In x l1 -> In y l1 -> p x = true -> p y = true -> x = y) ->
  find p l1 = find p l2.
Proof.
  intros HP Hu.
  destruct (find p l1) as [x|] eqn:F1.
  - apply find_some in F1 as [I1 P1].
    destruct (find p l2) as [y|] eqn:F2.
    + apply find_some in F2 as [I2 P2]. f_equal. apply Hu; auto.
      eapply Permutation_in; [apply Permutation_sym; exact HP|exact I2].
    + eapply find_none in F2; [|eapply Permutation_in; [exact HP|exact I1]]. congruence.
  - destruct (find p l2) as [y|] eqn:F2; [|reflexivity].
    apply find_some in F2 as [I2 P2].
    eapply find_none in F1; [|eapply Permutation_in; [apply Permutation_sym; exact HP|exact I2]]. congruence.
Qed.

(* ---------------------------------------------------------------------------------------------- *)
(* (c) per file: include list, header, body                                                        *)
(* ---------------------------------------------------------------------------------------------- *)
Lemma flat_map_nil {A B} (f : A -> list B) l : (forall x, In x l -> f x = []) -> flat_map f l = [].
Proof. intros H; induction l as [|x l IH]; cbn; [reflexivity|]. rewrite H by (left; reflexivity). apply IH. intros; apply H; right; assumption. Qed.

(* every inventory row accounted for => nothing of the environment is shown through the "unknown" channel *)
Lemma unknown_leak_nil t e : tables_ok t = true -> unknown_leak t e = [].
Proof.
  unfold tables_ok. intros H. repeat (apply andb_prop in H as [H ?]).
  unfold unknown_leak.
  repeat match goal with Hx : forallb _ _ = true |- _ => rewrite forallb_forall in Hx end.
  rewrite !flat_map_nil; [reflexivity| | | | | |]; intros x Hx.
  - rewrite H0; [reflexivity|exact Hx].
  - rewrite H1; [reflexivity|exact Hx].
  - rewrite H2; [reflexivity|exact Hx].
  - rewrite H3; [reflexivity|exact Hx].
  - unfold leak_of_read. rewrite H4; [reflexivity|exact Hx].
  - rewrite H; [reflexivity|exact Hx].
Qed.

Section Indep.
  Variable B : Type.
  Variable sf : src_facts.
  Variable tbl : list site.
  Variable render : env -> cfg -> item -> list (list str) -> B.
  (* NAMED PREMISE: the real template body (engine, filters, tests, globals) looks at the environment only through
     [body_view] = the audit view + what the regenerated inventories leave unaccounted for.  Its backing facts are the
     inventories themselves ([tables_ok]: every filter/test/global reaching templates was scanned for ambient reads, every
     included file was scanned, ...); what no scan can see (vendored Jinja2, pydsdl, stdlib internals) is covered only by
     the paired real runs. *)
  Hypothesis render_pure : render_sees_only_body_view B sf render.

  (* what two environments must still agree on, given the ungated uses the table shows for the language:
     nothing at all when every use is gated *)
  Definition env_agree (l : lang) (e1 e2 : env) : Prop :=
    (ungated tbl l KClock = true -> e_clock e1 = e_clock e2) /\
    (ungated tbl l KAbsSrc || ungated tbl l KPickle
       || (ungated tbl l KPlatform && negb (sf_platform_gated sf))
       || (ungated tbl l KTmplSets && negb (sf_template_sets_pure sf)) = true -> e_abs e1 = e_abs e2) /\
    (ungated tbl l KCwd = true -> e_cwd e1 = e_cwd e2) /\
    (ungated tbl l KOutPath = true -> e_out e1 = e_out e2).

  (* the source facts the order-independence needs for this configuration *)
  (* configuration files, if any, are loaded in command-line order *)
  Definition config_order_ok (c : cfg) : bool :=
    match c_config_files c with [] => true | _ => sf_config_cmdline_order sf end.

  Definition order_facts (c : cfg) : bool :=
    (negb (uses_includes (c_lang c)) || sf_inc_sorted sf) && negb (ungated tbl (c_lang c) KNsIter) && sf_natsort_total sf
    && config_order_ok c && tables_ok (sf_tables sf).

  Lemma include_list_indep e1 e2 c d :
    sf_inc_sorted sf = true -> include_list sf e1 c d = include_list sf e2 c d.
  Proof.
    intros Hs. unfold include_list. rewrite Hs. apply sorted_canonical.
    apply Permutation_app_tail, Permutation_map. unfold deps_iter. apply shuffle_perm2, Permutation_refl.
  Qed.

  Lemma ungated_intro l k s : In s tbl -> lang_eqb (s_lang s) l = true -> s_kind s = k -> s_gated s = false ->
    ungated tbl l k = true.
  Proof.
    intros Hin Hl Hk Hg. unfold ungated. apply existsb_exists. exists s. split; [exact Hin|].
    rewrite Hl, Hk, Hg. destruct k; reflexivity.
  Qed.

  Lemma eval_site_indep e1 e2 c it s :
    c_embed_audit c = false -> In s tbl -> lang_eqb (s_lang s) (c_lang c) = true ->
    env_agree (c_lang c) e1 e2 -> eval_site sf e1 c it s = eval_site sf e2 c it s.
  Proof.
    intros Ha Hin Hl (Hc & Hp & Hw & Ho). unfold eval_site. rewrite Ha. cbn [negb]. rewrite andb_true_r.
    destruct (s_gated s) eqn:Hg; [reflexivity|].
    destruct (s_kind s) eqn:Hk; cbn [orb].
    - rewrite Hc; [reflexivity|]. eapply ungated_intro; eauto.
    - rewrite Hp; [reflexivity|]. erewrite (ungated_intro _ KAbsSrc); eauto.
    - rewrite Hp; [reflexivity|]. erewrite (ungated_intro _ KPickle); eauto. rewrite orb_true_r. reflexivity.
    - rewrite Hw; [reflexivity|]. eapply ungated_intro; eauto.
    - rewrite Ho; [reflexivity|]. eapply ungated_intro; eauto.
    - destruct (sf_platform_gated sf) eqn:Hpg; cbn [negb]; [reflexivity|].
      rewrite Hp; [reflexivity|]. erewrite (ungated_intro _ KPlatform); eauto.
      cbn [andb negb]. rewrite orb_true_r. reflexivity.
    - reflexivity.
    - reflexivity.
    - destruct (sf_template_sets_pure sf) eqn:Hts; cbn [negb]; [rewrite andb_false_r; reflexivity|].
      rewrite Hp; [reflexivity|]. erewrite (ungated_intro _ KTmplSets); eauto.
      cbn [andb negb]. rewrite orb_true_r. reflexivity.
  Qed.

  Lemma header_indep e1 e2 c it :
    c_embed_audit c = false -> config_order_ok c = true -> tables_ok (sf_tables sf) = true -> env_agree (c_lang c) e1 e2 ->
    header sf tbl e1 c it = header sf tbl e2 c it.
  Proof.
    intros Ha Hco Htb Hag. unfold header. rewrite !(unknown_leak_nil _ _ Htb). cbn [app]. f_equal.
    2:{ unfold config_order_ok in Hco. destruct (c_config_files c) eqn:E; [reflexivity|].
        unfold eff_option, load_order. rewrite Hco. reflexivity. }
    apply map_ext_in. intros s Hs. apply filter_In in Hs as [Hin Hf].
    apply andb_prop in Hf as [Hl _]. apply eval_site_indep; assumption.
  Qed.

  Lemma nested_view_indep e1 e2 c I it :
    ungated tbl (c_lang c) KNsIter = false -> sf_natsort_total sf = true ->
    nested_view sf tbl e1 c I it = nested_view sf tbl e2 c I it.
  Proof.
    intros Hn Ht. unfold nested_view, ns_sorted_in_templates, nat_leb. rewrite Hn, Ht. cbn [negb].
    destruct it; try reflexivity. f_equal. apply keyed_sort_with_tiebreak_canonical, Permutation_map, nested_perm.
  Qed.

  Lemma mk_write_indep e1 e2 c I it :
    c_embed_audit c = false -> order_facts c = true -> env_agree (c_lang c) e1 e2 ->
    mk_write B sf tbl render e1 c I it = mk_write B sf tbl render e2 c I it.
  Proof.
    intros Ha Hof Hag. apply andb_prop in Hof as [Hof Htb]. apply andb_prop in Hof as [Hof Hco]. apply andb_prop in Hof as [Hof Hnat].
    apply andb_prop in Hof as [Hinc Hns]. apply negb_true_iff in Hns.
    unfold mk_write. f_equal. f_equal.
    - apply header_indep; assumption.
    - destruct it; try reflexivity. destruct (uses_includes (c_lang c)); [|reflexivity].
      apply include_list_indep. exact Hinc.
    - rewrite (nested_view_indep e1 e2 c I it Hns Hnat). apply render_pure.
      unfold body_view, audit_view. rewrite Ha, !(unknown_leak_nil _ _ Htb). reflexivity.
  Qed.

  (* the multiset of (relative path, content) writes does not depend on the environment *)
  Theorem writes_env_indep e1 e2 c I :
    c_embed_audit c = false -> order_facts c = true -> env_agree (c_lang c) e1 e2 ->
    Permutation (writes B sf tbl render e1 c I) (writes B sf tbl render e2 c I).
  Proof.
    intros Ha Hof Hag. unfold writes.
    rewrite (map_ext _ _ (fun it => mk_write_indep e1 e2 c I it Ha Hof Hag)).
    apply Permutation_map, gen_order_perm.
  Qed.

  (* same set of relative paths *)
  Theorem out_paths_env_indep e1 e2 c I :
    Permutation (out_paths B sf tbl render e1 c I) (out_paths B sf tbl render e2 c I).
  Proof.
    unfold out_paths, writes. rewrite !map_map. cbn [mk_write fst]. apply Permutation_map, gen_order_perm.
  Qed.

  (* -- from writes to the directory contents ----------------------------------------------------- *)
  Lemma lookup_last_absent p (w : list (list (list N) * fcontent B)) : forall acc,
    ~ In p (map fst w) -> lookup_last B p w acc = acc.
  Proof.
    induction w as [|[q x] w IH]; intros acc Hn; cbn; [reflexivity|].
    cbn in Hn. destruct (strs_eqb_spec p q) as [->|Hne]; [exfalso; apply Hn; left; reflexivity|].
    apply IH. intros H; apply Hn; right; exact H.
  Qed.

  Lemma lookup_last_in p x (w : list (list (list N) * fcontent B)) : forall acc,
    NoDup (map fst w) -> In (p, x) w -> lookup_last B p w acc = Some x.
  Proof.
    induction w as [|[q y] w IH]; intros acc Hnd Hin; [destruct Hin|].
    cbn in Hnd. inversion Hnd as [|? ? Hq Hnd']; subst. cbn.
    destruct Hin as [Heq|Hin].
    - inversion Heq; subst. destruct (strs_eqb_spec p p) as [_|Hne]; [|congruence].
      apply lookup_last_absent; exact Hq.
    - apply IH; assumption.
  Qed.

  Lemma path_in_dec (p : list (list N)) l : {In p l} + {~ In p l}.
  Proof. apply in_dec. apply list_eq_dec, list_eq_dec, N.eq_dec. Qed.

  Lemma lookup_last_perm p (w1 w2 : list (list (list N) * fcontent B)) :
    NoDup (map fst w1) -> Permutation w1 w2 -> lookup_last B p w1 None = lookup_last B p w2 None.
  Proof.
    intros Hnd HP.
    assert (Hnd2 : NoDup (map fst w2)) by (eapply Permutation_NoDup; [apply Permutation_map; exact HP|exact Hnd]).
    destruct (path_in_dec p (map fst w1)) as [Hin|Hn].
    - apply in_map_iff in Hin as ([q x] & Hq & Hin). cbn in Hq; subst q.
      rewrite (lookup_last_in p x w1 None Hnd Hin).
      symmetry. apply lookup_last_in; [exact Hnd2|]. eapply Permutation_in; eassumption.
    - rewrite lookup_last_absent by exact Hn.
      rewrite lookup_last_absent; [reflexivity|].
      intros H; apply Hn. eapply Permutation_in; [apply Permutation_sym, Permutation_map; exact HP|exact H].
  Qed.

  (* the theorem of the property: with auditing off, distinct output paths (C11) and environments that agree on
     what the table says is shown ungated (nothing, when all uses are gated), the output directory is the same *)
  Theorem run_env_indep_gen e1 e2 c I :
    c_embed_audit c = false -> order_facts c = true -> env_agree (c_lang c) e1 e2 ->
    NoDup (out_paths B sf tbl render e1 c I) ->
    forall p, files B sf tbl render e1 c I p = files B sf tbl render e2 c I p.
  Proof.
    intros Ha Hof Hag Hnd p. unfold files. apply lookup_last_perm; [exact Hnd|].
    apply writes_env_indep; assumption.
  Qed.

  (* the state of the output directory: when no file is skipped because of what is already there, every generated path holds
     exactly what a run into an empty directory puts there, whatever the directory held before *)
  Lemma lookup_last_app p (a b : list (list (list N) * fcontent B)) acc :
    lookup_last B p (a ++ b) acc = lookup_last B p b (lookup_last B p a acc).
  Proof. revert acc; induction a as [|[q x] a IH]; intros acc; cbn; [reflexivity|apply IH]. Qed.

  Lemma lookup_last_hit p (w : list (list (list N) * fcontent B)) : forall acc1 acc2,
    In p (map fst w) -> lookup_last B p w acc1 = lookup_last B p w acc2.
  Proof.
    induction w as [|[q x] w IH]; intros acc1 acc2 Hin; [destruct Hin|]. cbn.
    destruct (path_in_dec p (map fst w)) as [H|H]; [apply IH; exact H|].
    rewrite !lookup_last_absent by exact H.
    destruct Hin as [Heq|Hin]; [|contradiction]. cbn in Heq; subst q.
    destruct (strs_eqb_spec p p); [reflexivity|congruence].
  Qed.

  Lemma writes_into_all fs0 e c I :
    sf_outputs_always_written sf = true -> writes_into B sf tbl render fs0 e c I = writes B sf tbl render e c I.
  Proof.
    intros H. unfold writes_into, writes. rewrite H. cbn [orb].
    induction (gen_order sf e c I) as [|it l IH]; cbn; [reflexivity|]. rewrite IH. destruct it; reflexivity.
  Qed.

  Theorem output_dir_history_irrelevant fs0 e c I p :
    sf_outputs_always_written sf = true -> In p (out_paths B sf tbl render e c I) ->
    files_into B sf tbl render fs0 e c I p = files B sf tbl render e c I p.
  Proof.
    intros H Hin. unfold files_into, files. rewrite (writes_into_all fs0 e c I H), lookup_last_app.
    apply lookup_last_hit. exact Hin.
  Qed.

  (* when every use in the language is gated (or not ambient), no agreement is needed at all *)
  Lemma clean_no_ungated l k :
    lang_clean sf tbl l = true -> k <> KPlatform -> k <> KTmplSets -> ungated tbl l k = false.
  Proof.
    intros Hc Hk Hk'. unfold ungated. apply not_true_is_false. intros H. apply existsb_exists in H as (s & Hin & Hs).
    unfold lang_clean in Hc. rewrite forallb_forall in Hc. specialize (Hc s Hin).
    apply andb_prop in Hs as [Hs Hg]. apply andb_prop in Hs as [Hl Hkk]. rewrite Hl in Hc. cbn [negb orb] in Hc.
    unfold site_ok in Hc. apply negb_true_iff in Hg. rewrite Hg in Hc. cbn [orb] in Hc.
    destruct (s_kind s) eqn:E; try discriminate; destruct k; try discriminate; congruence.
  Qed.

  Lemma clean_platform l :
    lang_clean sf tbl l = true -> ungated tbl l KPlatform && negb (sf_platform_gated sf) = false.
  Proof.
    intros Hc. destruct (ungated tbl l KPlatform) eqn:U; [|reflexivity]. cbn.
    unfold ungated in U. apply existsb_exists in U as (s & Hin & Hs).
    unfold lang_clean in Hc. rewrite forallb_forall in Hc. specialize (Hc s Hin).
    apply andb_prop in Hs as [Hs Hg]. apply andb_prop in Hs as [Hl Hkk]. rewrite Hl in Hc. cbn [negb orb] in Hc.
    unfold site_ok in Hc. apply negb_true_iff in Hg. rewrite Hg in Hc. cbn [orb] in Hc.
    destruct (s_kind s); try discriminate. rewrite Hc. reflexivity.
  Qed.

  Lemma clean_tmplsets l :
    lang_clean sf tbl l = true -> ungated tbl l KTmplSets && negb (sf_template_sets_pure sf) = false.
  Proof.
    intros Hc. destruct (ungated tbl l KTmplSets) eqn:U; [|reflexivity]. cbn.
    unfold ungated in U. apply existsb_exists in U as (s & Hin & Hs).
    unfold lang_clean in Hc. rewrite forallb_forall in Hc. specialize (Hc s Hin).
    apply andb_prop in Hs as [Hs Hg]. apply andb_prop in Hs as [Hl Hkk]. rewrite Hl in Hc. cbn [negb orb] in Hc.
    unfold site_ok in Hc. apply negb_true_iff in Hg. rewrite Hg in Hc. cbn [orb] in Hc.
    destruct (s_kind s); try discriminate. rewrite Hc. reflexivity.
  Qed.

  Lemma clean_env_agree l e1 e2 : lang_clean sf tbl l = true -> env_agree l e1 e2.
  Proof.
    intros Hc. unfold env_agree.
    rewrite (clean_no_ungated l KClock Hc), (clean_no_ungated l KAbsSrc Hc), (clean_no_ungated l KPickle Hc),
            (clean_no_ungated l KCwd Hc), (clean_no_ungated l KOutPath Hc), (clean_platform l Hc), (clean_tmplsets l Hc) by discriminate.
    cbn. repeat split; discriminate.
  Qed.

  Lemma clean_order_facts c :
    lang_clean sf tbl (c_lang c) = true -> sf_inc_sorted sf = true -> sf_natsort_total sf = true ->
    sf_config_cmdline_order sf = true -> tables_ok (sf_tables sf) = true -> order_facts c = true.
  Proof.
    intros Hc Hs Hn Hco Htb. unfold order_facts, config_order_ok.
    rewrite Hs, Hn, Hco, Htb, (clean_no_ungated _ KNsIter Hc) by discriminate.
    rewrite orb_true_r. destruct (c_config_files c); reflexivity.
  Qed.

  (* with get_nested_namespaces() sorted the two runs perform the SAME SEQUENCE of writes: no premise about distinct paths
     is needed (two items folding onto one path are overwritten in the same order in both runs) *)
  Theorem writes_env_eq e1 e2 c I :
    c_embed_audit c = false -> order_facts c = true -> env_agree (c_lang c) e1 e2 -> sf_nested_sorted sf = true ->
    writes B sf tbl render e1 c I = writes B sf tbl render e2 c I.
  Proof.
    intros Ha Hof Hag Hns. unfold writes. rewrite (gen_order_env_indep sf e1 e2 c I Hns).
    apply map_ext. intros it. apply mk_write_indep; assumption.
  Qed.

  Theorem run_env_indep_seq e1 e2 c I :
    c_embed_audit c = false -> order_facts c = true -> env_agree (c_lang c) e1 e2 -> sf_nested_sorted sf = true ->
    forall p, files B sf tbl render e1 c I p = files B sf tbl render e2 c I p.
  Proof. intros Ha Hof Hag Hns p. unfold files. rewrite (writes_env_eq e1 e2 c I Ha Hof Hag Hns). reflexivity. Qed.


  Theorem run_env_indep_clean e1 e2 c I :
    c_embed_audit c = false -> src_facts_ok sf = true -> lang_clean sf tbl (c_lang c) = true ->
    forall p, files B sf tbl render e1 c I p = files B sf tbl render e2 c I p.
  Proof.
    intros Ha Hsf Hc. unfold src_facts_ok in Hsf. repeat (apply andb_prop in Hsf as [Hsf ?]).
    apply run_env_indep_seq; [exact Ha | apply clean_order_facts; assumption | apply clean_env_agree; exact Hc | assumption].
  Qed.


  (* the only ungated use being `T | pickle` (F-PY-PICKLEPATH): everything but the absolute location is still
     irrelevant *)
  Lemma pickle_only_no_ungated l k :
    lang_clean_but_pickle sf tbl l = true -> k <> KPlatform -> k <> KPickle -> k <> KTmplSets -> ungated tbl l k = false.
  Proof.
    intros Hc Hk Hk2 Hk3. unfold ungated. apply not_true_is_false. intros H. apply existsb_exists in H as (s & Hin & Hs).
    unfold lang_clean_but_pickle in Hc. rewrite forallb_forall in Hc. specialize (Hc s Hin).
    apply andb_prop in Hs as [Hs Hg]. apply andb_prop in Hs as [Hl Hkk]. rewrite Hl in Hc. cbn [negb orb] in Hc.
    unfold site_ok, is_py_pickle in Hc. apply negb_true_iff in Hg. rewrite Hg in Hc. cbn [orb] in Hc.
    destruct (s_kind s) eqn:E; destruct k; try discriminate; try congruence;
      rewrite ?andb_false_r in Hc; cbn in Hc; try discriminate.
  Qed.

  Lemma pickle_only_platform l :
    lang_clean_but_pickle sf tbl l = true -> ungated tbl l KPlatform && negb (sf_platform_gated sf) = false.
  Proof.
    intros Hc. destruct (ungated tbl l KPlatform) eqn:U; [|reflexivity]. cbn.
    unfold ungated in U. apply existsb_exists in U as (s & Hin & Hs).
    unfold lang_clean_but_pickle in Hc. rewrite forallb_forall in Hc. specialize (Hc s Hin).
    apply andb_prop in Hs as [Hs Hg]. apply andb_prop in Hs as [Hl Hkk]. rewrite Hl in Hc. cbn [negb orb] in Hc.
    unfold site_ok, is_py_pickle in Hc. apply negb_true_iff in Hg. rewrite Hg in Hc. cbn [orb] in Hc.
    destruct (s_kind s); try discriminate. rewrite andb_false_r in Hc. cbn in Hc. rewrite orb_false_r in Hc.
    rewrite Hc. reflexivity.
  Qed.

  Lemma pickle_only_tmplsets l :
    lang_clean_but_pickle sf tbl l = true -> ungated tbl l KTmplSets && negb (sf_template_sets_pure sf) = false.
  Proof.
    intros Hc. destruct (ungated tbl l KTmplSets) eqn:U; [|reflexivity]. cbn.
    unfold ungated in U. apply existsb_exists in U as (s & Hin & Hs).
    unfold lang_clean_but_pickle in Hc. rewrite forallb_forall in Hc. specialize (Hc s Hin).
    apply andb_prop in Hs as [Hs Hg]. apply andb_prop in Hs as [Hl Hkk]. rewrite Hl in Hc. cbn [negb orb] in Hc.
    unfold site_ok, is_py_pickle in Hc. apply negb_true_iff in Hg. rewrite Hg in Hc. cbn [orb] in Hc.
    destruct (s_kind s); try discriminate. rewrite andb_false_r in Hc. cbn in Hc. rewrite orb_false_r in Hc.
    rewrite Hc. reflexivity.
  Qed.

  Theorem run_env_indep_same_location e1 e2 c I :
    c_embed_audit c = false -> src_facts_ok sf = true -> lang_clean_but_pickle sf tbl (c_lang c) = true ->
    e_abs e1 = e_abs e2 ->
    forall p, files B sf tbl render e1 c I p = files B sf tbl render e2 c I p.
  Proof.
    intros Ha Hsf Hc Habs. unfold src_facts_ok in Hsf. repeat (apply andb_prop in Hsf as [Hsf ?]).
    apply run_env_indep_seq; [exact Ha| | |assumption].
    - unfold order_facts, config_order_ok. rewrite Hsf, (pickle_only_no_ungated _ KNsIter Hc) by discriminate.
      rewrite orb_true_r. cbn [negb andb].
      repeat match goal with H : _ = true |- _ => rewrite H end.
      destruct (c_config_files c); reflexivity.
    - unfold env_agree.
      rewrite (pickle_only_no_ungated _ KClock Hc), (pickle_only_no_ungated _ KCwd Hc), (pickle_only_no_ungated _ KOutPath Hc) by discriminate.
      repeat split; try discriminate. intros _; exact Habs.
  Qed.

End Indep.

(* distinct output paths is itself independent of the environment (so the premise may be checked in any) *)
Lemma nodup_paths_env_indep B sf tbl render e1 e2 c I :
  NoDup (out_paths B sf tbl render e1 c I) -> NoDup (out_paths B sf tbl render e2 c I).
Proof. apply Permutation_NoDup, out_paths_env_indep. Qed.

(* ---------------------------------------------------------------------------------------------- *)
(* refutations: what happens when a use is not gated / a sort is missing (faithful model, concrete)  *)
(* ---------------------------------------------------------------------------------------------- *)
Definition s (l : list N) : str := l.
Definition k_A : tykey := {| k_ns := [[110; 115]]; k_short := [65]; k_major := 1; k_minor := 0 |}.
Definition k_B : tykey := {| k_ns := [[110; 115]; [115; 117; 98]]; k_short := [66]; k_major := 1; k_minor := 0 |}.
Definition k_C : tykey := {| k_ns := [[110; 115]; [116; 111; 112]]; k_short := [67]; k_major := 2; k_minor := 3 |}.
Definition k_D : tykey := {| k_ns := [[100; 101; 112]]; k_short := [68]; k_major := 1; k_minor := 0 |}.
Definition d_A : tydecl := {| d_key := k_A; d_deps := [k_D; k_B; k_C; k_B]; d_std := [[60; 115; 116; 100; 105; 110; 116; 46; 104; 62]];
                              d_src := [[110; 115]; [65; 46; 49; 46; 48; 46; 100; 115; 100; 108]] |}.
Definition d_B : tydecl := {| d_key := k_B; d_deps := []; d_std := [];
                              d_src := [[110; 115]; [115; 117; 98]; [66; 46; 49; 46; 48; 46; 100; 115; 100; 108]] |}.
Definition d_C : tydecl := {| d_key := k_C; d_deps := [k_B]; d_std := [];
                              d_src := [[110; 115]; [116; 111; 112]; [67; 46; 50; 46; 51; 46; 100; 115; 100; 108]] |}.
Definition ex_inputs : list tydecl := [d_A; d_B; d_C].

Definition mk_cfg (l : lang) (audit : bool) : cfg :=
  {| c_lang := l;
     c_ext := match l with LC => [46; 104] | LCpp => [46; 104; 112; 112] | LPy => [46; 112; 121] | LHtml => [46; 104; 116; 109; 108] end;
     c_stem := match l with LPy => [95; 95; 105; 110; 105; 116; 95; 95] | _ => [95] end;
     c_gen_ns := match l with LPy | LHtml => true | _ => false end;
     c_config_files := []; c_user_templates := false; c_embed_audit := audit; c_omit_ser := false; c_prefer_sys := match l with LC => true | _ => false end;
     c_support_incs := match l with LC => [[110; 47; 115; 46; 104]] | LCpp => [[110; 47; 115; 46; 104; 112; 112]] | _ => [] end;
     c_support_files := match l with LC => [[[110]; [115; 46; 104]]] | LCpp => [[[110]; [115; 46; 104; 112; 112]]]
                                   | LPy => [[[110; 115; 117; 112; 46; 112; 121]]] | LHtml => [] end |}.

Definition env_a : env := mk_env 1000 [[119]] [[97]] 0.
Definition env_b : env := mk_env 2000 [[120]] [[98; 98]] 1.
Definition env_b_same_abs : env := mk_env 2000 [[120]] [[97]] 2.
Definition env_c : env := mk_env 3000 [[121]] [[99]; [100]] 2.
Definition env_d : env := mk_env 1000 [[119]] [[97]] 3.

Definition render0 : env -> cfg -> item -> list (list str) -> list (list str) := fun _ _ _ v => v.
Lemma render0_pure sf : render_sees_only_body_view _ sf render0.
Proof. intros e1 e2 c it v _. reflexivity. Qed.
Definition p_A (c : cfg) : list str := item_path c (ITy d_A).

Theorem py_pickle_abs_path_refuted :
  exists I e1 e2 p,
    files _ facts_all_true tbl_py_pickle render0 e1 (mk_cfg LPy false) I p
    <> files _ facts_all_true tbl_py_pickle render0 e2 (mk_cfg LPy false) I p.
Proof. exists ex_inputs, env_a, env_b, (p_A (mk_cfg LPy false)). vm_compute. discriminate. Qed.

Theorem c_abs_path_refuted :
  exists I e1 e2 p,
    files _ facts_all_true tbl_c_abspath render0 e1 (mk_cfg LC false) I p
    <> files _ facts_all_true tbl_c_abspath render0 e2 (mk_cfg LC false) I p.
Proof. exists ex_inputs, env_a, env_b, (p_A (mk_cfg LC false)). vm_compute. discriminate. Qed.

Theorem py_ns_timestamp_refuted :
  exists I e1 e2 p,
    files _ facts_all_true tbl_py_nstime render0 e1 (mk_cfg LPy false) I p
    <> files _ facts_all_true tbl_py_nstime render0 e2 (mk_cfg LPy false) I p.
Proof. exists ex_inputs, env_a, env_b, (item_path (mk_cfg LPy false) (INs [[110; 115]])). vm_compute. discriminate. Qed.

Theorem unsorted_includes_refuted :
  exists I e1 e2 p,
    files _ facts_inc_unsorted [] render0 e1 (mk_cfg LC false) I p
    <> files _ facts_inc_unsorted [] render0 e2 (mk_cfg LC false) I p.
Proof. exists ex_inputs, env_a, env_b, (p_A (mk_cfg LC false)). vm_compute. discriminate. Qed.

Definition tbl_nsiter : list site :=
  [ {| s_lang := LPy; s_group := GNs; s_kind := KNsIter; s_gated := false; s_line := 1 |} ].
Theorem unsorted_namespace_iteration_refuted :
  exists I e1 e2 p,
    files _ facts_nested_unsorted tbl_nsiter render0 e1 (mk_cfg LPy false) I p
    <> files _ facts_nested_unsorted tbl_nsiter render0 e2 (mk_cfg LPy false) I p.
Proof. exists ex_inputs, env_a, env_c, (item_path (mk_cfg LPy false) (INs [[110; 115]])). vm_compute. discriminate. Qed.

(* the HTML natural sort without tie-breaker (F-HTML-NATSORT-TIE, fixed in /repo): sibling namespaces u7 / u07 tie, the
   sorted listing keeps set order *)
Definition k_T7 : tykey := {| k_ns := [[110; 115]; [117; 55]]; k_short := [84]; k_major := 1; k_minor := 0 |}.
Definition k_T07 : tykey := {| k_ns := [[110; 115]; [117; 48; 55]]; k_short := [84]; k_major := 1; k_minor := 0 |}.
Definition ex_ties : list tydecl :=
  [ {| d_key := k_T7; d_deps := []; d_std := []; d_src := [[110; 115]; [117; 55]; [84]] |};
    {| d_key := k_T07; d_deps := []; d_std := []; d_src := [[110; 115]; [117; 48; 55]; [84]] |} ].
Theorem natsort_tie_refuted :
  exists I e1 e2 p,
    files _ facts_natsort_ties [] render0 e1 (mk_cfg LHtml false) I p
    <> files _ facts_natsort_ties [] render0 e2 (mk_cfg LHtml false) I p.
Proof. exists ex_ties, env_a, env_d, (item_path (mk_cfg LHtml false) (INs [[110; 115]])). vm_compute. discriminate. Qed.

(* the same inputs with the tie-breaker: identical *)
Lemma natsort_total_same :
  forall p, files _ facts_all_true [] render0 env_a (mk_cfg LHtml false) ex_ties p
          = files _ facts_all_true [] render0 env_d (mk_cfg LHtml false) ex_ties p.
Proof.
  intros p. apply run_env_indep_clean; try reflexivity.
  vm_compute; repeat (constructor; [cbn; intuition discriminate|]); constructor.
Qed.

(* template_sets reporting resolved template directories, printed ungated by a banner: visible with user templates *)
Definition cfg_user_templates (l : lang) : cfg :=
  let c := mk_cfg l false in
  {| c_lang := c_lang c; c_ext := c_ext c; c_stem := c_stem c; c_gen_ns := c_gen_ns c; c_embed_audit := false;
     c_omit_ser := c_omit_ser c; c_prefer_sys := c_prefer_sys c; c_support_incs := c_support_incs c;
     c_support_files := c_support_files c; c_config_files := []; c_user_templates := true |}.
Theorem template_sets_paths_refuted :
  exists I e1 e2 p,
    files _ facts_tmplsets_paths tbl_tmplsets render0 e1 (cfg_user_templates LCpp) I p
    <> files _ facts_tmplsets_paths tbl_tmplsets render0 e2 (cfg_user_templates LCpp) I p.
Proof. exists ex_inputs, env_a, env_b, (p_A (cfg_user_templates LCpp)). vm_compute. discriminate. Qed.

(* --configuration files loaded in sorted() order of the paths as typed: which file wins depends on the working directory *)
Definition cfg_two_configs (l : lang) : cfg :=
  let c := mk_cfg l false in
  {| c_lang := c_lang c; c_ext := c_ext c; c_stem := c_stem c; c_gen_ns := c_gen_ns c; c_embed_audit := false;
     c_omit_ser := c_omit_ser c; c_prefer_sys := c_prefer_sys c; c_support_incs := c_support_incs c;
     c_support_files := c_support_files c;
     c_config_files := [ {| cf_path := [[120]; [115; 105; 116; 101]]; cf_val := Some 2 |};     (* x/site  : big *)
                         {| cf_path := [[109]; [98; 111; 97; 114; 100]]; cf_val := Some 1 |} ]; (* m/board : little *)
     c_user_templates := false |}.
Definition env_root : env := mk_env 1000 [[112]] [[112]; [105; 110]] 0.          (* cwd = project root p, inputs in p/in *)
Definition env_in_m : env := mk_env 1000 [[112]; [109]] [[112]; [105; 110]] 0.   (* cwd = p/m *)
Theorem config_sorted_by_spelling_refuted :
  exists I e1 e2 p,
    files _ facts_config_sorted [] render0 e1 (cfg_two_configs LC) I p
    <> files _ facts_config_sorted [] render0 e2 (cfg_two_configs LC) I p.
Proof. exists ex_inputs, env_root, env_in_m, (p_A (cfg_two_configs LC)). vm_compute. discriminate. Qed.

Lemma config_cmdline_order_same :
  forall p, files _ facts_all_true [] render0 env_root (cfg_two_configs LC) ex_inputs p
          = files _ facts_all_true [] render0 env_in_m (cfg_two_configs LC) ex_inputs p.
Proof.
  intros p. apply run_env_indep_clean; try reflexivity.
  vm_compute; repeat (constructor; [cbn; intuition discriminate|]); constructor.
Qed.

(* the support generator keeping an existing support file: a reused output directory shows the earlier option set *)
Theorem support_kept_refuted :
  exists I e p fs0,
    In p (out_paths _ facts_support_kept [] render0 e (cfg_two_configs LC) I) /\
    files_into _ facts_support_kept [] render0 fs0 e (cfg_two_configs LC) I p
    <> files _ facts_support_kept [] render0 e (cfg_two_configs LC) I p.
Proof.
  exists ex_inputs, env_root, [[110]; [115; 46; 104]],
         (writes _ facts_support_kept [] render0 env_root (mk_cfg LC false) ex_inputs).
  split; [vm_compute; left; reflexivity|]. vm_compute. discriminate.
Qed.

(* an inventory row that is not accounted for shows the environment in every file (here: HTML, which has no use site at all) *)
Theorem unaccounted_row_refuted :
  exists I e1 e2 p,
    files _ facts_unknown_read [] render0 e1 (mk_cfg LHtml false) I p
    <> files _ facts_unknown_read [] render0 e2 (mk_cfg LHtml false) I p.
Proof. exists ex_inputs, env_a, env_b, (p_A (mk_cfg LHtml false)). vm_compute. discriminate. Qed.

(* the Namespace path API printed ungated: the OUTPUT location shows (inputs unmoved) *)
Theorem output_location_refuted :
  exists I e1 e2 p,
    e_abs e1 = e_abs e2 /\
    files _ facts_all_true tbl_outpath render0 e1 (mk_cfg LC false) I p
    <> files _ facts_all_true tbl_outpath render0 e2 (mk_cfg LC false) I p.
Proof.
  exists ex_inputs, env_a, (with_out env_a [[122]; [111]]), (p_A (mk_cfg LC false)). split; [reflexivity|].
  vm_compute. discriminate.
Qed.

(* with --embed-auditing-info the files MAY differ: the premise of the theorem is needed *)
Theorem audit_on_may_differ :
  exists I e1 e2 p,
    files _ facts_all_true tbl_gated_only render0 e1 (mk_cfg LC true) I p
    <> files _ facts_all_true tbl_gated_only render0 e2 (mk_cfg LC true) I p.
Proof. exists ex_inputs, env_a, env_b, (p_A (mk_cfg LC true)). vm_compute. discriminate. Qed.

(* non-vacuity: the example has distinct paths, nested namespaces, and the two environments really generate in a
   different order *)
Lemma ex_paths_nodup l : NoDup (out_paths _ facts_all_true tbl_gated_only render0 env_a (mk_cfg l false) ex_inputs).
Proof.
  destruct l; vm_compute; repeat (constructor; [cbn; intuition discriminate|]); constructor.
Qed.

Lemma ex_orders_differ :
  gen_order facts_nested_unsorted env_a (mk_cfg LPy false) ex_inputs <> gen_order facts_nested_unsorted env_c (mk_cfg LPy false) ex_inputs.
Proof. vm_compute. discriminate. Qed.

Lemma ex_sorted_include_list :
  include_list facts_all_true env_b (mk_cfg LC false) d_A
  = map s [ [60; 100; 101; 112; 47; 68; 95; 49; 95; 48; 46; 104; 62];
            [60; 110; 47; 115; 46; 104; 62];
            [60; 110; 115; 47; 115; 117; 98; 47; 66; 95; 49; 95; 48; 46; 104; 62];
            [60; 110; 115; 47; 116; 111; 112; 47; 67; 95; 50; 95; 51; 46; 104; 62];
            [60; 115; 116; 100; 105; 110; 116; 46; 104; 62] ].
Proof. vm_compute. reflexivity. Qed.
