(* C18, item 9: to_builtin followed by update_from_builtin gives the object back (types without nested instances).
   Continues PyObjThm.v; same instantiation tmpl_gen / pick_width_gen. *)
From Coq Require Import List NArith ZArith Bool Arith Lia ZifyBool.
From Verif Require Import PyObj Gen_PyObj PyObjThm.
Import ListNotations.
Open Scope Z_scope.

(* ================================================================ 9. to_builtin followed by update_from_builtin *)
(* fields without nested instances; float arrays only of float64 elements (no re-rounding by NumPy, and no element
   check in the conformant variant: an array may hold any float, e.g. after the quirky variant stored it), string-like
   arrays only of bytes (what the bytes fast path of assign_array accepts) *)
Definition ftype_flat (f : ftype) : bool :=
  match f with
  | FScalar (EPrim _) => true
  | FArr _ _ sl (EPrim k) =>
      (match k with KF w => 64 <=? w | _ => true end) && (negb sl || match k with KU w => w <=? 8 | _ => false end)
  | _ => false
  end.

(* the builtin image to_builtin produces for a field of such a type *)
Definition tb_field (f : ftype) (s : pyval) : option pyval :=
  match f with
  | FScalar (EPrim k) => tb_prim k s
  | FArr _ _ strlike (EPrim k) =>
      match s with
      | PArr _ l =>
          let plain := match omap (tb_prim k) l with Some bs => Some (PList bs) | None => None end in
          if strlike then
            match omap as_byte l with
            | Some bytes => if forallb printable bytes then Some (PStr bytes) else plain
            | None => plain
            end
          else plain
      | _ => None
      end
  | _ => None
  end.

Lemma tb_prim_id : forall k v, elem_ok PW false (EPrim k) v = true -> tb_prim k v = Some v.
Proof. intros k v. destruct k, v; cbn [elem_ok tb_prim py_bool]; intros H; try discriminate; reflexivity. Qed.

Lemma omap_id {A} (f : A -> option A) : forall l, (forall x, In x l -> f x = Some x) -> omap f l = Some l.
Proof.
  induction l as [|a r IH]; intros H; cbn [omap]; [reflexivity|].
  rewrite (H a (or_introl eq_refl)), IH; [reflexivity|]. intros x Hx. apply H. right; exact Hx.
Qed.

Lemma elem_ok_leaf : forall k v, elem_ok PW false (EPrim k) v = true -> is_leafval v = true.
Proof. intros k v. destruct k, v; cbn [elem_ok is_leafval]; intros; try discriminate; reflexivity. Qed.

Lemma np_flat_leaf : forall x, is_leafval x = true -> np_flat x = Ok ([], [x]).
Proof. destruct x; cbn [is_leafval]; intros; try discriminate; reflexivity. Qed.

Lemma np_go_leaves : forall l, forallb is_leafval l = true -> np_go l = Ok (map (fun x => (@nil nat, [x])) l).
Proof.
  induction l as [|a r IH]; intros H; [reflexivity|]. cbn [forallb] in H. apply andb_true_iff in H. destruct H as [Ha Hr].
  cbn [map]. rewrite np_go_cons, (np_flat_leaf a Ha), (IH Hr). reflexivity.
Qed.

Lemma all_eq_shape_leaves : forall (l : list pyval), all_eq_shape [] (map (fun x => (@nil nat, [x])) l) = true.
Proof.
  induction l as [|a r IH]; [reflexivity|]. cbn [map all_eq_shape]. rewrite IH.
  destruct (list_eq_dec Nat.eq_dec (@nil nat) []) as [_|n]; [reflexivity|congruence].
Qed.

Lemma flat_map_leaves : forall (l : list pyval), flat_map snd (map (fun x => (@nil nat, [x])) l) = l.
Proof. induction l as [|a r IH]; [reflexivity|]. cbn [map flat_map snd app]. rewrite IH. reflexivity. Qed.

Lemma np_flat_leaves : forall l, forallb is_leafval l = true -> exists sh, np_flat (PList l) = Ok (sh, l).
Proof.
  intros l H. rewrite np_flat_PList, (np_go_leaves l H). cbn [bind]. destruct l as [|a r].
  - eexists; reflexivity.
  - change (map (fun x => (@nil nat, [x])) (a :: r)) with ((@nil nat, [a]) :: map (fun x => (@nil nat, [x])) r).
    cbv iota beta.
    change ((@nil nat, [a]) :: map (fun x => (@nil nat, [x])) r) with (map (fun x => (@nil nat, [x])) (a :: r)).
    rewrite all_eq_shape_leaves, flat_map_leaves. eexists; reflexivity.
Qed.

Definition float_arr_ok (k : skind) : Prop := match k with KF w => 64 <= w | _ => True end.

Lemma conv_leaf_id : forall k v, float_arr_ok k -> elem_ok PW false (EPrim k) v = true ->
  conv_leaf (dtype_of PW (EPrim k)) v = Ok v.
Proof.
  intros k v Hk H. destruct k as [|w|w|w], v; cbn [elem_ok] in H; try discriminate; cbn [dtype_of conv_leaf py_int py_float py_bool bind].
  - reflexivity.
  - rewrite H. reflexivity.
  - rewrite H. reflexivity.
  - cbn [float_arr_ok] in Hk. destruct (pwd_cases w) as [[? E]|[[? E]|[[? E]|[[? E]|[? E]]]]]; try lia; rewrite E; reflexivity.
Qed.

Lemma mapM_id {A} (f : A -> res A) : forall l, (forall x, In x l -> f x = Ok x) -> mapM f l = Ok l.
Proof.
  induction l as [|a r IH]; intros H; cbn [mapM]; [reflexivity|].
  rewrite (H a (or_introl eq_refl)). cbn [bind]. rewrite IH; [reflexivity|]. intros x Hx. apply H. right; exact Hx.
Qed.

Lemma elem_ok_dsdl : forall k v, elem_ok PW true (EPrim k) v = true -> elem_in_dsdl_range (EPrim k) v = true.
Proof. intros k v. destruct k, v; cbn [elem_ok elem_in_dsdl_range]; intros; try discriminate; auto. Qed.

(* when the full contract (elements inside the DSDL range) is needed for the way back: in the conformant variant, and
   whenever the template range-checks the source of a conversion (whatever the generated flag is) *)
Definition need_strict (q : bool) : Prop := q = false \/ t_arr_precheck TG = true.

Lemma elem_ok_int_leaf : forall k v, elem_ok PW true (EPrim k) v = true -> int_leaf_ok (EPrim k) v = true.
Proof. intros k v. destruct k, v; cbn [elem_ok int_leaf_ok int_in_range]; intros; try discriminate; auto. Qed.

Lemma elem_ok_int_exact : forall k v, elem_ok PW true (EPrim k) v = true -> int_leaf_exact (EPrim k) v = true.
Proof. intros k v. destruct k, v; cbn [elem_ok int_leaf_exact int_in_range]; intros; try discriminate; auto. Qed.

Lemma leafval_pyatoms : forall l, forallb is_leafval l = true -> forallb is_pyatom l = true.
Proof.
  intros l H. rewrite forallb_forall in *. intros x Hx. specialize (H x Hx). destruct x; try discriminate; reflexivity.
Qed.

Lemma chkG_rt : forall (q : bool) k l, (q = false -> forallb (elem_ok PW true (EPrim k)) l = true) ->
  chkG q (EPrim k) l = Ok (PArr (dtype_of PW (EPrim k)) l).
Proof.
  intros q k l H. unfold chkG. destruct q; [reflexivity|]. cbn [orb].
  assert (forallb (elem_in_dsdl_range (EPrim k)) l = true) as ->; [|reflexivity].
  specialize (H eq_refl). rewrite forallb_forall in *. intros x Hx. apply elem_ok_dsdl. auto.
Qed.

Lemma plain_rt : forall q fixed cap k l,
  float_arr_ok k -> forallb (elem_ok PW false (EPrim k)) l = true ->
  (need_strict q -> forallb (elem_ok PW true (EPrim k)) l = true) -> lenG fixed (length l) cap = true ->
  assignG q fixed cap (EPrim k) (PList l) = Ok (PArr (dtype_of PW (EPrim k)) l).
Proof.
  intros q fixed cap k l Hk Ho Hs Hl. cbn [assignG]. unfold slowG.
  assert (Hleaf : forallb is_leafval l = true).
  { rewrite forallb_forall in *. intros x Hx. eapply elem_ok_leaf; eauto. }
  assert (int_src_ok TG (EPrim k) (PList l) = true) as ->.
  { unfold int_src_ok. destruct (t_arr_precheck TG) eqn:P; [|reflexivity]. cbn [negb orb].
    destruct (np_flat_leaves l Hleaf) as [sh E]. specialize (Hs (or_intror P)).
    destruct (t_src_exact TG); rewrite E; cbn [snd].
    - rewrite forallb_forall in *. intros x Hx. apply elem_ok_int_exact. auto.
    - apply orb_true_iff. right. rewrite forallb_forall in *. intros x Hx. apply elem_ok_int_leaf. auto. }
  rewrite np_array_pylist by (apply leafval_pyatoms; exact Hleaf). rewrite forallb_forall in Ho.
  rewrite mapM_id by (intros x Hx; apply conv_leaf_id; auto).
  cbn [bind]. rewrite Hl, float_src_ok_other by (destruct k; cbn [float_arr_ok] in Hk; auto).
  apply chkG_rt. intros Hq. apply Hs. left; exact Hq.
Qed.

Lemma printable_lt : forall c, printable c = true -> (c < 128)%N.
Proof. intros c. unfold printable. lia. Qed.

Lemma utf8_printable : forall s, forallb printable s = true -> utf8_encode s = s.
Proof.
  unfold utf8_encode. induction s as [|c r IH]; intros H; [reflexivity|]. cbn [forallb] in H. apply andb_true_iff in H.
  destruct H as [Hc Hr]. cbn [flat_map]. rewrite (IH Hr). unfold utf8_cp.
  apply printable_lt in Hc. apply N.ltb_lt in Hc. rewrite Hc. reflexivity.
Qed.

Lemma bytes_back : forall w l bytes, forallb (elem_ok PW false (EPrim (KU w))) l = true ->
  omap as_byte l = Some bytes -> forallb printable bytes = true ->
  map (fun c => PInt (Z.of_N (c mod 256))) bytes = l /\ length bytes = length l.
Proof.
  intros w. induction l as [|a r IH]; intros bytes Ho Hb Hp; cbn [omap] in Hb.
  - inversion Hb; subst. auto.
  - cbn [forallb] in Ho. apply andb_true_iff in Ho. destruct Ho as [Ha Hr].
    destruct (as_byte a) as [b0|] eqn:Ea; [|discriminate].
    destruct (omap as_byte r) as [bs|] eqn:Er; [|discriminate]. inversion Hb; subst bytes.
    cbn [forallb] in Hp. apply andb_true_iff in Hp. destruct Hp as [Hp0 Hps].
    destruct (IH bs Hr eq_refl Hps) as [E L]. cbn [map length]. rewrite E, L. split; [|reflexivity]. f_equal.
    destruct a; cbn [as_byte] in Ea; try discriminate. inversion Ea; subst b0. f_equal.
    cbn [elem_ok] in Ha. unfold urange in Ha. apply printable_lt in Hp0.
    rewrite N.mod_small by (eapply N.lt_trans; [exact Hp0 | reflexivity]).
    apply Z2N.id. clear - Ha. lia.
Qed.

Lemma str_rt : forall q fixed cap w l bytes, w <= 8 ->
  forallb (elem_ok PW false (EPrim (KU w))) l = true ->
  (need_strict q -> forallb (elem_ok PW true (EPrim (KU w))) l = true) -> lenG fixed (length l) cap = true ->
  omap as_byte l = Some bytes -> forallb printable bytes = true ->
  assign_array TG PW q fixed cap true (EPrim (KU w)) (PStr bytes) = Ok (PArr (DU (pwd PW w)) l).
Proof.
  intros q fixed cap w l bytes Hw Ho Hs Hl Hb Hp. rewrite assign_array_gen. cbn [strconv].
  rewrite (utf8_printable _ Hp). cbn [assignG fast_bytesG].
  destruct (bytes_back w l bytes Ho Hb Hp) as [E L]. rewrite E, L, Hl.
  assert (w <=? 8 = true) as -> by lia. cbn [andb]. apply (chkG_rt q (KU w) l). intros Hq. apply Hs. left; exact Hq.
Qed.

Theorem field_roundtrip : forall q f s b,
  ftype_flat f = true -> field_ok PW false f s = true -> (need_strict q -> field_ok PW true f s = true) ->
  tb_field f s = Some b -> field_value TG PW q f b = Ok s.
Proof.
  intros q f s b Hf Ho Hs Hb. destruct f as [[k|t]|fixed cap sl [k|t]]; cbn [ftype_flat] in Hf; try discriminate.
  - (* scalars *)
    cbn [field_value field_ok tb_field] in *. rewrite set_prim_gen.
    destruct k as [|w|w|w], s; cbn [prim_ok] in Ho; try discriminate; cbn [tb_prim] in Hb; inversion Hb; subst b;
      cbn [py_bool py_int py_float bind int_in_range].
    + reflexivity.
    + rewrite Ho. reflexivity.
    + rewrite Ho. reflexivity.
    + destruct (w <? 64); [rewrite Ho|]; reflexivity.
  - (* arrays *)
    apply andb_true_iff in Hf. destruct Hf as [Hk Hsl].
    assert (Fk : float_arr_ok k) by (destruct k; cbn [float_arr_ok]; auto; lia).
    destruct s as [| | | | | | | |dt l|]; cbn [field_ok] in Ho; try discriminate.
    apply andb_true_iff in Ho. destruct Ho as [Ho Hel]. apply andb_true_iff in Ho. destruct Ho as [Hdt Hlen].
    apply dtype_eqb_eq in Hdt. subst dt. change (lenG fixed (length l) cap = true) in Hlen.
    assert (Hs' : need_strict q -> forallb (elem_ok PW true (EPrim k)) l = true).
    { intros Hq. specialize (Hs Hq). cbn [field_ok] in Hs. apply andb_true_iff in Hs. tauto. }
    assert (Plain : omap (tb_prim k) l = Some l).
    { apply omap_id. rewrite forallb_forall in Hel. intros x Hx. apply tb_prim_id. auto. }
    assert (PlainRt : forall sl', field_value TG PW q (FArr fixed cap sl' (EPrim k)) (PList l) = Ok (PArr (dtype_of PW (EPrim k)) l)).
    { intros sl'. cbn [field_value]. rewrite assign_array_gen.
      replace (strconv sl' (PList l)) with (PList l) by (destruct sl'; reflexivity). apply plain_rt; auto. }
    cbn [tb_field] in Hb. rewrite Plain in Hb. cbv zeta in Hb.
    destruct sl; [|inversion Hb; subst b; apply PlainRt].
    destruct k as [|w|w|w]; cbn [negb orb] in Hsl; try discriminate.
    destruct (omap as_byte l) as [bytes|] eqn:Eb; [|inversion Hb; subst b; apply PlainRt].
    destruct (forallb printable bytes) eqn:Ep; inversion Hb; subst b; [|apply PlainRt].
    cbn [field_value]. apply str_rt; auto. lia.
Qed.

(* ---------------------------------------------------------------- the whole object *)
Definition tb_b (db : tdb) (f : ftype) (s : pyval) : option pyval :=
  match f with
  | FScalar (EPrim k) => tb_prim k s
  | FScalar (EComp _) => tb db s
  | FArr _ _ strlike e =>
      match s with
      | PArr _ l =>
          let plain : option pyval :=
            match e with
            | EPrim k => match omap (tb_prim k) l with Some bs => Some (PList bs) | None => None end
            | EComp _ =>
                match (fix gol (l : list pyval) : option (list pyval) :=
                         match l with
                         | [] => Some []
                         | a :: r => match tb db a, gol r with Some b, Some bs => Some (b :: bs) | _, _ => None end
                         end) l with
                | Some bs => Some (PList bs)
                | None => None
                end
            end in
          if strlike then
            match omap as_byte l with
            | Some bytes => if forallb printable bytes then Some (PStr bytes) else plain
            | None => plain
            end
          else plain
      | _ => None
      end
  end.

Definition tb_go (db : tdb) :=
  fix go (fs : list ftype) (sl : list pyval) (i : nat) {struct sl} : option (list (nat * pyval)) :=
    match sl, fs with
    | _, [] => Some []
    | [], _ :: _ => None
    | s :: sl', f :: fs' =>
        if is_none s then go fs' sl' (S i) else
        match tb_b db f s, go fs' sl' (S i) with
        | Some bv, Some rest => Some ((i, bv) :: rest)
        | _, _ => None
        end
    end.

Lemma tb_PObj : forall db tid slots, tb db (PObj tid slots) =
  match nth_error db tid with None => None | Some c => option_map PDict (tb_go db (c_fields c) slots 0) end.
Proof. reflexivity. Qed.

Lemma tb_go_cons : forall db f fs s sl i, tb_go db (f :: fs) (s :: sl) i =
  if is_none s then tb_go db fs sl (S i) else
  match tb_b db f s, tb_go db fs sl (S i) with
  | Some bv, Some rest => Some ((i, bv) :: rest)
  | _, _ => None
  end.
Proof. reflexivity. Qed.

Lemma tb_b_flat : forall db f s, ftype_flat f = true -> tb_b db f s = tb_field f s.
Proof. intros db f s H. destruct f as [[k|t]|fixed cap sl [k|t]]; cbn [ftype_flat] in H; try discriminate; reflexivity. Qed.

Lemma tb_go_keys : forall db sl fs i kv, tb_go db fs sl i = Some kv ->
  forall p, In p kv -> (i <= fst p < i + length fs)%nat.
Proof.
  intros db. induction sl as [|s sl IH]; intros fs i kv H p Hp.
  - destruct fs; cbn in H; [inversion H; subst; destruct Hp | discriminate].
  - destruct fs as [|f fs]; [cbn in H; inversion H; subst; destruct Hp|].
    rewrite tb_go_cons in H. cbn [length]. destruct (is_none s).
    + specialize (IH _ _ _ H p Hp). clear - IH. lia.
    + destruct (tb_b db f s) as [bv|]; [|discriminate].
      destruct (tb_go db fs sl (S i)) as [rest|] eqn:Er; [|discriminate]. inversion H; subst kv.
      destruct Hp as [<-|Hp]; [cbn [fst]; clear; lia|].
      specialize (IH _ _ _ Er p Hp). clear - IH. lia.
Qed.

Lemma lookup_above : forall kv j, (forall p, In p kv -> (j < fst p)%nat) -> lookup j kv = None.
Proof.
  induction kv as [|[k v] r IH]; intros j H; cbn [lookup]; [reflexivity|].
  pose proof (H (k, v) (or_introl eq_refl)) as Hk. cbn [fst] in Hk.
  destruct (Nat.eqb j k) eqn:E; [apply Nat.eqb_eq in E; clear - E Hk; lia|].
  apply IH. intros p Hp. apply H. right; exact Hp.
Qed.

Lemma update_nth_app {A} : forall (pre : list A) d r v, update_nth (length pre) v (pre ++ d :: r) = pre ++ v :: r.
Proof. induction pre as [|a pre IH]; intros; cbn [length app update_nth]; [reflexivity|]. rewrite IH. reflexivity. Qed.

Lemma clear_others_app : forall pre v r,
  clear_others (length pre) (pre ++ v :: r) = map (fun _ => PNone) pre ++ v :: map (fun _ => PNone) r.
Proof. induction pre as [|a pre IH]; intros; cbn [length app clear_others map]; [reflexivity|]. rewrite IH. reflexivity. Qed.

Lemma all_none_map {A} : forall l (l' : list A), forallb is_none l = true -> length l = length l' -> l = map (fun _ => PNone) l'.
Proof.
  induction l as [|a l IH]; intros [|b l'] H L; cbn [length] in L; try discriminate; [reflexivity|].
  cbn [forallb] in H. apply andb_true_iff in H. destruct H as [Ha Hl]. cbn [map].
  destruct a; try discriminate. f_equal. apply IH; auto.
Qed.

Lemma count_active_zero : forall l, count_active l = 0%nat -> forallb is_none l = true.
Proof.
  induction l as [|a l IH]; intros H; [reflexivity|]. rewrite count_active_cons in H. cbn [forallb].
  destruct (is_none a); [apply IH; exact H | discriminate].
Qed.

Lemma tb_go_all_none : forall db sl fs i, forallb is_none sl = true -> length sl = length fs -> tb_go db fs sl i = Some [].
Proof.
  intros db. induction sl as [|s sl IH]; intros [|f fs] i H L; cbn [length] in L; try discriminate; [reflexivity|].
  cbn [forallb] in H. apply andb_true_iff in H. destruct H as [Hs Hl]. rewrite tb_go_cons, Hs. apply IH; auto.
Qed.

Section Roundtrip.
  Variable q : bool.
  Variable db : tdb.
  Variable rec : pyval -> pyval -> pyval * option exc.
  Variable c : comp.
  Hypothesis Hflat : forallb ftype_flat (c_fields c) = true.

  Lemma flat_step : forall f i s bv cs,
    nth_error (c_fields c) i = Some f -> field_ok PW false f s = true -> (need_strict q -> field_ok PW true f s = true) ->
    tb_field f s = Some bv ->
    ufb_step q db rec c f i bv cs =
    ((if c_union c then clear_others i (update_nth i s cs) else update_nth i s cs), None).
  Proof.
    intros f i s bv cs Ef Ho Hs Hb.
    assert (Ff : ftype_flat f = true).
    { rewrite forallb_forall in Hflat. apply Hflat. eapply nth_error_In; eauto. }
    assert (ufb_step q db rec c f i bv cs = set_slot TG PW q c cs i bv) as ->.
    { destruct f as [[k|t]|fixed cap sl [k|t]]; cbn [ftype_flat] in Ff; try discriminate; reflexivity. }
    rewrite set_slot_gen, Ef, (field_roundtrip q f s bv Ff Ho Hs Hb). reflexivity.
  Qed.

  Lemma loop_skip : forall fs i kv0 cs, (forall j, (i <= j)%nat -> lookup j kv0 = None) ->
    ufb_loop TG PW q db rec c fs i kv0 cs = (cs, None).
  Proof.
    induction fs as [|f fs IH]; intros i kv0 cs H; [reflexivity|].
    rewrite ufb_loop_cons, (H i (le_n i)). apply IH. intros j Hj. apply H. clear - Hj. lia.
  Qed.

  Lemma flat_not_none : forall strict f s, ftype_flat f = true -> field_ok PW strict f s = true -> is_none s = false.
  Proof.
    intros strict f s Ff Ho. destruct s; try reflexivity.
    destruct f as [[k|t]|fixed cap sl e]; cbn [ftype_flat field_ok] in *; try discriminate. destruct k; discriminate.
  Qed.

  Lemma loop_struct : c_union c = false ->
    forall fs sl i kvi, tb_go db fs sl i = Some kvi ->
    (forall j, nth_error fs j = nth_error (c_fields c) (i + j)) ->
    fields_ok PW false false fs sl = true -> (need_strict q -> fields_ok PW true false fs sl = true) ->
    forall kv0 pre dsl, (forall j, (i <= j)%nat -> lookup j kv0 = lookup j kvi) ->
    length pre = i -> length dsl = length sl ->
    ufb_loop TG PW q db rec c fs i kv0 (pre ++ dsl) = (pre ++ sl, None).
  Proof.
    intros U. induction fs as [|f fs IH]; intros sl i kvi Hgo Hfs Ho Hs kv0 pre dsl Hk Lp Ld.
    - destruct sl; cbn [fields_ok] in Ho; [|discriminate]. destruct dsl; [reflexivity|discriminate].
    - destruct sl as [|s sl]; cbn [fields_ok] in Ho; [discriminate|]. destruct dsl as [|d dsl]; [discriminate|].
      apply andb_true_iff in Ho. destruct Ho as [Ho Hos]. cbn [andb orb] in Ho.
      assert (Ef : nth_error (c_fields c) i = Some f).
      { specialize (Hfs 0%nat). cbn [nth_error] in Hfs. rewrite Nat.add_0_r in Hfs. auto. }
      assert (Ff : ftype_flat f = true).
      { rewrite forallb_forall in Hflat. apply Hflat. eapply nth_error_In; eauto. }
      assert (Hfs' : forall j, nth_error fs j = nth_error (c_fields c) (Datatypes.S i + j)).
      { intros j. specialize (Hfs (Datatypes.S j)). cbn [nth_error] in Hfs. rewrite Hfs. f_equal. clear; lia. }
      assert (Hs1 : need_strict q -> field_ok PW true f s = true /\ fields_ok PW true false fs sl = true).
      { intros Hq. specialize (Hs Hq). cbn [fields_ok andb orb] in Hs. apply andb_true_iff in Hs. exact Hs. }
      rewrite tb_go_cons, (flat_not_none _ _ _ Ff Ho), (tb_b_flat db f s Ff) in Hgo.
      destruct (tb_field f s) as [bv|] eqn:Eb; [|discriminate].
      destruct (tb_go db fs sl (Datatypes.S i)) as [rest|] eqn:Er; [|discriminate]. inversion Hgo; subst kvi.
      rewrite ufb_loop_cons, (Hk i (le_n i)). cbn [lookup]. rewrite Nat.eqb_refl.
      rewrite (flat_step f i s bv _ Ef Ho (fun Hq => proj1 (Hs1 Hq)) Eb), U. subst i. rewrite update_nth_app.
      replace (pre ++ s :: dsl) with ((pre ++ [s]) ++ dsl) by (rewrite <- app_assoc; reflexivity).
      replace (pre ++ s :: sl) with ((pre ++ [s]) ++ sl) by (rewrite <- app_assoc; reflexivity).
      apply (IH sl _ rest Er Hfs' Hos (fun Hq => proj2 (Hs1 Hq))).
      + intros j Hj. rewrite (Hk j) by (clear - Hj; lia). cbn [lookup].
        destruct (Nat.eqb j (length pre)) eqn:E; [apply Nat.eqb_eq in E; clear - E Hj; lia | reflexivity].
      + rewrite app_length. cbn [length]. clear; lia.
      + cbn [length] in Ld. clear - Ld. lia.
  Qed.

  Lemma loop_union : c_union c = true ->
    forall fs sl i kvi, tb_go db fs sl i = Some kvi ->
    (forall j, nth_error fs j = nth_error (c_fields c) (i + j)) ->
    fields_ok PW false true fs sl = true -> (need_strict q -> fields_ok PW true true fs sl = true) ->
    count_active sl = 1%nat ->
    forall kv0 cpre csl, (forall j, (i <= j)%nat -> lookup j kv0 = lookup j kvi) ->
    length cpre = i -> length csl = length sl ->
    ufb_loop TG PW q db rec c fs i kv0 (cpre ++ csl) = (map (fun _ => PNone) cpre ++ sl, None).
  Proof.
    intros U. induction fs as [|f fs IH]; intros sl i kvi Hgo Hfs Ho Hs Hc kv0 cpre csl Hk Lp Ld.
    - destruct sl; cbn [fields_ok] in Ho; [|discriminate]. discriminate Hc.
    - destruct sl as [|s sl]; cbn [fields_ok] in Ho; [discriminate|]. destruct csl as [|d csl]; [discriminate|].
      apply andb_true_iff in Ho. destruct Ho as [Ho Hos]. cbn [andb] in Ho.
      assert (Ef : nth_error (c_fields c) i = Some f).
      { specialize (Hfs 0%nat). cbn [nth_error] in Hfs. rewrite Nat.add_0_r in Hfs. auto. }
      assert (Ff : ftype_flat f = true).
      { rewrite forallb_forall in Hflat. apply Hflat. eapply nth_error_In; eauto. }
      assert (Hfs' : forall j, nth_error fs j = nth_error (c_fields c) (Datatypes.S i + j)).
      { intros j. specialize (Hfs (Datatypes.S j)). cbn [nth_error] in Hfs. rewrite Hfs. f_equal. clear; lia. }
      assert (Hs1 : need_strict q -> (is_none s || field_ok PW true f s) = true /\ fields_ok PW true true fs sl = true).
      { intros Hq. specialize (Hs Hq). cbn [fields_ok andb] in Hs. apply andb_true_iff in Hs. exact Hs. }
      assert (Ld' : length csl = length sl) by (cbn [length] in Ld; clear - Ld; lia).
      rewrite count_active_cons in Hc. rewrite tb_go_cons in Hgo. rewrite ufb_loop_cons.
      destruct (is_none s) eqn:N.
      + (* an inactive option: not in the dictionary *)
        destruct s; try discriminate.
        rewrite (Hk i (le_n i)), (lookup_above kvi i).
        2:{ intros p Hp. pose proof (tb_go_keys _ _ _ _ _ Hgo p Hp) as Hp'. clear - Hp'. lia. }
        replace (cpre ++ d :: csl) with ((cpre ++ [d]) ++ csl) by (rewrite <- app_assoc; reflexivity).
        rewrite (IH sl _ kvi Hgo Hfs' Hos (fun Hq => proj2 (Hs1 Hq)) Hc kv0 (cpre ++ [d]) csl).
        * rewrite map_app, <- app_assoc. reflexivity.
        * intros j Hj. apply Hk. clear - Hj. lia.
        * rewrite app_length. cbn [length]. clear - Lp. lia.
        * exact Ld'.
      + (* the active option *)
        cbn [orb] in Ho.
        assert (Hn : forallb is_none sl = true) by (apply count_active_zero; clear - Hc; lia).
        rewrite (tb_b_flat db f s Ff), (tb_go_all_none db sl fs _ Hn (fields_ok_length _ _ _ _ Hos)) in Hgo.
        destruct (tb_field f s) as [bv|] eqn:Eb; [|discriminate]. inversion Hgo; subst kvi.
        rewrite (Hk i (le_n i)). cbn [lookup]. rewrite Nat.eqb_refl.
        assert (Hs2 : need_strict q -> field_ok PW true f s = true).
        { intros Hq. destruct (Hs1 Hq) as [H1 _]. exact H1. }
        rewrite (flat_step f i s bv _ Ef Ho Hs2 Eb), U. subst i. rewrite update_nth_app, clear_others_app.
        rewrite loop_skip.
        * rewrite (all_none_map sl csl Hn (eq_sym Ld')). reflexivity.
        * intros j Hj. rewrite (Hk j) by (clear - Hj; lia). cbn [lookup].
          destruct (Nat.eqb j (length cpre)) eqn:E; [apply Nat.eqb_eq in E; clear - E Hj; lia | reflexivity].
  Qed.
End Roundtrip.

Theorem builtin_roundtrip_flat : forall q db tid c slots dslots b fuel,
  nth_error db tid = Some c -> forallb ftype_flat (c_fields c) = true ->
  obj_ok PW false c slots = true -> (need_strict q -> obj_ok PW true c slots = true) ->
  length dslots = length (c_fields c) ->
  tb db (PObj tid slots) = Some b ->
  ufb TG PW q db (S fuel) (PObj tid dslots) b = (PObj tid slots, None).
Proof.
  intros q db tid c slots dslots b fuel Ec Hflat Ho Hs Ld Hb.
  rewrite tb_PObj, Ec in Hb. destruct (tb_go db (c_fields c) slots 0) as [kv|] eqn:Eg; [|discriminate].
  cbn [option_map] in Hb. inversion Hb; subst b. rewrite ufb_S, Ec. cbn [ufb_kv].
  unfold obj_ok in Ho. apply andb_true_iff in Ho. destruct Ho as [Hf Hc].
  assert (Hs' : need_strict q -> fields_ok PW true (c_union c) (c_fields c) slots = true).
  { intros Hq. specialize (Hs Hq). unfold obj_ok in Hs. apply andb_true_iff in Hs. tauto. }
  assert (Ls : length dslots = length slots) by (rewrite (fields_ok_length _ _ _ _ Hf); exact Ld).
  assert (Loop : ufb_loop TG PW q db (ufb TG PW q db fuel) c (c_fields c) 0 kv dslots = (slots, None)).
  { destruct (c_union c) eqn:U.
    - apply Nat.eqb_eq in Hc.
      exact (loop_union q db _ c Hflat U (c_fields c) slots 0 kv Eg (fun j => eq_refl) Hf Hs' Hc kv [] dslots
               (fun j _ => eq_refl) eq_refl Ls).
    - exact (loop_struct q db _ c Hflat U (c_fields c) slots 0 kv Eg (fun j => eq_refl) Hf Hs' kv [] dslots
               (fun j _ => eq_refl) eq_refl Ls). }
  rewrite Loop.
  assert (existsb (fun p => Nat.leb (length (c_fields c)) (fst p)) kv = false) as ->; [|reflexivity].
  destruct (existsb _ kv) eqn:E; [|reflexivity]. apply existsb_exists in E. destruct E as (p & Hp & Hle).
  apply Nat.leb_le in Hle. pose proof (tb_go_keys _ _ _ _ _ Eg p Hp) as Hk. clear - Hle Hk. lia.
Qed.

(* in particular for the instance the model starts from *)
Corollary builtin_roundtrip_default : forall q db tid c slots dslots b fuel,
  nth_error db tid = Some c -> forallb ftype_flat (c_fields c) = true ->
  obj_ok PW false c slots = true -> (need_strict q -> obj_ok PW true c slots = true) ->
  default_obj TG PW q db tid = PObj tid dslots -> length dslots = length (c_fields c) ->
  tb db (PObj tid slots) = Some b ->
  ufb TG PW q db (S fuel) (default_obj TG PW q db tid) b = (PObj tid slots, None).
Proof. intros q db tid c slots dslots b fuel Ec Hflat Ho Hs Ed Ld Hb. rewrite Ed. eapply builtin_roundtrip_flat; eauto. Qed.
