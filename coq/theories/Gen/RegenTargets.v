(* C12 -- the content premise restricted to what a run actually renders.

   A run of configuration c evaluates [render] only at (c_class c, p) for targets p of c.  So [render_independent] (for ALL
   classes and paths) is more than the theorems need: independence ON THE TARGETS of c suffices.  Proved by extensionality:
   on targets an independent-on-targets render agrees with its canonical version [canon r] (= r in the empty tree with
   ambient 0), which is independent everywhere, and a step only looks at render on targets. *)
From Coq Require Import NArith List Bool.
From Verif Require Import RegenBase Gen_Regen Regen RegenThm.
Import ListNotations.
Open Scope N_scope.

Definition render_independent_on (D : N -> path -> Prop) (render : fs -> N -> N -> path -> N) : Prop :=
  forall s a s' a' cl p, D cl p -> render s a cl p = render s' a' cl p.

(* the pairs a run of c renders *)
Definition rendered_by (c : cfg) (cl : N) (p : path) : Prop := cl = c_class c /\ In p (targets c).

Definition render_independent_on_targets (render : fs -> N -> N -> path -> N) (c : cfg) : Prop :=
  render_independent_on (rendered_by c) render.

Definition canon (r : fs -> N -> N -> path -> N) : fs -> N -> N -> path -> N := fun _ _ cl p => r empty_fs 0 cl p.

Lemma canon_independent : forall r, render_independent (canon r).
Proof. intros r s a s' a' cl p. reflexivity. Qed.

Lemma independent_is_on_targets : forall r c, render_independent r -> render_independent_on_targets r c.
Proof. intros r c H s a s' a' cl p _. apply H. Qed.

Section Ext.
Variables r1 r2 : fs -> N -> N -> path -> N.
Variable e : env.
Variable c : cfg.

Lemma run_act_ext : forall p a s, (forall s0, r1 s0 (c_amb c) (c_class c) p = r2 s0 (c_amb c) (c_class c) p) ->
  run_act r1 e c p a s = run_act r2 e c p a s.
Proof. intros p a s H. destruct a; cbn [run_act]; rewrite ?H; reflexivity. Qed.

Lemma run_acts_ext : forall p l s, (forall s0, r1 s0 (c_amb c) (c_class c) p = r2 s0 (c_amb c) (c_class c) p) ->
  run_acts r1 e c p l s = run_acts r2 e c p l s.
Proof.
  intros p l. induction l as [|a r IH]; intros s H; cbn [run_acts]; [reflexivity|].
  rewrite (run_act_ext p a s H). destruct (run_act r2 e c p a s) as [s1 [|er]]; unfold bind; cbn [fst snd]; [now apply IH | reflexivity].
Qed.

Lemma run_list_ext : forall l s,
  (forall it, In it l -> forall s0, r1 s0 (c_amb c) (c_class c) (fst it) = r2 s0 (c_amb c) (c_class c) (fst it)) ->
  run_list (write_item r1 e c) s l = run_list (write_item r2 e c) s l.
Proof.
  induction l as [|it r IH]; intros s H; cbn [run_list]; [reflexivity|].
  assert (X : write_item r1 e c s it = write_item r2 e c s it).
  { unfold write_item. apply run_acts_ext. apply H. now left. }
  rewrite X. destruct (write_item r2 e c s it) as [s1 [|er]]; unfold bind; cbn [fst snd]; [|reflexivity].
  apply IH. intros it' Hi. apply H. now right.
Qed.

Hypothesis Hagree : forall s0 p, In p (targets c) -> r1 s0 (c_amb c) (c_class c) p = r2 s0 (c_amb c) (c_class c) p.

Lemma items_agree : forall l, (forall it, In it l -> In it (items c)) ->
  forall it, In it l -> forall s0, r1 s0 (c_amb c) (c_class c) (fst it) = r2 s0 (c_amb c) (c_class c) (fst it).
Proof. intros l Hs it Hi s0. apply Hagree. unfold targets. apply in_map. now apply Hs. Qed.

Lemma step_ext : forall s, step r1 e s c = step r2 e s c.
Proof. intros s. rewrite !step_flat. apply run_list_ext. apply (items_agree (items c)). auto. Qed.

Lemma step_crash_ext : forall s n j junk, step_crash r1 e s c n j junk = step_crash r2 e s c n j junk.
Proof.
  intros s n j junk. unfold step_crash.
  rewrite (run_list_ext (firstn n (items c)) s (items_agree _ (fun it H => incl_firstn _ n (items c) it H))).
  destruct (snd (run_list (write_item r2 e c) s (firstn n (items c)))); [|reflexivity].
  destruct (nth_error (items c) n) as [it|] eqn:E; [|reflexivity].
  rewrite (run_acts_ext (fst it)); [reflexivity|].
  intros s0. apply Hagree. unfold targets. apply in_map. eapply nth_error_In; eauto.
Qed.
End Ext.

(* ---- the content / success theorems of C12 under independence on the targets of the configuration that runs -------------- *)
Section OnTargets.
Variable render : fs -> N -> N -> path -> N.
Variable e : env.
Hypothesis Hwf : env_wf e.

Lemma agree_canon : forall c, render_independent_on_targets render c ->
  forall s0 p, In p (targets c) -> render s0 (c_amb c) (c_class c) p = canon render s0 (c_amb c) (c_class c) p.
Proof. intros c H s0 p Hp. unfold canon. apply H. split; auto. Qed.

Lemma step_canon : forall c s, render_independent_on_targets render c -> step render e s c = step (canon render) e s c.
Proof. intros c s H. apply step_ext. now apply agree_canon. Qed.

(* s is ANY tree: in particular the one left by any history of runs and crashes (under this or any other render) *)
Theorem regen_canonical_on_targets : forall s c p, render_independent_on_targets render c ->
  c_dryrun c = false -> no_external (c_filepps c) = true -> c_filepps c <> [] ->
  snd (step render e s c) = Ok -> In p (targets c) ->
  obs (fst (step render e s c) p) = canonical render e c p.
Proof.
  intros s c p H Hd Hne Hpp Hok Hin. rewrite (step_canon c s H) in *.
  exact (canonical_any_state (canon render) e (canon_independent render) Hwf s c p Hd Hne Hpp Hok Hin).
Qed.

Theorem regen_content_on_targets : forall s c p, render_independent_on_targets render c ->
  c_dryrun c = false -> no_external (c_filepps c) = true -> snd (step render e s c) = Ok -> In p (targets c) ->
  exists f, fst (step render e s c) p = Some f /\ f_isdir f = false /\ f_cid f = render empty_fs 0 (c_class c) p.
Proof.
  intros s c p H Hd Hne Hok Hin. rewrite (step_canon c s H) in *.
  exact (content_any_state (canon render) e (canon_independent render) Hwf s c p Hd Hne Hok Hin).
Qed.

Theorem regen_equals_fresh_on_targets : forall s c p, render_independent_on_targets render c ->
  c_dryrun c = false -> no_external (c_filepps c) = true -> c_filepps c <> [] ->
  snd (step render e s c) = Ok -> snd (step render e empty_fs c) = Ok -> In p (targets c) ->
  obs (fst (step render e s c) p) = obs (fst (step render e empty_fs c) p).
Proof.
  intros s c p H Hd Hne Hpp H1 H2 Hin.
  rewrite (regen_canonical_on_targets s c p H Hd Hne Hpp H1 Hin).
  now rewrite (regen_canonical_on_targets empty_fs c p H Hd Hne Hpp H2 Hin).
Qed.

Theorem no_overwrite_ok_iff_on_targets : forall s c, render_independent_on_targets render c ->
  c_dryrun c = false -> c_allow c = false -> no_external (c_filepps c) = true -> compatible e c c -> targets_plain e c ->
  NoDup (targets c) -> (forall p, In p (targets c) -> ready e s p = true) ->
  (snd (step render e s c) = Ok <-> forall p, In p (targets c) -> s p = None).
Proof.
  intros s c H Hd Ha Hne Hc Lc Hnd Hr. rewrite (step_canon c s H).
  exact (no_overwrite_ok_iff (canon render) e (canon_independent render) Hwf s c Hd Ha Hne Hc Lc Hnd Hr).
Qed.

Theorem no_overwrite_error_iff_on_targets : forall s c, render_independent_on_targets render c ->
  c_dryrun c = false -> c_allow c = false -> no_external (c_filepps c) = true -> compatible e c c -> targets_plain e c ->
  NoDup (targets c) -> (forall p, In p (targets c) -> ready e s p = true) ->
  (snd (step render e s c) = Err EExists <-> exists p, In p (targets c) /\ s p <> None).
Proof.
  intros s c H Hd Ha Hne Hc Lc Hnd Hr. rewrite (step_canon c s H).
  exact (no_overwrite_error_iff (canon render) e (canon_independent render) Hwf s c Hd Ha Hne Hc Lc Hnd Hr).
Qed.

(* success after any history: the history may have been produced under any render (its footprint does not depend on it) *)
Theorem regen_total_history_on_targets : forall h s0 c, render_independent_on_targets render c ->
  chmodable e s0 -> (forall p, In p (targets c) -> ready e s0 p = true) ->
  compatible e c c -> (forall ev, In ev h -> compatible e c (ev_cfg ev)) -> targets_plain e c ->
  c_allow c = true -> c_dryrun c = false -> no_external (c_filepps c) = true ->
  snd (step render e (history render e s0 h) c) = Ok.
Proof.
  intros h s0 c H Hch Hr Hcc Hch' Lc Ha Hd Hne. rewrite (step_canon c _ H). rewrite step_flat.
  pose proof (history_rel_fine render e Hwf h s0 (fun ev _ => specials_safe_now e (ev_cfg ev))) as Rl.
  apply (list_total (canon render) e (canon_independent render) Hwf c Hd Hne Ha Hcc Lc); auto.
  - eapply rel_chmodable; eauto.
  - intros p Hp. apply (ready_preserved e _ _ s0 _ p Rl).
    + intros q Hq [ev [Hev Ht]]. apply (proj1 (Hch' ev Hev) q); [|exact Ht].
      unfold anc, dir_targets. apply in_flat_map. eauto.
    + intros [ev [Hev Han]]. exact (proj2 (Hch' ev Hev) p Han Hp).
    + now apply Hr.
Qed.
End OnTargets.
