(* C06 -- the general theorems of ClosureThm.v specialised to the configuration regenerated from /repo, plus the finite
   facts about the regenerated tables (checked by vm_compute).  These are the statements that break when the source changes. *)
From Verif Require Import Closure ClosureThm ClosureInst.
Open Scope N_scope.

(* the include side (IncludeGenerator.generate_include_filepart_list) and the output side (Namespace._add_data_type) call
   the SAME path function with (type, target language, extension); make_path / _make_ns_list / Namespace.__init__ strop the
   namespace components with the same id type *)
Definition s_inc_args : str := [100; 116; 44; 115; 101; 108; 102; 46; 95; 108; 97; 110; 103; 117; 97; 103; 101; 44; 111; 117; 116; 112; 117; 116; 95; 101; 120; 116; 101; 110; 115; 105; 111; 110].
   (* dt,self._language,output_extension *)
Definition s_out_args : str := [100; 115; 100; 108; 95; 116; 121; 112; 101; 44; 115; 101; 108; 102; 46; 95; 108; 97; 110; 103; 117; 97; 103; 101; 95; 99; 111; 110; 116; 101; 120; 116; 46; 103; 101; 116; 95; 116; 97; 114; 103; 101; 116; 95; 108; 97; 110; 103; 117; 97; 103; 101; 40; 41; 44; 101; 120; 116; 101; 110; 115; 105; 111; 110].
   (* dsdl_type,self._language_context.get_target_language(),extension *)

Lemma path_sites_agree :
  inc_path_callee = s_make_path /\ out_path_callee = s_make_path
  /\ inc_path_args = s_inc_args /\ out_path_args = s_out_args
  /\ mp_ns_idtype = ns_dir_idtype /\ mp_short_idtype = mp_ns_idtype.
Proof. repeat split; vm_compute; reflexivity. Qed.

Lemma cfg_idt_agree l st ext sns files pref std stem_ dflt :
  let c := mk_cfg l st ext sns files pref std stem_ dflt in
  lc_inc_short_idt c = lc_out_short_idt c /\ lc_inc_ns_idt c = lc_out_ns_idt c /\ lc_out_ns_idt c = lc_dir_idt c.
Proof. cbn. repeat split; vm_compute; reflexivity. Qed.

Theorem includes_closed_c : forall q omit ts t i,
  closed q ts = true -> In t ts -> In i (include_list c_cfg q omit t) ->
  In i (map (punct c_cfg) (outputs c_cfg ts)) \/ (omit = false /\ In i (map (punct c_cfg) (support_outputs c_cfg)))
  \/ In i (lc_std c_cfg (direct q t)).
Proof. intros. eapply includes_closed_gen; eauto; apply cfg_idt_agree. Qed.

Theorem includes_closed_cpp : forall std hv q omit ts t i,
  closed q ts = true -> In t ts -> In i (include_list (cpp_cfg std hv) q omit t) ->
  In i (map (punct (cpp_cfg std hv)) (outputs (cpp_cfg std hv) ts))
  \/ (omit = false /\ In i (map (punct (cpp_cfg std hv)) (support_outputs (cpp_cfg std hv))))
  \/ In i (lc_std (cpp_cfg std hv) (direct q t)).
Proof. intros. eapply includes_closed_gen; eauto; apply cfg_idt_agree. Qed.

Theorem py_imports_closed : forall q ts t ns p,
  closed q ts = true -> In t ts -> In ns (import_namespaces t) -> In p (prefixes ns) ->
  In (import_target py_cfg p) (ns_outputs py_cfg ts).
Proof. intros. eapply py_imports_closed_gen; eauto. Qed.

Theorem py_type_file_in_package_dir : forall t,
  exists f, make_path (lc_sid py_cfg) (lc_stropping py_cfg) (lc_out_short_idt py_cfg) (lc_out_ns_idt py_cfg) (lc_ext py_cfg) t
            = ns_dir (lc_sid py_cfg) (lc_dir_idt py_cfg) (ti_ns t) ++ [f].
Proof. intros. apply type_file_in_package_dir; vm_compute; reflexivity. Qed.

(* what the C (and, for unsealed standards, C++) get_includes can ever add is a standard header the tables know *)
Lemma c_std_headers_known : forallb (fun p => existsb (fun d => str_eqb (angle (snd p)) (fst d)) c_declares) c_get_includes = true.
Proof. vm_compute. reflexivity. Qed.

(* ---- std_includes_cover (C) ---- *)
Theorem std_includes_cover_c : forall e,
  c_pod_trigger e = false ->
  c_covered c_get_includes c_support_includes c_tmpl_std_names c_std_types e = true.
Proof.
  intros [[] [] [] [] [] [] [] [] [] [] [] []] H; try discriminate H; vm_compute; reflexivity.
Qed.

Definition feat_empty_pod : feat :=
  {| f_int := false; f_float := false; f_vla := false; f_arr := false; f_boolarr := false; f_bool := false; f_primarr := false; f_union := false;
     f_pod := true; f_empty := true; f_boolvla := false; f_any_union := false |}.

(* known finding F-C06-C-POD: with --omit-serialization-support the include list of an empty type does not declare
   static_assert / uint8_t although the templates emit them *)
Theorem std_includes_cover_c_refuted : exists e,
  c_covered c_get_includes c_support_includes c_tmpl_std_names c_std_types e = false.
Proof. exists feat_empty_pod. vm_compute. reflexivity. Qed.

(* ---- guards ---- *)
Definition s_ (l : list N) : str := l.
Definition ty_abC : tyid := {| ti_ns := [s_ [103;102]; s_ [97]; s_ [98]]; ti_short := s_ [67]; ti_major := 1; ti_minor := 0 |}.      (* gf.a.b.C.1.0 *)
Definition ty_ab_C : tyid := {| ti_ns := [s_ [103;102]; s_ [97]]; ti_short := s_ [98;95;67]; ti_major := 1; ti_minor := 0 |}.        (* gf.a.b_C.1.0 *)

(* known finding F-C06-GUARD-FOLD: distinct types, distinct output files, same include guard *)
Theorem guard_injective_refuted : exists t1 t2,
  full_name t1 <> full_name t2 /\ out_path (cpp_cfg [] false) t1 <> out_path (cpp_cfg [] false) t2
  /\ guard_cpp t1 = guard_cpp t2 /\ guard_c t1 = guard_c t2.
Proof.
  exists ty_abC, ty_ab_C. repeat split; try (vm_compute; reflexivity); vm_compute; discriminate.
Qed.

Theorem guard_injective_c : forall t1 t2, guard_c t1 = guard_c t2 ->
  macrofy (sid_of LC) c_stropping (full_name t1) = macrofy (sid_of LC) c_stropping (full_name t2)
  /\ dec_str (ti_major t1) = dec_str (ti_major t2) /\ dec_str (ti_minor t1) = dec_str (ti_minor t2).
Proof. intros. eapply guard_injective_gen; eauto. Qed.

Theorem guard_injective_cpp : forall t1 t2, guard_cpp t1 = guard_cpp t2 ->
  macrofy (sid_of LC) c_stropping (full_name t1) = macrofy (sid_of LC) c_stropping (full_name t2)
  /\ dec_str (ti_major t1) = dec_str (ti_major t2) /\ dec_str (ti_minor t1) = dec_str (ti_minor t2).
Proof. intros. eapply guard_injective_gen; eauto. Qed.

Theorem namespace_braces_balanced : forall ns,
  balanced [] (open_ns_cpp ns ++ close_ns_cpp ns) = true
  /\ length (open_ns_cpp ns) = length (close_ns_cpp ns)
  /\ map (fun k => match k with TOpen n | TClose n => n end) (close_ns_cpp ns)
     = rev (map (fun k => match k with TOpen n | TClose n => n end) (open_ns_cpp ns)).
Proof. intros. apply namespace_braces_balanced_gen. Qed.

(* ---- non-vacuity: a closed two-type set with a cross-namespace reference, hostile names ---- *)
Definition ty_class_None : tyid := {| ti_ns := [s_ [99;108;97;115;115]]; ti_short := s_ [78;111;110;101]; ti_major := 1; ti_minor := 0 |}.       (* class.None.1.0 *)
Definition ty_user : tyid := {| ti_ns := [s_ [99;108;97;115;115]; s_ [103;111;116;111]]; ti_short := s_ [100;111;117;98;108;101]; ti_major := 1; ti_minor := 0 |}.  (* class.goto.double.1.0 *)
Definition td_None : tdef := {| td_id := ty_class_None; td_isunion := false; td_hidden_union := false; td_service := false; td_attrs := [DInt; DFix DBool] |}.
Definition td_user : tdef := {| td_id := ty_user; td_isunion := false; td_hidden_union := false; td_service := false; td_attrs := [DComp ty_class_None; DVar (DComp ty_class_None)] |}.

Lemma example_closed : closed true [td_None; td_user] = true.
Proof. vm_compute. reflexivity. Qed.

Lemma example_include_c : include_list c_cfg true false td_user
  = [s_ [60;95;99;108;97;115;115;47;78;111;110;101;95;49;95;48;46;104;62];                                   (* <_class/None_1_0.h> *)
     s_ [60;110;117;110;97;118;117;116;47;115;117;112;112;111;114;116;47;115;101;114;105;97;108;105;122;97;116;105;111;110;46;104;62];  (* <nunavut/support/serialization.h> *)
     s_ [60;115;116;100;108;105;98;46;104;62]].                                                               (* <stdlib.h> *)
Proof. vm_compute. reflexivity. Qed.

Lemma example_import_py : py_imports py_cfg td_user = [s_ [99;108;97;115;115;95]].     (* class_ *)
Proof. vm_compute. reflexivity. Qed.
