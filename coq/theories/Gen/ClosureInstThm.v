(* C06 -- the general theorems of ClosureThm.v specialised to the configuration regenerated from /repo, plus the finite
   facts about the regenerated tables (checked by vm_compute).  These are the statements that break when the source changes. *)
From Verif Require Import Closure ClosureThm ClosureInst StropThmInst IsoHeaders.
Open Scope N_scope.

(* the include side (IncludeGenerator.generate_include_filepart_list) and the output side (Namespace._add_data_type) call
   the SAME path function with (type, target language, extension); make_path / _make_ns_list / Namespace.__init__ strop the
   namespace components with the same id type *)
Definition s_inc_args : str := [100; 116; 44; 115; 101; 108; 102; 46; 95; 108; 97; 110; 103; 117; 97; 103; 101; 44; 111; 117; 116; 112; 117; 116; 95; 101; 120; 116; 101; 110; 115; 105; 111; 110].
   (* dt,self._language,output_extension *)
Definition s_out_args : str := [100; 115; 100; 108; 95; 116; 121; 112; 101; 44; 115; 101; 108; 102; 46; 95; 108; 97; 110; 103; 117; 97; 103; 101; 95; 99; 111; 110; 116; 101; 120; 116; 46; 103; 101; 116; 95; 116; 97; 114; 103; 101; 116; 95; 108; 97; 110; 103; 117; 97; 103; 101; 40; 41; 44; 101; 120; 116; 101; 110; 115; 105; 111; 110].
   (* dsdl_type,self._language_context.get_target_language(),extension *)

Lemma path_sites_agree :
  inc_path_callee = s_make_path /\ out_path_callee = s_make_path
  /\ inc_path_args = s_inc_args /\ out_path_args = s_out_args
  /\ mp_ns_idtype = ns_dir_idtype /\ mp_short_idtype = mp_ns_idtype.
Proof. repeat split; vm_compute; reflexivity. Qed.

Lemma cfg_idt_agree l st ext sns files pref std stem_ dflt ti hn :
  let c := mk_cfg l st ext sns files pref std stem_ dflt ti hn in
  lc_inc_short_idt c = lc_out_short_idt c /\ lc_inc_ns_idt c = lc_out_ns_idt c /\ lc_out_ns_idt c = lc_dir_idt c /\ lc_ext c = lc_out_ext c.
Proof. cbn. repeat split; try (vm_compute; reflexivity). destruct l; vm_compute; reflexivity. Qed.

Theorem includes_closed_c : forall q omit ts t i,
  closed q ts = true -> In t ts -> In i (include_list c_cfg q omit t) ->
  In i (map (punct c_cfg) (outputs c_cfg ts)) \/ (omit = false /\ In i (map (punct c_cfg) (support_outputs c_cfg)))
  \/ In i (lc_std c_cfg (direct q t)) \/ In i (lit_includes c_tmpl_includes omit).
Proof. intros. eapply (includes_closed_gen c_cfg); eauto; try apply cfg_idt_agree. Qed.

Theorem includes_closed_cpp : forall std hv q omit ts t i,
  closed q ts = true -> In t ts -> In i (include_list (cpp_cfg std hv) q omit t) ->
  In i (map (punct (cpp_cfg std hv)) (outputs (cpp_cfg std hv) ts))
  \/ (omit = false /\ In i (map (punct (cpp_cfg std hv)) (support_outputs (cpp_cfg std hv))))
  \/ In i (lc_std (cpp_cfg std hv) (direct q t)) \/ In i (lit_includes cpp_tmpl_includes omit).
Proof. intros. eapply (includes_closed_gen (cpp_cfg std hv)); eauto; try apply cfg_idt_agree. Qed.

(* ---- includes, STRICT form: generated, or an ISO standard header (committed table, Gen/IsoHeaders.v), or -- C++ only -- a third-party
        header under the one --language-standard that selects it.  Whatever else get_includes / base.j2 / the option presets add makes
        these facts (and the theorems below) fail. ---- *)
Lemma c_extras_iso : forallb is_iso_c (map (fun p => angle (snd p)) c_get_includes ++ map snd c_tmpl_includes) = true.
Proof. vm_compute. reflexivity. Qed.

Lemma cpp_extras_iso : forallb is_iso_cpp (map (fun p => angle (snd p)) cpp_get_includes ++ map snd cpp_tmpl_includes) = true.
Proof. vm_compute. reflexivity. Qed.

Definition tail_ok (std h : str) : bool := match h with [] => true | _ => is_iso_cpp h || str_in h (third_party_allowed std) end.
Lemma cpp_tails_ok : forallb (fun p => tail_ok (fst p) (fst (snd p)) && tail_ok (fst p) (snd (snd p))) cpp_option_includes = true.
Proof. vm_compute. reflexivity. Qed.

Lemma table_includes_in tbl fl st hv i : In i (table_includes tbl fl st hv) -> exists p, In p tbl /\ i = angle (snd p).
Proof. unfold table_includes. intros H. apply in_map_iff in H. destruct H as [p [<- Hp]]. apply filter_In in Hp. exists p. tauto. Qed.

Lemma lit_includes_in tbl pod i : In i (lit_includes tbl pod) -> exists p, In p tbl /\ i = snd p.
Proof. unfold lit_includes. intros H. apply in_map_iff in H. destruct H as [p [<- Hp]]. apply filter_In in Hp. exists p. tauto. Qed.

Theorem includes_strict_c : forall q omit ts t i,
  closed q ts = true -> In t ts -> In i (include_list c_cfg q omit t) ->
  In i (map (punct c_cfg) (outputs c_cfg ts)) \/ (omit = false /\ In i (map (punct c_cfg) (support_outputs c_cfg))) \/ is_iso_c i = true.
Proof.
  intros q omit ts t i Hc Ht Hi. pose proof c_extras_iso as F. rewrite forallb_forall in F.
  destruct (includes_closed_c q omit ts t i Hc Ht Hi) as [H|[H|[H|H]]]; auto; right; right; apply F; apply in_or_app.
  - left. change (lc_std c_cfg (direct q t)) with (table_includes c_get_includes (flags_of (direct q t)) c_std_types false) in H.
    apply table_includes_in in H. destruct H as [p [Hp ->]]. apply in_map_iff. exists p. auto.
  - right. apply lit_includes_in in H. destruct H as [p [Hp ->]]. apply in_map. exact Hp.
Qed.

Lemma assoc_in {A} k (l : list (str * A)) v : assoc k l = Some v -> In (k, v) l.
Proof.
  induction l as [|[k' v'] l IH]; cbn [assoc]; [discriminate|]. destruct (str_eqb_spec k k').
  - intros E. inversion E; subst. left; reflexivity.
  - intros E. right. auto.
Qed.

Theorem includes_strict_cpp : forall std hv q omit ts t i,
  closed q ts = true -> In t ts -> In i (include_list (cpp_cfg std hv) q omit t) ->
  In i (map (punct (cpp_cfg std hv)) (outputs (cpp_cfg std hv) ts))
  \/ (omit = false /\ In i (map (punct (cpp_cfg std hv)) (support_outputs (cpp_cfg std hv))))
  \/ is_iso_cpp i = true
  \/ In i (third_party_allowed std).
Proof.
  intros std hv q omit ts t i Hc Ht Hi. pose proof cpp_extras_iso as F. rewrite forallb_forall in F.
  destruct (includes_closed_cpp std hv q omit ts t i Hc Ht Hi) as [H|[H|[H|H]]]; auto.
  - unfold cpp_cfg, mk_cfg in H. cbn [lc_std] in H. apply in_app_or in H. destruct H as [H|H].
    + right; right; left. apply F. apply in_or_app. left. apply table_includes_in in H. destruct H as [p [Hp ->]]. apply in_map_iff. exists p. auto.
    + right; right.
      destruct (assoc std cpp_option_includes) as [[a v]|] eqn:E.
      * apply assoc_in in E. pose proof cpp_tails_ok as T. rewrite forallb_forall in T. specialize (T _ E). cbn [fst snd] in T, H.
        apply andb_true_iff in T. destruct T as [Ta Tv].
        assert (G : forall h, tail_ok std h = true -> h <> [] -> is_iso_cpp h = true \/ In h (third_party_allowed std)).
        { intros h Hok Hne. unfold tail_ok in Hok. destruct h; [congruence|]. apply orb_true_iff in Hok. destruct Hok as [Hok|Hok]; auto.
          right. apply str_in_spec. exact Hok. }
        unfold cpp_tail in H. apply in_app_or in H. destruct H as [H|H].
        -- destruct a; [contradiction|]. destruct H as [<-|[]]. apply G; [exact Ta|discriminate].
        -- destruct (flags_of (direct q t) FVla); [|contradiction]. destruct v; [contradiction|]. destruct H as [<-|[]]. apply G; [exact Tv|discriminate].
      * cbn [fst snd] in H. unfold cpp_tail in H. cbn [app] in H. destruct (flags_of (direct q t) FVla); cbn in H; contradiction.
  - right; right; left. apply F. apply in_or_app. right. apply lit_includes_in in H. destruct H as [p [Hp ->]]. apply in_map. exact Hp.
Qed.

(* no third-party header for the ISO flavours: the allowed set is empty unless the standard is the cetl preset *)
Lemma third_party_only_cetl std : std <> s_cetl_std -> third_party_allowed std = [].
Proof. intros H. unfold third_party_allowed. destruct (str_eqb_spec std s_cetl_std); [contradiction|reflexivity]. Qed.

(* R1-5: the two extension sources resolve to the same configured extension; R1-8: cpp base.j2 applies open_namespace and close_namespace
   once each, to the same expression, open first *)
Definition s_full_ns : str := [84;46;102;117;108;108;95;110;97;109;101;115;112;97;99;101].     (* T.full_namespace *)
Lemma extension_sources_agree :
  lc_ext c_cfg = c_ext /\ lc_out_ext c_cfg = c_ext /\ (forall std hv, lc_ext (cpp_cfg std hv) = cpp_ext /\ lc_out_ext (cpp_cfg std hv) = cpp_ext)
  /\ lc_ext py_cfg = py_ext /\ lc_out_ext py_cfg = py_ext.
Proof. repeat split; vm_compute; reflexivity. Qed.

Lemma namespace_sites : cpp_open_ns_args = [s_full_ns] /\ cpp_close_ns_args = [s_full_ns] /\ cpp_open_before_close = true.
Proof. repeat split; vm_compute; reflexivity. Qed.

Theorem py_imports_closed : forall q ts t ns p,
  closed q ts = true -> In t ts -> In ns (import_namespaces t) -> In p (prefixes ns) ->
  In (import_target py_cfg p) (ns_outputs py_cfg ts).
Proof. intros. eapply (py_imports_closed_gen py_cfg); eauto. Qed.

Theorem py_type_file_in_package_dir : forall t,
  exists f, make_path (lc_sid py_cfg) (lc_stropping py_cfg) (lc_out_short_idt py_cfg) (lc_out_ns_idt py_cfg) (lc_out_ext py_cfg) t
            = ns_dir (lc_sid py_cfg) (lc_dir_idt py_cfg) (ti_ns t) ++ [f].
Proof. intros. apply type_file_in_package_dir; vm_compute; reflexivity. Qed.

(* ---- generation completes: stropping never fails on a DSDL name (C09's totality), so sid_of's second arm is dead ---- *)
Lemma sid_of_ok l ty s : cpp_whole_token_premise -> s <> [] -> str_eqb (lower ty) ty_all = false -> strop_lang l ty s = Ok (sid_of l ty s).
Proof.
  intros P Hs Hty. destruct (strop_total_lang l ty s P Hs Hty) as [t Ht]. unfold sid_of. rewrite Ht. reflexivity.
Qed.

(* C and Python need no premise (C09's premise is about the C++ whole-token re-check only) *)
Lemma sid_of_ok_c_py l ty s : l <> LCpp -> s <> [] -> str_eqb (lower ty) ty_all = false -> strop_lang l ty s = Ok (sid_of l ty s).
Proof.
  intros Hl Hs Hty. assert (E : exists t, strop_lang l ty s = Ok t).
  { destruct l; [apply strop_total_c_thm; assumption|congruence|apply strop_total_py_thm; assumption]. }
  destruct E as [t Ht]. unfold sid_of. rewrite Ht. reflexivity.
Qed.

(* every id type the path / guard / namespace / import sites pass is a legal one (not "all") *)
Lemma id_types_legal :
  forallb (fun ty => negb (str_eqb (lower ty) ty_all))
          [mp_short_idtype; mp_ns_idtype; ns_dir_idtype; c_default_idtype; cpp_default_idtype; py_default_idtype; ty_macro] = true.
Proof. vm_compute. reflexivity. Qed.

(* ---- Python: the default id type ("any": imports, full_reference_name) and the path id type strop every DSDL identifier alike ---- *)
Definition res_agree (a b : res) : bool := match a, b with Ok x, Ok y => str_eqb x y | _, _ => false end.

Lemma py_reserved_any_path : forallb (fun w => res_agree (strop_py py_default_idtype w) (strop_py ns_dir_idtype w)) (sc_reserved cfg_py) = true.
Proof. vm_cast_no_check (eq_refl true). Qed.

Lemma py_pattern_free ty t : ty = py_default_idtype \/ ty = ns_dir_idtype -> pattern_lang LPy ty t = false.
Proof. intros [->| ->]; vm_compute; reflexivity. Qed.

Lemma py_any_path c : valid_ident c = true -> strop_py py_default_idtype c = strop_py ns_dir_idtype c.
Proof.
  intros Hv. destruct (reserved_lang LPy c) eqn:R.
  - unfold reserved_lang, is_reserved in R. apply str_in_spec in R.
    pose proof py_reserved_any_path as H. rewrite forallb_forall in H. specialize (H c R).
    unfold res_agree in H. destruct (strop_py py_default_idtype c); try discriminate. destruct (strop_py ns_dir_idtype c); try discriminate.
    destruct (str_eqb_spec t t0); [subst; reflexivity|discriminate].
  - rewrite (strop_id_py_thm py_default_idtype c), (strop_id_py_thm ns_dir_idtype c); try reflexivity.
    + unfold clean_lang. rewrite Hv, R, py_pattern_free; auto.
    + unfold clean_lang. rewrite Hv, R, py_pattern_free; auto.
Qed.

Lemma py_sid_any_path c : valid_ident c = true -> lc_sid py_cfg (lc_default_idt py_cfg) c = lc_sid py_cfg (lc_dir_idt py_cfg) c.
Proof. intros Hv. change (sid_of LPy py_default_idtype c = sid_of LPy ns_dir_idtype c). unfold sid_of. change (strop_lang LPy) with strop_py. rewrite (py_any_path c Hv). reflexivity. Qed.

(* the dotted import name spells the directory chain, for every namespace made of DSDL identifiers: no hypothesis left *)
Theorem py_import_names_are_dirs_py : forall ns, forallb valid_ident ns = true ->
  map (lc_sid py_cfg (lc_default_idt py_cfg)) ns = ns_dir (lc_sid py_cfg) (lc_dir_idt py_cfg) ns.
Proof.
  intros ns H. apply py_import_names_are_dirs; [vm_compute; reflexivity|]. intros c Hc. rewrite forallb_forall in H. apply py_sid_any_path. auto.
Qed.

(* literal imports of the type template: provided by the interpreter / third parties, or a generated support module (when not omitted) *)
Theorem py_literal_imports_closed :
  forallb (fun m => str_in m py_external || str_in (module_file py_cfg m) (generated_support py_cfg false)) py_literal_imports = true.
Proof. vm_compute. reflexivity. Qed.

(* ... which is FALSE with --omit-serialization-support: the support module is imported but not generated (known finding F-C06-PY-POD);
   stated on the regenerated tables so that it follows the code: it holds iff the template still imports a support module literally *)
Theorem py_literal_imports_omit :
  forallb (fun m => str_in m py_external || str_in (module_file py_cfg m) (generated_support py_cfg true)) py_literal_imports
  = forallb (fun m => str_in m py_external) py_literal_imports.
Proof. vm_compute. reflexivity. Qed.

(* Namespace.j2's `from <full_reference_name> import <short_reference_name>`: the module it names is the generated file of the type.
   Hypotheses are computable booleans on the type's own name (satisfiable: Example below); stropping agreement is py_any_path *)
Theorem py_init_imports_closed : forall ts d,
  In d ts -> forallb valid_ident (ti_ns (td_id d)) = true -> valid_ident (versioned (td_id d)) = true ->
  str_eqb (stem (short_ref (lc_sid py_cfg) (lc_stropping py_cfg) (lc_default_idt py_cfg) (td_id d)))
          (short_ref (lc_sid py_cfg) (lc_stropping py_cfg) (lc_default_idt py_cfg) (td_id d)) = true ->
  In (posix (removelast (init_import_module py_cfg (td_id d)) ++ [last (init_import_module py_cfg (td_id d)) [] ++ lc_out_ext py_cfg]))
     (outputs py_cfg ts).
Proof.
  intros ts d Hd Hns Hv Hst.
  pose proof (py_init_imports_closed_gen py_cfg ts d Hd) as H. rewrite map_id in H. apply H.
  - intros c Hc. rewrite forallb_forall in Hns. exact (py_sid_any_path c (Hns c Hc)).
  - exact (py_sid_any_path _ Hv).
  - destruct (str_eqb_spec (stem (short_ref (lc_sid py_cfg) (lc_stropping py_cfg) (lc_default_idt py_cfg) (td_id d)))
                           (short_ref (lc_sid py_cfg) (lc_stropping py_cfg) (lc_default_idt py_cfg) (td_id d))); [assumption|discriminate].
Qed.

(* ---- std_includes_cover (C) ---- *)
Lemma In_bools b : In b bools.
Proof. destruct b; cbn; auto. Qed.

Lemma all_feats_complete e : In e (all_feats (f_pod e)).
Proof.
  destruct e as [a b c d e5 f g h pod i j k m]. cbn [f_pod]. unfold all_feats.
  repeat (apply in_flat_map; eexists; split; [apply In_bools|]).
  apply in_map_iff. eexists. split; [reflexivity|apply In_bools].
Qed.

Lemma c_ser_all : forallb (fun e => c_float_trigger e || c_cov e) (all_feats false) = true.
Proof. vm_compute. reflexivity. Qed.

(* with serialization support: for every combination of dependency flags and features, every standard name the templates or the
   filters emit is made visible by a header from get_includes / the support header's includes / base.j2's literal includes *)
Theorem std_includes_cover_c : forall e, f_pod e = false -> c_float_trigger e = false -> c_cov e = true.
Proof.
  intros e Hp Ht. pose proof c_ser_all as H. rewrite forallb_forall in H.
  pose proof (all_feats_complete e) as Hin. rewrite Hp in Hin. specialize (H e Hin). rewrite Ht in H. exact H.
Qed.

(* the same for the features COMPUTED from a type definition: the flags are DependencyBuilder.direct's *)
Theorem std_includes_cover_c_tdef : forall q omit_float empty t,
  c_float_trigger (feat_of q false omit_float empty t) = false -> c_cov (feat_of q false omit_float empty t) = true.
Proof. intros. apply std_includes_cover_c; auto. Qed.

(* without the support header (--omit-serialization-support): the headers are self-sufficient for ALL features iff the regenerated
   tables say so (c_pod_selfsufficient is computed from get_includes + base.j2's literal includes; false = known finding F-C06-C-POD) *)
Theorem std_includes_cover_c_pod_iff :
  c_pod_selfsufficient = true <-> (forall e, f_pod e = true -> c_float_trigger e = false -> c_cov e = true).
Proof.
  unfold c_pod_selfsufficient. split.
  - intros H e Hp Ht. rewrite forallb_forall in H. pose proof (all_feats_complete e) as Hin. rewrite Hp in Hin.
    specialize (H e Hin). rewrite Ht in H. exact H.
  - intros H. apply forallb_forall. intros e Hin.
    assert (Hp : f_pod e = true).
    { unfold all_feats in Hin. repeat (apply in_flat_map in Hin; destruct Hin as [? [_ Hin]]). apply in_map_iff in Hin.
      destruct Hin as [? [<- _]]. reflexivity. }
    destruct (c_float_trigger e) eqn:T; [reflexivity|]. cbn. apply H; auto.
Qed.

(* dependence on get_includes: with the support header's includes taken away, stdlib.h is what declares size_t / NULL *)
Lemma c_get_includes_needed :
  c_covered [] c_support_includes c_tmpl_includes c_tmpl_std_names c_filter_names c_declares c_std_types
            {| f_int := true; f_float := false; f_vla := true; f_arr := false; f_boolarr := false; f_bool := true; f_primarr := false;
               f_union := false; f_pod := true; f_empty := false; f_boolvla := false; f_any_union := false; f_omit_float := false |} = false.
Proof. vm_compute. reflexivity. Qed.

(* ---- guards ---- *)
Definition s_ (l : list N) : str := l.
Definition ty_abC : tyid := {| ti_ns := [s_ [103;102]; s_ [97]; s_ [98]]; ti_short := s_ [67]; ti_major := 1; ti_minor := 0 |}.      (* gf.a.b.C.1.0 *)
Definition ty_ab_C : tyid := {| ti_ns := [s_ [103;102]; s_ [97]]; ti_short := s_ [98;95;67]; ti_major := 1; ti_minor := 0 |}.        (* gf.a.b_C.1.0 *)

(* known finding F-C06-GUARD-FOLD: distinct types, distinct output files, same include guard *)
Theorem guard_injective_refuted : exists t1 t2,
  full_name t1 <> full_name t2 /\ out_path (cpp_cfg [] false) t1 <> out_path (cpp_cfg [] false) t2
  /\ guard_cpp t1 = guard_cpp t2 /\ guard_c t1 = guard_c t2.
Proof.
  exists ty_abC, ty_ab_C. repeat split; try (vm_compute; reflexivity); vm_compute; discriminate.
Qed.

Theorem guard_injective_c : forall t1 t2, guard_c t1 = guard_c t2 ->
  macrofy (sid_of LC) c_stropping (full_name t1) = macrofy (sid_of LC) c_stropping (full_name t2)
  /\ dec_str (ti_major t1) = dec_str (ti_major t2) /\ dec_str (ti_minor t1) = dec_str (ti_minor t2).
Proof. unfold guard_c. intros t1 t2. apply guard_injective_gen. Qed.

Theorem guard_injective_cpp : forall t1 t2, guard_cpp t1 = guard_cpp t2 ->
  macrofy (sid_of LC) c_stropping (full_name t1) = macrofy (sid_of LC) c_stropping (full_name t2)
  /\ dec_str (ti_major t1) = dec_str (ti_major t2) /\ dec_str (ti_minor t1) = dec_str (ti_minor t2).
Proof. unfold guard_cpp. intros t1 t2. apply guard_injective_gen. Qed.

Theorem namespace_braces_balanced : forall ns,
  balanced [] (open_ns_cpp ns ++ close_ns_cpp ns) = true
  /\ length (open_ns_cpp ns) = length (close_ns_cpp ns)
  /\ map (fun k => match k with TOpen n | TClose n => n end) (close_ns_cpp ns)
     = rev (map (fun k => match k with TOpen n | TClose n => n end) (open_ns_cpp ns)).
Proof. intros. apply namespace_braces_balanced_gen. Qed.

(* ---- non-vacuity: a closed two-type set with a cross-namespace reference, hostile names ---- *)
Definition ty_class_None : tyid := {| ti_ns := [s_ [99;108;97;115;115]]; ti_short := s_ [78;111;110;101]; ti_major := 1; ti_minor := 0 |}.       (* class.None.1.0 *)
Definition ty_user : tyid := {| ti_ns := [s_ [99;108;97;115;115]; s_ [103;111;116;111]]; ti_short := s_ [100;111;117;98;108;101]; ti_major := 1; ti_minor := 0 |}.  (* class.goto.double.1.0 *)
Definition td_None : tdef := {| td_id := ty_class_None; td_isunion := false; td_hidden_union := false; td_service := false; td_attrs := [DInt; DFix DBool] |}.
Definition td_user : tdef := {| td_id := ty_user; td_isunion := false; td_hidden_union := false; td_service := false; td_attrs := [DComp ty_class_None; DVar (DComp ty_class_None)] |}.

Lemma example_closed : closed q_union_live [td_None; td_user] = true.
Proof. vm_compute. reflexivity. Qed.

Lemma example_include_c : include_list c_cfg q_union_live false td_user
  = [s_ [60;95;99;108;97;115;115;47;78;111;110;101;95;49;95;48;46;104;62];                                   (* <_class/None_1_0.h> *)
     s_ [60;110;117;110;97;118;117;116;47;115;117;112;112;111;114;116;47;115;101;114;105;97;108;105;122;97;116;105;111;110;46;104;62];  (* <nunavut/support/serialization.h> *)
     s_ [60;115;116;100;108;105;98;46;104;62]].                                                               (* <stdlib.h> *)
Proof. vm_compute. reflexivity. Qed.

Lemma example_init_import_hyps :
  forallb valid_ident (ti_ns (td_id td_None)) = true /\ valid_ident (versioned (td_id td_None)) = true
  /\ str_eqb (stem (short_ref (lc_sid py_cfg) (lc_stropping py_cfg) (lc_default_idt py_cfg) (td_id td_None)))
             (short_ref (lc_sid py_cfg) (lc_stropping py_cfg) (lc_default_idt py_cfg) (td_id td_None)) = true.
Proof. vm_compute. auto. Qed.

Lemma example_import_py : py_imports py_cfg td_user = [s_ [99;108;97;115;115;95]].     (* class_ *)
Proof. vm_compute. reflexivity. Qed.
