(* C07 -- reproducible output.  Executable model (no proofs) of the environment-sensitive steps of one
   generator run:   collect types -> build namespace tree -> generation order -> per file: dependency set ->
   include list -> header fields -> template body.
   Anchors in /repo: _namespace.py (build_namespace_tree, Namespace._nested_namespaces, _recursive_*_generator),
   _dependencies.py (Dependencies.composite_types), lang/_common.py (IncludeGenerator.generate_include_filepart_list),
   jinja/__init__.py (_generate_code: now_utc; generate_all), jinja/environment.py (update_nunavut_globals,
   _create_platform_version), lang/*/templates + support (the header lines).

   The ambient state a pure function must not read is the record [env]: clock, a permutation oracle applied at
   EVERY place the code iterates a hash-ordered collection, cwd, absolute root of the inputs.
   What the templates/sources do with it is data regenerated from /repo on every run (Generated/Gen_Repro.v):
   a table of use sites of ambient globals with their gating, and boolean facts about the Python sources. *)
From Coq Require Import List NArith Bool Permutation.
From Verif Require Import Str.
Import ListNotations.
Open Scope N_scope.

(* ---------------------------------------------------------------------------------------------- *)
(* strings: Python's str order (lexicographic by code point) and sorted()                          *)
(* ---------------------------------------------------------------------------------------------- *)
Fixpoint str_leb (a b : str) : bool :=
  match a, b with
  | [], _ => true
  | _ :: _, [] => false
  | x :: a', y :: b' => if x <? y then true else if x =? y then str_leb a' b' else false
  end.

Fixpoint insert_sorted (x : str) (l : list str) : list str :=
  match l with
  | [] => [x]
  | y :: l' => if str_leb x y then x :: l else y :: insert_sorted x l'
  end.

(* sorted(l) on strings.  Python's sort is a stable merge sort; on a total antisymmetric order every
   correct sort returns the same list, which is all the model needs (sorted_canonical). *)
Fixpoint sort (l : list str) : list str :=
  match l with
  | [] => []
  | x :: l' => insert_sorted x (sort l')
  end.

(* sorted(l, key=...) in general: a stable insertion sort on any comparison.  Elements that compare equal both ways keep
   their input order (Python's sort is stable), so the result is canonical only for antisymmetric comparisons. *)
Fixpoint ginsert {A} (leb : A -> A -> bool) (x : A) (l : list A) : list A :=
  match l with
  | [] => [x]
  | y :: l' => if leb x y then x :: l else y :: ginsert leb x l'
  end.
Fixpoint gsort {A} (leb : A -> A -> bool) (l : list A) : list A :=
  match l with
  | [] => []
  | x :: l' => ginsert leb x (gsort leb l')
  end.

(* lang/html/__init__.py _natural_sort: key = digit runs as integers, text case-folded.  Model of the key: ASCII lower case
   and leading zeros of digit runs dropped (what makes unit7/unit07 and Abc/abc tie; the integer-vs-text ORDER of the real key
   is not modelled, only which names tie). *)
Definition is_digit (c : N) : bool := (48 <=? c) && (c <=? 57).
Definition lower (c : N) : N := if (65 <=? c) && (c <=? 90) then c + 32 else c.
Fixpoint natkey_aux (prev_digit : bool) (s : str) : str :=
  match s with
  | [] => []
  | c :: r =>
      let next_digit := match r with d :: _ => is_digit d | [] => false end in
      if (c =? 48) && negb prev_digit && next_digit then natkey_aux false r
      else lower c :: natkey_aux (is_digit c) r
  end.
Definition natkey (s : str) : str := natkey_aux false s.

(* comparison of sorted(key=k) without tie-breaker, and with the exact name as tie-breaker (key = (k x, x)) *)
Definition key_leb (k : str -> str) (x y : str) : bool := str_leb (k x) (k y).
Definition pair_leb (k : str -> str) (x y : str) : bool :=
  if str_eqb (k x) (k y) then str_leb x y else str_leb (k x) (k y).

Fixpoint join (sep : str) (l : list str) : str :=
  match l with
  | [] => []
  | [x] => x
  | x :: l' => x ++ sep ++ join sep l'
  end.

Fixpoint dec_fuel (f : nat) (n : N) (acc : str) : str :=
  match f with
  | O => acc
  | S f' => let acc' := (48 + n mod 10) :: acc in
            if n / 10 =? 0 then acc' else dec_fuel f' (n / 10) acc'
  end.
Definition dec (n : N) : str := dec_fuel (S (N.size_nat n)) n [].

Fixpoint strs_eqb (a b : list str) : bool :=
  match a, b with
  | [], [] => true
  | x :: a', y :: b' => str_eqb x y && strs_eqb a' b'
  | _, _ => false
  end.

 (* Python's list comparison on lists of str (Namespace._namespace_components): lexicographic by component *)
Fixpoint strs_leb (a b : list str) : bool :=
  match a, b with
  | [], _ => true
  | _ :: _, [] => false
  | x :: a', y :: b' => if str_eqb x y then strs_leb a' b' else str_leb x y
  end.

(* ---------------------------------------------------------------------------------------------- *)
(* inputs                                                                                          *)
(* ---------------------------------------------------------------------------------------------- *)
Notation nsname := (list (list N)) (only parsing).       (* namespace components, root first *)
Notation path := (list (list N)) (only parsing).         (* path components *)

Record tykey := { k_ns : nsname; k_short : str; k_major : N; k_minor : N }.

(* one type of the root namespace as pydsdl hands it to nunavut, minus the absolute location:
   d_deps  = composite types its attributes mention, in attribute order, duplicates kept
             (DependencyBuilder.direct walks them in this order and adds them to a set);
   d_std   = the language's system includes for it (Language.get_includes: a function of the type and the
             options, no ambient input);
   d_src   = source file path relative to the directory that holds the root namespace. *)
Record tydecl := { d_key : tykey; d_deps : list tykey; d_std : list str; d_src : path }.

Inductive lang := LC | LCpp | LPy | LHtml.
Definition lang_eqb (a b : lang) : bool :=
  match a, b with LC, LC | LCpp, LCpp | LPy, LPy | LHtml, LHtml => true | _, _ => false end.

(* a --configuration file: its location relative to the project root (the directory that holds `in/`), and the value it
   sets for one language option (None = does not set it).  Files loaded later override earlier ones. *)
Record cfgfile := { cf_path : path; cf_val : option N }.

Record cfg := {
  c_lang : lang;
  c_ext : str;                    (* ".h" *)
  c_stem : str;                   (* namespace file stem, "__init__" / "_" *)
  c_gen_ns : bool;                (* generate_namespace_types *)
  c_embed_audit : bool;           (* --embed-auditing-info *)
  c_omit_ser : bool;              (* --omit-serialization-support *)
  c_prefer_sys : bool;            (* prefer_system_includes: <p> instead of "p" *)
  c_support_incs : list str;      (* serialization support headers as include paths, unquoted *)
  c_support_files : list path;    (* files written by the SupportGenerator *)
  c_config_files : list cfgfile;  (* --configuration files in command-line order, spelled relative to the working directory *)
  c_user_templates : bool;        (* --templates / --support-templates directories given (they live next to the inputs) *)
}.

(* ---------------------------------------------------------------------------------------------- *)
(* environment                                                                                     *)
(* ---------------------------------------------------------------------------------------------- *)
(* e_shuffle A site key l : the order in which CPython iterates a set that received the elements l in
   this order, at iteration site [site].  It may depend on anything it can see (keys = what is hashed,
   insertion history, the site) but it is a permutation.  Different environments = different hash seeds. *)
Record env := {
  e_clock : N;
  e_cwd : path;
  e_abs : path;                   (* absolute directory that holds the inputs *)
  e_out : path;                   (* absolute output directory (-O): "inputs and OUTPUTS placed at another absolute location" *)
  e_shuffle : forall A : Type, N -> (A -> str) -> list A -> list A;
  e_shuffle_perm : forall A s k l, Permutation l (e_shuffle A s k l);
}.

(* iteration sites of hash-ordered collections (the translator maps every such site it finds in the Python
   sources to one of these; anything it cannot map becomes SetUnknown) *)
Inductive set_site :=
| SetNsIndex          (* _namespace.py build_namespace_tree: for full_namespace in namespace_index *)
| SetNestedIter       (* _namespace.py Namespace.get_nested_namespaces: iter(self._nested_namespaces) *)
| SetNestedBfs        (* _namespace.py Namespace._bfs_search_for_output_path: for nested in namespace._nested_namespaces *)
| SetDepsIncludes     (* lang/_common.py generate_include_filepart_list: for dt in dep_types.composite_types *)
| SetLangMap          (* lang/__init__.py _new_language_map: for language_name in set(...) - set(...) *)
| SetTemplateFiles    (* jinja/loaders.py get_templates: files (only through sorted()) *)
| SetListingDeps      (* cli/runners.py _dependency_source_files: sorted(set of paths), --list-inputs only *)
| SetPyAliases        (* lang/py filter_newest_minor_version_aliases: sorted({(short_name, major)}) -- plain sorted of tuples *)
| SetUnknown.

Definition site_no (s : set_site) : N :=
  match s with SetNsIndex => 1 | SetNestedIter => 2 | SetNestedBfs => 3 | SetDepsIncludes => 4
             | SetLangMap => 5 | SetTemplateFiles => 6 | SetListingDeps => 8 | SetPyAliases => 9 | SetUnknown => 0 end.

(* sites where this model applies the oracle, or whose result is provably a function of the set alone *)
Definition set_site_modelled (s : set_site) : bool :=
  match s with
  | SetNsIndex | SetNestedIter | SetDepsIncludes => true     (* e_shuffle applied below *)
  | SetNestedBfs => true     (* looks a key up in disjoint dicts: at most one namespace holds the type, see bfs_* in ReproThm *)
  | SetLangMap => true       (* inserts distinct keys into a dict that is only read by key (ln.<language>) *)
  | SetTemplateFiles => true
  | SetListingDeps | SetPyAliases => false   (* acceptable only through a total sorted() *)
  | SetUnknown => false
  end.

(* ---------------------------------------------------------------------------------------------- *)
(* facts about the sources, regenerated by tools/translators/gen_c07.py                             *)
(* ---------------------------------------------------------------------------------------------- *)
Inductive akind :=
| KClock           (* now_utc *)
| KAbsSrc          (* T.source_file_path not reduced to .name; type_to_include_path(resolve=True) *)
| KPickle          (* T | pickle : the pydsdl object, which carries its absolute source path *)
| KCwd
| KOutPath         (* the Namespace path API (output_folder, find_output_path_for_type, get_nested_types() paths, ...): output location *)
| KPlatform        (* nunavut.platform_version: its ambient fields are gated in Python (sf_platform_gated) *)
| KNsIter          (* get_nested_namespaces() in a template; "gated" here means: passed through a sort filter *)
| KIncUnsorted     (* includes/imports filter called with an explicit sort argument *)
| KTmplSets.       (* nunavut.template_sets: ambient only if get_template_sets reports file-system paths (sf_template_sets_pure) *)

Inductive tgroup := GType | GNs | GSupport.

Record site := { s_lang : lang; s_group : tgroup; s_kind : akind; s_gated : bool; s_line : N }.

(* sorted()/list.sort() calls that take a key= : canonical only if the key has a tie-breaker (SortKeyed fact) *)
Inductive sort_site :=
| SortNestedNs        (* _namespace.py get_nested_namespaces: sorted(self._nested_namespaces, key=lambda n: n._namespace_components);
                         the key is the attribute Namespace.__eq__ compares, so distinct set members have distinct keys *)
| SortHtmlNatural     (* lang/html/__init__.py _natural_sort: sorted(instance, key=natural_sort_key) *)
| SortUnknown.

(* sorted()/sort() applied to user-supplied path strings (command line, environment): the spelling of a relative path depends
   on the working directory, so such an order is an ambient read unless the consumer ignores the order *)
Inductive path_sort_site :=
| PsEnvLookupDirs     (* cli/__init__.py main: extra_includes += sorted(extra_includes_from_env): lookup directories; pydsdl
                         resolves and re-sorts them, the order handed over is irrelevant *)
| PsUnknown.
Definition path_sort_modelled (s : path_sort_site) : bool := match s with PsEnvLookupDirs => true | PsUnknown => false end.

(* ambient reads in the Python sources *)
Inductive read_kind := RClock | RCwd | RResolve | RAbsPath | REnviron | RPlatform | RRandom
  | RLocale    (* text I/O without encoding=, locale module, default encodings *)
  | RListdir   (* os.listdir / scandir / walk / glob / Path.iterdir|glob|rglob: order given by the file system *)
  | RMtime     (* st_mtime / getmtime / ... *)
  | RInterp.   (* interpreter state: dir(builtins), __file__, sys.argv, sys.version*, sys.flags, sys.modules *)
Inductive read_site :=
| RdNowUtc            (* jinja/__init__.py _generate_code: self._env.now_utc = utcnow() *)
| RdNowUtcInit        (* jinja/environment.py: now_utc = datetime(MINYEAR, 1, 1) -- a constant *)
| RdNsSourceFolder    (* _namespace.py Namespace.__init__: _source_folder = (...).resolve(); template-visible only as source_file_path *)
| RdListResolve       (* (old name of RdListing) *)
| RdListing           (* the path flows only into the stdout lister / print: --list-inputs, --list-outputs; no file content *)
| RdCompareOnly       (* the path is an operand of ==/!=: a boolean that is the same for two relocated copies *)
| RdDiagnostic        (* the path flows only into a logger call or an exception message *)
| RdSortedListing     (* a directory listing consumed only through sorted() (directly, or via a set that is only sorted) *)
| RdMembership        (* a directory listing used only for a membership / emptiness test *)
| RdPpRunProgram      (* _postprocessors.py ExternalProgramEditInPlace: sys.executable to run the user's --pp-run-program script; that
                         program is an input of the run and may do anything: outside the property *)
 | RdBuiltinsClosed    (* dir(builtins) united with the six names `site` adds: the same list however the interpreter was started *)
| RdBuiltinsSiteDependent (* dir(builtins) alone in PYTHON_RESERVED_IDENTIFIERS: differs under python -S -- known finding
                             F-PY-BUILTINS-SITE; the interpreter's start-up flags are not part of [env], the paired run Rsite covers it *)
| RdFrontEndInput     (* a path passed to pydsdl.read_files / read_namespace: where the inputs are; the parser opens the files, the
                         objects it returns carry source_file_path, which is tracked as a read of its own *)
| RdAsciiPackagedText (* read_text() without encoding= of packaged *.yaml files that are pure ASCII (checked at scan time) *)
| RdIncludeResolve    (* jinja/__init__.py filter_type_to_include_path under `if resolve:`; template-visible: KAbsSrc site *)
| RdPlatform          (* jinja/environment.py _create_platform_version (sf_platform_gated) *)
| RdEnvIncludes       (* cli/__init__.py _extra_includes_from_env: an INPUT (lookup directories), not ambient state of the property *)
| RdUnknown.
Definition read_site_modelled (r : read_site) : bool :=
  match r with RdUnknown => false | _ => true end.

(* the scanner's inventories (regenerated): every iteration over a set, every ambient read, every ordering of user-supplied
   paths, every keyed sort, every function that reaches templates (filters/tests/uses-queries/globals), every file a template
   includes.  The model CONSULTS them: a row that is not accounted for leaks the environment into every generated file
   ([unknown_leak] below), so the main theorem needs [tables_ok] and a wrong row changes what it says. *)
Record aux_tables := {
  t_set_iters : list (set_site * bool * bool);      (* site, goes through sorted(), that sort has no key or a total key *)
  t_reads : list (read_kind * read_site);
  t_path_sorts : list path_sort_site;
  t_sorts : list (sort_site * bool);                (* sorted(key=...): key is total *)
  t_filters : list (N * bool);                      (* function reaching templates (index), body free of unaccounted ambient reads *)
  t_includes : list (lang * bool);                  (* file named by include/import/extends/from: found and scanned *)
  t_scanned : list (lang * N);                      (* per language: number of template files scanned *)
}.
Definition no_tables : aux_tables :=
  {| t_set_iters := []; t_reads := []; t_path_sorts := []; t_sorts := []; t_filters := []; t_includes := []; t_scanned := [] |}.

Record src_facts := {
  sf_inc_sorted : bool;        (* IncludeGenerator returns sorted(...) when sort, filter default sort=True (c, cpp) *)
  sf_imports_sorted : bool;    (* py filter_imports returns sorted(...) by default *)
  sf_templates_sorted : bool;  (* DSDLTemplateLoader.get_templates returns sorted(files) *)
  sf_platform_gated : bool;    (* _create_platform_version: everything but python_version under `if embed_auditing_info` *)
  sf_clock_only_now_utc : bool;(* the only clock read is `self._env.now_utc = datetime.datetime.utcnow()` *)
  sf_audit_threaded : bool;    (* generate_all passes embed_auditing_info to update_nunavut_globals, which sets the flag *)
  sf_config_cmdline_order : bool; (* ArgparseRunner._create_language_context hands the --configuration files to the builder in
                                     command-line order (no sorted()/set on the user-supplied paths) *)
  sf_outputs_always_written : bool; (* generate_all/_generate_header/_copy_header/_generate_code never skip a file depending on the
                                       state of the output directory (no exists()/stat()/mtime test, no continue) *)
  sf_nested_sorted : bool;     (* Namespace.get_nested_namespaces returns sorted(set, key = the attribute __eq__ compares) and is the
                                  only iteration of _nested_namespaces (9b93945) *)
  sf_natsort_total : bool;     (* html _natural_sort: the sort key ends in the exact name (ties broken), see gen_sorts *)
  sf_template_sets_pure : bool;(* DSDLTemplateLoader.get_template_sets reports package names/versions only, no file-system path *)
  sf_tables : aux_tables;
  sf_gzip_mtime_fixed : bool;  (* py filter_pickle: gzip.compress(..., mtime=0) -- the gzip header carries no clock (F-PY-GZIP) *)
}.

Definition set_iter_ok (x : set_site * bool * bool) : bool :=
  let '(s, srt, total) := x in (srt && total) || set_site_modelled s.
Definition all_langs : list lang := [LC; LCpp; LPy; LHtml].
Definition tables_ok (t : aux_tables) : bool :=
  forallb set_iter_ok (t_set_iters t)
  && forallb (fun x => read_site_modelled (snd x)) (t_reads t)
  && forallb path_sort_modelled (t_path_sorts t)
  && forallb (fun x : sort_site * bool => snd x) (t_sorts t)
  && forallb (fun x : N * bool => snd x) (t_filters t)
  && forallb (fun x : lang * bool => snd x) (t_includes t).
(* the scan is not vacuous: every language had template files to look at, and functions reaching templates were found *)
Definition scan_nonvacuous (t : aux_tables) : bool :=
  forallb (fun l => existsb (fun x => lang_eqb (fst x) l && (0 <? snd x)) (t_scanned t)) all_langs
  && negb (match t_filters t with [] => true | _ => false end).

Definition src_facts_ok (f : src_facts) : bool :=
  sf_inc_sorted f && sf_imports_sorted f && sf_templates_sorted f && sf_platform_gated f
  && sf_clock_only_now_utc f && sf_audit_threaded f && sf_gzip_mtime_fixed f
  && sf_natsort_total f && sf_template_sets_pure f && sf_nested_sorted f
  && sf_config_cmdline_order f && sf_outputs_always_written f && tables_ok (sf_tables f).

Definition kind_eqb (a b : akind) : bool :=
  match a, b with
  | KClock, KClock | KAbsSrc, KAbsSrc | KPickle, KPickle | KCwd, KCwd | KOutPath, KOutPath | KPlatform, KPlatform
  | KNsIter, KNsIter | KIncUnsorted, KIncUnsorted | KTmplSets, KTmplSets => true
  | _, _ => false
  end.
Definition group_eqb (a b : tgroup) : bool :=
  match a, b with GType, GType | GNs, GNs | GSupport, GSupport => true | _, _ => false end.

(* does language l have an ungated use of kind k ? *)
Definition ungated (tbl : list site) (l : lang) (k : akind) : bool :=
  existsb (fun s => lang_eqb (s_lang s) l && kind_eqb (s_kind s) k && negb (s_gated s)) tbl.

(* a use site is harmless when it is gated, or when what it shows is not ambient *)
Definition site_ok (f : src_facts) (s : site) : bool :=
  s_gated s || match s_kind s with KPlatform => sf_platform_gated f | KTmplSets => sf_template_sets_pure f | _ => false end.

(* the one ungated ambient use the unchanged tree has (known finding F-PY-PICKLEPATH) *)
Definition is_py_pickle (s : site) : bool :=
  lang_eqb (s_lang s) LPy && kind_eqb (s_kind s) KPickle && group_eqb (s_group s) GType.

Definition lang_clean (f : src_facts) (tbl : list site) (l : lang) : bool :=
  forallb (fun s => negb (lang_eqb (s_lang s) l) || site_ok f s) tbl.

Definition lang_clean_but_pickle (f : src_facts) (tbl : list site) (l : lang) : bool :=
  forallb (fun s => negb (lang_eqb (s_lang s) l) || site_ok f s || is_py_pickle s) tbl.



(* ---------------------------------------------------------------------------------------------- *)
(* the run                                                                                         *)
(* ---------------------------------------------------------------------------------------------- *)
Definition ns_str (n : nsname) : str := join [46] n.
Definition key_str (k : tykey) : str :=
  ns_str (k_ns k) ++ [46] ++ k_short k ++ [46] ++ dec (k_major k) ++ [46] ++ dec (k_minor k).
Definition key_eqb (a b : tykey) : bool := str_eqb (key_str a) (key_str b).
Definition ns_mem (n : nsname) (l : list nsname) : bool := existsb (strs_eqb n) l.

(* -- build_namespace_tree, first loop: namespace_index in insertion order ------------------------ *)
Fixpoint prefixes_desc_fuel (f : nat) (n : nsname) : list nsname :=
  match f with
  | O => []
  | S f' => match n with [] => [] | _ => n :: prefixes_desc_fuel f' (removelast n) end
  end.
(* name_components[0:i] for i = len(ns) .. 1 *)
Definition prefixes_desc (n : nsname) : list nsname := prefixes_desc_fuel (length n) n.

Fixpoint add_ancestors (pre : list nsname) (idx : list nsname) : list nsname :=
  match pre with
  | [] => idx
  | a :: rest => if ns_mem a idx then idx else add_ancestors rest (idx ++ [a])
  end.

Definition index_step (st : list nsname * list nsname) (d : tydecl) : list nsname * list nsname :=
  let '(made, idx) := st in
  let n := k_ns (d_key d) in
  if ns_mem n made then st else (made ++ [n], add_ancestors (prefixes_desc n) idx).

Definition ns_index (I : list tydecl) : list nsname := snd (fold_left index_step I ([], [])).

(* -- second loop: for full_namespace in namespace_index (set!): parent._add_nested_namespace ------- *)
Definition is_child (p c : nsname) : bool :=
  match c with [] => false | _ => strs_eqb (removelast c) p end.

Inductive item := INs (n : nsname) | ITy (d : tydecl) | ISup (p : path).
Record audit := { a_clock : N; a_abs : path; a_out : path }.
(* header lines that show ambient data *)
Inductive hval := HClock (t : N) | HPath (p : path) | HOpt (v : option N).

(* What an inventory row that is NOT accounted for does in the model: it shows the corresponding piece of the environment in
   every generated file (worst case).  Accounted-for rows contribute nothing. *)
Definition order_probe (e : env) (site : N) : option hval :=
  Some (HPath (e_shuffle e _ site (fun x => x) [[48]; [49]])).
Definition leak_of_read (e : env) (x : read_kind * read_site) : list (option hval) :=
  if read_site_modelled (snd x) then []
  else match fst x with
       | RClock => [Some (HClock (e_clock e))]
       | RCwd => [Some (HPath (e_cwd e))]
       | RListdir => [order_probe e 12]
       | _ => [Some (HPath (e_abs e)); Some (HPath (e_out e))]
       end.
Definition leak_all (e : env) : list (option hval) :=
  [Some (HClock (e_clock e)); Some (HPath (e_cwd e)); Some (HPath (e_abs e)); Some (HPath (e_out e)); order_probe e 0].
Definition unknown_leak (t : aux_tables) (e : env) : list (option hval) :=
  flat_map (fun x => if set_iter_ok x then [] else [order_probe e 10]) (t_set_iters t)
  ++ flat_map (leak_of_read e) (t_reads t)
  ++ flat_map (fun x => if path_sort_modelled x then [] else [Some (HPath (e_cwd e))]) (t_path_sorts t)
  ++ flat_map (fun x : sort_site * bool => if snd x then [] else [order_probe e 11]) (t_sorts t)
  ++ flat_map (fun x : N * bool => if snd x then [] else leak_all e) (t_filters t)         (* an unreviewed filter may read anything *)
  ++ flat_map (fun x : lang * bool => if snd x then [] else leak_all e) (t_includes t).       (* so may an included file nobody scanned *)

(* spelling of a file relative to a working directory (os.path.relpath): `..` for every remaining cwd component *)
Fixpoint strip_common (a b : path) : path * path :=
  match a, b with
  | x :: a', y :: b' => if str_eqb x y then strip_common a' b' else (a, b)
  | _, _ => (a, b)
  end.
Definition relspell (cwd file : path) : str :=
  let '(up, down) := strip_common cwd file in join [47] (map (fun _ => [46; 46]) up ++ down).

(* the value of the option after loading the files in the order the runner uses: command-line order, or (mutation) sorted by
   the spelling of the paths as typed, which depends on the working directory *)
Definition load_order (f : src_facts) (cwd root : path) (l : list cfgfile) : list cfgfile :=
  if sf_config_cmdline_order f then l
  else gsort (fun a b => str_leb (relspell cwd (root ++ cf_path a)) (relspell cwd (root ++ cf_path b))) l.
Definition last_val (l : list cfgfile) : option N :=
  fold_left (fun acc x => match cf_val x with Some v => Some v | None => acc end) l None.

(* the order in which templates see nested namespaces when they sort them (html: natural_sort_namespace) *)
Definition nat_leb (f : src_facts) : str -> str -> bool :=
  if sf_natsort_total f then pair_leb natkey else key_leb natkey.

Section Run.
  Variable B : Type.
  Variable sf : src_facts.
  Variable tbl : list site.

  (* the template body as the real engine runs it: it is handed the whole environment.  That it LOOKS only at [body_view]
     (the audit view, and whatever the inventories say is unaccounted for) is a named premise of the theorems:
     [render_sees_only_body_view]. *)
  Variable render : env -> cfg -> item -> list nsname -> B.

  Definition audit_view (e : env) (c : cfg) : option audit :=
    if c_embed_audit c then Some {| a_clock := e_clock e; a_abs := e_abs e; a_out := e_out e |} else None.

  Definition body_view (e : env) (c : cfg) : option audit * list (option hval) :=
    (audit_view e c, unknown_leak (sf_tables sf) e).
  Definition render_sees_only_body_view : Prop :=
    forall e1 e2 c it v, body_view e1 c = body_view e2 c -> render e1 c it v = render e2 c it v.

  Definition loop2_order (e : env) (I : list tydecl) : list nsname :=
    e_shuffle e _ (site_no SetNsIndex) ns_str (ns_index I).

  (* insertion order into parent._nested_namespaces, then iteration order of that set; get_nested_namespaces() returns it
     through sorted(key=_namespace_components) when the regenerated fact says so (9b93945), raw before *)
  Definition nested (e : env) (I : list tydecl) (p : nsname) : list nsname :=
    let it := e_shuffle e _ (site_no SetNestedIter) ns_str (filter (is_child p) (loop2_order e I)) in
    if sf_nested_sorted sf then gsort strs_leb it else it.

  Definition types_of (I : list tydecl) (n : nsname) : list tydecl :=
    filter (fun d => strs_eqb (k_ns (d_key d)) n) I.

  (* Namespace._recursive_data_type_and_namespace_generator / _recursive_data_type_generator *)
  Fixpoint walk (fuel : nat) (e : env) (I : list tydecl) (gen_ns : bool) (n : nsname) : list item :=
    match fuel with
    | O => []
    | S f => (if gen_ns then [INs n] else []) ++ map ITy (types_of I n)
             ++ flat_map (walk f e I gen_ns) (nested e I n)
    end.

  Definition root_of (I : list tydecl) : option nsname :=
    match I with
    | [] => None
    | d :: _ => match k_ns (d_key d) with [] => None | r :: _ => Some [r] end
    end.

  Definition gen_order (e : env) (c : cfg) (I : list tydecl) : list item :=
    map ISup (c_support_files c) ++
    match root_of I with
    | None => []
    | Some r => walk (S (length (ns_index I))) e I (c_gen_ns c) r
    end.

  (* -- per file ---------------------------------------------------------------------------------- *)
  Definition tyfile (c : cfg) (k : tykey) : str :=
    k_short k ++ [95] ++ dec (k_major k) ++ [95] ++ dec (k_minor k) ++ c_ext c.

  Definition item_path (c : cfg) (it : item) : path :=
    match it with
    | INs n => n ++ [c_stem c ++ c_ext c]
    | ITy d => k_ns (d_key d) ++ [tyfile c (d_key d)]
    | ISup p => p
    end.

  (* Dependencies.composite_types: a set filled in attribute order *)
  Fixpoint dedup_keys (l : list tykey) (seen : list tykey) : list tykey :=
    match l with
    | [] => []
    | k :: l' => if existsb (key_eqb k) seen then dedup_keys l' seen else k :: dedup_keys l' (k :: seen)
    end.

  Definition deps_iter (e : env) (d : tydecl) : list tykey :=
    e_shuffle e _ (site_no SetDepsIncludes) key_str (dedup_keys (d_deps d) []).

  Definition quote (c : cfg) (s : str) : str := if c_prefer_sys c then [60] ++ s ++ [62] else [34] ++ s ++ [34].
  Definition inc_path (c : cfg) (k : tykey) : str := join [47] (k_ns k ++ [tyfile c k]).

  (* IncludeGenerator.generate_include_filepart_list (prefer_system_includes = False) *)
  Definition include_list (e : env) (c : cfg) (d : tydecl) : list str :=
    let raw := map (fun k => quote c (inc_path c k)) (deps_iter e d)
               ++ (if c_omit_ser c then [] else map (quote c) (c_support_incs c))
               ++ d_std d in
    if sf_inc_sorted sf then sort raw else raw.

  Definition uses_includes (l : lang) : bool := match l with LC | LCpp => true | _ => false end.

  Definition group_of (it : item) : tgroup :=
    match it with INs _ => GNs | ITy _ => GType | ISup _ => GSupport end.

  Definition src_of (it : item) : path :=
    match it with INs n => n | ITy d => d_src d | ISup _ => [] end.

  Definition eval_site (e : env) (c : cfg) (it : item) (s : site) : option hval :=
    if s_gated s && negb (c_embed_audit c) then None
    else match s_kind s with
         | KClock => Some (HClock (e_clock e))
         | KAbsSrc | KPickle => Some (HPath (e_abs e ++ src_of it))
         | KCwd => Some (HPath (e_cwd e))
         | KOutPath => Some (HPath (e_out e ++ item_path c it))
         (* platform_version: stands for host data (build, compiler, platform string) when not gated in Python *)
         | KPlatform => if c_embed_audit c || negb (sf_platform_gated sf) then Some (HPath (e_abs e)) else None
         | KNsIter | KIncUnsorted => None
         (* template_sets: package name + version, plus the resolved template directories if the loader reports them *)
         | KTmplSets => if c_user_templates c && negb (sf_template_sets_pure sf) then Some (HPath (e_abs e)) else None
         end.

  (* the effective language option (every generated file shows the options: banner, static_asserts, support header) *)
  Definition eff_option (e : env) (c : cfg) : option N :=
    last_val (load_order sf (e_cwd e) (removelast (e_abs e)) (c_config_files c)).

  Definition header (e : env) (c : cfg) (it : item) : list (option hval) :=
    map (eval_site e c it)
        (filter (fun s => lang_eqb (s_lang s) (c_lang c) && group_eqb (s_group s) (group_of it)) tbl)
    ++ unknown_leak (sf_tables sf) e
    ++ match c_config_files c with [] => [] | _ => [Some (HOpt (eff_option e c))] end.

  (* what a namespace page's template sees when it iterates nested namespaces *)
  Definition ns_sorted_in_templates (c : cfg) : bool := negb (ungated tbl (c_lang c) KNsIter).

  Definition nested_view (e : env) (c : cfg) (I : list tydecl) (it : item) : list nsname :=
    match it with
    | INs n => if ns_sorted_in_templates c
               then map (fun s => [s]) (gsort (nat_leb sf) (map ns_str (nested e I n)))
               else nested e I n
    | _ => []
    end.

  Record fcontent := { fc_hdr : list (option hval); fc_inc : list str; fc_body : B }.

  Definition mk_write (e : env) (c : cfg) (I : list tydecl) (it : item) : path * fcontent :=
    (item_path c it,
     {| fc_hdr := header e c it;
        fc_inc := match it with
                  | ITy d => if uses_includes (c_lang c) then include_list e c d else []
                  | _ => []
                  end;
        fc_body := render e c it (nested_view e c I it) |}).

  (* the sequence of (relative path, content) writes of one run *)
  Definition writes (e : env) (c : cfg) (I : list tydecl) : list (path * fcontent) :=
    map (mk_write e c I) (gen_order e c I).

  (* the output directory afterwards: a later write to the same path replaces an earlier one *)
  Fixpoint lookup_last (p : path) (w : list (path * fcontent)) (acc : option fcontent) : option fcontent :=
    match w with
    | [] => acc
    | (q, x) :: w' => lookup_last p w' (if strs_eqb p q then Some x else acc)
    end.

  Definition files (e : env) (c : cfg) (I : list tydecl) (p : path) : option fcontent :=
    lookup_last p (writes e c I) None.

  (* a run into an output directory that already holds files [fs0] (from an earlier run with other options, at another
     time): a file is skipped only if the code looks at the directory before writing (sf_outputs_always_written = false:
     the support generator keeps an existing support file) *)
  Definition writes_into (fs0 : list (path * fcontent)) (e : env) (c : cfg) (I : list tydecl) : list (path * fcontent) :=
    flat_map (fun it => match it with
                        | ISup p => if sf_outputs_always_written sf || negb (existsb (fun w => strs_eqb (fst w) p) fs0)
                                    then [mk_write e c I it] else []
                        | _ => [mk_write e c I it]
                        end) (gen_order e c I).
  Definition files_into (fs0 : list (path * fcontent)) (e : env) (c : cfg) (I : list tydecl) (p : path) : option fcontent :=
    lookup_last p (fs0 ++ writes_into fs0 e c I) None.

  Definition out_paths (e : env) (c : cfg) (I : list tydecl) : list path := map fst (writes e c I).
End Run.


(* ---------------------------------------------------------------------------------------------- *)
(* concrete environments for witnesses and for the correspondence cases                            *)
(* ---------------------------------------------------------------------------------------------- *)
Definition shuffle_id (A : Type) (_ : N) (_ : A -> str) (l : list A) : list A := l.
Definition shuffle_rev (A : Type) (_ : N) (_ : A -> str) (l : list A) : list A := rev l.
(* rotate left by one: a third order *)
Definition shuffle_rot (A : Type) (_ : N) (_ : A -> str) (l : list A) : list A :=
  match l with [] => [] | x :: l' => l' ++ [x] end.

(* reverse only at the iteration of _nested_namespaces *)
Definition shuffle_rev2 (A : Type) (site : N) (_ : A -> str) (l : list A) : list A := if site =? 2 then rev l else l.
Lemma shuffle_rev2_perm A s (k : A -> str) l : Permutation l (shuffle_rev2 A s k l).
Proof. unfold shuffle_rev2. destruct (s =? 2); [apply Permutation_rev|apply Permutation_refl]. Qed.

Lemma shuffle_id_perm A s (k : A -> str) l : Permutation l (shuffle_id A s k l).
Proof. apply Permutation_refl. Qed.
Lemma shuffle_rev_perm A s (k : A -> str) l : Permutation l (shuffle_rev A s k l).
Proof. apply Permutation_rev. Qed.
Lemma shuffle_rot_perm A s (k : A -> str) l : Permutation l (shuffle_rot A s k l).
Proof. destruct l as [|x l]; [constructor|]. cbn. change (x :: l) with ([x] ++ l). apply Permutation_app_comm. Qed.

Definition mk_env (clock : N) (cwd abs : path) (which : N) : env :=
  match which with
  | 0 => {| e_clock := clock; e_cwd := cwd; e_abs := abs; e_out := removelast abs ++ [[111; 117; 116]]; e_shuffle := shuffle_id; e_shuffle_perm := shuffle_id_perm |}
  | 1 => {| e_clock := clock; e_cwd := cwd; e_abs := abs; e_out := removelast abs ++ [[111; 117; 116]]; e_shuffle := shuffle_rev; e_shuffle_perm := shuffle_rev_perm |}
  | 3 => {| e_clock := clock; e_cwd := cwd; e_abs := abs; e_out := removelast abs ++ [[111; 117; 116]]; e_shuffle := shuffle_rev2; e_shuffle_perm := shuffle_rev2_perm |}
  | _ => {| e_clock := clock; e_cwd := cwd; e_abs := abs; e_out := removelast abs ++ [[111; 117; 116]]; e_shuffle := shuffle_rot; e_shuffle_perm := shuffle_rot_perm |}
  end.

(* ---------------------------------------------------------------------------------------------- *)
(* executable comparison used by the correspondence run (tools/checks/c07.py)                       *)
(* ---------------------------------------------------------------------------------------------- *)
Definition hval_eqb (a b : hval) : bool :=
  match a, b with
  | HClock x, HClock y => x =? y
  | HPath x, HPath y => strs_eqb x y
  | HOpt x, HOpt y => match x, y with Some a, Some b => a =? b | None, None => true | _, _ => false end
  | _, _ => false
  end.
Definition ohval_eqb (a b : option hval) : bool :=
  match a, b with Some x, Some y => hval_eqb x y | None, None => true | _, _ => false end.
Fixpoint list_eqb {A} (eqb : A -> A -> bool) (a b : list A) : bool :=
  match a, b with
  | [], [] => true
  | x :: a', y :: b' => eqb x y && list_eqb eqb a' b'
  | _, _ => false
  end.
Definition fc_eqb (a b : fcontent unit) : bool :=
  list_eqb ohval_eqb (fc_hdr unit a) (fc_hdr unit b) && strs_eqb (fc_inc unit a) (fc_inc unit b).
Definition ofc_eqb (a b : option (fcontent unit)) : bool :=
  match a, b with Some x, Some y => fc_eqb x y | None, None => true | _, _ => false end.

Definition render_unit : env -> cfg -> item -> list nsname -> unit := fun _ _ _ _ => tt.
(* the audit view reaches the body: with auditing on, a body that prints it differs when the view differs *)
Definition audit_eqb (a b : option audit) : bool :=
  match a, b with
  | Some x, Some y => (a_clock x =? a_clock y) && strs_eqb (a_abs x) (a_abs y) && strs_eqb (a_out x) (a_out y)
  | None, None => true
  | _, _ => false
  end.

Definition slash (p : path) : str := join [47] p.

(* model's prediction for a pair of runs: for every output path of run e0, is the file byte-identical in run e1? *)
Definition predict (sf : src_facts) (tbl : list site) (c : cfg) (I : list tydecl) (e0 e1 : env) : list (str * bool) :=
  map (fun p => (slash p, ofc_eqb (files unit sf tbl render_unit e0 c I p) (files unit sf tbl render_unit e1 c I p)))
      (out_paths unit sf tbl render_unit e0 c I).

Fixpoint assoc (k : str) (l : list (str * bool)) : option bool :=
  match l with [] => None | (q, b) :: l' => if str_eqb k q then Some b else assoc k l' end.

(* real = (relative path, byte-identical?) as observed on the two real runs *)
Definition rel_agrees (model real : list (str * bool)) : bool :=
  forallb (fun m => match assoc (fst m) real with Some b => Bool.eqb b (snd m) | None => false end) model
  && forallb (fun r => match assoc (fst r) model with Some _ => true | None => false end) real.

(* same, but says nothing about the listed paths (known finding F-PY-PICKLESTATE: the Python _MODEL_ pickle snapshots memo
   caches of shared pydsdl objects, i.e. process state outside the [render] signature; prediction there is "may differ") *)
Definition rel_agrees_except (skip : list str) (model real : list (str * bool)) : bool :=
  rel_agrees (filter (fun m => negb (str_in (fst m) skip)) model) (filter (fun r => negb (str_in (fst r) skip)) real).

Definition paths_agree (sf : src_facts) (tbl : list site) (c : cfg) (I : list tydecl) (e : env) (real : list str) : bool :=
  strs_eqb (sort (map slash (out_paths unit sf tbl render_unit e c I))) (sort real).

(* include lists of the generated headers, in file order *)
Definition includes_agree (sf : src_facts) (c : cfg) (I : list tydecl) (e : env) (real : list (str * list str)) : bool :=
  forallb (fun d => match find (fun r => str_eqb (fst r) (slash (item_path c (ITy d)))) real with
                    | Some r => strs_eqb (include_list sf e c d) (snd r)
                    | None => false
                    end) I.

Definition drop_pickle (tbl : list site) : list site := filter (fun s => negb (is_py_pickle s)) tbl.

Definition with_out (e : env) (out : path) : env :=
  {| e_clock := e_clock e; e_cwd := e_cwd e; e_abs := e_abs e; e_out := out; e_shuffle := e_shuffle e; e_shuffle_perm := e_shuffle_perm e |}.
Definition mk_env_out (clock : N) (cwd abs out : path) (which : N) : env := with_out (mk_env clock cwd abs which) out.
Definition tbl_outpath : list site :=
  [ {| s_lang := LC; s_group := GType; s_kind := KOutPath; s_gated := false; s_line := 1 |} ].

(* quirk tables of the defects this property had in the pinned tree (documentation + refutations) *)
Definition tbl_py_pickle : list site :=
  [ {| s_lang := LPy; s_group := GType; s_kind := KPickle; s_gated := false; s_line := 418 |} ].
Definition tbl_c_abspath : list site :=
  [ {| s_lang := LC; s_group := GType; s_kind := KAbsSrc; s_gated := false; s_line := 63 |} ].
Definition tbl_py_nstime : list site :=
  [ {| s_lang := LPy; s_group := GNs; s_kind := KClock; s_gated := false; s_line := 8 |} ].
Definition tbl_gated_only : list site :=
  [ {| s_lang := LC; s_group := GType; s_kind := KAbsSrc; s_gated := true; s_line := 22 |};
    {| s_lang := LC; s_group := GType; s_kind := KClock; s_gated := true; s_line := 23 |} ].

Definition facts_all_true : src_facts :=
  {| sf_inc_sorted := true; sf_imports_sorted := true; sf_templates_sorted := true; sf_platform_gated := true;
     sf_clock_only_now_utc := true; sf_audit_threaded := true; sf_config_cmdline_order := true; sf_outputs_always_written := true; sf_nested_sorted := true; sf_natsort_total := true; sf_template_sets_pure := true; sf_gzip_mtime_fixed := true; sf_tables := no_tables |}.
Definition facts_natsort_ties : src_facts :=
  {| sf_inc_sorted := true; sf_imports_sorted := true; sf_templates_sorted := true; sf_platform_gated := true;
     sf_clock_only_now_utc := true; sf_audit_threaded := true; sf_config_cmdline_order := true; sf_outputs_always_written := true; sf_nested_sorted := false; sf_natsort_total := false; sf_template_sets_pure := true;
     sf_gzip_mtime_fixed := true; sf_tables := no_tables |}.
Definition facts_tmplsets_paths : src_facts :=
  {| sf_inc_sorted := true; sf_imports_sorted := true; sf_templates_sorted := true; sf_platform_gated := true;
     sf_clock_only_now_utc := true; sf_audit_threaded := true; sf_config_cmdline_order := true; sf_outputs_always_written := true; sf_nested_sorted := true; sf_natsort_total := true; sf_template_sets_pure := false;
     sf_gzip_mtime_fixed := true; sf_tables := no_tables |}.
Definition tbl_tmplsets : list site :=
  [ {| s_lang := LCpp; s_group := GType; s_kind := KTmplSets; s_gated := false; s_line := 34 |} ].
Definition facts_config_sorted : src_facts :=
  {| sf_inc_sorted := true; sf_imports_sorted := true; sf_templates_sorted := true; sf_platform_gated := true;
     sf_clock_only_now_utc := true; sf_audit_threaded := true; sf_config_cmdline_order := false; sf_outputs_always_written := true;
     sf_nested_sorted := true; sf_natsort_total := true; sf_template_sets_pure := true; sf_gzip_mtime_fixed := true; sf_tables := no_tables |}.
Definition facts_support_kept : src_facts :=
  {| sf_inc_sorted := true; sf_imports_sorted := true; sf_templates_sorted := true; sf_platform_gated := true;
     sf_clock_only_now_utc := true; sf_audit_threaded := true; sf_config_cmdline_order := true; sf_outputs_always_written := false;
     sf_nested_sorted := true; sf_natsort_total := true; sf_template_sets_pure := true; sf_gzip_mtime_fixed := true; sf_tables := no_tables |}.
Definition facts_unknown_read : src_facts :=
  {| sf_inc_sorted := true; sf_imports_sorted := true; sf_templates_sorted := true; sf_platform_gated := true;
     sf_clock_only_now_utc := true; sf_audit_threaded := true; sf_config_cmdline_order := true; sf_outputs_always_written := true;
     sf_nested_sorted := true; sf_natsort_total := true; sf_template_sets_pure := true; sf_gzip_mtime_fixed := true;
     sf_tables := {| t_set_iters := []; t_reads := [(RAbsPath, RdUnknown)]; t_path_sorts := []; t_sorts := [];
                     t_filters := []; t_includes := []; t_scanned := [] |} |}.
Definition facts_nested_unsorted : src_facts :=
  {| sf_inc_sorted := true; sf_imports_sorted := true; sf_templates_sorted := true; sf_platform_gated := true;
     sf_clock_only_now_utc := true; sf_audit_threaded := true; sf_config_cmdline_order := true; sf_outputs_always_written := true; sf_nested_sorted := false; sf_natsort_total := true;
     sf_template_sets_pure := true; sf_gzip_mtime_fixed := true; sf_tables := no_tables |}.
Definition facts_inc_unsorted : src_facts :=
  {| sf_inc_sorted := false; sf_imports_sorted := true; sf_templates_sorted := true; sf_platform_gated := true;
     sf_clock_only_now_utc := true; sf_audit_threaded := true; sf_config_cmdline_order := true; sf_outputs_always_written := true; sf_nested_sorted := true; sf_natsort_total := true; sf_template_sets_pure := true; sf_gzip_mtime_fixed := true; sf_tables := no_tables |}.
