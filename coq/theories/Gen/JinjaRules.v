(* C19: the complete rule tables of the Jinja2 lexer (every state), as a function of the Environment options, for three
   "generations": upstream 2.x (regex based lstrip), bundled = upstream 2.x + Nunavut's auto-indent marker alternative in the
   ROOT rule of block/variable(/line) delimiters, and stock 3.x.  The generations differ ONLY through the switches of `gen`:
     g_plus          3.x: every end rule also accepts the '+' sign  (\+END|...)
     g_sign_group    3.x: a begin delimiter is  D(\-|\+|)  and stripping happens in code; 2.x:  \s*D\-|PREFIX  (regex)
     g_suffix_inside 3.x: trim_blocks' \n? sits inside the last alternative; 2.x: after the group (comment, block end)
     g_marker        Nunavut: [ \t]*D\*  alternative in the root rule (not for comments)
   JinjaRulesThm.v proves, by computation over the tables regenerated from the two live lexers, that the bundled lexer is
   `bundled_gen` and the stock lexer is `stock_gen` for every listed option combination. *)
From Coq Require Import String Ascii.
From Verif Require Export JinjaRulesBase.
Open Scope N_scope.

Fixpoint s2l (s : string) : str :=
  match s with
  | EmptyString => []
  | String a r => N_of_ascii a :: s2l r
  end.
Arguments s2l s%string.

Record gen := { g_plus : bool; g_sign_group : bool; g_suffix_inside : bool; g_marker : bool }.
Definition upstream2x_gen : gen := {| g_plus := false; g_sign_group := false; g_suffix_inside := false; g_marker := false |}.
Definition bundled_gen : gen := {| g_plus := false; g_sign_group := false; g_suffix_inside := false; g_marker := true |}.
Definition stock_gen : gen := {| g_plus := true; g_sign_group := true; g_suffix_inside := true; g_marker := false |}.

Definition rule := (str * str * str)%type.          (* pattern text, token spec, new state *)
Definition table := list (str * list rule).

Fixpoint join (sep : str) (l : list str) : str :=
  match l with
  | [] => []
  | [x] => x
  | x :: r => x ++ sep ++ join sep r
  end.

Section Build.
  Variable g : gen.
  Variable c : combo.

  Definition suffix : str := if c_trim c then s2l "\n?" else [].
  Definition plus (e : str) : str := if g_plus g then s2l "\+" ++ e ++ s2l "|" else [].
  Definition marker (d : str) : str := if g_marker g then s2l "[ \t]*" ++ d ++ s2l "\*|" else [].

  (* 2.x: lstrip_blocks is part of the regular expression; '+' right after the opener disables it.
     (delimiter sets whose start strings overlap add further lookaheads: such combinations are not listed) *)
  Definition block_prefix : str :=
    if c_lstrip c then s2l "^[ \t]*" ++ c_bs c ++ s2l "(?!\+)|" ++ c_bs c ++ s2l "\+?" else c_bs c.
  Definition comment_prefix : str :=
    if c_lstrip c then s2l "^[ \t]*" ++ c_cs c ++ s2l "|" ++ c_cs c ++ s2l "\+?" else c_cs c.

  Definition end_group (e : str) (inner_suffix : str) : str :=
    s2l "(?:" ++ plus e ++ s2l "\-" ++ e ++ s2l "\s*|" ++ e ++ inner_suffix ++ s2l ")".

  Definition comment_rule : str :=
    s2l "(.*?)(" ++ end_group (c_ce c) (if g_suffix_inside g then suffix else [])
        ++ (if g_suffix_inside g then [] else suffix) ++ s2l ")".
  Definition block_end_rule : str :=
    end_group (c_be c) (if g_suffix_inside g then suffix else []) ++ (if g_suffix_inside g then [] else suffix).
  Definition variable_end_rule : str := s2l "\-" ++ c_ve c ++ s2l "\s*|" ++ c_ve c.

  (* the opener of `endraw` *)
  Definition raw_end_begin : str :=
    if g_sign_group g then s2l "(?:" ++ c_bs c ++ s2l "(\-|\+|))"
    else s2l "(?:\s*" ++ c_bs c ++ s2l "\-|" ++ block_prefix ++ s2l ")".
  Definition raw_end_rule : str :=
    s2l "(.*?)(" ++ raw_end_begin ++ s2l "\s*endraw\s*" ++ end_group (c_be c) suffix ++ s2l ")".

  Definition raw_tail_txt : str := s2l "\s*raw\s*(?:\-" ++ c_be c ++ s2l "\s*|" ++ c_be c ++ s2l "))".
  Definition root_raw : str :=
    if g_sign_group g then s2l "(?P<raw_begin>" ++ c_bs c ++ s2l "(\-|\+|)" ++ raw_tail_txt
    else s2l "(?P<raw_begin>(?:\s*" ++ c_bs c ++ s2l "\-|" ++ marker (c_bs c) ++ block_prefix ++ s2l ")" ++ raw_tail_txt.

  Definition root_tag (nr : str * str) : str :=
    let (n, r) := nr in
    if g_sign_group g then s2l "(?P<" ++ n ++ s2l ">" ++ r ++ s2l "(\-|\+|))"
    else
      let is_comment := str_eqb n (s2l "comment") in
      let is_block := str_eqb n (s2l "block") in
      s2l "(?P<" ++ n ++ s2l "_begin>\s*" ++ r ++ s2l "\-|" ++ (if is_comment then [] else marker r)
          ++ (if is_block then block_prefix else if is_comment then comment_prefix else r) ++ s2l ")".

  Definition root_rule : str :=
    s2l "(.*?)(?:"
        ++ join (s2l "|") (root_raw :: map root_tag (if g_sign_group g then c_order_stock c else c_order_bundled c))
        ++ s2l ")".

  Definition tup (s : string) : str := (if g_sign_group g then s2l "OptionalLStrip" else s2l "tuple") ++ s2l s.
  Arguments tup s%string.

  Definition NONE : str := s2l "None".
  Definition POP : str := s2l "#pop".

  (* tag_rules of the 2.x line (unmodified by Nunavut); the name rule is the Unicode identifier class, pinned by digest *)
  Definition tag_rules_2x : list rule :=
    [ (s2l "\s+", s2l "whitespace", NONE);
      (s2l "(?<!\.)\d+\.\d+", s2l "float", NONE);
      (s2l "\d+", s2l "integer", NONE);
      (s2l "sha256:d9b75d8a090db638ca5a37d13fd35555adb36c846284530c292ad2781e38d388", s2l "name", NONE);
      (s2l "('([^'\\]*(?:\\.[^'\\]*)*)'|""([^""\\]*(?:\\.[^""\\]*)*)"")", s2l "string", NONE);
      (s2l "(//|\*\*|==|!=|>=|<=|\+|\-|/|\*|%|\~|\[|\]|\(|\)|\{|\}|>|<|=|\.|:|\||,|;)", s2l "operator", NONE) ].

  Definition build (tags : list rule) : table :=
    [ (s2l "root", [ (root_rule, tup "(data,#bygroup)", s2l "#bygroup"); (s2l ".+", s2l "data", NONE) ]);
      (s2l "comment_begin", [ (comment_rule, s2l "tuple(comment,comment_end)", POP);
                              (s2l "(.)", s2l "tuple(Failure:Missing end of comment tag)", NONE) ]);
      (s2l "block_begin", (block_end_rule, s2l "block_end", POP) :: tags);
      (s2l "variable_begin", (variable_end_rule, s2l "variable_end", POP) :: tags);
      (s2l "raw_begin", [ (raw_end_rule, tup "(data,raw_end)", POP);
                          (s2l "(.)", s2l "tuple(Failure:Missing end of raw directive)", NONE) ]);
      (s2l "linestatement_begin", (s2l "\s*(\n|$)", s2l "linestatement_end", POP) :: tags);
      (s2l "linecomment_begin", [ (s2l "(.*?)()(?=\n|$)", s2l "tuple(linecomment,linecomment_end)", POP) ]) ].
End Build.

Definition is_tag_rule (r : rule) : bool :=
  let t := snd (fst r) in
  str_in t [s2l "whitespace"; s2l "float"; s2l "integer"; s2l "name"; s2l "string"; s2l "operator"].
Definition drop_tag_rules (t : table) : table := map (fun sr => (fst sr, filter (fun r => negb (is_tag_rule r)) (snd sr))) t.
Definition nonroot (t : table) : table := filter (fun sr => negb (str_eqb (fst sr) (s2l "root"))) t.

Definition rule_eqb (a b : rule) : bool :=
  str_eqb (fst (fst a)) (fst (fst b)) && str_eqb (snd (fst a)) (snd (fst b)) && str_eqb (snd a) (snd b).
