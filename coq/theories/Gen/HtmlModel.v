(* C20 -- executable model of the HTML documentation generator (no proofs in this file).
   Parts:
     1. autoescape decision (jinja2.utils.select_autoescape inner function, data regenerated in Gen_Html.v)
     2. character-level tag/text scanner, balance checker, entity decoder
     3. pieces (open tag / close tag / raw text), rendering
     4. DSDL-side description of a type graph / namespace tree (what the templates read from pydsdl)
     5. element-tree emitter mirroring generate_type_info / generate_namespace_info / generate_sidebar_view / type_base.j2
     6. pages of a site, ids, hrefs, URL resolution
   Hand-modelled parts are tied by the correspondence run of tools/checks/c20.py; filter_tag_id,
   filter_url_from_type, filter_make_unique, filter_namespace_doc, markupsafe_escape, the autoescape
   configuration, the template names and the per-template "docs explicitly escaped" flags are
   translated from /repo on every run (Generated/Gen_Html.v). *)
From Coq Require Import String Ascii.
From Verif Require Export HtmlBase Gen_Html.
Open Scope N_scope.

(* string literals -> code point lists (only used through `Eval vm_compute`, so constants are normal forms) *)
Fixpoint lit (s : string) : str :=
  match s with
  | EmptyString => []
  | String a r => N_of_ascii a :: lit r
  end.

(* ---------------------------------------------------------------------------------------- *)
(* 1. autoescape                                                                              *)
(* ---------------------------------------------------------------------------------------- *)
Definition ext_pattern (x : str) : str := 46 :: py_lower_ascii (lstrip_chr 46 x).

(* select_autoescape(...)(template_name) for a template loaded by name (template_name is not None) *)
Definition autoescape_selected (name : str) : bool :=
  let n := py_lower_ascii name in
  if existsb (fun x => ends_with n (ext_pattern x)) autoescape_enabled_exts then true
  else if existsb (fun x => ends_with n (ext_pattern x)) autoescape_disabled_exts then false
  else autoescape_default.

(* per template: is `{{ x }}` escaped (autoescape), is documentation text escaped (autoescape or explicit `| e`) *)
Record cfg := {
  ae_ti : bool; de_ti : bool;     (* type_info.j2 *)
  ae_ni : bool; de_ni : bool;     (* namespace_info.j2 *)
  ae_sb : bool; de_sb : bool;     (* sidebar.j2 *)
  ae_tb : bool; de_tb : bool;     (* type_base.j2 *)
  ae_ns : bool;                   (* Namespace.j2 *)
  lk_up : bool;                   (* type links are prefixed with '../' per namespace level of the page (Namespace.j2 -> up) *)
  lk_us : bool                    (* no link is written for a type that is not listed (short name `_`; halves of a service named `_`) *)
}.

Definition n_type_info : str := Eval vm_compute in lit "type_info.j2".
Definition n_namespace_info : str := Eval vm_compute in lit "namespace_info.j2".
Definition n_sidebar : str := Eval vm_compute in lit "sidebar.j2".
Definition n_type_base : str := Eval vm_compute in lit "type_base.j2".
Definition n_namespace : str := Eval vm_compute in lit "Namespace.j2".

(* the configuration the working tree has now *)
Definition faithful_cfg : cfg := {|
  ae_ti := autoescape_selected n_type_info;
  de_ti := autoescape_selected n_type_info || docs_escaped_type_info;
  ae_ni := autoescape_selected n_namespace_info;
  de_ni := autoescape_selected n_namespace_info || docs_escaped_namespace_info;
  ae_sb := autoescape_selected n_sidebar;
  de_sb := autoescape_selected n_sidebar || docs_escaped_sidebar;
  ae_tb := autoescape_selected n_type_base;
  de_tb := autoescape_selected n_type_base || docs_escaped_type_base;
  ae_ns := autoescape_selected n_namespace;
  lk_up := links_up_prefix;
  lk_us := links_skip_us |}.

(* what the property asks for with the least change: documentation sinks escaped, nothing else touched *)
Definition conformant_cfg : cfg := {|
  ae_ti := false; de_ti := true; ae_ni := false; de_ni := true; ae_sb := false; de_sb := true;
  ae_tb := false; de_tb := true; ae_ns := false; lk_up := links_up_prefix; lk_us := links_skip_us |}.

Definition set_lk_up (c : cfg) (v : bool) : cfg :=
  {| ae_ti := ae_ti c; de_ti := de_ti c; ae_ni := ae_ni c; de_ni := de_ni c; ae_sb := ae_sb c; de_sb := de_sb c;
     ae_tb := ae_tb c; de_tb := de_tb c; ae_ns := ae_ns c; lk_up := v; lk_us := lk_us c |}.
Definition set_lk_us (c : cfg) (v : bool) : cfg :=
  {| ae_ti := ae_ti c; de_ti := de_ti c; ae_ni := ae_ni c; de_ni := de_ni c; ae_sb := ae_sb c; de_sb := de_sb c;
     ae_tb := ae_tb c; de_tb := de_tb c; ae_ns := ae_ns c; lk_up := lk_up c; lk_us := v |}.

Definition cfg_docs_escaped (c : cfg) : bool := de_ti c && de_ni c && de_sb c && de_tb c.

(* `{{ x }}` *)
Definition tx (b : bool) (x : str) : str := if b then markupsafe_escape x else x.

(* ---------------------------------------------------------------------------------------- *)
(* 2. scanner, balance, entity decoding                                                      *)
(* ---------------------------------------------------------------------------------------- *)
Inductive token :=
| Chr (c : chr)          (* one character of character data *)
| TagT (body : str)      (* <body> : start tag, end tag, comment, declaration ... anything that is markup *)
| Bad (body : str).      (* unterminated markup at end of input *)

Definition is_alpha (c : chr) : bool := ((65 <=? c) && (c <=? 90)) || ((97 <=? c) && (c <=? 122)).
Definition is_digit (c : chr) : bool := (48 <=? c) && (c <=? 57).
(* what may follow '<' for it to open markup (HTML5 tag-open state: letter, '/', '!', '?'); anything else: '<' is text *)
Definition tag_start (c : chr) : bool := is_alpha c || (c =? 47) || (c =? 33) || (c =? 63).
Definition next_is_tag_start (r : str) : bool := match r with d :: _ => tag_start d | [] => false end.

(* acc = None: in character data; Some a: inside markup, a = reversed body so far.  Markup ends at the first '>'. *)
Fixpoint scan (acc : option str) (s : str) : list token :=
  match s with
  | [] => match acc with None => [] | Some a => [Bad (rev a)] end
  | c :: r =>
      match acc with
      | None => if (c =? 60) && next_is_tag_start r then scan (Some []) r else Chr c :: scan None r
      | Some a => if c =? 62 then TagT (rev a) :: scan None r else scan (Some (c :: a)) r
      end
  end.

Definition is_markup (t : token) : bool := match t with Chr _ => false | _ => true end.
Definition chars_of (ts : list token) : str := flat_map (fun t => match t with Chr c => [c] | _ => [] end) ts.


Definition name_chr (c : chr) : bool := is_alpha c || is_digit c || (c =? 45) || (c =? 95).

Inductive tkind := KOpen (n : str) | KClose (n : str) | KVoid | KOther.

Definition void_elements : list str := Eval vm_compute in
  map lit ["hr"; "input"; "br"; "meta"; "link"; "img"; "area"; "base"; "col"; "embed"; "source"; "track"; "wbr"]%string.

Definition classify (body : str) : tkind :=
  match body with
  | [] => KOther
  | c :: r =>
      if c =? 47 then KClose (py_lower_ascii (take_while name_chr r))
      else if is_alpha c then
        let n := py_lower_ascii (take_while name_chr body) in
        if str_in n void_elements then KVoid else KOpen n
      else KOther
  end.

(* stack discipline: Some stk' = still consistent, None = a close tag that does not match the innermost open element *)
Fixpoint bal (stk : list str) (ts : list token) : option (list str) :=
  match ts with
  | [] => Some stk
  | Chr _ :: r => bal stk r
  | Bad _ :: _ => None
  | TagT b :: r =>
      match classify b with
      | KOpen n => bal (n :: stk) r
      | KClose n => match stk with
                    | m :: stk' => if str_eqb n m then bal stk' r else None
                    | [] => None
                    end
      | KVoid | KOther => bal stk r
      end
  end.

Definition wf_tokens (ts : list token) : bool :=
  match bal [] ts with Some [] => true | _ => false end.

(* decoding of the character references the two escape functions in use produce
   (html.escape: &amp; &lt; &gt; &quot; &#x27;   markupsafe: &amp; &lt; &gt; &#34; &#39;) *)
Definition e_amp : str := Eval vm_compute in lit "amp;".
Definition e_lt : str := Eval vm_compute in lit "lt;".
Definition e_gt : str := Eval vm_compute in lit "gt;".
Definition e_quot : str := Eval vm_compute in lit "quot;".
Definition e_x27 : str := Eval vm_compute in lit "#x27;".
Definition e_34 : str := Eval vm_compute in lit "#34;".
Definition e_39 : str := Eval vm_compute in lit "#39;".

Definition entities : list (str * chr) :=
  [(e_amp, 38); (e_lt, 60); (e_gt, 62); (e_quot, 34); (e_x27, 39); (e_34, 34); (e_39, 39)].

Fixpoint match_entity (es : list (str * chr)) (r : str) : option (chr * nat) :=
  match es with
  | [] => None
  | (e, c) :: es' => if starts_with e r then Some (c, length e) else match_entity es' r
  end.

Fixpoint unescape_f (fuel : nat) (s : str) : str :=
  match fuel with
  | O => s
  | S f =>
      match s with
      | [] => []
      | c :: r =>
          if c =? 38 then
            match match_entity entities r with
            | Some (d, k) => d :: unescape_f f (skipn k r)
            | None => c :: unescape_f f r
            end
          else c :: unescape_f f r
      end
  end.
Definition unescape (s : str) : str := unescape_f (length s) s.

(* the five characters with a meaning in HTML *)
Definition special (c : chr) : bool := (c =? 38) || (c =? 60) || (c =? 62) || (c =? 34) || (c =? 39).
Definition no_special (s : str) : bool := forallb (fun c => negb (special c)) s.

(* `&` starts one of the references above *)
Fixpoint amps_ok (s : str) : bool :=
  match s with
  | [] => true
  | c :: r => (if c =? 38 then match match_entity entities r with Some _ => true | None => false end else true) && amps_ok r
  end.
(* result of escaping: no `<`, `>`, quotes; every `&` starts a reference *)
Definition no_markup (s : str) : bool :=
  forallb (fun c => negb ((c =? 60) || (c =? 62) || (c =? 34) || (c =? 39))) s && amps_ok s.

(* ---------------------------------------------------------------------------------------- *)
(* 3. pieces                                                                                  *)
(* ---------------------------------------------------------------------------------------- *)
Inductive piece :=
| POpen (name : str) (attrs : list (str * str))
| PClose (name : str)
| PText (s : str).         (* raw characters in a character-data position *)

Definition render_attr (a : str * str) : str := 32 :: fst a ++ [61; 34] ++ snd a ++ [34].
Definition render_piece (p : piece) : str :=
  match p with
  | POpen n attrs => 60 :: n ++ concat (map render_attr attrs) ++ [62]
  | PClose n => 60 :: 47 :: n ++ [62]
  | PText s => s
  end.
Definition render (ps : list piece) : str := flat_map render_piece ps.

(* the same stack discipline on pieces *)
Fixpoint bal_p (stk : list str) (ps : list piece) : option (list str) :=
  match ps with
  | [] => Some stk
  | PText _ :: r => bal_p stk r
  | POpen n _ :: r => if str_in n void_elements then bal_p stk r else bal_p (n :: stk) r
  | PClose n :: r => match stk with
                     | m :: stk' => if str_eqb n m then bal_p stk' r else None
                     | [] => None
                     end
  end.

(* sufficient conditions under which rendering a piece and scanning it gives back the piece *)
Definition lower_alpha (c : chr) : bool := (97 <=? c) && (c <=? 122).
Definition tag_name_ok (n : str) : bool :=
  match n with [] => false | c :: r => lower_alpha c && forallb (fun d => lower_alpha d || is_digit d) r end.
Definition no_gt (s : str) : bool := forallb (fun c => negb (c =? 62)) s.
Definition attr_ok (a : str * str) : bool :=
  no_gt (fst a) && no_gt (snd a) && forallb (fun c => negb (c =? 34)) (snd a).
(* character data that cannot open markup: no '<' followed by a tag-start character, and not ending in '<'
   (a trailing '<' could combine with the next piece) *)
Fixpoint text_ok (s : str) : bool :=
  match s with
  | [] => true
  | c :: r => (if c =? 60 then match r with d :: _ => negb (tag_start d) | [] => false end else true) && text_ok r
  end.
Definition piece_ok (p : piece) : bool :=
  match p with
  | POpen n attrs => tag_name_ok n && forallb attr_ok attrs
  | PClose n => tag_name_ok n
  | PText s => text_ok s
  end.
Definition pieces_ok (ps : list piece) : bool := forallb piece_ok ps.

(* attribute values *)
Fixpoint attr_vals (k : str) (attrs : list (str * str)) : list str :=
  match attrs with
  | [] => []
  | (k', v) :: r => if str_eqb k k' then v :: attr_vals k r else attr_vals k r
  end.
Definition vals_of (k : str) (ps : list piece) : list str :=
  flat_map (fun p => match p with POpen _ attrs => attr_vals k attrs | _ => [] end) ps.

(* ---------------------------------------------------------------------------------------- *)
(* 4. DSDL side                                                                               *)
(* ---------------------------------------------------------------------------------------- *)
Record cinfo := {
  ci_t : tinfo;               (* full_name, version, root_namespace *)
  ci_deprecated : bool;
  ci_port : option Z;         (* fixed_port_id when has_fixed_port_id *)
  ci_union : bool;            (* t is UnionType *)
  ci_service : bool;          (* t is ServiceType *)
  ci_svc_request : bool;      (* t is service_request *)
  ci_doc : str
}.

(* what filter_display_type distinguishes *)
Inductive dtype :=
| DPrim (saturated : bool) (s : str)       (* PrimitiveType; s = str(instance) *)
| DFix (e : dtype) (cap : Z)
| DVar (e : dtype) (cap : Z)
| DOther (s : str).                        (* str(instance) *)
Inductive dinst :=
| DPad (s : str)                           (* PaddingField; s = str(instance) *)
| DField (d : dtype) (nm : str)
| DConst (d : dtype) (nm val : str).       (* val = str(instance.value) *)

Inductive ty :=
| Comp (c : cinfo) (a : attrs)
| Arr (elem_str : str) (deprecated : bool) (d : dtype) (elem : ty)   (* elem_str = str(element_type) *)
| Prim (s : str)                                                      (* non-composite array element, s = str(element_type) *)
with attrs :=
| ANil
| ANested (nm doc : str) (t : ty) (rest : attrs)                      (* attr.data_type is ArrayType or CompositeType *)
| APlain (di : dinst) (is_field len_bytes : bool) (doc : str) (rest : attrs).

Scheme ty_mut := Induction for ty Sort Prop
  with attrs_mut := Induction for attrs Sort Prop.
Combined Scheme ty_attrs_ind from ty_mut, attrs_mut.

(* a namespace: full name, (short_name, doc) of its types in get_nested_types order (input of filter_namespace_doc),
   (short_name, type) in natural_sort_type order, nested namespaces in natural_sort_namespace order *)
Inductive nst :=
| NS (name : str) (docs : list (str * str)) (types : list (str * ty)) (subs : nsl)
with nsl :=
| NNil
| NCons (n : nst) (r : nsl).

Scheme nst_mut := Induction for nst Sort Prop
  with nsl_mut := Induction for nsl Sort Prop.
Combined Scheme nst_nsl_ind from nst_mut, nsl_mut.

Definition ns_name (n : nst) : str := match n with NS nm _ _ _ => nm end.

(* ---------------------------------------------------------------------------------------- *)
(* 5. emitter                                                                                 *)
(* ---------------------------------------------------------------------------------------- *)
Definition k_id : str := Eval vm_compute in lit "id".
Definition k_href : str := Eval vm_compute in lit "href".
Definition k_class : str := Eval vm_compute in lit "class".
Definition k_style : str := Eval vm_compute in lit "style".
Definition k_target : str := Eval vm_compute in lit "data-target".
Definition k_onclick : str := Eval vm_compute in lit "onclick".
Definition k_controls : str := Eval vm_compute in lit "aria-controls".
Definition t_p : str := Eval vm_compute in lit "p".
Definition t_a : str := Eval vm_compute in lit "a".
Definition t_div : str := Eval vm_compute in lit "div".
Definition t_span : str := Eval vm_compute in lit "span".
Definition t_pre : str := Eval vm_compute in lit "pre".
Definition t_hr : str := Eval vm_compute in lit "hr".
Definition t_h2 : str := Eval vm_compute in lit "h2".
Definition t_body : str := Eval vm_compute in lit "body".

Definition s_plus : str := Eval vm_compute in lit "+".
Definition s_jsvoid : str := Eval vm_compute in lit "javascript:void".
Definition s_jsvoid2 : str := Eval vm_compute in lit "javascript:void;".
Definition s_toggle1 : str := Eval vm_compute in lit "toggleCollapse(event, '".
Definition s_toggle2 : str := Eval vm_compute in lit "')".
Definition s_toggle2_sidebar : str := Eval vm_compute in lit "', 'sidebar')".
Definition s_fwbold : str := Eval vm_compute in lit "fw-bold ".
Definition s_fwbold_mb0 : str := Eval vm_compute in lit "fw-bold mb-0".
Definition s_depr_cls : str := Eval vm_compute in lit "deprecated d-none".
Definition s_docs : str := Eval vm_compute in lit "docs".
Definition s_collapse_type : str := Eval vm_compute in lit "collapse type ".
Definition s_nested : str := Eval vm_compute in lit "nested".
Definition s_collapse_ns : str := Eval vm_compute in lit "collapse namespace".
Definition s_collapse : str := Eval vm_compute in lit "collapse".
Definition s_fstitalic : str := Eval vm_compute in lit "fst-italic".
Definition s_textnowrap : str := Eval vm_compute in lit "text-nowrap".
Definition s_sidebar_a_cls : str := Eval vm_compute in lit "text-decoration-none fst-italic".
Definition s_sidebar_t_cls : str := Eval vm_compute in lit "text-decoration-none".
Definition s_sidebar_sfx : str := Eval vm_compute in lit "_sidebar".
Definition s_portid_cls : str := Eval vm_compute in lit "portID".
Definition s_extent_cls : str := Eval vm_compute in lit "extent".
Definition s_bitlength_cls : str := Eval vm_compute in lit "bitlength".
Definition s_service_cls : str := Eval vm_compute in lit "service".
Definition s_port1 : str := Eval vm_compute in lit "[fixed port-ID ".
Definition s_rbr : str := Eval vm_compute in lit "]".
Definition s_deprecated : str := Eval vm_compute in lit "[deprecated]".
Definition s_union : str := Eval vm_compute in lit "[union]".
Definition s_service : str := Eval vm_compute in lit "[service]".
Definition s_extent : str := Eval vm_compute in lit "[extent # bytes]".
Definition s_maxlen_bytes : str := Eval vm_compute in lit "[max length # bytes]".
Definition s_maxlen_bits : str := Eval vm_compute in lit "[max length # bits]".
Definition s_empty : str := Eval vm_compute in lit "(data type is empty)".
Definition s_v1 : str := Eval vm_compute in lit " (v".
Definition s_dot : str := Eval vm_compute in lit ".".
Definition s_rpar : str := Eval vm_compute in lit ")".
Definition s_sp : str := Eval vm_compute in lit " ".
Definition s_gray : str := Eval vm_compute in lit "color: gray".
Definition s_orange : str := Eval vm_compute in lit "color: orange".
Definition s_green : str := Eval vm_compute in lit "color: green".
Definition s_magenta : str := Eval vm_compute in lit "color: darkmagenta".
Definition s_cyan : str := Eval vm_compute in lit "color: darkcyan".
Definition s_saturated : str := Eval vm_compute in lit "saturated".
Definition s_truncated : str := Eval vm_compute in lit "truncated".
Definition s_lbr : str := Eval vm_compute in lit "[".
Definition s_lble : str := Eval vm_compute in lit "[<=".
Definition s_eq : str := Eval vm_compute in lit " = ".
Definition s_hash : str := Eval vm_compute in lit "#".
Definition s_docfor : str := Eval vm_compute in lit "Documentation for namespace ".
Definition s_nsinfo : str := Eval vm_compute in lit "namespaceinfo".
Definition s_sidebar : str := Eval vm_compute in lit "sidebar".
Definition s_reg_ns : str := Eval vm_compute in lit "/reg/Namespace.html".
Definition s_larr : str := Eval vm_compute in lit "&larr; ".
Definition s_tb_extent : str := Eval vm_compute in lit "extent: 300 bytes".
Definition s_tb_port : str := Eval vm_compute in lit "fixed port-id: 417".
Definition s_tb_bodycls : str := Eval vm_compute in lit "font-monospace p-5".
Definition s_tb_h2cls : str := Eval vm_compute in lit "mt-2 mb-4".
Definition s_tb_mb0 : str := Eval vm_compute in lit "mb-0".
Definition s_index_html : str := Eval vm_compute in lit "index.html".
Definition s_dot_html : str := Eval vm_compute in lit ".html".
Definition s_us : str := Eval vm_compute in lit "_".
Definition s_dotdot : str := Eval vm_compute in lit "..".

Definition elem (n : str) (attrs : list (str * str)) (body : list piece) : list piece :=
  POpen n attrs :: body ++ [PClose n].


(* filter_display_type: Python code that builds a str with markup; here as pieces, the str is `render` of them *)
Fixpoint disp_type (d : dtype) : list piece :=
  match d with
  | DPrim sat s =>
      elem t_span [(k_style, if sat then s_gray else s_orange)] [PText (if sat then s_saturated else s_truncated)]
      ++ [PText s_sp] ++ elem t_span [(k_style, s_green)] [PText (last_word s)]
  | DFix e cap => disp_type e ++ elem t_span [(k_style, s_green)] [PText (s_lbr ++ dec_of_Z cap ++ s_rbr)]
  | DVar e cap => disp_type e ++ elem t_span [(k_style, s_green)] [PText (s_lble ++ dec_of_Z cap ++ s_rbr)]
  | DOther s => [PText s]
  end.
Definition disp_inst (di : dinst) : list piece :=
  match di with
  | DPad s => elem t_span [(k_style, s_gray)] [PText s]
  | DField d nm => disp_type d ++ [PText (s_sp ++ nm)]
  | DConst d nm val =>
      disp_type d ++ [PText s_sp] ++ elem t_span [(k_style, s_magenta)] [PText nm] ++ [PText s_eq]
      ++ elem t_span [(k_style, s_cyan)] [PText val]
  end.

(* `{{ markup-producing filter }}`: escaped as a whole when autoescape is selected (the filters return plain str) *)
Definition tx_markup (b : bool) (ps : list piece) : list piece :=
  if b then [PText (markupsafe_escape (render ps))] else ps.

(* the name whose last component type_info.j2 inspects before writing a link: the type, or the service for its halves *)
Definition link_name (t : tinfo) : str := if ti_has_parent t then ti_full_namespace t else ti_full_name t.
Definition last_component (s : str) : str := rev (take_while (fun c => negb (c =? 46)) (rev s)).
Definition linked (us : bool) (c : cinfo) : bool := negb (us && str_eqb (last_component (link_name (ci_t c))) s_us).

Section Emit.
Variable cf : cfg.

Definition toggle_anchor (b : bool) (href id onclick_tail : str) : list piece :=
  elem t_a [(k_href, href); (k_target, s_hash ++ tx b id); (k_onclick, s_toggle1 ++ tx b id ++ onclick_tail);
            (k_controls, tx b id)] [PText s_plus].

Definition doc_pre (b : bool) (cls : list (str * str)) (doc : str) : list piece :=
  elem t_pre cls [PText (tx b doc)].

Definition version_text (b : bool) (t : tinfo) : str :=
  tx b (ti_full_name t) ++ s_v1 ++ tx b (dec_of_Z (ti_major t)) ++ s_dot ++ tx b (dec_of_Z (ti_minor t)) ++ s_rpar.

Definition arr_tinfo (elem_str : str) : tinfo :=
  {| ti_is_array := true; ti_elem_str := elem_str; ti_full_name := []; ti_major := 0%Z; ti_minor := 0%Z; ti_root_ns := [];
     ti_full_namespace := []; ti_has_parent := false |}.

Definition dep_class (b dep : bool) : str := s_fwbold ++ tx b (if dep then s_depr_cls else []).
Definition div_class (b nested : bool) : str := s_collapse_type ++ tx b (if nested then s_nested else []).

Definition span_cls (cls txt : str) : list piece := elem t_span [(k_class, cls)] [PText txt].

(* generate_type_info(t, attr_name, nested) of type_info.j2; the UniqueNameGenerator state is threaded in call order *)
Fixpoint emit_ty (up : str) (st : ung) (t : ty) (attr_name : str) (nested : bool) {struct t} : ung * list piece :=
  let b := ae_ti cf in
  match t with
  | Prim s => (st, elem t_p [(k_class, s_fwbold_mb0)] [PText (tx b s)])
  | Comp c a =>
      let id0 := filter_tag_id (ci_t c) in
      let sid := if nested then filter_make_unique st (id0 ++ nested_id_sep) else (st, id0) in
      let id := snd sid in
      let head :=
        toggle_anchor b s_jsvoid id s_toggle2
        ++ (if nested
            then (if linked (lk_us cf) c
                  then elem t_a [(k_href, (if lk_up cf then tx b up else []) ++ tx b (filter_url_from_type (ci_t c)))]
                            [PText (version_text b (ci_t c))]
                  else [PText (version_text b (ci_t c))])
                 ++ [PText (s_sp ++ tx b attr_name)]
            else [PText (version_text b (ci_t c) ++ s_sp ++ tx b attr_name)])
        ++ match ci_port c with
           | Some p => span_cls s_portid_cls (s_port1 ++ tx b (dec_of_Z p) ++ s_rbr)
           | None => []
           end
        ++ (if ci_deprecated c then elem t_span [] [PText s_deprecated] else [])
        ++ (if ci_union c then elem t_span [] [PText s_union] else [])
        ++ (if ci_service c then span_cls s_service_cls s_service
            else span_cls s_extent_cls s_extent ++ span_cls s_bitlength_cls s_maxlen_bytes) in
      let docp := match ci_doc c with
                  | [] => []
                  | _ => if ci_svc_request c then [] else doc_pre (de_ti cf) [(k_class, s_docs)] (ci_doc c)
                  end in
      let sb := match a with
                | ANil => (fst sid, elem t_p [] [PText s_empty])
                | _ => emit_attrs up (fst sid) a
                end in
      (fst sb,
       elem t_p [(k_class, dep_class b (ci_deprecated c))] head
       ++ elem t_div [(k_class, div_class b nested); (k_id, tx b id)] (docp ++ snd sb ++ [POpen t_hr []]))
  | Arr es dep d e =>
      let id0 := filter_tag_id (arr_tinfo es) in
      let sid := if nested then filter_make_unique st (id0 ++ nested_id_sep) else (st, id0) in
      let id := snd sid in
      let head :=
        toggle_anchor b s_jsvoid id s_toggle2
        ++ tx_markup b (disp_type d) ++ [PText (s_sp ++ tx b attr_name)]
        ++ span_cls s_bitlength_cls s_maxlen_bytes in
      let sb := emit_ty up (fst sid) e [] true in
      (fst sb,
       elem t_p [(k_class, dep_class b dep)] head
       ++ elem t_div [(k_class, div_class b nested); (k_id, tx b id)] (snd sb ++ [POpen t_hr []]))
  end
with emit_attrs (up : str) (st : ung) (a : attrs) {struct a} : ung * list piece :=
  let b := ae_ti cf in
  match a with
  | ANil => (st, [])
  | ANested nm doc t rest =>
      let r1 := emit_ty up st t nm true in
      let r2 := emit_attrs up (fst r1) rest in
      (fst r2, snd r1 ++ doc_pre (de_ti cf) [(k_class, s_docs)] doc ++ snd r2)
  | APlain di is_field len_bytes doc rest =>
      let r2 := emit_attrs up st rest in
      (fst r2,
       elem t_p [(k_class, s_fwbold_mb0)]
            (tx_markup b (disp_inst di)
             ++ (if is_field then span_cls s_bitlength_cls (if len_bytes then s_maxlen_bytes else s_maxlen_bits) else []))
       ++ doc_pre (de_ti cf) [(k_class, s_docs)] doc ++ snd r2)
  end.

Definition s_ddns : str := Eval vm_compute in lit "--ns".
Definition ns_id (name : str) : str :=
  if ns_ids_dashed then str_replace1 46 [45] name ++ s_ddns else str_replace1 46 s_us name.

Fixpoint emit_types (up : str) (st : ung) (ts : list (str * ty)) : ung * list piece :=
  match ts with
  | [] => (st, [])
  | (sn, t) :: r =>
      if str_eqb sn namespace_doc_key then emit_types up st r
      else let r1 := emit_ty up st t [] false in
           let r2 := emit_types up (fst r1) r in
           (fst r2, snd r1 ++ snd r2)
  end.

(* generate_namespace_info(t) of namespace_info.j2 *)
Fixpoint emit_ns (up : str) (st : ung) (n : nst) {struct n} : ung * list piece :=
  let b := ae_ni cf in
  match n with
  | NS name docs types subs =>
      let id := ns_id name in
      let nd := filter_namespace_doc docs in
      let r1 := emit_types up st types in
      let r2 := emit_nsl up (fst r1) subs in
      (fst r2,
       elem t_p [(k_class, s_fstitalic)] (toggle_anchor b s_jsvoid2 id s_toggle2 ++ [PText (tx b name)])
       ++ elem t_div [(k_class, s_collapse_ns); (k_id, tx b id)]
            (match nd with [] => [] | _ => doc_pre (de_ni cf) [] nd end ++ snd r1 ++ snd r2))
  end
with emit_nsl (up : str) (st : ung) (l : nsl) {struct l} : ung * list piece :=
  match l with
  | NNil => (st, [])
  | NCons n r =>
      let r1 := emit_ns up st n in
      let r2 := emit_nsl up (fst r1) r in
      (fst r2, snd r1 ++ snd r2)
  end.

Definition comp_info (t : ty) : option cinfo := match t with Comp c _ => Some c | _ => None end.

Fixpoint sidebar_types (ts : list (str * ty)) : list piece :=
  let b := ae_sb cf in
  match ts with
  | [] => []
  | (sn, t) :: r =>
      (if str_eqb sn namespace_doc_key then []
       else match comp_info t with
            | Some c =>
                let id := filter_tag_id (ci_t c) in
                elem t_p [(k_class, tx b (if ci_deprecated c then s_depr_cls else []))]
                  (elem t_a [(k_id, tx b id ++ s_sidebar_sfx); (k_href, s_hash ++ tx b id); (k_class, s_sidebar_t_cls)]
                     [PText (version_text b (ci_t c))])
            | None => []
            end) ++ sidebar_types r
  end.

(* generate_sidebar_view(t) of sidebar.j2 *)
Fixpoint emit_sidebar (n : nst) {struct n} : list piece :=
  let b := ae_sb cf in
  match n with
  | NS name docs types subs =>
      let id := ns_id name in
      let nd := filter_namespace_doc docs in
      elem t_p [(k_class, s_textnowrap)]
        (elem t_a [(k_target, s_hash ++ tx b id ++ s_sidebar_sfx);
                   (k_onclick, s_toggle1 ++ tx b id ++ s_sidebar_sfx ++ s_toggle2_sidebar);
                   (k_controls, tx b id ++ s_sidebar_sfx)] [PText s_plus]
         ++ elem t_a [(k_href, s_hash ++ tx b id); (k_class, s_sidebar_a_cls)] [PText (tx b name)])
      ++ elem t_div [(k_class, s_collapse); (k_id, tx b id ++ s_sidebar_sfx)]
           (match nd with [] => [] | _ => doc_pre (de_sb cf) [] nd end ++ sidebar_types types ++ emit_sidebar_l subs)
  end
with emit_sidebar_l (l : nsl) {struct l} : list piece :=
  match l with
  | NNil => []
  | NCons n r => emit_sidebar n ++ emit_sidebar_l r
  end.

(* the two data-dependent regions of a page rendered from Namespace.j2 *)
Definition ns_page_sidebar (n : nst) : list piece :=
  elem t_div [(k_id, s_sidebar)] (emit_sidebar n).
(* '../' * T.full_name.count('.') of Namespace.j2 (the value is passed whether or not type_info.j2 uses it) *)
Definition up_of (name : str) : str :=
  flat_map (fun c => if c =? 46 then [46; 46; 47] else []) name.
Definition ns_page_main (n : nst) : list piece :=
  elem t_h2 [] [PText (s_docfor ++ tx (ae_ns cf) (ns_name n))]
  ++ elem t_div [(k_id, s_nsinfo)] (snd (emit_ns (up_of (ns_name n)) ung_reset n)).
Definition ns_page (n : nst) : list piece := ns_page_sidebar n ++ ns_page_main n.

(* <body> of a page rendered from type_base.j2 (Structure/Union/DelimitedType.j2); ServiceType.j2 is empty *)
Definition full_namespace_of (full_name : str) : str :=
  rev (match drop_while (fun c => negb (c =? 46)) (rev full_name) with _ :: r => r | [] => [] end).
Definition type_page (c : cinfo) : list piece :=
  let b := ae_tb cf in
  if ci_service c then []
  else elem t_body [(k_class, s_tb_bodycls)]
         (elem t_a [(k_href, s_reg_ns)] [PText (s_larr ++ tx b (full_namespace_of (ti_full_name (ci_t c))))]
          ++ elem t_h2 [(k_class, s_tb_h2cls)] [PText (version_text b (ci_t c))]
          ++ elem t_p [(k_class, s_tb_mb0)] [PText s_tb_extent]
          ++ elem t_p [] [PText s_tb_port]
          ++ doc_pre (de_tb cf) [] (ci_doc c)
          ++ elem t_div [] []).

End Emit.

(* ---------------------------------------------------------------------------------------- *)
(* 6. site: pages, ids, hrefs, resolution                                                    *)
(* ---------------------------------------------------------------------------------------- *)
Fixpoint split_on (c : chr) (cur : str) (s : str) : list str :=
  match s with
  | [] => [rev cur]
  | x :: r => if x =? c then rev cur :: split_on c [] r else split_on c (x :: cur) r
  end.
Definition split_dots (s : str) : list str := split_on 46 [] s.
Definition split_slash (s : str) : list str := split_on 47 [] s.

(* directory of the page generated for a namespace: one path component per name component *)
Definition ns_dir (n : nst) : list str := split_dots (ns_name n).

(* all namespaces of a tree (each gets its own index.html, rendered with T = that namespace) *)
Fixpoint all_ns (n : nst) : list nst :=
  match n with NS _ _ _ subs => n :: all_nsl subs end
with all_nsl (l : nsl) : list nst :=
  match l with NNil => [] | NCons n r => all_ns n ++ all_nsl r end.

(* composite types listed at or below a namespace (what one page shows at top level) *)
Definition listed (ts : list (str * ty)) : list cinfo :=
  flat_map (fun e => if str_eqb (fst e) namespace_doc_key then []
                     else match comp_info (snd e) with Some c => [c] | None => [] end) ts.
Fixpoint all_listed (n : nst) : list cinfo :=
  match n with NS _ _ types subs => listed types ++ all_listed_l subs end
with all_listed_l (l : nsl) : list cinfo :=
  match l with NNil => [] | NCons n r => all_listed n ++ all_listed_l r end.

(* a relative URL "path#fragment": directory part and fragment (no scheme, no query in what the generator emits) *)
Definition split_frag (s : str) : str * str :=
  let p := take_while (fun c => negb (c =? 35)) s in
  (p, match drop_while (fun c => negb (c =? 35)) s with _ :: f => f | [] => [] end).

(* RFC 3986 5.2 for relative references made of `..`, names and a trailing `/`, against the directory of the page *)
Fixpoint apply_segments (dir_rev : list str) (segs : list str) : option (list str) :=
  match segs with
  | [] => Some (rev dir_rev)
  | sg :: r =>
      if str_eqb sg s_dotdot then match dir_rev with _ :: d' => apply_segments d' r | [] => None end
      else if str_eqb sg [] then apply_segments dir_rev r
      else if str_eqb sg s_dot then apply_segments dir_rev r
      else apply_segments (sg :: dir_rev) r
  end.

Inductive target :=
| TLocal (frag : str)                         (* "#x": same page *)
| TDir (dir : list str) (frag : str)          (* resolved directory (its index page) + fragment *)
| TOutside                                    (* escapes the output tree / absolute / script pseudo URL *)
| TIgnored.

Definition is_type_link (h : str) : bool :=
  negb (starts_with s_jsvoid h) && negb (str_eqb h s_reg_ns).

Definition resolve (page_dir : list str) (h : str) : target :=
  if negb (is_type_link h) then TIgnored
  else match h with
       | 35 :: f => TLocal f
       | 47 :: _ => TOutside
       | _ => let pf := split_frag h in
              match apply_segments (rev page_dir) (split_slash (fst pf)) with
              | Some d => TDir d (snd pf)
              | None => TOutside
              end
       end.

(* ids of the index page of namespace n under configuration cf *)
Definition page_ids (cf : cfg) (n : nst) : list str := vals_of k_id (ns_page cf n).
Definition page_hrefs (cf : cfg) (n : nst) : list str := vals_of k_href (ns_page cf n).

Fixpoint list_str_eqb (a b : list str) : bool :=
  match a, b with
  | [], [] => true
  | x :: a', y :: b' => str_eqb x y && list_str_eqb a' b'
  | _, _ => false
  end.

(* the site: the root namespaces that are generated *)
Definition site_pages (roots : list nst) : list nst := flat_map all_ns roots.

Definition target_ok (cf : cfg) (roots : list nst) (self : nst) (t : target) : bool :=
  match t with
  | TIgnored => true
  | TOutside => false
  | TLocal f => str_in f (page_ids cf self)
  | TDir d f => existsb (fun n => list_str_eqb (ns_dir n) d && str_in f (page_ids cf n)) (site_pages roots)
  end.

Definition link_ok (cf : cfg) (roots : list nst) (self : nst) (h : str) : bool :=
  target_ok cf roots self (resolve (ns_dir self) h).

Definition page_links_ok (cf : cfg) (roots : list nst) (self : nst) : bool :=
  forallb (link_ok cf roots self) (page_hrefs cf self).

(* ---- what the driver prints per page ---- *)
Record page_out := {
  po_dir : list str;
  po_file : str;
  po_regions : list str;        (* rendered regions *)
  po_ids : list str;
  po_hrefs : list (str * bool); (* href, resolves within the site *)
  po_pieces_ok : bool;          (* hypothesis of scan_render holds on this page *)
  po_scan_wf : bool             (* wf_tokens (scan (render page)) *)
}.

Definition short_name_of (full_name : str) : str := last (split_dots full_name) [].

Definition ns_page_out (cf : cfg) (roots : list nst) (n : nst) : page_out :=
  let ps := ns_page cf n in
  {| po_dir := ns_dir n; po_file := s_index_html;
     po_regions := [render (ns_page_sidebar cf n); render (ns_page_main cf n)];
     po_ids := vals_of k_id ps;
     po_hrefs := map (fun h => (h, link_ok cf roots n h)) (vals_of k_href ps);
     po_pieces_ok := pieces_ok ps;
     po_scan_wf := wf_tokens (scan None (render ps)) |}.

Definition type_page_out (cf : cfg) (dir : list str) (c : cinfo) : page_out :=
  let ps := type_page cf c in
  {| po_dir := dir;
     po_file := short_name_of (ti_full_name (ci_t c)) ++ s_us ++ dec_of_Z (ti_major (ci_t c)) ++ s_us
                ++ dec_of_Z (ti_minor (ci_t c)) ++ s_dot_html;
     po_regions := [render ps];
     po_ids := vals_of k_id ps;
     po_hrefs := map (fun h => (h, true)) (vals_of k_href ps);
     po_pieces_ok := pieces_ok ps;
     po_scan_wf := wf_tokens (scan None (render ps)) |}.

Definition types_of (n : nst) : list (str * ty) := match n with NS _ _ ts _ => ts end.

Definition site_out (cf : cfg) (roots : list nst) : list page_out :=
  flat_map (fun n =>
              ns_page_out cf roots n
              :: flat_map (fun e => match comp_info (snd e) with
                                    | Some c => [type_page_out cf (ns_dir n) c]
                                    | None => []
                                    end) (types_of n))
           (site_pages roots).

(* scanner verdict on a single sink, used by cases.v and the driver *)
Definition sink_is_text (b : bool) (d : str) : bool :=
  forallb (fun t => negb (is_markup t)) (scan None (tx b d)).

(* ---------------------------------------------------------------------------------------- *)
(* 7. specification-side definitions used by the theorems                                    *)
(* ---------------------------------------------------------------------------------------- *)
(* <pre class="docs">{{ doc }}</pre> of type_info.j2 *)
Definition doc_sink (b : bool) (d : str) : list piece := doc_pre b [(k_class, s_docs)] d.
Definition pre_open_body : str := Eval vm_compute in lit "pre class=""docs""".
Definition pre_close_body : str := Eval vm_compute in lit "/pre".

(* "text taken from DSDL appears as text": whatever the documentation text d and whatever follows, scanning the rendered
   sink yields the opening tag, then ONLY character tokens, which decode to d, then the closing tag *)
Definition doc_text_is_text (b : bool) : Prop :=
  forall d rest, exists cs,
    scan None (render (doc_sink b d) ++ rest) = TagT pre_open_body :: map Chr cs ++ TagT pre_close_body :: scan None rest
    /\ unescape cs = d.
Definition doc_text_is_text_for (b : bool) (d : str) : Prop :=
  forall rest, exists cs,
    scan None (render (doc_sink b d) ++ rest) = TagT pre_open_body :: map Chr cs ++ TagT pre_close_body :: scan None rest
    /\ unescape cs = d.

(* balanced fragments: leave every stack as they found it *)
Definition balanced_frag (ps : list piece) : Prop := forall stk, bal_p stk ps = Some stk.
Definition wf_pieces (ps : list piece) : bool := match bal_p [] ps with Some [] => true | _ => false end.

(* witnesses *)
Definition xss_witness : str := Eval vm_compute in lit "<script>alert(1)</script>".

(* link theorems: vocabulary *)
Definition s_up : str := Eval vm_compute in lit "../".
Definition s_slash_hash : str := Eval vm_compute in lit "/#".
Definition ident_chr (c : chr) : bool := is_alpha c || is_digit c || (c =? 95).
(* a root namespace name: one DSDL identifier *)
Definition seg_ok (s : str) : bool := match s with [] => false | _ => forallb ident_chr s end.

(* concrete sites for the refutations *)
Definition mk_tinfo (full root : string) (major minor : Z) : tinfo :=
  {| ti_is_array := false; ti_elem_str := []; ti_full_name := lit full; ti_major := major; ti_minor := minor; ti_root_ns := lit root;
     ti_full_namespace := full_namespace_of (lit full); ti_has_parent := false |}.
Definition mk_cinfo (full root : string) (svc : bool) : cinfo :=
  {| ci_t := mk_tinfo full root 1 0; ci_deprecated := false; ci_port := None; ci_union := false; ci_service := svc;
     ci_svc_request := false; ci_doc := [] |}.
Definition plain_u8 : attrs := APlain (DField (DPrim true (lit "saturated uint8")) (lit "x")) false true [] ANil.
Definition w_inner : ty := Comp (mk_cinfo "rega.Inner" "rega" false) plain_u8.
Definition w_outer : ty := Comp (mk_cinfo "rega.sub.Outer" "rega" false) (ANested (lit "inner") [] w_inner ANil).
Definition w_sub : nst := NS (lit "rega.sub") [] [(lit "Outer", w_outer)] NNil.
(* rega/Inner.1.0, rega/sub/Outer.1.0 { rega.Inner.1.0 inner } *)
Definition w_site_subns : nst := NS (lit "rega") [] [(lit "Inner", w_inner)] (NCons w_sub NNil).
Definition mk_half (full : string) : cinfo :=
  {| ci_t := {| ti_is_array := false; ti_elem_str := []; ti_full_name := lit full; ti_major := 1; ti_minor := 0;
                ti_root_ns := lit "rega"; ti_full_namespace := lit "rega.Svc"; ti_has_parent := true |};
     ci_deprecated := false; ci_port := None; ci_union := false; ci_service := false; ci_svc_request := false; ci_doc := [] |}.
Definition w_req : ty := Comp (mk_half "rega.Svc.Request") plain_u8.
Definition w_resp : ty := Comp (mk_half "rega.Svc.Response") plain_u8.
(* does the translated filter send the halves of a service to the service's own anchor? *)
Definition url_links_service_def : bool :=
  str_eqb (filter_url_from_type (ci_t (mk_half "rega.Svc.Request"))) (lit "../rega/#" ++ filter_tag_id (mk_tinfo "rega.Svc" "rega" 1 0)).
Definition url_links_service : bool := Eval vm_compute in url_links_service_def.
Definition w_svc : ty := Comp (mk_cinfo "rega.Svc" "rega" true)
                              (ANested (lit "request") [] w_req (ANested (lit "response") [] w_resp ANil)).
(* rega/Svc.1.0 (a service) *)
Definition w_site_svc : nst := NS (lit "rega") [] [(lit "Svc", w_svc)] NNil.
(* rega/Inner.1.0, rega/User.1.0 { rega.Inner.1.0 inner; regb.Other.1.0 o }, regb/Other.1.0 : everything resolves *)
Definition w_other : ty := Comp (mk_cinfo "regb.Other" "regb" false) plain_u8.
Definition w_user : ty := Comp (mk_cinfo "rega.User" "rega" false)
                               (ANested (lit "inner") [] w_inner (ANested (lit "o") [] w_other ANil)).
Definition w_site_ok : list nst :=
  [NS (lit "rega") [] [(lit "Inner", w_inner); (lit "User", w_user)] NNil; NS (lit "regb") [] [(lit "Other", w_other)] NNil].

(* ---------------------------------------------------------------------------------------- *)
(* 8. universal link theorem: vocabulary                                                     *)
(* ---------------------------------------------------------------------------------------- *)
(* the composite types for which generate_type_info writes a type link while rendering t (the nested occurrences) *)
Section Refs.
Variable us : bool.   (* lk_us of the configuration *)
Fixpoint refs_ty (t : ty) (nested : bool) {struct t} : list cinfo :=
  match t with
  | Prim _ => []
  | Comp c a => (if nested && linked us c then [c] else []) ++ refs_attrs a
  | Arr _ _ _ e => refs_ty e true
  end
with refs_attrs (a : attrs) {struct a} : list cinfo :=
  match a with
  | ANil => []
  | ANested _ _ t r => refs_ty t true ++ refs_attrs r
  | APlain _ _ _ _ r => refs_attrs r
  end.
Definition refs_types (ts : list (str * ty)) : list cinfo :=
  flat_map (fun e => if str_eqb (fst e) namespace_doc_key then [] else refs_ty (snd e) false) ts.
Fixpoint refs_ns (n : nst) : list cinfo :=
  match n with NS _ _ ts subs => refs_types ts ++ refs_nsl subs end
with refs_nsl (l : nsl) : list cinfo :=
  match l with NNil => [] | NCons n r => refs_ns n ++ refs_nsl r end.
End Refs.

(* every composite a namespace tree DEFINES, with the short name it is filed under -- the `_` pseudo types included *)
Definition defined (ts : list (str * ty)) : list (str * cinfo) :=
  flat_map (fun e => match comp_info (snd e) with Some c => [(fst e, c)] | None => [] end) ts.
Fixpoint all_defined (n : nst) : list (str * cinfo) :=
  match n with NS _ _ types subs => defined types ++ all_defined_l subs end
with all_defined_l (l : nsl) : list (str * cinfo) :=
  match l with NNil => [] | NCons n r => all_defined n ++ all_defined_l r end.

(* what the FRONT END (pydsdl) and "generate every root that is referenced" guarantee about a referenced composite c: the type
   it names (for the halves of a service: the service) is defined in the tree of a generated root namespace, under its own
   short name, with that full name and version.  Whether the generator gives that definition an element is NOT part of it. *)
Definition type_defined (roots : list nst) (c : cinfo) : Prop :=
  exists r', In r' roots /\ ns_name r' = ti_root_ns (ci_t c) /\ seg_ok (ns_name r') = true
             /\ exists sn c', In (sn, c') (all_defined r') /\ sn = last_component (ti_full_name (ci_t c'))
                              /\ ti_is_array (ci_t c') = false /\ ti_full_name (ci_t c') = link_name (ci_t c)
                              /\ ti_major (ci_t c') = ti_major (ci_t c) /\ ti_minor (ci_t c') = ti_minor (ci_t c).

(* the anchor filter_url_from_type puts after '#': the tag id of the type, or of the SERVICE for its request/response halves *)
Definition anchor_tinfo (t : tinfo) : tinfo :=
  {| ti_is_array := false; ti_elem_str := []; ti_full_name := if ti_has_parent t then ti_full_namespace t else ti_full_name t;
     ti_major := ti_major t; ti_minor := ti_minor t; ti_root_ns := ti_root_ns t; ti_full_namespace := ti_full_namespace t;
     ti_has_parent := false |}.
Definition url_anchor (t : tinfo) : str := filter_tag_id (anchor_tinfo t).

(* what pydsdl + "generate every root namespace that is referenced" guarantee about a referenced composite: its root
   namespace is one of the generated roots (a single DSDL identifier) and that root's tree lists a type whose id is the anchor *)
Definition ref_resolves (roots : list nst) (c : cinfo) : Prop :=
  exists r', In r' roots /\ ns_name r' = ti_root_ns (ci_t c) /\ seg_ok (ns_name r') = true
             /\ exists c', In c' (all_listed r') /\ filter_tag_id (ci_t c') = url_anchor (ci_t c).

Definition ndots (s : str) : nat := length (filter (fun c => c =? 46) s).

(* ---------------------------------------------------------------------------------------- *)
(* 9. well-formedness without a per-page check: vocabulary                                   *)
(* ---------------------------------------------------------------------------------------- *)
(* free of < > and both quotes: what the DSDL grammar guarantees for names, type expressions and printed constant values,
   and what both escape functions guarantee for arbitrary text *)
Definition quote_free (s : str) : bool := forallb (fun c => negb ((c =? 60) || (c =? 62) || (c =? 34) || (c =? 39))) s.

(* filter_display_type reads a dnode; the emitter's dtype / dinst are its two sorts *)
Fixpoint node_of_dtype (d : dtype) : dnode :=
  match d with
  | DPrim sat s => NPrim sat s
  | DFix e cap => NFixed (node_of_dtype e) cap
  | DVar e cap => NVar (node_of_dtype e) cap
  | DOther s => NOther s
  end.
Definition node_of_dinst (di : dinst) : dnode :=
  match di with
  | DPad s => NPad s
  | DField d nm => NField (node_of_dtype d) nm
  | DConst d nm val => NConst (node_of_dtype d) nm val
  end.

Definition tinfo_ok (t : tinfo) : bool :=
  quote_free (ti_full_name t) && quote_free (ti_root_ns t) && quote_free (ti_full_namespace t) && quote_free (ti_elem_str t).
Fixpoint dtype_ok (d : dtype) : bool :=
  match d with DPrim _ s => quote_free s | DFix e _ => dtype_ok e | DVar e _ => dtype_ok e | DOther s => quote_free s end.
Definition dinst_ok (di : dinst) : bool :=
  match di with
  | DPad s => quote_free s
  | DField d nm => dtype_ok d && quote_free nm
  | DConst d nm val => dtype_ok d && quote_free nm && quote_free val
  end.
(* every DSDL-derived string OTHER THAN documentation is quote_free; documentation texts are arbitrary *)
Fixpoint ty_ok (t : ty) {struct t} : bool :=
  match t with
  | Comp c a => tinfo_ok (ci_t c) && attrs_ok a
  | Arr es _ d e => quote_free es && dtype_ok d && ty_ok e
  | Prim s => quote_free s
  end
with attrs_ok (a : attrs) {struct a} : bool :=
  match a with
  | ANil => true
  | ANested nm _ t r => quote_free nm && ty_ok t && attrs_ok r
  | APlain di _ _ _ r => dinst_ok di && attrs_ok r
  end.
Fixpoint nst_ok (n : nst) : bool :=
  match n with NS name _ ts subs => quote_free name && forallb (fun e => ty_ok (snd e)) ts && nsl_ok subs end
with nsl_ok (l : nsl) : bool :=
  match l with NNil => true | NCons n r => nst_ok n && nsl_ok r end.

(* ---------------------------------------------------------------------------------------- *)
(* 10. anchors identify types: vocabulary                                                    *)
(* ---------------------------------------------------------------------------------------- *)
Definition no_dash (s : str) : bool := forallb (fun c => negb (c =? 45)) s.
Definition s_dash_n : str := [45; 110].
(* X ++ "-n" ++ digits *)
Definition nested_shape (x : str) : bool :=
  match drop_while is_digit (rev x) with 110 :: 45 :: _ => true | _ => false end.
(* the kinds of ids a namespace page carries: L = tag ids of the types listed on the page, LN = ids of the namespaces at or
   below the page's namespace, ST = static ids of the template frame; plus X_sidebar and nesting occurrences X-n<k> *)
Definition id_class (L LN ST : list str) (x : str) : bool :=
  str_in x L || str_in x LN || str_in x ST || ends_with x s_sidebar_sfx || nested_shape x.
Definition is_comp (t : ty) : bool := match t with Comp _ _ => true | _ => false end.
Fixpoint tops_ok (n : nst) : bool :=
  match n with NS name _ ts subs => forallb (fun e => is_comp (snd e)) ts && tops_ok_l subs end
with tops_ok_l (l : nsl) : bool := match l with NNil => true | NCons n r => tops_ok n && tops_ok_l r end.
Definition version_ok (t : tinfo) : bool :=
  (0 <=? ti_major t)%Z && (ti_major t <? 256)%Z && (0 <=? ti_minor t)%Z && (ti_minor t <? 256)%Z.
(* witness of the id collision of the '_' scheme: T v1.1 nested once, and T v1.10 *)
Definition w_t11 : ty := Comp {| ci_t := mk_tinfo "regc.T" "regc" 1 1; ci_deprecated := false; ci_port := None; ci_union := false;
                                 ci_service := false; ci_svc_request := false; ci_doc := [] |} plain_u8.
Definition w_t110 : ty := Comp {| ci_t := mk_tinfo "regc.T" "regc" 1 10; ci_deprecated := false; ci_port := None; ci_union := false;
                                  ci_service := false; ci_svc_request := false; ci_doc := [] |} plain_u8.
Definition w_a : ty := Comp (mk_cinfo "regc.A" "regc" false) (ANested (lit "old") [] w_t11 ANil).
Definition w_site_collision : nst := NS (lit "regc") [] [(lit "A", w_a); (lit "T", w_t11); (lit "T", w_t110)] NNil.
Fixpoint nodup_str (l : list str) : bool := match l with [] => true | x :: r => negb (str_in x r) && nodup_str r end.

(* witness for links to a type that is not listed: r/_.0.1 { uint8 v }, r/X.1.0 { r._.0.1 t } *)
Definition w_us : ty := Comp {| ci_t := mk_tinfo "r._" "r" 0 1; ci_deprecated := false; ci_port := None; ci_union := false;
                                ci_service := false; ci_svc_request := false; ci_doc := [] |} plain_u8.
Definition w_x_us : ty := Comp (mk_cinfo "r.X" "r" false) (ANested (lit "t") [] w_us ANil).
Definition w_site_us : nst := NS (lit "r") [(lit "_", []); (lit "X", [])] [(lit "_", w_us); (lit "X", w_x_us)] NNil.

(* which of the kinds an id string belongs to, read off its end: 3 = ..._sidebar, 2 = ...--ns (namespace), 4 = ...-n<digits> (nesting
   occurrence), 1 = ...-<digits> (type), 0 = none of these (static ids) *)
Definition last_is_digit (x : str) : bool := match rev x with c :: _ => is_digit c | [] => false end.
Definition id_kind (x : str) : N :=
  if ends_with x s_sidebar_sfx then 3 else if ends_with x s_ddns then 2 else if nested_shape x then 4 else if last_is_digit x then 1 else 0.

(* witness for colliding namespace ids: a.b_c beside a.b.c (and the sidebar twins) *)
Definition w_site_nsdup : nst :=
  NS (lit "a") [] [] (NCons (NS (lit "a.b") [] [] (NCons (NS (lit "a.b.c") [] [] NNil) NNil)) (NCons (NS (lit "a.b_c") [] [] NNil) NNil)).
